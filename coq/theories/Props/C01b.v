(** C01, second generation -- from the bytes of the source file to the bytes of the pcap.
    This file holds only the pinned statements; proofs live in Proofs/C01 (SrcFront, SrcRun, LetUses,
    Headroom).  Props/C01.v is about a list of already parsed statements; here the whole of
    src/cli.rs process_file ([run_src]: line splitting, UTF-8 check, lexer, parser automaton fed line
    by line, statements executed as the parser finishes them, EOF) is in scope.

    Vocabulary (definitions in Proofs/C01):
    [compiles lines ss]    the lines are valid UTF-8, the lexical specification ([lines_tokens first_class],
                           Lex/LexSpec.v, Props/C10.v) gives the tokens [toks], and the reference parser
                           (Parse/RefParser.v, Props/C09.v) accepts [toks ++ EOF] with the statements [ss];
    [reads_prefix lines ss] some first k lines lex to tokens that can be continued to a sentence, and every
                           continuation the reference parser accepts begins with the statements [ss];
    [front], [finish]      the front end of process_lines on its own (the statements it hands over, how it
                           ends) and the CLI's report;
    [exprs_of ss]          the expressions of the expression statements of [ss], in order;
    [use x l]              the statement [x;] at location l;
    [run_vals p ss vs p']  (Proofs/C01/Program.v) running [ss] from [p] ends in [p'] and [vs] are the values
                           of the expression statements. *)
From RS Require Import Base.Bytes Base.Outcome Base.Utf8 Bind.Types Pkt.Packet Pkt.Pcap
  Lex.Tokens Lex.LexClass Lex.Scanner Lex.LexSpec Parse.Verdict Parse.Automaton Parse.Grammar Parse.RefParser
  Interp.Val Interp.Ast Interp.Eval Interp.Cli Interp.Run Lib.LibBase Lib.StdLib Spec.Timeline Spec.PcapRead.
From RS Require Import Proofs.C01.PcapLemmas Proofs.C01.EvalPreserves Proofs.C01.Program
  Proofs.C01.SrcFront Proofs.C01.SrcRun Proofs.C01.LetUses Proofs.C01.Headroom.
From RS Require Import Proofs.C08.LibPost Proofs.C13.EndToEnd Proofs.C14.Env.
From RSGen Require Import Catalogue.
Open Scope list_scope.
Open Scope N_scope.

(* ---------------------------------------------------------------- 1. end to end from source bytes *)

(** process_file is "front end, then interpreter", for any library: its result is that of executing
    the statements the front end hands over -- all of them, in that order, each once, in one run from
    the given state, the first failure stopping it -- followed by the front end's own verdict.  No
    statement is lost or repeated at a line boundary or at EOF *)
Theorem C01b_cli_is_front_then_interpreter : forall functions classes modules exec lines lno lx ps p,
  process_lines functions classes modules exec lno lines lx ps p
  = finish (add_stmts functions classes modules exec p (fst (front lno lines lx ps))) (snd (front lno lines lx ps)).
Proof. exact process_lines_front. Qed.

(** the front end succeeds exactly on the texts that compile, and hands over exactly the statements
    the reference parser assigns to the tokens the lexical specification assigns to the text *)
Theorem C01b_front_end_meets_specifications : forall lines ss,
  front 1 lines lexer_init parser_init = (ss, FeDone) <-> compiles lines ss.
Proof. exact front_compiles. Qed.

(** [compiles] in terms of the grammar: the tokens followed by EOF are a sentence with the tree [ss]
    (locations aside), and a text has at most one statement list *)
Theorem C01b_compiles_is_sentence : forall lines ss, compiles lines ss ->
  exists st toks, lines_tokens first_class (nil_loc, None) 1 lines = (st, Ok toks)
    /\ sentence (toks ++ [eof_token]) (map erase_stmt ss).
Proof. exact compiles_sentence. Qed.

Theorem C01b_compiles_functional : forall lines ss1 ss2, compiles lines ss1 -> compiles lines ss2 -> ss1 = ss2.
Proof. exact compiles_functional. Qed.

(** EOF never shifts: feeding it ends in the accepting state or in a parse error, so a file whose
    last statement is unfinished is never reported as a success with that statement dropped *)
Theorem C01b_eof_accepts_or_fails : forall p q, feed p eof_token = Ok q -> p_state q = StAccept.
Proof. exact feed_eof_accepts. Qed.

(** success, any library: exactly the texts that compile and whose statements all execute; the final
    state is the state after executing them from the initial state *)
Theorem C01b_process_file_ok : forall functions classes modules exec src p',
  process_file functions classes modules exec src = CliOk p' <->
  exists ss, compiles (split_lines src) ss /\ add_stmts functions classes modules exec prog_init ss = ROk tt p'.
Proof. exact process_file_ok. Qed.

(** failure, any library: the statements [done] were executed -- the first statements of what the text
    prescribes -- and the output is theirs.  Either the front end stopped (a line that is not UTF-8: I/O
    error without location; a lex error; a parse error) and the state is exactly theirs, or the next
    statement failed, having written nothing *)
Theorem C01b_process_file_err : forall functions classes modules exec src e l p',
  process_file functions classes modules exec src = CliErr e l p' ->
  exists done p0, add_stmts functions classes modules exec prog_init done = ROk tt p0 /\ p_out p' = p_out p0
    /\ ( (reads_prefix (split_lines src) done /\ p' = p0
          /\ ((e = EIo /\ l = nil_loc) \/ e = ELex \/ e = EParse))
         \/ (exists s rest, add_stmt functions classes modules exec p0 s = RErr e p' /\ l = p_loc p'
               /\ (compiles (split_lines src) (done ++ s :: rest) \/ reads_prefix (split_lines src) (done ++ s :: rest)))).
Proof. exact process_file_err. Qed.

(** a statement that fails with an error has written nothing, any library *)
Theorem C01b_failing_statement_writes_nothing : forall functions classes modules exec p s e p',
  add_stmt functions classes modules exec p s = RErr e p' -> p_out p' = p_out p.
Proof. intros F C M X. exact (@add_stmt_err_quiet F C M X). Qed.

(** the real library: compiling a source text is compiling it (specifications) and running the statements *)
Theorem C01b_source_run_is_compile_then_run : forall files src pcap warnings trace,
  run_src files src = RunOk pcap warnings trace <->
  exists ss, compiles (split_lines src) ss /\ run files ss = RunOk pcap warnings trace.
Proof. exact run_src_ok. Qed.

(** ... and the output file of a successful compilation is the global header followed by exactly the
    records of the values [vs] of the expression statements of the text's statement list, in statement
    order then generation order; the independent reader parses it back -- magic, version 2.4, link type
    1, caplen = len = byte count, bytes unaltered, nothing missing or trailing -- as soon as the file
    is shorter than 4 GiB (or all frames are) *)
Theorem C01b_source_pcap : forall files src pcap warnings trace,
  run_src files src = RunOk pcap warnings trace ->
  exists ss vs p', compiles (split_lines src) ss
    /\ add_stmts catalogue class_table module_table (exec {| env_files := files |}) prog_init ss = ROk tt p'
    /\ run_vals catalogue class_table module_table (exec {| env_files := files |}) prog_init ss vs p'
    /\ pcap = pcap_of p' /\ pcap = file_of (timeline 0 vs)
    /\ (Forall rec_ok (timeline 0 vs) -> pcap_read pcap = Some (map abs_rec (timeline 0 vs)))
    /\ (len pcap < 4294967296 -> pcap_read pcap = Some (map abs_rec (timeline 0 vs))).
Proof. exact run_src_pcap. Qed.

(** a failed compilation leaves (with -k) the complete output of the statements executed before the
    failure: a well-formed pcap again *)
Theorem C01b_failed_run_partial_pcap : forall files src e l partial,
  run_src files src = RunErr e l partial ->
  exists done vs p0,
    run_vals catalogue class_table module_table (exec {| env_files := files |}) prog_init done vs p0
    /\ partial = file_of (timeline 0 vs)
    /\ (len partial < 4294967296 -> pcap_read partial = Some (map abs_rec (timeline 0 vs)))
    /\ ( reads_prefix (split_lines src) done
         \/ exists s rest p', add_stmt catalogue class_table module_table (exec {| env_files := files |}) p0 s = RErr e p'
              /\ l = p_loc p'
              /\ (compiles (split_lines src) (done ++ s :: rest) \/ reads_prefix (split_lines src) (done ++ s :: rest))).
Proof. exact run_src_err. Qed.

(** the last line needs no newline: same lines, hence the very same result *)
Theorem C01b_final_newline_irrelevant : forall files pre lastl,
  Forall (fun l => ~ In 10 l /\ last l 0 <> 13) pre -> ~ In 10 lastl -> last lastl 0 <> 13 -> lastl <> [] ->
  split_lines (join_lf pre ++ lastl) = pre ++ [lastl]
  /\ run_src files (join_lf pre ++ lastl) = run_src files (join_lf (pre ++ [lastl])).
Proof.
  intros files pre lastl H1 H2 H3 H4.
  exact (conj (split_lines_no_final_newline pre lastl H1 H2 H4) (final_newline_irrelevant files pre lastl H1 H2 H3 H4)).
Qed.

(** one value per expression statement, in order; a let or an import has none, any library *)
Theorem C01b_one_value_per_expression_statement : forall functions classes modules exec p ss vs p',
  run_vals functions classes modules exec p ss vs p' ->
  Forall2 (fun e v => exists q q', eval functions classes modules exec q e = ROk v q') (exprs_of ss) vs.
Proof. exact run_vals_aligned. Qed.

(* ---------------------------------------------------------------- 2. the size premise *)

(** [rec_ok] (a frame length fits the 32-bit caplen/len fields; longer frames cannot be represented
    in a pcap record at all) is implied by the output file being shorter than 4 GiB ... *)
Theorem C01b_small_file_records_ok : forall recs, len (file_of recs) < 4294967296 -> Forall rec_ok recs.
Proof. exact file_small_rec_ok. Qed.

Theorem C01b_pcap_read_small_file : forall recs, len (file_of recs) < 4294967296 ->
  pcap_read (file_of recs) = Some (map abs_rec recs).
Proof. exact pcap_read_small. Qed.

(** ... and is a premise on the emitted values only: every frame of every value shorter than 4 GiB *)
Theorem C01b_rec_ok_is_about_frames : forall vs now,
  Forall rec_ok (timeline now vs) <-> Forall (fun v => Forall (fun f => len f < 4294967296) (frames v)) vs.
Proof. exact rec_ok_timeline. Qed.

(* ---------------------------------------------------------------- 3. let-bound packets *)

(** a let writes nothing and does not move the clock, any library *)
Theorem C01b_let_writes_nothing : forall functions classes modules exec p l x e p1,
  add_stmt functions classes modules exec p (SAssign l x e) = ROk tt p1 -> p_now p1 = p_now p /\ p_out p1 = p_out p.
Proof. exact let_writes_nothing. Qed.

(** while x is bound to v, every statement [x;] produces v *)
Theorem C01b_bound_name_emits_stored_value : forall functions classes modules exec p ss vs p' x v,
  run_vals functions classes modules exec p ss vs p' ->
  NoDup (map fst (p_regs p)) -> assoc x (p_regs p) = Some v ->
  Forall2 (fun e w => forall l, e = ERef l [] [x] -> w = v) (exprs_of ss) vs.
Proof. exact bound_uses. Qed.

(** the program-level theorem, any library, any program  pre ; let x = e ; rest  that runs to the end:
    [e] is evaluated once, at the let, to [v]; the file is the header followed by the records of the
    values of [pre]'s expression statements and then of [rest]'s -- the let has no slot -- and in [rest],
    whatever else it does (also to the object that made the packet), every statement [x;], however many
    there are, has exactly [v] in its slot *)
Theorem C01b_let_uses_file : forall functions classes modules exec pre l x e rest p',
  add_stmts functions classes modules exec prog_init (pre ++ SAssign l x e :: rest) = ROk tt p' ->
  exists p0 v p1 vs_pre vs_rest,
    run_vals functions classes modules exec prog_init pre vs_pre p0
    /\ eval functions classes modules exec (set_loc p0 l) e = ROk v p1
    /\ run_vals functions classes modules exec (bind_reg p1 x v) rest vs_rest p'
    /\ Forall2 (fun ex w => forall l', ex = ERef l' [] [x] -> w = v) (exprs_of rest) vs_rest
    /\ length vs_pre = length (exprs_of pre)
    /\ pcap_of p' = file_of (timeline 0 (vs_pre ++ vs_rest))
    /\ (len (pcap_of p') < 4294967296 ->
        pcap_read (pcap_of p') = Some (map abs_rec (timeline 0 (vs_pre ++ vs_rest)))).
Proof. exact let_uses_file. Qed.

(** the shape  pre ; let x = e ; mid ; x ; post  *)
Theorem C01b_let_mid_use_file : forall functions classes modules exec pre l x e mid l' post p',
  add_stmts functions classes modules exec prog_init (pre ++ [SAssign l x e] ++ mid ++ [use x l'] ++ post) = ROk tt p' ->
  exists p0 v p1 vs_pre vs_mid vs_post,
    run_vals functions classes modules exec prog_init pre vs_pre p0
    /\ eval functions classes modules exec (set_loc p0 l) e = ROk v p1
    /\ length vs_pre = length (exprs_of pre) /\ length vs_mid = length (exprs_of mid)
    /\ length vs_post = length (exprs_of post)
    /\ Forall2 (fun ex w => forall l', ex = ERef l' [] [x] -> w = v) (exprs_of mid) vs_mid
    /\ Forall2 (fun ex w => forall l', ex = ERef l' [] [x] -> w = v) (exprs_of post) vs_post
    /\ pcap_of p' = file_of (timeline 0 (vs_pre ++ vs_mid ++ [v] ++ vs_post)).
Proof. exact let_mid_use_file. Qed.

(** k uses give k copies (with Props/C01.v C01_reemit_same: k times the same frames) *)
Theorem C01b_let_k_uses_file : forall functions classes modules exec pre l x e ls p',
  add_stmts functions classes modules exec prog_init (pre ++ SAssign l x e :: map (use x) ls) = ROk tt p' ->
  exists p0 v p1 vs_pre,
    run_vals functions classes modules exec prog_init pre vs_pre p0
    /\ eval functions classes modules exec (set_loc p0 l) e = ROk v p1
    /\ pcap_of p' = file_of (timeline 0 (vs_pre ++ repeat v (length ls))).
Proof. exact let_k_uses_file. Qed.

(* ---------------------------------------------------------------- 4. headroom *)

(** writing a packet with 16 bytes of headroom succeeds, gives header ++ frame, and returns the
    headroom: the packet that comes back has as much headroom and the same frame *)
Theorem C01b_write_returns_headroom : forall t k, pkt_ok k ->
  exists k', write_packet t k = Ok (pcap_rec_hdr t (len (pk_body k)) ++ pk_body k, k')
    /\ length (pk_hr k') = length (pk_hr k) /\ pk_body k' = pk_body k /\ pkt_ok k'.
Proof. exact write_packet_returns_headroom. Qed.

(** ... so the same packet object can be written any number of times (Props/C08b.v: every packet the
    library returns, and every packet the interpreter stores, is [pkt_ok]) *)
Theorem C01b_rewrite_any_number_of_times : forall ts k, pkt_ok k ->
  exists k', write_many ts k = Ok (map (fun t => pcap_rec_hdr t (len (pk_body k)) ++ pk_body k) ts, k')
    /\ pk_body k' = pk_body k /\ pkt_ok k'.
Proof. exact write_many_ok. Qed.

(* ---------------------------------------------------------------- non-vacuity *)

(** a five-line script without final newline, one statement spread over two lines, two on one line,
    a let-bound packet used twice: three records, the first and the third the very same 44 bytes,
    caplen = len = byte count; and a script whose fourth statement fails (unknown name) after one
    record: the partial file is the header and that record *)
Example C01b_nonvacuous :
  let nl := String (Ascii.ascii_of_N 10) EmptyString in
  let src := bytes_of_string ("import ipv4;" ++ nl
     ++ "let p = ipv4::udp::unicast(1.2.3.4:1, 5.6.7.8:2, ""hi"");" ++ nl
     ++ "p; ipv4::udp::unicast(1.2.3.4:1, 5.6.7.8:2," ++ nl
     ++ "  ""x"");" ++ nl
     ++ "p;")%string in
  let bad := bytes_of_string ("import ipv4;" ++ nl
     ++ "let p = ipv4::udp::unicast(1.2.3.4:1, 5.6.7.8:2, ""hi"");" ++ nl
     ++ "p; q;" ++ nl ++ "p;" ++ nl)%string in
  let shape pcap := option_map (map (fun r => (r_caplen r, r_len r, len (r_frame r)))) (pcap_read pcap) in
  (match run_src [] src with
   | RunOk pcap _ _ =>
     len pcap = 24 + (16 + 44) + (16 + 43) + (16 + 44)
     /\ shape pcap = Some [(44, 44, 44); (43, 43, 43); (44, 44, 44)]
     /\ option_map (fun rs => map r_frame (firstn 1 rs)) (pcap_read pcap)
        = option_map (fun rs => map r_frame (skipn 2 rs)) (pcap_read pcap)
   | _ => False
   end)
  /\ (match run_src [] bad with
      | RunErr EName (3, 4) partial => len partial = 24 + 16 + 44 /\ shape partial = Some [(44, 44, 44)]
      | _ => False
      end).
Proof. cbv zeta. split; vm_compute; repeat split; reflexivity. Qed.
