(** C07b -- the "consequently" of C07 made explicit, and C07 at the level the interpreter executes.
    Pinned statements only; proofs in Proofs/C07/{Compose,LibFrag}.v.
    A request ([req]: RFrag off len | RTail off | RDgram, run by [req_run] = frag_fragment / frag_tail /
    frag_datagram) designates the fragment [req_fragment payload r]: offset [req_off r], the payload
    bytes from 8*off up to the clipped end [req_end |payload| r] (= min(8*off+8*len, |payload|) for
    fragment(), |payload| for tail() and datagram()), MF clear exactly when that end is |payload|.
    [emitted_ok f r raw p]: the packet, read as RFC 791 lays a datagram out ([fragment_of] of its IPv4
    view [l3_of raw]), IS that fragment, carries the context's src/dst/proto/id/ttl/DF/evil, and its IPv4
    header verifies with an exact total length.
    Library theorems are partial-correctness statements ("whenever the call returns a value");
    that binder-accepted calls never panic is C08. *)
From RS Require Import Base.Bytes Base.Outcome Bind.Types Pkt.Hdrs Pkt.Packet Ez.Ip4 Interp.Val Interp.Eval
  Lib.LibBase Lib.StdLib Spec.Wire Spec.Reasm4
  Proofs.C02.TcpIp Proofs.C03.LibCalls Proofs.C03.LibFrame
  Proofs.C07.Reasm Proofs.C07.FragExact Proofs.C07.Compose Proofs.C07.LibFrag.
From RSGen Require Import Catalogue.
From Coq Require Import Permutation.
Open Scope N_scope.

(* ------------------------------------------------------------------ one request *)
(** every request succeeds, and for a request addressing bytes inside the payload (8*off <= |payload|)
    the emitted packet is exactly the designated fragment with the context's header *)
Theorem C07_requests_total : forall f reqs, exists ps, emits f reqs ps.
Proof. exact emits_total. Qed.

Theorem C07_request_emitted : forall f r raw p,
  ctx_ok (fr_hdr f) -> 20 + len (fr_payload f) < 65536 -> req_ok (len (fr_payload f)) r ->
  req_run f r raw = Ok p -> emitted_ok f r raw p.
Proof. exact req_emitted. Qed.

(** datagram() is tail(0); tail(off) is fragment(off, |payload|) (C07_tail_is_fragment) *)
Theorem C07_datagram_is_tail : forall f raw,
  len (fr_payload f) < 65536 -> frag_datagram f raw = frag_tail f 0 raw.
Proof. exact datagram_is_tail. Qed.

(** what the edge requests yield: a zero-length request an empty fragment at its offset (MF clear only
    at the very end of the payload); an over-long request -- any reaching the end, in particular every
    length >= 8192 units, whose byte count exceeds 16 bits -- what tail() yields: the rest, MF clear *)
Theorem C07_zero_length_request : forall payload off, off * 8 <= len payload ->
  req_fragment payload (RFrag off 0) = {| fg_off := off; fg_mf := negb (off * 8 =? len payload); fg_data := [] |}.
Proof. exact req_zero_length. Qed.

Theorem C07_overlong_request : forall payload off l,
  len payload <= off * 8 + l * 8 \/ (len payload < 65536 /\ 8192 <= l) ->
  off * 8 <= len payload ->
  req_fragment payload (RFrag off l) = req_fragment payload (RTail off)
  /\ req_fragment payload (RTail off) = {| fg_off := off; fg_mf := false; fg_data := dropN (off * 8) payload |}.
Proof.
  intros payload off l [H|(H1 & H2)] Hok; (split; [|apply req_tail_data; exact Hok]).
  - apply req_overlong; exact H.
  - apply req_overlong_8192; assumption.
Qed.

(** raw: honoured -- the framed record is the raw record behind a 14-byte Ethernet header *)
Theorem C07_raw_honoured : forall f r pr pf,
  req_run f r true = Ok pr -> req_run f r false = Ok pf ->
  let eth := eth_ser (eth_new (mac_of_ip (ip_src (fr_hdr f))) (mac_of_ip (ip_dst (fr_hdr f))) ETH_IPV4) in
  pk_body pf = (eth ++ pk_body pr)%list /\ length eth = 14%nat
  /\ l3_of false (pk_body pf) = pk_body pr /\ l3_of true (pk_body pr) = pk_body pr.
Proof. exact raw_honoured. Qed.

(* ------------------------------------------------------------------ MF exactness *)
(** the more-fragments bit on the wire is clear iff the request's clipped end is the end of the payload *)
Theorem C07_mf_clear_iff : forall f r raw p,
  ctx_ok (fr_hdr f) -> 20 + len (fr_payload f) < 65536 -> req_ok (len (fr_payload f)) r ->
  req_run f r raw = Ok p ->
  (N.land (ip_frag_of (l3_of raw (pk_body p))) 8192 = 0 <-> req_end (len (fr_payload f)) r = len (fr_payload f)).
Proof. exact mf_clear_iff. Qed.

(** fragment(): clear iff 8*(off+len) reaches the end (so: always for the empty payload, for an
    exact-fit last fragment, for every over-long request); tail() -- also tail(0) of a payload that is
    not a multiple of 8 -- and datagram(): always clear *)
Theorem C07_mf_cases : forall f raw p,
  ctx_ok (fr_hdr f) -> 20 + len (fr_payload f) < 65536 ->
  let plen := len (fr_payload f) in
  let mf_clear := N.land (ip_frag_of (l3_of raw (pk_body p))) 8192 = 0 in
  (forall off l, off * 8 <= plen -> frag_fragment f off l raw = Ok p -> (mf_clear <-> plen <= off * 8 + l * 8))
  /\ (forall off, off * 8 <= plen -> frag_tail f off raw = Ok p -> mf_clear)
  /\ (frag_datagram f raw = Ok p -> mf_clear).
Proof. exact mf_cases. Qed.

(* ------------------------------------------------------------------ composition *)
(** a covering list of requests contains one whose fragment has MF clear (proved, not assumed); for
    the empty payload covering is vacuous and the list must merely be non-empty *)
Theorem C07_cover_has_last : forall payload reqs,
  reqs_ok (len payload) reqs -> reqs_cover (len payload) reqs -> (len payload = 0 -> reqs <> []) ->
  exists q, In q reqs /\ fg_mf (req_fragment payload (fst q)) = false.
Proof. exact cover_has_last. Qed.

(** any requests (each with its own raw: option) that address the payload and whose clipped ranges
    cover it: the emitted packets, read as IPv4 fragments, reassemble by RFC 791 to exactly the payload,
    and so does every list with the same members -- every permutation, with any duplicates *)
Theorem C07_compose_reassembles : forall f reqs ps fs',
  ctx_ok (fr_hdr f) -> 20 + len (fr_payload f) < 65536 ->
  reqs_ok (len (fr_payload f)) reqs -> reqs_cover (len (fr_payload f)) reqs ->
  (len (fr_payload f) = 0 -> reqs <> []) ->
  emits f reqs ps ->
  (forall x, In x (views reqs ps) <-> In x fs') ->
  reassemble fs' = Some (fr_payload f).
Proof. exact compose_reassembles. Qed.

Theorem C07_compose_permutation : forall f reqs ps fs',
  ctx_ok (fr_hdr f) -> 20 + len (fr_payload f) < 65536 ->
  reqs_ok (len (fr_payload f)) reqs -> reqs_cover (len (fr_payload f)) reqs ->
  (len (fr_payload f) = 0 -> reqs <> []) ->
  emits f reqs ps -> Permutation (views reqs ps) fs' ->
  reassemble fs' = Some (fr_payload f).
Proof. exact compose_permutation. Qed.

(** all of them carry one reassembly key (src, dst, proto, id) -- the context's -- and are the
    designated fragments *)
Theorem C07_compose_same_key : forall f reqs ps,
  ctx_ok (fr_hdr f) -> 20 + len (fr_payload f) < 65536 -> reqs_ok (len (fr_payload f)) reqs ->
  emits f reqs ps ->
  Forall2 (fun q p => emitted_ok f (fst q) (snd q) p) reqs ps.
Proof. exact compose_same_key. Qed.

(* ------------------------------------------------------------------ library level *)
(** ipv4::frag(src, dst, id:, evil:, df:, ttl:, proto:, payload...): a new object whose header has
    exactly the designated fields (id mod 2^16, ttl and proto mod 2^8 -- the binder only passes values
    in range, so these are the values written), flags word evil*0x8000 + df*0x4000, total length /
    checksum not yet set, and whose payload is the concatenation of the collected arguments' bytes;
    it satisfies [ctx_ok] as soon as the two addresses are 32-bit (as the lexer produces them) *)
Theorem C07_frag_created : forall e slots extra h v h',
  exec e "ipv4::frag" None slots extra h = Some (Ok (v, h')) ->
  exists src dst id evil df ttl proto bs,
    conv_ip4 (nth 0 slots VNil) = Ok src /\ conv_ip4 (nth 1 slots VNil) = Ok dst
    /\ conv_u16 (nth 2 slots VNil) = Ok id /\ conv_bool (nth 3 slots VNil) = Ok evil
    /\ conv_bool (nth 4 slots VNil) = Ok df /\ conv_u8 (nth 5 slots VNil) = Ok ttl
    /\ conv_u8 (nth 6 slots VNil) = Ok proto /\ omapM conv_buf extra = Ok bs
    /\ let f := {| fr_hdr := {| ip_tot_len := 20; ip_id := id; Hdrs.ip_frag := ctx_flags evil df; ip_ttl := ttl;
                                ip_proto := proto; ip_csum := 0; ip_src := src; ip_dst := dst |};
                   fr_payload := concat bs |} in
       v = VObj (length h) /\ h' = (h ++ [OFrag f])%list
       /\ (src < 4294967296 -> dst < 4294967296 -> ctx_ok (fr_hdr f)).
Proof. exact frag_created. Qed.

(** EVERY method of the IpFrag class in the catalogue's class table, through [exec], on a heap where the
    receiver is a context: the heap is unchanged (contexts are immutable), the arguments designate a
    request ([frag_call_req]: fragment(off, len, raw:), tail(off, raw:), datagram(raw:), offsets and
    lengths as 16-bit values), and the result is that request's packet -- on the wire the designated
    fragment with the context's header, read with raw: honoured *)
Theorem C07_frag_methods : forall e ms name key slots extra h a f v h',
  assoc frag_class class_table = Some ms -> In (name, key) ms ->
  nth_error h a = Some (OFrag f) -> ctx_ok (fr_hdr f) -> 20 + len (fr_payload f) < 65536 ->
  exec e key (Some a) slots extra h = Some (Ok (v, h')) ->
  h' = h /\ exists q p, frag_call_req name slots = Some q /\ v = VPkt p /\ req_run f (fst q) (snd q) = Ok p
    /\ (req_ok (len (fr_payload f)) (fst q) -> emitted_ok f (fst q) (snd q) p).
Proof. exact frag_method_wire. Qed.

(** the [foreign] steps of the history theorems include IpFrag methods on any object, and the two
    functions of the module (C03_family_*_foreign: the flow classes and their constructors) *)
Theorem C07_frag_methods_foreign : forall e name key a a' slots extra,
  class_method frag_class name key -> foreign e a (mcall key a' slots extra).
Proof. exact frag_methods_foreign. Qed.

Theorem C07_frag_functions_foreign : forall e key a slots extra,
  In key ["ipv4::frag"; "ipv4::datagram"]%string -> foreign e a (fcall key slots extra).
Proof. exact frag_functions_foreign. Qed.

(** any history of calls, each an IpFrag method on the object at [a] or a call leaving that object
    alone: the object is the same context at the end; the requests made of it ([hist_reqs]) returned,
    in order, exactly their packets ([hist_pkts]); the k-th call, if an IpFrag method on [a], designates
    a request and returned its packet *)
Theorem C07_frag_history : forall e a cs h f vs h',
  nth_error h a = Some (OFrag f) ->
  Forall (fun c => frag_call_on a c \/ foreign e a c) cs ->
  run_hist e cs h = Some (vs, h') ->
  nth_error h' a = Some (OFrag f)
  /\ emits f (hist_reqs a cs) (hist_pkts a cs vs)
  /\ forall k c v, nth_error cs k = Some c -> nth_error vs k = Some v -> frag_call_on a c ->
       exists q p, frag_req_of a c = Some q /\ v = VPkt p /\ req_run f (fst q) (snd q) = Ok p.
Proof. exact frag_history. Qed.

Theorem C07_frag_history_wire : forall e a cs h f vs h',
  nth_error h a = Some (OFrag f) -> ctx_ok (fr_hdr f) -> 20 + len (fr_payload f) < 65536 ->
  Forall (fun c => frag_call_on a c \/ foreign e a c) cs ->
  run_hist e cs h = Some (vs, h') ->
  forall k c v, nth_error cs k = Some c -> nth_error vs k = Some v -> frag_call_on a c ->
    exists q p, frag_req_of a c = Some q /\ v = VPkt p
      /\ (req_ok (len (fr_payload f)) (fst q) -> emitted_ok f (fst q) (snd q) p).
Proof. exact frag_history_wire. Qed.

(** end to end: if the requests a history makes of a context address and cover its payload, the
    packets they returned reassemble to the payload, in any order, with duplicates *)
Theorem C07_history_reassembles : forall e a cs h f vs h' fs',
  nth_error h a = Some (OFrag f) -> ctx_ok (fr_hdr f) -> 20 + len (fr_payload f) < 65536 ->
  Forall (fun c => frag_call_on a c \/ foreign e a c) cs ->
  run_hist e cs h = Some (vs, h') ->
  reqs_ok (len (fr_payload f)) (hist_reqs a cs) -> reqs_cover (len (fr_payload f)) (hist_reqs a cs) ->
  (len (fr_payload f) = 0 -> hist_reqs a cs <> []) ->
  (forall x, In x (views (hist_reqs a cs) (hist_pkts a cs vs)) <-> In x fs') ->
  reassemble fs' = Some (fr_payload f).
Proof. exact history_reassembles. Qed.

(** non-vacuity: ipv4::frag with a 43-byte payload collected from three arguments, then tail(2),
    datagram(), fragment(1,3), fragment(0,2), an over-long fragment(5,9000), a zero-length fragment(3,0),
    mixed framing: the history runs, the premises of the theorems hold, the fragments are as designated,
    and they reassemble in emission order, reversed, and from the two-piece cover alone; without the
    piece for bytes 0..8 there is a hole *)
Example C07b_nonvacuous :
  exists v0 vs f,
    run_hist ex_env ex_calls [] = Some (v0 :: vs, [OFrag f])
    /\ fr_payload f = ex_payload /\ ctx_ok (fr_hdr f) /\ 20 + len (fr_payload f) < 65536
    /\ Forall (fun c => frag_call_on 0 c \/ foreign ex_env 0 c) (tl ex_calls)
    /\ hist_reqs 0 (tl ex_calls) = ex_reqs
    /\ reqs_ok (len (fr_payload f)) ex_reqs /\ reqs_cover (len (fr_payload f)) ex_reqs
    /\ let fs := views ex_reqs (hist_pkts 0 (tl ex_calls) vs) in
       map (fun x => (fg_off x, fg_mf x, len (fg_data x))) fs
         = [(2, false, 27); (0, false, 43); (1, true, 24); (0, true, 16); (5, false, 3); (3, true, 0)]
       /\ reassemble fs = Some ex_payload /\ reassemble (rev fs) = Some ex_payload
       /\ reassemble (firstn 1 (skipn 3 fs) ++ firstn 1 fs) = Some ex_payload
       /\ reassemble (firstn 1 (skipn 2 fs) ++ firstn 1 fs) = None.
Proof.
  eexists. eexists. eexists. split; [vm_compute; reflexivity|].
  split; [vm_compute; reflexivity|].
  split; [split; [unfold IpLemmas.ip_wf; cbn; lia|cbn; tauto]|].
  split; [vm_compute; reflexivity|].
  split; [exact ex_steps|]. split; [vm_compute; reflexivity|].
  split; [exact (proj1 ex_cover)|]. split; [exact (proj2 ex_cover)|].
  cbn zeta. split; [vm_compute; reflexivity|]. split; [vm_compute; reflexivity|].
  split; [vm_compute; reflexivity|]. split; vm_compute; reflexivity.
Qed.

