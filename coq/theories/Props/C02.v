(** C02 -- every emitted IPv4 header is self-consistent: length, fields, checksum.
    Only pinned statements; proofs are in Proofs/C02. [frame_ip_ok raw p] says that the IPv4 part of
    packet p (everything after the 14-byte Ethernet header unless raw) passes [Spec.Wire.ipv4_ok]:
    version/IHL 0x45, total length = bytes to the end of the datagram, header checksum verifies. *)
From RS Require Import Base.Bytes Base.Outcome Pkt.Csum Pkt.Hdrs Pkt.Packet Ez.Tcp Ez.Udp Ez.Icmp Ez.Ip4 Ez.Gre
  Interp.Val Lib.Ipv4Lib Spec.Wire
  Proofs.C02.CsumLemmas Proofs.C02.IpLemmas Proofs.C02.TcpIp Proofs.C02.OtherIp Proofs.C02.DgramIp.
Open Scope N_scope.

(** arithmetic core: storing fold(S) in a zeroed checksum field makes the region verify *)
Theorem C02_csum_set_then_verify : forall l l' S,
  wsum l = S -> S < 4294901760 -> wsum l' = S + csum_fold S -> verifies l' = true.
Proof. exact csum_set_then_verify. Qed.

Theorem C02_ip_calc_verifies : forall h, ip_wf h -> verifies (ip_ser (ip_calc_csum h)) = true.
Proof. exact ip_calc_verifies. Qed.

Theorem C02_ipv4_ok_intro : forall h rest,
  ip_wf h -> ip_tot_len h = 20 + len rest -> ipv4_ok (ip_ser (ip_calc_csum h) ++ rest) = true.
Proof. exact ipv4_ok_intro. Qed.

(* ---- TCP flow operations (any state of the flow, any payload that fits) ---- *)
Theorem C02_tcp_open : forall f f' ps, flow_wf f -> flow_open f = Ok (f', ps) ->
  Forall (frame_ip_ok (tf_raw f)) ps /\ flow_wf f'.
Proof. exact flow_open_ip_ok. Qed.
Theorem C02_tcp_client_close : forall f f' ps, flow_wf f -> flow_client_close f = Ok (f', ps) ->
  Forall (frame_ip_ok (tf_raw f)) ps /\ flow_wf f'.
Proof. exact flow_client_close_ip_ok. Qed.
Theorem C02_tcp_server_close : forall f f' ps, flow_wf f -> flow_server_close f = Ok (f', ps) ->
  Forall (frame_ip_ok (tf_raw f)) ps /\ flow_wf f'.
Proof. exact flow_server_close_ip_ok. Qed.
Theorem C02_tcp_client_message : forall f b sa off f' ps,
  flow_wf f -> off < 65536 -> 40 + len b < 65536 ->
  flow_client_message f b sa off = Ok (f', ps) -> Forall (frame_ip_ok (tf_raw f)) ps /\ flow_wf f'.
Proof. exact flow_client_message_ip_ok. Qed.
Theorem C02_tcp_server_message : forall f b sa off f' ps,
  flow_wf f -> off < 65536 -> 40 + len b < 65536 ->
  flow_server_message f b sa off = Ok (f', ps) -> Forall (frame_ip_ok (tf_raw f)) ps /\ flow_wf f'.
Proof. exact flow_server_message_ip_ok. Qed.
Theorem C02_tcp_data_segment : forall (client : bool) f b f' s,
  flow_wf f -> 40 + len b < 65536 ->
  (if client then flow_client_data_segment f b else flow_server_data_segment f b) = Ok (f', s) ->
  frame_ip_ok (tf_raw f) (seg_packet s) /\ flow_wf f'.
Proof. exact flow_data_segment_ip_ok. Qed.
Theorem C02_tcp_ack_reset : forall f, flow_wf f ->
  (forall s, flow_client_ack f = Ok s -> frame_ip_ok (tf_raw f) (seg_packet s)) /\
  (forall s, flow_server_ack f = Ok s -> frame_ip_ok (tf_raw f) (seg_packet s)) /\
  (forall p, flow_client_reset f = Ok p -> frame_ip_ok (tf_raw f) p) /\
  (forall p, flow_server_reset f = Ok p -> frame_ip_ok (tf_raw f) p).
Proof. exact flow_ack_reset_ip_ok. Qed.

(* ---- UDP: unicast / broadcast / flow datagrams; options applied after the payload ---- *)
Theorem C02_udp_addressed_push : forall raw s t b d,
  sock_wf s -> sock_wf t -> 28 + len b < 65536 ->
  udp_push (udp_dst (udp_src (udp_new raw) s) t) b = Ok d -> udp_inv d /\ ud_raw d = raw /\ ud_payload d = b.
Proof. exact udp_addressed_push. Qed.
Theorem C02_udp_flow_dgram : forall (client : bool) f b d,
  uflow_wf f -> 28 + len b < 65536 ->
  (if client then uflow_client_dgram f b else uflow_server_dgram f b) = Ok d -> udp_inv d /\ ud_raw d = uf_raw f.
Proof. exact uflow_dgram_ok. Qed.
Theorem C02_udp_options_keep : forall d,
  udp_inv d ->
  (forall off, off < 65536 -> udp_inv (udp_frag_off d off)) /\
  (forall a, a < 4294967296 -> udp_inv (udp_srcip d a)) /\
  (forall d', udp_csum d = Ok d' -> udp_inv d').
Proof.
  intros d H. split; [|split].
  - intros off Ho. apply udp_frag_off_inv; assumption.
  - intros a Ha. apply udp_srcip_inv; assumption.
  - intros d' E. eapply udp_csum_inv; eassumption.
Qed.
Theorem C02_udp_packet : forall d, udp_inv d -> frame_ip_ok (ud_raw d) (udp_packet d).
Proof. exact udp_packet_ok. Qed.

(* ---- tunnel outer headers ---- *)
Theorem C02_vxlan : forall f inner p,
  sock_wf (vx_cl f) -> sock_wf (vx_sv f) -> 36 + len inner < 65536 ->
  vxlan_encap f inner = Ok p -> frame_ip_ok (vx_raw f) p.
Proof. exact vxlan_encap_ip_ok. Qed.
Theorem C02_gre : forall f b f' p,
  gl_cl f < 4294967296 -> gl_sv f < 4294967296 -> 28 + len b < 65536 ->
  gre_flow_encap f b = Ok (f', p) -> frame_ip_ok (gl_raw f) p.
Proof. exact gre_flow_encap_ip_ok. Qed.
Theorem C02_erspan1 : forall f b p,
  e1_cl f < 4294967296 -> e1_sv f < 4294967296 -> 28 + len b < 65536 ->
  erspan1_encap f b = Ok p -> frame_ip_ok (e1_raw f) p.
Proof. exact erspan1_encap_ip_ok. Qed.
Theorem C02_erspan2 : forall f b ix f' p,
  e2_cl f < 4294967296 -> e2_sv f < 4294967296 -> 36 + len b < 65536 ->
  erspan2_encap f b ix = Ok (f', p) -> frame_ip_ok (e2_raw f) p.
Proof. exact erspan2_encap_ip_ok. Qed.

(* ---- ICMP, fragments, raw datagram ---- *)
Theorem C02_icmp : forall src dst raw typ id seq b p,
  src < 4294967296 -> dst < 4294967296 -> 28 + len b < 65536 ->
  icmp_dgram src dst raw typ id seq b = Ok p -> frame_ip_ok raw p.
Proof. exact icmp_dgram_ip_ok. Qed.
Theorem C02_fragment : forall f off l raw p,
  ip_wf (fr_hdr f) -> off < 65536 -> 20 + len (fr_payload f) < 65536 ->
  frag_fragment f off l raw = Ok p -> frame_ip_ok raw p.
Proof. exact frag_fragment_ip_ok. Qed.
Theorem C02_frag_datagram : forall f raw p,
  ip_wf (fr_hdr f) -> 20 + len (fr_payload f) < 65536 -> frag_datagram f raw = Ok p -> frame_ip_ok raw p.
Proof. exact frag_datagram_ip_ok. Qed.

(** ipv4::datagram: consistent header carrying exactly the requested fields, payload verbatim *)
Theorem C02_datagram_fn : forall s d i ev dfb mfb t fo pr data h r,
  s < 4294967296 -> d < 4294967296 -> i < 65536 -> t < 256 -> fo < 65536 -> pr < 256 -> 20 + len data < 65536 ->
  ipv4_datagram_fn [VIp4 s; VIp4 d; VU16 i; VBool ev; VBool dfb; VBool mfb; VU8 t; VU16 fo; VU8 pr] [VStr data] h = Ok r ->
  exists p, r = (VPkt p, h) /\
    let l3 := skipn 14 (pk_body p) in
    ipv4_ok l3 = true /\ ip_id_of l3 = i /\ ip_ttl_of l3 = t /\ ip_proto_of l3 = pr /\ ip_src_of l3 = s
    /\ ip_dst_of l3 = d /\ ip_frag_of l3 = N.lor fo (flag_bits ev dfb mfb)
    /\ skipn 20 l3 = data.
Proof. exact datagram_fn_ok. Qed.

(** non-vacuity: concrete operations succeed and their output passes the wire predicate *)
Example C02_nonvacuous :
  let f := {| tf_cl := (16909060, 1); tf_sv := (16909061, 2); tf_cl_seq := 4294967295; tf_sv_seq := 7; tf_raw := false |} in
  flow_wf f /\
  (exists f' ps, flow_open f = Ok (f', ps) /\ forallb (fun p => ipv4_ok (skipn 14 (pk_body p))) ps = true) /\
  (exists f' ps, flow_client_message f [1;2;3] true 5 = Ok (f', ps) /\ length ps = 2%nat) /\
  (exists p, icmp_dgram 16909060 16909061 true 8 4660 0 [97;98;99] = Ok p /\ ipv4_ok (pk_body p) = true).
Proof.
  cbn zeta. split; [unfold flow_wf, sock_wf; cbn; lia|].
  split; [eexists; eexists; split; [vm_compute; reflexivity|vm_compute; reflexivity]|].
  split; [eexists; eexists; split; [vm_compute; reflexivity|reflexivity]|].
  eexists; split; [vm_compute; reflexivity|vm_compute; reflexivity].
Qed.
