(** C05b -- payload fidelity (C05) at the level the interpreter executes: every payload-carrying function and
    method of the standard library as dispatched by [exec] on a heap of objects; histories; the pcap record; sizes.
    Pinned statements only; proofs in Proofs/C05/{LibPay,LibPayTcp,LibPayFns,LibPayTun,LibPayAll,LibPayHist,LibPayFile}.v.

    The walker (C05b_walker_defs; Proofs/C05/LibPay.v, first part -- it mentions no builder): skip the 14-byte
    Ethernet header unless the frame is raw, the IPv4 header by its IHL nibble, then, by the protocol number the
    IPv4 header shows, the TCP header by its data-offset nibble (6) or the 8-byte UDP (17) / ICMP-echo (1) header;
    what remains TO THE END OF THE FRAME is the payload.  No length field is read, so every statement holds for
    every payload length -- 0, odd, and beyond 65535, where the 16-bit length fields wrap (C05b_unicast_lengths).
    A [want] is (place, bytes); [val_carries ws v]: the value v consists of exactly as many frames as ws has
    entries, and the i-th frame shows exactly the i-th bytes at the i-th place -- no byte added, dropped,
    reordered or altered.  [extra_payload extra]: the collected arguments, each coerced by [conv_buf], concatenated
    in order (C05b_payload_is_concat).
    All theorems are partial-correctness statements ("whenever the call returns a value ..."); that calls with
    binder-accepted arguments never panic is C08.  The only premise beyond that: a GRE session object has the
    library's flags (default, with or without S), which is what gre::session creates (C05b_created_wf). *)
From RS Require Import Base.Bytes Base.Outcome Bind.Types Pkt.Hdrs Pkt.Packet Pkt.Pcap Ez.Tcp Ez.Udp Ez.Icmp Ez.Ip4 Ez.Gre
  Interp.Val Interp.Eval Lib.LibBase Lib.StdLib Spec.Wire Spec.Tunnel Spec.TunnelPeel
  Proofs.C03.LibCalls Proofs.C03.LibTcp Proofs.C03.LibUdp Proofs.C03.LibIcmp Proofs.C03.LibFrame
  Proofs.C07.Compose Proofs.C07.LibFrag Proofs.C02.LibIp Proofs.C02.LibIpFns Proofs.C02.LibIpAll Proofs.C04.Ops
  Proofs.C05.LibPay Proofs.C05.LibPayTcp Proofs.C05.LibPayFns Proofs.C05.LibPayTun Proofs.C05.LibPayAll Proofs.C05.LibPayHist Proofs.C05.LibPayFile
  Interp.Ast Spec.Timeline Proofs.C01.Program.
From RSGen Require Import Catalogue.
Open Scope N_scope.
Open Scope list_scope.

(* ------------------------------------------------------------------ 0. vocabulary, spelled out *)
Theorem C05b_walker_defs :
  (forall raw fr, l3_at raw fr = if raw then fr else skipn 14 fr)
  /\ (forall l3, ip_payload l3 = skipn (N.to_nat (4 * (nth 0 l3 0 mod 16))) l3)
  /\ (forall proto l4, l4_payload proto l4 =
        if proto =? 6 then Some (skipn (N.to_nat (4 * (nth 12 l4 0 / 16))) l4)
        else if proto =? 17 then Some (skipn 8 l4) else if proto =? 1 then Some (skipn 8 l4) else None)
  /\ (forall raw fr, transport_payload raw fr = l4_payload (ip_proto_of (l3_at raw fr)) (ip_payload (l3_at raw fr)))
  /\ (forall k raw fr, tunnel_inner k raw fr =
        let l3 := l3_at raw fr in let l4 := ip_payload l3 in
        match k with
        | KVxlan => if ip_proto_of l3 =? 17 then option_map snd (vxlan_decode (skipn 8 l4)) else None
        | KGre | KErspan1 => if ip_proto_of l3 =? 47 then option_map g_payload (gre_decode l4) else None
        | KErspan2 => if ip_proto_of l3 =? 47 then
                        match gre_decode l4 with Some g => option_map snd (erspan2_decode (g_payload g)) | None => None end
                      else None
        end)
  /\ (forall pl fr, payload_at pl fr =
        match pl with
        | PTransport raw => transport_payload raw fr | PSeg proto => l4_payload proto fr
        | PIp raw => Some (ip_payload (l3_at raw fr)) | PEth => Some (skipn 14 fr)
        | PTunnel k raw => tunnel_inner k raw fr
        end)
  /\ (forall w fr, carries w fr <-> payload_at (fst w) fr = Some (snd w))
  /\ (forall v, val_frames v = match v with VPkt p => Some [pk_body p] | VPktGen ps => Some (map pk_body ps)
                                          | VStr b => Some [b] | VNil => Some [] | _ => None end)
  /\ (forall ws v, val_carries ws v <-> exists frs, val_frames v = Some frs /\ Forall2 carries ws frs)
  /\ (forall ws v, val_carries_b ws v = true -> val_carries ws v).
Proof.
  split; [intros; reflexivity|]. split; [intros; reflexivity|]. split; [intros; reflexivity|].
  split; [intros; reflexivity|]. split; [intros; reflexivity|]. split; [intros; reflexivity|].
  split; [intros; reflexivity|]. split; [intros; reflexivity|]. split; [intros; reflexivity|exact val_carries_b_ok].
Qed.

(** the payload a call supplies: its collected arguments, each coerced to bytes, concatenated in the order written *)
Theorem C05b_payload_is_concat : forall extra bs,
  Forall2 (fun v b => conv_buf v = Ok b) extra bs -> extra_payload extra = Some (concat bs).
Proof. exact extra_payload_concat. Qed.

Theorem C05b_payload_only_concat : forall extra b, extra_payload extra = Some b ->
  exists bs, Forall2 (fun v b => conv_buf v = Ok b) extra bs /\ b = concat bs.
Proof. exact extra_payload_only. Qed.

(* ------------------------------------------------------------------ 1. every payload-carrying library key *)
(** the keys: computed from the catalogue -- every key returning a packet or packets except dns::host (C16), and
    every method collecting strings and returning a string (raw segments / raw datagrams); this is the list today *)
Theorem C05b_pay_keys :
  pay_keys = map fd_key (filter carries_payload catalogue)
  /\ (forall f, carries_payload f =
        (returns_packets (fd_ret f) && negb (String.eqb (fd_key f) "dns::host"))
        || (is_method_key (fd_key f) && vtype_eqb (fd_collect f) TStr && vtype_eqb (fd_ret f) TStr))
  /\ (forall k, is_method_key k = existsb (fun c => existsb (fun nk => String.eqb (snd nk) k) (snd c)) class_table)
  /\ pay_keys =
     ["ipv4::IpFrag.fragment"; "ipv4::IpFrag.tail"; "ipv4::IpFrag.datagram";
      "ipv4::tcp::TcpFlow.open"; "ipv4::tcp::TcpFlow.client_message"; "ipv4::tcp::TcpFlow.server_message";
      "ipv4::tcp::TcpFlow.client_segment"; "ipv4::tcp::TcpFlow.server_segment";
      "ipv4::tcp::TcpFlow.client_raw_segment"; "ipv4::tcp::TcpFlow.server_raw_segment";
      "ipv4::tcp::TcpFlow.client_ack"; "ipv4::tcp::TcpFlow.server_ack";
      "ipv4::tcp::TcpFlow.client_close"; "ipv4::tcp::TcpFlow.server_close";
      "ipv4::tcp::TcpFlow.client_reset"; "ipv4::tcp::TcpFlow.server_reset";
      "ipv4::udp::UdpFlow.client_dgram"; "ipv4::udp::UdpFlow.server_dgram";
      "ipv4::udp::UdpFlow.client_raw_dgram"; "ipv4::udp::UdpFlow.server_raw_dgram";
      "ipv4::udp::broadcast"; "ipv4::udp::unicast"; "ipv4::icmp::Icmp.echo"; "ipv4::icmp::Icmp.echo_reply";
      "ipv4::datagram"; "vxlan::Vxlan.dgram"; "vxlan::Vxlan.encap"; "gre::Gre.encap"; "eth::frame";
      "erspan1::Erspan1.encap"; "erspan2::Erspan2.encap"]%string
  /\ store_keys = map fd_key (filter (fun f => vtype_eqb (fd_ret f) TObj && vtype_eqb (fd_collect f) TStr) catalogue)
  /\ store_keys = ["io::bufio"; "ipv4::frag"]%string.
Proof.
  split; [reflexivity|]. split; [intros; reflexivity|]. split; [intros; reflexivity|].
  split; [vm_compute; reflexivity|]. split; [reflexivity|vm_compute; reflexivity].
Qed.

(** EVERY such key: whenever the call returns, the value consists of exactly the frames [pay_plan] designates for
    the call, each showing exactly the designated bytes at the designated place *)
Theorem C05b_lib_all_keys : forall e key this slots extra h v h',
  In key pay_keys -> recv_pay_wf this h ->
  exec e key this slots extra h = Some (Ok (v, h')) ->
  exists ws, pay_plan key this slots extra h = Some ws /\ val_carries ws v.
Proof. exact lib_pay_all. Qed.

(** how [pay_plan] reads a call: a method call on object o is planned by its class from the call's own arguments and
    the object's framing; the four functions by name *)
Theorem C05b_plan_defs :
  (forall a o key name slots extra h, nth_error h a = Some o -> strip_prefix (obj_class o ++ ".") key = Some name ->
     pay_plan key (Some a) slots extra h = method_pay_plan o name slots extra)
  /\ (forall o name slots extra, method_pay_plan o name slots extra =
        match o with
        | OTcp f => tcp_pay_plan (tf_raw f) name slots extra
        | OUdp f => udp_pay_plan (uf_raw f) name extra
        | OIcmp f => icmp_pay_plan (if_raw f) slots
        | OFrag f => frag_pay_plan f name slots
        | OVxlan f => tunnel_pay_plan KVxlan (vx_raw f) slots
        | OGre f => tunnel_pay_plan KGre (gl_raw f) slots
        | OErspan1 f => tunnel_pay_plan KErspan1 (e1_raw f) slots
        | OErspan2 f => tunnel_pay_plan KErspan2 (e2_raw f) slots
        | OBufIo _ _ => None
        end)
  /\ (forall slots extra h,
        pay_plan "ipv4::udp::unicast" None slots extra h
          = match raw_arg 2 slots with Some raw => fn_pay_plan (PTransport raw) extra | None => None end
        /\ pay_plan "ipv4::udp::broadcast" None slots extra h
          = match raw_arg 3 slots with Some raw => fn_pay_plan (PTransport raw) extra | None => None end
        /\ pay_plan "ipv4::datagram" None slots extra h = fn_pay_plan (PIp false) extra
        /\ pay_plan "eth::frame" None slots extra h = fn_pay_plan PEth extra)
  /\ (forall pl extra bs, Forall2 (fun v b => conv_buf v = Ok b) extra bs -> fn_pay_plan pl extra = Some [(pl, concat bs)])
  /\ (forall n slots, raw_arg n slots = match conv_bool (nth n slots VNil) with Ok r => Some r | _ => None end)
  /\ (forall this h, recv_pay_wf this h <-> forall a o, this = Some a -> nth_error h a = Some o -> obj_pay_wf o)
  /\ (forall o, obj_pay_wf o <-> match o with OGre f => exists s, gl_flags f = gre_flags_seq gre_flags_default s | _ => True end).
Proof.
  split; [exact pay_plan_method|]. split; [intros; reflexivity|]. split; [intros; repeat split|].
  split; [exact fn_pay_plans|]. split; [intros; reflexivity|]. split; [intros; reflexivity|]. intros o; destruct o; reflexivity.
Qed.

(* ------------------------------------------------------------------ 1a. TCP *)
(** EVERY method of the TcpFlow class (data-carrying or not): the call is the operation [op_of_call] reads from its
    name and arguments (C04_methods_are_ops); its frames carry [op_pay]; the flow written back keeps its framing *)
Theorem C05b_tcp_methods : forall e ms name key slots extra h a f v h',
  assoc tcp_class class_table = Some ms -> In (name, key) ms ->
  nth_error h a = Some (OTcp f) ->
  exec e key (Some a) slots extra h = Some (Ok (v, h')) ->
  exists ws f', tcp_pay_plan (tf_raw f) name slots extra = Some ws /\ val_carries ws v
    /\ h' = set_nth h a (OTcp f') /\ tf_raw f' = tf_raw f.
Proof. exact tcp_pay_method. Qed.

Theorem C05b_tcp_plan_defs :
  (forall raw name slots extra, tcp_pay_plan raw name slots extra =
     match op_of_call name slots extra with Some (Ok o) => Some (op_pay raw o) | _ => None end)
  /\ (forall raw o, op_pay raw o =
        match o with
        | Spec.TcpHistory.OOpen | Spec.TcpHistory.OClose _ => [(PTransport raw, []); (PTransport raw, []); (PTransport raw, [])]
        | Spec.TcpHistory.OMessage _ b sa _ _ _ => (PTransport raw, b) :: (if sa then [(PTransport raw, [])] else [])
        | Spec.TcpHistory.OSegment _ false b _ _ => [(PTransport raw, b)]
        | Spec.TcpHistory.OSegment _ true b _ _ => [(PSeg 6, b)]
        | Spec.TcpHistory.OHdr _ _ => [(PSeg 6, [])]
        | Spec.TcpHistory.OAck _ _ _ | Spec.TcpHistory.OReset _ => [(PTransport raw, [])]
        | Spec.TcpHistory.OHole _ _ => []
        end).
Proof. split; [intros; reflexivity|]. intros raw o. destruct o as [| | ? [|] | | | | |]; reflexivity. Qed.

(** the plans per method, for arguments as the binder passes them and collected arguments that coerce to [bs]:
    the data segment carries exactly [concat bs]; the automatic ACK, the handshake, close, bare ACK and reset
    segments carry nothing; a raw segment / bare header is the TCP header followed by exactly the payload / nothing *)
Theorem C05b_tcp_plans : forall raw (sa : bool) sq ak fo n extra bs,
  Forall2 (fun v b => conv_buf v = Ok b) extra bs ->
  (exists x, conv_opt conv_u32 sq = Ok x) -> (exists y, conv_opt conv_u32 ak = Ok y) ->
  let b := concat bs in
  let nob : bytes := [] in
  let e3 : list want := [(PTransport raw, nob); (PTransport raw, nob); (PTransport raw, nob)] in
  let msg : list want := (PTransport raw, b) :: (if sa then [((PTransport raw, nob) : want)] else []) in
  tcp_pay_plan raw "open" [] [] = Some e3
  /\ tcp_pay_plan raw "client_close" [] [] = Some e3 /\ tcp_pay_plan raw "server_close" [] [] = Some e3
  /\ tcp_pay_plan raw "client_message" [VBool sa; sq; ak; VU16 fo] extra = Some msg
  /\ tcp_pay_plan raw "server_message" [VBool sa; sq; ak; VU16 fo] extra = Some msg
  /\ tcp_pay_plan raw "client_segment" [sq; ak] extra = Some [(PTransport raw, b)]
  /\ tcp_pay_plan raw "server_segment" [sq; ak] extra = Some [(PTransport raw, b)]
  /\ tcp_pay_plan raw "client_raw_segment" [sq; ak] extra = Some [(PSeg 6, b)]
  /\ tcp_pay_plan raw "server_raw_segment" [sq; ak] extra = Some [(PSeg 6, b)]
  /\ tcp_pay_plan raw "client_ack" [sq; ak] [] = Some [(PTransport raw, [])]
  /\ tcp_pay_plan raw "server_ack" [sq; ak] [] = Some [(PTransport raw, [])]
  /\ tcp_pay_plan raw "client_reset" [] [] = Some [(PTransport raw, [])]
  /\ tcp_pay_plan raw "server_reset" [] [] = Some [(PTransport raw, [])]
  /\ tcp_pay_plan raw "client_hdr" [VU32 n] [] = Some [(PSeg 6, [])]
  /\ tcp_pay_plan raw "server_hdr" [VU32 n] [] = Some [(PSeg 6, [])]
  /\ tcp_pay_plan raw "client_hole" [VU32 n] [] = Some [] /\ tcp_pay_plan raw "server_hole" [VU32 n] [] = Some [].
Proof. exact tcp_pay_plans. Qed.

(** message-style calls: the payloads of the returned segments, concatenated in order, are the payload supplied
    (the model, like the code, puts the whole message in ONE data segment; the second packet is the bare ACK) *)
Theorem C05b_tcp_message_concat : forall raw b (sa : bool),
  concat (map snd (((PTransport raw, b) : want) :: (if sa then [((PTransport raw, ([] : bytes)) : want)] else []))) = b.
Proof. exact message_wants_data. Qed.

(* ------------------------------------------------------------------ 1b. UDP, ICMP, datagram, fragments, frame *)
Theorem C05b_udp_flow_methods : forall e ms name key slots extra h a f v h',
  assoc udp_class class_table = Some ms -> In (name, key) ms ->
  nth_error h a = Some (OUdp f) ->
  exec e key (Some a) slots extra h = Some (Ok (v, h')) ->
  h' = h /\ exists ws, udp_pay_plan (uf_raw f) name extra = Some ws /\ val_carries ws v.
Proof. exact udp_pay_method. Qed.

Theorem C05b_udp_flow_plans : forall raw extra bs, Forall2 (fun v b => conv_buf v = Ok b) extra bs ->
  udp_pay_plan raw "client_dgram" extra = Some [(PTransport raw, concat bs)]
  /\ udp_pay_plan raw "server_dgram" extra = Some [(PTransport raw, concat bs)]
  /\ udp_pay_plan raw "client_raw_dgram" extra = Some [(PSeg 17, concat bs)]
  /\ udp_pay_plan raw "server_raw_dgram" extra = Some [(PSeg 17, concat bs)].
Proof. exact udp_pay_plans. Qed.

Theorem C05b_udp_unicast : forall e slots extra h v h',
  exec e "ipv4::udp::unicast" None slots extra h = Some (Ok (v, h')) ->
  h' = h /\ exists raw b, raw_arg 2 slots = Some raw /\ extra_payload extra = Some b
    /\ val_carries [(PTransport raw, b)] v.
Proof. exact unicast_pay. Qed.

Theorem C05b_udp_broadcast : forall e slots extra h v h',
  exec e "ipv4::udp::broadcast" None slots extra h = Some (Ok (v, h')) ->
  h' = h /\ exists raw b, raw_arg 3 slots = Some raw /\ extra_payload extra = Some b
    /\ val_carries [(PTransport raw, b)] v.
Proof. exact broadcast_pay. Qed.

(** Icmp.echo / echo_reply: the payload is the single (coerced) argument *)
Theorem C05b_icmp_methods : forall e ms name key slots extra h a f v h',
  assoc icmp_class class_table = Some ms -> In (name, key) ms ->
  nth_error h a = Some (OIcmp f) ->
  exec e key (Some a) slots extra h = Some (Ok (v, h')) ->
  exists ws f', icmp_pay_plan (if_raw f) slots = Some ws /\ val_carries ws v
    /\ h' = set_nth h a (OIcmp f') /\ if_raw f' = if_raw f.
Proof. exact icmp_pay_method. Qed.

Theorem C05b_icmp_plan : forall raw pv b, conv_buf pv = Ok b -> icmp_pay_plan raw [pv] = Some [(PTransport raw, b)].
Proof. intros raw pv b E. unfold icmp_pay_plan. rewrite E. reflexivity. Qed.

(** ipv4::datagram: always framed; the IPv4 payload (whatever proto: says) is the collected arguments *)
Theorem C05b_datagram : forall e slots extra h v h',
  exec e "ipv4::datagram" None slots extra h = Some (Ok (v, h')) ->
  h' = h /\ exists b, extra_payload extra = Some b /\ val_carries [(PIp false, b)] v.
Proof. exact datagram_pay. Qed.

(** every method of the IpFrag class: the IPv4 payload is exactly the slice of the context's payload the request
    designates -- [req_carried]: fragment(off, len): bytes 8*off .. min(8*off+8*len, |payload|); tail(off): the same
    with len := |payload| mod 2^16 (the code's `as u16`: for payloads of 65536 bytes or more tail() is NOT the
    whole rest); datagram(): the whole payload.  No size premise. *)
Theorem C05b_frag_methods : forall e ms name key slots extra h a f v h',
  assoc frag_class class_table = Some ms -> In (name, key) ms ->
  nth_error h a = Some (OFrag f) ->
  exec e key (Some a) slots extra h = Some (Ok (v, h')) ->
  h' = h /\ exists ws, frag_pay_plan f name slots = Some ws /\ val_carries ws v.
Proof. exact frag_pay_method. Qed.

Theorem C05b_frag_plans : forall f name slots o l,
  frag_pay_plan f name slots = option_map (fun q => [(PIp (snd q), req_carried f (fst q))]) (frag_call_req name slots)
  /\ req_carried f (RFrag o l) = frag_slice (fr_payload f) o l
  /\ req_carried f (RTail o) = frag_slice (fr_payload f) o (len (fr_payload f) mod 65536)
  /\ req_carried f RDgram = fr_payload f
  /\ (forall payload, frag_slice payload o l =
        let e := N.min (o * 8 + l * 8) (len payload) in let s := N.min (o * 8) e in takeN (e - s) (dropN s payload)).
Proof. intros. repeat split. Qed.

(** eth::frame: everything behind the 14-byte header is the collected arguments *)
Theorem C05b_eth_frame : forall e slots extra h v h',
  exec e "eth::frame" None slots extra h = Some (Ok (v, h')) ->
  h' = h /\ exists b, extra_payload extra = Some b /\ val_carries [(PEth, b)] v.
Proof. exact eth_frame_pay. Qed.

(** the two constructors that keep a payload in an object: ipv4::frag (the context's payload) and io::bufio (the
    buffer, cursor at 0) keep exactly the concatenation of their collected arguments *)
Theorem C05b_stored : forall e key this slots extra h v h',
  In key store_keys ->
  exec e key this slots extra h = Some (Ok (v, h')) ->
  exists b o, extra_payload extra = Some b /\ v = VObj (length h) /\ h' = h ++ [o] /\ obj_payload o = Some b.
Proof. exact lib_pay_stored. Qed.

Theorem C05b_stored_defs : forall o, obj_payload o =
  match o with OFrag f => Some (fr_payload f) | OBufIo b taken => Some (dropN taken b) | _ => None end.
Proof. intros; reflexivity. Qed.

(* ------------------------------------------------------------------ 1c. tunnels: a packet used as payload contributes its frame *)
(** one outer packet per inner packet, in order; behind the outer headers: the inner packet's frame, byte for byte *)
Theorem C05b_tunnel_plan_defs : forall k raw slots,
  tunnel_pay_plan k raw slots =
    match conv_pktgen (nth 0 slots VNil) with Ok ps => Some (map (fun p => (PTunnel k raw, pk_body p)) ps) | _ => None end.
Proof. intros; reflexivity. Qed.

Theorem C05b_vxlan_methods : forall e ms name key slots extra h a f v h',
  assoc "vxlan::Vxlan"%string class_table = Some ms -> In (name, key) ms ->
  nth_error h a = Some (OVxlan f) ->
  exec e key (Some a) slots extra h = Some (Ok (v, h')) ->
  h' = h /\ exists ws, tunnel_pay_plan KVxlan (vx_raw f) slots = Some ws /\ val_carries ws v.
Proof. exact vxlan_pay_method. Qed.

Theorem C05b_gre_methods : forall e ms name key slots extra h a f v h',
  assoc "gre::Gre"%string class_table = Some ms -> In (name, key) ms ->
  nth_error h a = Some (OGre f) -> (exists s, gl_flags f = gre_flags_seq gre_flags_default s) ->
  exec e key (Some a) slots extra h = Some (Ok (v, h')) ->
  exists ws f', tunnel_pay_plan KGre (gl_raw f) slots = Some ws /\ val_carries ws v
    /\ h' = set_nth h a (OGre f') /\ gl_raw f' = gl_raw f /\ gl_flags f' = gl_flags f.
Proof. exact gre_pay_method. Qed.

Theorem C05b_erspan1_methods : forall e ms name key slots extra h a f v h',
  assoc "erspan1::Erspan1"%string class_table = Some ms -> In (name, key) ms ->
  nth_error h a = Some (OErspan1 f) ->
  exec e key (Some a) slots extra h = Some (Ok (v, h')) ->
  h' = h /\ exists ws, tunnel_pay_plan KErspan1 (e1_raw f) slots = Some ws /\ val_carries ws v.
Proof. exact erspan1_pay_method. Qed.

Theorem C05b_erspan2_methods : forall e ms name key slots extra h a f v h',
  assoc "erspan2::Erspan2"%string class_table = Some ms -> In (name, key) ms ->
  nth_error h a = Some (OErspan2 f) ->
  exec e key (Some a) slots extra h = Some (Ok (v, h')) ->
  exists ws f', tunnel_pay_plan KErspan2 (e2_raw f) slots = Some ws /\ val_carries ws v
    /\ h' = set_nth h a (OErspan2 f') /\ e2_raw f' = e2_raw f.
Proof. exact erspan2_pay_method. Qed.

(** every object a library constructor creates satisfies the receiver premise *)
Theorem C05b_created_wf : forall e key slots extra h v h',
  In key ["ipv4::tcp::flow"; "ipv4::udp::flow"; "ipv4::icmp::flow"; "ipv4::frag"; "vxlan::session"; "gre::session";
          "erspan1::session"; "erspan2::session"]%string ->
  exec e key None slots extra h = Some (Ok (v, h')) ->
  forall a o, nth_error h' a = Some o -> (length h <= a)%nat -> obj_pay_wf o.
Proof. exact created_pay_wf. Qed.

(* ------------------------------------------------------------------ 2. histories *)
(** any sequence of calls in which the object at [a] (of any of the eight classes) is only touched by methods of its
    own class, every other call being [foreign] to it (C03_family_*_foreign, C07_frag_*_foreign,
    C06_other_calls_frame give instances): EVERY own call -- the k-th for every k -- returned frames carrying
    what ITS OWN arguments designate, for the framing the object had at the start; the object keeps class and framing *)
Theorem C05b_history : forall e a cs h o vs h',
  nth_error h a = Some o -> In (obj_class o) ip_classes -> obj_pay_wf o ->
  Forall (fun c => own_call a (obj_class o) c \/ foreign e a c) cs ->
  run_hist e cs h = Some (vs, h') ->
  (exists o', nth_error h' a = Some o' /\ pay_same o' o)
  /\ Forall2 (fun c v => own_call a (obj_class o) c ->
       forall name, class_method (obj_class o) name (c_key c) ->
       exists ws, method_pay_plan o name (c_slots c) (c_extra c) = Some ws /\ val_carries ws v) cs vs.
Proof. exact pay_history. Qed.

Theorem C05b_history_defs :
  (forall a cls c, own_call a cls c <-> c_this c = Some a /\ exists name, class_method cls name (c_key c))
  /\ ip_classes = ["ipv4::tcp::TcpFlow"; "ipv4::udp::UdpFlow"; "ipv4::icmp::Icmp"; "ipv4::IpFrag"; "vxlan::Vxlan"; "gre::Gre";
                   "erspan1::Erspan1"; "erspan2::Erspan2"]%string
  /\ (forall o' o, pay_same o' o <->
        match o', o with
        | OTcp f', OTcp f => tf_raw f' = tf_raw f
        | OUdp f', OUdp f => f' = f
        | OIcmp f', OIcmp f => if_raw f' = if_raw f
        | OFrag f', OFrag f => f' = f
        | OVxlan f', OVxlan f => f' = f
        | OGre f', OGre f => gl_raw f' = gl_raw f /\ gl_flags f' = gl_flags f
        | OErspan1 f', OErspan1 f => f' = f
        | OErspan2 f', OErspan2 f => e2_raw f' = e2_raw f
        | _, _ => False
        end).
Proof. split; [intros; reflexivity|]. split; [reflexivity|intros; reflexivity]. Qed.

(** the two flow classes, spelled out *)
Theorem C05b_tcp_history : forall e a cs h f vs h',
  nth_error h a = Some (OTcp f) ->
  Forall (fun c => own_call a tcp_class c \/ foreign e a c) cs ->
  run_hist e cs h = Some (vs, h') ->
  (exists f', nth_error h' a = Some (OTcp f') /\ tf_raw f' = tf_raw f)
  /\ Forall2 (fun c v => own_call a tcp_class c ->
       forall name, class_method tcp_class name (c_key c) ->
       exists ws, tcp_pay_plan (tf_raw f) name (c_slots c) (c_extra c) = Some ws /\ val_carries ws v) cs vs.
Proof. exact tcp_pay_history. Qed.

Theorem C05b_udp_history : forall e a cs h f vs h',
  nth_error h a = Some (OUdp f) ->
  Forall (fun c => own_call a udp_class c \/ foreign e a c) cs ->
  run_hist e cs h = Some (vs, h') ->
  nth_error h' a = Some (OUdp f)
  /\ Forall2 (fun c v => own_call a udp_class c ->
       forall name, class_method udp_class name (c_key c) ->
       exists ws, udp_pay_plan (uf_raw f) name (c_extra c) = Some ws /\ val_carries ws v) cs vs.
Proof. exact udp_pay_history. Qed.

(* ------------------------------------------------------------------ 3. through the file *)
(** a packet written by write_packet is in its pcap record byte for byte behind the 16-byte record header
    (C01_write_packet_exact), so the walker finds the same payload in the record *)
Theorem C05b_record_carries : forall t p rec p' w,
  carries w (pk_body p) -> write_packet t p = Ok (rec, p') ->
  length (firstn 16 rec) = 16%nat /\ firstn 16 rec = pcap_rec_hdr t (len (pk_body p))
  /\ skipn 16 rec = pk_body p /\ carries w (skipn 16 rec).
Proof. exact record_carries. Qed.

Theorem C05b_records_carry : forall ws v ps t,
  val_carries ws v -> conv_pktgen v = Ok ps ->
  Forall2 (fun w p => forall rec p', write_packet t p = Ok (rec, p') -> carries w (skipn 16 rec)) ws ps.
Proof. exact records_carry. Qed.

(** the whole program (C01_program_pcap composed): the output file of a successful run is the global header followed
    by one record -- 16-byte header, then the frame -- per frame of the values [vs] of its expression statements, in
    statement order then generation order; if every value carries its plan (sections 1 and 2 say so for every value a
    payload-carrying call returned), the frames of the file's records, in file order, carry the concatenated plans *)
Theorem C05b_program_file : forall functions classes modules exec ss p',
  add_stmts functions classes modules exec prog_init ss = ROk tt p' ->
  exists vs, run_vals functions classes modules exec prog_init ss vs p'
    /\ pcap_of p' = pcap_ghdr ++ concat (map rec_bytes (timeline 0 vs))
    /\ forall plans, Forall2 (fun ws v => val_carries ws v /\ (exists ps, conv_pktgen v = Ok ps)) plans vs ->
         Forall2 carries (concat plans) (map snd (timeline 0 vs)).
Proof. exact program_file_carries. Qed.

Theorem C05b_file_defs :
  (forall r, rec_bytes r = pcap_rec_hdr (fst r) (len (snd r)) ++ snd r)
  /\ (forall r, skipn 16 (rec_bytes r) = snd r /\ length (firstn 16 (rec_bytes r)) = 16%nat)
  /\ (forall vs now, map snd (timeline now vs) = concat (map frames vs))
  /\ (forall v, frames v = match v with VPkt k => [pk_body k] | VPktGen ks => map pk_body ks | _ => [] end).
Proof. split; [intros; reflexivity|]. split; [exact rec_bytes_frame|]. split; [exact timeline_frames|intros; reflexivity]. Qed.

(* ------------------------------------------------------------------ 3a. inside tunnels *)
(** the strict oracle of C06 ([peel1]: also addresses, ports, VNI, protocol type, sequence number, port index) and the
    walker agree: whatever inner frame [peel1] yields, [tunnel_inner] yields *)
Theorem C05b_peel1_implies_walker : forall s fr x,
  peel1 s fr = Some x -> tunnel_inner (t_kind s) (t_raw s) fr = Some x.
Proof. exact peel1_walker. Qed.

(** encapsulation leaves the inner packet's payload where it was: if the outer frame carries the inner frame and
    the inner frame carries w, then w is found in the outer frame behind the tunnel layer -- to any depth *)
Theorem C05b_nested_carries : forall k raw inner outer w,
  carries (PTunnel k raw, inner) outer -> carries w inner ->
  exists x, through [(k, raw)] outer = Some x /\ payload_at (fst w) x = Some (snd w).
Proof. exact nested_carries. Qed.

Theorem C05b_nested_deep : forall layers k raw inner outer x,
  carries (PTunnel k raw, inner) outer -> through layers inner = Some x ->
  through ((k, raw) :: layers) outer = Some x.
Proof. exact nested_carries_deep. Qed.

Theorem C05b_through_defs : forall k raw r fr,
  through [] fr = Some fr
  /\ through ((k, raw) :: r) fr = match tunnel_inner k raw fr with Some x => through r x | None => None end.
Proof. intros. split; reflexivity. Qed.

(* ------------------------------------------------------------------ 4. sizes *)
(** ipv4::udp::unicast for EVERY payload length: the frame is the headers plus every payload byte; the IPv4
    total-length field reads (28 + |b|) mod 2^16 and the UDP length field (8 + |b|) mod 2^16 -- beyond 65507 bytes the
    fields wrap (DESIGN 10.3 D22) and no longer describe the frame, while the payload is still carried whole *)
Theorem C05b_unicast_lengths : forall e slots extra h v h',
  exec e "ipv4::udp::unicast" None slots extra h = Some (Ok (v, h')) ->
  exists raw b p, raw_arg 2 slots = Some raw /\ extra_payload extra = Some b /\ v = VPkt p
    /\ carries (PTransport raw, b) (pk_body p)
    /\ len (l3_at raw (pk_body p)) = 28 + len b
    /\ u16_at (l3_at raw (pk_body p)) 2 = (28 + len b) mod 65536
    /\ u16_at (ip_payload (l3_at raw (pk_body p))) 4 = (8 + len b) mod 65536.
Proof. exact unicast_lengths. Qed.

(** the concrete check used below, spelled out *)
Theorem C05b_big_check_def :
  exc_big = repeat 65 (N.to_nat 65600)
  /\ exc_big_check =
    match exec ex_env "ipv4::udp::unicast" None [VSock4 167837953 1234; VSock4 167837954 53; VBool false] [VStr exc_big] [] with
    | Some (Ok (VPkt p, _)) =>
      val_carries_b [(PTransport false, exc_big)] (VPkt p) && (len (pk_body p) =? 65642)
      && (u16_at (l3_at false (pk_body p)) 2 =? 92) && (u16_at (ip_payload (l3_at false (pk_body p))) 4 =? 72)
    | _ => false
    end.
Proof. split; reflexivity. Qed.

(* ------------------------------------------------------------------ 5. non-vacuity *)
(** a history built by the library's own constructors: a TCP flow (handshake; a client message whose payload is a
    string, a 16-bit integer and an address -> GET 01 02 01 02 03 04, with its ACK; an empty server message; a raw
    segment of one byte; later a server message of two strings), a raw UDP flow (a 3-byte and an empty datagram), and
    separately ipv4::udp::unicast with 65600 bytes.  Every call runs; the premises of the history theorem hold; every value
    carries exactly its own call's payload (the oracle refuses the frame of call 8 with call 2's bytes prepended);
    [exc_big_check]: the 65600 bytes of the unicast call are all there (frame of 65642 bytes) while the IPv4 total
    length reads 92 and the UDP length 72; the UDP frame goes through a GRE session
    and the record write_packet makes of the outer packet still shows it, byte for byte. *)
Example C05b_nonvacuous :
  exists vs h1, run_hist ex_env exc_calls [] = Some (vs, h1)
  /\ Forall (fun c => own_call 0 tcp_class c \/ foreign ex_env 0 c) (tl exc_calls)
  /\ pay_plan "ipv4::tcp::TcpFlow.client_message" (Some 0%nat) [VBool true; VNil; VNil; VU16 0]
       [VStr [71; 69; 84]; VU16 258; VIp4 16909060] h1
     = Some [(PTransport false, [71; 69; 84; 1; 2; 1; 2; 3; 4]); (PTransport false, [])]
  /\ val_carries_b [(PTransport false, []); (PTransport false, []); (PTransport false, [])] (nth 1 vs VNil) = true
  /\ val_carries_b [(PTransport false, [71; 69; 84; 1; 2; 1; 2; 3; 4]); (PTransport false, [])] (nth 2 vs VNil) = true
  /\ val_carries_b [(PTransport false, [])] (nth 3 vs VNil) = true
  /\ val_carries_b [(PSeg 6, [9])] (nth 4 vs VNil) = true
  /\ val_carries_b [(PTransport true, [1; 2; 3])] (nth 6 vs VNil) = true
  /\ val_carries_b [(PTransport true, [])] (nth 7 vs VNil) = true
  /\ val_carries_b [(PTransport false, [0; 255; 13; 10]); (PTransport false, [])] (nth 8 vs VNil) = true
  /\ val_carries_b [(PTransport false, [71; 69; 84; 1; 2; 1; 2; 3; 4; 0; 255; 13; 10]); (PTransport false, [])] (nth 8 vs VNil) = false
  /\ exc_big_check = true
  /\ exists u g h2 h3 rec g',
       nth 6 vs VNil = VPkt u
       /\ exec ex_env "gre::session" None [VIp4 167772161; VIp4 167772162; VU16 2048; VBool false] [] h1 = Some (Ok (VObj 2, h2))
       /\ Forall obj_pay_wf h2
       /\ exec ex_env "gre::Gre.encap" (Some 2%nat) [VPkt u] [] h2 = Some (Ok (VPktGen [g], h3))
       /\ pay_plan "gre::Gre.encap" (Some 2%nat) [VPkt u] [] h2 = Some [(PTunnel KGre false, pk_body u)]
       /\ val_carries_b [(PTunnel KGre false, pk_body u)] (VPktGen [g]) = true
       /\ write_packet 0 g = Ok (rec, g')
       /\ tunnel_inner KGre false (skipn 16 rec) = Some (pk_body u)
       /\ option_map (transport_payload true) (tunnel_inner KGre false (skipn 16 rec)) = Some (Some [1; 2; 3]).
Proof.
  eexists. eexists. split; [vm_compute; reflexivity|].
  split; [exact exc_premises|].
  split; [vm_compute; reflexivity|]. split; [vm_compute; reflexivity|]. split; [vm_compute; reflexivity|].
  split; [vm_compute; reflexivity|]. split; [vm_compute; reflexivity|]. split; [vm_compute; reflexivity|].
  split; [vm_compute; reflexivity|]. split; [vm_compute; reflexivity|]. split; [vm_compute; reflexivity|].
  split; [vm_compute; reflexivity|].
  do 6 eexists.
  split; [vm_compute; reflexivity|]. split; [vm_compute; reflexivity|].
  split; [repeat apply Forall_cons; try apply Forall_nil; try exact I; exists false; reflexivity|].
  split; [vm_compute; reflexivity|]. split; [vm_compute; reflexivity|]. split; [vm_compute; reflexivity|].
  split; [vm_compute; reflexivity|]. split; vm_compute; reflexivity.
Qed.
