(** placeholder until the proofs land *)
From RS Require Import Base.Bytes.
