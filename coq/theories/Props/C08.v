(** C08 -- the compiler is total and fail-safe: success, or a diagnostic, never a panic.
    Pinned statements only; proofs are in Proofs/C08, Proofs/C09, Proofs/C10, Proofs/C11. *)
From RS Require Import Base.Bytes Base.Outcome Base.Utf8 Bind.Types Bind.Binder Bind.BindSpec Bind.Handover
  Lex.Tokens Lex.Scanner Parse.Automaton Interp.Val Interp.Ast Interp.Eval Interp.Cli Interp.Run Lib.LibBase Lib.StdLib.
From RS Require Import Proofs.C08.Handover Proofs.C08.HandoverInstance Proofs.C08.FrontEnd
  Proofs.C09.Invariant Proofs.C10.Final Proofs.C11.CatalogueWf Proofs.C11.Corollaries.
From RSGen Require Import Catalogue ExecScripts.

(** the lexer is total on every line of valid UTF-8 (invalid UTF-8 never reaches it: BufRead::lines
    reports it): tokens or a lex error, never a panic, never out of fuel *)
Theorem C08_lex_total : forall lx lno line, utf8_valid line = true ->
  (exists toks, snd (lex_line lx lno line) = Ok toks) \/ snd (lex_line lx lno line) = Err ELex.
Proof. exact lex_total_final. Qed.

(** what the lexer hands to the parser always satisfies what the parser relies on
    (TokType::get_val unwraps, the "0x" prefix of a hex literal) *)
Theorem C08_lexer_tokens_ok : forall lx lno line lx' toks, utf8_valid line = true ->
  lex_line lx lno line = (lx', Ok toks) -> Forall (fun t => tok_ok t = true) toks.
Proof. exact lexer_tokens_ok. Qed.

(** on such tokens the parser, from any state it can reach, moves to a reachable state or reports a
    parse error; its stack pops, unwraps and unreachable!() arms cannot fire and its loop finishes *)
Theorem C08_parser_total : forall p t, pinv p -> tok_ok t = true ->
  match feed p t with Ok p' => pinv p' | Err e => e = EParse | Panic _ | OutOfFuel => False end.
Proof. exact feed_inv. Qed.

(** the argument binder, on every function of the catalogue and every call shape (missing,
    surplus, duplicated, unknown, misordered arguments of any value types): a binding or a type error *)
Theorem C08_binder_total :
  forall (V : Type) (type_of : V -> vtype) (of_valdef : valdef -> V) (f : funcdef), In f catalogue ->
  forall call, argvec V type_of of_valdef f call = Err EType
               \/ exists slots extra, argvec V type_of of_valdef f call = Ok (slots, extra).
Proof.
  intros V type_of of_valdef f Hin. apply never_panics.
  pose proof catalogue_wf as W. rewrite forallb_forall in W. exact (W f Hin).
Qed.

(** every library function body, as read off the running code (gen/ExecScripts.v), takes the
    arguments the binder hands over without an unwrap on None, an unreachable!() conversion or a
    Drop-for-Args assertion, on every accepted call and every early-return path *)
Theorem C08_handover_safe :
  forall f m s,
  In f catalogue -> assoc (fd_key f) exec_scripts = Some (m, s) ->
  forall (V : Type) (type_of : V -> vtype) (of_valdef : valdef -> V) call slots extra early,
  argvec V type_of of_valdef f call = Ok (slots, extra) ->
  run_script s early (initial_state f m (map type_of slots) (map type_of extra)) = Ok tt.
Proof.
  intros f m s Hin Hs V type_of of_valdef call slots extra early H.
  exact (handover_safe_catalogue f m s Hin Hs eq_refl V type_of of_valdef call slots extra early H).
Qed.

(** ... and every function of the catalogue has such a script *)
Theorem C08_handover_covers_catalogue :
  forallb (fun f => match assoc (fd_key f) exec_scripts with Some _ => true | None => false end) catalogue = true.
Proof. vm_compute. reflexivity. Qed.

(** whole pipeline, any bytes as source, any library: lexing, parsing and the glue of process_file
    contribute no panic and no non-termination; a panic can only come out of executing a statement *)
Theorem C08_front_end_never_panics :
  forall functions classes modules exec src s,
  process_file functions classes modules exec src = CliPanic s ->
  exists p ss p', add_stmts functions classes modules exec p ss = RPanic s p'.
Proof. exact front_end_never_panics. Qed.

(** the same for the concrete library *)
Theorem C08_pipeline_panic_only_from_execution : forall files src s,
  run_src files src = RunPanic s ->
  exists p ss p', add_stmts catalogue class_table module_table (exec {| env_files := files |}) p ss = RPanic s p'.
Proof.
  intros files src s H. unfold run_src in H.
  destruct (process_file catalogue class_table module_table (exec {| env_files := files |}) src) as [p|e l p|s'] eqn:E;
    try discriminate H.
  inversion H; subst. exact (front_end_never_panics _ _ _ _ _ _ E).
Qed.

(** non-vacuity: garbage bytes give a diagnostic with a position, a valid program gives a pcap *)
Example C08_nonvacuous :
  (match run_src [] (bytes_of_string "let x = $;") with RunErr ELex (1, 9) _ => True | _ => False end)
  /\ (match run_src [] (bytes_of_string "import ipv4; ipv4::udp::unicast(1.2.3.4:1, 1.2.3.5:2, ""x"");") with
      | RunOk pcap _ _ => len pcap = 24 + 16 + 43 | _ => False end).
Proof. split; vm_compute; [exact I | reflexivity]. Qed.
