(** C01 -- successful runs yield a well-formed pcap holding exactly the emitted packets.
    The interpreter theorems hold for every library (functions, classes, modules, exec are universally
    quantified), hence for the real one. *)
From RS Require Import Base.Bytes Base.Outcome Bind.Types Pkt.Packet Pkt.Pcap Interp.Val Interp.Ast Interp.Eval
  Lib.LibBase Spec.Timeline Spec.PcapRead Proofs.C01.PcapLemmas Proofs.C01.EvalPreserves Proofs.C01.Program.
Open Scope N_scope.

(** the independent reader inverts the writer: magic, version 2.4, link type 1, then exactly the records *)
Theorem C01_pcap_read_file : forall recs,
  Forall rec_ok recs -> pcap_read (file_of recs) = Some (map abs_rec recs).
Proof. exact pcap_read_file. Qed.

(** a record is the 16-byte header (sec, nsec, len, len) followed by the unaltered frame *)
Theorem C01_write_packet_exact : forall t k b k',
  write_packet t k = Ok (b, k') ->
  b = pcap_rec_hdr t (len (pk_body k)) ++ pk_body k /\ pk_body k' = pk_body k
  /\ length (pcap_rec_hdr t (len (pk_body k))) = 16%nat.
Proof. exact write_packet_exact. Qed.

(** evaluating an expression writes nothing and does not move the clock *)
Theorem C01_eval_writes_nothing : forall functions classes modules exec e p v p',
  eval functions classes modules exec p e = ROk v p' -> same_io p p'.
Proof. exact eval_same_io. Qed.

(** every successful run decomposes into the values of its expression statements ... *)
Theorem C01_run_decomposes : forall functions classes modules exec ss p p',
  add_stmts functions classes modules exec p ss = ROk tt p' ->
  exists vs, run_vals functions classes modules exec p ss vs p'.
Proof. exact add_stmts_run_vals. Qed.

(** ... and its file is the global header followed by exactly their records, in statement order and
    generation order, which the independent reader parses back with nothing missing or trailing.
    [run_vals] has no rule that lets a let or an import contribute a value. *)
Theorem C01_program_pcap : forall functions classes modules exec ss p',
  add_stmts functions classes modules exec prog_init ss = ROk tt p' ->
  exists vs, run_vals functions classes modules exec prog_init ss vs p'
    /\ pcap_of p' = file_of (timeline 0 vs)
    /\ (Forall rec_ok (timeline 0 vs) -> pcap_read (pcap_of p') = Some (map abs_rec (timeline 0 vs))).
Proof. exact program_pcap. Qed.

(** the empty program: the 24-byte header alone *)
Theorem C01_empty_program : forall functions classes modules exec,
  exists p', add_stmts functions classes modules exec prog_init [] = ROk tt p' /\ pcap_of p' = pcap_ghdr
    /\ length pcap_ghdr = 24%nat.
Proof. intros. eexists. split; [reflexivity|]. split; reflexivity. Qed.

(** a value emitted k times gives k copies of its frames *)
Theorem C01_reemit_same : forall now v k,
  map snd (timeline now (repeat v k)) = concat (repeat (frames v) k).
Proof. exact reemit_same. Qed.

Example C01_nonvacuous :
  let k := pkt_of_body (repeat 7 14) in
  pcap_read (file_of (timeline 0 [VPkt k; VNil; VPktGen [k; k]]))
  = Some (map abs_rec (timeline 0 [VPkt k; VNil; VPktGen [k; k]]))
  /\ length (timeline 0 [VPkt k; VNil; VPktGen [k; k]]) = 3%nat.
Proof. cbn zeta. split; [vm_compute; reflexivity|reflexivity]. Qed.
