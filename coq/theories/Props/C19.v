(** C19 -- I/O failures are reported as failures, never as success.
    This file holds only the pinned statements; proofs live in Proofs/C19. *)
From RS Require Import Base.Bytes Base.Outcome Pkt.Pcap Lex.Tokens Interp.Io
  Proofs.C19.Loops Proofs.C19.Writer Proofs.C19.Session Proofs.C19.ReportPoint Proofs.C19.Report.
Open Scope N_scope.

(** (a) fail-safe: when the file cannot take the complete output (limit L below 24 + total record
    length), whatever L is and whether or not creation succeeded, the run is reported as failed:
    no "ok", no panic, non-zero exit status *)
Theorem C19_fail_safe : forall keep L create_ok recs,
  L < len (pcap_ghdr ++ concat recs) ->
  says_ok (session keep (Some L) create_ok recs) = false
  /\ panics (session keep (Some L) create_ok recs) = false
  /\ rp_exit (session keep (Some L) create_ok recs) <> 0.
Proof. exact fail_safe. Qed.

(** ... and so is a failure to create the file; nothing is left at the output path *)
Theorem C19_create_failure_reported : forall keep limit recs,
  (says_ok (session keep limit false recs) = false
   /\ panics (session keep limit false recs) = false
   /\ rp_exit (session keep limit false recs) <> 0)
  /\ rp_file (session keep limit false recs) = None.
Proof. exact create_failure_reported. Qed.

(** (b) completeness: "ok" is only printed when the file is exactly header ++ records -- nothing
    is left behind in the buffer -- and then the exit status is 0 *)
Theorem C19_ok_is_complete : forall keep limit create_ok recs,
  says_ok (session keep limit create_ok recs) = true ->
  rp_file (session keep limit create_ok recs) = Some (pcap_ghdr ++ concat recs)
  /\ rp_exit (session keep limit create_ok recs) = 0
  /\ rp_delete_diag (session keep limit create_ok recs) = false.
Proof. exact ok_is_complete. Qed.

(** ... conversely, without a fault (no limit, or a limit at or beyond the complete size) the run succeeds *)
Theorem C19_no_fault_ok : forall keep limit recs,
  (limit = None \/ exists L, limit = Some L /\ len (pcap_ghdr ++ concat recs) <= L) ->
  says_ok (session keep limit true recs) = true.
Proof. exact no_fault_ok. Qed.

(** (c) prefix safety, for every buffer capacity and every limit: whenever the run stops -- after any
    number of the records, with the final flush or without (a program error), before and after the
    writer is dropped -- the file holds a prefix of header ++ all records *)
Theorem C19_prefix_safety : forall cap limit recs1 recs2 e o w,
  run_writer cap limit recs1 e = (o, w) ->
  is_prefix (bw_file w) (pcap_ghdr ++ concat (recs1 ++ recs2))
  /\ is_prefix (bw_file (bw_drop limit w)) (pcap_ghdr ++ concat (recs1 ++ recs2)).
Proof. exact prefix_safety. Qed.

(** what a failed run leaves at the output path: nothing, unless -k, and then a prefix of the
    complete output that respects the limit *)
Theorem C19_failed_output : forall keep limit create_ok recs,
  says_ok (session keep limit create_ok recs) = false ->
  match rp_file (session keep limit create_ok recs) with
  | None => True
  | Some f => keep = true /\ is_prefix f (pcap_ghdr ++ concat recs)
              /\ match limit with Some L => len f <= L | None => True end
  end.
Proof. exact failed_output. Qed.

(** (d) the report point: operation 0 is the header write, k the k-th record, n+1 the explicit flush;
    [pushed_sizes] is the size of the file after each operation of a fault-free run (a function of the
    record lengths only).  A fault at offset L is reported by the first operation after which the
    fault-free file would be longer than L; in particular never later than the explicit flush *)
Theorem C19_report_point : forall L recs,
  io_out (session_io CAP (Some L) true recs EndFlush) =
  match first_above L (pushed_sizes CAP recs) 0 with Some i => IoFailedAt i | None => IoDone end.
Proof. exact report_point_session. Qed.

(** [first_above] returns the index of the first size above L *)
Theorem C19_report_point_first : forall L l i k, first_above L l i = Some k ->
  (i <= k)%nat /\ L < nth (k - i) l 0 /\ forall j, (j < k - i)%nat -> nth j l 0 <= L.
Proof. exact first_above_some. Qed.

(** the sizes never exceed the complete length, and the last one (after the flush) is the complete length *)
Theorem C19_pushed_sizes_total : forall cap recs,
  Forall (fun x => x <= len (pcap_ghdr ++ concat recs)) (pushed_sizes cap recs)
  /\ last (pushed_sizes cap recs) 0 = len (pcap_ghdr ++ concat recs).
Proof. exact pushed_sizes_total. Qed.

(** the model's loops never run out of fuel, and the fixed protocol has no panic site *)
Theorem C19_never_out_of_fuel : forall cap limit create_ok recs e,
  let o := io_out (session_io cap limit create_ok recs e) in
  o = IoDone \/ o = IoCreateFailed \/ exists k, o = IoFailedAt k /\ (k <= S (length recs))%nat.
Proof. exact session_io_outcomes. Qed.

(** (e) the protocol before the fix (no explicit flush, .expect on record writes): an output that
    fits the buffer is reported "ok" wherever the fault lies, and the file is silently cut at L *)
Theorem C19_old_protocol_small_always_ok : forall keep L recs,
  len (pcap_ghdr ++ concat recs) < CAP ->
  says_ok (session_old keep (Some L) true recs) = true
  /\ rp_file (session_old keep (Some L) true recs) = Some (takeN L (pcap_ghdr ++ concat recs)).
Proof. exact old_small_always_ok. Qed.

(** ... concretely: "ok", exit status 0 and an incomplete file, where the fixed protocol reports failure *)
Theorem C19_old_protocol_claims_success :
  exists recs L, says_ok (session_old false (Some L) true recs) = true
    /\ rp_exit (session_old false (Some L) true recs) = 0
    /\ exists f, rp_file (session_old false (Some L) true recs) = Some f /\ len f < len (pcap_ghdr ++ concat recs)
    /\ (says_ok (session false (Some L) true recs) = false
        /\ panics (session false (Some L) true recs) = false
        /\ rp_exit (session false (Some L) true recs) <> 0).
Proof. exact old_protocol_claims_success. Qed.

(** ... and with an output larger than the buffer it panics *)
Theorem C19_old_protocol_panics :
  exists recs L, panics (session_old false (Some L) true recs) = true.
Proof. exact old_protocol_panics. Qed.

(** non-vacuity: three records (one larger than the buffer); fault-free sizes after each operation;
    a fault at byte 5000 is reported by the second record's write, one at 20000 by the third's, one
    at 20300 only by the final flush; without a fault the file is complete *)
Example C19_nonvacuous :
  let recs := [repeat 1 (N.to_nat 300); repeat 2 (N.to_nat 20000); repeat 3 (N.to_nat 100)] in
  pushed_sizes CAP recs = [0; 0; 20324; 20324; 20424]
  /\ io_out (session_io CAP (Some 5000) true recs EndFlush) = IoFailedAt 2
  /\ io_out (session_io CAP (Some 20323) true recs EndFlush) = IoFailedAt 2
  /\ io_out (session_io CAP (Some 20324) true recs EndFlush) = IoFailedAt 4
  /\ rp_file (session true (Some 5000) true recs) = Some (takeN 5000 (pcap_ghdr ++ concat recs))
  /\ rp_file (session false (Some 5000) true recs) = None
  /\ says_ok (session false (Some 20424) true recs) = true
  /\ rp_file (session false None true recs) = Some (pcap_ghdr ++ concat recs).
Proof. repeat split; vm_compute; reflexivity. Qed.
