(** C19 -- I/O failures are reported as failures, never as success.
    This file holds only the pinned statements; proofs live in Proofs/C19. *)
From RS Require Import Base.Bytes Base.Outcome Pkt.Pcap Lex.Tokens Interp.Run Interp.Io Interp.IoRun
  Proofs.C19.Loops Proofs.C19.Writer Proofs.C19.Session Proofs.C19.ReportPoint Proofs.C19.Report
  Proofs.C19.Pipeline Proofs.C19.PipelineSession Proofs.C19.TraceRun Proofs.C19.Top.
Open Scope list_scope.
Open Scope N_scope.

(** (a) fail-safe: when the file cannot take the complete output (limit L below 24 + total record
    length), whatever L is and whether or not creation succeeded, the run is reported as failed:
    no "ok", no panic, non-zero exit status *)
Theorem C19_fail_safe : forall keep L create_ok recs,
  L < len (pcap_ghdr ++ concat recs) ->
  says_ok (session keep (Some L) create_ok recs) = false
  /\ panics (session keep (Some L) create_ok recs) = false
  /\ rp_exit (session keep (Some L) create_ok recs) <> 0.
Proof. exact fail_safe. Qed.

(** ... and so is a failure to create the file; nothing is left at the output path *)
Theorem C19_create_failure_reported : forall keep limit recs,
  (says_ok (session keep limit false recs) = false
   /\ panics (session keep limit false recs) = false
   /\ rp_exit (session keep limit false recs) <> 0)
  /\ rp_file (session keep limit false recs) = None.
Proof. exact create_failure_reported. Qed.

(** (b) completeness: "ok" is only printed when the file is exactly header ++ records -- nothing
    is left behind in the buffer -- and then the exit status is 0 *)
Theorem C19_ok_is_complete : forall keep limit create_ok recs,
  says_ok (session keep limit create_ok recs) = true ->
  rp_file (session keep limit create_ok recs) = Some (pcap_ghdr ++ concat recs)
  /\ rp_exit (session keep limit create_ok recs) = 0
  /\ rp_delete_diag (session keep limit create_ok recs) = false.
Proof. exact ok_is_complete. Qed.

(** ... conversely, without a fault (no limit, or a limit at or beyond the complete size) the run succeeds *)
Theorem C19_no_fault_ok : forall keep limit recs,
  (limit = None \/ exists L, limit = Some L /\ len (pcap_ghdr ++ concat recs) <= L) ->
  says_ok (session keep limit true recs) = true.
Proof. exact no_fault_ok. Qed.

(** (c) prefix safety, for every buffer capacity and every limit: whenever the run stops -- after any
    number of the records, with the final flush or without (a program error), before and after the
    writer is dropped -- the file holds a prefix of header ++ all records *)
Theorem C19_prefix_safety : forall cap limit recs1 recs2 e o w,
  run_writer cap limit recs1 e = (o, w) ->
  is_prefix (bw_file w) (pcap_ghdr ++ concat (recs1 ++ recs2))
  /\ is_prefix (bw_file (bw_drop limit w)) (pcap_ghdr ++ concat (recs1 ++ recs2)).
Proof. exact prefix_safety. Qed.

(** what a failed run leaves at the output path: nothing, unless -k, and then a prefix of the
    complete output that respects the limit *)
Theorem C19_failed_output : forall keep limit create_ok recs,
  says_ok (session keep limit create_ok recs) = false ->
  match rp_file (session keep limit create_ok recs) with
  | None => True
  | Some f => keep = true /\ is_prefix f (pcap_ghdr ++ concat recs)
              /\ match limit with Some L => len f <= L | None => True end
  end.
Proof. exact failed_output. Qed.

(** (d) the report point: operation 0 is the header write, k the k-th record, n+1 the explicit flush;
    [pushed_sizes] is the size of the file after each operation of a fault-free run (a function of the
    record lengths only).  A fault at offset L is reported by the first operation after which the
    fault-free file would be longer than L; in particular never later than the explicit flush *)
Theorem C19_report_point : forall L recs,
  io_out (session_io CAP (Some L) true recs EndFlush) =
  match first_above L (pushed_sizes CAP recs) 0 with Some i => IoFailedAt i | None => IoDone end.
Proof. exact report_point_session. Qed.

(** [first_above] returns the index of the first size above L *)
Theorem C19_report_point_first : forall L l i k, first_above L l i = Some k ->
  (i <= k)%nat /\ L < nth (k - i) l 0 /\ forall j, (j < k - i)%nat -> nth j l 0 <= L.
Proof. exact first_above_some. Qed.

(** the sizes never exceed the complete length, and the last one (after the flush) is the complete length *)
Theorem C19_pushed_sizes_total : forall cap recs,
  Forall (fun x => x <= len (pcap_ghdr ++ concat recs)) (pushed_sizes cap recs)
  /\ last (pushed_sizes cap recs) 0 = len (pcap_ghdr ++ concat recs).
Proof. exact pushed_sizes_total. Qed.

(** the model's loops never run out of fuel, and the fixed protocol has no panic site *)
Theorem C19_never_out_of_fuel : forall cap limit create_ok recs e,
  let o := io_out (session_io cap limit create_ok recs e) in
  o = IoDone \/ o = IoCreateFailed \/ exists k, o = IoFailedAt k /\ (k <= S (length recs))%nat.
Proof. exact session_io_outcomes. Qed.

(** (e) the protocol before the fix (no explicit flush, .expect on record writes): an output that
    fits the buffer is reported "ok" wherever the fault lies, and the file is silently cut at L *)
Theorem C19_old_protocol_small_always_ok : forall keep L recs,
  len (pcap_ghdr ++ concat recs) < CAP ->
  says_ok (session_old keep (Some L) true recs) = true
  /\ rp_file (session_old keep (Some L) true recs) = Some (takeN L (pcap_ghdr ++ concat recs)).
Proof. exact old_small_always_ok. Qed.

(** ... concretely: "ok", exit status 0 and an incomplete file, where the fixed protocol reports failure *)
Theorem C19_old_protocol_claims_success :
  exists recs L, says_ok (session_old false (Some L) true recs) = true
    /\ rp_exit (session_old false (Some L) true recs) = 0
    /\ exists f, rp_file (session_old false (Some L) true recs) = Some f /\ len f < len (pcap_ghdr ++ concat recs)
    /\ (says_ok (session false (Some L) true recs) = false
        /\ panics (session false (Some L) true recs) = false
        /\ rp_exit (session false (Some L) true recs) <> 0).
Proof. exact old_protocol_claims_success. Qed.

(** ... and with an output larger than the buffer it panics *)
Theorem C19_old_protocol_panics :
  exists recs L, panics (session_old false (Some L) true recs) = true.
Proof. exact old_protocol_panics. Qed.

(** *** the whole pipeline: source bytes, data files, creation result, failure point -> report

    [compile_with_faults] threads BufWriter<File> through the interpreter as the code does.
    [trace_file] is the same interpreter text run with a writer that never fails and records
    (location, record) pairs. *)

(** determinism up to the failing write: the report under any fault is the fault-free trace
    replayed through the BufWriter *)
Theorem C19_pipeline_is_replay : forall keep limit create_ok files input,
  compile_with_faults keep limit create_ok files input = compile_via_trace keep limit create_ok files input.
Proof. exact compile_is_replay. Qed.

(** ... i.e. the writer session over the trace's records: status from the session's outcome, the
    diagnostic's line:col is the location current when the failing record was written (none for the
    header write and the final flush), the file is the session's file *)
Theorem C19_pipeline_is_session : forall keep limit create_ok files input evs te,
  trace_file files input = Some (evs, te) ->
  compile_with_faults keep limit create_ok files input =
  report_of_verdict keep
    (verdict_of_session evs te (session_io CAP limit create_ok (map snd evs) (ending_of te))).
Proof. exact compile_is_session. Qed.

(** "ok" only if the program ends without error, the file could be created, and the file is complete *)
Theorem C19_pipeline_ok_complete : forall keep limit create_ok files input,
  says_ok (fst (compile_with_faults keep limit create_ok files input)) = true ->
  exists evs, trace_file files input = Some (evs, TeOk)
    /\ create_ok = true
    /\ rp_file (fst (compile_with_faults keep limit create_ok files input)) = Some (pcap_ghdr ++ concat (map snd evs))
    /\ rp_exit (fst (compile_with_faults keep limit create_ok files input)) = 0.
Proof. exact pipeline_ok_complete. Qed.

(** a limit below the complete fault-free output is never reported "ok" ... *)
Theorem C19_pipeline_fail_safe : forall keep L create_ok files input evs te,
  trace_file files input = Some (evs, te) ->
  L < len (pcap_ghdr ++ concat (map snd evs)) ->
  says_ok (fst (compile_with_faults keep (Some L) create_ok files input)) = false.
Proof. exact pipeline_fail_safe. Qed.

(** ... and no fault turns into a panic: the model panics only where the fault-free run does *)
Theorem C19_pipeline_panics_only_without_fault : forall keep limit create_ok files input,
  panics (fst (compile_with_faults keep limit create_ok files input)) = true ->
  exists evs s, trace_file files input = Some (evs, TePanic s).
Proof. exact pipeline_panics_only_without_fault. Qed.

(** an input that cannot be opened or read is reported as failed *)
Theorem C19_pipeline_unreadable_input : forall keep limit create_ok files,
  says_ok (fst (compile_with_faults keep limit create_ok files InNoOpen)) = false
  /\ says_ok (fst (compile_with_faults keep limit create_ok files InUnreadable)) = false
  /\ rp_exit (fst (compile_with_faults keep limit create_ok files InNoOpen)) = 1
  /\ rp_exit (fst (compile_with_faults keep limit create_ok files InUnreadable)) = 1.
Proof. exact pipeline_unreadable_input. Qed.

(** the trace is the fault-free pipeline of Interp/Cli.v ([run_src]): same outcome, and the records
    are exactly its pcap *)
Theorem C19_trace_is_run_src : forall files src,
  exists evs te, trace_file files (InSrc src) = Some (evs, te) /\
  match run_src files src, te with
  | RunOk pcap _ _, TeOk => pcap = pcap_ghdr ++ concat (map snd evs)
  | RunErr e l pcap, TeErr e' l' => e = e' /\ l = l' /\ pcap = pcap_ghdr ++ concat (map snd evs)
  | RunPanic s, TePanic s' => s = s'
  | _, _ => False
  end.
Proof. exact trace_is_run_src. Qed.

(** non-vacuity: three records (one larger than the buffer); fault-free sizes after each operation;
    a fault at byte 5000 is reported by the second record's write, one at 20000 by the third's, one
    at 20300 only by the final flush; without a fault the file is complete *)
Example C19_nonvacuous :
  let recs := [repeat 1 (N.to_nat 300); repeat 2 (N.to_nat 20000); repeat 3 (N.to_nat 100)] in
  pushed_sizes CAP recs = [0; 0; 20324; 20324; 20424]
  /\ io_out (session_io CAP (Some 5000) true recs EndFlush) = IoFailedAt 2
  /\ io_out (session_io CAP (Some 20323) true recs EndFlush) = IoFailedAt 2
  /\ io_out (session_io CAP (Some 20324) true recs EndFlush) = IoFailedAt 4
  /\ rp_file (session true (Some 5000) true recs) = Some (takeN 5000 (pcap_ghdr ++ concat recs))
  /\ rp_file (session false (Some 5000) true recs) = None
  /\ says_ok (session false (Some 20424) true recs) = true
  /\ rp_file (session false None true recs) = Some (pcap_ghdr ++ concat recs).
Proof.
  cbv zeta. split; [vm_compute; reflexivity|]. split; [vm_compute; reflexivity|]. split; [vm_compute; reflexivity|].
  split; [vm_compute; reflexivity|]. split; [vm_compute; reflexivity|]. split; [vm_compute; reflexivity|].
  split; [vm_compute; reflexivity|]. vm_compute; reflexivity.
Qed.

(** ... and through the whole pipeline: a three-packet program whose second record (9058 bytes,
    payload from a data file) is larger than the buffer.  A fault at byte 5000 is reported at the
    second packet's statement (line 3) and the output is removed; a fault at byte 9200 (inside the
    last, buffered record) only by the final flush, without a location, and -k keeps exactly 9200
    bytes; no effective fault: ok, 9205 bytes; a creation failure: reported, with the "delete:"
    diagnostic; a missing data file: reported at the statement that reads it *)
Example C19_nonvacuous_pipeline :
  let nl := String (Ascii.ascii_of_N 10) EmptyString in
  let src := bytes_of_string ("import ipv4; import io;" ++ nl
                              ++ "ipv4::udp::unicast(1.2.3.4:1, 5.6.7.8:2, ""hi"");" ++ nl
                              ++ "ipv4::udp::unicast(1.2.3.4:1, 5.6.7.8:2, io::file(""/d""));" ++ nl
                              ++ "ipv4::udp::unicast(1.2.3.4:1, 5.6.7.8:2, ""there"");" ++ nl)%string in
  let files := [(bytes_of_string "/d", repeat 97 (N.to_nat 9000))] in
  let view r := (rp_status (fst r), rp_exit (fst r), option_map len (rp_file (fst r)), rp_delete_diag (fst r), snd r) in
  option_map (fun t => (map fst (fst t), map (fun e => len (snd e)) (fst t), snd t)) (trace_file files (InSrc src))
    = Some ([(2, 46); (3, 55); (4, 49)], [60; 9058; 63], TeOk)
  /\ view (compile_with_faults false (Some 5000) true files (InSrc src)) = (StErr (3, 55) EIo, 1, None, false, true)
  /\ view (compile_with_faults true (Some 9200) true files (InSrc src)) = (StErr (0, 0) EIo, 1, Some 9200, false, true)
  /\ view (compile_with_faults false (Some 9205) true files (InSrc src)) = (StOk, 0, Some 9205, false, false)
  /\ view (compile_with_faults false None false files (InSrc src)) = (StErr (0, 0) EIo, 1, None, true, false)
  /\ view (compile_with_faults true None true [] (InSrc src)) = (StErr (3, 55) EIo, 1, Some 84, false, false).
Proof.
  cbv zeta. split; [vm_compute; reflexivity|]. split; [vm_compute; reflexivity|].
  split; [vm_compute; reflexivity|]. split; [vm_compute; reflexivity|]. split; [vm_compute; reflexivity|].
  vm_compute; reflexivity.
Qed.
