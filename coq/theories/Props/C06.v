(** C06 -- tunnels are transparent: inner frames survive VXLAN/GRE/ERSPAN encapsulation.
    The inner bytes are arbitrary (in particular the output of another tunnel: nesting to any depth is
    the composition of these theorems); [framed raw eth l3] is the outer frame (C18). *)
From RS Require Import Base.Bytes Base.Outcome Pkt.Hdrs Pkt.Packet Ez.Tcp Ez.Udp Ez.Gre Spec.Tunnel
  Lib.MiscLib Proofs.C18.Framing Proofs.C06.Tunnels.
Open Scope N_scope.

(** VXLAN: one UDP datagram on the session's ports whose payload is the VXLAN header (I flag, VNI) then the inner frame *)
Theorem C06_vxlan_transparent : forall f inner p,
  vxlan_encap f inner = Ok p ->
  exists iph uh,
    pk_body p = framed (vx_raw f) (eth_for (fst (vx_cl f)) (fst (vx_sv f)))
                       (ip_ser iph ++ udp_ser uh ++ vxlan_ser (vx_vni f) ++ inner)
    /\ uh_sport uh = snd (vx_cl f) /\ uh_dport uh = snd (vx_sv f).
Proof. exact vxlan_transparent. Qed.
Theorem C06_vxlan_header_decodes : forall vni inner,
  vni < 16777216 -> vxlan_decode (vxlan_ser vni ++ inner) = Some (vni, inner).
Proof. exact vxlan_decode_ser. Qed.

(** GRE: protocol type = the session's ethertype, no optional fields, payload = inner frame *)
Theorem C06_gre_transparent : forall f b f' p,
  gl_flags f = gre_flags_default -> gl_ethertype f < 65536 ->
  gre_flow_encap f b = Ok (f', p) ->
  exists iph, pk_body p = framed (gl_raw f) (eth_for (gl_cl f) (gl_sv f)) (ip_ser iph ++ gre_ser 0 (gl_ethertype f) ++ b)
    /\ gre_decode (gre_ser 0 (gl_ethertype f) ++ b) = Some {| g_flags := 0; g_proto := gl_ethertype f; g_seq := None; g_payload := b |}
    /\ gl_seq f' = wrap32 (gl_seq f + 1) /\ gl_flags f' = gl_flags f /\ gl_ethertype f' = gl_ethertype f.
Proof. exact gre_flow_transparent. Qed.

(** ERSPAN type I: GRE protocol 0x88be, nothing else *)
Theorem C06_erspan1_transparent : forall f b p,
  erspan1_encap f b = Ok p ->
  exists iph, pk_body p = framed (e1_raw f) (eth_for (e1_cl f) (e1_sv f)) (ip_ser iph ++ gre_ser 0 ETH_ERSPAN_1_2 ++ b)
    /\ gre_decode (gre_ser 0 ETH_ERSPAN_1_2 ++ b) = Some {| g_flags := 0; g_proto := 35006; g_seq := None; g_payload := b |}.
Proof. exact erspan1_transparent. Qed.

(** ERSPAN type II: S flag, the session's running sequence number, version 1, the port index, inner frame *)
Theorem C06_erspan2_transparent : forall f b ix f' p,
  e2_sess f = 0 -> e2_seq f < 4294967296 ->
  erspan2_encap f b ix = Ok (f', p) ->
  exists iph, pk_body p = framed (e2_raw f) (eth_for (e2_cl f) (e2_sv f))
                                 (ip_ser iph ++ gre_ser 4096 ETH_ERSPAN_1_2 ++ be32 (e2_seq f) ++ erspan2_ser 0 ix ++ b)
    /\ gre_decode (gre_ser 4096 ETH_ERSPAN_1_2 ++ be32 (e2_seq f) ++ erspan2_ser 0 ix ++ b)
       = Some {| g_flags := 4096; g_proto := 35006; g_seq := Some (e2_seq f); g_payload := erspan2_ser 0 ix ++ b |}
    /\ erspan2_decode (erspan2_ser 0 ix ++ b) = Some (1, ix mod 1048576, b)
    /\ e2_seq f' = wrap32 (e2_seq f + 1) /\ e2_sess f' = e2_sess f.
Proof. exact erspan2_transparent. Qed.

(** sequences: exactly one outer packet per inner packet, in the same order; the session counter
    advances by the number of packets, so the n-th packet of a session carries n-1 *)
Theorem C06_erspan2_counts : forall ix ps f f' qs,
  erspan2_encap_all f ix ps = Ok (f', qs) -> e2_seq f < 4294967296 ->
  length qs = length ps /\ e2_seq f' = (e2_seq f + len ps) mod 4294967296 /\ e2_sess f' = e2_sess f
  /\ e2_cl f' = e2_cl f /\ e2_sv f' = e2_sv f /\ e2_raw f' = e2_raw f.
Proof. exact erspan2_encap_all_counts. Qed.
Theorem C06_one_per_packet : forall (A B : Type) (g : A -> outcome B) l qs,
  omapM g l = Ok qs ->
  length qs = length l /\ forall n x, nth_error l n = Some x -> exists q, nth_error qs n = Some q /\ g x = Ok q.
Proof. intros A B g l qs E. split; [eapply omapM_length; exact E|intros n x Hn; eapply omapM_nth; eassumption]. Qed.

Example C06_nonvacuous :
  let f := {| e2_cl := 16909060; e2_sv := 16909061; e2_raw := true; e2_seq := 0; e2_sess := 0 |} in
  let inner := repeat 170 14 in
  exists f1 q1 f2 q2, erspan2_encap f inner 5 = Ok (f1, q1) /\ erspan2_encap f1 inner 5 = Ok (f2, q2)
    /\ e2_seq f2 = 2
    /\ option_map g_seq (gre_decode (skipn 20 (pk_body q2))) = Some (Some 1).
Proof.
  cbn zeta. eexists. eexists. eexists. eexists.
  split; [vm_compute; reflexivity|]. split; [vm_compute; reflexivity|]. split; [reflexivity|vm_compute; reflexivity].
Qed.
