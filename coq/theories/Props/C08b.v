(** C08, execution half -- executing statements never panics, hence the whole compiler never panics.
    Pinned statements only; proofs are in Proofs/C08 (Safe, LibPost, EzSafe, LibTac, LibMisc, LibProto,
    LibIpv4, LibSound, Wf, InterpSound, ExecFinal, ParserPlain, PipelineFinal).  Props/C08.v holds the
    front-end half (lexer, parser, binder, argument hand-over).

    [safe allowed x Q] (Proofs/C08/Safe.v): the outcome [x] is a value satisfying [Q], or a
    language-level error, or a panic at a site for which [allowed] holds; below [allowed] is
    [fun _ => False] everywhere, i.e. no panic site at all is exempted. *)
From RS Require Import Base.Bytes Base.Outcome Bind.Types Bind.BindSpec Pkt.Packet Lex.Tokens Parse.Automaton
  Interp.Val Interp.Ast Interp.Eval Interp.Cli Interp.Run Lib.LibBase Lib.StdLib.
From RS Require Import Proofs.C09.Invariant.
From RS Require Import Proofs.C08.Safe Proofs.C08.LibPost Proofs.C08.LibSound Proofs.C08.Wf
  Proofs.C08.InterpSound Proofs.C08.ExecFinal Proofs.C08.ParserPlain Proofs.C08.PipelineFinal.
From RSGen Require Import Catalogue.

(** every function the module table can name ([fkey]), called with any arguments the binder accepted
    for its catalogue signature ([args_ok]: one slot per parameter, each of a kind its declaration
    allows; the collected tail of the declared kind): [exec] implements it, and the result is a value
    of the declared return type, well-formed in a heap that only grew -- or an error; never a panic
    (value conversions, Args::next unwraps, checked arithmetic, the Drop-for-Args assertion) *)
Theorem C08_library_function_contract : forall files k, fkey module_table k ->
  exists f, find_func catalogue k = Some f /\ wf_sig f = true /\
  forall slots extra h, args_ok f slots extra ->
  exists r, exec {| env_files := files |} k None slots extra h = Some r
            /\ safe (fun _ => False) r (lib_post h (fd_ret f)).
Proof. intros files k. exact (function_sound (fun _ => False) {| env_files := files |} k). Qed.

(** the same for every method of the class table called on a live object of its class
    (take_this and the downcast cannot fail) *)
Theorem C08_library_method_contract : forall files cls k, mkey class_table cls k ->
  exists f, find_func catalogue k = Some f /\ wf_sig f = true /\
  forall slots extra h a o, args_ok f slots extra -> nth_error h a = Some o -> obj_class o = cls ->
  exists r, exec {| env_files := files |} k (Some a) slots extra h = Some r
            /\ safe (fun _ => False) r (lib_post h (fd_ret f)).
Proof. intros files cls k. exact (method_sound (fun _ => False) {| env_files := files |} cls k). Qed.

(** the symbol tables of the running library are closed: every sub-module named exists, the root
    holds only modules, every object's class is in the class table *)
Theorem C08_symbol_tables_closed :
  modules_closed module_table = true /\ root_ok module_table = true
  /\ forall o, exists ms, assoc (obj_class o) class_table = Some ms.
Proof. exact (conj table_modules_closed (conj table_root_ok H_class_table)). Qed.

(** the parser only builds statements the interpreter is prepared for ([stmt_ok]: literals are
    strings, integers, booleans, addresses, socket addresses; every reference has a component):
    the invariant [pplain] holds initially, every token keeps it, and what get_results hands to the
    interpreter under it is [stmt_ok] *)
Theorem C08_parser_statements_ok :
  pplain parser_init
  /\ (forall p t, pinv p -> pplain p -> tok_ok t = true ->
      match feed p t with Ok p' => pplain p' | _ => True end)
  /\ (forall p, pplain p -> Forall stmt_ok (fst (get_results p)) /\ pplain (snd (get_results p))).
Proof. exact (conj pplain_init (conj feed_plain get_results_plain)). Qed.

(** from any well-formed state (registers hold live objects, methods of their class, functions of
    the module table, packets with pcap headroom; imports name existing modules), executing
    [stmt_ok] statements ends well-formed or with an error -- never with a panic *)
Theorem C08_state_invariant : forall files ss p,
  Forall stmt_ok ss -> wf_prog class_table module_table p ->
  match add_stmts catalogue class_table module_table (exec {| env_files := files |}) p ss with
  | ROk _ p' => wf_prog class_table module_table p'
  | RErr _ _ => True
  | RPanic _ _ => False
  end.
Proof. exact add_stmts_never_panics. Qed.

(** executing a program from the initial state never panics *)
Theorem C08_exec_never_panics : forall files ss, Forall stmt_ok ss ->
  match run_prog {| env_files := files |} ss with RPanic _ _ => False | _ => True end.
Proof. exact exec_never_panics. Qed.

(** the whole pipeline: any bytes as source, any data files -- success or a diagnostic, never a panic *)
Theorem C08_pipeline_never_panics : forall files src s, run_src files src <> RunPanic s.
Proof. exact pipeline_never_panics. Qed.

(** non-vacuity: a program that calls functions and methods, allocates objects and writes packets
    satisfies the premises and runs to completion; an ill-typed call is a diagnostic; and the
    [stmt_ok] premise is needed -- a syntax tree the parser cannot build (an object literal) does panic *)
Example C08b_nonvacuous :
  (match run_src [] (bytes_of_string
     "import ipv4; import text; let t = ipv4::tcp::flow(1.2.3.4:1, 1.2.3.5:2); t.open(); t.client_message(text::concat(""a"", ""b""));")
   with RunOk pcap _ trace => len pcap = 24 + 5 * 16 + 4 * 54 + 56 /\ length trace = 4%nat | _ => False end)
  /\ (match run_src [] (bytes_of_string "import ipv4; ipv4::tcp::flow(1, 2);") with RunErr EType _ _ => True | _ => False end)
  /\ (let bad := [SAssign (1, 1) "x" (ELit (1, 1) (VObj 0)); SExpr (ERef (2, 1) [] ["x"; "m"])]%string in
      ~ Forall stmt_ok bad /\ match run_prog {| env_files := [] |} bad with RPanic _ _ => True | _ => False end).
Proof.
  split; [vm_compute; split; reflexivity|]. split; [vm_compute; exact I|].
  split; [|vm_compute; exact I].
  intros H. inversion H as [|? ? H1 _]; subst. exact H1.
Qed.
