(** C18 -- Ethernet framing is uniform, and raw mode removes exactly the Ethernet header.
    [framed raw eth l3] is the frame: [l3] when raw, else [eth ++ l3]; [eth_for src dst] is the one
    header every IP-level builder uses: 00:02:dst  00:02:src  0800. *)
From RS Require Import Base.Bytes Base.Outcome Pkt.Hdrs Pkt.Packet Ez.Tcp Ez.Udp Ez.Icmp Ez.Ip4 Ez.Gre
  Interp.Val Lib.MiscLib Proofs.C18.Framing.
Open Scope N_scope.

Theorem C18_eth_for_is_from_ip : forall src dst h,
  eth_for src dst = mac_of_ip dst ++ mac_of_ip src ++ [8; 0]
  /\ eth_from_ip_fn [VIp4 src] [] h = Ok (VStr ([0; 2] ++ be32 src), h) /\ mac_of_ip src = [0; 2] ++ be32 src.
Proof. intros. split; [reflexivity|]. split; reflexivity. Qed.

(** raw = framed minus exactly the first 14 bytes, and those 14 bytes are the uniform header *)
Theorem C18_raw_is_skip14 : forall eth l3, length eth = 14%nat ->
  framed true eth l3 = skipn 14 (framed false eth l3) /\ firstn 14 (framed false eth l3) = eth.
Proof. intros eth l3 H. split; [apply framed_raw_skip14|apply framed_first14]; exact H. Qed.

(** TCP: the header is fixed when the segment is created and no operation touches it *)
Theorem C18_tcp_segments : forall src dst sn rn raw,
  seg_eth_ok (fst src) (fst dst) (seg_new src dst sn rn raw)
  /\ forall a b s, seg_eth_ok a b s ->
       seg_bytes s = framed (ts_raw s) (eth_for a b) (seg_l3_bytes s)
       /\ seg_eth_ok a b (seg_syn s) /\ seg_eth_ok a b (seg_rst s) /\ seg_eth_ok a b (seg_ack s)
       /\ seg_eth_ok a b (seg_syn_ack s) /\ seg_eth_ok a b (seg_push s) /\ seg_eth_ok a b (seg_fin_ack s)
       /\ (forall off, seg_eth_ok a b (seg_frag_off s off))
       /\ (forall bs s', seg_append_data s bs = Ok s' -> seg_eth_ok a b s')
       /\ (forall s', seg_tcp_csum s = Ok s' -> seg_eth_ok a b s' /\ ts_raw s' = ts_raw s).
Proof.
  intros. split; [apply seg_new_eth|]. intros a b s H.
  split; [apply seg_bytes_framed; exact H|].
  destruct (seg_ops_keep_eth a b s H) as (H1 & H2 & H3 & H4 & H5 & H6 & H7).
  refine (conj H1 (conj H2 (conj H3 (conj H4 (conj H5 (conj H6 (conj H7 (conj _ _)))))))).
  - intros bs s' E. exact (seg_append_keep_eth a b s bs s' H E).
  - intros s' E. exact (seg_csum_keep_eth a b s s' H E).
Qed.

(** UDP (flows, unicast, broadcast, dns::host, VXLAN outer frames) *)
Theorem C18_udp : forall raw s t b d,
  udp_push (udp_dst (udp_src (udp_new raw) s) t) b = Ok d ->
  udp_bytes d = framed raw (eth_for (fst s) (fst t)) (udp_l3_bytes d)
  /\ udp_bytes (udp_broadcast d) = framed raw (eth_bcast_for (fst s)) (udp_l3_bytes d).
Proof. exact udp_addressed_eth. Qed.
Theorem C18_udp_options_keep : forall d,
  (forall off, ud_eth (udp_frag_off d off) = ud_eth d /\ ud_raw (udp_frag_off d off) = ud_raw d) /\
  (forall a, ud_eth (udp_srcip d a) = ud_eth d /\ ud_raw (udp_srcip d a) = ud_raw d) /\
  (forall d', udp_csum d = Ok d' -> ud_eth d' = ud_eth d /\ ud_raw d' = ud_raw d).
Proof. exact udp_options_keep_eth. Qed.

(** ICMP and IP datagrams/fragments: one IP datagram, framed or not *)
Theorem C18_icmp : forall src dst raw typ id seq b p,
  icmp_dgram src dst raw typ id seq b = Ok p ->
  exists l3, pk_body p = framed raw (eth_for src dst) l3
    /\ forall raw' p', icmp_dgram src dst raw' typ id seq b = Ok p' -> pk_body p' = framed raw' (eth_for src dst) l3.
Proof. exact icmp_dgram_framed. Qed.
Theorem C18_ipdgram : forall iph payload raw off mf p,
  ipdgram iph payload raw off mf = Ok p ->
  exists l3, pk_body p = framed raw (eth_for (ip_src iph) (ip_dst iph)) l3
    /\ forall raw' p', ipdgram iph payload raw' off mf = Ok p' -> pk_body p' = framed raw' (eth_for (ip_src iph) (ip_dst iph)) l3.
Proof. exact ipdgram_framed. Qed.

(** GRE / ERSPAN outer frames *)
Theorem C18_gre : forall src dst flags proto raw g,
  gre_new src dst flags proto raw = Ok g ->
  eth_ser (gr_eth g) = eth_for src dst /\ gr_raw g = raw
  /\ (forall b g', gre_push g b = Ok g' -> gr_eth g' = gr_eth g /\ gr_raw g' = gr_raw g)
  /\ gre_bytes g = framed (gr_raw g) (eth_ser (gr_eth g))
       (ip_ser (gr_ip g) ++ gr_hdr g ++ (match gr_seq g with Some n => be32 n | None => [] end) ++ gr_rest g).
Proof.
  intros src dst flags proto raw g E. destruct (gre_new_eth _ _ _ _ _ _ E) as (H1 & H2).
  split; [exact H1|]. split; [exact H2|]. split; [intros b g' E'; apply (gre_push_keep g b g' E')|apply gre_bytes_framed].
Qed.

(** the explicit frame builder: destination, source, type in wire order, then the payload *)
Theorem C18_frame_wire_order : forall s d et data h,
  len s = 6 -> len d = 6 -> et < 65536 ->
  eth_frame_fn [VStr s; VStr d; VU16 et] [VStr data] h = Ok (VPkt (pkt_of_body (d ++ s ++ be16 et ++ data)), h).
Proof. exact eth_frame_wire_order. Qed.
Theorem C18_frame_rejects_bad_address : forall s d et data h,
  len s <> 6 \/ len d <> 6 -> eth_frame_fn [VStr s; VStr d; VU16 et] [VStr data] h = Err ERuntime.
Proof. exact eth_frame_rejects_bad_address. Qed.

Example C18_nonvacuous :
  exists d, udp_push (udp_dst (udp_src (udp_new false) (16909060, 7)) (16909061, 9)) [1; 2; 3] = Ok d
    /\ firstn 14 (udp_bytes d) = [0;2;1;2;3;5; 0;2;1;2;3;4; 8;0].
Proof. eexists. split; [vm_compute; reflexivity|reflexivity]. Qed.
