(** C09 -- The parser accepts exactly the grammar and builds the tree it prescribes.
    This file holds only the pinned statements; proofs live in Proofs/C09.
    Model: Parse/Automaton.v (src/parse.rs).  Specification: Parse/Grammar.v (the grammar relation)
    and Parse/RefParser.v (recursive descent).  [tok_ok] is what the lexer guarantees about a token
    (identifiers and literals carry their text, a hex literal starts with 0x). *)
From RS Require Import Base.Bytes Base.Outcome Lex.Tokens Lex.Literals Interp.Val Interp.Ast.
From RS Require Import Parse.Verdict Parse.Automaton Parse.Grammar Parse.RefParser.
From RS Require Import Proofs.C09.Invariant Proofs.C09.Split Proofs.C09.RefSound Proofs.C09.RefComplete
  Proofs.C09.SimTop Proofs.C09.Viable Proofs.C09.FixTok.
Open Scope N_scope.

(** (a) for every token sequence and every way of cutting it into lines (get_results between the
    lines, as the CLI does), no feed ends in Panic or OutOfFuel: no pop meets an empty stack or a
    node of the wrong kind and the Goto chain is shorter than the fuel 2*|stack|+8 *)
Theorem C09_parse_never_stuck : forall lines : list (list token),
  Forall (fun t => tok_ok t = true) (concat lines) ->
  match run_lines lines with VPanic _ => False | _ => True end.
Proof. exact parse_never_stuck. Qed.

(** the same for the plain fold of feed (the interface the whole-pipeline model composes): the
    result is a parser state or the parse error, nothing else *)
Theorem C09_feed_never_stuck : forall ts : list token,
  Forall (fun t => tok_ok t = true) ts ->
  match feed_all parser_init ts with Ok _ => True | Err e => e = EParse | Panic _ | OutOfFuel => False end.
Proof.
  intros ts H. pose proof (feed_never_stuck ts H) as F.
  destruct (feed_all parser_init ts); cbn in F; auto.
Qed.

(** (d) the verdict -- accept with these statements / reject at this token / unfinished -- depends
    only on the token sequence, not on how it is cut into lines *)
Theorem C09_feed_split_irrelevant : forall lines : list (list token),
  run_lines lines = run_tokens (concat lines).
Proof. exact feed_split_irrelevant. Qed.

(** (b) the reference parser accepts exactly the sentences of the grammar, with the tree the
    grammar assigns (the grammar does not speak about locations) *)
Theorem C09_refparser_sound_complete : forall ts ss',
  sentence ts ss' <-> exists ss, rd_parse ts = VAccept ss /\ map erase_stmt ss = ss'.
Proof. exact rd_accepts_iff. Qed.

(** (c) on every token list the automaton and the reference parser agree: both accept, with the
    same statements including every source location; or both reject, at the same token index;
    or both find the program unfinished.  (Feeding ts followed by EOF is the instance ts ++ [eof_token].) *)
Theorem C09_automaton_eq_refparser : forall ts : list token,
  Forall (fun t => tok_ok t = true) ts -> run_tokens ts = rd_parse ts.
Proof. exact automaton_eq_refparser. Qed.

(** hence the automaton accepts exactly the sentences of the grammar and builds their trees *)
Theorem C09_automaton_accepts_grammar : forall ts ss',
  Forall (fun t => tok_ok t = true) ts ->
  (sentence ts ss' <-> exists ss, run_tokens ts = VAccept ss /\ map erase_stmt ss = ss').
Proof. intros ts ss' H. rewrite (automaton_eq_refparser ts H). apply rd_accepts_iff. Qed.

(** (b, second half) the index at which a token list is rejected is the length of its longest viable
    prefix: the tokens before it can be continued to a sentence, the tokens up to and including it
    cannot, by any continuation whatsoever *)
Theorem C09_refparser_error_index : forall ts i,
  Forall (fun t => tok_ok t = true) ts ->
  (rd_parse ts = VReject i <->
   (i < length ts)%nat /\ viable_prefix (firstn i ts) /\ ~ viable_prefix (firstn (S i) ts)).
Proof. exact reject_index_viable. Qed.

(** ... and so is the index at which the automaton raises its parse error: at the first token that
    cannot continue any sentence of the grammar *)
Theorem C09_automaton_error_index : forall ts i,
  Forall (fun t => tok_ok t = true) ts ->
  (run_tokens ts = VReject i <->
   (i < length ts)%nat /\ viable_prefix (firstn i ts) /\ ~ viable_prefix (firstn (S i) ts)).
Proof. intros ts i H. rewrite (automaton_eq_refparser ts H). apply reject_index_viable, H. Qed.

(** an unfinished program can always be finished; it is not itself a sentence *)
Theorem C09_unfinished_is_viable : forall ts,
  Forall (fun t => tok_ok t = true) ts -> run_tokens ts = VMore ->
  viable_prefix ts /\ ~ (exists ss, sentence ts ss).
Proof. intros ts H R. rewrite (automaton_eq_refparser ts H) in R. apply more_viable; assumption. Qed.

(** non-vacuity: a concrete sentence is accepted by both parsers with the same tree, and a
    non-sentence (name: directly before ')') is rejected at the ')' *)
Example C09_nonvacuous :
  let tk k v c := {| tk_type := k; tk_loc := (1, c); tk_val := v |} in
  let id s c := tk TIdent (Some (bytes_of_string s)) c in
  let ts := [id "f" 1; tk TLParen None 2; id "x" 3; tk TColon None 4;
             tk TIntLit (Some (bytes_of_string "1")) 5; tk TRParen None 6; tk TSemiColon None 7; eof_token]%string in
  let bad := [id "f" 1; tk TLParen None 2; id "x" 3; tk TColon None 4; tk TRParen None 5]%string in
  run_tokens ts = VAccept [SExpr (ECall (1, 1) [] ["f"%string] [(Some "x"%string, ELit (1, 5) (VU64 1))])]
  /\ rd_parse ts = run_tokens ts
  /\ Forall (fun t => tok_ok t = true) ts
  /\ run_tokens bad = VReject 4.
Proof. repeat split; try (vm_compute; reflexivity). repeat constructor. Qed.
