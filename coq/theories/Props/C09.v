(** C09 -- The parser accepts exactly the grammar and builds the tree it prescribes.
    This file holds only the pinned statements; proofs live in Proofs/C09. *)
From RS Require Import Base.Bytes Base.Outcome Lex.Tokens Lex.Literals Interp.Val Interp.Ast.
From RS Require Import Parse.Verdict Parse.Automaton Parse.Grammar Parse.RefParser.
Open Scope N_scope.

(** non-vacuity: a concrete sentence is accepted by both parsers with the same tree *)
Example C09_nonvacuous :
  let tk k v c := {| tk_type := k; tk_loc := (1, c); tk_val := v |} in
  let id s c := tk TIdent (Some (bytes_of_string s)) c in
  let ts := [id "f" 1; tk TLParen None 2; id "x" 3; tk TColon None 4;
             tk TIntLit (Some (bytes_of_string "1")) 5; tk TRParen None 6; tk TSemiColon None 7; eof_token]%string in
  run_tokens ts = VAccept [SExpr (ECall (1, 1) [] ["f"%string] [(Some "x"%string, ELit (1, 5) (VU64 1))])]
  /\ rd_parse ts = run_tokens ts.
Proof. split; vm_compute; reflexivity. Qed.
