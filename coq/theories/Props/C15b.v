(** C15, second part -- the generic length helpers for EVERY content size.  Pinned statements only; proofs are in
    Proofs/C15/Wrap.v and Wrap2.v.

    Props/C15.v proves "declares exactly what follows" under the premise that the count fits the field.  Here the
    output is given with no premise (the count is reduced modulo the width of the field, which is what the
    `as u8` / `as u16` casts of src/stdlib/std.rs do), and from it the premise is shown to be necessary as well as
    sufficient: an independent parser recovers the supplied content from the produced bytes exactly when the
    content fits.  [C15b_len_nested] is the nesting argument of Props/C15.v spelled out once, layer by layer. *)
From RS Require Import Base.Bytes Base.Outcome Interp.Val Lib.LibBase Lib.ProtoLib Lib.StdLib
  Spec.LenPrefix Spec.TlsParse Spec.DhcpParse Proofs.C15.StdHelpers Proofs.C15.Wrap Proofs.C15.Wrap2.
Open Scope N_scope.

Theorem C15b_len_u8_exact : forall e parts h,
  call e "std::len_u8" [] (map VStr parts) h
  = Some (Ok (VStr ([len (concat parts) mod 256] ++ concat parts), h)).
Proof. exact len_u8_exact. Qed.

Theorem C15b_len_be16_exact : forall e parts h,
  call e "std::len_be16" [] (map VStr parts) h
  = Some (Ok (VStr (be16 (len (concat parts) mod 65536) ++ concat parts), h)).
Proof. exact len_be16_exact. Qed.

Theorem C15b_len_u8_iff : forall e parts rest h out,
  call e "std::len_u8" [] (map VStr parts) h = Some (Ok (VStr out, h)) ->
  (parse_len_u8 (out ++ rest) = Some (concat parts, rest) <-> len (concat parts) < 256).
Proof. exact len_u8_iff. Qed.

Theorem C15b_len_be16_iff : forall e parts rest h out,
  call e "std::len_be16" [] (map VStr parts) h = Some (Ok (VStr out, h)) ->
  (parse_len_be16 (out ++ rest) = Some (concat parts, rest) <-> len (concat parts) < 65536).
Proof. exact len_be16_iff. Qed.

Theorem C15b_len_nested : forall e parts rest h, len (concat parts) < 256 ->
  exists inner out,
    call e "std::len_u8" [] (map VStr parts) h = Some (Ok (VStr inner, h))
    /\ call e "std::len_be16" [] [VStr inner] h = Some (Ok (VStr out, h))
    /\ parse_len_be16 (out ++ rest) = Some (inner, rest)
    /\ parse_len_u8 inner = Some (concat parts, []).
Proof. exact len_nested. Qed.

Theorem C15b_int_exact : forall e v h,
  call e "std::u8" [VU64 v] [] h = Some (Ok (VStr [v mod 256], h))
  /\ call e "std::be16" [VU64 v] [] h = Some (Ok (VStr (be16 (v mod 65536)), h))
  /\ call e "std::be32" [VU64 v] [] h = Some (Ok (VStr (be32 (v mod 4294967296)), h))
  /\ call e "std::le16" [VU64 v] [] h = Some (Ok (VStr (le16 (v mod 65536)), h))
  /\ call e "std::le32" [VU64 v] [] h = Some (Ok (VStr (le32 (v mod 4294967296)), h)).
Proof. exact int_exact. Qed.

Theorem C15b_int_iff : forall e v rest h,
  (forall out, call e "std::u8" [VU64 v] [] h = Some (Ok (VStr out, h)) ->
               (parse_u8 (out ++ rest) = Some (v, rest) <-> v < 256))
  /\ (forall out, call e "std::be16" [VU64 v] [] h = Some (Ok (VStr out, h)) ->
                  (parse_be16 (out ++ rest) = Some (v, rest) <-> v < 65536))
  /\ (forall out, call e "std::be32" [VU64 v] [] h = Some (Ok (VStr out, h)) ->
                  (parse_be32 (out ++ rest) = Some (v, rest) <-> v < 4294967296)).
Proof. exact int_iff. Qed.

(** a TLS record: the independent record parser returns the supplied content type, version and fragment exactly
    when the fragment fits the 16-bit length *)
Theorem C15b_tls_record_iff : forall e version content v c parts rest h out,
  conv_u16 version = Ok v -> conv_u8 content = Ok c ->
  call e "tls::message" [version; content] (map VStr parts) h = Some (Ok (VStr out, h)) ->
  (parse_tls_record (out ++ rest) = Some ((c, v, concat parts), rest) <-> len (concat parts) < 65536).
Proof. exact tls_record_iff. Qed.

Theorem C15b_tls_extension_iff : forall e ext t parts rest h out,
  conv_u16 ext = Ok t ->
  call e "tls::extension" [ext] (map VStr parts) h = Some (Ok (VStr out, h)) ->
  (parse_extension (out ++ rest) = Some ((t, concat parts), rest) <-> len (concat parts) < 65536).
Proof. exact tls_extension_iff. Qed.

Theorem C15b_dhcp_option_iff : forall e opt o parts rest h out,
  conv_u8 opt = Ok o ->
  call e "dhcp::option" [opt] (map VStr parts) h = Some (Ok (VStr out, h)) ->
  (parse_dhcp_tlv (out ++ rest) = Some ((o, concat parts), rest) <-> len (concat parts) < 256).
Proof. exact dhcp_option_iff. Qed.

Theorem C15b_len_be32_exact : forall e parts h,
  call e "std::len_be32" [] (map VStr parts) h
  = Some (Ok (VStr (be32 (len (concat parts) mod 4294967296) ++ concat parts), h)).
Proof. exact len_be32_exact. Qed.

Theorem C15b_len_be32_iff : forall e parts rest h out,
  call e "std::len_be32" [] (map VStr parts) h = Some (Ok (VStr out, h)) ->
  (parse_len_be32 (out ++ rest) = Some (concat parts, rest) <-> len (concat parts) < 4294967296).
Proof. exact len_be32_iff. Qed.

(** the hypotheses are met, on both sides of the boundary: 255 bytes parse back, 256 bytes declare 0 *)
Example C15b_nonvacuous :
  let e := {| env_files := [] |} in
  (exists out, call e "std::len_u8" [] [VStr (repeat 7 255)] [] = Some (Ok (VStr out, []))
               /\ parse_len_u8 out = Some (repeat 7 255, []))
  /\ (exists out, call e "std::len_u8" [] [VStr (repeat 7 256)] [] = Some (Ok (VStr out, []))
                  /\ parse_len_u8 out = Some ([], repeat 7 256)).
Proof. cbn zeta. split; eexists; (split; [vm_compute; reflexivity|]); vm_compute; reflexivity. Qed.
