(** C06, second part -- nesting to any depth, the library methods, sequence numbers over whole histories.
    Pinned statements only; proofs are in Proofs/C06/{Nesting,LibLevel,History}.v.

    [wrap ls inner] (Proofs/C06/Nesting.v) composes the ezpkt builders, innermost layer first; a [layer] is a
    session record in the state it has for this packet (kind, addresses/ports, VNI or ethertype, raw flag,
    sequence counter; ERSPAN II: + the call's port index).  [peel] (Spec/TunnelPeel.v) is made only of the
    readers of Spec/Wire.v and the decoders of Spec/Tunnel.v, outermost layer first; it reads neither the IPv4
    total length nor the UDP length, so no size premise is needed.  [wf_layer]: the field-width premises
    (addresses < 2^32, ports and ethertype < 2^16, VNI < 2^24, counter < 2^32, GRE flags = default with or
    without S, ERSPAN II session id 0). *)
From RS Require Import Base.Bytes Base.Outcome Pkt.Hdrs Pkt.Packet Ez.Tcp Ez.Udp Ez.Gre Interp.Val
  Lib.LibBase Lib.MiscLib Lib.StdLib Spec.Tunnel Spec.TunnelPeel
  Proofs.C06.Nesting Proofs.C06.LibLevel Proofs.C06.History.
Open Scope N_scope.

(* ---------------- 1. nesting to any depth ---------------- *)
(** peeling the layers off the outermost frame, each header showing its session's parameters,
    gives back the inner frame byte for byte *)
Theorem C06_nesting_transparent : forall ls inner outer,
  Forall wf_layer ls -> wrap ls inner = Ok outer -> peel (map spec_of (rev ls)) outer = Some inner.
Proof. exact wrap_peel. Qed.

(** the builders never fail: every nesting of every frame exists *)
Theorem C06_nesting_total : forall ls inner, exists outer, wrap ls inner = Ok outer.
Proof. exact wrap_total. Qed.

Theorem C06_nesting_injective : forall ls a b o,
  Forall wf_layer ls -> wrap ls a = Ok o -> wrap ls b = Ok o -> a = b.
Proof. exact wrap_injective. Qed.

(* ---------------- 2. the library methods ---------------- *)
(** [each_from g ps qs]: as many outer as inner packets, the i-th outer is [g] of the i-th inner;
    [each_from_st g at ps qs]: the same with the session state after i packets, [at i];
    [heap_upd h h' a o]: [h'] is [h] with cell [a] now holding [o], every other cell unchanged *)
Theorem C06_lib_vxlan_encap : forall h a f gen ps x,
  nth_error h a = Some (OVxlan f) -> conv_pktgen gen = Ok ps ->
  exists qs, vxlan_method "encap" (Some a) [gen] x h = Some (Ok (VPktGen qs, h))
    /\ each_from (fun p => vxlan_encap f (pkt_frame p)) ps qs.
Proof. exact vxlan_encap_lib. Qed.

Theorem C06_lib_vxlan_dgram : forall h a f p x,
  nth_error h a = Some (OVxlan f) ->
  exists q, vxlan_method "dgram" (Some a) [VPkt p] x h = Some (Ok (VPkt q, h)) /\ vxlan_encap f (pkt_frame p) = Ok q.
Proof. exact vxlan_dgram_lib. Qed.

Theorem C06_lib_erspan1_encap : forall h a f gen ps x,
  nth_error h a = Some (OErspan1 f) -> conv_pktgen gen = Ok ps ->
  exists qs, erspan1_method "encap" (Some a) [gen] x h = Some (Ok (VPktGen qs, h))
    /\ each_from (fun p => erspan1_encap f (pkt_frame p)) ps qs.
Proof. exact erspan1_encap_lib. Qed.

Theorem C06_lib_gre_encap : forall h a f gen ps x,
  nth_error h a = Some (OGre f) -> gl_seq f < 4294967296 -> conv_pktgen gen = Ok ps ->
  exists qs h', gre_method "encap" (Some a) [gen] x h = Some (Ok (VPktGen qs, h'))
    /\ each_from_st (fun s p => gre_flow_encap s (pkt_frame p)) (gre_at f) ps qs
    /\ heap_upd h h' a (OGre (gre_at f (len ps))).
Proof. exact gre_encap_lib. Qed.

Theorem C06_lib_erspan2_encap : forall h a f gen ixv ps ix x,
  nth_error h a = Some (OErspan2 f) -> e2_seq f < 4294967296 -> conv_pktgen gen = Ok ps -> conv_u32 ixv = Ok ix ->
  exists qs h', erspan2_method "encap" (Some a) [gen; ixv] x h = Some (Ok (VPktGen qs, h'))
    /\ each_from_st (fun s p => erspan2_encap s (pkt_frame p) ix) (erspan2_at f) ps qs
    /\ heap_upd h h' a (OErspan2 (erspan2_at f (len ps))).
Proof. exact erspan2_encap_lib. Qed.

(** the definitions used above, spelled out *)
Theorem C06_lib_defs :
  (forall A B (g : A -> outcome B) ps qs, each_from g ps qs <->
     length qs = length ps /\ forall i p, nth_error ps i = Some p -> exists q, nth_error qs i = Some q /\ g p = Ok q)
  /\ (forall S A B (g : S -> A -> outcome (S * B)) at_ ps qs, each_from_st g at_ ps qs <->
     length qs = length ps /\ forall i p, nth_error ps i = Some p ->
       exists q, nth_error qs i = Some q /\ g (at_ (N.of_nat i)) p = Ok (at_ (N.of_nat i + 1), q))
  /\ (forall h h' a o, heap_upd h h' a o <->
     nth_error h' a = Some o /\ length h' = length h /\ forall b, b <> a -> nth_error h' b = nth_error h b)
  /\ (forall f k, gre_at f k = {| gl_cl := gl_cl f; gl_sv := gl_sv f; gl_flags := gl_flags f; gl_ethertype := gl_ethertype f;
                                  gl_raw := gl_raw f; gl_seq := (gl_seq f + k) mod 4294967296 |})
  /\ (forall f k, erspan2_at f k = {| e2_cl := e2_cl f; e2_sv := e2_sv f; e2_raw := e2_raw f;
                                      e2_seq := (e2_seq f + k) mod 4294967296; e2_sess := e2_sess f |}).
Proof.
  split; [intros; reflexivity|]. split; [intros; reflexivity|]. split; [intros; reflexivity|].
  split; intros; reflexivity.
Qed.

(** each of these packets is one [wrap] layer, so part 1 applies to it *)
Theorem C06_lib_is_layer : forall b,
  (forall f q, vxlan_encap f b = Ok q -> wrap [LVxlan f] b = Ok (pk_body q))
  /\ (forall f f' q, gre_flow_encap f b = Ok (f', q) -> wrap [LGre f] b = Ok (pk_body q))
  /\ (forall f q, erspan1_encap f b = Ok q -> wrap [LErspan1 f] b = Ok (pk_body q))
  /\ (forall f ix f' q, erspan2_encap f b ix = Ok (f', q) -> wrap [LErspan2 f ix] b = Ok (pk_body q)).
Proof.
  intros b. split; [|split; [|split]]; intros; cbn [wrap wrap1];
    match goal with H : _ = Ok _ |- _ => rewrite H end; reflexivity.
Qed.

(** the interpreter's dispatcher reaches exactly these functions *)
Theorem C06_lib_dispatch : forall e this a x h,
  exec e "vxlan::Vxlan.encap" this a x h = vxlan_method "encap" this a x h
  /\ exec e "vxlan::Vxlan.dgram" this a x h = vxlan_method "dgram" this a x h
  /\ exec e "gre::Gre.encap" this a x h = gre_method "encap" this a x h
  /\ exec e "erspan1::Erspan1.encap" this a x h = erspan1_method "encap" this a x h
  /\ exec e "erspan2::Erspan2.encap" this a x h = erspan2_method "encap" this a x h.
Proof. exact exec_tunnel_methods. Qed.

(* ---------------- 3. sequence numbers over histories ---------------- *)
(** [run m a h out h']: any finite sequence of steps from heap [h] to [h'], each step either a successful call of
    [m] on the object at [a] with any arguments (its batch is appended to [out]) or anything at all that leaves
    cell [a] as it is; [outer_seq raw fr] (Spec/TunnelPeel.v): the sequence number in the GRE header of frame [fr] *)
Theorem C06_erspan2_history : forall a h out h2,
  run (erspan2_method "encap") a h out h2 -> forall f,
  nth_error h a = Some (OErspan2 f) -> e2_seq f < 4294967296 ->
  (forall k q, nth_error (concat out) k = Some q ->
     outer_seq (e2_raw f) (pk_body q) = Some ((e2_seq f + N.of_nat k) mod 4294967296))
  /\ nth_error h2 a = Some (OErspan2 (erspan2_at f (len (concat out)))).
Proof. exact erspan2_history. Qed.

(** counted from zero for a session made by [erspan2::session] *)
Theorem C06_erspan2_history_fresh : forall c s rawv r x h0 v h out h2,
  conv_bool rawv = Ok r -> erspan2_session_fn [VIp4 c; VIp4 s; rawv] x h0 = Ok (v, h) ->
  v = VObj (length h0) /\
  (run (erspan2_method "encap") (length h0) h out h2 ->
   forall k q, nth_error (concat out) k = Some q -> outer_seq r (pk_body q) = Some (N.of_nat k mod 4294967296)).
Proof. exact erspan2_history_fresh. Qed.

(** GRE sessions: with the S flag the k-th packet carries (start + k) mod 2^32, without it no packet has a sequence number *)
Theorem C06_gre_history : forall a h out h2,
  run (gre_method "encap") a h out h2 -> forall f s,
  nth_error h a = Some (OGre f) -> gl_flags f = gre_flags_seq gre_flags_default s ->
  gl_ethertype f < 65536 -> gl_seq f < 4294967296 ->
  (forall k q, nth_error (concat out) k = Some q ->
     outer_seq (gl_raw f) (pk_body q) = if s then Some ((gl_seq f + N.of_nat k) mod 4294967296) else None)
  /\ nth_error h2 a = Some (OGre (gre_at f (len (concat out)))).
Proof. exact gre_history. Qed.

(** the "anything else" steps include every tunnel method call on another object *)
Theorem C06_other_calls_frame : forall name b args x h v h1,
  (vxlan_method name (Some b) args x h = Some (Ok (v, h1)) \/ gre_method name (Some b) args x h = Some (Ok (v, h1))
   \/ erspan1_method name (Some b) args x h = Some (Ok (v, h1)) \/ erspan2_method name (Some b) args x h = Some (Ok (v, h1))) ->
  forall a, a <> b -> nth_error h1 a = nth_error h a.
Proof. exact tunnel_call_frame. Qed.

(* ---------------- 4. non-vacuity ---------------- *)
(** three real UDP frames through erspan2::Erspan2.encap, then gre::Gre.encap (S flag), then vxlan::Vxlan.encap *)
Example C06b_nonvacuous :
  let e2 := {| e2_cl := 16909060; e2_sv := 16909061; e2_raw := false; e2_seq := 0; e2_sess := 0 |} in
  let gr := {| gl_cl := 167772161; gl_sv := 167772162; gl_flags := gre_flags_seq gre_flags_default true;
               gl_ethertype := 25944; gl_raw := true; gl_seq := 0 |} in
  let vx := {| vx_cl := (3232235777, 40000); vx_sv := (3232235778, 4789); vx_vni := 16777215; vx_raw := false |} in
  let L := fun i => [LErspan2 (erspan2_at e2 i) 7; LGre (gre_at gr i); LVxlan vx] in
  let h0 := [OErspan2 e2; OGre gr; OVxlan vx] in
  let uf := {| uf_cl := (167837953, 1234); uf_sv := (167837954, 53); uf_raw := false |} in
  exists k0 k1 k2 o0 o1 o2 q0 q1 q2 h1 h2,
    omapM (fun b => omap udp_packet (uflow_client_dgram uf b)) [[104; 105]; []; repeat 255 300] = Ok [k0; k1; k2]
    (* the library: three inner packets through three nested sessions *)
    /\ erspan2_method "encap" (Some 0%nat) [VPktGen [k0; k1; k2]; VU32 7] [] h0 = Some (Ok (VPktGen [q0; q1; q2], h1))
    /\ (exists r0 r1 r2, gre_method "encap" (Some 1%nat) [VPktGen [q0; q1; q2]] [] h1 = Some (Ok (VPktGen [r0; r1; r2], h2))
        /\ vxlan_method "encap" (Some 2%nat) [VPktGen [r0; r1; r2]] [] h2
           = Some (Ok (VPktGen [pkt_of_body o0; pkt_of_body o1; pkt_of_body o2], h2)))
    (* are the 3-deep nestings of the three frames *)
    /\ wrap (L 0) (pk_body k0) = Ok o0 /\ wrap (L 1) (pk_body k1) = Ok o1 /\ wrap (L 2) (pk_body k2) = Ok o2
    (* which peel back to the inner frames, with sequence numbers 0, 1, 2 at both GRE levels *)
    /\ peel (map spec_of (rev (L 0))) o0 = Some (pk_body k0)
    /\ peel (map spec_of (rev (L 1))) o1 = Some (pk_body k1)
    /\ peel (map spec_of (rev (L 2))) o2 = Some (pk_body k2)
    /\ map (fun l => t_seq (spec_of l)) (L 2) = [Some 2; Some 2; None]
    /\ map (fun o => option_map (outer_seq true) (peel [spec_of (LVxlan vx)] o)) [o0; o1; o2] = [Some (Some 0); Some (Some 1); Some (Some 2)]
    /\ map (outer_seq false) (map pk_body [q0; q1; q2]) = [Some 0; Some 1; Some 2]
    (* and not to anything else: the oracle refuses a wrong sequence number *)
    /\ peel (map spec_of (rev (L 1))) o2 = None
    /\ length (pk_body k0) = 44%nat /\ length o0 = 172%nat.
Proof.
  cbn zeta. do 11 eexists.
  split; [vm_compute; reflexivity|].
  split; [vm_compute; reflexivity|].
  split; [do 3 eexists; split; [vm_compute; reflexivity|vm_compute; reflexivity]|].
  split; [vm_compute; reflexivity|].
  split; [vm_compute; reflexivity|].
  split; [vm_compute; reflexivity|].
  split; [vm_compute; reflexivity|].
  split; [vm_compute; reflexivity|].
  split; [vm_compute; reflexivity|].
  split; [vm_compute; reflexivity|].
  split; [vm_compute; reflexivity|].
  split; [vm_compute; reflexivity|].
  split; [vm_compute; reflexivity|].
  split; vm_compute; reflexivity.
Qed.
