(** C02b -- the IPv4-header theorems of C02 at the level the interpreter executes: every library function and
    method that returns packets, as dispatched by [exec] on a heap of objects; nesting to any depth; histories.
    Pinned statements only; proofs in Proofs/C02/{LibIp,LibIpTcp,LibIpFns,LibIpTun,LibIpAll,LibIpHist}.v.

    [ip_pkt w raw p]: the outermost IPv4 header of packet p (behind the 14-byte Ethernet header unless raw)
    passes [Spec.Wire.ipv4_ok] -- version/IHL 0x45, total length = bytes to the end of the datagram, header
    checksum verifies -- and reads back, with the readers of Spec/Wire.v, the six fields of [w : ip_want]:
    source, destination, protocol, identification, TTL and the 16-bit flags+fragment-offset word.
    [pkts_carry raw ws ps]: packets ps carry, one by one and in order, the headers ws.
    [want_default s d pr]: the code's defaults -- identification 0, TTL 64, flags+offset 0.
    All theorems are partial-correctness statements ("whenever the call returns a value ..."); that calls with
    binder-accepted arguments never panic is C08.  Premises beyond the property's "fits in 65535 bytes":
    [addr_val_ok] / the [*_wf] receiver premises say that addresses are 32-bit and ports 16-bit numbers (the
    model's numbers are unbounded; [C02_created_wf]: the library's own constructors establish them). *)
From RS Require Import Base.Bytes Base.Outcome Bind.Types Pkt.Csum Pkt.Hdrs Pkt.Packet Ez.Tcp Ez.Udp Ez.Icmp Ez.Ip4 Ez.Gre
  Interp.Val Interp.Eval Lib.LibBase Lib.StdLib Lib.Ipv4Lib Lib.MiscLib Spec.Wire Spec.Tunnel Spec.TunnelPeel
  Proofs.C02.IpLemmas Proofs.C02.TcpIp Proofs.C02.OtherIp Proofs.C02.DgramIp
  Proofs.C02.LibIp Proofs.C02.LibIpTcp Proofs.C02.LibIpFns Proofs.C02.LibIpTun Proofs.C02.LibIpAll Proofs.C02.LibIpHist
  Proofs.C03.LibCalls Proofs.C03.LibTcpOps Proofs.C03.LibTcp Proofs.C03.LibUdp Proofs.C03.LibIcmp Proofs.C03.LibFrame
  Proofs.C06.Nesting Proofs.C07.FragExact Proofs.C07.Compose Proofs.C07.LibFrag.
From RSGen Require Import Catalogue.
From Coq Require Import Lia.
Open Scope N_scope.

(* ------------------------------------------------------------------ 0. vocabulary, spelled out *)
Theorem C02_clause_defs :
  (forall w d, ip_clause w d <->
     ipv4_ok d = true /\ ip_src_of d = w_src w /\ ip_dst_of d = w_dst w /\ ip_proto_of d = w_proto w
     /\ ip_id_of d = w_id w /\ ip_ttl_of d = w_ttl w /\ ip_frag_of d = w_frag w)
  /\ (forall w raw p, ip_pkt w raw p <-> ip_clause w (if raw then pk_body p else skipn 14 (pk_body p)))
  /\ (forall raw ws ps, pkts_carry raw ws ps <-> Forall2 (fun w p => ip_pkt w raw p) ws ps)
  /\ (forall s d pr, want_default s d pr = {| w_src := s; w_dst := d; w_proto := pr; w_id := 0; w_ttl := 64; w_frag := 0 |})
  /\ (forall w ps, same_want w ps = map (fun _ => w) ps)
  /\ (forall w d, ip_clause_b w d = true <-> ip_clause w d).
Proof.
  split; [intros; reflexivity|]. split; [intros; reflexivity|]. split; [intros; reflexivity|].
  split; [intros; reflexivity|]. split; [intros; reflexivity|]. exact ip_clause_b_ok.
Qed.

(** the headers each family designates *)
Theorem C02_want_defs :
  (forall f c fo, tcp_want f c fo =
     {| w_src := fst (if c then tf_cl f else tf_sv f); w_dst := fst (if c then tf_sv f else tf_cl f);
        w_proto := 6; w_id := 0; w_ttl := 64; w_frag := fo |})
  /\ (forall f c fo, udp_side_want f c fo =
     {| w_src := fst (if c then uf_cl f else uf_sv f); w_dst := fst (if c then uf_sv f else uf_cl f);
        w_proto := 17; w_id := 0; w_ttl := 64; w_frag := fo |})
  /\ (forall s t, udp_want s t = want_default (fst s) (fst t) 17)
  /\ (forall f, vxlan_want f = want_default (fst (vx_cl f)) (fst (vx_sv f)) 17)
  /\ (forall f, gre_want f = want_default (gl_cl f) (gl_sv f) 47)
  /\ (forall f, erspan1_want f = want_default (e1_cl f) (e1_sv f) 47)
  /\ (forall f, erspan2_want f = want_default (e2_cl f) (e2_sv f) 47)
  /\ (forall iph off mf, ctx_want iph off mf =
     {| w_src := ip_src iph; w_dst := ip_dst iph; w_proto := ip_proto iph; w_id := ip_id iph; w_ttl := ip_ttl iph;
        w_frag := frag_word off (Hdrs.ip_frag iph) mf |}).
Proof.
  split; [intros f [|] fo; reflexivity|]. split; [intros f [|] fo; reflexivity|].
  split; [intros; reflexivity|]. split; [intros; reflexivity|]. split; [intros; reflexivity|].
  split; [intros; reflexivity|]. split; intros; reflexivity.
Qed.

(* ------------------------------------------------------------------ 1. every packet-returning library key *)
(** the keys: computed from the catalogue by return type; this is the list today *)
Theorem C02_pkt_keys :
  pkt_keys = map fd_key (filter (fun f => returns_packets (fd_ret f) && negb (String.eqb (fd_key f) "eth::frame")) catalogue)
  /\ pkt_keys =
     ["ipv4::IpFrag.fragment"; "ipv4::IpFrag.tail"; "ipv4::IpFrag.datagram";
      "ipv4::tcp::TcpFlow.open"; "ipv4::tcp::TcpFlow.client_message"; "ipv4::tcp::TcpFlow.server_message";
      "ipv4::tcp::TcpFlow.client_segment"; "ipv4::tcp::TcpFlow.server_segment";
      "ipv4::tcp::TcpFlow.client_ack"; "ipv4::tcp::TcpFlow.server_ack";
      "ipv4::tcp::TcpFlow.client_close"; "ipv4::tcp::TcpFlow.server_close";
      "ipv4::tcp::TcpFlow.client_reset"; "ipv4::tcp::TcpFlow.server_reset";
      "ipv4::udp::UdpFlow.client_dgram"; "ipv4::udp::UdpFlow.server_dgram";
      "ipv4::udp::broadcast"; "ipv4::udp::unicast"; "ipv4::icmp::Icmp.echo"; "ipv4::icmp::Icmp.echo_reply";
      "ipv4::datagram"; "dns::host"; "vxlan::Vxlan.dgram"; "vxlan::Vxlan.encap"; "gre::Gre.encap";
      "erspan1::Erspan1.encap"; "erspan2::Erspan2.encap"]%string
  /\ (forall t, returns_packets t = match t with TPkt | TPktGen => true | _ => false end).
Proof. split; [reflexivity|]. split; [vm_compute; reflexivity|intros; reflexivity]. Qed.

(** EVERY such key: whenever the call returns, on a heap whose receiver (if any) holds 32-bit addresses, with
    32-bit address arguments and sizes that fit ([ip_fits], spelled out in C02_fits_defs), the value is a list of
    packets carrying exactly the headers [ip_plan] designates for the call (spelled out per family below) *)
Theorem C02_lib_all_keys : forall e key this slots extra h v h',
  In key pkt_keys ->
  Forall addr_val_ok slots -> recv_wf this h -> ip_fits key this slots extra h ->
  exec e key this slots extra h = Some (Ok (v, h')) ->
  exists raw ws ps, ip_plan key this slots h = Some (raw, ws) /\ conv_pktgen v = Ok ps /\ pkts_carry raw ws ps.
Proof. exact lib_ip_all. Qed.

Theorem C02_fits_defs :
  (forall key a slots extra h, ip_fits key (Some a) slots extra h <->
     forall o, nth_error h a = Some o ->
       match o with
       | OTcp _ => extra_fits 40 extra
       | OUdp _ => extra_fits 28 extra
       | OIcmp _ => icmp_ip_fits slots
       | OFrag f => forall name q, strip_prefix "ipv4::IpFrag." key = Some name -> frag_call_req name slots = Some q ->
                                   20 + len (req_carried f (fst q)) < 65536
       | OVxlan _ => inner_fits 36 (nth 0 slots VNil)
       | OGre f => inner_fits (gre_overhead (gl_flags f)) (nth 0 slots VNil)
       | OErspan1 _ => inner_fits 24 (nth 0 slots VNil)
       | OErspan2 _ => inner_fits 36 (nth 0 slots VNil)
       | OBufIo _ _ => True
       end)
  /\ (forall key slots extra h, ip_fits key None slots extra h <->
       if String.eqb key "dns::host" then forall qn, conv_buf (nth 1 slots VNil) = Ok qn -> dns_host_fits qn (len extra)
       else if String.eqb key "ipv4::datagram" then extra_fits 20 extra else extra_fits 28 extra)
  /\ (forall hdr extra, extra_fits hdr extra <-> forall b, join_extra [] extra = Ok b -> hdr + len b < 65536)
  /\ (forall slots, icmp_ip_fits slots <-> forall pv b, slots = [pv] -> conv_buf pv = Ok b -> 28 + len b < 65536)
  /\ (forall ov gen, inner_fits ov gen <->
        forall ps, conv_pktgen gen = Ok ps -> Forall (fun p => ov + len (pk_body p) < 65536) ps)
  /\ (forall flags, gre_overhead flags = if negb (N.land (gre_flags_word flags) 4096 =? 0) then 28 else 24)
  /\ (forall f r, len (req_carried f r) <= len (fr_payload f))
  /\ (forall v, addr_val_ok v <->
        match v with VIp4 a => a < 4294967296 | VSock4 a p => a < 4294967296 /\ p < 65536 | _ => True end)
  /\ (forall this h, recv_wf this h <-> forall a o, this = Some a -> nth_error h a = Some o -> obj_ip_wf o)
  /\ (forall o, obj_ip_wf o <->
        match o with
        | OTcp f => flow_wf f | OUdp f => uflow_wf f | OIcmp f => icmp_awf f | OFrag f => ip_wf (fr_hdr f)
        | OVxlan f => vxlan_wf f | OGre f => gre_wf f | OErspan1 f => erspan1_wf f | OErspan2 f => erspan2_wf f
        | OBufIo _ _ => True
        end).
Proof.
  split; [intros; reflexivity|]. split; [intros; reflexivity|]. split; [intros; reflexivity|].
  split; [intros; reflexivity|]. split; [intros; reflexivity|]. split; [intros; reflexivity|].
  split; [exact req_carried_le|]. split; [intros; reflexivity|]. split; [intros; reflexivity|]. intros; reflexivity.
Qed.

(** how [ip_plan] reads a call: a method call on object o is planned by its class; the four functions by name *)
Theorem C02_plan_defs :
  (forall a o key name slots h, nth_error h a = Some o -> strip_prefix (obj_class o ++ ".") key = Some name ->
     ip_plan key (Some a) slots h = method_plan o name slots)
  /\ (forall o name slots, method_plan o name slots =
        let inner := opt_of (conv_pktgen (nth 0 slots VNil)) in
        match o with
        | OTcp f => option_map (fun pl => (tf_raw f, map (fun cf => tcp_want f (fst cf) (snd cf)) pl)) (tcp_plan name slots)
        | OUdp f => option_map (fun ws => (uf_raw f, ws)) (udp_plan f name slots)
        | OIcmp f => option_map (fun ws => (if_raw f, ws)) (icmp_plan f name)
        | OFrag f => option_map (fun q => (snd q, [req_want f (fst q)])) (frag_call_req name slots)
        | OVxlan f => option_map (fun ps => (vx_raw f, same_want (vxlan_want f) ps)) inner
        | OGre f => option_map (fun ps => (gl_raw f, same_want (gre_want f) ps)) inner
        | OErspan1 f => option_map (fun ps => (e1_raw f, same_want (erspan1_want f) ps)) inner
        | OErspan2 f => option_map (fun ps => (e2_raw f, same_want (erspan2_want f) ps)) inner
        | OBufIo _ _ => None
        end)
  /\ (forall slots h, ip_plan "ipv4::udp::unicast" None slots h = opt_of (unicast_plan slots)
                   /\ ip_plan "ipv4::udp::broadcast" None slots h = opt_of (broadcast_plan slots)
                   /\ ip_plan "ipv4::datagram" None slots h = option_map (fun w => (false, [w])) (opt_of (datagram_want slots))
                   /\ ip_plan "dns::host" None slots h = opt_of (dns_host_plan slots)).
Proof.
  split; [exact ip_plan_method|]. split; [intros; reflexivity|]. intros. repeat split.
Qed.

(* ------------------------------------------------------------------ 1a. TCP *)
(** the plan of each TcpFlow method: (sending side: true = client, flags+offset word), in emission order *)
Theorem C02_tcp_plans : forall sa sq ak fo,
  let hs := [(true, 0); (false, 0); (true, 0)] in
  tcp_plan "open" [] = Some hs /\ tcp_plan "client_close" [] = Some hs
  /\ tcp_plan "server_close" [] = Some [(false, 0); (true, 0); (false, 0)]
  /\ tcp_plan "client_message" [VBool sa; sq; ak; VU16 fo] = Some ((true, fo mod 65536) :: if sa then [(false, 0)] else [])
  /\ tcp_plan "server_message" [VBool sa; sq; ak; VU16 fo] = Some ((false, fo mod 65536) :: if sa then [(true, 0)] else [])
  /\ (forall sl, tcp_plan "client_segment" sl = Some [(true, 0)] /\ tcp_plan "server_segment" sl = Some [(false, 0)]
              /\ tcp_plan "client_ack" sl = Some [(true, 0)] /\ tcp_plan "server_ack" sl = Some [(false, 0)]
              /\ tcp_plan "client_reset" sl = Some [(true, 0)] /\ tcp_plan "server_reset" sl = Some [(false, 0)]).
Proof.
  intros sa sq ak fo. cbv zeta. split; [reflexivity|]. split; [reflexivity|]. split; [reflexivity|].
  split; [destruct sa; reflexivity|]. split; [destruct sa; reflexivity|]. intros sl. repeat split.
Qed.

(** EVERY method of the TcpFlow class: the flow written back keeps its sockets; a packet-returning method
    returns packets carrying its plan for the flow's addresses *)
Theorem C02_tcp_methods : forall e ms name key slots extra h a f v h',
  assoc tcp_class class_table = Some ms -> In (name, key) ms ->
  extra_fits 40 extra ->
  nth_error h a = Some (OTcp f) -> flow_wf f ->
  exec e key (Some a) slots extra h = Some (Ok (v, h')) ->
  exists f', h' = set_nth h a (OTcp f') /\ same_socks f' f
    /\ (In name tcp_pkt_names ->
        exists pl ps, tcp_plan name slots = Some pl /\ conv_pktgen v = Ok ps
          /\ Forall2 (fun cf p => ip_pkt (tcp_want f (fst cf) (snd cf)) (tf_raw f) p) pl ps).
Proof. exact tcp_ip_method. Qed.

(* ------------------------------------------------------------------ 1b. UDP, ICMP, datagram, fragments, dns::host *)
Theorem C02_udp_flow_methods : forall e ms name key slots extra h a f v h',
  assoc udp_class class_table = Some ms -> In (name, key) ms ->
  extra_fits 28 extra ->
  nth_error h a = Some (OUdp f) -> uflow_wf f ->
  exec e key (Some a) slots extra h = Some (Ok (v, h')) ->
  h' = h /\ (In name ["client_dgram"; "server_dgram"]%string ->
             exists ws ps, udp_plan f name slots = Some ws /\ conv_pktgen v = Ok ps /\ pkts_carry (uf_raw f) ws ps).
Proof. exact udp_ip_method. Qed.

Theorem C02_udp_flow_plans : forall f fo cs,
  udp_plan f "client_dgram" [VU16 fo; cs] = Some [udp_side_want f true (fo mod 65536)]
  /\ udp_plan f "server_dgram" [VU16 fo; cs] = Some [udp_side_want f false (fo mod 65536)].
Proof. intros. split; reflexivity. Qed.

(** ipv4::udp::unicast / broadcast, ipv4::datagram, dns::host: the plans are spelled out in C02_fn_plans *)
Theorem C02_udp_unicast : forall e slots extra h v h',
  Forall addr_val_ok slots -> extra_fits 28 extra ->
  exec e "ipv4::udp::unicast" None slots extra h = Some (Ok (v, h')) ->
  h' = h /\ exists raw ws ps, unicast_plan slots = Ok (raw, ws) /\ conv_pktgen v = Ok ps /\ pkts_carry raw ws ps.
Proof. exact unicast_ip. Qed.

Theorem C02_udp_broadcast : forall e slots extra h v h',
  Forall addr_val_ok slots -> extra_fits 28 extra ->
  exec e "ipv4::udp::broadcast" None slots extra h = Some (Ok (v, h')) ->
  h' = h /\ exists raw ws ps, broadcast_plan slots = Ok (raw, ws) /\ conv_pktgen v = Ok ps /\ pkts_carry raw ws ps.
Proof. exact broadcast_ip. Qed.

(** ipv4::datagram: always framed; every field as the script gave it *)
Theorem C02_datagram : forall e slots extra h v h',
  Forall addr_val_ok slots -> extra_fits 20 extra ->
  exec e "ipv4::datagram" None slots extra h = Some (Ok (v, h')) ->
  h' = h /\ exists w p, datagram_want slots = Ok w /\ v = VPkt p /\ ip_pkt w false p.
Proof. exact datagram_ip. Qed.

Theorem C02_dns_host : forall e slots extra h v h',
  Forall addr_val_ok slots ->
  (forall qn, conv_buf (nth 1 slots VNil) = Ok qn -> dns_host_fits qn (len extra)) ->
  exec e "dns::host" None slots extra h = Some (Ok (v, h')) ->
  h' = h /\ exists raw ws ps, dns_host_plan slots = Ok (raw, ws) /\ conv_pktgen v = Ok ps /\ pkts_carry raw ws ps.
Proof. exact dns_host_ip. Qed.

Theorem C02_fn_plans : forall a p b q c r s d i ev dfb mfb t fo pr qn ttl,
  unicast_plan [VSock4 a p; VSock4 b q; VBool r] = Ok (r, [want_default a b 17])
  /\ broadcast_plan [VSock4 a p; VSock4 b q; VNil; VBool r] = Ok (r, [want_default a b 17])
  /\ broadcast_plan [VSock4 a p; VSock4 b q; VIp4 c; VBool r] = Ok (r, [want_default c b 17])
  /\ datagram_want [VIp4 s; VIp4 d; VU16 i; VBool ev; VBool dfb; VBool mfb; VU8 t; VU16 fo; VU8 pr]
     = Ok {| w_src := s; w_dst := d; w_proto := pr mod 256; w_id := i mod 65536; w_ttl := t mod 256;
             w_frag := N.lor (fo mod 65536) (flag_bits ev dfb mfb) |}
  /\ (flag_bits ev dfb mfb = (if ev then 32768 else 0) + (if dfb then 16384 else 0) + (if mfb then 8192 else 0))
  /\ dns_host_plan [VIp4 a; qn; ttl; VIp4 b; VBool r] = Ok (r, [want_default a b 17; want_default b a 17]).
Proof. intros. repeat split. Qed.

(** Icmp.echo: client -> server; Icmp.echo_reply: server -> client; protocol 1, defaults *)
Theorem C02_icmp_methods : forall e ms name key slots extra h a f v h',
  assoc icmp_class class_table = Some ms -> In (name, key) ms ->
  icmp_ip_fits slots ->
  nth_error h a = Some (OIcmp f) -> icmp_awf f ->
  exec e key (Some a) slots extra h = Some (Ok (v, h')) ->
  exists f', h' = set_nth h a (OIcmp f') /\ icmp_same f' f
    /\ exists ws ps, icmp_plan f name = Some ws /\ conv_pktgen v = Ok ps /\ pkts_carry (if_raw f) ws ps.
Proof. exact icmp_ip_method. Qed.

Theorem C02_icmp_plans : forall f,
  icmp_plan f "echo" = Some [want_default (if_cl f) (if_sv f) 1]
  /\ icmp_plan f "echo_reply" = Some [want_default (if_sv f) (if_cl f) 1]
  /\ (forall f', icmp_same f' f <-> if_cl f' = if_cl f /\ if_sv f' = if_sv f /\ if_raw f' = if_raw f)
  /\ (icmp_awf f <-> if_cl f < 4294967296 /\ if_sv f < 4294967296).
Proof. intros f. split; [reflexivity|]. split; [reflexivity|]. split; [intros; reflexivity|reflexivity]. Qed.

(** every method of the IpFrag class: the context's source, destination, protocol, identification and TTL, the
    flags+offset word [frag_word off ctx_flags mf]; per-fragment fit premise (the slice the call carries) *)
Theorem C02_frag_methods : forall e ms name key slots extra h a f v h',
  assoc frag_class class_table = Some ms -> In (name, key) ms ->
  nth_error h a = Some (OFrag f) -> ip_wf (fr_hdr f) ->
  (forall q, frag_call_req name slots = Some q -> 20 + len (req_carried f (fst q)) < 65536) ->
  exec e key (Some a) slots extra h = Some (Ok (v, h')) ->
  h' = h /\ exists q p, frag_call_req name slots = Some q /\ v = VPkt p /\ ip_pkt (req_want f (fst q)) (snd q) p.
Proof. exact frag_ip_method. Qed.

Theorem C02_frag_plans : forall f o l,
  req_want f (RFrag o l) = ctx_want (fr_hdr f) o (frag_mf (fr_payload f) o l)
  /\ req_want f (RTail o) = ctx_want (fr_hdr f) o (frag_mf (fr_payload f) o (len (fr_payload f) mod 65536))
  /\ req_want f RDgram = ctx_want (fr_hdr f) 0 false
  /\ req_carried f (RFrag o l) = frag_slice (fr_payload f) o l
  /\ req_carried f (RTail o) = frag_slice (fr_payload f) o (len (fr_payload f) mod 65536)
  /\ req_carried f RDgram = fr_payload f
  /\ (forall payload, frag_mf payload o l = negb (N.min (o * 8 + l * 8) (len payload) =? len payload))
  /\ (forall payload, frag_slice payload o l =
        let e := N.min (o * 8 + l * 8) (len payload) in let s := N.min (o * 8) e in takeN (e - s) (dropN s payload))
  /\ (forall fr mf, frag_word o fr mf = set_bit16 (N.lor o (N.land fr 57344)) 8192 mf).
Proof. intros. repeat split. Qed.

(** for an offset that fits its 13-bit field and a context made by ipv4::frag (evil and/or DF), the word is the
    plain sum: offset + context flags + MF *)
Theorem C02_frag_word_plain : forall off fr mf,
  off < 8192 -> In fr [0; 16384; 32768; 49152] -> frag_word off fr mf = off + fr + (if mf then 8192 else 0).
Proof. exact frag_word_plain. Qed.

(* ------------------------------------------------------------------ 1c. tunnels *)
Theorem C02_vxlan_methods : forall e ms name key slots extra h a f v h',
  assoc "vxlan::Vxlan"%string class_table = Some ms -> In (name, key) ms ->
  inner_fits 36 (nth 0 slots VNil) ->
  nth_error h a = Some (OVxlan f) -> vxlan_wf f ->
  exec e key (Some a) slots extra h = Some (Ok (v, h')) ->
  h' = h /\ exists ps out, conv_pktgen (nth 0 slots VNil) = Ok ps /\ conv_pktgen v = Ok out
    /\ pkts_carry (vx_raw f) (same_want (vxlan_want f) ps) out.
Proof. exact vxlan_ip_method. Qed.

Theorem C02_gre_methods : forall e ms name key slots extra h a f v h',
  assoc "gre::Gre"%string class_table = Some ms -> In (name, key) ms ->
  inner_fits (gre_overhead (gl_flags f)) (nth 0 slots VNil) ->
  nth_error h a = Some (OGre f) -> gre_wf f ->
  exec e key (Some a) slots extra h = Some (Ok (v, h')) ->
  exists f', h' = set_nth h a (OGre f') /\ gre_same f' f
    /\ exists ps out, conv_pktgen (nth 0 slots VNil) = Ok ps /\ conv_pktgen v = Ok out
       /\ pkts_carry (gl_raw f) (same_want (gre_want f) ps) out.
Proof. exact gre_ip_method. Qed.

Theorem C02_erspan1_methods : forall e ms name key slots extra h a f v h',
  assoc "erspan1::Erspan1"%string class_table = Some ms -> In (name, key) ms ->
  inner_fits 24 (nth 0 slots VNil) ->
  nth_error h a = Some (OErspan1 f) -> erspan1_wf f ->
  exec e key (Some a) slots extra h = Some (Ok (v, h')) ->
  h' = h /\ exists ps out, conv_pktgen (nth 0 slots VNil) = Ok ps /\ conv_pktgen v = Ok out
    /\ pkts_carry (e1_raw f) (same_want (erspan1_want f) ps) out.
Proof. exact erspan1_ip_method. Qed.

Theorem C02_erspan2_methods : forall e ms name key slots extra h a f v h',
  assoc "erspan2::Erspan2"%string class_table = Some ms -> In (name, key) ms ->
  inner_fits 36 (nth 0 slots VNil) ->
  nth_error h a = Some (OErspan2 f) -> erspan2_wf f ->
  exec e key (Some a) slots extra h = Some (Ok (v, h')) ->
  exists f', h' = set_nth h a (OErspan2 f') /\ erspan2_same f' f
    /\ exists ps out, conv_pktgen (nth 0 slots VNil) = Ok ps /\ conv_pktgen v = Ok out
       /\ pkts_carry (e2_raw f) (same_want (erspan2_want f) ps) out.
Proof. exact erspan2_ip_method. Qed.

(** the objects the library's constructors make from 32-bit addresses satisfy the receiver premises *)
Theorem C02_created_wf : forall e key slots extra h v h',
  In key ["ipv4::tcp::flow"; "ipv4::udp::flow"; "ipv4::icmp::flow"; "ipv4::frag"; "vxlan::session"; "gre::session";
          "erspan1::session"; "erspan2::session"]%string ->
  Forall addr_val_ok slots ->
  exec e key None slots extra h = Some (Ok (v, h')) ->
  exists o, v = VObj (length h) /\ h' = (h ++ [o])%list /\ obj_ip_wf o.
Proof. exact created_wf. Qed.

(* ------------------------------------------------------------------ 2. nesting to any depth *)
(** one layer ([wrap1] = the ezpkt encapsulation of the layer's session applied to frame b): the outer header is
    the session's *)
Theorem C02_layer_outer : forall l b x,
  wf_layer l -> layer_overhead l + len b < 65536 -> wrap1 l b = Ok x ->
  ip_clause (layer_want l) (l3_of (layer_raw l) x).
Proof. exact wrap1_clause. Qed.

(** [wrap ls inner = outer], layers innermost first, [rev ls] as they appear on the wire.  At every depth k:
    peeling the k outermost layers with the specification-side [peel] succeeds and the frame found there begins
    (behind its Ethernet header unless that layer is raw) with an IPv4 header satisfying the clause for the k-th
    layer's session; peeling all layers gives back [inner] byte for byte -- so whatever header clause the
    inner frame satisfied (section 1) it still satisfies at depth |ls| *)
Theorem C02_nesting_headers : forall ls inner outer,
  Forall wf_layer ls -> nest_fits ls (len inner) -> wrap ls inner = Ok outer ->
  (forall k l, nth_error (rev ls) k = Some l ->
     exists x, peel (map spec_of (firstn k (rev ls))) outer = Some x
               /\ ip_clause (layer_want l) (l3_of (layer_raw l) x))
  /\ peel (map spec_of (rev ls)) outer = Some inner.
Proof. exact nest_headers. Qed.

Theorem C02_nesting_defs :
  (forall l, layer_want l = match l with LVxlan f => vxlan_want f | LGre f => gre_want f
                                        | LErspan1 f => erspan1_want f | LErspan2 f _ => erspan2_want f end)
  /\ (forall l, layer_raw l = match l with LVxlan f => vx_raw f | LGre f => gl_raw f
                                         | LErspan1 f => e1_raw f | LErspan2 f _ => e2_raw f end)
  /\ (forall l, layer_overhead l = match l with LVxlan _ => 36 | LGre f => gre_overhead (gl_flags f)
                                              | LErspan1 _ => 24 | LErspan2 _ _ => 36 end)
  /\ (forall l r n, nest_fits (l :: r) n <->
        layer_overhead l + n < 65536 /\ nest_fits r ((if layer_raw l then 0 else 14) + layer_overhead l + n))
  /\ (forall n, nest_fits [] n <-> True)
  /\ (forall l b x, wrap1 l b = Ok x -> len x = (if layer_raw l then 0 else 14) + layer_overhead l + len b).
Proof.
  split; [intros; reflexivity|]. split; [intros [f|f|f|f ix]; reflexivity|]. split; [intros; reflexivity|].
  split; [intros; reflexivity|]. split; [intros; reflexivity|exact wrap1_len].
Qed.

(* ------------------------------------------------------------------ 3. histories *)
(** [on_obj a cls fits c]: call c is a method of class cls on the object at a, with sizes that fit; every other
    call of the history is [foreign] to a (C03_family_methods_foreign, C03_family_functions_foreign,
    C06_other_calls_frame give instances).  Every own call returns what the object AT THE START designates. *)
Theorem C02_history_defs :
  (forall a cls fits c, on_obj a cls fits c <->
     c_this c = Some a /\ (exists name, class_method cls name (c_key c)) /\ fits c)
  /\ (forall raw w c v, tun_call_ok raw w c v <->
     exists ps out, conv_pktgen (nth 0 (c_slots c) VNil) = Ok ps /\ conv_pktgen v = Ok out
       /\ pkts_carry raw (same_want w ps) out)
  /\ (forall ov c, tun_fits ov c <-> inner_fits ov (nth 0 (c_slots c) VNil)).
Proof. split; [intros; reflexivity|]. split; intros; reflexivity. Qed.

Theorem C02_tcp_history : forall e a cs h f vs h',
  nth_error h a = Some (OTcp f) -> flow_wf f ->
  Forall (fun c => on_obj a tcp_class (fun c => extra_fits 40 (c_extra c)) c \/ foreign e a c) cs ->
  run_hist e cs h = Some (vs, h') ->
  (exists f', nth_error h' a = Some (OTcp f') /\ same_socks f' f)
  /\ Forall2 (fun c v => on_obj a tcp_class (fun c => extra_fits 40 (c_extra c)) c ->
       forall name, class_method tcp_class name (c_key c) -> In name tcp_pkt_names ->
       exists pl ps, tcp_plan name (c_slots c) = Some pl /\ conv_pktgen v = Ok ps
         /\ Forall2 (fun cf p => ip_pkt (tcp_want f (fst cf) (snd cf)) (tf_raw f) p) pl ps) cs vs.
Proof. exact tcp_ip_history. Qed.

Theorem C02_udp_history : forall e a cs h f vs h',
  nth_error h a = Some (OUdp f) -> uflow_wf f ->
  Forall (fun c => on_obj a udp_class (fun c => extra_fits 28 (c_extra c)) c \/ foreign e a c) cs ->
  run_hist e cs h = Some (vs, h') ->
  nth_error h' a = Some (OUdp f)
  /\ Forall2 (fun c v => on_obj a udp_class (fun c => extra_fits 28 (c_extra c)) c ->
       forall name, class_method udp_class name (c_key c) -> In name ["client_dgram"; "server_dgram"]%string ->
       exists ws ps, udp_plan f name (c_slots c) = Some ws /\ conv_pktgen v = Ok ps /\ pkts_carry (uf_raw f) ws ps) cs vs.
Proof. exact udp_ip_history. Qed.

Theorem C02_icmp_history : forall e a cs h f vs h',
  nth_error h a = Some (OIcmp f) -> icmp_awf f ->
  Forall (fun c => on_obj a icmp_class (fun c => icmp_ip_fits (c_slots c)) c \/ foreign e a c) cs ->
  run_hist e cs h = Some (vs, h') ->
  (exists f', nth_error h' a = Some (OIcmp f') /\ icmp_same f' f)
  /\ Forall2 (fun c v => on_obj a icmp_class (fun c => icmp_ip_fits (c_slots c)) c ->
       forall name, class_method icmp_class name (c_key c) ->
       exists ws ps, icmp_plan f name = Some ws /\ conv_pktgen v = Ok ps /\ pkts_carry (if_raw f) ws ps) cs vs.
Proof. exact icmp_ip_history. Qed.

Theorem C02_frag_history : forall e a cs h f vs h',
  nth_error h a = Some (OFrag f) -> ip_wf (fr_hdr f) -> 20 + len (fr_payload f) < 65536 ->
  Forall (fun c => on_obj a frag_class (fun _ => True) c \/ foreign e a c) cs ->
  run_hist e cs h = Some (vs, h') ->
  nth_error h' a = Some (OFrag f)
  /\ Forall2 (fun c v => on_obj a frag_class (fun _ => True) c ->
       forall name, class_method frag_class name (c_key c) ->
       exists q p, frag_call_req name (c_slots c) = Some q /\ v = VPkt p /\ ip_pkt (req_want f (fst q)) (snd q) p) cs vs.
Proof. exact frag_ip_history. Qed.

Theorem C02_vxlan_history : forall e a cs h f vs h',
  nth_error h a = Some (OVxlan f) -> vxlan_wf f ->
  Forall (fun c => on_obj a "vxlan::Vxlan" (tun_fits 36) c \/ foreign e a c) cs ->
  run_hist e cs h = Some (vs, h') ->
  nth_error h' a = Some (OVxlan f)
  /\ Forall2 (fun c v => on_obj a "vxlan::Vxlan" (tun_fits 36) c -> tun_call_ok (vx_raw f) (vxlan_want f) c v) cs vs.
Proof. exact vxlan_ip_history. Qed.

Theorem C02_gre_history : forall e a cs h f vs h',
  nth_error h a = Some (OGre f) -> gre_wf f ->
  Forall (fun c => on_obj a "gre::Gre" (tun_fits (gre_overhead (gl_flags f))) c \/ foreign e a c) cs ->
  run_hist e cs h = Some (vs, h') ->
  (exists f', nth_error h' a = Some (OGre f') /\ gre_same f' f)
  /\ Forall2 (fun c v => on_obj a "gre::Gre" (tun_fits (gre_overhead (gl_flags f))) c ->
                         tun_call_ok (gl_raw f) (gre_want f) c v) cs vs.
Proof. exact gre_ip_history. Qed.

Theorem C02_erspan1_history : forall e a cs h f vs h',
  nth_error h a = Some (OErspan1 f) -> erspan1_wf f ->
  Forall (fun c => on_obj a "erspan1::Erspan1" (tun_fits 24) c \/ foreign e a c) cs ->
  run_hist e cs h = Some (vs, h') ->
  nth_error h' a = Some (OErspan1 f)
  /\ Forall2 (fun c v => on_obj a "erspan1::Erspan1" (tun_fits 24) c -> tun_call_ok (e1_raw f) (erspan1_want f) c v) cs vs.
Proof. exact erspan1_ip_history. Qed.

Theorem C02_erspan2_history : forall e a cs h f vs h',
  nth_error h a = Some (OErspan2 f) -> erspan2_wf f ->
  Forall (fun c => on_obj a "erspan2::Erspan2" (tun_fits 36) c \/ foreign e a c) cs ->
  run_hist e cs h = Some (vs, h') ->
  (exists f', nth_error h' a = Some (OErspan2 f') /\ erspan2_same f' f)
  /\ Forall2 (fun c v => on_obj a "erspan2::Erspan2" (tun_fits 36) c -> tun_call_ok (e2_raw f) (erspan2_want f) c v) cs vs.
Proof. exact erspan2_ip_history. Qed.

(* ------------------------------------------------------------------ 4. non-vacuity *)
(** a mixed history built by the library's own constructors: a TCP flow (open, a data message with its ACK), a UDP
    flow datagram, an ICMP echo on a raw flow, a fragment of a 24-byte payload (id 0x1234, DF, TTL 9, protocol
    17; fragment(1, 1): offset 1, MF set -> word 1 + 0x4000 + 0x2000), then the UDP frame through a raw GRE session
    and that through a VXLAN session.  Every call runs; every receiver satisfies the premise; every header at
    every depth passes [ip_clause_b] for the designated fields; the plans of section 1 are these headers. *)
Example C02b_nonvacuous :
  let tc := want_default 16909060 16909061 6 in
  let ts := want_default 16909061 16909060 6 in
  let wu := want_default 167837953 167837954 17 in
  let wg := want_default 167772161 167772162 47 in
  let wv := want_default 3232235777 3232235778 17 in
  exists vs h1, run_hist ex_env exb_calls [] = Some (vs, h1)
  /\ Forall obj_ip_wf h1
  /\ carry_b false [tc; ts; tc] (ex_pkts (nth 1 vs VNil)) = true
  /\ carry_b false [tc; ts] (ex_pkts (nth 2 vs VNil)) = true
  /\ carry_b false [wu] (ex_pkts (nth 4 vs VNil)) = true
  /\ carry_b true [want_default 16909060 16909061 1] (ex_pkts (nth 6 vs VNil)) = true
  /\ carry_b false [{| w_src := 3232235777; w_dst := 3232235778; w_proto := 17; w_id := 4660; w_ttl := 9; w_frag := 24577 |}]
       (ex_pkts (nth 8 vs VNil)) = true
  /\ ip_plan "ipv4::tcp::TcpFlow.client_message" (Some 0%nat) [VBool true; VNil; VNil; VU16 0] h1 = Some (false, [tc; ts])
  /\ ip_plan "ipv4::IpFrag.fragment" (Some 3%nat) [VU16 1; VU16 1; VBool false] h1
     = Some (false, [{| w_src := 3232235777; w_dst := 3232235778; w_proto := 17; w_id := 4660; w_ttl := 9; w_frag := 24577 |}])
  /\ exists u g o h2 h3,
       nth 4 vs VNil = VPkt u
       /\ exec ex_env "gre::Gre.encap" (Some 4%nat) [VPkt u] [] h1 = Some (Ok (VPktGen [g], h2))
       /\ exec ex_env "vxlan::Vxlan.encap" (Some 5%nat) [VPktGen [g]] [] h2 = Some (Ok (VPktGen [o], h3))
       /\ ip_plan "gre::Gre.encap" (Some 4%nat) [VPkt u] h1 = Some (true, [wg])
       /\ ip_plan "vxlan::Vxlan.encap" (Some 5%nat) [VPktGen [g]] h2 = Some (false, [wv])
       /\ wrap [LGre exb_gre; LVxlan exb_vx] (pk_body u) = Ok (pk_body o)
       /\ nest_fits [LGre exb_gre; LVxlan exb_vx] (len (pk_body u))
       (* depth 0, 1, 2 *)
       /\ ip_clause_b wv (l3_of false (pk_body o)) = true
       /\ peel [spec_of (LVxlan exb_vx)] (pk_body o) = Some (pk_body g)
       /\ ip_clause_b wg (l3_of true (pk_body g)) = true
       /\ peel [spec_of (LVxlan exb_vx); spec_of (LGre exb_gre)] (pk_body o) = Some (pk_body u)
       /\ ip_clause_b wu (l3_of false (pk_body u)) = true
       /\ length (pk_body u) = 45%nat /\ length (pk_body g) = 69%nat /\ length (pk_body o) = 119%nat.
Proof.
  cbv zeta. eexists. eexists. split; [vm_compute; reflexivity|].
  split.
  { repeat apply Forall_cons; try apply Forall_nil;
      unfold obj_ip_wf, flow_wf, uflow_wf, icmp_awf, ip_wf, vxlan_wf, gre_wf, sock_wf; cbn; lia. }
  split; [vm_compute; reflexivity|]. split; [vm_compute; reflexivity|]. split; [vm_compute; reflexivity|].
  split; [vm_compute; reflexivity|]. split; [vm_compute; reflexivity|]. split; [vm_compute; reflexivity|].
  split; [vm_compute; reflexivity|].
  do 5 eexists.
  split; [vm_compute; reflexivity|]. split; [vm_compute; reflexivity|]. split; [vm_compute; reflexivity|].
  split; [vm_compute; reflexivity|]. split; [vm_compute; reflexivity|]. split; [vm_compute; reflexivity|].
  split; [vm_compute; repeat split|].
  split; [vm_compute; reflexivity|]. split; [vm_compute; reflexivity|]. split; [vm_compute; reflexivity|].
  split; [vm_compute; reflexivity|]. split; [vm_compute; reflexivity|].
  split; [vm_compute; reflexivity|]. split; vm_compute; reflexivity.
Qed.
