(** C07 -- IP fragments of a payload always reassemble to the original datagram.
    [fragment_of d] reads (offset, MF, data) off an IPv4 datagram as RFC 791 lays it out;
    [slice_of payload f]: f's data is payload[8*off .. 8*off+|data|) and MF is clear exactly when that
    reaches the end of the payload; [reassemble] is the RFC 791 procedure (Spec/Reasm4.v). *)
From RS Require Import Base.Bytes Base.Outcome Pkt.Hdrs Pkt.Packet Ez.Ip4 Spec.Wire Spec.Reasm4
  Proofs.C02.IpLemmas Proofs.C02.TcpIp Proofs.C07.Reasm Proofs.C07.FragExact.
Open Scope N_scope.

Theorem C07_fragment_exact : forall f off l raw p,
  ctx_ok (fr_hdr f) -> off < 8192 -> off * 8 <= len (fr_payload f) -> 20 + len (fr_payload f) < 65536 ->
  frag_fragment f off l raw = Ok p ->
  let d := l3_of raw (pk_body p) in
  fg_off (fragment_of d) = off
  /\ slice_of (fr_payload f) (fragment_of d)
  /\ fg_data (fragment_of d) = takeN (N.min (off * 8 + l * 8) (len (fr_payload f)) - off * 8) (dropN (off * 8) (fr_payload f))
  /\ ip_src_of d = ip_src (fr_hdr f) /\ ip_dst_of d = ip_dst (fr_hdr f) /\ ip_proto_of d = ip_proto (fr_hdr f)
  /\ ip_id_of d = ip_id (fr_hdr f) /\ ip_ttl_of d = ip_ttl (fr_hdr f)
  /\ N.land (ip_frag_of d) 49152 = Hdrs.ip_frag (fr_hdr f).
Proof. exact fragment_exact. Qed.

Theorem C07_tail_is_fragment : forall f off raw,
  frag_tail f off raw = frag_fragment f off (wrap16 (len (fr_payload f))) raw.
Proof. exact tail_is_fragment. Qed.

Theorem C07_datagram_whole : forall f raw p,
  ctx_ok (fr_hdr f) -> 20 + len (fr_payload f) < 65536 -> frag_datagram f raw = Ok p ->
  let d := l3_of raw (pk_body p) in
  fragment_of d = {| fg_off := 0; fg_mf := false; fg_data := fr_payload f |}.
Proof. exact datagram_whole. Qed.

(** any list of such fragments that covers the payload and contains a last fragment reassembles to
    exactly the payload ... *)
Theorem C07_reassemble_cover : forall payload fs,
  Forall (slice_of payload) fs ->
  (forall k, k < len payload -> exists f, In f fs /\ covers f k = true) ->
  (exists f, In f fs /\ fg_mf f = false) ->
  reassemble fs = Some payload.
Proof. exact reassemble_cover. Qed.

(** ... in any order of emission, with duplicates and overlaps *)
Theorem C07_reassemble_any_order : forall payload fs fs',
  Forall (slice_of payload) fs ->
  (forall k, k < len payload -> exists f, In f fs /\ covers f k = true) ->
  (exists f, In f fs /\ fg_mf f = false) ->
  (forall f, In f fs <-> In f fs') ->
  reassemble fs' = Some payload.
Proof. exact reassemble_any_order. Qed.

Example C07_nonvacuous :
  let payload := map N.of_nat (seq 0 20) in
  let f := {| fr_hdr := ip_set_daddr (ip_set_saddr ip_default 16909060) 16909061; fr_payload := payload |} in
  ctx_ok (fr_hdr f)
  /\ exists p1 p2 p3, frag_fragment f 1 1 true = Ok p1 /\ frag_tail f 2 true = Ok p2 /\ frag_fragment f 0 2 true = Ok p3
     /\ reassemble (map (fun p => fragment_of (pk_body p)) [p2; p1; p3; p1]) = Some payload.
Proof.
  cbn zeta. split.
  - split; [apply ip_set_daddr_wf; [apply ip_set_saddr_wf; [apply ip_default_wf|lia]|lia]|cbn; tauto].
  - eexists. eexists. eexists. split; [vm_compute; reflexivity|]. split; [vm_compute; reflexivity|].
    split; [vm_compute; reflexivity|]. vm_compute. reflexivity.
Qed.
