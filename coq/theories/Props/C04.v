(** C04 -- TCP flows are sequence-coherent.  Pinned statements; proofs in Proofs/C04/Seq.v.
    [sinfo s] = (seq, ack, flags, payload) of a segment; [tcp_fields_readback] ties it to the bytes. *)
From RS Require Import Base.Bytes Base.Outcome Pkt.Hdrs Pkt.Packet Ez.Tcp Spec.Wire Spec.TcpAccount Lib.Ipv4Lib
  Proofs.C03.Transport Proofs.C04.Seq.
Open Scope N_scope.

(** the fields of a serialised TCP header read back exactly *)
Theorem C04_tcp_fields_readback : forall h payload, th_wf h ->
  let seg := tcp_ser h ++ payload in
  tcp_seq_of seg = th_seq h /\ tcp_ack_of seg = th_ack h /\ tcp_flags_of seg = th_flags h /\ tcp_payload_of seg = payload.
Proof. exact tcp_fields_readback. Qed.

(** the counters are (initial sequence number + everything consumed) modulo 2^32, for every advance *)
Theorem C04_counters_follow_account : forall f a n, flow_abs f a ->
  flow_abs (flow_cl_update f n) (acc_use_cl a n) /\ flow_abs (flow_sv_update f n) (acc_use_sv a n).
Proof. exact counters_follow_account. Qed.

(** each operation: what its segments carry and how far the counters move *)
Theorem C04_open : forall f f' ps, flow_open f = Ok (f', ps) ->
  let c := tf_cl_seq f in let s := tf_sv_seq f in
  tf_cl_seq f' = wrap32 (c + 1) /\ tf_sv_seq f' = wrap32 (s + 1)
  /\ exists s1 s2 s3, ps = [seg_packet s1; seg_packet s2; seg_packet s3]
     /\ sinfo s1 = (c, 0, 2, []) /\ sinfo s2 = (s, wrap32 (c + 1), 18, [])
     /\ sinfo s3 = (wrap32 (c + 1), wrap32 (s + 1), 16, []).
Proof. exact flow_open_trace. Qed.
Theorem C04_client_close : forall f f' ps, flow_client_close f = Ok (f', ps) ->
  let c := tf_cl_seq f in let s := tf_sv_seq f in
  tf_cl_seq f' = wrap32 (c + 1) /\ tf_sv_seq f' = wrap32 (s + 1)
  /\ exists s1 s2 s3, ps = [seg_packet s1; seg_packet s2; seg_packet s3]
     /\ sinfo s1 = (c, s, 17, []) /\ sinfo s2 = (s, wrap32 (c + 1), 17, [])
     /\ sinfo s3 = (wrap32 (c + 1), wrap32 (s + 1), 16, []).
Proof. exact flow_client_close_trace. Qed.
Theorem C04_server_close : forall f f' ps, flow_server_close f = Ok (f', ps) ->
  let c := tf_cl_seq f in let s := tf_sv_seq f in
  tf_cl_seq f' = wrap32 (c + 1) /\ tf_sv_seq f' = wrap32 (s + 1)
  /\ exists s1 s2 s3, ps = [seg_packet s1; seg_packet s2; seg_packet s3]
     /\ sinfo s1 = (s, c, 17, []) /\ sinfo s2 = (c, wrap32 (s + 1), 17, [])
     /\ sinfo s3 = (wrap32 (s + 1), wrap32 (c + 1), 16, []).
Proof. exact flow_server_close_trace. Qed.
Theorem C04_client_message : forall f b sa off f' ps,
  flow_client_message f b sa off = Ok (f', ps) -> len b < 4294967296 -> tf_sv_seq f < 4294967296 ->
  let c := tf_cl_seq f in let s := tf_sv_seq f in
  tf_cl_seq f' = wrap32 (c + len b) /\ tf_sv_seq f' = s
  /\ exists s1, sinfo s1 = (c, s, 24, b)
     /\ if sa then exists s2, ps = [seg_packet s1; seg_packet s2] /\ sinfo s2 = (s, wrap32 (c + len b), 16, [])
        else ps = [seg_packet s1].
Proof. exact flow_client_message_trace. Qed.
Theorem C04_server_message : forall f b sa off f' ps,
  flow_server_message f b sa off = Ok (f', ps) -> len b < 4294967296 -> tf_cl_seq f < 4294967296 ->
  let c := tf_cl_seq f in let s := tf_sv_seq f in
  tf_sv_seq f' = wrap32 (s + len b) /\ tf_cl_seq f' = c
  /\ exists s1, sinfo s1 = (s, c, 24, b)
     /\ if sa then exists s2, ps = [seg_packet s1; seg_packet s2] /\ sinfo s2 = (c, wrap32 (s + len b), 16, [])
        else ps = [seg_packet s1].
Proof. exact flow_server_message_trace. Qed.
Theorem C04_holes : forall f n,
  tf_cl_seq (flow_client_hole f n) = wrap32 (tf_cl_seq f + n) /\ tf_sv_seq (flow_client_hole f n) = tf_sv_seq f
  /\ tf_sv_seq (flow_server_hole f n) = wrap32 (tf_sv_seq f + n) /\ tf_cl_seq (flow_server_hole f n) = tf_cl_seq f.
Proof. exact flow_hole_trace. Qed.
Theorem C04_ack_reset : forall f,
  (forall s, flow_client_ack f = Ok s -> sinfo s = (tf_cl_seq f, tf_sv_seq f, 16, [])) /\
  (forall s, flow_server_ack f = Ok s -> sinfo s = (tf_sv_seq f, tf_cl_seq f, 16, [])) /\
  (forall p, flow_client_reset f = Ok p -> exists s, p = seg_packet s /\ sinfo s = (tf_cl_seq f, 0, 4, [])) /\
  (forall p, flow_server_reset f = Ok p -> exists s, p = seg_packet s /\ sinfo s = (tf_sv_seq f, 0, 4, [])).
Proof. exact flow_ack_reset_trace. Qed.

(** a reassembler placing payloads at (seq - ISN - 1) mod 2^32 puts the data sent after [used] units of
    sequence space at stream offset used - 1: independent of the ISN, also when the numbers wrap *)
Theorem C04_data_offsets : forall isn used,
  isn < 4294967296 -> 1 <= used -> used < 4294967296 ->
  stream_offset isn ((isn + used) mod 4294967296) = used - 1.
Proof. exact data_offsets. Qed.

(** seq:/ack: overrides are local to the call *)
Theorem C04_override_is_local : forall A f (client : bool) seq ack (k : tcp_flow -> outcome (tcp_flow * A)) f' v,
  with_override f client seq ack k = Ok (f', v) ->
  exists f1 f2, k f1 = Ok (f2, v)
    /\ let mine f := if client then tf_cl_seq f else tf_sv_seq f in
       let peer f := if client then tf_sv_seq f else tf_cl_seq f in
       mine f1 = match seq with Some x => x | None => mine f end
    /\ peer f1 = match ack with Some x => x | None => peer f end
    /\ mine f' = match seq with Some _ => mine f | None => mine f2 end
    /\ peer f' = match ack with Some _ => peer f | None => peer f2 end.
Proof. intros A. exact (@override_is_local A). Qed.

Example C04_nonvacuous :
  let f := {| tf_cl := (16909060, 1); tf_sv := (16909061, 2); tf_cl_seq := 4294967295; tf_sv_seq := 4294967293; tf_raw := false |} in
  exists f1 ps1 f2 ps2, flow_open f = Ok (f1, ps1) /\ flow_client_message f1 [1;2;3;4;5] true 0 = Ok (f2, ps2)
    /\ tf_cl_seq f2 = 5 /\ tf_sv_seq f2 = 4294967294 /\ length ps2 = 2%nat.
Proof.
  cbn zeta. eexists. eexists. eexists. eexists.
  split; [vm_compute; reflexivity|]. split; [vm_compute; reflexivity|]. repeat split.
Qed.
