(** C20 -- The shipped reference documentation and protocol constants are truthful.
    This file holds only the pinned statements; proofs live in Proofs/C20.

    [catalogue], [constant_table], [module_table], the doc-comment tables and the recorded Display
    output ([display_table], [opt_shown_table], [const_shown_table]) are regenerated from the running
    code on every run (gen/Catalogue.v); [tls_cipher_suites], [tls_extensions], [tls_handshake_types]
    from the IANA CSV files shipped in scripts/tls (gen/RegistryCsv.v).  The other registries and the
    list [unregistered_names] are Spec/Registry.v; the documentation generator is Lib/Docs.v. *)
From RS Require Import Base.Bytes Base.Outcome Bind.Types Bind.Binder Bind.BindSpec Spec.DocCall Spec.Registry
  Lib.Docs Lib.DocsStd.
From RS Require Import Proofs.C11.CatalogueWf Proofs.C20.Call Proofs.C20.Tables.
From RSGen Require Import Catalogue RegistryCsv.
Open Scope list_scope.

(** for EVERY well-formed signature: the call that supplies exactly the mandatory parameters, in
    order, with values the documented types accept, is accepted -- by position and by name --, every
    optional parameter receives its documented default, and every default is compatible with its
    own declaration.  ([of_valdef] is any embedding of defaults into values that respects types,
    as impl From<ValDef> for Val does.) *)
Theorem C20_documented_call_accepted :
  forall (V : Type) (type_of : V -> vtype) (of_valdef : valdef -> V),
  (forall d, type_of (of_valdef d) = valdef_type' d) ->
  forall f, wf_sig f = true ->
  forall vals,
  Forall2 (fun (xt : string * vtype) v => compatible_with (snd xt) (type_of v) = true)
          (mandatory_params (fd_args f)) vals ->
  argvec V type_of of_valdef f (positional_call V vals)
    = Ok (vals ++ map of_valdef (optional_defaults (fd_args f)), [])
  /\ argvec V type_of of_valdef f (named_call V (map fst (mandatory_params (fd_args f))) vals)
    = Ok (vals ++ map of_valdef (optional_defaults (fd_args f)), [])
  /\ Forall (fun d => arg_compatible d (valdef_type' d) = true) (optional_defaults (fd_args f)).
Proof. exact documented_call_accepted. Qed.

(** in particular with values of exactly the documented types *)
Theorem C20_documented_types_accepted :
  forall (V : Type) (type_of : V -> vtype) (of_valdef : valdef -> V),
  (forall d, type_of (of_valdef d) = valdef_type' d) ->
  forall f, wf_sig f = true ->
  forall vals, map type_of vals = map snd (mandatory_params (fd_args f)) ->
  argvec V type_of of_valdef f (positional_call V vals)
    = Ok (vals ++ map of_valdef (optional_defaults (fd_args f)), [])
  /\ argvec V type_of of_valdef f (named_call V (map fst (mandatory_params (fd_args f))) vals)
    = Ok (vals ++ map of_valdef (optional_defaults (fd_args f)), []).
Proof. exact documented_types_accepted. Qed.

(** ... instantiated on the signatures of the running code: every function and method of the
    standard library accepts its documented call *)
Theorem C20_catalogue_calls_accepted :
  forall f, In f catalogue ->
  forall (V : Type) (type_of : V -> vtype) (of_valdef : valdef -> V),
  (forall d, type_of (of_valdef d) = valdef_type' d) ->
  forall vals, map type_of vals = map snd (mandatory_params (fd_args f)) ->
  argvec V type_of of_valdef f (positional_call V vals)
    = Ok (vals ++ map of_valdef (optional_defaults (fd_args f)), [])
  /\ argvec V type_of of_valdef f (named_call V (map fst (mandatory_params (fd_args f))) vals)
    = Ok (vals ++ map of_valdef (optional_defaults (fd_args f)), []).
Proof. exact catalogue_calls_accepted. Qed.

(** every constant of the running code carries the number its registry assigns to its name, or is
    listed in [unregistered_names] (and then carries the number of the registry row named there,
    when one is named) *)
Theorem C20_constants_match_registry : forallb const_matches_registry constant_table = true.
Proof. exact constants_match_registry. Qed.

(** no stale entry: every listed name is a constant of the running code, and none of them is a
    registry name after all *)
Theorem C20_unregistered_not_stale :
  forallb (unregistered_exists constant_table) unregistered_names = true
  /\ forallb unregistered_is_unregistered unregistered_names = true.
Proof. exact unregistered_not_stale. Qed.

(** the registry tables are functions: no name with two numbers *)
Theorem C20_registries_functional : forallb (fun r => registry_functional (snd r)) registries = true.
Proof. exact registries_functional. Qed.

(** the documentation generator model, applied to the regenerated tables, prints what the running
    code's own Display implementations print: every signature, every default, every constant; the
    constants printed in module pages are the constants checked against the registries; and the
    generator runs to completion (the assert_eq! on function names does not fire) *)
Theorem C20_docs_render_catalogue :
  forallb signature_rendered catalogue = true
  /\ forallb defaults_rendered catalogue = true
  /\ forallb constant_rendered constant_table = true
  /\ constants_are_module_constants = true
  /\ is_ok stdlib_docs = true.
Proof. exact docs_render_catalogue. Qed.

(** non-vacuity on real entries *)
Example C20_nonvacuous :
  (exists f, find (fun g => String.eqb (fd_key g) "ipv4::tcp::flow"%string) catalogue = Some f
     /\ mandatory_params (fd_args f) = [("cl"%string, TSock4); ("sv"%string, TSock4)]
     /\ optional_defaults (fd_args f) <> []
     /\ show_funcdef f <> ""%string)
  /\ judge "tls::cipher::AES_128_GCM_SHA256" (CNum 4865) = Registered 4865
  /\ verdict_ok (judge "tls::cipher::AES_128_GCM_SHA256" (CNum 4866)) = false
  /\ judge "dns::rtype::NMR" (CNum 9) = Alias "MR" 9
  /\ verdict_ok (judge "dns::rtype::NMR" (CNum 10)) = false
  /\ verdict_ok (judge "dns::rtype::NOSUCH" (CNum 1)) = false
  /\ show_constant (DU16 4865) = "(u16)0x1301"%string
  /\ show_argdecl (Optional (DStr [13; 10; 255])) = "bytes = ""\r\n\xff"""%string
  /\ match stdlib_docs with
     | Ok tree => match assoc "dns/rtype/README.md"%string tree with
                  | Some page => Nat.leb 1000 (String.length page)
                  | None => false
                  end
     | _ => false
     end = true.
Proof.
  split.
  - eexists. split; [vm_compute; reflexivity |]. split; [vm_compute; reflexivity |].
    split; vm_compute; discriminate.
  - repeat (split; [vm_compute; reflexivity |]). vm_compute. reflexivity.
Qed.
