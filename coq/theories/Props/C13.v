(** C13 -- Compilation is deterministic and self-contained.
    This file holds only the pinned statements; proofs live in Proofs/C13.

    The model of the whole compiler ([Run.run_src]: source bytes, and the contents of the data files
    the script names, to pcap bytes or a diagnostic) is a Gallina function: it has no clock,
    environment, locale, working directory, output path or process id to depend on, and equal
    sources give equal results by construction.  That the real binary behaves like this function is
    what lib/props/c13.py checks.  The theorems below carry the part of the property that is not
    true by construction:

    (a) lexical insensitivity, for all sources: blank space inserted at a lexeme boundary, a comment
        appended to a line that lexes to its end, a whole line of blank space / comment inserted
        anywhere, CRLF instead of LF -- the token stream is the same, locations aside;
    (b) locations are never read: parser and interpreter only copy them, so (a) gives the same
        pcap bytes, the same number of warnings, the same error kind, the same packets before it;
    (c) the CLI loop over several inputs threads nothing from one input to the next except the exit
        status: reports, outputs and status for an input are those of compiling it alone;
    (d) a `let` of a literal to a name nobody mentions is invisible (pinned from the C14 development).

    Where blank space IS significant the hypotheses say so: [lexeme_boundary a b] (the insertion point
    is where the lexer, scanning the line from its start, ends one lexeme and starts the next: not
    inside a string literal, a comment's text excepted, nor inside ::, a number, a dotted quad, an
    identifier or a keyword), [comment_text] only after a line that lexes to its end (so never inside
    an unterminated string) and a // comment never directly after a token /. *)
From RS Require Import Base.Bytes Base.Outcome Base.Utf8 Bind.Types Lex.Tokens Lex.LexClass Lex.Scanner Lex.LexSpec
  Parse.Automaton Parse.Grammar Interp.Val Interp.Ast Interp.Eval Interp.Cli Interp.Run Interp.Batch Lib.LibBase.
From RS.Proofs.C10 Require Import Utf8Facts Theorems.
From RS.Proofs.C13 Require Import Stable LexCuts LexEdit ParseErase EvalErase CliErase EndToEnd BatchProofs.
From Coq Require Import Permutation Relations.
Open Scope list_scope.
Open Scope N_scope.

(* ---------------------------------------------------------------- (a) lexical insensitivity *)

(** what the lexer recognises at the head of a text does not change when something that no token
    can continue with (no identifier character, colon, dot, quote, newline; a slash only if the text
    before is not a lone slash) is inserted after the first [length s1] bytes, provided the lexeme
    ends strictly before the insertion point, or exactly at it and is a token *)
Theorem C13_lexeme_unaffected_by_insertion : forall (s1 s2 t : bytes) (h : N),
  s1 <> [] -> Valid s1 -> sep h = true -> (h = 47 -> s1 <> [47]) ->
  forall (k : lexclass) (n : nat), first_class (s1 ++ s2) = Some (k, n) ->
  (n < length s1)%nat \/ (n = length s1 /\ skipped k = false) ->
  first_class (s1 ++ h :: t ++ s2) = Some (k, n).
Proof. exact fc_stable. Qed.

(** blank space inserted at a lexeme boundary: the line is cut into the same lexemes, skipped ones
    aside, and lexing stops at the same place (the end of the line or the same unlexable rest) *)
Theorem C13_blank_insertion_same_lexemes : forall a b la w l1 rest,
  cuts first_class (a ++ b) la b -> Valid (a ++ b) -> blank_run w -> fullcut (a ++ b) l1 rest ->
  exists l2, fullcut (a ++ w ++ b) l2 rest /\ sig l2 = sig l1.
Proof. exact insert_blank. Qed.

(** a comment appended to a line that lexes to its end *)
Theorem C13_comment_append_same_lexemes : forall a la c,
  cuts first_class a la [] -> Valid a -> comment_text c -> (hd 0 c = 47 -> last a 0 <> 47) ->
  exists l2, cuts first_class (a ++ c) l2 [] /\ sig l2 = sig la.
Proof. exact append_comment. Qed.

(** hence Lexer::line: an edited line is valid UTF-8 again and gives the same tokens, locations
    aside, the same literal left pending for the next line, or the same lex error -- on any line
    number, whatever the lexer's previous location *)
Theorem C13_line_edit_same_tokens : forall l l', line_edit l l' ->
  utf8_valid l = true /\ utf8_valid l' = true /\
  forall lx lx' lno lno', lx_pending lx = lx_pending lx' ->
    lex_sim (lex_line lx lno l) (lex_line lx' lno' l').
Proof. exact line_edit_lex. Qed.

(** a line holding only blank space and/or a comment gives no token and passes the pending literal on *)
Theorem C13_trivia_line_no_tokens : forall n, trivia_line n ->
  utf8_valid n = true /\
  forall lx lno, exists lx', lex_line lx lno n = (lx', Ok []) /\ lx_pending lx' = lx_pending lx.
Proof. exact trivia_lex. Qed.

(** the hypotheses are decidable (and so can be checked on a concrete edit) *)
Theorem C13_edit_hypotheses_decidable :
  (forall a b, boundaryb a b = true -> lexeme_boundary a b)
  /\ (forall w, blank_runb w = true -> blank_run w)
  /\ (forall c, comment_textb c = true -> comment_text c).
Proof. exact (conj boundaryb_sound (conj blank_runb_sound comment_textb_sound)). Qed.

(* ---------------------------------------------------------------- (b) locations are never read *)

(** the parser: feeding a token with its location blanked to a parser state with its locations
    blanked gives the result with its locations blanked -- same state, same stack shape, same
    statements, same parse error *)
Theorem C13_parser_ignores_locations : forall p t,
  feed (erase_parser p) (erase_tok t) = omap erase_parser (feed p t).
Proof. exact feed_erase. Qed.

(** the interpreter, for any library: running statements with their locations blanked from a state
    with its locations blanked gives the result with its locations blanked -- same records written,
    clock, registers, imports, heap, library calls, number of warnings, same error *)
Theorem C13_interpreter_ignores_locations : forall functions classes modules exec ss p,
  add_stmts functions classes modules exec (norm p) (map erase_stmt ss)
  = norm_res (add_stmts functions classes modules exec p ss).
Proof. exact add_stmts_erase. Qed.

(** src/cli.rs process_file, for any library: any number of edits of the lines of a source, in
    either direction, leave the final program state the same up to locations *)
Theorem C13_edits_same_program_state : forall functions classes modules exec src src',
  edited (split_lines src) (split_lines src') ->
  cli_sim (process_file functions classes modules exec src) (process_file functions classes modules exec src').
Proof. exact edited_source_same. Qed.

(** end to end, with the real library: the same pcap bytes, as many warnings and the same library
    calls when it succeeds; the same error kind and the same packets before it when it fails *)
Theorem C13_edits_same_output : forall files src src',
  edited (split_lines src) (split_lines src') -> run_same (run_src files src) (run_src files src').
Proof. exact edited_run_same. Qed.

(** CRLF line ends: exactly the same result, locations included *)
Theorem C13_crlf_irrelevant : forall files ls, Forall (fun l => ~ In 10 l /\ last l 0 <> 13) ls ->
  run_src files (join_crlf ls) = run_src files (join_lf ls).
Proof. exact crlf_irrelevant. Qed.

(* ---------------------------------------------------------------- (c) batch independence *)

(** what is printed for the inputs of a batch is [expected files [] inputs], a recursion on the inputs
    that threads nothing but the output paths used so far: an input without a file name is refused;
    an input whose output path an earlier input already used is refused; any other input gets the
    report of compiling it ([report_of]: nothing of the batch enters); a panic ends the list *)
Theorem C13_batch_reports : forall keep files f inputs,
  b_reports (run_batch keep files f inputs) = expected files [] inputs.
Proof. exact batch_reports. Qed.

(** in any batch, at any position, after any inputs that do not panic, before anything at all,
    whatever the output directory holds: the report for an input is the report of compiling it
    alone -- unless its output path was used by an earlier input, in which case it is the refusal *)
Theorem C13_batch_report_alone : forall keep files f f' pre x post,
  Forall (fun i => ~ panics files i) pre ->
  nth_error (b_reports (run_batch keep files f (pre ++ x :: post))) (length pre)
  = Some (match in_out x with
          | Some o => if used o (outs pre) then refusal x o else alone_report files x
          | None => alone_report files x
          end)
  /\ nth_error (b_reports (run_batch keep files f' [x])) 0 = Some (alone_report files x).
Proof. exact batch_report_alone. Qed.

(** the exit status is failure iff something other than "<in> -> <out> ok" was reported (an error of
    process_file, or a refusal) *)
Theorem C13_batch_status : forall keep files f inputs,
  b_status (run_batch keep files f inputs) = ExitFailure <->
  exists r, In r (b_reports (run_batch keep files f inputs)) /\ bad_report r.
Proof. exact batch_status. Qed.

(** inputs with pairwise distinct output paths are all reported as if compiled alone; permuting them
    permutes the reports and keeps the exit status *)
Theorem C13_batch_permutation : forall keep files f f' inputs inputs',
  Forall (fun i => ~ panics files i) inputs -> NoDup (outs inputs) -> Permutation inputs inputs' ->
  b_reports (run_batch keep files f inputs) = map (alone_report files) inputs
  /\ Permutation (b_reports (run_batch keep files f inputs)) (b_reports (run_batch keep files f' inputs'))
  /\ b_status (run_batch keep files f inputs) = b_status (run_batch keep files f' inputs').
Proof. exact batch_permutation. Qed.

(** every output path ends up holding what the FIRST input that asked for it leaves there when that
    input is compiled alone (the pcap; nothing after an error without --keep): later inputs asking for
    the same path are refused and neither overwrite nor remove it; a path nobody asked for is untouched *)
Theorem C13_batch_outputs : forall keep files f f' inputs o,
  Forall (fun i => ~ panics files i) inputs ->
  match first_for o inputs with
  | Some x => fs_lookup o (b_fs (run_batch keep files f inputs)) = leaves keep files x
              /\ fs_lookup o (b_fs (run_batch keep files f' [x])) = leaves keep files x
  | None => fs_lookup o (b_fs (run_batch keep files f inputs)) = fs_lookup o f
  end.
Proof. exact batch_outputs. Qed.

(* ---------------------------------------------------------------- (d) unused bindings of plain values *)
From RS.Proofs.C14 Require Import Sim Unused RunLevel.

(** (proved for C14, Proofs/C14/Unused.v) inserting `let y = <literal>` anywhere in a program, y not
    bound before and not mentioned after, changes neither the outcome (success, which error, which
    panic) nor the records written, the clock, the heap, the imports, the warnings or the library calls;
    for any library *)
Theorem C13_unused_binding : forall functions classes modules exec pre post l y l' v p,
  assoc y (p_regs p) = None -> (forall l0 rv, ~ In (SAssign l0 y rv) pre) ->
  not_mentioned y post = true ->
  rsim same_but_regs_loc
    (add_stmts functions classes modules exec p (pre ++ SAssign l y (ELit l' v) :: post))
    (add_stmts functions classes modules exec p (pre ++ post)).
Proof. exact unused_plain_let_irrelevant. Qed.

(** ... and so the whole run with the real library gives the same pcap bytes, warnings and library
    calls, or the same error and the same packets before it *)
Theorem C13_unused_binding_run : forall files pre post l y l' v,
  (forall l0 rv, ~ In (SAssign l0 y rv) pre) -> not_mentioned y post = true ->
  same_run (run files (pre ++ SAssign l y (ELit l' v) :: post)) (run files (pre ++ post)).
Proof. exact run_unused_let. Qed.

(* ---------------------------------------------------------------- non-vacuity *)
From RS.Proofs.C13 Require Import Witness.

(** a three-line program; five edits that satisfy the hypotheses (a // comment appended, a line of
    blank space and # comment inserted, a tab and a no-break space after an opening parenthesis,
    blank space at the start of a line and between two adjacent string literals), the edited file
    written with CRLF line ends: the very same result, an 86-byte pcap.  And two insertions of a blank
    that are not at a lexeme boundary -- between the colons of :: and inside a string literal -- which
    the checker rejects and which do change the result (a parse error; one more payload byte) *)
Example C13_nonvacuous :
  edited lines1 lines2
  /\ split_lines (join_lf lines1) = lines1 /\ split_lines (join_crlf lines2) = lines2
  /\ ok_with 86 (run_src [] (join_lf lines1))
  /\ run_src [] (join_crlf lines2) = run_src [] (join_lf lines1)
  /\ boundaryb (tx "let f = ipv4:") (tx ":udp::flow(1.2.3.4:1, 5.6.7.8:2);") = false
  /\ (exists l part, run_src [] (join_lf [L1; L2bad; L3]) = RunErr EParse l part)
  /\ boundaryb (tx "f.client_dgram(""a") (tx "b"" ""cd"");") = false
  /\ ok_with 87 (run_src [] (join_lf [L1; L2; L3bad]))
  (* a batch a/x.rsyn b/x.rsyn .. d.rsyn: the second is refused (same output path), the third has no
     file name, the fourth fails and its stale output is removed; out/x.pcap is the first's capture *)
  /\ batch_witness.
Proof. exact witness. Qed.
