(** A plain recursive-descent parser for the grammar of Parse/Grammar.v: the executable form of
    the specification.  One function per non-terminal; a function returns the tree and the
    remaining tokens, or the suffix of the input that starts with the offending token, or says
    that the input ended too early.  Fuel = number of tokens + 1 (every call that spends fuel
    has consumed a token since the last one).

    Source locations follow the convention of the implementation: a literal carries the location
    of its (first) token, import and let the location of the identifier, a reference the
    location of its first identifier -- except that a reference which starts a positional
    argument carries the location of the token *after* that identifier (the implementation
    only knows it is not an argument name once it has seen that token).
    Independent of Parse/Automaton.v. *)
From RS Require Import Base.Bytes Base.Outcome Lex.Tokens Lex.Literals Interp.Val Interp.Ast.
From RS Require Import Parse.Verdict Parse.Grammar.
Open Scope N_scope.

Inductive res (A : Type) :=
| ROk (a : A) (rest : list token)
| RErr (at_ : list token)        (* the suffix beginning with the token that cannot continue *)
| RMore                          (* out of tokens *)
| RFuel.
Arguments ROk {A} a rest.
Arguments RErr {A} at_.
Arguments RMore {A}.
Arguments RFuel {A}.

Definition rbind {A B} (x : res A) (f : A -> list token -> res B) : res B :=
  match x with
  | ROk a r => f a r
  | RErr s => RErr s
  | RMore => RMore
  | RFuel => RFuel
  end.

Definition kind_is (k : toktype) (t : token) : bool := toktype_eqb (tk_type t) k.

(** the next token must be of kind k *)
Definition expect {A} (k : toktype) (ts : list token) (f : token -> list token -> res A) : res A :=
  match ts with
  | [] => RMore
  | t :: r => if kind_is k t then f t r else RErr ts
  end.

(** (:: IDENT)*   with the names seen so far split into modules and the current last name *)
Fixpoint p_modules (mods : list string) (cur : string) (ts : list token) : res (list string * string) :=
  match ts with
  | t1 :: r1 =>
    if kind_is TDoubleColon t1 then
      match r1 with
      | [] => RMore
      | t2 :: r2 => if kind_is TIdent t2 then p_modules (mods ++ [cur]) (ident_name t2) r2 else RErr r1
      end
    else ROk (mods, cur) ts
  | [] => ROk (mods, cur) []
  end.

(** (. IDENT)* *)
Fixpoint p_members (comps : list string) (ts : list token) : res (list string) :=
  match ts with
  | t1 :: r1 =>
    if kind_is TDot t1 then
      match r1 with
      | [] => RMore
      | t2 :: r2 => if kind_is TIdent t2 then p_members (comps ++ [ident_name t2]) r2 else RErr r1
      end
    else ROk comps ts
  | [] => ROk comps []
  end.

(** ref, after its first identifier; then an optional argument list *)
Definition p_ref_atom (args : list token -> res (list arg)) (l : loc) (first : string) (ts : list token)
  : res expr :=
  rbind (p_modules [] first ts) (fun mc r1 =>
  rbind (p_members [snd mc] r1) (fun comps r2 =>
    match r2 with
    | t :: r3 =>
      if kind_is TLParen t then rbind (args r3) (fun a r4 => ROk (ECall l (fst mc) comps a) r4)
      else ROk (ERef l (fst mc) comps) r2
    | [] => ROk (ERef l (fst mc) comps) []
    end)).

Definition p_atom (args : list token -> res (list arg)) (ts : list token) : res expr :=
  match ts with
  | [] => RMore
  | t :: r =>
    match tk_type t with
    | TIdent => p_ref_atom args (tk_loc t) (ident_name t) r
    | TStringLit | TBoolLit | THexLit | TIntLit =>
      match val_of_token t with
      | Ok v => ROk (ELit (tk_loc t) v) r
      | _ => RErr ts
      end
    | TIPv4Lit =>
      match val_of_token t with
      | Ok (VIp4 a) =>
        match r with
        | c :: r1 =>
          if kind_is TColon c then
            match r1 with
            | [] => RMore
            | p :: r2 =>
              if kind_is TIntLit p then
                match val_of_token p with
                | Ok (VU64 n) => if n <=? 65535 then ROk (ELit (tk_loc t) (VSock4 a n)) r2 else RErr r1
                | _ => RErr r1
                end
              else RErr r1
            end
          else ROk (ELit (tk_loc t) (VIp4 a)) r
        | [] => ROk (ELit (tk_loc t) (VIp4 a)) []
        end
      | _ => RErr ts
      end
    | _ => RErr ts
    end
  end.

(** [ / expr ] after an atom *)
Definition p_slash (pexpr : list token -> res expr) (a : expr) (ts : list token) : res expr :=
  match ts with
  | t :: r => if kind_is TSlash t then rbind (pexpr r) (fun b r' => ROk (ESlash a b) r') else ROk a ts
  | [] => ROk a []
  end.

Fixpoint p_expr (n : nat) (ts : list token) : res expr :=
  match n with
  | O => RFuel
  | S n' => rbind (p_atom (p_args n' []) ts) (p_slash (p_expr n'))
  end

(** the arguments after '(' up to and including ')' *)
with p_args (n : nat) (acc : list arg) (ts : list token) : res (list arg) :=
  match n with
  | O => RFuel
  | S n' =>
    match ts with
    | [] => RMore
    | t :: r =>
      if kind_is TRParen t then ROk acc r
      else
        let after (name : option string) (e : res expr) : res (list arg) :=
          rbind e (fun e r1 =>
            match r1 with
            | [] => RMore
            | t1 :: r2 =>
              if kind_is TComma t1 then p_args n' (acc ++ [(name, e)]) r2
              else if kind_is TRParen t1 then ROk (acc ++ [(name, e)]) r2
              else RErr r1
            end) in
        if kind_is TIdent t then
          match r with
          | [] => RMore
          | t2 :: r2 =>
            if kind_is TColon t2 then after (Some (ident_name t)) (p_expr n' r2)
            else after None (rbind (p_ref_atom (p_args n' []) (tk_loc t2) (ident_name t) r)
                                   (p_slash (p_expr n')))
          end
        else after None (p_expr n' ts)
    end
  end.

Definition p_stmt (n : nat) (ts : list token) : res stmt :=
  match ts with
  | [] => RMore
  | t :: r =>
    match tk_type t with
    | TImport =>
      expect TIdent r (fun i r1 =>
      expect TSemiColon r1 (fun _ r2 => ROk (SImport (tk_loc i) (ident_name i)) r2))
    | TLet =>
      expect TIdent r (fun i r1 =>
      expect TEquals r1 (fun _ r2 =>
      rbind (p_expr n r2) (fun e r3 =>
      expect TSemiColon r3 (fun _ r4 => ROk (SAssign (tk_loc i) (ident_name i) e) r4))))
    | TIdent =>
      rbind (p_expr n ts) (fun e r1 =>
      expect TSemiColon r1 (fun _ r2 => ROk (SExpr e) r2))
    | _ => RErr ts
    end
  end.

(** stmt* EOF and then nothing *)
Fixpoint p_program (n : nat) (acc : list stmt) (ts : list token) : res (list stmt) :=
  match n with
  | O => RFuel
  | S n' =>
    match ts with
    | [] => RMore
    | t :: r =>
      if kind_is TEof t then match r with [] => ROk acc [] | _ :: _ => RErr r end
      else rbind (p_stmt (S (length ts)) ts) (fun s r' => p_program n' (acc ++ [s]) r')
    end
  end.

Definition rd_parse (ts : list token) : verdict :=
  match p_program (S (length ts)) [] ts with
  | ROk ss _ => VAccept ss
  | RErr suffix => VReject (length ts - length suffix)
  | RMore => VMore
  | RFuel => VMore                 (* not reachable: Proofs/C09 fuel_enough *)
  end.
