(** The verdict on a whole token list, shared by the automaton model and the reference parser. *)
From RS Require Import Base.Bytes Interp.Ast.

Inductive verdict :=
| VAccept (ss : list stmt)      (* a complete program: statements, then EOF, then nothing *)
| VReject (idx : nat)           (* token number idx (0-based) is the first that cannot continue a program *)
| VMore                         (* no token rejected, but the program is not finished *)
| VPanic (idx : nat).           (* automaton only: Panic / OutOfFuel / a non-parse error at token idx *)
