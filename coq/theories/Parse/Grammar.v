(** The grammar of the resynth language as an inductive relation: token list |- syntax tree.

      program  ::= stmt*                         sentence ::= program EOF
      stmt     ::= import IDENT ;  |  let IDENT = expr ;  |  expr ;      (first token of expr an IDENT)
      expr     ::= atom  |  atom / expr                                   ('/' is right-associative)
      atom     ::= STRING | BOOL | HEX | INT  |  IPV4  |  IPV4 : INT  |  ref  |  ref ( args )
      ref      ::= IDENT (:: IDENT)* (. IDENT)*                           (every '::' before any '.')
      args     ::= <empty>  |  arg  |  arg , args                         (so one trailing ',' is allowed)
      arg      ::= expr  |  IDENT : expr

    A literal token belongs to the language only if [val_of_token] accepts its spelling, and a port
    only if it is at most 65535.  In  a::b::c.d.e  the modules are [a; b] and the components
    [c; d; e].  The grammar does not speak about source locations: the trees it assigns carry
    [nil_loc] everywhere, and [erase_stmt] maps a located tree to that form.
    Independent of Parse/Automaton.v. *)
From RS Require Import Base.Bytes Base.Outcome Lex.Tokens Lex.Literals Interp.Val Interp.Ast.
Open Scope N_scope.

Definition is (k : toktype) (t : token) : Prop := tk_type t = k.

(** the name an identifier token carries *)
Definition ident_name (t : token) : string :=
  match tk_val t with Some b => string_of_bytes b | None => EmptyString end.

Definition scalar_lit (k : toktype) : bool :=
  match k with TStringLit | TBoolLit | THexLit | TIntLit => true | _ => false end.

Definition arg := (option string * expr)%type.
Definition L0 : loc := nil_loc.

(** (sep IDENT)*  |-  the names *)
Inductive g_chain (sep : toktype) : list token -> list string -> Prop :=
| g_chain_nil : g_chain sep [] []
| g_chain_cons : forall s i ts ns,
    is sep s -> is TIdent i -> g_chain sep ts ns ->
    g_chain sep (s :: i :: ts) (ident_name i :: ns).

(** ref |- modules, components *)
Inductive g_ref : list token -> list string -> list string -> Prop :=
| g_ref_intro : forall i tm ms td ds,
    is TIdent i -> g_chain TDoubleColon tm ms -> g_chain TDot td ds ->
    let path := ident_name i :: ms in
    g_ref (i :: tm ++ td) (removelast path) (last path EmptyString :: ds).

Inductive g_expr : list token -> expr -> Prop :=
| g_expr_atom : forall ts a, g_atom ts a -> g_expr ts a
| g_expr_slash : forall ta a s tb b,
    g_atom ta a -> is TSlash s -> g_expr tb b -> g_expr (ta ++ s :: tb) (ESlash a b)

with g_atom : list token -> expr -> Prop :=
| g_atom_lit : forall t v,
    scalar_lit (tk_type t) = true -> val_of_token t = Ok v -> g_atom [t] (ELit L0 v)
| g_atom_ip : forall t a,
    is TIPv4Lit t -> val_of_token t = Ok (VIp4 a) -> g_atom [t] (ELit L0 (VIp4 a))
| g_atom_sock : forall t a c p n,
    is TIPv4Lit t -> val_of_token t = Ok (VIp4 a) -> is TColon c ->
    is TIntLit p -> val_of_token p = Ok (VU64 n) -> n <= 65535 ->
    g_atom [t; c; p] (ELit L0 (VSock4 a n))
| g_atom_ref : forall ts ms cs, g_ref ts ms cs -> g_atom ts (ERef L0 ms cs)
| g_atom_call : forall ts ms cs lp ta args rp,
    g_ref ts ms cs -> is TLParen lp -> g_args ta args -> is TRParen rp ->
    g_atom (ts ++ lp :: ta ++ [rp]) (ECall L0 ms cs args)

with g_args : list token -> list arg -> Prop :=
| g_args_nil : g_args [] []
| g_args_one : forall ta a, g_arg ta a -> g_args ta [a]
| g_args_cons : forall ta a c ts args,
    g_arg ta a -> is TComma c -> g_args ts args -> g_args (ta ++ c :: ts) (a :: args)

with g_arg : list token -> arg -> Prop :=
| g_arg_pos : forall ts e, g_expr ts e -> g_arg ts (None, e)
| g_arg_named : forall i c ts e,
    is TIdent i -> is TColon c -> g_expr ts e -> g_arg (i :: c :: ts) (Some (ident_name i), e).

Inductive g_stmt : list token -> stmt -> Prop :=
| g_stmt_import : forall k i s,
    is TImport k -> is TIdent i -> is TSemiColon s ->
    g_stmt [k; i; s] (SImport L0 (ident_name i))
| g_stmt_let : forall k i q ts e s,
    is TLet k -> is TIdent i -> is TEquals q -> g_expr ts e -> is TSemiColon s ->
    g_stmt (k :: i :: q :: ts ++ [s]) (SAssign L0 (ident_name i) e)
| g_stmt_expr : forall i ts e s,
    is TIdent i -> g_expr (i :: ts) e -> is TSemiColon s ->
    g_stmt (i :: ts ++ [s]) (SExpr e).

Inductive g_program : list token -> list stmt -> Prop :=
| g_program_nil : g_program [] []
| g_program_cons : forall ts s ts' ss,
    g_stmt ts s -> g_program ts' ss -> g_program (ts ++ ts') (s :: ss).

(** a sentence is a program followed by the EOF token and nothing else *)
Definition sentence (ts : list token) (ss : list stmt) : Prop :=
  exists body e, ts = body ++ [e] /\ is TEof e /\ g_program body ss.

(** a token list that can still be continued to a sentence *)
Definition viable_prefix (ts : list token) : Prop :=
  exists rest ss, sentence (ts ++ rest) ss.

(** forgetting source locations *)
Fixpoint erase_expr (e : expr) : expr :=
  match e with
  | ENil => ENil
  | ELit _ v => ELit L0 v
  | ERef _ ms cs => ERef L0 ms cs
  | ECall _ ms cs args => ECall L0 ms cs (map (fun a => (fst a, erase_expr (snd a))) args)
  | ESlash a b => ESlash (erase_expr a) (erase_expr b)
  end.

Definition erase_arg (a : arg) : arg := (fst a, erase_expr (snd a)).

Definition erase_stmt (s : stmt) : stmt :=
  match s with
  | SImport _ n => SImport L0 n
  | SAssign _ x e => SAssign L0 x (erase_expr e)
  | SExpr e => SExpr (erase_expr e)
  end.
