(** src/parse.rs: the hand-written shift/reduce automaton, transcribed function by function.

    39 states x 18 token kinds; an explicit [node] stack (head of the list = top of the Vec);
    reductions run on the *next* token through [AGoto] chains.  Every [self.pop().into()] that
    would hit [unwrap()] on an empty stack or [unreachable!()] on a node of the wrong kind is a
    [Panic] outcome here; the Goto loop of [Parser::feed] carries explicit fuel.  No proofs in
    this file; see Proofs/C09. *)
From RS Require Import Base.Bytes Base.Outcome Lex.Tokens Lex.Literals Interp.Val Interp.Ast.
From RS Require Import Parse.Verdict.
Open Scope N_scope.

(** enum State *)
Inductive state :=
| StInitial
| StImport | StImportEnd | StReduceImport
| StLet | StAssign
| StRefComponent | StReduceModule | StRefModule | StReduceObject | StReduceRefCall | StReduceRefNaked
| StRefObject | StRefObjEnd
| StReduceCall
| StReduceArg | StArgNext
| StExprArg | StArgName | StArgVal | StExprStmt | StExpr | StExprRvalue
| StIPv4 | StIPv4Colon
| StReduceLiteralExpr | StReduceRefExpr | StReduceCallExpr | StSlash | StReduceExpr | StReduceSockAddr
| StExprStmtEnd | StAssignStmtEnd | StReduceBop
| StReduceAssign
| StReduceExprStmt | StReduceAssignStmt
| StReduceStmt
| StAccept.

Definition all_states : list state :=
  [StInitial; StImport; StImportEnd; StReduceImport; StLet; StAssign;
   StRefComponent; StReduceModule; StRefModule; StReduceObject; StReduceRefCall; StReduceRefNaked;
   StRefObject; StRefObjEnd; StReduceCall; StReduceArg; StArgNext;
   StExprArg; StArgName; StArgVal; StExprStmt; StExpr; StExprRvalue; StIPv4; StIPv4Colon;
   StReduceLiteralExpr; StReduceRefExpr; StReduceCallExpr; StSlash; StReduceExpr; StReduceSockAddr;
   StExprStmtEnd; StAssignStmtEnd; StReduceBop; StReduceAssign; StReduceExprStmt; StReduceAssignStmt;
   StReduceStmt; StAccept].

(** struct PathBuilder, ObjectRef, Call, Assign; ArgExpr is a pair (name, expr) *)
Record path_builder := { pb_loc : loc; pb_module : list string; pb_object : list string }.
Record object_ref := { or_loc : loc; or_modules : list string; or_components : list string }.
Definition arg_expr := (option string * expr)%type.
Record call := { c_obj : object_ref; c_args : list arg_expr }.
Record assign := { as_loc : loc; as_target : string; as_rvalue : expr }.

Definition path_builder_new (l : loc) : path_builder :=
  {| pb_loc := l; pb_module := []; pb_object := [] |}.

(** Expr::ObjectRef(obj), Expr::Call(call), Stmt::Assign(assign) in the shared syntax tree *)
Definition expr_of_object (o : object_ref) : expr := ERef (or_loc o) (or_modules o) (or_components o).
Definition expr_of_call (c : call) : expr :=
  ECall (or_loc (c_obj c)) (or_modules (c_obj c)) (or_components (c_obj c)) (c_args c).
Definition stmt_of_assign (a : assign) : stmt := SAssign (as_loc a) (as_target a) (as_rvalue a).

(** enum Node *)
Inductive node :=
| NState (s : state)
| NLiteral (v : val)
| NModule (s : string)
| NAssignTo (s : string)
| NComponent (s : string)
| NArgName (n : option string)
| NArgList (l : list arg_expr)
| NPath (p : path_builder)
| NObject (o : object_ref)
| NExpr (e : expr)
| NAssign (a : assign)
| NCall (c : call)
| NStmt (s : stmt)
| NLoc (l : loc)
| NSlash.

(** impl From<Node> for ..: a node of another kind is unreachable!() *)
Definition node_loc (n : node) : outcome loc :=
  match n with NLoc l => Ok l | _ => Panic "parse.rs From<Node> for Loc: unreachable" end.
Definition node_state (n : node) : outcome state :=
  match n with NState s => Ok s | _ => Panic "parse.rs From<Node> for State: unreachable" end.
Definition node_u16 (n : node) : outcome N :=
  match n with NLiteral (VU64 u) => Ok (wrap16 u) | _ => Panic "parse.rs From<Node> for u16: unreachable" end.
Definition node_ipv4 (n : node) : outcome N :=
  match n with NLiteral (VIp4 a) => Ok a | _ => Panic "parse.rs From<Node> for Ipv4Addr: unreachable" end.
Definition node_string (n : node) : outcome string :=
  match n with
  | NModule s | NAssignTo s | NComponent s => Ok s
  | _ => Panic "parse.rs From<Node> for String: unreachable"
  end.
Definition node_opt_string (n : node) : outcome (option string) :=
  match n with NArgName s => Ok s | _ => Panic "parse.rs From<Node> for Option<String>: unreachable" end.
Definition node_arglist (n : node) : outcome (list arg_expr) :=
  match n with NArgList l => Ok l | _ => Panic "parse.rs From<Node> for Vec<ArgExpr>: unreachable" end.
Definition node_val (n : node) : outcome val :=
  match n with NLiteral v => Ok v | _ => Panic "parse.rs From<Node> for Val: unreachable" end.
Definition node_expr (n : node) : outcome expr :=
  match n with NExpr e => Ok e | _ => Panic "parse.rs From<Node> for Expr: unreachable" end.
Definition node_path (n : node) : outcome path_builder :=
  match n with NPath p => Ok p | _ => Panic "parse.rs From<Node> for PathBuilder: unreachable" end.
Definition node_object (n : node) : outcome object_ref :=
  match n with NObject o => Ok o | _ => Panic "parse.rs From<Node> for ObjectRef: unreachable" end.
Definition node_call (n : node) : outcome call :=
  match n with NCall c => Ok c | _ => Panic "parse.rs From<Node> for Call: unreachable" end.
Definition node_assign (n : node) : outcome assign :=
  match n with NAssign a => Ok a | _ => Panic "parse.rs From<Node> for Assign: unreachable" end.
Definition node_stmt (n : node) : outcome stmt :=
  match n with NStmt s => Ok s | _ => Panic "parse.rs From<Node> for Stmt: unreachable" end.

(** struct Parser *)
Record parser := { p_state : state; p_stack : list node; p_stmts : list stmt }.

Definition parser_init : parser := {| p_state := StInitial; p_stack := []; p_stmts := [] |}.

(** enum Action *)
Inductive action :=
| ADiscard (s : state)
| AShift (s : state) (n : node)
| AGoto (s : state)
| AAccept.

Definition set_state (p : parser) (s : state) : parser :=
  {| p_state := s; p_stack := p_stack p; p_stmts := p_stmts p |}.

Definition push (n : node) (p : parser) : parser :=
  {| p_state := p_state p; p_stack := n :: p_stack p; p_stmts := p_stmts p |}.
Definition push_goto (s : state) (p : parser) : parser := push (NState s) p.
Definition pop (p : parser) : outcome (node * parser) :=
  match p_stack p with
  | [] => Panic "parse.rs pop: unwrap on empty stack"
  | n :: r => Ok (n, {| p_state := p_state p; p_stack := r; p_stmts := p_stmts p |})
  end.

(** impl From<&Token> for String *)
Definition token_string (t : token) : outcome string :=
  match tk_val t with
  | Some b => Ok (string_of_bytes b)
  | None => Panic "lex.rs From<&Token> for String: unwrap on None"
  end.

(* ------------------------------------------------------------------ reductions *)

Definition reduce_module (p : parser) : outcome parser :=
  do (n1, p) <- pop p; do component <- node_string n1;
  do (n2, p) <- pop p; do builder <- node_path n2;
  Ok (push (NPath {| pb_loc := pb_loc builder;
                     pb_module := pb_module builder ++ [component];
                     pb_object := pb_object builder |}) p).

Definition reduce_object (p : parser) : outcome parser :=
  do (n1, p) <- pop p; do component <- node_string n1;
  do (n2, p) <- pop p; do builder <- node_path n2;
  Ok (push (NPath {| pb_loc := pb_loc builder;
                     pb_module := pb_module builder;
                     pb_object := pb_object builder ++ [component] |}) p).

Definition reduce_ref (p : parser) : outcome parser :=
  do p <- reduce_object p;
  do (n, p) <- pop p; do builder <- node_path n;
  Ok (push (NObject {| or_loc := pb_loc builder;
                       or_modules := pb_module builder;
                       or_components := pb_object builder |}) p).

Definition reduce_sockaddr (p : parser) : outcome parser :=
  do (port, p) <- pop p;
  do (_, p) <- pop p;
  do (addr, p) <- pop p;
  do (l, p) <- pop p;
  do a <- node_ipv4 addr;
  do pt <- node_u16 port;
  Ok (push (NLiteral (VSock4 a pt)) (push l p)).

Definition reduce_literal_expr (p : parser) : outcome parser :=
  do (lit, p) <- pop p;
  do (l, p) <- pop p;
  do l' <- node_loc l;
  do v <- node_val lit;
  Ok (push (NExpr (ELit l' v)) p).

Definition reduce_ref_expr (p : parser) : outcome parser :=
  do (obj, p) <- pop p;
  do o <- node_object obj;
  Ok (push (NExpr (expr_of_object o)) p).

Definition reduce_call_expr (p : parser) : outcome parser :=
  do (c, p) <- pop p;
  do c' <- node_call c;
  Ok (push (NExpr (expr_of_call c')) p).

Definition reduce_bop_expr (p : parser) : outcome parser :=
  do (b, p) <- pop p;
  do (op, p) <- pop p;
  do (a, p) <- pop p;
  match op with
  | NSlash =>
    do a' <- node_expr a;
    do b' <- node_expr b;
    Ok (push (NExpr (ESlash a' b')) p)
  | _ => Panic "parse.rs reduce_bop_expr: unreachable"
  end.

Definition reduce_arg (p : parser) : outcome parser :=
  do (arg, p) <- pop p;
  do (arg_name, p) <- pop p;
  do name <- node_opt_string arg_name;
  do e <- node_expr arg;
  do (n, p) <- pop p; do list <- node_arglist n;
  Ok (push (NArgList (list ++ [(name, e)])) p).

Definition reduce_call (p : parser) : outcome parser :=
  do (n, p) <- pop p; do args <- node_arglist n;
  do (obj, p) <- pop p;
  do o <- node_object obj;
  Ok (push (NCall {| c_obj := o; c_args := args |}) p).

Definition reduce_assign (p : parser) : outcome parser :=
  do (c, p) <- pop p;
  do (target, p) <- pop p;
  do (l, p) <- pop p;
  do l' <- node_loc l;
  do tg <- node_string target;
  do rv <- node_expr c;
  Ok (push (NAssign {| as_loc := l'; as_target := tg; as_rvalue := rv |}) p).

Definition reduce_expr_stmt (p : parser) : outcome parser :=
  do (e, p) <- pop p;
  do e' <- node_expr e;
  Ok (push (NStmt (SExpr e')) p).

Definition reduce_assign_stmt (p : parser) : outcome parser :=
  do (a, p) <- pop p;
  do a' <- node_assign a;
  Ok (push (NStmt (stmt_of_assign a')) p).

Definition reduce_import_stmt (p : parser) : outcome parser :=
  do (module, p) <- pop p;
  do (l, p) <- pop p;
  do l' <- node_loc l;
  do m <- node_string module;
  Ok (push (NStmt (SImport l' m)) p).

Definition reduce_stmt (p : parser) : outcome parser :=
  do (s, p) <- pop p;
  do s' <- node_stmt s;
  Ok {| p_state := p_state p; p_stack := p_stack p; p_stmts := p_stmts p ++ [s'] |}.

(* ------------------------------------------------------------------ states *)

Definition res := outcome (parser * action).
Definition parse_error : res := Err EParse.

Definition state_initial (p : parser) (t : token) : res :=
  match tk_type t with
  | TImport => Ok (p, ADiscard StImport)
  | TLet => Ok (p, ADiscard StLet)
  | TIdent => Ok (p, AGoto StExprStmt)
  | TEof => Ok (p, AAccept)
  | _ => parse_error
  end.

Definition state_import (p : parser) (t : token) : res :=
  match tk_type t with
  | TIdent =>
    let p := push (NLoc (tk_loc t)) p in
    do s <- token_string t;
    Ok (p, AShift StImportEnd (NModule s))
  | _ => parse_error
  end.

Definition state_import_end (p : parser) (t : token) : res :=
  match tk_type t with
  | TSemiColon => Ok (p, ADiscard StReduceImport)
  | _ => parse_error
  end.

Definition state_reduce_import (p : parser) (t : token) : res :=
  do p <- reduce_import_stmt p;
  Ok (p, AGoto StReduceStmt).

Definition state_let (p : parser) (t : token) : res :=
  match tk_type t with
  | TIdent =>
    let p := push (NLoc (tk_loc t)) p in
    do s <- token_string t;
    Ok (p, AShift StAssign (NAssignTo s))
  | _ => parse_error
  end.

Definition state_assign (p : parser) (t : token) : res :=
  match tk_type t with
  | TEquals => Ok (p, ADiscard StExprRvalue)
  | _ => parse_error
  end.

Definition state_ref_component (p : parser) (t : token) : res :=
  match tk_type t with
  | TDoubleColon => Ok (p, ADiscard StReduceModule)
  | TDot => Ok (p, ADiscard StReduceObject)
  | TLParen => Ok (p, ADiscard StReduceRefCall)
  | _ => Ok (p, AGoto StReduceRefNaked)
  end.

Definition state_reduce_object (p : parser) (t : token) : res :=
  do p <- reduce_object p;
  Ok (p, AGoto StRefObject).

Definition state_reduce_ref_call (p : parser) (t : token) : res :=
  do p <- reduce_ref p;
  let p := push (NArgList []) p in
  Ok (p, AGoto StExprArg).

Definition state_reduce_ref_naked (p : parser) (t : token) : res :=
  do p <- reduce_ref p;
  Ok (p, AGoto StReduceRefExpr).

Definition state_reduce_module (p : parser) (t : token) : res :=
  do p <- reduce_module p;
  Ok (p, AGoto StRefModule).

Definition state_ref_module (p : parser) (t : token) : res :=
  match tk_type t with
  | TIdent => do s <- token_string t; Ok (p, AShift StRefComponent (NComponent s))
  | _ => parse_error
  end.

Definition state_ref_object (p : parser) (t : token) : res :=
  match tk_type t with
  | TIdent => do s <- token_string t; Ok (p, AShift StRefObjEnd (NComponent s))
  | _ => parse_error
  end.

Definition state_ref_obj_end (p : parser) (t : token) : res :=
  match tk_type t with
  | TDot => Ok (p, ADiscard StReduceObject)
  | TLParen => Ok (p, ADiscard StReduceRefCall)
  | _ => Ok (p, AGoto StReduceRefNaked)
  end.

Definition state_arg_next (p : parser) (t : token) : res :=
  match tk_type t with
  | TComma => Ok (p, ADiscard StExprArg)
  | TRParen => Ok (p, AShift StReduceCall (NState StReduceArg))
  | _ => parse_error
  end.

Definition push_literal (p : parser) (t : token) : res :=
  match tk_type t with
  | TStringLit | TBoolLit | THexLit | TIntLit =>
    let p := push (NLoc (tk_loc t)) p in
    do v <- val_of_token t;
    Ok (p, AShift StReduceLiteralExpr (NLiteral v))
  | TIPv4Lit =>
    let p := push (NLoc (tk_loc t)) p in
    do v <- val_of_token t;
    Ok (p, AShift StIPv4 (NLiteral v))
  | _ => Panic "parse.rs push_literal: unreachable"
  end.

Definition state_expr_arg (p : parser) (t : token) : res :=
  match tk_type t with
  | TIdent => do s <- token_string t; Ok (p, AShift StArgName (NArgName (Some s)))
  | _ =>
    let p := push (NArgName None) p in
    Ok (p, AGoto StArgVal)
  end.

Definition state_arg_name (p : parser) (t : token) : res :=
  match tk_type t with
  | TColon => Ok (p, ADiscard StArgVal)
  | _ =>
    do (n, p) <- pop p; do component <- node_opt_string n;
    let p := push (NArgName None) p in
    let p := push_goto StReduceArg p in
    let p := push (NPath (path_builder_new (tk_loc t))) p in
    match component with
    | Some c =>
      let p := push (NComponent c) p in
      Ok (p, AGoto StRefComponent)
    | None => Panic "parse.rs state_arg_name: unwrap on None"
    end
  end.

Definition state_arg_val (p : parser) (t : token) : res :=
  let p := push_goto StReduceArg p in
  match tk_type t with
  | TIdent =>
    let p := push (NPath (path_builder_new (tk_loc t))) p in
    do s <- token_string t;
    Ok (p, AShift StRefComponent (NComponent s))
  | TStringLit | TBoolLit | THexLit | TIntLit | TIPv4Lit => push_literal p t
  | TRParen =>
    do (st, p) <- pop p;
    do (n, p) <- pop p; do name <- node_opt_string n;
    match name with
    | Some _ => parse_error        (* `name:` must be followed by a value *)
    | None =>
      let p := push st p in
      Ok (p, ADiscard StReduceCall)
    end
  | _ => parse_error
  end.

Definition state_expr_stmt (p : parser) (t : token) : res :=
  let p := push_goto StExprStmtEnd p in
  Ok (p, AGoto StExpr).

Definition state_expr (p : parser) (t : token) : res :=
  match tk_type t with
  | TIdent =>
    let p := push (NPath (path_builder_new (tk_loc t))) p in
    do s <- token_string t;
    Ok (p, AShift StRefComponent (NComponent s))
  | TStringLit | TBoolLit | THexLit | TIntLit | TIPv4Lit => push_literal p t
  | _ => parse_error
  end.

Definition state_expr_rvalue (p : parser) (t : token) : res :=
  let p := push_goto StAssignStmtEnd p in
  Ok (p, AGoto StExpr).

Definition state_ipv4 (p : parser) (t : token) : res :=
  match tk_type t with
  | TColon => Ok (p, ADiscard StIPv4Colon)
  | _ => Ok (p, AGoto StReduceLiteralExpr)
  end.

Definition state_ipv4_colon (p : parser) (t : token) : res :=
  match tk_type t with
  | TIntLit =>
    do port <- val_of_token t;
    match port with
    | VU64 pt =>
      if pt <=? 65535 then
        let p := push (NLoc (tk_loc t)) p in
        Ok (p, AShift StReduceSockAddr (NLiteral port))
      else parse_error             (* a port number must fit in 16 bits *)
    | _ => parse_error
    end
  | _ => parse_error
  end.

Definition state_reduce_arg (p : parser) (t : token) : res :=
  do p <- reduce_arg p;
  Ok (p, AGoto StArgNext).

Definition state_reduce_literal_expr (p : parser) (t : token) : res :=
  do p <- reduce_literal_expr p;
  Ok (p, AGoto StSlash).

Definition state_reduce_ref_expr (p : parser) (t : token) : res :=
  do p <- reduce_ref_expr p;
  Ok (p, AGoto StSlash).

Definition state_reduce_call_expr (p : parser) (t : token) : res :=
  do p <- reduce_call_expr p;
  Ok (p, AGoto StSlash).

Definition state_slash (p : parser) (t : token) : res :=
  match tk_type t with
  | TSlash =>
    let p := push NSlash p in
    let p := push_goto StReduceBop p in
    Ok (p, ADiscard StExpr)
  | _ => Ok (p, AGoto StReduceExpr)
  end.

Definition state_reduce_expr (p : parser) (t : token) : res :=
  do (e, p) <- pop p;
  do (st, p) <- pop p;
  let p := push e p in
  do st' <- node_state st;
  Ok (p, AGoto st').

Definition state_reduce_sockaddr (p : parser) (t : token) : res :=
  do p <- reduce_sockaddr p;
  Ok (p, AGoto StReduceLiteralExpr).

Definition state_reduce_call (p : parser) (t : token) : res :=
  do (_, p) <- pop p;              (* state for next arg *)
  do p <- reduce_call p;
  Ok (p, AGoto StReduceCallExpr).

Definition state_expr_stmt_end (p : parser) (t : token) : res :=
  match tk_type t with
  | TSemiColon => Ok (p, ADiscard StReduceExprStmt)
  | _ => parse_error
  end.

Definition state_assign_stmt_end (p : parser) (t : token) : res :=
  match tk_type t with
  | TSemiColon => Ok (p, ADiscard StReduceAssign)
  | _ => parse_error
  end.

Definition state_reduce_bop (p : parser) (t : token) : res :=
  do p <- reduce_bop_expr p;
  Ok (p, AGoto StReduceExpr).

Definition state_reduce_assign (p : parser) (t : token) : res :=
  do p <- reduce_assign p;
  Ok (p, AGoto StReduceAssignStmt).

Definition state_reduce_expr_stmt (p : parser) (t : token) : res :=
  do p <- reduce_expr_stmt p;
  Ok (p, AGoto StReduceStmt).

Definition state_reduce_assign_stmt (p : parser) (t : token) : res :=
  do p <- reduce_assign_stmt p;
  Ok (p, AGoto StReduceStmt).

Definition state_reduce_stmt (p : parser) (t : token) : res :=
  do p <- reduce_stmt p;
  Ok (p, AGoto StInitial).

Definition dispatch (p : parser) (t : token) : res :=
  match p_state p with
  | StInitial => state_initial p t
  | StImport => state_import p t
  | StImportEnd => state_import_end p t
  | StReduceImport => state_reduce_import p t
  | StLet => state_let p t
  | StAssign => state_assign p t
  | StRefComponent => state_ref_component p t
  | StReduceModule => state_reduce_module p t
  | StRefModule => state_ref_module p t
  | StReduceObject => state_reduce_object p t
  | StReduceRefCall => state_reduce_ref_call p t
  | StReduceRefNaked => state_reduce_ref_naked p t
  | StRefObject => state_ref_object p t
  | StRefObjEnd => state_ref_obj_end p t
  | StReduceArg => state_reduce_arg p t
  | StArgNext => state_arg_next p t
  | StReduceCall => state_reduce_call p t
  | StExprArg => state_expr_arg p t
  | StArgName => state_arg_name p t
  | StArgVal => state_arg_val p t
  | StExprStmt => state_expr_stmt p t
  | StExpr => state_expr p t
  | StExprRvalue => state_expr_rvalue p t
  | StIPv4 => state_ipv4 p t
  | StIPv4Colon => state_ipv4_colon p t
  | StReduceLiteralExpr => state_reduce_literal_expr p t
  | StReduceRefExpr => state_reduce_ref_expr p t
  | StReduceCallExpr => state_reduce_call_expr p t
  | StSlash => state_slash p t
  | StReduceExpr => state_reduce_expr p t
  | StReduceSockAddr => state_reduce_sockaddr p t
  | StExprStmtEnd => state_expr_stmt_end p t
  | StAssignStmtEnd => state_assign_stmt_end p t
  | StReduceBop => state_reduce_bop p t
  | StReduceAssign => state_reduce_assign p t
  | StReduceExprStmt => state_reduce_expr_stmt p t
  | StReduceAssignStmt => state_reduce_assign_stmt p t
  | StReduceStmt => state_reduce_stmt p t
  | StAccept => parse_error
  end.

(** Parser::feed: the loop around dispatch; [fuel] bounds the number of dispatches (Goto chain). *)
Fixpoint feed_loop (fuel : nat) (p : parser) (t : token) : outcome parser :=
  match fuel with
  | O => OutOfFuel
  | S fuel' =>
    do (p', a) <- dispatch p t;
    match a with
    | ADiscard st => Ok (set_state p' st)
    | AShift st frag => Ok (set_state (push frag p') st)
    | AGoto st => feed_loop fuel' (set_state p' st) t
    | AAccept => Ok (set_state p' StAccept)
    end
  end.

Definition feed_fuel (p : parser) : nat := 2 * length (p_stack p) + 8.

(** [Err EParse] on a parse error; the state after an error is irrelevant (the CLI stops). *)
Definition feed (p : parser) (t : token) : outcome parser := feed_loop (feed_fuel p) p t.

(** Parser::get_results = std::mem::take(&mut self.stmts) *)
Definition get_results (p : parser) : list stmt * parser :=
  (p_stmts p, {| p_state := p_state p; p_stack := p_stack p; p_stmts := [] |}).

(** What the lexer guarantees about a token (src/lex.rs TokType::get_val and the hex-literal rule):
    identifiers and literals carry their text, and a hex literal starts with "0x". *)
Definition tok_ok (t : token) : bool :=
  match tk_type t with
  | TIdent | TStringLit | TBoolLit | TIntLit | TIPv4Lit =>
    match tk_val t with Some _ => true | None => false end
  | THexLit => match tk_val t with Some (a :: b :: _) => (a =? 48) && (b =? 120) | _ => false end
  | _ => true
  end.

(* ------------------------------------------------------------------ driving the parser *)

(** feeding a token list, stopping at the first non-Ok outcome *)
Definition feed_all (p : parser) (ts : list token) : outcome parser :=
  fold_left (fun acc t => do p <- acc; feed p t) ts (Ok p).

(** The same, reporting where it stopped: the verdict of a whole token list. *)
Fixpoint run_from (p : parser) (ts : list token) (i : nat) : verdict :=
  match ts with
  | [] => match p_state p with StAccept => VAccept (p_stmts p) | _ => VMore end
  | t :: r =>
    match feed p t with
    | Ok p' => run_from p' r (S i)
    | Err EParse => VReject i
    | _ => VPanic i
    end
  end.

Definition run_tokens (ts : list token) : verdict := run_from parser_init ts 0.

(** cli.rs process_file, parser part: per line feed every token and then collect the finished
    statements with get_results; at the end feed EOF and collect again. *)
Fixpoint run_lines_from (p : parser) (acc : list stmt) (lines : list (list token)) (i : nat) : verdict :=
  match lines with
  | [] => match p_state p with StAccept => VAccept (acc ++ p_stmts p) | _ => VMore end
  | l :: rest =>
    (fix line (p : parser) (ts : list token) (i : nat) : verdict :=
       match ts with
       | [] => let (ss, p') := get_results p in run_lines_from p' (acc ++ ss) rest i
       | t :: r =>
         match feed p t with
         | Ok p' => line p' r (S i)
         | Err EParse => VReject i
         | _ => VPanic i
         end
       end) p l i
  end.

Definition run_lines (lines : list (list token)) : verdict := run_lines_from parser_init [] lines 0.
