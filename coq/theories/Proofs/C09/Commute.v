(** C09: the automaton never reads its list of finished statements: putting statements in front of
    that list commutes with dispatch. *)
From RS Require Import Base.Bytes Base.Outcome Lex.Tokens Lex.Literals Interp.Val Interp.Ast.
From RS Require Import Parse.Verdict Parse.Automaton.
Open Scope N_scope.

(** the parser with [pre] put in front of its finished statements *)
Definition add_stmts (pre : list stmt) (p : parser) : parser :=
  {| p_state := p_state p; p_stack := p_stack p; p_stmts := pre ++ p_stmts p |}.

Definition lift_pa (pre : list stmt) (r : res) : res :=
  match r with
  | Ok (p', a) => Ok (add_stmts pre p', a)
  | Err e => Err e
  | Panic s => Panic s
  | OutOfFuel => OutOfFuel
  end.

Definition lift_p (pre : list stmt) (r : outcome parser) : outcome parser :=
  match r with
  | Ok p' => Ok (add_stmts pre p')
  | Err e => Err e
  | Panic s => Panic s
  | OutOfFuel => OutOfFuel
  end.

Lemma pop_add : forall pre p,
  pop (add_stmts pre p) =
  match pop p with
  | Ok (n, p') => Ok (n, add_stmts pre p')
  | Err e => Err e
  | Panic s => Panic s
  | OutOfFuel => OutOfFuel
  end.
Proof. intros pre [s stk ss]. unfold pop, add_stmts. cbn. destruct stk; reflexivity. Qed.

Lemma push_add : forall pre n p, push n (add_stmts pre p) = add_stmts pre (push n p).
Proof. reflexivity. Qed.

Local Ltac lift_step :=
  cbn [obind lift_p lift_pa];
  first
    [ reflexivity
    | rewrite pop_add; match goal with |- context [pop ?p] => destruct (pop p) as [[? ?]| | |] end
    | match goal with |- context [obind ?x _] => destruct x end
    | match goal with |- context [match ?x with _ => _ end] => is_var x; destruct x end ].

Local Ltac lifts f := intros; unfold f; repeat lift_step.

Lemma reduce_module_add : forall pre p, reduce_module (add_stmts pre p) = lift_p pre (reduce_module p).
Proof. lifts reduce_module. Qed.
Lemma reduce_object_add : forall pre p, reduce_object (add_stmts pre p) = lift_p pre (reduce_object p).
Proof. lifts reduce_object. Qed.
Lemma reduce_ref_add : forall pre p, reduce_ref (add_stmts pre p) = lift_p pre (reduce_ref p).
Proof.
  intros. unfold reduce_ref. rewrite reduce_object_add. destruct (reduce_object p); repeat lift_step.
Qed.
Lemma reduce_sockaddr_add : forall pre p, reduce_sockaddr (add_stmts pre p) = lift_p pre (reduce_sockaddr p).
Proof. lifts reduce_sockaddr. Qed.
Lemma reduce_literal_expr_add : forall pre p,
  reduce_literal_expr (add_stmts pre p) = lift_p pre (reduce_literal_expr p).
Proof. lifts reduce_literal_expr. Qed.
Lemma reduce_ref_expr_add : forall pre p, reduce_ref_expr (add_stmts pre p) = lift_p pre (reduce_ref_expr p).
Proof. lifts reduce_ref_expr. Qed.
Lemma reduce_call_expr_add : forall pre p, reduce_call_expr (add_stmts pre p) = lift_p pre (reduce_call_expr p).
Proof. lifts reduce_call_expr. Qed.
Lemma reduce_bop_expr_add : forall pre p, reduce_bop_expr (add_stmts pre p) = lift_p pre (reduce_bop_expr p).
Proof. lifts reduce_bop_expr. Qed.
Lemma reduce_arg_add : forall pre p, reduce_arg (add_stmts pre p) = lift_p pre (reduce_arg p).
Proof. lifts reduce_arg. Qed.
Lemma reduce_call_add : forall pre p, reduce_call (add_stmts pre p) = lift_p pre (reduce_call p).
Proof. lifts reduce_call. Qed.
Lemma reduce_assign_add : forall pre p, reduce_assign (add_stmts pre p) = lift_p pre (reduce_assign p).
Proof. lifts reduce_assign. Qed.
Lemma reduce_expr_stmt_add : forall pre p, reduce_expr_stmt (add_stmts pre p) = lift_p pre (reduce_expr_stmt p).
Proof. lifts reduce_expr_stmt. Qed.
Lemma reduce_assign_stmt_add : forall pre p,
  reduce_assign_stmt (add_stmts pre p) = lift_p pre (reduce_assign_stmt p).
Proof. lifts reduce_assign_stmt. Qed.
Lemma reduce_import_stmt_add : forall pre p,
  reduce_import_stmt (add_stmts pre p) = lift_p pre (reduce_import_stmt p).
Proof. lifts reduce_import_stmt. Qed.
Lemma reduce_stmt_add : forall pre p, reduce_stmt (add_stmts pre p) = lift_p pre (reduce_stmt p).
Proof.
  lifts reduce_stmt. cbn. unfold add_stmts. cbn [p_state p_stack p_stmts]. rewrite app_assoc. reflexivity.
Qed.

Local Ltac red_step :=
  first
    [ rewrite reduce_module_add | rewrite reduce_object_add | rewrite reduce_ref_add
    | rewrite reduce_sockaddr_add | rewrite reduce_literal_expr_add | rewrite reduce_ref_expr_add
    | rewrite reduce_call_expr_add | rewrite reduce_bop_expr_add | rewrite reduce_arg_add
    | rewrite reduce_call_add | rewrite reduce_assign_add | rewrite reduce_expr_stmt_add
    | rewrite reduce_assign_stmt_add | rewrite reduce_import_stmt_add | rewrite reduce_stmt_add ].

Local Ltac st_step :=
  cbn [obind lift_p lift_pa]; rewrite ?push_add;
  first
    [ reflexivity
    | red_step; match goal with |- context [lift_p _ ?x] => destruct x end
    | rewrite pop_add; match goal with |- context [pop ?p] => destruct (pop p) as [[? ?]| | |] end
    | match goal with |- context [match tk_type ?t with _ => _ end] => destruct (tk_type t) end
    | match goal with |- context [obind ?x _] => destruct x end
    | match goal with |- context [match ?x with _ => _ end] => is_var x; destruct x end
    | match goal with |- context [N.leb ?a ?b] => destruct (N.leb a b) end ].

Lemma dispatch_add : forall pre p t, dispatch (add_stmts pre p) t = lift_pa pre (dispatch p t).
Proof.
  intros pre p t. unfold dispatch. change (p_state (add_stmts pre p)) with (p_state p).
  destruct (p_state p);
    match goal with
    | |- ?f _ _ = lift_pa _ (?f _ _) => unfold f
    | |- _ => idtac
    end; unfold push_literal, parse_error, push_goto; repeat st_step.
Qed.

