(** C09: statements, programs, and the equality of the two parsers on every token list. *)
From RS Require Import Base.Bytes Base.Outcome Lex.Tokens Lex.Literals Interp.Val Interp.Ast.
From RS Require Import Parse.Verdict Parse.Automaton Parse.Grammar Parse.RefParser.
From RS Require Import Proofs.C09.Invariant Proofs.C09.Chain Proofs.C09.RefSound Proofs.C09.RefFuel Proofs.C09.Sim.
From Coq Require Import Arith Lia.
Open Scope N_scope.

(** between statements *)
Definition Qinit (ss : list stmt) : parser := mk StInitial [] ss.

Ltac unfold_canon ::= unfold Qinit, Qmod, Qref, Qatom, Qexpr, Qargs, Qargnext, Qcalled, karg, pb.

Lemma sim_expect : forall A k ts (f : token -> list token -> res A) p0 q (Q : A -> parser),
  toks_ok ts -> pinv p0 -> p_state p0 <> StAccept -> behaves ts p0 q ->
  (forall t, tok_ok t = true -> tk_type t <> k -> feedR t q (Err EParse)) ->
  (forall t r, ts = t :: r -> tk_type t = k -> sim p0 (t :: r) (f t r) Q) ->
  sim p0 ts (expect k ts f) Q.
Proof.
  intros A k ts f p0 q Q Hts Hp NA B Hbad Hgood. unfold expect.
  destruct ts as [|t r]; [apply sim_more, NA|]. destruct (tok_inv _ _ Hts) as [Ht Hr].
  destruct (kind_is k t) eqn:K.
  - apply Hgood; [reflexivity | apply kind_is_true, K].
  - apply sim_err. eapply behaves_feed; [exact Hp | exact Ht | exact B |]. apply Hbad; [exact Ht|].
    apply kind_is_false in K. exact K.
Qed.

Lemma sim_stmt : forall n ts ss p0,
  hd_not TEof ts -> toks_ok ts -> pinv p0 -> p_state p0 <> StAccept ->
  behaves ts p0 (Qinit ss) ->
  sim p0 ts (p_stmt n ts) (fun s => Qinit (ss ++ [s])).
Proof.
  intros n ts ss p0 Heof Hts Hp NA B. unfold p_stmt.
  destruct ts as [|t r]; [apply sim_more, NA|]. destruct (tok_inv _ _ Hts) as [Ht Hr].
  cbn [hd_not] in Heof.
  destruct (tk_type t) eqn:K;
    try (apply sim_err; eapply behaves_feed; [exact Hp | exact Ht | exact B | fr_err]).
  - unfold kind_is in Heof. rewrite K in Heof. discriminate.
  - (* import *)
    assert (F1 : feed p0 t = Ok (mk StImport [] ss))
      by (eapply behaves_feed; [exact Hp | exact Ht | exact B | fr_discard]).
    pose proof (feed_inv p0 t Hp Ht) as Hp1. rewrite F1 in Hp1. cbn [feed_post] in Hp1.
    eapply sim_step; [exact F1|].
    eapply sim_expect; [exact Hr | exact Hp1 | cbn; discriminate | apply behaves_refl | |].
    { intros i Hi Ki. kind_cases i; try congruence; fr_err. }
    intros i r1 -> Ki. destruct (tok_inv _ _ Hr) as [Hi Hr1].
    pose proof (token_string_name i Hi Ki) as S.
    assert (F2 : feed (mk StImport [] ss) i = Ok (mk StImportEnd [NModule (ident_name i); NLoc (tk_loc i)] ss))
      by (apply feed_eq; [exact Hp1 | exact Hi | fr_shift]).
    pose proof (feed_inv _ i Hp1 Hi) as Hp2. rewrite F2 in Hp2. cbn [feed_post] in Hp2.
    eapply sim_step; [exact F2|].
    eapply sim_expect; [exact Hr1 | exact Hp2 | cbn; discriminate | apply behaves_refl | |].
    { intros s Hs Ks. kind_cases s; try congruence; fr_err. }
    intros s r2 -> Ks. destruct (tok_inv _ _ Hr1) as [Hs Hr2].
    assert (F3 : feed (mk StImportEnd [NModule (ident_name i); NLoc (tk_loc i)] ss) s
                 = Ok (mk StReduceImport [NModule (ident_name i); NLoc (tk_loc i)] ss))
      by (apply feed_eq; [exact Hp2 | exact Hs | fr_discard]).
    eapply sim_step; [exact F3|]. apply sim_ret; [cbn; discriminate|].
    apply behaves_goto. intros t' r' _ Ht'. gr_step. gr_step. gr_done.
  - (* let *)
    assert (F1 : feed p0 t = Ok (mk StLet [] ss))
      by (eapply behaves_feed; [exact Hp | exact Ht | exact B | fr_discard]).
    pose proof (feed_inv p0 t Hp Ht) as Hp1. rewrite F1 in Hp1. cbn [feed_post] in Hp1.
    eapply sim_step; [exact F1|].
    eapply sim_expect; [exact Hr | exact Hp1 | cbn; discriminate | apply behaves_refl | |].
    { intros i Hi Ki. kind_cases i; try congruence; fr_err. }
    intros i r1 -> Ki. destruct (tok_inv _ _ Hr) as [Hi Hr1].
    pose proof (token_string_name i Hi Ki) as S.
    assert (F2 : feed (mk StLet [] ss) i = Ok (mk StAssign [NAssignTo (ident_name i); NLoc (tk_loc i)] ss))
      by (apply feed_eq; [exact Hp1 | exact Hi | fr_shift]).
    pose proof (feed_inv _ i Hp1 Hi) as Hp2. rewrite F2 in Hp2. cbn [feed_post] in Hp2.
    eapply sim_step; [exact F2|].
    eapply sim_expect; [exact Hr1 | exact Hp2 | cbn; discriminate | apply behaves_refl | |].
    { intros q Hq Kq. kind_cases q; try congruence; fr_err. }
    intros q r2 -> Kq. destruct (tok_inv _ _ Hr1) as [Hq Hr2].
    assert (F3 : feed (mk StAssign [NAssignTo (ident_name i); NLoc (tk_loc i)] ss) q
                 = Ok (mk StExprRvalue [NAssignTo (ident_name i); NLoc (tk_loc i)] ss))
      by (apply feed_eq; [exact Hp2 | exact Hq | fr_discard]).
    pose proof (feed_inv _ q Hp2 Hq) as Hp3. rewrite F3 in Hp3. cbn [feed_post] in Hp3.
    eapply sim_step; [exact F3|].
    eapply sim_bind.
    + apply (proj1 (sim_expr_args n) r2 [NState StAssignStmtEnd; NAssignTo (ident_name i); NLoc (tk_loc i)] ss);
        [exact Hr2 | exact Hp3 | cbn; discriminate|].
      apply behaves_goto. intros t' r' _ Ht'. gr_step. gr_done.
    + intros e r3 used p4 _ E F NA4 B4. subst r2. destruct (toks_ok_app _ _ Hr2) as [Hu Hr3].
      pose proof (feed_all_pinv _ _ _ Hp3 Hu F) as Hp4.
      assert (B5 : behaves r3 p4 (mk StAssignStmtEnd [NExpr e; NAssignTo (ident_name i); NLoc (tk_loc i)] ss)).
      { eapply behaves_trans; [exact B4|]. apply behaves_goto. intros t' r' _ Ht'. gr_step. gr_done. }
      eapply sim_expect; [exact Hr3 | exact Hp4 | exact NA4 | exact B5 | |].
      { intros s Hs Ks. kind_cases s; try congruence; fr_err. }
      intros s r4 -> Ks. destruct (tok_inv _ _ Hr3) as [Hs Hr4].
      assert (F5 : feed p4 s = Ok (mk StReduceAssign [NExpr e; NAssignTo (ident_name i); NLoc (tk_loc i)] ss))
        by (eapply behaves_feed; [exact Hp4 | exact Hs | exact B5 | fr_discard]).
      eapply sim_step; [exact F5|]. apply sim_ret; [cbn; discriminate|].
      apply behaves_goto. intros t' r' _ Ht'. gr_step. gr_step. gr_step. gr_done.
  - (* expression statement *)
    eapply sim_bind.
    + apply (proj1 (sim_expr_args n) (t :: r) [NState StExprStmtEnd] ss); [exact Hts | exact Hp | exact NA|].
      eapply behaves_trans; [exact B|].
      apply behaves_goto. intros t' r' E Ht'. inversion E; subst t' r'. gr_step. gr_step. gr_done.
    + intros e r1 used p1 _ E F NA1 B1. rewrite E in Hts. destruct (toks_ok_app _ _ Hts) as [Hu Hr1].
      pose proof (feed_all_pinv _ _ _ Hp Hu F) as Hp1.
      assert (B2 : behaves r1 p1 (mk StExprStmtEnd [NExpr e] ss)).
      { eapply behaves_trans; [exact B1|]. apply behaves_goto. intros t' r' _ Ht'. gr_step. gr_done. }
      eapply sim_expect; [exact Hr1 | exact Hp1 | exact NA1 | exact B2 | |].
      { intros s Hs Ks. kind_cases s; try congruence; fr_err. }
      intros s r2 -> Ks. destruct (tok_inv _ _ Hr1) as [Hs Hr2].
      assert (F2 : feed p1 s = Ok (mk StReduceExprStmt [NExpr e] ss))
        by (eapply behaves_feed; [exact Hp1 | exact Hs | exact B2 | fr_discard]).
      eapply sim_step; [exact F2|]. apply sim_ret; [cbn; discriminate|].
      apply behaves_goto. intros t' r' _ Ht'. gr_step. gr_step. gr_done.
Qed.

(* ---------------------------------------------------------------- programs *)

Lemma run_from_app : forall used p p1 rest i,
  feed_all p used = Ok p1 -> run_from p (used ++ rest) i = run_from p1 rest (i + length used).
Proof.
  induction used as [|t u IH]; intros p p1 rest i H.
  - inversion H; subst. cbn [app length]. rewrite Nat.add_0_r. reflexivity.
  - rewrite feed_all_cons in H. cbn [app run_from].
    destruct (feed p t) as [p'| | |]; cbn [obind] in H; try discriminate.
    rewrite (IH p' p1 rest (S i) H). cbn [length]. f_equal. lia.
Qed.

Definition program_post (acc : list stmt) (ts : list token) (i : nat) (r : res (list stmt)) (v : verdict) : Prop :=
  match r with
  | ROk out _ => v = VAccept out
  | RErr suf => v = VReject (i + length ts - length suf) /\ (length suf <= length ts)%nat
  | RMore => v = VMore
  | RFuel => True
  end.

Lemma sim_program : forall n ts ss p0 i,
  toks_ok ts -> pinv p0 -> p_state p0 <> StAccept -> behaves ts p0 (Qinit ss) ->
  program_post ss ts i (p_program n ss ts) (run_from p0 ts i).
Proof.
  induction n as [|n IH]; intros ts ss p0 i Hts Hp NA B; [exact I|]. cbn [p_program].
  destruct ts as [|t r].
  - cbn [program_post run_from]. destruct (p_state p0); try reflexivity. contradiction.
  - destruct (tok_inv _ _ Hts) as [Ht Hr]. destruct (kind_is TEof t) eqn:KE.
    + apply kind_is_true in KE. unfold is in KE.
      assert (F1 : feed p0 t = Ok (mk StAccept [] ss)).
      { eapply behaves_feed; [exact Hp | exact Ht | exact B |]. eapply FR_accept'; [dispatch_eval | reflexivity]. }
      pose proof (feed_inv p0 t Hp Ht) as Hp1. rewrite F1 in Hp1. cbn [feed_post] in Hp1.
      cbn [run_from]. rewrite F1. destruct r as [|t' r'].
      * cbn. reflexivity.
      * destruct (tok_inv _ _ Hr) as [Ht' _].
        assert (F2 : feed (mk StAccept [] ss) t' = Err EParse) by (apply feed_eq; [exact Hp1 | exact Ht' | eapply FR_err; reflexivity]).
        cbn [run_from program_post]. rewrite F2. split; [f_equal; cbn [length]; lia | cbn [length]; lia].
    + pose proof (sim_stmt (S (length (t :: r))) (t :: r) ss p0 KE Hts Hp NA B) as Sm.
      destruct (p_stmt (S (length (t :: r))) (t :: r)) as [s r'|suf| |]; cbn [rbind sim] in Sm |- *.
      * destruct Sm as (used & p1 & E & F & NA1 & B1). rewrite E in Hts |- *.
        destruct (toks_ok_app _ _ Hts) as [Hu Hr'].
        pose proof (feed_all_pinv _ _ _ Hp Hu F) as Hp1.
        rewrite (run_from_app _ _ _ _ i F).
        specialize (IH r' (ss ++ [s]) p1 (i + length used)%nat Hr' Hp1 NA1 B1).
        destruct (p_program n (ss ++ [s]) r') as [out rest|suf| |]; cbn [program_post] in IH |- *; auto.
        destruct IH as [IH1 IH2]. rewrite app_length. split; [rewrite IH1; f_equal; lia | lia].
      * destruct Sm as (used & p1 & t1 & suf' & E & E2 & F & F2). cbn [program_post]. rewrite E.
        rewrite (run_from_app _ _ _ _ i F). subst suf. cbn [run_from]. rewrite F2.
        rewrite app_length. split; [f_equal; lia | lia].
      * destruct Sm as (p1 & F & NA1). cbn [program_post].
        rewrite <- (app_nil_r (t :: r)). rewrite (run_from_app _ _ _ _ i F). cbn [run_from].
        destruct (p_state p1); try reflexivity. contradiction.
      * exact I.
Qed.

(** the automaton and the reference parser give the same verdict on every well-formed token list:
    accept with the same statements (locations included), reject at the same token, or unfinished *)
Theorem automaton_eq_refparser : forall ts, toks_ok ts -> run_tokens ts = rd_parse ts.
Proof.
  intros ts Hts. unfold run_tokens, rd_parse.
  pose proof (sim_program (S (length ts)) ts [] parser_init 0 Hts pinv_init) as Sm.
  pose proof (p_program_fuel (S (length ts)) [] ts ltac:(lia)) as NF.
  destruct (p_program (S (length ts)) [] ts) as [out rest|suf| |]; cbn [program_post] in Sm.
  - apply Sm; [cbn; discriminate | apply behaves_refl].
  - destruct Sm as [Sm _]; [cbn; discriminate | apply behaves_refl|]. rewrite Sm. reflexivity.
  - apply Sm; [cbn; discriminate | apply behaves_refl].
  - contradiction.
Qed.
