(** C09: the index at which a token list is rejected is the length of its longest viable prefix.
    Every state the automaton can reach can still be completed to an accepted program, and once
    a token has been rejected no continuation is accepted. *)
From RS Require Import Base.Bytes Base.Outcome Lex.Tokens Lex.Literals Interp.Val Interp.Ast.
From RS Require Import Parse.Verdict Parse.Automaton Parse.Grammar Parse.RefParser.
From RS Require Import Proofs.C09.Invariant Proofs.C09.Chain Proofs.C09.RefSound Proofs.C09.RefComplete.
From RS Require Import Proofs.C09.Sim Proofs.C09.SimTop.
From Coq Require Import Arith Lia.
Open Scope N_scope.

(* ---------------------------------------------------------------- the run is a fold *)

Lemma run_from_reject : forall ts p i j, run_from p ts i = VReject j ->
  exists pre t post p1, ts = pre ++ t :: post /\ (j = i + length pre)%nat
                        /\ feed_all p pre = Ok p1 /\ feed p1 t = Err EParse.
Proof.
  induction ts as [|t r IH]; intros p i j H; cbn [run_from] in H.
  - destruct (p_state p); discriminate.
  - destruct (feed p t) as [p'|e| |] eqn:F; try discriminate.
    + apply IH in H. destruct H as (pre & t' & post & p1 & -> & -> & F1 & F2).
      exists (t :: pre), t', post, p1.
      split; [reflexivity|]. split; [cbn [length]; lia|]. split; [rewrite feed_all_cons, F; exact F1 | exact F2].
    + destruct e; try discriminate. inversion H; subst.
      exists [], t, r, p. split; [reflexivity|]. split; [cbn [length]; lia|]. split; [reflexivity | exact F].
Qed.

Lemma run_from_reject_stable : forall pre t rest p p1 i,
  feed_all p pre = Ok p1 -> feed p1 t = Err EParse ->
  run_from p (pre ++ t :: rest) i = VReject (i + length pre).
Proof. intros pre t rest p p1 i F1 F2. rewrite (run_from_app _ _ _ _ i F1). cbn [run_from]. rewrite F2. reflexivity. Qed.

Lemma run_from_more : forall ts p i, run_from p ts i = VMore ->
  exists p1, feed_all p ts = Ok p1 /\ p_state p1 <> StAccept.
Proof.
  induction ts as [|t r IH]; intros p i H; cbn [run_from] in H.
  - exists p. split; [reflexivity|]. destruct (p_state p); try discriminate; intros C; discriminate.
  - destruct (feed p t) as [p'|e| |] eqn:F; try discriminate.
    + apply IH in H. destruct H as (p1 & F1 & NA). exists p1. split; [|exact NA]. rewrite feed_all_cons, F. exact F1.
    + destruct e; discriminate.
Qed.

(* ---------------------------------------------------------------- completing any reachable state *)

Definition tI : token := {| tk_type := TIdent; tk_loc := nil_loc; tk_val := Some [97] |}.
Definition tInt0 : token := {| tk_type := TIntLit; tk_loc := nil_loc; tk_val := Some [48] |}.
Definition tP (k : toktype) : token := {| tk_type := k; tk_loc := nil_loc; tk_val := None |}.
Definition tSemi := tP TSemiColon.
Definition tRP := tP TRParen.
Definition tEq := tP TEquals.
Definition tEOF := eof_token.

(** [p] can be completed to an accepted program *)
Definition completable (p : parser) : Prop :=
  exists rest ss, toks_ok rest /\ forall i, run_from p rest i = VAccept ss.

Lemma completable_step : forall p t p1,
  tok_ok t = true -> feed p t = Ok p1 -> completable p1 -> completable p.
Proof.
  intros p t p1 Ht F (rest & ss & Hr & R). exists (t :: rest), ss. split; [constructor; assumption|].
  intros i. cbn [run_from]. rewrite F. apply R.
Qed.

Definition closer (t : token) : Prop := tk_type t = TSemiColon \/ tk_type t = TRParen.

(** a context can always be closed: ')' for every open call, then ';' and EOF *)
Lemma ctx_complete : forall k, ctx_ok k ->
  exists rest, toks_ok rest /\ (exists t r, rest = t :: r /\ closer t)
    /\ forall p e ss i, pinv p -> behaves rest p (Qexpr k ss e) -> exists ss', run_from p rest i = VAccept ss'.
Proof.
  induction 1 as [|l x|k o args n Hk IH|k a Hk IH].
  - exists [tSemi; tEOF]. split; [repeat constructor|]. split; [exists tSemi, [tEOF]; split; [reflexivity | left; reflexivity]|].
    intros p e ss i Hp B.
    assert (F : feed p tSemi = Ok (mk StReduceExprStmt [NExpr e] ss)).
    { eapply behaves_feed; [exact Hp | reflexivity | exact B |].
      assert (K : tk_type tSemi = TSemiColon) by reflexivity. fr_goto. fr_discard. }
    eexists. cbn [run_from]. rewrite F. reflexivity.
  - exists [tSemi; tEOF]. split; [repeat constructor|]. split; [exists tSemi, [tEOF]; split; [reflexivity | left; reflexivity]|].
    intros p e ss i Hp B.
    assert (F : feed p tSemi = Ok (mk StReduceAssign [NExpr e; NAssignTo x; NLoc l] ss)).
    { eapply behaves_feed; [exact Hp | reflexivity | exact B |].
      assert (K : tk_type tSemi = TSemiColon) by reflexivity. fr_goto. fr_discard. }
    eexists. cbn [run_from]. rewrite F. reflexivity.
  - destruct IH as (rest' & Hr' & (t' & r' & -> & Ct') & IH).
    exists (tRP :: t' :: r'). split; [constructor; [reflexivity | exact Hr']|].
    split; [exists tRP, (t' :: r'); split; [reflexivity | right; reflexivity]|].
    intros p e ss i Hp B.
    assert (F : feed p tRP = Ok (Qcalled o (args ++ [(n, e)]) k ss)).
    { eapply behaves_feed; [exact Hp | reflexivity | exact B |].
      assert (K : tk_type tRP = TRParen) by reflexivity. fr_goto. fr_goto. fr_shift. }
    pose proof (feed_inv p tRP Hp eq_refl) as Hp1. rewrite F in Hp1. cbn [feed_post] in Hp1.
    cbn [run_from]. rewrite F. eapply IH; [exact Hp1|].
    eapply behaves_trans; [apply calldone_behaves|].
    apply behaves_goto. intros t r E Ht. inversion E; subst t r.
    destruct Ct' as [K|K]; gr_step; gr_done.
  - destruct IH as (rest' & Hr' & Hd & IH). exists rest'. split; [exact Hr'|]. split; [exact Hd|].
    intros p e ss i Hp B. eapply IH; [exact Hp|].
    eapply behaves_trans; [exact B|]. apply behaves_goto. intros t r _ Ht. gr_step. gr_step. gr_done.
Qed.

Lemma run_from_accept_indep : forall ts p i j a, run_from p ts i = VAccept a -> run_from p ts j = VAccept a.
Proof.
  induction ts as [|t r IH]; intros p i j a; cbn [run_from].
  - destruct (p_state p); intros H; try discriminate; exact H.
  - destruct (feed p t) as [p'|e| |]; try discriminate; [apply IH | destruct e; discriminate].
Qed.

Lemma finish : forall k p ss e, ctx_ok k -> pinv p ->
  (forall t r, closer t -> behaves (t :: r) p (Qexpr k ss e)) -> completable p.
Proof.
  intros k p ss e Hk Hp B. destruct (ctx_complete k Hk) as (rest & Hr & (t & r & -> & Ct) & C).
  destruct (C p e ss 0%nat Hp (B t r Ct)) as [ss' R0].
  exists (t :: r), ss'. split; [exact Hr|]. intros i. eapply run_from_accept_indep, R0.
Qed.

(** on a closing token the state goto-reaches a finished expression *)
Ltac closes := intros t r [K|K]; apply behaves_goto; intros t' r' E Ht'; inversion E; subst t' r';
  repeat gr_step; gr_done.

Lemma completable_closed : forall p, pinv p ->
  match p_state p with
  | StRefComponent | StRefObjEnd | StReduceRefNaked | StReduceRefExpr | StReduceLiteralExpr | StIPv4
  | StReduceSockAddr | StReduceCallExpr | StSlash | StReduceExpr | StReduceBop | StReduceCall => completable p
  | _ => True
  end.
Proof.
  intros [s stk ss] Hp. pose proof Hp as Hinv. unfold pinv in Hinv. cbn [p_state p_stack] in Hinv.
  inversion Hinv; subst; cbn [p_state]; try exact I.
  all: match goal with Hk : ctx_ok ?k |- _ => eapply (finish k _ ss); [exact Hk | exact Hp | ] end.
  all: try solve [closes].
Qed.

Ltac cstep tok q tac :=
  let F := fresh "F" in let Hq := fresh "Hq" in
  lazymatch goal with
  | Hp : pinv ?p |- completable ?p =>
    assert (F : feed p tok = Ok q) by (apply feed_eq; [exact Hp | reflexivity | tac]);
    pose proof (feed_inv p tok Hp eq_refl) as Hq; rewrite F in Hq; cbn [feed_post] in Hq;
    apply (completable_step p tok q eq_refl F); clear F Hp
  end.

Ltac cclosed := match goal with Hq : pinv ?q |- completable ?q => exact (completable_closed q Hq) end.

Ltac cconcrete rest :=
  exists rest; eexists; split; [repeat constructor | intros i; vm_compute; reflexivity].

Theorem all_completable : forall p, pinv p -> completable p.
Proof.
  intros [s stk ss] Hp. pose proof Hp as Hinv. unfold pinv in Hinv. cbn [p_state p_stack] in Hinv.
  assert (KI : tk_type tI = TIdent) by reflexivity.
  assert (SI : token_string tI = Ok "a"%string) by reflexivity.
  assert (KR : tk_type tRP = TRParen) by reflexivity.
  assert (K0 : tk_type tInt0 = TIntLit) by reflexivity.
  assert (V0 : val_of_token tInt0 = Ok (VU64 0)) by reflexivity.
  assert (L0 : (0 <=? 65535) = true) by reflexivity.
  inversion Hinv; subst; try exact (completable_closed _ Hp).
  - (* Initial *) cconcrete [tEOF].
  - (* Import *) cconcrete [tI; tSemi; tEOF].
  - (* ImportEnd *) cconcrete [tSemi; tEOF].
  - (* ReduceImport *) cconcrete [tEOF].
  - (* Let *) cconcrete [tI; tEq; tI; tSemi; tEOF].
  - (* Assign *) cconcrete [tEq; tI; tSemi; tEOF].
  - (* ExprRvalue *) cconcrete [tI; tSemi; tEOF].
  - (* ExprStmt *) cconcrete [tI; tSemi; tEOF].
  - (* ExprStmtEnd *) cconcrete [tSemi; tEOF].
  - (* AssignStmtEnd *) cconcrete [tSemi; tEOF].
  - (* ReduceAssign *) cconcrete [tEOF].
  - (* ReduceExprStmt *) cconcrete [tEOF].
  - (* ReduceAssignStmt *) cconcrete [tEOF].
  - (* ReduceStmt *) cconcrete [tEOF].
  - (* Accept *) exists [], ss. split; [constructor | intros i; reflexivity].
  - (* Expr *)
    cstep tI (Qmod nil_loc [] "a"%string stk ss) fr_shift. cclosed.
  - (* ReduceRefCall *)
    cstep tRP (Qcalled {| or_loc := pb_loc pb; or_modules := pb_module pb; or_components := pb_object pb ++ [c] |} [] k ss)
      ltac:(repeat fr_goto; fr_discard). cclosed.
  - (* ReduceModule *)
    cstep tI (mk StRefComponent (NComponent "a"%string
                :: NPath {| pb_loc := pb_loc pb; pb_module := pb_module pb ++ [c]; pb_object := pb_object pb |} :: k) ss)
      ltac:(fr_goto; fr_shift). cclosed.
  - (* ReduceObject *)
    cstep tI (mk StRefObjEnd (NComponent "a"%string
                :: NPath {| pb_loc := pb_loc pb; pb_module := pb_module pb; pb_object := pb_object pb ++ [c] |} :: k) ss)
      ltac:(fr_goto; fr_shift). cclosed.
  - (* RefModule *)
    cstep tI (mk StRefComponent (NComponent "a"%string :: NPath pb :: k) ss) fr_shift. cclosed.
  - (* RefObject *)
    cstep tI (mk StRefObjEnd (NComponent "a"%string :: NPath pb :: k) ss) fr_shift. cclosed.
  - (* IPv4Colon *)
    cstep tInt0 (mk StReduceSockAddr (NLiteral (VU64 0) :: NLoc nil_loc :: NLiteral (VIp4 a) :: NLoc l :: k) ss) fr_shift.
    cclosed.
  - (* ExprArg *)
    cstep tRP (Qcalled o args k ss) ltac:(fr_goto; fr_discard). cclosed.
  - (* ArgNext *)
    cstep tRP (Qcalled o args k ss) fr_shift. cclosed.
  - (* ArgName *)
    cstep tRP (Qcalled o (args ++ [(None, ERef nil_loc [] [n])]) k ss) ltac:(repeat fr_goto; fr_shift). cclosed.
  - (* ArgVal *)
    cstep tI (Qmod nil_loc [] "a"%string (karg n args o k) ss) fr_shift.
    cstep tRP (Qcalled o (args ++ [(n, ERef nil_loc [] ["a"%string])]) k ss)
      ltac:(repeat fr_goto; fr_shift). cclosed.
  - (* ReduceArg *)
    cstep tRP (Qcalled o (args ++ [(n, e)]) k ss) ltac:(fr_goto; fr_shift). cclosed.
Qed.

(* ---------------------------------------------------------------- viable prefixes *)

Lemma reachable_viable : forall pre p1,
  toks_ok pre -> feed_all parser_init pre = Ok p1 -> viable_prefix pre.
Proof.
  intros pre p1 Hpre F. pose proof (feed_all_pinv _ _ _ pinv_init Hpre F) as Hp1.
  destruct (all_completable p1 Hp1) as (rest & ss & Hr & R).
  assert (A : run_tokens (pre ++ rest) = VAccept ss).
  { unfold run_tokens. rewrite (run_from_app _ _ _ _ 0%nat F). apply R. }
  rewrite automaton_eq_refparser in A by (apply Forall_app; split; assumption).
  exists rest, (map erase_stmt ss). apply rd_sound, A.
Qed.

(** a continuation made of well-formed tokens (what a lexer can produce) that ends in a sentence *)
Definition continuable (ts : list token) : Prop :=
  exists rest ss, Forall (fun t => tok_ok t = true) rest /\ sentence (ts ++ rest) ss.

Lemma continuable_viable : forall ts, continuable ts -> viable_prefix ts.
Proof. intros ts (rest & ss & _ & S). exists rest, ss. exact S. Qed.

Lemma firstn_app_exact : forall (A : Type) (a b : list A), firstn (length a) (a ++ b) = a.
Proof. intros. rewrite firstn_app, Nat.sub_diag, firstn_all. cbn. apply app_nil_r. Qed.

Theorem reject_index : forall ts i, toks_ok ts -> rd_parse ts = VReject i ->
  (i < length ts)%nat /\ viable_prefix (firstn i ts) /\ ~ continuable (firstn (S i) ts).
Proof.
  intros ts i Hts H. rewrite <- automaton_eq_refparser in H by exact Hts. unfold run_tokens in H.
  apply run_from_reject in H. destruct H as (pre & t & post & p1 & -> & -> & F1 & F2). cbn [plus].
  destruct (toks_ok_app _ _ Hts) as [Hpre Hpost]. destruct (tok_inv _ _ Hpost) as [Ht _].
  split; [rewrite app_length; cbn [length]; lia|]. split.
  - rewrite firstn_app_exact. eapply reachable_viable; eauto.
  - assert (E : firstn (S (length pre)) (pre ++ t :: post) = pre ++ [t]).
    { replace (S (length pre)) with (length (pre ++ [t])) by (rewrite app_length; cbn; lia).
      replace (pre ++ t :: post) with ((pre ++ [t]) ++ post) by (rewrite <- app_assoc; reflexivity).
      apply firstn_app_exact. }
    rewrite E. intros (rest & ss & Hrest & S).
    apply rd_complete in S. destruct S as (ss0 & S & _).
    rewrite <- automaton_eq_refparser in S.
    2:{ apply Forall_app; split; [apply Forall_app; split; [exact Hpre | constructor; [exact Ht | constructor]] | exact Hrest]. }
    unfold run_tokens in S. rewrite <- app_assoc in S. cbn [app] in S.
    rewrite (run_from_reject_stable pre t rest _ p1 0%nat F1 F2) in S. discriminate.
Qed.

Theorem more_viable : forall ts, toks_ok ts -> rd_parse ts = VMore ->
  viable_prefix ts /\ ~ exists ss, sentence ts ss.
Proof.
  intros ts Hts H. split.
  - rewrite <- automaton_eq_refparser in H by exact Hts. unfold run_tokens in H.
    apply run_from_more in H. destruct H as (p1 & F & _). eapply reachable_viable; eauto.
  - intros (ss & S). apply rd_complete in S. destruct S as (ss0 & S & _). congruence.
Qed.

Lemma continuable_prefix : forall a b, toks_ok b -> continuable (a ++ b) -> continuable a.
Proof.
  intros a b Hb (rest & ss & Hr & S). exists (b ++ rest), ss. split; [apply Forall_app; split; assumption|].
  rewrite app_assoc. exact S.
Qed.

Lemma firstn_split_ok : forall n ts, toks_ok ts -> exists b, toks_ok b /\ ts = firstn n ts ++ b.
Proof.
  intros n ts H. exists (skipn n ts). split; [|symmetry; apply firstn_skipn].
  rewrite <- (firstn_skipn n ts) in H. apply Forall_app in H. apply H.
Qed.

Lemma firstn_firstn_le : forall (A : Type) (l : list A) i j, (i <= j)%nat -> firstn i (firstn j l) = firstn i l.
Proof. intros. rewrite firstn_firstn. f_equal. lia. Qed.

Lemma toks_ok_firstn : forall n ts, toks_ok ts -> toks_ok (firstn n ts).
Proof. intros n ts H. rewrite <- (firstn_skipn n ts) in H. apply Forall_app in H. apply H. Qed.

Lemma continuable_firstn_le : forall ts a b, toks_ok ts -> (a <= b)%nat ->
  continuable (firstn b ts) -> continuable (firstn a ts).
Proof.
  intros ts a b Hts Hab C. rewrite <- (firstn_firstn_le _ ts a b Hab).
  destruct (firstn_split_ok a (firstn b ts) (toks_ok_firstn b ts Hts)) as (rest & Hr & E).
  rewrite E in C. eapply continuable_prefix; eauto.
Qed.

Lemma completion_exists : forall pre p1, toks_ok pre -> feed_all parser_init pre = Ok p1 -> continuable pre.
Proof.
  intros pre p1 Hpre F. pose proof (feed_all_pinv _ _ _ pinv_init Hpre F) as Hp1.
  destruct (all_completable p1 Hp1) as (rest & ss & Hr & R).
  assert (A : run_tokens (pre ++ rest) = VAccept ss).
  { unfold run_tokens. rewrite (run_from_app _ _ _ _ 0%nat F). apply R. }
  rewrite automaton_eq_refparser in A by (apply Forall_app; split; assumption).
  exists rest, (map erase_stmt ss). split; [exact Hr | apply rd_sound, A].
Qed.

Lemma reject_index_fwd : forall ts i, toks_ok ts -> rd_parse ts = VReject i ->
  (i < length ts)%nat /\ continuable (firstn i ts) /\ ~ continuable (firstn (S i) ts).
Proof.
  intros ts i Hts H. destruct (reject_index ts i Hts H) as (L & _ & NC).
  split; [exact L|]. split; [|exact NC].
  rewrite <- automaton_eq_refparser in H by exact Hts. unfold run_tokens in H.
  apply run_from_reject in H. destruct H as (pre & t & post & p1 & -> & -> & F1 & F2). cbn [plus].
  rewrite firstn_app_exact. destruct (toks_ok_app _ _ Hts) as [Hpre _]. eapply completion_exists; eauto.
Qed.

(** the characterisation: the reference parser rejects at index i exactly when the first i tokens
    can be continued to a sentence and the first i+1 cannot *)
Theorem reject_index_iff : forall ts i, toks_ok ts ->
  (rd_parse ts = VReject i <->
   (i < length ts)%nat /\ continuable (firstn i ts) /\ ~ continuable (firstn (S i) ts)).
Proof.
  intros ts i Hts. split; [apply reject_index_fwd, Hts|].
  intros (L & C & NC).
  assert (Whole : continuable ts -> False).
  { intros Cts. apply NC. apply (continuable_firstn_le ts (S i) (length ts) Hts); [lia|].
    rewrite firstn_all. exact Cts. }
  destruct (rd_parse ts) as [ss|j| |j] eqn:R.
  - exfalso. apply Whole. exists [], (map erase_stmt ss). split; [constructor|].
    rewrite app_nil_r. apply rd_sound, R.
  - destruct (reject_index_fwd ts j Hts R) as (Lj & Cj & NCj).
    destruct (lt_eq_lt_dec i j) as [[Lt|Eq]|Gt].
    + exfalso. apply NC. apply (continuable_firstn_le ts (S i) j Hts); [lia | exact Cj].
    + subst j. reflexivity.
    + exfalso. apply NCj. apply (continuable_firstn_le ts (S j) i Hts); [lia | exact C].
  - exfalso. apply Whole.
    rewrite <- automaton_eq_refparser in R by exact Hts. unfold run_tokens in R.
    apply run_from_more in R. destruct R as (p1 & F & _). eapply completion_exists; eauto.
  - exfalso. rewrite <- automaton_eq_refparser in R by exact Hts.
    pose proof (run_from_no_panic ts parser_init 0%nat pinv_init Hts) as NP. unfold run_tokens in R. rewrite R in NP. exact NP.
Qed.
