(** C09: the recursive-descent reference parser is sound for the grammar relation: whatever it
    accepts is derivable, with the tree it returns (locations erased). *)
From RS Require Import Base.Bytes Base.Outcome Lex.Tokens Lex.Literals Interp.Val Interp.Ast.
From RS Require Import Parse.Verdict Parse.Grammar Parse.RefParser.
From Coq Require Import Lia.
Open Scope N_scope.

Lemma toktype_eqb_eq : forall a b, toktype_eqb a b = true <-> a = b.
Proof. intros a b; split; [destruct a, b; cbn; intros H; try reflexivity; discriminate | intros ->; destruct b; reflexivity]. Qed.

Lemma kind_is_true : forall k t, kind_is k t = true <-> is k t.
Proof. intros. unfold kind_is, is. apply toktype_eqb_eq. Qed.

Lemma kind_is_false : forall k t, kind_is k t = false <-> ~ is k t.
Proof.
  intros k t. pose proof (kind_is_true k t) as H. destruct (kind_is k t); split; intros; try discriminate.
  - exfalso. apply H0, H. reflexivity.
  - intros C. apply H in C. discriminate.
  - reflexivity.
Qed.

Lemma list_ind2 : forall (A : Type) (P : list A -> Prop),
  P [] -> (forall a, P [a]) -> (forall a b l, P l -> P (a :: b :: l)) -> forall l, P l.
Proof.
  intros A P H0 H1 H2. fix IH 1. intros [|a [|b l]]; [exact H0 | apply H1 | apply H2, IH].
Qed.

(* ---------------------------------------------------------------- ref *)

Lemma p_modules_sound : forall ts mods cur ms c rest,
  p_modules mods cur ts = ROk (ms, c) rest ->
  exists tm names, ts = tm ++ rest /\ g_chain TDoubleColon tm names
                   /\ ms ++ [c] = (mods ++ [cur]) ++ names.
Proof.
  induction ts as [|t1|t1 t2 r IH] using list_ind2; intros mods cur ms c rest H; cbn [p_modules] in H.
  - inversion H; subst. exists [], []. repeat split; [constructor | rewrite app_nil_r; reflexivity].
  - destruct (kind_is TDoubleColon t1); [discriminate|]. inversion H; subst.
    exists [], []. repeat split; [constructor | rewrite app_nil_r; reflexivity].
  - destruct (kind_is TDoubleColon t1) eqn:K1.
    + destruct (kind_is TIdent t2) eqn:K2; [|discriminate].
      apply IH in H. destruct H as (tm & names & E & G & P). subst r.
      exists (t1 :: t2 :: tm), (ident_name t2 :: names). repeat split.
      * constructor; [apply kind_is_true, K1 | apply kind_is_true, K2 | exact G].
      * rewrite P, <- !app_assoc. reflexivity.
    + inversion H; subst. exists [], []. repeat split; [constructor | rewrite app_nil_r; reflexivity].
Qed.

Lemma p_members_sound : forall ts comps cs rest,
  p_members comps ts = ROk cs rest ->
  exists td names, ts = td ++ rest /\ g_chain TDot td names /\ cs = comps ++ names.
Proof.
  induction ts as [|t1|t1 t2 r IH] using list_ind2; intros comps cs rest H; cbn [p_members] in H.
  - inversion H; subst. exists [], []. repeat split; [constructor | rewrite app_nil_r; reflexivity].
  - destruct (kind_is TDot t1); [discriminate|]. inversion H; subst.
    exists [], []. repeat split; [constructor | rewrite app_nil_r; reflexivity].
  - destruct (kind_is TDot t1) eqn:K1.
    + destruct (kind_is TIdent t2) eqn:K2; [|discriminate].
      apply IH in H. destruct H as (td & names & E & G & P). subst r.
      exists (t1 :: t2 :: td), (ident_name t2 :: names). repeat split.
      * constructor; [apply kind_is_true, K1 | apply kind_is_true, K2 | exact G].
      * rewrite P, <- app_assoc. reflexivity.
    + inversion H; subst. exists [], []. repeat split; [constructor | rewrite app_nil_r; reflexivity].
Qed.

Lemma removelast_snoc : forall (A : Type) (l : list A) (x : A), removelast (l ++ [x]) = l.
Proof. intros. apply removelast_last. Qed.

Lemma last_snoc : forall (A : Type) (l : list A) (x d : A), last (l ++ [x]) d = x.
Proof. intros. apply last_last. Qed.

(** an argument parser is sound: it consumes an argument list and the closing parenthesis *)
Definition args_sound (pa : list token -> res (list arg)) : Prop :=
  forall ts args rest, pa ts = ROk args rest ->
  exists ta rp, ts = ta ++ rp :: rest /\ is TRParen rp /\ g_args ta (map erase_arg args).

Definition expr_sound (pe : list token -> res expr) : Prop :=
  forall ts e rest, pe ts = ROk e rest -> exists used, ts = used ++ rest /\ g_expr used (erase_expr e).

Lemma erase_call : forall l ms cs args,
  erase_expr (ECall l ms cs args) = ECall L0 ms cs (map erase_arg args).
Proof. reflexivity. Qed.

Lemma p_ref_atom_sound : forall pa l first ts e rest i,
  args_sound pa -> is TIdent i -> ident_name i = first ->
  p_ref_atom pa l first ts = ROk e rest ->
  exists used, ts = used ++ rest /\ g_atom (i :: used) (erase_expr e).
Proof.
  intros pa l first ts e rest i Hpa Hi Hn H. unfold p_ref_atom in H.
  destruct (p_modules [] first ts) as [[ms c] r1| | |] eqn:M; cbn [rbind] in H; try discriminate.
  apply p_modules_sound in M. destruct M as (tm & mnames & E1 & G1 & P1). subst ts.
  cbn [snd fst] in H.
  destruct (p_members [c] r1) as [cs r2| | |] eqn:D; cbn [rbind] in H; try discriminate.
  apply p_members_sound in D. destruct D as (td & dnames & E2 & G2 & P2). subst r1 cs.
  cbn [app] in P1.
  assert (R : g_ref (i :: tm ++ td) ms (c :: dnames)).
  { pose proof (g_ref_intro i tm mnames td dnames Hi G1 G2) as R. cbn zeta in R.
    rewrite Hn, <- P1, removelast_snoc, last_snoc in R. exact R. }
  destruct r2 as [|t r3].
  - inversion H; subst. exists (tm ++ td). split; [rewrite !app_nil_r; reflexivity|].
    cbn [erase_expr]. apply g_atom_ref, R.
  - destruct (kind_is TLParen t) eqn:K.
    + destruct (pa r3) as [args r4| | |] eqn:A; cbn [rbind] in H; try discriminate.
      inversion H; subst. apply Hpa in A. destruct A as (ta & rp & E3 & Hrp & GA). subst r3.
      exists ((tm ++ td) ++ t :: ta ++ [rp]). split.
      * rewrite <- !app_assoc. cbn [app]. rewrite <- app_assoc. reflexivity.
      * rewrite erase_call. rewrite app_comm_cons.
        apply g_atom_call; [exact R | apply kind_is_true, K | exact GA | exact Hrp].
    + inversion H; subst. exists (tm ++ td). split; [rewrite <- app_assoc; reflexivity|].
      cbn [erase_expr]. apply g_atom_ref, R.
Qed.

Lemma p_atom_sound : forall pa ts e rest,
  args_sound pa -> p_atom pa ts = ROk e rest ->
  exists used, ts = used ++ rest /\ g_atom used (erase_expr e).
Proof.
  intros pa ts e rest Hpa H. unfold p_atom in H. destruct ts as [|t r]; [discriminate|].
  destruct (tk_type t) eqn:K; try discriminate.
  - (* bool *) destruct (val_of_token t) eqn:V; try discriminate. inversion H; subst.
    exists [t]. split; [reflexivity|]. cbn [erase_expr]. apply g_atom_lit; [rewrite K; reflexivity | exact V].
  - (* ident *)
    destruct (p_ref_atom_sound pa (tk_loc t) (ident_name t) r e rest t Hpa K eq_refl H) as (used & E & G).
    subst r. exists (t :: used). split; [reflexivity | exact G].
  - (* ipv4 *)
    destruct (val_of_token t) as [v| | |] eqn:V; try discriminate. destruct v; try discriminate.
    destruct r as [|c r1].
    + inversion H; subst. exists [t]. split; [reflexivity|]. cbn [erase_expr]. apply g_atom_ip; assumption.
    + destruct (kind_is TColon c) eqn:KC.
      * destruct r1 as [|p r2]; [discriminate|]. destruct (kind_is TIntLit p) eqn:KP; [|discriminate].
        destruct (val_of_token p) as [pv| | |] eqn:VP; try discriminate. destruct pv; try discriminate.
        destruct (n <=? 65535) eqn:LE; [|discriminate]. inversion H; subst.
        exists [t; c; p]. split; [reflexivity|]. cbn [erase_expr].
        apply g_atom_sock; try assumption; [apply kind_is_true, KC | apply kind_is_true, KP | apply N.leb_le, LE].
      * inversion H; subst. exists [t]. split; [reflexivity|]. cbn [erase_expr]. apply g_atom_ip; assumption.
  - (* string *) destruct (val_of_token t) eqn:V; try discriminate. inversion H; subst.
    exists [t]. split; [reflexivity|]. cbn [erase_expr]. apply g_atom_lit; [rewrite K; reflexivity | exact V].
  - (* hex *) destruct (val_of_token t) eqn:V; try discriminate. inversion H; subst.
    exists [t]. split; [reflexivity|]. cbn [erase_expr]. apply g_atom_lit; [rewrite K; reflexivity | exact V].
  - (* int *) destruct (val_of_token t) eqn:V; try discriminate. inversion H; subst.
    exists [t]. split; [reflexivity|]. cbn [erase_expr]. apply g_atom_lit; [rewrite K; reflexivity | exact V].
Qed.

Lemma p_slash_sound : forall pe a ua ts e rest,
  expr_sound pe -> g_atom ua (erase_expr a) -> p_slash pe a ts = ROk e rest ->
  exists used, ts = used ++ rest /\ g_expr (ua ++ used) (erase_expr e).
Proof.
  intros pe a ua ts e rest Hpe Ga H. unfold p_slash in H. destruct ts as [|t r].
  - inversion H; subst. exists []. split; [reflexivity|]. rewrite app_nil_r. apply g_expr_atom, Ga.
  - destruct (kind_is TSlash t) eqn:K.
    + destruct (pe r) as [b r'| | |] eqn:B; cbn [rbind] in H; try discriminate. inversion H; subst.
      apply Hpe in B. destruct B as (ub & E & Gb). subst r.
      exists (t :: ub). split; [reflexivity|]. cbn [erase_expr].
      apply g_expr_slash; [exact Ga | apply kind_is_true, K | exact Gb].
    + inversion H; subst. exists []. split; [reflexivity|]. rewrite app_nil_r. apply g_expr_atom, Ga.
Qed.

Lemma atom_then_slash_sound : forall pe ra ts e rest,
  (forall a r1, ra = ROk a r1 -> exists ua, ts = ua ++ r1 /\ g_atom ua (erase_expr a)) ->
  expr_sound pe ->
  rbind ra (p_slash pe) = ROk e rest ->
  exists used, ts = used ++ rest /\ g_expr used (erase_expr e).
Proof.
  intros pe ra ts e rest Hra Hpe H. destruct ra as [a r1| | |]; cbn [rbind] in H; try discriminate.
  destruct (Hra a r1 eq_refl) as (ua & E & Ga). subst ts.
  destruct (p_slash_sound pe a ua r1 e rest Hpe Ga H) as (used & E & G). subst r1.
  exists (ua ++ used). split; [rewrite app_assoc; reflexivity | exact G].
Qed.

(** args with an accumulator *)
Definition args_sound_acc (pa : list arg -> list token -> res (list arg)) : Prop :=
  forall acc ts args rest, pa acc ts = ROk args rest ->
  exists ta rp args', ts = ta ++ rp :: rest /\ is TRParen rp /\ args = acc ++ args'
                      /\ g_args ta (map erase_arg args').

Lemma args_sound_of_acc : forall pa, args_sound_acc pa -> args_sound (pa []).
Proof.
  intros pa H ts args rest E. apply H in E. destruct E as (ta & rp & args' & E1 & E2 & E3 & E4).
  cbn [app] in E3. subst args. eauto.
Qed.

Lemma p_expr_args_sound : forall n, expr_sound (p_expr n) /\ args_sound_acc (p_args n).
Proof.
  induction n as [|n [IHe IHa]]; [split; [intros ts e rest H; discriminate H | intros acc ts args rest H; discriminate H]|].
  assert (Hpa : args_sound (p_args n [])) by (apply args_sound_of_acc, IHa).
  split.
  - intros ts e rest H. cbn [p_expr] in H.
    eapply atom_then_slash_sound; [ | exact IHe | exact H].
    intros a r1 Ha. eapply p_atom_sound; eauto.
  - intros acc ts args rest H. cbn [p_args] in H. destruct ts as [|t r]; [discriminate|].
    destruct (kind_is TRParen t) eqn:KR.
    { inversion H; subst. exists [], t, []. repeat split; [apply kind_is_true, KR | rewrite app_nil_r; reflexivity | constructor]. }
    (* what follows an argument *)
    assert (After : forall name (re : res expr) tsa,
      (forall e r1, re = ROk e r1 -> exists ua, tsa = ua ++ r1 /\ g_arg ua (name, erase_expr e)) ->
      rbind re (fun e r1 =>
        match r1 with
        | [] => RMore
        | t1 :: r2 =>
          if kind_is TComma t1 then p_args n (acc ++ [(name, e)]) r2
          else if kind_is TRParen t1 then ROk (acc ++ [(name, e)]) r2 else RErr r1
        end) = ROk args rest ->
      exists ta rp args', tsa = ta ++ rp :: rest /\ is TRParen rp /\ args = acc ++ args'
                          /\ g_args ta (map erase_arg args')).
    { intros name re tsa Hre HA. destruct re as [e r1| | |]; cbn [rbind] in HA; try discriminate.
      destruct (Hre e r1 eq_refl) as (ua & E & Ga). subst tsa.
      destruct r1 as [|t1 r2]; [discriminate|].
      destruct (kind_is TComma t1) eqn:KC.
      - apply IHa in HA. destruct HA as (ta & rp & args' & E1 & E2 & E3 & E4). subst r2 args.
        exists (ua ++ t1 :: ta), rp, ((name, e) :: args'). repeat split.
        + rewrite <- app_assoc. reflexivity.
        + exact E2.
        + rewrite <- app_assoc. reflexivity.
        + cbn [map]. apply g_args_cons; [exact Ga | apply kind_is_true, KC | exact E4].
      - destruct (kind_is TRParen t1) eqn:KP; [|discriminate]. inversion HA; subst.
        exists ua, t1, [(name, e)]. repeat split; [apply kind_is_true, KP|]. cbn [map]. apply g_args_one, Ga. }
    destruct (kind_is TIdent t) eqn:KI.
    + destruct r as [|t2 r2]; [discriminate|]. destruct (kind_is TColon t2) eqn:KC.
      * eapply After; [|exact H]. intros e r1 He. apply IHe in He. destruct He as (ue & E & Ge). subst r2.
        exists (t :: t2 :: ue). split; [reflexivity|].
        apply g_arg_named; [apply kind_is_true, KI | apply kind_is_true, KC | exact Ge].
      * eapply After; [|exact H]. intros e r1 He.
        destruct (atom_then_slash_sound (p_expr n)
                    (p_ref_atom (p_args n []) (tk_loc t2) (ident_name t) (t2 :: r2)) (t :: t2 :: r2) e r1)
          with (3 := He) as (used & E & G).
        -- intros a r0 Ha.
           destruct (p_ref_atom_sound (p_args n []) (tk_loc t2) (ident_name t) (t2 :: r2) a r0 t Hpa
                       (proj1 (kind_is_true _ _) KI) eq_refl Ha) as (u & Eu & Gu).
           exists (t :: u). split; [rewrite Eu; reflexivity | exact Gu].
        -- exact IHe.
        -- exists used. split; [exact E | apply g_arg_pos, G].
    + eapply After; [|exact H]. intros e r1 He. apply IHe in He. destruct He as (ue & E & Ge).
      exists ue. split; [exact E | apply g_arg_pos, Ge].
Qed.

Lemma g_atom_nonempty : forall ts a, g_atom ts a -> ts <> [].
Proof.
  intros ts a H. destruct H; try discriminate.
  - destruct H; discriminate.
  - destruct H; discriminate.
Qed.

Lemma g_expr_nonempty : forall ts e, g_expr ts e -> ts <> [].
Proof.
  intros ts e H. destruct H as [ts a Ha|ta a s tb b Ha].
  - eapply g_atom_nonempty, Ha.
  - apply g_atom_nonempty in Ha. destruct ta; [contradiction | discriminate].
Qed.

Lemma expect_ok : forall A k ts (f : token -> list token -> res A) x rest,
  expect k ts f = ROk x rest -> exists t r, ts = t :: r /\ is k t /\ f t r = ROk x rest.
Proof.
  intros A k ts f x rest H. unfold expect in H. destruct ts as [|t r]; [discriminate|].
  destruct (kind_is k t) eqn:K; [|discriminate]. exists t, r. repeat split; [apply kind_is_true, K | exact H].
Qed.

Lemma p_stmt_sound : forall n ts s rest,
  p_stmt n ts = ROk s rest -> exists used, ts = used ++ rest /\ g_stmt used (erase_stmt s).
Proof.
  intros n ts s rest H. unfold p_stmt in H. destruct ts as [|t r]; [discriminate|].
  destruct (tk_type t) eqn:K; try discriminate.
  - (* import *)
    apply expect_ok in H. destruct H as (i & r1 & -> & Hi & H).
    apply expect_ok in H. destruct H as (sc & r2 & -> & Hs & H). inversion H; subst.
    exists [t; i; sc]. split; [reflexivity|]. cbn [erase_stmt]. apply g_stmt_import; assumption.
  - (* let *)
    apply expect_ok in H. destruct H as (i & r1 & -> & Hi & H).
    apply expect_ok in H. destruct H as (q & r2 & -> & Hq & H).
    destruct (p_expr n r2) as [e r3| | |] eqn:E; cbn [rbind] in H; try discriminate.
    apply expect_ok in H. destruct H as (sc & r4 & -> & Hs & H). inversion H; subst.
    apply (proj1 (p_expr_args_sound n)) in E. destruct E as (ue & -> & Ge).
    exists (t :: i :: q :: ue ++ [sc]). split.
    + cbn [app]. rewrite <- app_assoc. reflexivity.
    + cbn [erase_stmt]. apply g_stmt_let; assumption.
  - (* expression statement *)
    destruct (p_expr n (t :: r)) as [e r1| | |] eqn:E; cbn [rbind] in H; try discriminate.
    apply expect_ok in H. destruct H as (sc & r2 & -> & Hs & H). inversion H; subst.
    apply (proj1 (p_expr_args_sound n)) in E. destruct E as (ue & E & Ge).
    pose proof (g_expr_nonempty _ _ Ge) as NE. destruct ue as [|t' ue']; [contradiction|].
    cbn [app] in E. inversion E; subst.
    exists (t' :: ue' ++ [sc]). split.
    + cbn [app]. rewrite <- app_assoc. reflexivity.
    + cbn [erase_stmt]. apply g_stmt_expr; assumption.
Qed.

Lemma p_program_sound : forall n acc ts ss rest,
  p_program n acc ts = ROk ss rest ->
  rest = [] /\ exists body e ss', ts = body ++ [e] /\ is TEof e /\ ss = acc ++ ss'
                                  /\ g_program body (map erase_stmt ss').
Proof.
  induction n as [|n IH]; intros acc ts ss rest H; [discriminate|]. cbn [p_program] in H.
  destruct ts as [|t r]; [discriminate|]. destruct (kind_is TEof t) eqn:K.
  - destruct r; [|discriminate]. inversion H; subst. split; [reflexivity|].
    exists [], t, []. repeat split; [apply kind_is_true, K | rewrite app_nil_r; reflexivity | constructor].
  - destruct (p_stmt (S (length (t :: r))) (t :: r)) as [s r'| | |] eqn:S; cbn [rbind] in H; try discriminate.
    apply IH in H. destruct H as (-> & body & e & ss' & E1 & E2 & E3 & E4).
    apply p_stmt_sound in S. destruct S as (us & E & Gs). split; [reflexivity|].
    exists (us ++ body), e, (s :: ss'). repeat split.
    + rewrite E, E1, app_assoc. reflexivity.
    + exact E2.
    + rewrite E3, <- app_assoc. reflexivity.
    + cbn [map]. apply g_program_cons; assumption.
Qed.

Theorem rd_sound : forall ts ss, rd_parse ts = VAccept ss -> sentence ts (map erase_stmt ss).
Proof.
  intros ts ss H. unfold rd_parse in H.
  destruct (p_program (S (length ts)) [] ts) as [ss' rest| | |] eqn:P; try discriminate.
  inversion H; subst. apply p_program_sound in P.
  destruct P as (_ & body & e & ss' & E1 & E2 & E3 & E4). cbn [app] in E3. subst ss.
  exists body, e. auto.
Qed.
