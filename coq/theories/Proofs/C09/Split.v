(** C09: the result of parsing depends only on the token sequence, not on how it is cut into lines
    (calls of get_results between feeds only move finished statements out of the parser). *)
From RS Require Import Base.Bytes Base.Outcome Lex.Tokens Lex.Literals Interp.Val Interp.Ast.
From RS Require Import Parse.Verdict Parse.Automaton.
From RS Require Import Proofs.C09.Commute.
From Coq Require Import Arith Lia.
Open Scope N_scope.

Lemma feed_loop_add : forall n pre p t, feed_loop n (add_stmts pre p) t = lift_p pre (feed_loop n p t).
Proof.
  induction n as [|n IH]; intros pre p t; cbn [feed_loop]; [reflexivity|].
  rewrite dispatch_add. destruct (dispatch p t) as [[p' a]| | |]; cbn [lift_pa obind lift_p]; try reflexivity.
  destruct a; try reflexivity. apply (IH pre (set_state p' s) t).
Qed.

Lemma feed_add : forall pre p t, feed (add_stmts pre p) t = lift_p pre (feed p t).
Proof. intros. unfold feed. apply feed_loop_add. Qed.

Definition lift_v (pre : list stmt) (v : verdict) : verdict :=
  match v with VAccept ss => VAccept (pre ++ ss) | _ => v end.

Lemma run_from_add : forall ts pre p i, run_from (add_stmts pre p) ts i = lift_v pre (run_from p ts i).
Proof.
  induction ts as [|t r IH]; intros pre p i; cbn [run_from].
  - change (p_state (add_stmts pre p)) with (p_state p). destruct (p_state p); reflexivity.
  - rewrite feed_add. destruct (feed p t) as [p'|e| |]; cbn [lift_p]; try reflexivity.
    + apply IH.
    + destruct e; reflexivity.
Qed.

Lemma add_stmts_get_results : forall p, add_stmts (fst (get_results p)) (snd (get_results p)) = p.
Proof. intros [s stk ss]. unfold add_stmts, get_results. cbn. rewrite app_nil_r. reflexivity. Qed.

Lemma lift_v_app : forall a b v, lift_v a (lift_v b v) = lift_v (a ++ b) v.
Proof. intros a b [ss| | |]; cbn; try reflexivity. rewrite app_assoc. reflexivity. Qed.

Lemma run_lines_from_flat : forall lines p acc i,
  run_lines_from p acc lines i = lift_v acc (run_from p (concat lines) i).
Proof.
  induction lines as [|l rest IH]; intros p acc i; cbn [run_lines_from concat].
  - cbn [run_from]. destruct (p_state p); reflexivity.
  - revert p i. induction l as [|t r IHl]; intros p i.
    + cbn [app]. destruct (get_results p) as [ss p'] eqn:G. rewrite IH.
      pose proof (add_stmts_get_results p) as A. rewrite G in A. cbn [fst snd] in A.
      rewrite <- A. rewrite run_from_add, lift_v_app. reflexivity.
    + cbn [app run_from]. destruct (feed p t) as [p'|e| |]; try reflexivity.
      * apply IHl.
      * destruct e; reflexivity.
Qed.

(** the verdict (accept with these statements / reject at this token / unfinished) is the same
    however the token sequence is cut into lines *)
Theorem feed_split_irrelevant : forall lines, run_lines lines = run_tokens (concat lines).
Proof. intros. unfold run_lines, run_tokens. rewrite run_lines_from_flat. destruct (run_from _ _ _); reflexivity. Qed.

Corollary feed_split_irrelevant2 : forall lines1 lines2,
  concat lines1 = concat lines2 -> run_lines lines1 = run_lines lines2.
Proof. intros a b H. rewrite !feed_split_irrelevant, H. reflexivity. Qed.

(** run_tokens is the fold of feed over the token list *)
Lemma feed_all_stuck : forall ts (r : outcome parser), is_ok r = false ->
  fold_left (fun acc t => do p <- acc; feed p t) ts r = r.
Proof.
  induction ts as [|t ts IH]; intros r H; cbn [fold_left]; [reflexivity|].
  destruct r; try discriminate; cbn [obind]; apply IH; reflexivity.
Qed.

Lemma feed_all_cons : forall p t ts, feed_all p (t :: ts) = do p' <- feed p t; feed_all p' ts.
Proof.
  intros. unfold feed_all. cbn [fold_left obind].
  destruct (feed p t); cbn [obind]; try reflexivity; apply feed_all_stuck; reflexivity.
Qed.

Definition verdict_of_fold (r : outcome parser) (v : verdict) : Prop :=
  match v with
  | VAccept ss => exists p', r = Ok p' /\ p_state p' = StAccept /\ p_stmts p' = ss
  | VMore => exists p', r = Ok p' /\ p_state p' <> StAccept
  | VReject _ => r = Err EParse
  | VPanic _ => is_ok r = false /\ r <> Err EParse
  end.

Theorem run_from_is_fold : forall ts p i, verdict_of_fold (feed_all p ts) (run_from p ts i).
Proof.
  induction ts as [|t r IH]; intros p i; cbn [run_from].
  - unfold feed_all. cbn [fold_left].
    destruct (p_state p) eqn:E; cbn [verdict_of_fold];
      try (exists p; split; [reflexivity | rewrite E; discriminate]).
    exists p. auto.
  - rewrite feed_all_cons. destruct (feed p t) as [p'|e|s|] eqn:F; cbn [obind].
    + apply IH.
    + destruct e; cbn [verdict_of_fold]; try reflexivity; split; try reflexivity; discriminate.
    + split; [reflexivity | discriminate].
    + split; [reflexivity | discriminate].
Qed.
