(** C09/C08: the stack-shape invariant of the automaton (DESIGN Appendix A) and its consequences:
    no pop ever meets an empty stack or a node of the wrong kind, and the Goto chain of one
    [feed] is shorter than the fuel [2*|stack|+8]. *)
From RS Require Import Base.Bytes Base.Outcome Lex.Tokens Lex.Literals Interp.Val Interp.Ast.
From RS Require Import Parse.Verdict Parse.Automaton.
From Coq Require Import Lia.
Open Scope N_scope.

(** the stack of an expression context, top first (stack_of K) *)
Inductive ctx_ok : list node -> Prop :=
| CK_stmt : ctx_ok [NState StExprStmtEnd]
| CK_let : forall l x, ctx_ok [NState StAssignStmtEnd; NAssignTo x; NLoc l]
| CK_arg : forall k o args n,
    ctx_ok k -> ctx_ok (NState StReduceArg :: NArgName n :: NArgList args :: NObject o :: k)
| CK_bop : forall k a, ctx_ok k -> ctx_ok (NState StReduceBop :: NSlash :: NExpr a :: k).

(** one typing judgement per state *)
Inductive inv : state -> list node -> Prop :=
| I_Initial : inv StInitial []
| I_Import : inv StImport []
| I_ImportEnd : forall l m, inv StImportEnd [NModule m; NLoc l]
| I_ReduceImport : forall l m, inv StReduceImport [NModule m; NLoc l]
| I_Let : inv StLet []
| I_Assign : forall l x, inv StAssign [NAssignTo x; NLoc l]
| I_ExprRvalue : forall l x, inv StExprRvalue [NAssignTo x; NLoc l]
| I_ExprStmt : inv StExprStmt []
| I_ExprStmtEnd : forall e, inv StExprStmtEnd [NExpr e]
| I_AssignStmtEnd : forall e l x, inv StAssignStmtEnd [NExpr e; NAssignTo x; NLoc l]
| I_ReduceAssign : forall e l x, inv StReduceAssign [NExpr e; NAssignTo x; NLoc l]
| I_ReduceExprStmt : forall e, inv StReduceExprStmt [NExpr e]
| I_ReduceAssignStmt : forall a, inv StReduceAssignStmt [NAssign a]
| I_ReduceStmt : forall s, inv StReduceStmt [NStmt s]
| I_Accept : inv StAccept []
| I_Expr : forall k, ctx_ok k -> inv StExpr k
| I_RefComponent : forall k pb c, ctx_ok k -> inv StRefComponent (NComponent c :: NPath pb :: k)
| I_RefObjEnd : forall k pb c, ctx_ok k -> inv StRefObjEnd (NComponent c :: NPath pb :: k)
| I_ReduceRefNaked : forall k pb c, ctx_ok k -> inv StReduceRefNaked (NComponent c :: NPath pb :: k)
| I_ReduceRefCall : forall k pb c, ctx_ok k -> inv StReduceRefCall (NComponent c :: NPath pb :: k)
| I_ReduceModule : forall k pb c, ctx_ok k -> inv StReduceModule (NComponent c :: NPath pb :: k)
| I_ReduceObject : forall k pb c, ctx_ok k -> inv StReduceObject (NComponent c :: NPath pb :: k)
| I_RefModule : forall k pb, ctx_ok k -> inv StRefModule (NPath pb :: k)
| I_RefObject : forall k pb, ctx_ok k -> inv StRefObject (NPath pb :: k)
| I_ReduceRefExpr : forall k o, ctx_ok k -> inv StReduceRefExpr (NObject o :: k)
| I_ReduceLiteralExpr : forall k l v, ctx_ok k -> inv StReduceLiteralExpr (NLiteral v :: NLoc l :: k)
| I_IPv4 : forall k l a, ctx_ok k -> inv StIPv4 (NLiteral (VIp4 a) :: NLoc l :: k)
| I_IPv4Colon : forall k l a, ctx_ok k -> inv StIPv4Colon (NLiteral (VIp4 a) :: NLoc l :: k)
| I_ReduceSockAddr : forall k l a l' p,
    ctx_ok k -> inv StReduceSockAddr (NLiteral (VU64 p) :: NLoc l' :: NLiteral (VIp4 a) :: NLoc l :: k)
| I_ReduceCallExpr : forall k c, ctx_ok k -> inv StReduceCallExpr (NCall c :: k)
| I_Slash : forall k e, ctx_ok k -> inv StSlash (NExpr e :: k)
| I_ReduceExpr : forall k e, ctx_ok k -> inv StReduceExpr (NExpr e :: k)
| I_ReduceBop : forall k a b, ctx_ok k -> inv StReduceBop (NExpr b :: NSlash :: NExpr a :: k)
| I_ExprArg : forall k o args, ctx_ok k -> inv StExprArg (NArgList args :: NObject o :: k)
| I_ArgNext : forall k o args, ctx_ok k -> inv StArgNext (NArgList args :: NObject o :: k)
| I_ArgName : forall k o args n,
    ctx_ok k -> inv StArgName (NArgName (Some n) :: NArgList args :: NObject o :: k)
| I_ArgVal : forall k o args n, ctx_ok k -> inv StArgVal (NArgName n :: NArgList args :: NObject o :: k)
| I_ReduceCall : forall k o args s, ctx_ok k -> inv StReduceCall (NState s :: NArgList args :: NObject o :: k)
| I_ReduceArg : forall k o args n e,
    ctx_ok k -> inv StReduceArg (NExpr e :: NArgName n :: NArgList args :: NObject o :: k).

Definition pinv (p : parser) : Prop := inv (p_state p) (p_stack p).

(** an upper bound on the number of dispatches one token can still cause *)
Definition base (s : state) : nat :=
  match s with
  | StArgName => 8
  | StRefComponent | StRefObjEnd => 7
  | StReduceRefNaked | StIPv4 | StReduceSockAddr | StReduceCall | StReduceAssign => 6
  | StReduceLiteralExpr | StReduceRefExpr | StReduceCallExpr
  | StReduceExprStmt | StReduceAssignStmt | StReduceImport => 5
  | StSlash | StReduceBop | StReduceStmt => 4
  | StReduceExpr | StInitial | StReduceRefCall => 3
  | StReduceArg | StExprStmt | StExprRvalue | StReduceModule | StReduceObject | StExprArg => 2
  | _ => 1
  end%nat.

Fixpoint count_bop (stk : list node) : nat :=
  match stk with
  | [] => 0
  | NState StReduceBop :: r => S (count_bop r)
  | _ :: r => count_bop r
  end%nat.

Definition measure (s : state) (stk : list node) : nat := (base s + 2 * count_bop stk)%nat.

Lemma count_bop_le : forall stk, (count_bop stk <= length stk)%nat.
Proof.
  induction stk as [|n r IH]; cbn [count_bop length]; [lia|].
  destruct n as [s| | | | | | | | | | | | | |]; try lia. destruct s; lia.
Qed.

Lemma measure_le_fuel : forall p, (measure (p_state p) (p_stack p) <= feed_fuel p)%nat.
Proof.
  intros p. unfold measure, feed_fuel. pose proof (count_bop_le (p_stack p)) as H.
  assert (base (p_state p) <= 8)%nat by (destruct (p_state p); cbn; lia). lia.
Qed.

(* ---------------------------------------------------------------- tokens *)

Lemma token_string_ok : forall t, tok_ok t = true -> tk_type t = TIdent ->
  exists s, token_string t = Ok s.
Proof.
  intros t H E. unfold tok_ok in H. rewrite E in H. unfold token_string.
  destruct (tk_val t); [eauto | discriminate].
Qed.

Definition is_literal_kind (k : toktype) : bool :=
  match k with TStringLit | TBoolLit | THexLit | TIntLit | TIPv4Lit => true | _ => false end.

(** the value a literal token can have, by kind *)
Definition val_of_kind (k : toktype) (v : val) : Prop :=
  match k with
  | TStringLit => exists b, v = VStr b
  | TBoolLit => exists b, v = VBool b
  | THexLit | TIntLit => exists n, v = VU64 n
  | TIPv4Lit => exists a, v = VIp4 a
  | _ => False
  end.

Lemma val_of_token_cases : forall t, tok_ok t = true -> is_literal_kind (tk_type t) = true ->
  (exists v, val_of_token t = Ok v /\ val_of_kind (tk_type t) v) \/ val_of_token t = Err EParse.
Proof.
  intros t H K. unfold tok_ok in H. unfold val_of_token.
  destruct (tk_type t); try discriminate; cbn [val_of_kind];
    destruct (tk_val t) as [v|]; try discriminate.
  - destruct (parse_bool v); [left; eauto | right; reflexivity].
  - destruct (parse_ipv4 v); [left; eauto | right; reflexivity].
  - destruct (decode_strlit v); [left; eauto | right; reflexivity].
  - destruct v as [|a [|b r]]; try discriminate.
    apply andb_prop in H. destruct H as [Ha Hb]. apply N.eqb_eq in Ha, Hb. subst a b.
    destruct (parse_u64_hex r); [left; eauto | right; reflexivity].
  - destruct (parse_u64_dec v); [left; eauto | right; reflexivity].
Qed.

(* ---------------------------------------------------------------- one dispatch *)

Definition dispatch_post (p : parser) (r : res) : Prop :=
  match r with
  | Ok (p', a) =>
    match a with
    | ADiscard s => inv s (p_stack p')
    | AShift s n => inv s (n :: p_stack p')
    | AGoto s => inv s (p_stack p') /\ (measure s (p_stack p') < measure (p_state p) (p_stack p))%nat
    | AAccept => inv StAccept (p_stack p')
    end
  | Err e => e = EParse
  | Panic _ | OutOfFuel => False
  end.

Local Ltac tok_solve t Htok :=
  first
    [ match goal with
      | |- context [token_string t] =>
        let s := fresh "s" in let Hs := fresh "Hs" in
        destruct (token_string_ok t Htok ltac:(assumption)) as [s Hs]; rewrite Hs
      end
    | match goal with
      | |- context [val_of_token t] =>
        let v := fresh "v" in let Hv := fresh "Hv" in let Hk := fresh "Hk" in
        destruct (val_of_token_cases t Htok) as [[v [Hv Hk]]|Hv];
        [ match goal with E : tk_type t = _ |- _ => rewrite E; reflexivity end
        | rewrite Hv;
          match goal with E : tk_type t = _ |- _ => rewrite E in Hk; cbn [val_of_kind] in Hk; destruct Hk as [? ->] end
        | rewrite Hv ]
      end ].

Local Ltac inv_solve :=
  cbn; repeat split;
  first [ reflexivity
        | solve [repeat (constructor; try assumption)]
        | (unfold measure; cbn;
           repeat match goal with |- context [match ?s with StReduceBop => _ | _ => _ end] => is_var s; destruct s end;
           lia)
        | idtac ].

Lemma dispatch_inv : forall p t,
  pinv p -> tok_ok t = true -> dispatch_post p (dispatch p t).
Proof.
  intros [s stk ss] t Hinv Htok. unfold pinv in Hinv. cbn [p_state p_stack] in Hinv.
  inversion Hinv; subst; unfold dispatch; cbn [p_state];
    match goal with
    | |- dispatch_post _ (?f _ _) => unfold f
    | |- dispatch_post _ parse_error => cbn; reflexivity
    end;
    try (destruct (tk_type t) eqn:Ek);
    cbn -[val_of_token token_string N.leb];
    unfold push_literal; try rewrite Ek;
    cbn -[val_of_token token_string N.leb];
    try tok_solve t Htok;
    cbn -[val_of_token token_string N.leb];
    try solve [inv_solve].
  all: try match goal with |- context [N.leb ?a ?b] => destruct (N.leb a b) end; try solve [inv_solve].
  all: try (match goal with |- context [match ?n with Some _ => _ | None => _ end] => is_var n; destruct n end;
            solve [inv_solve]).
  (* StReduceExpr: the context decides the state popped *)
  all: match goal with H : ctx_ok _ |- _ => inversion H; subst end;
    cbn; repeat split; try solve [repeat (constructor; try assumption)]; unfold measure; cbn; lia.
Qed.

(* ---------------------------------------------------------------- one feed, many feeds *)

Definition feed_post (r : outcome parser) : Prop :=
  match r with
  | Ok p' => pinv p'
  | Err e => e = EParse
  | Panic _ | OutOfFuel => False
  end.

Lemma base_pos : forall s, (1 <= base s)%nat.
Proof. destruct s; cbn; lia. Qed.

Lemma feed_loop_inv : forall n p t,
  pinv p -> tok_ok t = true -> (measure (p_state p) (p_stack p) <= n)%nat ->
  feed_post (feed_loop n p t).
Proof.
  induction n as [|n IH]; intros p t Hp Ht Hm.
  - exfalso. pose proof (base_pos (p_state p)). unfold measure in Hm. lia.
  - cbn [feed_loop]. pose proof (dispatch_inv p t Hp Ht) as D.
    destruct (dispatch p t) as [[p' a]|e|s|]; cbn in D |- *; try contradiction; [|assumption].
    destruct a as [s|s nd|s|]; cbn [feed_post].
    + exact D.
    + exact D.
    + destruct D as [D1 D2]. apply IH; [exact D1 | exact Ht | cbn; lia].
    + exact D.
Qed.

Lemma feed_inv : forall p t, pinv p -> tok_ok t = true -> feed_post (feed p t).
Proof.
  intros p t Hp Ht. unfold feed. apply feed_loop_inv; auto. apply measure_le_fuel.
Qed.

Lemma pinv_init : pinv parser_init.
Proof. constructor. Qed.

Lemma pinv_get_results : forall p, pinv p -> pinv (snd (get_results p)).
Proof. intros p H. exact H. Qed.

Definition toks_ok (ts : list token) : Prop := Forall (fun t => tok_ok t = true) ts.

Definition no_panic (v : verdict) : Prop := match v with VPanic _ => False | _ => True end.

Lemma run_from_no_panic : forall ts p i, pinv p -> toks_ok ts -> no_panic (run_from p ts i).
Proof.
  induction ts as [|t r IH]; intros p i Hp Hts; cbn [run_from].
  - destruct (p_state p); exact I.
  - inversion Hts as [|? ? Ht Hr]; subst. pose proof (feed_inv p t Hp Ht) as F.
    destruct (feed p t) as [p'|e|s|]; cbn in F; try contradiction.
    + apply IH; assumption.
    + subst e. exact I.
Qed.

Lemma run_lines_from_no_panic : forall lines p acc i,
  pinv p -> toks_ok (concat lines) -> no_panic (run_lines_from p acc lines i).
Proof.
  induction lines as [|l rest IH]; intros p acc i Hp Hts; cbn [run_lines_from].
  - destruct (p_state p); exact I.
  - cbn [concat] in Hts. unfold toks_ok in Hts. apply Forall_app in Hts. destruct Hts as [Hl Hrest].
    revert p i Hp. induction l as [|t r IHl]; intros p i Hp.
    + cbn. apply IH; assumption.
    + inversion Hl as [|? ? Ht Hr]; subst. pose proof (feed_inv p t Hp Ht) as F.
      destruct (feed p t) as [p'|e|s|]; cbn in F; try contradiction.
      * apply IHl; assumption.
      * subst e. exact I.
Qed.

(** every way of cutting a token sequence into lines: never Panic / OutOfFuel *)
Theorem parse_never_stuck : forall lines,
  toks_ok (concat lines) -> no_panic (run_lines lines).
Proof. intros lines H. apply run_lines_from_no_panic; [apply pinv_init | exact H]. Qed.

Lemma feed_all_from_post : forall ts r, feed_post r -> toks_ok ts ->
  feed_post (fold_left (fun acc t => do p <- acc; feed p t) ts r).
Proof.
  induction ts as [|t rest IH]; intros r Hr Hts; cbn [fold_left]; [exact Hr|].
  inversion Hts as [|? ? Ht Hrest]; subst. apply IH; [|exact Hrest].
  destruct r as [p|e|s|]; cbn in Hr |- *; try contradiction; [|exact Hr].
  apply feed_inv; assumption.
Qed.

(** the composition interface: feeding any well-formed token list from the initial state ends in a
    parser satisfying the invariant or in the parse error, never in Panic / OutOfFuel *)
Theorem feed_never_stuck : forall ts, toks_ok ts -> feed_post (feed_all parser_init ts).
Proof. intros ts H. unfold feed_all. apply feed_all_from_post; [apply pinv_init | exact H]. Qed.
