(** C09: the recursive-descent reference parser is complete for the grammar relation: every
    sentence is accepted, with the tree the grammar assigns (up to locations). *)
From RS Require Import Base.Bytes Base.Outcome Lex.Tokens Lex.Literals Interp.Val Interp.Ast.
From RS Require Import Parse.Verdict Parse.Grammar Parse.RefParser.
From RS Require Import Proofs.C09.RefSound.
From Coq Require Import Lia.
Open Scope N_scope.

(** the next token, if any, is of none of the kinds [ks] *)
Definition head_not (ks : list toktype) (rest : list token) : Prop :=
  match rest with [] => True | t :: _ => ~ In (tk_type t) ks end.

Definition follow_atom := head_not [TDoubleColon; TDot; TLParen; TColon].
Definition follow_expr := head_not [TSlash; TDoubleColon; TDot; TLParen; TColon].

Lemma kind_is_neq : forall k t, tk_type t <> k -> kind_is k t = false.
Proof. intros k t H. apply kind_is_false. exact H. Qed.

Lemma kind_is_eq : forall k t, tk_type t = k -> kind_is k t = true.
Proof. intros k t H. apply kind_is_true. exact H. Qed.

Lemma head_not_kind : forall ks t r k, head_not ks (t :: r) -> In k ks -> kind_is k t = false.
Proof. intros ks t r k H I. apply kind_is_neq. intros E. apply H. rewrite E. exact I. Qed.

Lemma head_not_sub : forall ks ks' rest, (forall k, In k ks' -> In k ks) -> head_not ks rest -> head_not ks' rest.
Proof. intros ks ks' [|t r] S H; cbn in *; auto. Qed.

Lemma follow_expr_kind : forall t r k, follow_expr (t :: r) ->
  In k [TSlash; TDoubleColon; TDot; TLParen; TColon] -> kind_is k t = false.
Proof. intros t r k. apply head_not_kind. Qed.

Lemma follow_atom_kind : forall t r k, follow_atom (t :: r) ->
  In k [TDoubleColon; TDot; TLParen; TColon] -> kind_is k t = false.
Proof. intros t r k. apply head_not_kind. Qed.

Lemma follow_expr_atom : forall rest, follow_expr rest -> follow_atom rest.
Proof. intros rest. apply head_not_sub. intros k H. right. exact H. Qed.

(* ---------------------------------------------------------------- ref *)

Lemma p_modules_complete : forall tm names, g_chain TDoubleColon tm names ->
  forall mods cur rest, head_not [TDoubleColon] rest ->
  p_modules mods cur (tm ++ rest)
  = ROk (removelast ((mods ++ [cur]) ++ names), last ((mods ++ [cur]) ++ names) EmptyString) rest.
Proof.
  induction 1 as [|s i ts ns Hs Hi G IH]; intros mods cur rest F.
  - cbn [app]. rewrite app_nil_r, removelast_snoc, last_snoc.
    destruct rest as [|t r]; [reflexivity|]. cbn [p_modules].
    rewrite (head_not_kind _ _ _ TDoubleColon F); [reflexivity | left; reflexivity].
  - cbn [app p_modules]. rewrite (kind_is_eq _ _ Hs), (kind_is_eq _ _ Hi).
    rewrite IH; [|exact F]. rewrite <- !app_assoc. reflexivity.
Qed.

Lemma p_members_complete : forall td names, g_chain TDot td names ->
  forall comps rest, head_not [TDot] rest ->
  p_members comps (td ++ rest) = ROk (comps ++ names) rest.
Proof.
  induction 1 as [|s i ts ns Hs Hi G IH]; intros comps rest F.
  - cbn [app]. rewrite app_nil_r. destruct rest as [|t r]; [reflexivity|]. cbn [p_members].
    rewrite (head_not_kind _ _ _ TDot F); [reflexivity | left; reflexivity].
  - cbn [app p_members]. rewrite (kind_is_eq _ _ Hs), (kind_is_eq _ _ Hi).
    rewrite IH; [|exact F]. rewrite <- app_assoc. reflexivity.
Qed.

Lemma g_chain_head : forall sep ts ns, g_chain sep ts ns -> match ts with [] => True | t :: _ => is sep t end.
Proof. intros sep ts ns H. destruct H; [exact I | assumption]. Qed.

(** ref followed by something that is neither '::' nor '.': the two loops return the reference *)
Lemma p_ref_complete : forall i tm ms td ds rest,
  g_chain TDoubleColon tm ms -> g_chain TDot td ds -> head_not [TDoubleColon; TDot] rest ->
  let path := ident_name i :: ms in
  p_modules [] (ident_name i) (tm ++ td ++ rest) = ROk (removelast path, last path EmptyString) (td ++ rest)
  /\ p_members [last path EmptyString] (td ++ rest) = ROk (last path EmptyString :: ds) rest.
Proof.
  intros i tm ms td ds rest G1 G2 F path. split.
  - rewrite (p_modules_complete tm ms G1 [] (ident_name i) (td ++ rest)); [reflexivity|].
    pose proof (g_chain_head _ _ _ G2) as Hd. destruct td as [|t r].
    + cbn [app]. eapply head_not_sub; [|exact F]. intros k [<-|[]]. left. reflexivity.
    + cbn [app head_not]. unfold is in Hd. rewrite Hd. intros [C|[]]. discriminate.
  - rewrite (p_members_complete td ds G2); [reflexivity|].
    eapply head_not_sub; [|exact F]. intros k [<-|[]]. right. left. reflexivity.
Qed.

(* ---------------------------------------------------------------- location independence *)

Lemma p_ref_atom_loc : forall pa l1 l2 first ts e rest,
  p_ref_atom pa l1 first ts = ROk e rest ->
  exists e2, p_ref_atom pa l2 first ts = ROk e2 rest /\ erase_expr e2 = erase_expr e.
Proof.
  intros pa l1 l2 first ts e rest H. unfold p_ref_atom in *.
  destruct (p_modules [] first ts) as [[ms c] r1| | |]; cbn [rbind] in *; try discriminate.
  destruct (p_members [snd (ms, c)] r1) as [cs r2| | |]; cbn [rbind] in *; try discriminate.
  destruct r2 as [|t r3].
  - inversion H; subst. eexists. split; reflexivity.
  - destruct (kind_is TLParen t).
    + destruct (pa r3) as [a r4| | |]; cbn [rbind] in *; try discriminate.
      inversion H; subst. eexists. split; reflexivity.
    + inversion H; subst. eexists. split; reflexivity.
Qed.

Lemma p_slash_erase : forall pe a1 a2 ts e rest,
  erase_expr a1 = erase_expr a2 -> p_slash pe a1 ts = ROk e rest ->
  exists e2, p_slash pe a2 ts = ROk e2 rest /\ erase_expr e2 = erase_expr e.
Proof.
  intros pe a1 a2 ts e rest E H. unfold p_slash in *. destruct ts as [|t r].
  - inversion H; subst. eexists. split; [reflexivity | symmetry; exact E].
  - destruct (kind_is TSlash t).
    + destruct (pe r) as [b r'| | |]; cbn [rbind] in *; try discriminate. inversion H; subst.
      eexists. split; [reflexivity|]. cbn [erase_expr]. rewrite E. reflexivity.
    + inversion H; subst. eexists. split; [reflexivity | symmetry; exact E].
Qed.

Lemma ref_slash_loc : forall pa pe l1 l2 first ts e rest,
  rbind (p_ref_atom pa l1 first ts) (p_slash pe) = ROk e rest ->
  exists e2, rbind (p_ref_atom pa l2 first ts) (p_slash pe) = ROk e2 rest /\ erase_expr e2 = erase_expr e.
Proof.
  intros pa pe l1 l2 first ts e rest H.
  destruct (p_ref_atom pa l1 first ts) as [a r1| | |] eqn:A; cbn [rbind] in H; try discriminate.
  destruct (p_ref_atom_loc pa l1 l2 first ts a r1 A) as (a2 & A2 & E2). rewrite A2. cbn [rbind].
  eapply p_slash_erase; [symmetry; exact E2 | exact H].
Qed.

(* ---------------------------------------------------------------- the mutual induction *)

Scheme g_expr_mind := Minimality for g_expr Sort Prop
  with g_atom_mind := Minimality for g_atom Sort Prop
  with g_args_mind := Minimality for g_args Sort Prop
  with g_arg_mind := Minimality for g_arg Sort Prop.
Combined Scheme g_mutind from g_expr_mind, g_atom_mind, g_args_mind, g_arg_mind.

Definition after_arg (m : nat) (acc : list arg) (name : option string) (e : expr) (r1 : list token)
  : res (list arg) :=
  match r1 with
  | [] => RMore
  | t1 :: r2 =>
    if kind_is TComma t1 then p_args m (acc ++ [(name, e)]) r2
    else if kind_is TRParen t1 then ROk (acc ++ [(name, e)]) r2
    else RErr r1
  end.

Definition C_expr (ts : list token) (e' : expr) : Prop :=
  forall n rest, (length ts < n)%nat -> follow_expr rest ->
  exists e, p_expr n (ts ++ rest) = ROk e rest /\ erase_expr e = e'.

Definition C_atom (ts : list token) (a' : expr) : Prop :=
  forall m rest, (length ts <= m)%nat -> follow_atom rest ->
  exists a, p_atom (p_args m []) (ts ++ rest) = ROk a rest /\ erase_expr a = a'.

Definition C_args (ta : list token) (args' : list arg) : Prop :=
  forall m acc rp rest, is TRParen rp -> (length ta + 1 < m)%nat ->
  exists args, p_args m acc (ta ++ rp :: rest) = ROk (acc ++ args) rest /\ map erase_arg args = args'.

Definition C_arg (ta : list token) (a' : arg) : Prop :=
  forall m acc r1, (length ta < m)%nat -> follow_expr r1 ->
  exists name e, (name, erase_expr e) = a' /\ p_args (S m) acc (ta ++ r1) = after_arg m acc name e r1.

Lemma g_arg_nonempty : forall ts a, g_arg ts a -> ts <> [].
Proof. intros ts a H. destruct H; [eapply g_expr_nonempty; eassumption | discriminate]. Qed.

(** the first token of an expression, and what can follow a leading identifier *)
Definition starts_expr (t : token) : Prop :=
  match tk_type t with
  | TIdent | TBoolLit | TIPv4Lit | TStringLit | THexLit | TIntLit => True
  | _ => False
  end.

Lemma g_atom_head : forall ts a, g_atom ts a ->
  exists t r, ts = t :: r /\ starts_expr t
    /\ (is TIdent t -> match r with [] => True | t2 :: _ => In (tk_type t2) [TDoubleColon; TDot; TLParen] end).
Proof.
  intros ts a H. destruct H.
  - exists t, []. repeat split. unfold starts_expr. destruct (tk_type t); try discriminate; exact I.
  - exists t, []. repeat split. unfold starts_expr. rewrite H. exact I.
  - exists t, [c; p]. repeat split; [unfold starts_expr; rewrite H; exact I|].
    intros Hi. unfold is in *. congruence.
  - destruct H as [i tm ms td ds Hi G1 G2]. exists i, (tm ++ td). repeat split; [unfold starts_expr; rewrite Hi; exact I|].
    intros _. pose proof (g_chain_head _ _ _ G1) as X1. pose proof (g_chain_head _ _ _ G2) as X2.
    destruct tm as [|t r]; cbn [app].
    + destruct td as [|t r]; [exact I|]. unfold is in X2. rewrite X2. right. left. reflexivity.
    + unfold is in X1. rewrite X1. left. reflexivity.
  - destruct H as [i tm ms td ds Hi G1 G2]. exists i, ((tm ++ td) ++ lp :: ta ++ [rp]).
    repeat split; [unfold starts_expr; rewrite Hi; exact I|].
    intros _. pose proof (g_chain_head _ _ _ G1) as X1. pose proof (g_chain_head _ _ _ G2) as X2.
    destruct tm as [|t r]; cbn [app].
    + destruct td as [|t r]; cbn [app].
      * unfold is in H0. rewrite H0. right. right. left. reflexivity.
      * unfold is in X2. rewrite X2. right. left. reflexivity.
    + unfold is in X1. rewrite X1. left. reflexivity.
Qed.

Lemma g_expr_head : forall ts e, g_expr ts e ->
  exists t r, ts = t :: r /\ starts_expr t
    /\ (is TIdent t -> match r with [] => True | t2 :: _ => In (tk_type t2) [TDoubleColon; TDot; TLParen; TSlash] end).
Proof.
  intros ts e H. destruct H as [ts a Ha|ta a s tb b Ha Hs Hb].
  - destruct (g_atom_head _ _ Ha) as (t & r & -> & S & N). exists t, r. repeat split; [exact S|].
    intros Hi. specialize (N Hi). destruct r; [exact I|]. cbn in N |- *. intuition.
  - destruct (g_atom_head _ _ Ha) as (t & r & -> & S & N). exists t, (r ++ s :: tb). repeat split; [exact S|].
    intros Hi. specialize (N Hi). destruct r; cbn [app].
    + unfold is in Hs. rewrite Hs. cbn. intuition.
    + cbn in N |- *. intuition.
Qed.

Lemma erase_arg_eq : forall name e, erase_arg (name, e) = (name, erase_expr e).
Proof. reflexivity. Qed.

Lemma complete_mutual :
  (forall ts e, g_expr ts e -> C_expr ts e)
  /\ (forall ts a, g_atom ts a -> C_atom ts a)
  /\ (forall ts args, g_args ts args -> C_args ts args)
  /\ (forall ts a, g_arg ts a -> C_arg ts a).
Proof.
  apply g_mutind.
  - (* expr = atom *)
    intros ts a' _ CA n rest Hn F. destruct n as [|n]; [lia|]. cbn [p_expr].
    destruct (CA n rest) as (a & Ea & Er); [lia | apply follow_expr_atom, F|]. rewrite Ea. cbn [rbind].
    exists a. split; [|exact Er]. unfold p_slash. destruct rest as [|t r]; [reflexivity|].
    rewrite (follow_expr_kind _ _ TSlash F); [reflexivity | left; reflexivity].
  - (* expr = atom / expr *)
    intros ta a' s tb b' Ga CA Hs Gb CB n rest Hn F. rewrite app_length in Hn. cbn [length] in Hn.
    destruct n as [|n]; [lia|]. cbn [p_expr]. rewrite <- app_assoc. cbn [app].
    destruct (CA n (s :: tb ++ rest)) as (a & Ea & Er); [lia | |].
    { cbn. unfold is in Hs. rewrite Hs. intros [C|[C|[C|[C|[]]]]]; discriminate. }
    rewrite Ea. cbn [rbind p_slash]. rewrite (kind_is_eq _ _ Hs).
    pose proof (g_atom_nonempty _ _ Ga) as NE. destruct ta as [|t0 ta0]; [contradiction|]. cbn [length] in Hn.
    destruct (CB n rest) as (b & Eb & Erb); [lia | exact F|]. rewrite Eb. cbn [rbind].
    exists (ESlash a b). split; [reflexivity|]. cbn [erase_expr]. rewrite Er, Erb. reflexivity.
  - (* scalar literal *)
    intros t v K V m rest Hm F. cbn [app p_atom]. rewrite V.
    exists (ELit (tk_loc t) v). split; [|reflexivity]. destruct (tk_type t); try discriminate; reflexivity.
  - (* ipv4 *)
    intros t a K V m rest Hm F. cbn [app p_atom]. unfold is in K. rewrite K, V.
    exists (ELit (tk_loc t) (VIp4 a)). split; [|reflexivity]. destruct rest as [|c r]; [reflexivity|].
    rewrite (follow_atom_kind _ _ TColon F); [reflexivity | right; right; right; left; reflexivity].
  - (* socket *)
    intros t a c p n K V KC KP VP LE m rest Hm F. cbn [app p_atom]. unfold is in K. rewrite K, V.
    rewrite (kind_is_eq _ _ KC), (kind_is_eq _ _ KP), VP. apply N.leb_le in LE. rewrite LE.
    exists (ELit (tk_loc t) (VSock4 a n)). split; reflexivity.
  - (* ref *)
    intros ts ms cs R m rest Hm F. destruct R as [i tm ms td ds Hi G1 G2]. cbn [app p_atom].
    unfold is in Hi. rewrite Hi. unfold p_ref_atom. rewrite <- app_assoc.
    destruct (p_ref_complete i tm ms td ds rest G1 G2) as [E1 E2].
    { eapply head_not_sub; [|exact F]. intros k [<-|[<-|[]]]; [left | right; left]; reflexivity. }
    rewrite E1. cbn [rbind snd fst]. rewrite E2. cbn [rbind].
    eexists. split.
    { destruct rest as [|t r]; [reflexivity|].
      rewrite (follow_atom_kind _ _ TLParen F); [reflexivity | right; right; left; reflexivity]. }
    reflexivity.
  - (* call *)
    intros ts ms cs lp ta args' rp R Hlp GA CA Hrp m rest Hm F.
    destruct R as [i tm ms td ds Hi G1 G2]. cbn [app p_atom].
    unfold is in Hi. rewrite Hi. unfold p_ref_atom. rewrite <- !app_assoc. cbn [app]. rewrite <- app_assoc.
    destruct (p_ref_complete i tm ms td ds (lp :: ta ++ [rp] ++ rest) G1 G2) as [E1 E2].
    { cbn. unfold is in Hlp. rewrite Hlp. intros [C|[C|[]]]; discriminate. }
    rewrite E1. cbn [rbind snd fst]. rewrite E2. cbn [rbind]. rewrite (kind_is_eq _ _ Hlp).
    cbn [length] in Hm. rewrite !app_length in Hm. cbn [length] in Hm. rewrite !app_length in Hm. cbn [length] in Hm.
    destruct (CA m [] rp rest Hrp) as (args & EA & ER); [lia|]. cbn [app] in EA |- *. rewrite EA. cbn [rbind].
    eexists. split; [reflexivity|]. rewrite erase_call, ER. reflexivity.
  - (* args = empty *)
    intros m acc rp rest Hrp Hm. destruct m as [|m]; [lia|]. cbn [app p_args]. rewrite (kind_is_eq _ _ Hrp).
    exists []. split; [rewrite app_nil_r; reflexivity | reflexivity].
  - (* args = arg *)
    intros ta a' _ CA m acc rp rest Hrp Hm. destruct m as [|m]; [lia|].
    destruct (CA m acc (rp :: rest)) as (name & e & Ea & EP); [lia | |].
    { cbn. unfold is in Hrp. rewrite Hrp. intros [C|[C|[C|[C|[C|[]]]]]]; discriminate. }
    rewrite EP. cbn [after_arg]. rewrite (kind_is_neq TComma rp), (kind_is_eq _ _ Hrp).
    2:{ unfold is in Hrp. rewrite Hrp. discriminate. }
    exists [(name, e)]. split; [reflexivity|]. cbn [map]. rewrite erase_arg_eq, Ea. reflexivity.
  - (* args = arg , args *)
    intros ta a' c ts args' GA0 CA Hc _ CS m acc rp rest Hrp Hm.
    rewrite app_length in Hm. cbn [length] in Hm. destruct m as [|m]; [lia|].
    rewrite <- app_assoc. cbn [app].
    destruct (CA m acc (c :: ts ++ rp :: rest)) as (name & e & Ea & EP); [lia | |].
    { cbn. unfold is in Hc. rewrite Hc. intros [C|[C|[C|[C|[C|[]]]]]]; discriminate. }
    rewrite EP. cbn [after_arg]. rewrite (kind_is_eq _ _ Hc).
    assert (NE : (1 <= length ta)%nat) by (pose proof (g_arg_nonempty _ _ GA0); destruct ta; [contradiction | cbn; lia]).
    destruct (CS m (acc ++ [(name, e)]) rp rest Hrp) as (args & ES & ER); [lia|].
    rewrite ES. exists ((name, e) :: args). split; [rewrite <- app_assoc; reflexivity|].
    cbn [map]. rewrite erase_arg_eq, Ea, ER. reflexivity.
  - (* arg = expr *)
    intros ts e' G CE m acc r1 Hm F.
    destruct (g_expr_head _ _ G) as (t & r & -> & St & Nx). cbn [app p_args].
    rewrite (kind_is_neq TRParen t) by (unfold starts_expr in St; destruct (tk_type t); try contradiction; discriminate).
    destruct (CE (S m) r1) as (e & Ee & Er); [cbn [length] in *; lia | exact F|].
    destruct (kind_is TIdent t) eqn:KI.
    + apply kind_is_true in KI. specialize (Nx KI).
      destruct (r ++ r1) as [|t2 r2] eqn:E2.
      { exists None, e. split; [rewrite Er; reflexivity|].
        apply app_eq_nil in E2. destruct E2 as [-> ->]. reflexivity. }
      assert (KC : kind_is TColon t2 = false).
      { destruct r as [|t2' r']; cbn [app] in E2.
        - subst r1. apply (follow_expr_kind _ _ TColon F). right. right. right. right. left. reflexivity.
        - inversion E2; subst. apply kind_is_neq. cbn in Nx.
          intros C. rewrite C in Nx. destruct Nx as [X|[X|[X|[X|[]]]]]; discriminate. }
      rewrite KC. cbn [app p_expr p_atom] in Ee. unfold is in KI. rewrite KI in Ee. rewrite E2 in Ee.
      destruct (ref_slash_loc _ _ (tk_loc t) (tk_loc t2) _ _ _ _ Ee) as (e2 & Ee2 & Er2).
      rewrite Ee2. cbn [rbind]. exists None, e2. split; [rewrite Er2, Er; reflexivity | reflexivity].
    + destruct m as [|m]; [cbn [length] in Hm; lia|].
      destruct (CE (S m) r1) as (e3 & Ee3 & Er3); [cbn [length] in *; lia | exact F|].
      cbn [app] in Ee3. rewrite Ee3. cbn [rbind]. exists None, e3. split; [rewrite Er3; reflexivity | reflexivity].
  - (* arg = name : expr *)
    intros i c ts e' Hi Hc G CE m acc r1 Hm F. cbn [app p_args length] in *.
    rewrite (kind_is_neq TRParen i) by (unfold is in Hi; rewrite Hi; discriminate).
    rewrite (kind_is_eq _ _ Hi), (kind_is_eq _ _ Hc).
    destruct (CE m r1) as (e & Ee & Er); [lia | exact F|]. rewrite Ee. cbn [rbind].
    exists (Some (ident_name i)), e. split; [rewrite Er; reflexivity | reflexivity].
Qed.

Lemma follow_semicolon : forall s r, is TSemiColon s -> follow_expr (s :: r).
Proof. intros s r H. cbn. unfold is in H. rewrite H. intros [C|[C|[C|[C|[C|[]]]]]]; discriminate. Qed.

Lemma p_stmt_complete : forall ts s', g_stmt ts s' ->
  forall n rest, (length ts <= n)%nat ->
  exists s, p_stmt n (ts ++ rest) = ROk s rest /\ erase_stmt s = s'.
Proof.
  intros ts s' G n rest Hn. destruct G as [k i s Hk Hi Hs|k i q ts e' s Hk Hi Hq Ge Hs|i ts e' s Hi Ge Hs].
  - cbn [app p_stmt]. unfold is in Hk. rewrite Hk. unfold expect.
    rewrite (kind_is_eq _ _ Hi), (kind_is_eq _ _ Hs). eexists. split; reflexivity.
  - cbn [app p_stmt]. unfold is in Hk. rewrite Hk. unfold expect.
    rewrite (kind_is_eq _ _ Hi), (kind_is_eq _ _ Hq). rewrite <- app_assoc. cbn [app].
    cbn [length] in Hn. rewrite app_length in Hn. cbn [length] in Hn.
    destruct (proj1 complete_mutual _ _ Ge n (s :: rest)) as (e & Ee & Er); [lia | apply follow_semicolon, Hs|].
    rewrite Ee. cbn [rbind]. rewrite (kind_is_eq _ _ Hs). eexists. split; [reflexivity|].
    cbn [erase_stmt]. rewrite Er. reflexivity.
  - cbn [app p_stmt]. unfold is in Hi. rewrite Hi. rewrite <- app_assoc. cbn [app].
    cbn [length] in Hn. rewrite app_length in Hn. cbn [length] in Hn.
    destruct (proj1 complete_mutual _ _ Ge n (s :: rest)) as (e & Ee & Er); [cbn [length]; lia | apply follow_semicolon, Hs|].
    cbn [app] in Ee. rewrite Ee. cbn [rbind]. unfold expect. rewrite (kind_is_eq _ _ Hs). eexists. split; [reflexivity|].
    cbn [erase_stmt]. rewrite Er. reflexivity.
Qed.

Lemma g_stmt_head : forall ts s, g_stmt ts s -> exists t r, ts = t :: r /\ tk_type t <> TEof.
Proof.
  intros ts s G. destruct G as [k i s Hk Hi Hs|k i q ts e' s Hk Hi Hq Ge Hs|i ts e' s Hi Ge Hs];
    eexists; eexists; (split; [reflexivity|]); unfold is in *; congruence.
Qed.

Lemma p_program_complete : forall body ss', g_program body ss' ->
  forall n acc e, is TEof e -> (length body < n)%nat ->
  exists ss, p_program n acc (body ++ [e]) = ROk (acc ++ ss) [] /\ map erase_stmt ss = ss'.
Proof.
  induction 1 as [|ts s' ts' ss' Gs Gp IH]; intros n acc e He Hn.
  - destruct n as [|n]; [lia|]. cbn [app p_program]. rewrite (kind_is_eq _ _ He).
    exists []. split; [rewrite app_nil_r; reflexivity | reflexivity].
  - destruct n as [|n]; [lia|]. destruct (g_stmt_head _ _ Gs) as (t & r & -> & Ht).
    rewrite app_length in Hn. cbn [length] in Hn.
    rewrite <- app_assoc. cbn [app p_program]. rewrite (kind_is_neq _ _ Ht).
    destruct (p_stmt_complete _ _ Gs (S (length (t :: r ++ ts' ++ [e]))) (ts' ++ [e])) as (s & Es & Er).
    { cbn [length]. rewrite !app_length. cbn [length]. lia. }
    cbn [app] in Es. rewrite Es. cbn [rbind].
    destruct (IH n (acc ++ [s]) e He) as (ss & Ep & Ers); [lia|].
    rewrite Ep. exists (s :: ss). split; [rewrite <- app_assoc; reflexivity|].
    cbn [map]. rewrite Er, Ers. reflexivity.
Qed.

Theorem rd_complete : forall ts ss', sentence ts ss' ->
  exists ss, rd_parse ts = VAccept ss /\ map erase_stmt ss = ss'.
Proof.
  intros ts ss' (body & e & -> & He & Gp). unfold rd_parse.
  destruct (p_program_complete _ _ Gp (S (length (body ++ [e]))) [] e He) as (ss & Ep & Er).
  { rewrite app_length. cbn [length]. lia. }
  rewrite Ep. exists ss. split; [reflexivity | exact Er].
Qed.

(** the grammar assigns at most one tree to a token list, and the reference parser computes it *)
Theorem rd_accepts_iff : forall ts ss',
  sentence ts ss' <-> exists ss, rd_parse ts = VAccept ss /\ map erase_stmt ss = ss'.
Proof.
  intros ts ss'. split; [apply rd_complete|].
  intros (ss & H & <-). apply rd_sound, H.
Qed.

Corollary sentence_functional : forall ts ss1 ss2, sentence ts ss1 -> sentence ts ss2 -> ss1 = ss2.
Proof.
  intros ts ss1 ss2 H1 H2. apply rd_complete in H1, H2.
  destruct H1 as (a & Ea & <-). destruct H2 as (b & Eb & <-). rewrite Ea in Eb. inversion Eb. reflexivity.
Qed.
