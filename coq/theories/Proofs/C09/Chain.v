(** C09: a fuel-free, relational view of one [feed] (the Goto chain), equal to [feed] on every
    parser state that satisfies the stack invariant. *)
From RS Require Import Base.Bytes Base.Outcome Lex.Tokens Lex.Literals Interp.Val Interp.Ast.
From RS Require Import Parse.Verdict Parse.Automaton Parse.Grammar.
From RS Require Import Proofs.C09.Invariant.
From Coq Require Import Lia.
Open Scope N_scope.

Definition mk (s : state) (stk : list node) (ss : list stmt) : parser :=
  {| p_state := s; p_stack := stk; p_stmts := ss |}.

(** the result of feeding one token, without fuel *)
Inductive feedR (t : token) : parser -> outcome parser -> Prop :=
| FR_err : forall p e, dispatch p t = Err e -> feedR t p (Err e)
| FR_discard : forall p p' s, dispatch p t = Ok (p', ADiscard s) -> feedR t p (Ok (set_state p' s))
| FR_shift : forall p p' s n, dispatch p t = Ok (p', AShift s n) -> feedR t p (Ok (set_state (push n p') s))
| FR_accept : forall p p', dispatch p t = Ok (p', AAccept) -> feedR t p (Ok (set_state p' StAccept))
| FR_goto : forall p p' s r, dispatch p t = Ok (p', AGoto s) -> feedR t (set_state p' s) r -> feedR t p r.

(** Goto steps only *)
Inductive gotoR (t : token) : parser -> parser -> Prop :=
| GR_refl : forall p, gotoR t p p
| GR_step : forall p p' s q, dispatch p t = Ok (p', AGoto s) -> gotoR t (set_state p' s) q -> gotoR t p q.

Lemma gotoR_trans : forall t p q r, gotoR t p q -> gotoR t q r -> gotoR t p r.
Proof. induction 1; intros; [assumption | eapply GR_step; eauto]. Qed.

Lemma gotoR_feedR : forall t p q r, gotoR t p q -> feedR t q r -> feedR t p r.
Proof. induction 1; intros; [assumption | eapply FR_goto; eauto]. Qed.

Lemma feedR_det : forall t p r1, feedR t p r1 -> forall r2, feedR t p r2 -> r1 = r2.
Proof.
  induction 1 as [p e D|p p' s D|p p' s n D|p p' D|p p' s r D F IH]; intros r2 H2;
    inversion H2; subst; try congruence.
  rewrite D in H. inversion H; subst. apply IH. assumption.
Qed.

Lemma feed_loop_feedR : forall n p t r,
  feed_loop n p t = r -> (match r with Ok _ | Err _ => True | _ => False end) -> feedR t p r.
Proof.
  induction n as [|n IH]; intros p t r E Hr; cbn [feed_loop] in E.
  - subst r. contradiction.
  - destruct (dispatch p t) as [[p' a]|e|s|] eqn:D; cbn [obind] in E.
    + destruct a; subst r; try (constructor; assumption).
      eapply FR_goto; [exact D|]. apply IH; [reflexivity | exact Hr].
    + subst r. constructor. exact D.
    + subst r. contradiction.
    + subst r. contradiction.
Qed.

Lemma feed_feedR : forall p t, pinv p -> tok_ok t = true -> feedR t p (feed p t).
Proof.
  intros p t Hp Ht. pose proof (feed_inv p t Hp Ht) as F. unfold feed in *.
  eapply feed_loop_feedR; [reflexivity|]. destruct (feed_loop (feed_fuel p) p t); try contradiction; exact I.
Qed.

Lemma feed_eq : forall p t r, pinv p -> tok_ok t = true -> feedR t p r -> feed p t = r.
Proof. intros p t r Hp Ht H. eapply feedR_det; [apply feed_feedR; assumption | exact H]. Qed.

(** [p] reacts to the first token of [l] exactly as [q] would *)
Definition behaves (l : list token) (p q : parser) : Prop :=
  forall t r, l = t :: r -> tok_ok t = true -> forall res, feedR t q res -> feedR t p res.

Lemma behaves_refl : forall l p, behaves l p p.
Proof. intros l p t r _ _ res H. exact H. Qed.

Lemma behaves_nil : forall p q, behaves [] p q.
Proof. intros p q t r H. discriminate. Qed.

Lemma behaves_trans : forall l p q r, behaves l p q -> behaves l q r -> behaves l p r.
Proof. intros l p q r H1 H2 t rest E Ht res F. eapply H1; eauto. Qed.

Lemma behaves_goto : forall l p q,
  (forall t r, l = t :: r -> tok_ok t = true -> gotoR t p q) -> behaves l p q.
Proof. intros l p q H t r E Ht res F. eapply gotoR_feedR; eauto. Qed.

(* ---------------------------------------------------------------- feed_all *)

Lemma feed_all_stuck : forall ts (r : outcome parser), is_ok r = false ->
  fold_left (fun acc t => do p <- acc; feed p t) ts r = r.
Proof.
  induction ts as [|t ts IH]; intros r H; cbn [fold_left]; [reflexivity|].
  destruct r; try discriminate; cbn [obind]; apply IH; reflexivity.
Qed.

Lemma feed_all_nil : forall p, feed_all p [] = Ok p.
Proof. reflexivity. Qed.

Lemma feed_all_cons : forall p t ts, feed_all p (t :: ts) = do p' <- feed p t; feed_all p' ts.
Proof.
  intros. unfold feed_all. cbn [fold_left obind].
  destruct (feed p t); cbn [obind]; try reflexivity; apply feed_all_stuck; reflexivity.
Qed.

Lemma feed_all_app : forall a b p p1, feed_all p a = Ok p1 -> feed_all p (a ++ b) = feed_all p1 b.
Proof.
  induction a as [|t a IH]; intros b p p1 H.
  - cbn in H. inversion H. reflexivity.
  - cbn [app]. rewrite feed_all_cons in *. destruct (feed p t) as [p'| | |]; cbn [obind] in *; try discriminate.
    apply IH, H.
Qed.

Lemma feed_all_snoc : forall a t p p1, feed_all p a = Ok p1 -> feed_all p (a ++ [t]) = feed p1 t.
Proof.
  intros a t p p1 H. rewrite (feed_all_app _ _ _ _ H), feed_all_cons.
  destruct (feed p1 t); reflexivity.
Qed.

Lemma feed_all_pinv : forall ts p p1, pinv p -> toks_ok ts -> feed_all p ts = Ok p1 -> pinv p1.
Proof.
  induction ts as [|t ts IH]; intros p p1 Hp Hts H.
  - inversion H; subst. exact Hp.
  - rewrite feed_all_cons in H. inversion Hts as [|? ? Ht Hr]; subst.
    pose proof (feed_inv p t Hp Ht) as F. destruct (feed p t) as [p'| | |]; cbn [obind] in H; try discriminate.
    eapply IH; eauto.
Qed.

Lemma toks_ok_app : forall a b, toks_ok (a ++ b) -> toks_ok a /\ toks_ok b.
Proof. intros a b H. apply Forall_app in H. exact H. Qed.

(* ---------------------------------------------------------------- tokens *)

Lemma token_string_name : forall t, tok_ok t = true -> tk_type t = TIdent ->
  token_string t = Ok (ident_name t).
Proof.
  intros t H K. unfold tok_ok in H. rewrite K in H. unfold token_string, ident_name.
  destruct (tk_val t); [reflexivity | discriminate].
Qed.
