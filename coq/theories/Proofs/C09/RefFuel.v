(** C09: the fuel "number of tokens + 1" is enough for the reference parser. *)
From RS Require Import Base.Bytes Base.Outcome Lex.Tokens Lex.Literals Interp.Val Interp.Ast.
From RS Require Import Parse.Verdict Parse.Grammar Parse.RefParser.
From RS Require Import Proofs.C09.RefSound.
From Coq Require Import Lia.
Open Scope N_scope.

Lemma p_modules_fuel : forall ts mods cur, p_modules mods cur ts <> RFuel.
Proof.
  induction ts as [|t1|t1 t2 r IH] using list_ind2; intros mods cur; cbn [p_modules]; try discriminate.
  - destruct (kind_is TDoubleColon t1); discriminate.
  - destruct (kind_is TDoubleColon t1); [|discriminate]. destruct (kind_is TIdent t2); [apply IH | discriminate].
Qed.

Lemma p_members_fuel : forall ts comps, p_members comps ts <> RFuel.
Proof.
  induction ts as [|t1|t1 t2 r IH] using list_ind2; intros comps; cbn [p_members]; try discriminate.
  - destruct (kind_is TDot t1); discriminate.
  - destruct (kind_is TDot t1); [|discriminate]. destruct (kind_is TIdent t2); [apply IH | discriminate].
Qed.

Lemma p_modules_len : forall ts mods cur mc rest, p_modules mods cur ts = ROk mc rest -> (length rest <= length ts)%nat.
Proof.
  intros ts mods cur [ms c] rest H. apply p_modules_sound in H. destruct H as (tm & names & -> & _).
  rewrite app_length. lia.
Qed.

Lemma p_members_len : forall ts comps cs rest, p_members comps ts = ROk cs rest -> (length rest <= length ts)%nat.
Proof.
  intros ts comps cs rest H. apply p_members_sound in H. destruct H as (tm & names & -> & _).
  rewrite app_length. lia.
Qed.

(** pa is called on what follows the '(' of a call that starts within ts *)
Lemma p_ref_atom_fuel : forall pa l first ts,
  (forall r3, (length r3 < length ts)%nat -> pa r3 <> RFuel) -> p_ref_atom pa l first ts <> RFuel.
Proof.
  intros pa l first ts Hpa. unfold p_ref_atom.
  destruct (p_modules [] first ts) as [mc r1| | |] eqn:M; cbn [rbind]; try discriminate.
  2:{ exfalso. eapply p_modules_fuel, M. }
  destruct (p_members [snd mc] r1) as [cs r2| | |] eqn:D; cbn [rbind]; try discriminate.
  2:{ exfalso. eapply p_members_fuel, D. }
  apply p_modules_len in M. apply p_members_len in D.
  destruct r2 as [|t r3]; [discriminate|]. destruct (kind_is TLParen t); [|discriminate].
  cbn [length] in D. specialize (Hpa r3 ltac:(lia)).
  destruct (pa r3); cbn [rbind]; try discriminate. contradiction.
Qed.

Lemma p_atom_fuel : forall pa ts,
  (forall r3, (length r3 + 1 < length ts)%nat -> pa r3 <> RFuel) -> p_atom pa ts <> RFuel.
Proof.
  intros pa ts Hpa. unfold p_atom. destruct ts as [|t r]; [discriminate|].
  destruct (tk_type t); try discriminate.
  - destruct (val_of_token t); discriminate.
  - apply p_ref_atom_fuel. intros r3 H. apply Hpa. cbn [length]. lia.
  - destruct (val_of_token t) as [v| | |]; try discriminate. destruct v; try discriminate.
    destruct r as [|c r1]; [discriminate|]. destruct (kind_is TColon c); [|discriminate].
    destruct r1 as [|p r2]; [discriminate|]. destruct (kind_is TIntLit p); [|discriminate].
    destruct (val_of_token p) as [pv| | |]; try discriminate. destruct pv; try discriminate.
    destruct (n <=? 65535); discriminate.
  - destruct (val_of_token t); discriminate.
  - destruct (val_of_token t); discriminate.
  - destruct (val_of_token t); discriminate.
Qed.

Lemma p_slash_fuel : forall pe a ts,
  (forall r, (length r < length ts)%nat -> pe r <> RFuel) -> p_slash pe a ts <> RFuel.
Proof.
  intros pe a ts Hpe. unfold p_slash. destruct ts as [|t r]; [discriminate|].
  destruct (kind_is TSlash t); [|discriminate]. specialize (Hpe r ltac:(cbn; lia)).
  destruct (pe r); cbn [rbind]; try discriminate. contradiction.
Qed.

Definition shrinks {A} (f : list token -> res A) : Prop :=
  forall ts a rest, f ts = ROk a rest -> (length rest < length ts)%nat.

Lemma p_expr_shrinks : forall n, shrinks (p_expr n).
Proof.
  intros n ts e rest H. apply (proj1 (p_expr_args_sound n)) in H. destruct H as (used & -> & G).
  apply g_expr_nonempty in G. destruct used; [contradiction|]. rewrite app_length. cbn [length]. lia.
Qed.

Lemma p_args_shrinks : forall n acc, shrinks (p_args n acc).
Proof.
  intros n acc ts a rest H. apply (proj2 (p_expr_args_sound n)) in H.
  destruct H as (ta & rp & args' & -> & _). rewrite app_length. cbn [length]. lia.
Qed.

Lemma p_ref_atom_len : forall pa l first ts e rest,
  shrinks pa -> p_ref_atom pa l first ts = ROk e rest -> (length rest <= length ts)%nat.
Proof.
  intros pa l first ts e rest Hpa H. unfold p_ref_atom in H.
  destruct (p_modules [] first ts) as [mc r1| | |] eqn:M; cbn [rbind] in H; try discriminate.
  destruct (p_members [snd mc] r1) as [cs r2| | |] eqn:D; cbn [rbind] in H; try discriminate.
  apply p_modules_len in M. apply p_members_len in D.
  destruct r2 as [|t r3]; [inversion H; subst; cbn in *; lia|].
  destruct (kind_is TLParen t).
  - destruct (pa r3) as [a r4| | |] eqn:A; cbn [rbind] in H; try discriminate. inversion H; subst.
    apply Hpa in A. cbn [length] in *. lia.
  - inversion H; subst. lia.
Qed.

Lemma p_slash_len : forall pe a ts e rest,
  shrinks pe -> p_slash pe a ts = ROk e rest -> (length rest <= length ts)%nat.
Proof.
  intros pe a ts e rest Hpe H. unfold p_slash in H. destruct ts as [|t r]; [inversion H; subst; lia|].
  destruct (kind_is TSlash t).
  - destruct (pe r) as [b r'| | |] eqn:B; cbn [rbind] in H; try discriminate. inversion H; subst.
    apply Hpe in B. cbn [length]. lia.
  - inversion H; subst. lia.
Qed.

Lemma fuel_expr_args : forall n,
  (forall ts, (length ts < n)%nat -> p_expr n ts <> RFuel)
  /\ (forall acc ts, (length ts + 1 < n)%nat -> p_args n acc ts <> RFuel).
Proof.
  induction n as [|n [IHe IHa]]; [split; intros; lia|].
  split.
  - intros ts Hn. cbn [p_expr].
    destruct (p_atom (p_args n []) ts) as [a r| | |] eqn:A; cbn [rbind]; try discriminate.
    + apply p_slash_fuel. intros r' Hr'.
      assert (length r < length ts)%nat.
      { apply p_atom_sound in A; [|apply args_sound_of_acc, (proj2 (p_expr_args_sound n))].
        destruct A as (used & -> & G). apply g_atom_nonempty in G. destruct used; [contradiction|].
        rewrite app_length. cbn [length]. lia. }
      apply IHe. lia.
    + exfalso. revert A. apply p_atom_fuel. intros r3 H3. apply IHa. lia.
  - intros acc ts Hn. cbn [p_args]. destruct ts as [|t r]; [discriminate|].
    destruct (kind_is TRParen t); [discriminate|]. cbn [length] in Hn.
    assert (After : forall name (re : res expr),
              re <> RFuel -> (forall e r1, re = ROk e r1 -> (length r1 <= length r)%nat) ->
              rbind re (fun e r1 =>
                match r1 with
                | [] => RMore
                | t1 :: r2 =>
                  if kind_is TComma t1 then p_args n (acc ++ [(name, e)]) r2
                  else if kind_is TRParen t1 then ROk (acc ++ [(name, e)]) r2 else RErr r1
                end) <> RFuel).
    { intros name re NF Len. destruct re as [e r1| | |]; cbn [rbind]; try discriminate; [|contradiction].
      specialize (Len e r1 eq_refl). destruct r1 as [|t1 r2]; [discriminate|].
      destruct (kind_is TComma t1); [|destruct (kind_is TRParen t1); discriminate].
      apply IHa. cbn [length] in Len. lia. }
    destruct (kind_is TIdent t) eqn:KI.
    + destruct r as [|t2 r2]; [discriminate|]. cbn [length] in Hn. destruct (kind_is TColon t2).
      * apply After; [apply IHe; lia|]. intros e r1 H. apply p_expr_shrinks in H. cbn [length]. lia.
      * apply After.
        -- destruct (p_ref_atom (p_args n []) (tk_loc t2) (ident_name t) (t2 :: r2)) as [a r0| | |] eqn:A;
             cbn [rbind]; try discriminate.
           ++ apply p_slash_fuel. intros r' Hr'. apply p_ref_atom_len in A; [|apply p_args_shrinks].
              apply IHe. cbn [length] in A. lia.
           ++ exfalso. revert A. apply p_ref_atom_fuel. intros r3 H3. apply IHa. cbn [length] in H3. lia.
        -- intros e r1 H.
           destruct (p_ref_atom (p_args n []) (tk_loc t2) (ident_name t) (t2 :: r2)) as [a r0| | |] eqn:A;
             cbn [rbind] in H; try discriminate.
           apply p_ref_atom_len in A; [|apply p_args_shrinks].
           apply p_slash_len in H; [|apply p_expr_shrinks]. lia.
    + apply After; [apply IHe; cbn [length]; lia|]. intros e r1 H. apply p_expr_shrinks in H. cbn [length] in H. lia.
Qed.

Lemma expect_fuel : forall A k ts (f : token -> list token -> res A),
  (forall t r, ts = t :: r -> f t r <> RFuel) -> expect k ts f <> RFuel.
Proof.
  intros A k ts f H. unfold expect. destruct ts as [|t r]; [discriminate|].
  destruct (kind_is k t); [apply H; reflexivity | discriminate].
Qed.

Lemma p_stmt_fuel : forall n ts, (length ts < n)%nat -> p_stmt n ts <> RFuel.
Proof.
  intros n ts Hn. unfold p_stmt. destruct ts as [|t r]; [discriminate|]. cbn [length] in Hn.
  destruct (tk_type t); try discriminate.
  - apply expect_fuel. intros i r1 ->. apply expect_fuel. intros s r2 ->. discriminate.
  - apply expect_fuel. intros i r1 ->. apply expect_fuel. intros q r2 ->. cbn [length] in Hn.
    pose proof (proj1 (fuel_expr_args n) r2 ltac:(lia)) as F.
    destruct (p_expr n r2); cbn [rbind]; try discriminate; [|contradiction].
    apply expect_fuel. intros s r4 ->. discriminate.
  - pose proof (proj1 (fuel_expr_args n) (t :: r) ltac:(cbn [length]; lia)) as F.
    destruct (p_expr n (t :: r)); cbn [rbind]; try discriminate; [|contradiction].
    apply expect_fuel. intros s r4 ->. discriminate.
Qed.

Lemma p_stmt_shrinks : forall n, shrinks (p_stmt n).
Proof.
  intros n ts s rest H. apply p_stmt_sound in H. destruct H as (used & -> & G).
  rewrite app_length. destruct G; cbn [length]; lia.
Qed.

Lemma p_program_fuel : forall n acc ts, (length ts < n)%nat -> p_program n acc ts <> RFuel.
Proof.
  induction n as [|n IH]; intros acc ts Hn; [lia|]. cbn [p_program].
  destruct ts as [|t r]; [discriminate|]. destruct (kind_is TEof t); [destruct r; discriminate|].
  pose proof (p_stmt_fuel (S (length (t :: r))) (t :: r) ltac:(lia)) as F.
  destruct (p_stmt (S (length (t :: r))) (t :: r)) as [s r'| | |] eqn:S; cbn [rbind]; try discriminate; [|contradiction].
  apply p_stmt_shrinks in S. apply IH. lia.
Qed.
