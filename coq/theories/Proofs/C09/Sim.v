(** C09: the automaton simulates the reference parser, non-terminal by non-terminal.
    Each lemma says: if the parser reacts to the next token like the canonical state in which the
    automaton starts a non-terminal X, then feeding the tokens of X leaves it reacting to the
    lookahead like the canonical state that holds the finished X; if the reference parser
    rejects at some token, so does the automaton, at that token; if the reference parser runs
    out of tokens, the automaton has accepted them all and is not in Accept. *)
From RS Require Import Base.Bytes Base.Outcome Lex.Tokens Lex.Literals Interp.Val Interp.Ast.
From RS Require Import Parse.Verdict Parse.Automaton Parse.Grammar Parse.RefParser.
From RS Require Import Proofs.C09.Invariant Proofs.C09.Chain Proofs.C09.RefSound.
From Coq Require Import Lia.
Open Scope N_scope.

Definition sim {A} (p0 : parser) (ts : list token) (r : res A) (Q : A -> parser) : Prop :=
  match r with
  | ROk a rest =>
    exists used p1, ts = used ++ rest /\ feed_all p0 used = Ok p1 /\ p_state p1 <> StAccept
                    /\ behaves rest p1 (Q a)
  | RErr suf =>
    exists used p1 t suf', ts = used ++ suf /\ suf = t :: suf' /\ feed_all p0 used = Ok p1
                           /\ feed p1 t = Err EParse
  | RMore => exists p1, feed_all p0 ts = Ok p1 /\ p_state p1 <> StAccept
  | RFuel => True
  end.

Lemma sim_bind : forall A B p0 ts (r : res A) Q (f : A -> list token -> res B) Q2,
  sim p0 ts r Q ->
  (forall a rest used p1, r = ROk a rest -> ts = used ++ rest -> feed_all p0 used = Ok p1 ->
     p_state p1 <> StAccept -> behaves rest p1 (Q a) -> sim p1 rest (f a rest) Q2) ->
  sim p0 ts (rbind r f) Q2.
Proof.
  intros A B p0 ts r Q f Q2 H K. destruct r as [a rest|suf| |]; cbn [rbind sim] in *; try exact H.
  destruct H as (used & p1 & E & F & NA & Bh). specialize (K a rest used p1 eq_refl E F NA Bh).
  destruct (f a rest) as [b rest2|suf| |]; cbn [sim] in *.
  - destruct K as (used2 & p2 & E2 & F2 & NA2 & Bh2). exists (used ++ used2), p2. repeat split; auto.
    + rewrite E, E2, app_assoc. reflexivity.
    + rewrite (feed_all_app _ _ _ _ F). exact F2.
  - destruct K as (used2 & p2 & t & suf' & E2 & E3 & F2 & F3). exists (used ++ used2), p2, t, suf'. repeat split; auto.
    + rewrite E, E2, app_assoc. reflexivity.
    + rewrite (feed_all_app _ _ _ _ F). exact F2.
  - destruct K as (p2 & F2 & NA2). exists p2. split; auto. rewrite E, (feed_all_app _ _ _ _ F). exact F2.
  - exact I.
Qed.

Lemma sim_step : forall A p0 t r (x : res A) Q p1,
  feed p0 t = Ok p1 -> sim p1 r x Q -> sim p0 (t :: r) x Q.
Proof.
  intros A p0 t r x Q p1 F H. destruct x as [a rest|suf| |]; cbn [sim] in *.
  - destruct H as (used & p2 & E & F2 & NA & Bh). exists (t :: used), p2. repeat split; auto.
    + rewrite E. reflexivity.
    + rewrite feed_all_cons, F. exact F2.
  - destruct H as (used & p2 & t' & suf' & E & E2 & F2 & F3). exists (t :: used), p2, t', suf'. repeat split; auto.
    + rewrite E. reflexivity.
    + rewrite feed_all_cons, F. exact F2.
  - destruct H as (p2 & F2 & NA). exists p2. split; auto. rewrite feed_all_cons, F. exact F2.
  - exact I.
Qed.

Lemma sim_err : forall A p0 t r (Q : A -> parser), feed p0 t = Err EParse -> sim p0 (t :: r) (RErr (t :: r)) Q.
Proof. intros. cbn [sim]. exists [], p0, t, r. repeat split; auto. Qed.

Lemma sim_more : forall A p0 (Q : A -> parser), p_state p0 <> StAccept -> sim p0 [] RMore Q.
Proof. intros. cbn [sim]. exists p0. split; auto. Qed.

Lemma sim_ret : forall A p0 ts (a : A) Q, p_state p0 <> StAccept -> behaves ts p0 (Q a) -> sim p0 ts (ROk a ts) Q.
Proof. intros. cbn [sim]. exists [], p0. repeat split; auto. Qed.

Lemma sim_weaken : forall A p0 ts (r : res A) (Q Q' : A -> parser),
  sim p0 ts r Q -> (forall a rest, r = ROk a rest -> behaves rest (Q a) (Q' a)) -> sim p0 ts r Q'.
Proof.
  intros A p0 ts r Q Q' H W. destruct r as [a rest|suf| |]; cbn [sim] in *; try exact H.
  destruct H as (used & p1 & E & F & NA & Bh). exists used, p1. repeat split; auto.
  eapply behaves_trans; [exact Bh | apply W; reflexivity].
Qed.

Lemma behaves_feed : forall p0 t r q x,
  pinv p0 -> tok_ok t = true -> behaves (t :: r) p0 q -> feedR t q x -> feed p0 t = x.
Proof. intros p0 t r q x Hp Ht B F. apply feed_eq; auto. eapply B; eauto. Qed.

(* ---------------------------------------------------------------- canonical states *)

Definition pb (l : loc) (m o : list string) : path_builder := {| pb_loc := l; pb_module := m; pb_object := o |}.

(** in the '::' loop: current last name [cur], modules so far [mods] *)
Definition Qmod l mods cur k ss := mk StRefComponent (NComponent cur :: NPath (pb l mods []) :: k) ss.
(** at the end of a reference component: [s] is RefComponent or RefObjEnd *)
Definition Qref s l mods done cur k ss := mk s (NComponent cur :: NPath (pb l mods done) :: k) ss.
(** a finished atom / expression *)
Definition Qatom k ss (a : expr) := mk StSlash (NExpr a :: k) ss.
Definition Qexpr k ss (e : expr) := mk StReduceExpr (NExpr e :: k) ss.
(** expecting an argument or ')' *)
Definition Qargs o acc k ss := mk StExprArg (NArgList acc :: NObject o :: k) ss.

Ltac unfold_canon := unfold Qmod, Qref, Qatom, Qexpr, Qargs, pb.

(* ---------------------------------------------------------------- evaluating dispatch *)

Lemma FR_discard' : forall t p p' s q,
  dispatch p t = Ok (p', ADiscard s) -> q = set_state p' s -> feedR t p (Ok q).
Proof. intros; subst; eapply FR_discard; eauto. Qed.
Lemma FR_shift' : forall t p p' s n q,
  dispatch p t = Ok (p', AShift s n) -> q = set_state (push n p') s -> feedR t p (Ok q).
Proof. intros; subst; eapply FR_shift; eauto. Qed.
Lemma FR_accept' : forall t p p' q,
  dispatch p t = Ok (p', AAccept) -> q = set_state p' StAccept -> feedR t p (Ok q).
Proof. intros; subst; eapply FR_accept; eauto. Qed.
Lemma FR_goto' : forall t p p' s q r,
  dispatch p t = Ok (p', AGoto s) -> q = set_state p' s -> feedR t q r -> feedR t p r.
Proof. intros; subst; eapply FR_goto; eauto. Qed.
Lemma GR_step' : forall t p p' s q r,
  dispatch p t = Ok (p', AGoto s) -> q = set_state p' s -> gotoR t q r -> gotoR t p r.
Proof. intros; subst; eapply GR_step; eauto. Qed.

Ltac kinds :=
  repeat match goal with K : tk_type ?t = _ |- context [tk_type ?t] => rewrite K end.

Ltac dispatch_eval :=
  unfold_canon; unfold mk; unfold dispatch; cbn [p_state p_stack p_stmts set_state push push_goto];
  lazymatch goal with |- ?f _ _ = _ => unfold f end;
  kinds; cbn -[val_of_token token_string N.leb wrap16 app];
  unfold push_literal; kinds;
  cbn -[val_of_token token_string N.leb wrap16 app];
  repeat (first [ match goal with H : token_string ?t = _ |- context [token_string ?t] => rewrite H end
                | match goal with H : val_of_token ?t = _ |- context [val_of_token ?t] => rewrite H end
                | match goal with H : N.leb ?a ?b = _ |- context [N.leb ?a ?b] => rewrite H end ];
          cbn -[val_of_token token_string N.leb wrap16 app]);
  reflexivity.

Ltac fr_discard := eapply FR_discard'; [dispatch_eval | reflexivity].
Ltac fr_shift := eapply FR_shift'; [dispatch_eval | reflexivity].
Ltac fr_err := eapply FR_err; dispatch_eval.
Ltac fr_goto := eapply FR_goto'; [dispatch_eval | reflexivity | ].
Ltac gr_step := eapply GR_step'; [dispatch_eval | reflexivity | ].
Ltac gr_done := apply GR_refl.

(** case analysis on the kind of a token, keeping the equation and dropping the kinds that the
    hypotheses of the form [kind_is k t = false / true] exclude *)
Ltac kind_cases t :=
  let K := fresh "K" in
  destruct (tk_type t) eqn:K;
  repeat match goal with
         | H : kind_is _ t = _ |- _ => unfold kind_is in H; rewrite K in H; cbn [toktype_eqb] in H
         end;
  try discriminate.

(* ---------------------------------------------------------------- references *)


Lemma tok_inv : forall t r, toks_ok (t :: r) -> tok_ok t = true /\ toks_ok r.
Proof. intros t r H. inversion H; subst. split; assumption. Qed.

Lemma sim_modules : forall ts mods cur l k ss p0,
  toks_ok ts -> pinv p0 -> p_state p0 <> StAccept -> behaves ts p0 (Qmod l mods cur k ss) ->
  sim p0 ts (p_modules mods cur ts) (fun mc => Qmod l (fst mc) (snd mc) k ss).
Proof.
  induction ts as [|t1|t1 t2 r IH] using list_ind2; intros mods cur l k ss p0 Hts Hp NA B; cbn [p_modules].
  - apply sim_ret; [exact NA | apply behaves_nil].
  - destruct (tok_inv _ _ Hts) as [Ht1 _]. destruct (kind_is TDoubleColon t1) eqn:K1.
    + apply kind_is_true in K1. unfold is in K1.
      eapply sim_step; [|apply sim_more].
      * eapply behaves_feed; [exact Hp | exact Ht1 | exact B | fr_discard].
      * cbn. discriminate.
    + apply sim_ret; assumption.
  - destruct (tok_inv _ _ Hts) as [Ht1 Hts']. destruct (tok_inv _ _ Hts') as [Ht2 Hr].
    destruct (kind_is TDoubleColon t1) eqn:K1.
    + apply kind_is_true in K1. unfold is in K1.
      assert (F1 : feed p0 t1 = Ok (mk StReduceModule (NComponent cur :: NPath (pb l mods []) :: k) ss))
        by (eapply behaves_feed; [exact Hp | exact Ht1 | exact B | fr_discard]).
      pose proof (feed_inv p0 t1 Hp Ht1) as Hp1. rewrite F1 in Hp1. cbn [feed_post] in Hp1.
      destruct (kind_is TIdent t2) eqn:K2.
      * apply kind_is_true in K2. unfold is in K2.
        pose proof (token_string_name t2 Ht2 K2) as S2.
        assert (F2 : feed (mk StReduceModule (NComponent cur :: NPath (pb l mods []) :: k) ss) t2
                     = Ok (Qmod l (mods ++ [cur]) (ident_name t2) k ss)).
        { apply feed_eq; [exact Hp1 | exact Ht2|]. fr_goto. fr_shift. }
        pose proof (feed_inv _ t2 Hp1 Ht2) as Hp2. rewrite F2 in Hp2. cbn [feed_post] in Hp2.
        eapply sim_step; [exact F1|]. eapply sim_step; [exact F2|].
        apply IH; [exact Hr | exact Hp2 | cbn; discriminate | apply behaves_refl].
      * cbn [sim]. exists [t1], (mk StReduceModule (NComponent cur :: NPath (pb l mods []) :: k) ss), t2, r.
        repeat split; [rewrite feed_all_cons, F1; reflexivity|].
        apply feed_eq; [exact Hp1 | exact Ht2|]. fr_goto. kind_cases t2; fr_err.
    + apply sim_ret; assumption.
Qed.

Definition hd_not (k : toktype) (ts : list token) : Prop :=
  match ts with t :: _ => kind_is k t = false | [] => True end.

Lemma p_modules_rest : forall ts mods cur mc rest,
  p_modules mods cur ts = ROk mc rest -> hd_not TDoubleColon rest.
Proof.
  induction ts as [|t1|t1 t2 r IH] using list_ind2; intros mods cur mc rest H; cbn [p_modules] in H.
  - inversion H; subst. exact I.
  - destruct (kind_is TDoubleColon t1) eqn:K; [discriminate|]. inversion H; subst. exact K.
  - destruct (kind_is TDoubleColon t1) eqn:K.
    + destruct (kind_is TIdent t2); [|discriminate]. eapply IH, H.
    + inversion H; subst. exact K.
Qed.

(** what follows the '.' loop: an argument list, or nothing *)
Definition ref_end (pa : list token -> res (list arg)) (l : loc) (ms comps : list string) (r2 : list token)
  : res expr :=
  match r2 with
  | t :: r3 =>
    if kind_is TLParen t then rbind (pa r3) (fun a r4 => ROk (ECall l ms comps a) r4)
    else ROk (ERef l ms comps) r2
  | [] => ROk (ERef l ms comps) []
  end.

Lemma p_ref_atom_eq : forall pa l first ts,
  p_ref_atom pa l first ts
  = rbind (p_modules [] first ts) (fun mc r1 =>
    rbind (p_members [snd mc] r1) (fun comps r2 => ref_end pa l (fst mc) comps r2)).
Proof. reflexivity. Qed.

Definition args_sim (pa : list token -> res (list arg)) : Prop :=
  forall ts o k ss p0, toks_ok ts -> pinv p0 -> p_state p0 <> StAccept ->
  behaves ts p0 (Qargs o [] k ss) ->
  sim p0 ts (pa ts) (fun args => Qatom k ss (expr_of_call {| c_obj := o; c_args := args |})).

Definition ref_state (s : state) : Prop := s = StRefComponent \/ s = StRefObjEnd.

Lemma sim_ref_end : forall ts s l mods done cur k ss p0 pa,
  args_sim pa -> ref_state s -> (s = StRefComponent -> hd_not TDoubleColon ts) -> hd_not TDot ts ->
  toks_ok ts -> pinv p0 -> p_state p0 <> StAccept ->
  behaves ts p0 (Qref s l mods done cur k ss) ->
  sim p0 ts (ref_end pa l mods (done ++ [cur]) ts) (Qatom k ss).
Proof.
  intros ts s l mods done cur k ss p0 pa Hpa Hs Hdc Hdot Hts Hp NA B. unfold ref_end.
  destruct ts as [|t r3]; [apply sim_ret; [exact NA | apply behaves_nil]|].
  destruct (tok_inv _ _ Hts) as [Ht Hr]. cbn [hd_not] in Hdc, Hdot.
  destruct (kind_is TLParen t) eqn:KL.
  - apply kind_is_true in KL. unfold is in KL.
    assert (F1 : feed p0 t = Ok (mk StReduceRefCall (NComponent cur :: NPath (pb l mods done) :: k) ss)).
    { eapply behaves_feed; [exact Hp | exact Ht | exact B |]. destruct Hs as [-> | ->]; fr_discard. }
    pose proof (feed_inv p0 t Hp Ht) as Hp1. rewrite F1 in Hp1. cbn [feed_post] in Hp1.
    eapply sim_step; [exact F1|].
    eapply sim_bind.
    + apply (Hpa r3 {| or_loc := l; or_modules := mods; or_components := done ++ [cur] |} k ss);
        [exact Hr | exact Hp1 | cbn; discriminate|].
      apply behaves_goto. intros t' r' _ Ht'. gr_step. gr_done.
    + intros a rest used p1 _ _ _ NA1 B1. apply sim_ret; [exact NA1 | exact B1].
  - apply sim_ret; [exact NA|]. eapply behaves_trans; [exact B|].
    apply behaves_goto. intros t' r' E Ht'. inversion E; subst t' r'.
    destruct Hs as [-> | ->].
    + specialize (Hdc eq_refl). kind_cases t; gr_step; gr_step; gr_step; gr_done.
    + kind_cases t; gr_step; gr_step; gr_step; gr_done.
Qed.

Lemma p_members_stop : forall comps ts, hd_not TDot ts -> p_members comps ts = ROk comps ts.
Proof. intros comps [|t r] H; cbn [p_members]; [reflexivity|]. cbn [hd_not] in H. rewrite H. reflexivity. Qed.

Lemma sim_ref_tail : forall ts s l mods done cur k ss p0 pa,
  args_sim pa -> ref_state s -> (s = StRefComponent -> hd_not TDoubleColon ts) ->
  toks_ok ts -> pinv p0 -> p_state p0 <> StAccept ->
  behaves ts p0 (Qref s l mods done cur k ss) ->
  sim p0 ts (rbind (p_members (done ++ [cur]) ts) (fun comps r2 => ref_end pa l mods comps r2)) (Qatom k ss).
Proof.
  induction ts as [|t1|t1 t2 r IH] using list_ind2; intros s l mods done cur k ss p0 pa Hpa Hs Hdc Hts Hp NA B.
  - rewrite p_members_stop by exact I. cbn [rbind].
    apply (sim_ref_end [] s l mods done cur k ss p0 pa); auto; exact I.
  - destruct (tok_inv _ _ Hts) as [Ht1 _]. destruct (kind_is TDot t1) eqn:K1.
    + cbn [p_members]. rewrite K1. cbn [rbind]. apply kind_is_true in K1. unfold is in K1.
      eapply sim_step; [|apply sim_more].
      * eapply behaves_feed; [exact Hp | exact Ht1 | exact B |]. destruct Hs as [-> | ->]; fr_discard.
      * cbn. discriminate.
    + rewrite p_members_stop by exact K1. cbn [rbind].
      apply (sim_ref_end [t1] s l mods done cur k ss p0 pa); auto.
  - destruct (tok_inv _ _ Hts) as [Ht1 Hts']. destruct (tok_inv _ _ Hts') as [Ht2 Hr].
    destruct (kind_is TDot t1) eqn:K1.
    + cbn [p_members]. rewrite K1. apply kind_is_true in K1. unfold is in K1.
      assert (F1 : feed p0 t1 = Ok (mk StReduceObject (NComponent cur :: NPath (pb l mods done) :: k) ss)).
      { eapply behaves_feed; [exact Hp | exact Ht1 | exact B |]. destruct Hs as [-> | ->]; fr_discard. }
      pose proof (feed_inv p0 t1 Hp Ht1) as Hp1. rewrite F1 in Hp1. cbn [feed_post] in Hp1.
      destruct (kind_is TIdent t2) eqn:K2.
      * apply kind_is_true in K2. unfold is in K2.
        pose proof (token_string_name t2 Ht2 K2) as S2.
        assert (F2 : feed (mk StReduceObject (NComponent cur :: NPath (pb l mods done) :: k) ss) t2
                     = Ok (Qref StRefObjEnd l mods (done ++ [cur]) (ident_name t2) k ss)).
        { apply feed_eq; [exact Hp1 | exact Ht2|]. fr_goto. fr_shift. }
        pose proof (feed_inv _ t2 Hp1 Ht2) as Hp2. rewrite F2 in Hp2. cbn [feed_post] in Hp2.
        eapply sim_step; [exact F1|]. eapply sim_step; [exact F2|].
        apply (IH StRefObjEnd l mods (done ++ [cur]) (ident_name t2) k ss _ pa);
          [exact Hpa | right; reflexivity | discriminate | exact Hr | exact Hp2 | cbn; discriminate
          | apply behaves_refl].
      * cbn [rbind sim].
        exists [t1], (mk StReduceObject (NComponent cur :: NPath (pb l mods done) :: k) ss), t2, r.
        repeat split; [rewrite feed_all_cons, F1; reflexivity|].
        apply feed_eq; [exact Hp1 | exact Ht2|]. fr_goto. kind_cases t2; fr_err.
    + rewrite p_members_stop by exact K1. cbn [rbind].
      apply (sim_ref_end (t1 :: t2 :: r) s l mods done cur k ss p0 pa); auto.
Qed.

Lemma sim_ref_atom : forall ts l first k ss p0 pa,
  args_sim pa -> toks_ok ts -> pinv p0 -> p_state p0 <> StAccept ->
  behaves ts p0 (Qmod l [] first k ss) ->
  sim p0 ts (p_ref_atom pa l first ts) (Qatom k ss).
Proof.
  intros ts l first k ss p0 pa Hpa Hts Hp NA B. rewrite p_ref_atom_eq.
  eapply sim_bind; [apply (sim_modules ts [] first l k ss p0); assumption|].
  intros [ms c] r1 used p1 E1 E2 F1 NA1 B1. cbn [fst snd] in *.
  subst ts. destruct (toks_ok_app _ _ Hts) as [Hu Hr1].
  pose proof (feed_all_pinv _ _ _ Hp Hu F1) as Hp1.
  apply (sim_ref_tail r1 StRefComponent l ms [] c k ss p1 pa); auto.
  - left. reflexivity.
  - intros _. eapply p_modules_rest, E1.
Qed.

(* ---------------------------------------------------------------- atoms *)

Lemma wrap16_small : forall n, n <= 65535 -> wrap16 n = n.
Proof. intros n H. unfold wrap16. apply N.mod_small. lia. Qed.

Ltac lit_val t Ht K :=
  let X := fresh "X" in let v := fresh "v" in let Hv := fresh "Hv" in let Hk := fresh "Hk" in
  pose proof (val_of_token_cases t Ht) as X; rewrite K in X; specialize (X eq_refl);
  cbn [val_of_kind] in X; destruct X as [[v [Hv Hk]]|Hv].

Lemma sim_atom : forall ts k ss p0 pa,
  args_sim pa -> toks_ok ts -> pinv p0 -> p_state p0 <> StAccept ->
  behaves ts p0 (mk StExpr k ss) ->
  sim p0 ts (p_atom pa ts) (Qatom k ss).
Proof.
  intros ts k ss p0 pa Hpa Hts Hp NA B. unfold p_atom.
  destruct ts as [|t r]; [apply sim_more, NA|].
  destruct (tok_inv _ _ Hts) as [Ht Hr].
  assert (Lit : forall v, val_of_token t = Ok v ->
            (tk_type t = TStringLit \/ tk_type t = TBoolLit \/ tk_type t = THexLit \/ tk_type t = TIntLit) ->
            sim p0 (t :: r) (ROk (ELit (tk_loc t) v) r) (Qatom k ss)).
  { intros v Hv HK.
    assert (F1 : feed p0 t = Ok (mk StReduceLiteralExpr (NLiteral v :: NLoc (tk_loc t) :: k) ss)).
    { eapply behaves_feed; [exact Hp | exact Ht | exact B |]. destruct HK as [K|[K|[K|K]]]; fr_shift. }
    eapply sim_step; [exact F1|]. apply sim_ret; [cbn; discriminate|].
    apply behaves_goto. intros t' r' _ Ht'. gr_step. gr_done. }
  assert (Bad : val_of_token t = Err EParse -> is_literal_kind (tk_type t) = true ->
                feed p0 t = Err EParse).
  { intros Hv HK. eapply behaves_feed; [exact Hp | exact Ht | exact B |].
    destruct (tk_type t) eqn:K; try discriminate; fr_err. }
  destruct (tk_type t) eqn:K; try (apply sim_err; eapply behaves_feed; [exact Hp | exact Ht | exact B | fr_err]).
  - (* bool *) lit_val t Ht K; rewrite Hv.
    + apply Lit; [exact Hv | try rewrite K; auto 6].
    + apply sim_err, Bad; [exact Hv | try rewrite K; reflexivity].
  - (* ident *)
    pose proof (token_string_name t Ht K) as S.
    assert (F1 : feed p0 t = Ok (Qmod (tk_loc t) [] (ident_name t) k ss))
      by (eapply behaves_feed; [exact Hp | exact Ht | exact B | fr_shift]).
    pose proof (feed_inv p0 t Hp Ht) as Hp1. rewrite F1 in Hp1. cbn [feed_post] in Hp1.
    eapply sim_step; [exact F1|].
    apply sim_ref_atom; [exact Hpa | exact Hr | exact Hp1 | cbn; discriminate | apply behaves_refl].
  - (* ipv4 *) lit_val t Ht K; rewrite Hv.
    2:{ apply sim_err, Bad; [exact Hv | try rewrite K; reflexivity]. }
    destruct Hk as [a ->].
    assert (F1 : feed p0 t = Ok (mk StIPv4 (NLiteral (VIp4 a) :: NLoc (tk_loc t) :: k) ss))
      by (eapply behaves_feed; [exact Hp | exact Ht | exact B | fr_shift]).
    pose proof (feed_inv p0 t Hp Ht) as Hp1. rewrite F1 in Hp1. cbn [feed_post] in Hp1.
    destruct r as [|c r1].
    { eapply sim_step; [exact F1|]. apply sim_ret; [cbn; discriminate | apply behaves_nil]. }
    destruct (tok_inv _ _ Hr) as [Hc Hr1].
    destruct (kind_is TColon c) eqn:KC.
    + apply kind_is_true in KC. unfold is in KC.
      assert (F2 : feed (mk StIPv4 (NLiteral (VIp4 a) :: NLoc (tk_loc t) :: k) ss) c
                   = Ok (mk StIPv4Colon (NLiteral (VIp4 a) :: NLoc (tk_loc t) :: k) ss))
        by (apply feed_eq; [exact Hp1 | exact Hc | fr_discard]).
      pose proof (feed_inv _ c Hp1 Hc) as Hp2. rewrite F2 in Hp2. cbn [feed_post] in Hp2.
      destruct r1 as [|p r2].
      { eapply sim_step; [exact F1|]. eapply sim_step; [exact F2|]. apply sim_more. cbn. discriminate. }
      destruct (tok_inv _ _ Hr1) as [Hpt Hr2].
      assert (Rej : feed (mk StIPv4Colon (NLiteral (VIp4 a) :: NLoc (tk_loc t) :: k) ss) p = Err EParse ->
                    sim p0 (t :: c :: p :: r2) (RErr (p :: r2)) (Qatom k ss)).
      { intros F3. cbn [sim]. exists [t; c], (mk StIPv4Colon (NLiteral (VIp4 a) :: NLoc (tk_loc t) :: k) ss), p, r2.
        repeat split; [|exact F3]. rewrite feed_all_cons, F1. cbn [obind]. rewrite feed_all_cons, F2. reflexivity. }
      destruct (kind_is TIntLit p) eqn:KP.
      * apply kind_is_true in KP. unfold is in KP. lit_val p Hpt KP; rewrite Hv0.
        2:{ apply Rej. apply feed_eq; [exact Hp2 | exact Hpt | fr_err]. }
        destruct Hk as [n ->]. destruct (n <=? 65535) eqn:LE.
        2:{ apply Rej. apply feed_eq; [exact Hp2 | exact Hpt | fr_err]. }
        assert (F3 : feed (mk StIPv4Colon (NLiteral (VIp4 a) :: NLoc (tk_loc t) :: k) ss) p
                     = Ok (mk StReduceSockAddr (NLiteral (VU64 n) :: NLoc (tk_loc p) :: NLiteral (VIp4 a)
                                                 :: NLoc (tk_loc t) :: k) ss))
          by (apply feed_eq; [exact Hp2 | exact Hpt | fr_shift]).
        eapply sim_step; [exact F1|]. eapply sim_step; [exact F2|]. eapply sim_step; [exact F3|].
        apply sim_ret; [cbn; discriminate|].
        apply behaves_goto. intros t' r' _ Ht'. apply N.leb_le in LE.
        rewrite <- (wrap16_small n LE) at 2. gr_step. gr_step. gr_done.
      * apply Rej. apply feed_eq; [exact Hp2 | exact Hpt|]. kind_cases p; fr_err.
    + eapply sim_step; [exact F1|]. apply sim_ret; [cbn; discriminate|].
      apply behaves_goto. intros t' r' E Ht'. inversion E; subst t' r'.
      kind_cases c; gr_step; gr_step; gr_done.
  - (* string *) lit_val t Ht K; rewrite Hv.
    + apply Lit; [exact Hv | try rewrite K; auto 6].
    + apply sim_err, Bad; [exact Hv | try rewrite K; reflexivity].
  - (* hex *) lit_val t Ht K; rewrite Hv.
    + apply Lit; [exact Hv | try rewrite K; auto 6].
    + apply sim_err, Bad; [exact Hv | try rewrite K; reflexivity].
  - (* int *) lit_val t Ht K; rewrite Hv.
    + apply Lit; [exact Hv | try rewrite K; auto 6].
    + apply sim_err, Bad; [exact Hv | try rewrite K; reflexivity].
Qed.

(* ---------------------------------------------------------------- expressions and arguments *)

Definition expr_sim (pe : list token -> res expr) : Prop :=
  forall ts k ss p0, toks_ok ts -> pinv p0 -> p_state p0 <> StAccept ->
  behaves ts p0 (mk StExpr k ss) -> sim p0 ts (pe ts) (Qexpr k ss).

Lemma sim_slash : forall ts a k ss p0 pe,
  expr_sim pe -> toks_ok ts -> pinv p0 -> p_state p0 <> StAccept ->
  behaves ts p0 (Qatom k ss a) ->
  sim p0 ts (p_slash pe a ts) (Qexpr k ss).
Proof.
  intros ts a k ss p0 pe Hpe Hts Hp NA B. unfold p_slash.
  destruct ts as [|t r]; [apply sim_ret; [exact NA | apply behaves_nil]|].
  destruct (tok_inv _ _ Hts) as [Ht Hr]. destruct (kind_is TSlash t) eqn:K.
  - apply kind_is_true in K. unfold is in K.
    assert (F1 : feed p0 t = Ok (mk StExpr (NState StReduceBop :: NSlash :: NExpr a :: k) ss))
      by (eapply behaves_feed; [exact Hp | exact Ht | exact B | fr_discard]).
    pose proof (feed_inv p0 t Hp Ht) as Hp1. rewrite F1 in Hp1. cbn [feed_post] in Hp1.
    eapply sim_step; [exact F1|]. eapply sim_bind.
    + apply Hpe; [exact Hr | exact Hp1 | cbn; discriminate | apply behaves_refl].
    + intros b rest used p1 _ _ _ NA1 B1. apply sim_ret; [exact NA1|].
      eapply behaves_trans; [exact B1|]. apply behaves_goto. intros t' r' _ Ht'.
      gr_step. gr_step. gr_done.
  - apply sim_ret; [exact NA|]. eapply behaves_trans; [exact B|].
    apply behaves_goto. intros t' r' E Ht'. inversion E; subst t' r'. kind_cases t; gr_step; gr_done.
Qed.

Definition args_sim_acc (pa : list arg -> list token -> res (list arg)) : Prop :=
  forall acc ts o k ss p0, toks_ok ts -> pinv p0 -> p_state p0 <> StAccept ->
  behaves ts p0 (Qargs o acc k ss) ->
  sim p0 ts (pa acc ts) (fun args => Qatom k ss (expr_of_call {| c_obj := o; c_args := args |})).

(** the context of an argument value *)
Definition karg (n : option string) (acc : list arg) (o : object_ref) (k : list node) : list node :=
  NState StReduceArg :: NArgName n :: NArgList acc :: NObject o :: k.

Definition Qargnext o acc k ss := mk StArgNext (NArgList acc :: NObject o :: k) ss.
Definition Qcalled o acc k ss := mk StReduceCall (NState StReduceArg :: NArgList acc :: NObject o :: k) ss.

Ltac unfold_canon ::= unfold Qmod, Qref, Qatom, Qexpr, Qargs, Qargnext, Qcalled, karg, pb.

(** StArgVal reacts like StExpr in the argument context, except to ')' *)
Lemma argval_behaves : forall t r n acc o k ss,
  kind_is TRParen t = false ->
  behaves (t :: r) (mk StArgVal (NArgName n :: NArgList acc :: NObject o :: k) ss)
          (mk StExpr (karg n acc o k) ss).
Proof.
  intros t r n acc o k ss KR t' r' E Ht' res F. inversion E; subst t' r'.
  assert (D : dispatch (mk StArgVal (NArgName n :: NArgList acc :: NObject o :: k) ss) t
              = match dispatch (mk StExpr (karg n acc o k) ss) t with
                | Ok (p', a) => Ok (set_state p' StArgVal, a)
                | Err e => Err e | Panic s => Panic s | OutOfFuel => OutOfFuel
                end).
  { unfold_canon. unfold mk, dispatch. cbn [p_state]. unfold state_arg_val, state_expr, push_literal.
    kind_cases t; cbn -[val_of_token token_string]; try reflexivity.
    all: try (destruct (val_of_token t); reflexivity).
    all: try (destruct (token_string t); reflexivity). }
  inversion F; subst; rewrite H in D.
  - eapply FR_err; exact D.
  - eapply FR_discard'; [exact D | reflexivity].
  - eapply FR_shift'; [exact D | reflexivity].
  - eapply FR_accept'; [exact D | reflexivity].
  - eapply FR_goto'; [exact D | reflexivity | exact H0].
Qed.

Lemma calldone_behaves : forall l o acc k ss,
  behaves l (Qcalled o acc k ss) (Qatom k ss (expr_of_call {| c_obj := o; c_args := acc |})).
Proof. intros. apply behaves_goto. intros t r _ Ht. gr_step. gr_step. gr_done. Qed.

Lemma sim_expr_args : forall n, expr_sim (p_expr n) /\ args_sim_acc (p_args n).
Proof.
  induction n as [|n [IHe IHa]]; [split; [intros ts k ss p0 _ _ _ _ | intros acc ts o k ss p0 _ _ _ _]; exact I|].
  assert (Hpa : args_sim (p_args n [])) by (intros ts o k ss p0; apply IHa).
  assert (He : expr_sim (p_expr (S n))).
  { intros ts k ss p0 Hts Hp NA B. cbn [p_expr]. eapply sim_bind.
    - apply sim_atom; eauto.
    - intros a rest used p1 _ E F NA1 B1. subst ts. destruct (toks_ok_app _ _ Hts) as [Hu Hr].
      apply sim_slash; [exact IHe | exact Hr | exact (feed_all_pinv _ _ _ Hp Hu F) | exact NA1 | exact B1]. }
  split; [exact He|].
  intros acc ts o k ss p0 Hts Hp NA B. cbn [p_args].
  destruct ts as [|t r]; [apply sim_more, NA|].
  destruct (tok_inv _ _ Hts) as [Ht Hr].
  destruct (kind_is TRParen t) eqn:KR.
  { apply kind_is_true in KR. unfold is in KR.
    assert (F1 : feed p0 t = Ok (Qcalled o acc k ss))
      by (eapply behaves_feed; [exact Hp | exact Ht | exact B | fr_goto; fr_discard]).
    eapply sim_step; [exact F1|]. apply sim_ret; [cbn; discriminate | apply calldone_behaves]. }
  (* after the value of an argument *)
  assert (After : forall name (re : res expr) tsa p1,
            toks_ok tsa -> pinv p1 ->
            sim p1 tsa re (Qexpr (karg name acc o k) ss) ->
            sim p1 tsa
              (rbind re (fun e r1 =>
                 match r1 with
                 | [] => RMore
                 | t1 :: r2 =>
                   if kind_is TComma t1 then p_args n (acc ++ [(name, e)]) r2
                   else if kind_is TRParen t1 then ROk (acc ++ [(name, e)]) r2 else RErr r1
                 end))
              (fun args => Qatom k ss (expr_of_call {| c_obj := o; c_args := args |}))).
  { intros name re tsa p1 Htsa Hp1 S. eapply sim_bind; [exact S|].
    intros e r1 used p2 _ E F NA2 B2. subst tsa. destruct (toks_ok_app _ _ Htsa) as [Hu Hr1].
    pose proof (feed_all_pinv _ _ _ Hp1 Hu F) as Hp2.
    destruct r1 as [|t1 r2]; [apply sim_more, NA2|].
    destruct (tok_inv _ _ Hr1) as [Ht1 Hr2].
    assert (B3 : behaves (t1 :: r2) p2 (Qargnext o (acc ++ [(name, e)]) k ss)).
    { eapply behaves_trans; [exact B2|]. apply behaves_goto. intros t' r' _ Ht'. gr_step. gr_step. gr_done. }
    destruct (kind_is TComma t1) eqn:KC.
    - apply kind_is_true in KC. unfold is in KC.
      assert (F1 : feed p2 t1 = Ok (Qargs o (acc ++ [(name, e)]) k ss))
        by (eapply behaves_feed; [exact Hp2 | exact Ht1 | exact B3 | fr_discard]).
      pose proof (feed_inv p2 t1 Hp2 Ht1) as Hp3. rewrite F1 in Hp3. cbn [feed_post] in Hp3.
      eapply sim_step; [exact F1|].
      apply IHa; [exact Hr2 | exact Hp3 | cbn; discriminate | apply behaves_refl].
    - destruct (kind_is TRParen t1) eqn:KP.
      + apply kind_is_true in KP. unfold is in KP.
        assert (F1 : feed p2 t1 = Ok (Qcalled o (acc ++ [(name, e)]) k ss))
          by (eapply behaves_feed; [exact Hp2 | exact Ht1 | exact B3 | fr_shift]).
        eapply sim_step; [exact F1|]. apply sim_ret; [cbn; discriminate | apply calldone_behaves].
      + apply sim_err. eapply behaves_feed; [exact Hp2 | exact Ht1 | exact B3 |]. kind_cases t1; fr_err. }
  destruct (kind_is TIdent t) eqn:KI.
  - apply kind_is_true in KI. unfold is in KI.
    pose proof (token_string_name t Ht KI) as S.
    assert (F1 : feed p0 t = Ok (mk StArgName (NArgName (Some (ident_name t)) :: NArgList acc :: NObject o :: k) ss))
      by (eapply behaves_feed; [exact Hp | exact Ht | exact B | fr_shift]).
    pose proof (feed_inv p0 t Hp Ht) as Hp1. rewrite F1 in Hp1. cbn [feed_post] in Hp1.
    destruct r as [|t2 r2]; [eapply sim_step; [exact F1 | apply sim_more; cbn; discriminate]|].
    destruct (tok_inv _ _ Hr) as [Ht2 Hr2].
    destruct (kind_is TColon t2) eqn:KC.
    + apply kind_is_true in KC. unfold is in KC.
      assert (F2 : feed (mk StArgName (NArgName (Some (ident_name t)) :: NArgList acc :: NObject o :: k) ss) t2
                   = Ok (mk StArgVal (NArgName (Some (ident_name t)) :: NArgList acc :: NObject o :: k) ss))
        by (apply feed_eq; [exact Hp1 | exact Ht2 | fr_discard]).
      pose proof (feed_inv _ t2 Hp1 Ht2) as Hp2. rewrite F2 in Hp2. cbn [feed_post] in Hp2.
      eapply sim_step; [exact F1|]. eapply sim_step; [exact F2|].
      apply After; [exact Hr2 | exact Hp2|].
      destruct r2 as [|t3 r3].
      { destruct n; [exact I|]. cbn [p_expr p_atom rbind]. apply sim_more. cbn. discriminate. }
      destruct (kind_is TRParen t3) eqn:K3.
      * (* name: directly before ')' : both reject *)
        apply kind_is_true in K3. unfold is in K3. destruct (tok_inv _ _ Hr2) as [Ht3 _].
        destruct n; [exact I|]. cbn [p_expr]. unfold p_atom. rewrite K3. cbn [rbind].
        apply sim_err. apply feed_eq; [exact Hp2 | exact Ht3 | fr_err].
      * apply IHe; [exact Hr2 | exact Hp2 | cbn; discriminate | apply argval_behaves, K3].
    + eapply sim_step; [exact F1|]. apply After; [exact Hr | exact Hp1|].
      eapply sim_bind.
      * apply sim_ref_atom; [exact Hpa | exact Hr | exact Hp1 | cbn; discriminate|].
        apply behaves_goto. intros t' r' E Ht'. inversion E; subst t' r'.
        kind_cases t2; gr_step; gr_done.
      * intros a rest used p2 _ E F NA2 B2. rewrite E in Hr. destruct (toks_ok_app _ _ Hr) as [Hu Hrest].
        apply sim_slash; [exact IHe | exact Hrest | exact (feed_all_pinv _ _ _ Hp1 Hu F) | exact NA2 | exact B2].
  - apply After; [exact Hts | exact Hp|].
    apply IHe; [exact Hts | exact Hp | exact NA|].
    eapply behaves_trans; [exact B|].
    eapply behaves_trans; [|apply argval_behaves, KR].
    apply behaves_goto. intros t' r' E Ht'. inversion E; subst t' r'. kind_cases t; gr_step; gr_done.
Qed.
