(** C09: malformed tokens (an identifier or literal token without text) never help: replacing them by
    well-formed tokens of the same kind keeps every sentence a sentence.  Hence "cannot be continued
    by well-formed tokens" is the same as "cannot be continued at all". *)
From RS Require Import Base.Bytes Base.Outcome Lex.Tokens Lex.Literals Interp.Val Interp.Ast.
From RS Require Import Parse.Verdict Parse.Automaton Parse.Grammar Parse.RefParser.
From RS Require Import Proofs.C09.Invariant Proofs.C09.Chain Proofs.C09.RefSound Proofs.C09.RefComplete.
From RS Require Import Proofs.C09.Sim Proofs.C09.SimTop Proofs.C09.Viable.
From Coq Require Import Arith Lia.
Open Scope N_scope.

Definition fix_tok (t : token) : token :=
  if tok_ok t then t
  else {| tk_type := tk_type t; tk_loc := tk_loc t;
          tk_val := Some (match tk_type t with THexLit => [48; 120] | _ => [] end) |}.

Lemma fix_tok_ok : forall t, tok_ok (fix_tok t) = true.
Proof.
  intros t. unfold fix_tok. destruct (tok_ok t) eqn:E; [exact E|].
  unfold tok_ok. cbn [tk_type tk_val]. destruct (tk_type t); reflexivity.
Qed.

Lemma fix_tok_id : forall t, tok_ok t = true -> fix_tok t = t.
Proof. intros t H. unfold fix_tok. rewrite H. reflexivity. Qed.

Lemma fix_tok_type : forall t, tk_type (fix_tok t) = tk_type t.
Proof. intros t. unfold fix_tok. destruct (tok_ok t); reflexivity. Qed.

Lemma fix_is : forall k t, is k t -> is k (fix_tok t).
Proof. intros k t H. unfold is. rewrite fix_tok_type. exact H. Qed.

Lemma fix_ident_name : forall t, is TIdent t -> ident_name (fix_tok t) = ident_name t.
Proof.
  intros t H. unfold fix_tok. destruct (tok_ok t) eqn:E; [reflexivity|].
  unfold tok_ok in E. unfold is in H. rewrite H in E. unfold ident_name. cbn [tk_val]. rewrite H.
  destruct (tk_val t); [discriminate | reflexivity].
Qed.

Lemma val_ok_tok_ok : forall t v, val_of_token t = Ok v -> tok_ok t = true.
Proof.
  intros t v H. unfold val_of_token in H. unfold tok_ok.
  destruct (tk_val t) as [b|]; [|discriminate].
  destruct (tk_type t); try reflexivity; try discriminate.
  destruct b as [|x b']; [discriminate|]. destruct b' as [|y r]; [destruct x as [|px]; [discriminate|]|].
  - exfalso. repeat (destruct px as [px|px|]; try (cbn in H; discriminate)).
  - destruct x as [|px]; [discriminate|].
    repeat (destruct px as [px|px|]; try (cbn in H; discriminate)).
    destruct y as [|py]; [discriminate|].
    repeat (destruct py as [py|py|]; try (cbn in H; discriminate)).
    reflexivity.
Qed.

Lemma fix_val : forall t v, val_of_token t = Ok v -> fix_tok t = t.
Proof. intros t v H. apply fix_tok_id. eapply val_ok_tok_ok, H. Qed.

Definition fx := map fix_tok.

Lemma fix_chain : forall sep ts ns, g_chain sep ts ns -> g_chain sep (fx ts) ns.
Proof.
  induction 1 as [|s i ts ns Hs Hi G IH]; cbn; [constructor|].
  rewrite <- (fix_ident_name i Hi). constructor; [apply fix_is, Hs | apply fix_is, Hi | exact IH].
Qed.

Lemma fix_ref : forall ts ms cs, g_ref ts ms cs -> g_ref (fx ts) ms cs.
Proof.
  intros ts ms cs H. destruct H as [i tm ms td ds Hi G1 G2]. unfold fx. cbn [map]. rewrite map_app.
  subst path. rewrite <- (fix_ident_name i Hi).
  apply (g_ref_intro (fix_tok i) (fx tm) ms (fx td) ds); [apply fix_is, Hi | apply fix_chain, G1 | apply fix_chain, G2].
Qed.

Lemma fix_mutual :
  (forall ts e, g_expr ts e -> g_expr (fx ts) e)
  /\ (forall ts a, g_atom ts a -> g_atom (fx ts) a)
  /\ (forall ts args, g_args ts args -> g_args (fx ts) args)
  /\ (forall ts a, g_arg ts a -> g_arg (fx ts) a).
Proof.
  apply g_mutind; unfold fx; intros; cbn [map]; rewrite ?map_app; cbn [map].
  - apply g_expr_atom; assumption.
  - apply g_expr_slash; [assumption | apply fix_is; assumption | assumption].
  - rewrite (fix_val t v) by assumption. apply g_atom_lit; assumption.
  - rewrite (fix_val t (VIp4 a)) by assumption. apply g_atom_ip; assumption.
  - rewrite (fix_val t (VIp4 a)), (fix_val p (VU64 n)) by assumption.
    apply g_atom_sock; try assumption. apply fix_is; assumption.
  - apply g_atom_ref. apply fix_ref. assumption.
  - rewrite map_app. cbn [map]. apply g_atom_call; [apply fix_ref; assumption | apply fix_is; assumption | assumption | apply fix_is; assumption].
  - constructor.
  - apply g_args_one; assumption.
  - apply g_args_cons; [assumption | apply fix_is; assumption | assumption].
  - apply g_arg_pos; assumption.
  - rewrite <- (fix_ident_name i) by assumption.
    apply g_arg_named; [apply fix_is; assumption | apply fix_is; assumption | assumption].
Qed.

Lemma fix_stmt : forall ts s, g_stmt ts s -> g_stmt (fx ts) s.
Proof.
  intros ts s H. destruct H as [k i s Hk Hi Hs|k i q ts e s Hk Hi Hq Ge Hs|i ts e s Hi Ge Hs]; unfold fx; cbn [map].
  - rewrite <- (fix_ident_name i Hi). apply g_stmt_import; apply fix_is; assumption.
  - rewrite map_app. cbn [map]. rewrite <- (fix_ident_name i Hi).
    apply g_stmt_let; try (apply fix_is; assumption). apply (proj1 fix_mutual), Ge.
  - rewrite map_app. cbn [map].
    apply g_stmt_expr; [apply fix_is, Hi | | apply fix_is, Hs].
    apply (proj1 fix_mutual) in Ge. exact Ge.
Qed.

Lemma fix_program : forall ts ss, g_program ts ss -> g_program (fx ts) ss.
Proof.
  induction 1 as [|ts s ts' ss Gs Gp IH]; [constructor|].
  unfold fx. rewrite map_app. apply g_program_cons; [apply fix_stmt, Gs | exact IH].
Qed.

Lemma fix_sentence : forall ts ss, sentence ts ss -> sentence (fx ts) ss.
Proof.
  intros ts ss (body & e & -> & He & Gp). exists (fx body), (fix_tok e).
  split; [unfold fx; rewrite map_app; reflexivity|]. split; [apply fix_is, He | apply fix_program, Gp].
Qed.

Lemma fx_ok : forall ts, toks_ok (fx ts).
Proof. intros ts. unfold toks_ok, fx. apply Forall_forall. intros t H. apply in_map_iff in H. destruct H as (t0 & <- & _). apply fix_tok_ok. Qed.

Lemma fx_id : forall ts, toks_ok ts -> fx ts = ts.
Proof. induction 1 as [|t r Ht Hr IH]; [reflexivity|]. unfold fx in *. cbn [map]. rewrite IH, (fix_tok_id t Ht). reflexivity. Qed.

Lemma viable_continuable : forall ts, toks_ok ts -> viable_prefix ts -> continuable ts.
Proof.
  intros ts Hts (rest & ss & S). exists (fx rest), ss. split; [apply fx_ok|].
  apply fix_sentence in S. unfold fx in S. rewrite map_app in S. fold (fx ts) in S. rewrite (fx_id ts Hts) in S. exact S.
Qed.

(** the index of rejection is exactly the length of the longest viable prefix *)
Theorem reject_index_viable : forall ts i, toks_ok ts ->
  (rd_parse ts = VReject i <->
   (i < length ts)%nat /\ viable_prefix (firstn i ts) /\ ~ viable_prefix (firstn (S i) ts)).
Proof.
  intros ts i Hts. rewrite (reject_index_iff ts i Hts). split.
  - intros (L & C & NC). split; [exact L|]. split; [apply continuable_viable, C|].
    intros V. apply NC. apply viable_continuable; [apply toks_ok_firstn, Hts | exact V].
  - intros (L & V & NV). split; [exact L|]. split.
    + apply viable_continuable; [apply toks_ok_firstn, Hts | exact V].
    + intros C. apply NV, continuable_viable, C.
Qed.
