(** C02 for the TCP builders: every packet a TcpFlow operation produces carries a self-consistent IPv4 header. *)
From RS Require Import Base.Bytes Base.Outcome Pkt.Csum Pkt.Hdrs Pkt.Packet Ez.Tcp Spec.Wire
  Proofs.BytesLemmas Proofs.C02.CsumLemmas Proofs.C02.IpLemmas.
From Coq Require Import ZArith Lia ZifyBool ZifyNat ZifyN.
Ltac Zify.zify_post_hook ::= Z.div_mod_to_equations.
Open Scope N_scope.

(** the IPv4 part of a frame: everything after the 14-byte Ethernet header unless raw *)
Definition l3_of (raw : bool) (body : bytes) : bytes := if raw then body else skipn 14 body.
Definition frame_ip_ok (raw : bool) (p : packet) : Prop := ipv4_ok (l3_of raw (pk_body p)) = true.

(** header whose checksum is current *)
Definition ip_fresh (h : ip_hdr) : Prop := exists h0, ip_wf h0 /\ h = ip_calc_csum h0.

Lemma ip_fresh_wf h : ip_fresh h -> ip_wf h.
Proof. intros (h0 & H0 & ->). apply ip_calc_csum_wf. exact H0. Qed.

Lemma ip_fresh_calc h : ip_wf h -> ip_fresh (ip_calc_csum h).
Proof. intros H. exists h. split; [exact H|reflexivity]. Qed.

Lemma ip_tot_len_calc h : ip_tot_len (ip_calc_csum h) = ip_tot_len h.
Proof. reflexivity. Qed.

Lemma ipv4_ok_fresh h rest : ip_fresh h -> ip_tot_len h = 20 + len rest -> ipv4_ok (ip_ser h ++ rest) = true.
Proof. intros (h0 & H0 & ->) Hl. apply ipv4_ok_intro; [exact H0|exact Hl]. Qed.

Definition sock_wf (s : sock) : Prop := fst s < 4294967296 /\ snd s < 65536.

Definition seg_inv (raw : bool) (s : tcp_seg) : Prop :=
  ts_raw s = raw /\ ip_fresh (ts_ip s) /\ ip_tot_len (ts_ip s) = 40 + len (ts_payload s)
  /\ length (eth_ser (ts_eth s)) = 14%nat.

Lemma length_mac_of_ip a : length (mac_of_ip a) = 6%nat.
Proof. reflexivity. Qed.

Lemma seg_new_inv src dst sn rn raw : sock_wf src -> sock_wf dst -> seg_inv raw (seg_new src dst sn rn raw).
Proof.
  intros (Hs & _) (Hd & _). unfold seg_inv, seg_new. cbn [ts_raw ts_ip ts_payload ts_eth].
  split; [reflexivity|]. split.
  - apply ip_fresh_calc. apply ip_set_daddr_wf; [|exact Hd]. apply ip_set_saddr_wf; [|exact Hs].
    apply ip_set_tot_len_wf; [|lia]. apply ip_set_protocol_wf; [apply ip_default_wf|unfold PROTO_TCP; lia].
  - split; reflexivity.
Qed.

(** operations that touch neither the IP header nor the payload *)
Ltac same_ip := intros (H1 & H2 & H3 & H4); unfold seg_inv; cbn; repeat split; assumption.
Lemma seg_syn_inv raw s : seg_inv raw s -> seg_inv raw (seg_syn s). Proof. same_ip. Qed.
Lemma seg_rst_inv raw s : seg_inv raw s -> seg_inv raw (seg_rst s). Proof. same_ip. Qed.
Lemma seg_ack_inv raw s : seg_inv raw s -> seg_inv raw (seg_ack s). Proof. same_ip. Qed.
Lemma seg_syn_ack_inv raw s : seg_inv raw s -> seg_inv raw (seg_syn_ack s). Proof. same_ip. Qed.
Lemma seg_push_inv raw s : seg_inv raw s -> seg_inv raw (seg_push s). Proof. same_ip. Qed.
Lemma seg_fin_inv raw s : seg_inv raw s -> seg_inv raw (seg_fin s). Proof. same_ip. Qed.
Lemma seg_fin_ack_inv raw s : seg_inv raw s -> seg_inv raw (seg_fin_ack s). Proof. same_ip. Qed.

Lemma seg_frag_off_inv raw s off : off < 65536 -> seg_inv raw s -> seg_inv raw (seg_frag_off s off).
Proof.
  intros Ho (H1 & H2 & H3 & H4). unfold seg_inv, seg_frag_off. cbn [ts_raw ts_ip ts_payload ts_eth ts_with_ip].
  repeat split; try assumption.
  apply ip_fresh_calc. apply ip_set_frag_off_wf; [apply ip_fresh_wf; exact H2|exact Ho].
Qed.

Lemma seg_tcp_csum_inv raw s s' : seg_inv raw s -> seg_tcp_csum s = Ok s' -> seg_inv raw s'.
Proof.
  intros (H1 & H2 & H3 & H4). unfold seg_tcp_csum.
  destruct (cadd _ _ _ _) as [a| | |]; cbn [obind]; try discriminate.
  destruct (cadd _ _ _ _) as [b| | |]; cbn [obind]; try discriminate.
  intros E; inversion E; subst; clear E. unfold seg_inv. cbn. repeat split; assumption.
Qed.

(** appending data: the total length stays exact as long as the datagram fits in 65535 bytes *)
Lemma seg_append_data_inv raw s b s' :
  seg_inv raw s -> 40 + len (ts_payload s) + len b < 65536 ->
  seg_append_data s b = Ok s' -> seg_inv raw s'.
Proof.
  intros (H1 & H2 & H3 & H4) Hfit. unfold seg_append_data, seg_update_tot_len.
  destruct (cadd two32 _ _ _) as [dl| | |]; cbn [obind]; try discriminate.
  cbn [ts_ip ts_payload].
  unfold wrap16.
  rewrite (N.mod_small (len b)) by lia.
  rewrite (N.mod_small (ip_tot_len (ts_ip s) + len b)) by lia.
  intros E'; inversion E'; subst; clear E'.
  unfold seg_inv. cbn [ts_raw ts_ip ts_payload ts_eth ts_with_ip].
  repeat split; try assumption.
  - apply ip_fresh_calc. apply ip_set_tot_len_wf; [apply ip_fresh_wf; exact H2|lia].
  - rewrite ip_tot_len_calc. cbn [ip_tot_len ip_set_tot_len]. rewrite len_app. lia.
Qed.

Lemma length_tcp_ser h : length (tcp_ser h) = 20%nat. Proof. reflexivity. Qed.

Theorem seg_packet_ok raw s : seg_inv raw s -> frame_ip_ok raw (seg_packet s).
Proof.
  intros (H1 & H2 & H3 & H4). unfold frame_ip_ok, seg_packet, pkt_of_body, seg_bytes, l3_of. cbn [pk_body].
  rewrite H1.
  assert (E : ipv4_ok (seg_l3_bytes s) = true).
  { unfold seg_l3_bytes. apply ipv4_ok_fresh; [exact H2|].
    rewrite len_app. change (len (tcp_ser (ts_tcp s))) with 20. rewrite H3. lia. }
  destruct raw; [exact E|].
  rewrite skipn_app, H4, Nat.sub_diag. rewrite skipn_all2 by lia. cbn [app skipn]. exact E.
Qed.

(* ---- flows ---- *)
Definition flow_wf (f : tcp_flow) : Prop := sock_wf (tf_cl f) /\ sock_wf (tf_sv f).

Lemma flow_cl_inv f : flow_wf f -> seg_inv (tf_raw f) (flow_cl f).
Proof. intros (Hc & Hs). apply seg_new_inv; assumption. Qed.
Lemma flow_sv_inv f : flow_wf f -> seg_inv (tf_raw f) (flow_sv f).
Proof. intros (Hc & Hs). apply seg_new_inv; assumption. Qed.

Lemma flow_update_wf f n : flow_wf f -> flow_wf (flow_cl_update f n) /\ flow_wf (flow_sv_update f n).
Proof. intros H. split; exact H. Qed.

Lemma flow_cl_tx_ok f s f' p :
  flow_wf f -> seg_inv (tf_raw f) s -> flow_cl_tx f s = Ok (f', p) ->
  frame_ip_ok (tf_raw f) p /\ flow_wf f' /\ tf_raw f' = tf_raw f.
Proof.
  intros Hf Hs. unfold flow_cl_tx.
  destruct (seg_seq_consumed s) as [n| | |]; cbn [obind]; try discriminate.
  destruct (seg_tcp_csum s) as [s1| | |] eqn:E; cbn [obind]; try discriminate.
  intros E'; inversion E'; subst; clear E'.
  split; [apply seg_packet_ok; eapply seg_tcp_csum_inv; eassumption|]. split; [exact Hf|reflexivity].
Qed.
Lemma flow_sv_tx_ok f s f' p :
  flow_wf f -> seg_inv (tf_raw f) s -> flow_sv_tx f s = Ok (f', p) ->
  frame_ip_ok (tf_raw f) p /\ flow_wf f' /\ tf_raw f' = tf_raw f.
Proof.
  intros Hf Hs. unfold flow_sv_tx.
  destruct (seg_seq_consumed s) as [n| | |]; cbn [obind]; try discriminate.
  destruct (seg_tcp_csum s) as [s1| | |] eqn:E; cbn [obind]; try discriminate.
  intros E'; inversion E'; subst; clear E'.
  split; [apply seg_packet_ok; eapply seg_tcp_csum_inv; eassumption|]. split; [exact Hf|reflexivity].
Qed.

(** three-segment exchanges: open / client_close / server_close *)
Lemma three_ok f tx1 tx2 tx3 mk1 mk2 mk3 f' ps :
  (forall f s f' p, flow_wf f -> seg_inv (tf_raw f) s -> tx1 f s = Ok (f', p) -> frame_ip_ok (tf_raw f) p /\ flow_wf f' /\ tf_raw f' = tf_raw f) ->
  (forall f s f' p, flow_wf f -> seg_inv (tf_raw f) s -> tx2 f s = Ok (f', p) -> frame_ip_ok (tf_raw f) p /\ flow_wf f' /\ tf_raw f' = tf_raw f) ->
  (forall f s f' p, flow_wf f -> seg_inv (tf_raw f) s -> tx3 f s = Ok (f', p) -> frame_ip_ok (tf_raw f) p /\ flow_wf f' /\ tf_raw f' = tf_raw f) ->
  (forall f, flow_wf f -> seg_inv (tf_raw f) (mk1 f)) ->
  (forall f, flow_wf f -> seg_inv (tf_raw f) (mk2 f)) ->
  (forall f, flow_wf f -> seg_inv (tf_raw f) (mk3 f)) ->
  flow_wf f ->
  (do (f1, p1) <- tx1 f (mk1 f); do (f2, p2) <- tx2 f1 (mk2 f1); do (f3, p3) <- tx3 f2 (mk3 f2); Ok (f3, [p1; p2; p3])) = Ok (f', ps) ->
  Forall (frame_ip_ok (tf_raw f)) ps /\ flow_wf f'.
Proof.
  intros T1 T2 T3 M1 M2 M3 Hf.
  destruct (tx1 f (mk1 f)) as [[f1 p1]| | |] eqn:E1; cbn [obind]; try discriminate.
  destruct (T1 _ _ _ _ Hf (M1 _ Hf) E1) as (P1 & W1 & R1).
  destruct (tx2 f1 (mk2 f1)) as [[f2 p2]| | |] eqn:E2; cbn [obind]; try discriminate.
  destruct (T2 _ _ _ _ W1 (M2 _ W1) E2) as (P2 & W2 & R2).
  destruct (tx3 f2 (mk3 f2)) as [[f3 p3]| | |] eqn:E3; cbn [obind]; try discriminate.
  destruct (T3 _ _ _ _ W2 (M3 _ W2) E3) as (P3 & W3 & R3).
  intros E; inversion E; subst; clear E.
  rewrite R2, R1 in P3. rewrite R1 in P2.
  split; [repeat constructor; assumption|exact W3].
Qed.

Theorem flow_open_ip_ok f f' ps : flow_wf f -> flow_open f = Ok (f', ps) ->
  Forall (frame_ip_ok (tf_raw f)) ps /\ flow_wf f'.
Proof.
  intros Hf. unfold flow_open.
  apply (three_ok f flow_cl_tx flow_sv_tx flow_cl_tx (fun f => seg_syn (flow_cl f)) (fun f => seg_syn_ack (flow_sv f)) (fun f => seg_ack (flow_cl f)));
    try exact flow_cl_tx_ok; try exact flow_sv_tx_ok; try exact Hf;
    intros g Hg; first [apply seg_syn_inv, flow_cl_inv | apply seg_syn_ack_inv, flow_sv_inv | apply seg_ack_inv, flow_cl_inv]; exact Hg.
Qed.

Theorem flow_client_close_ip_ok f f' ps : flow_wf f -> flow_client_close f = Ok (f', ps) ->
  Forall (frame_ip_ok (tf_raw f)) ps /\ flow_wf f'.
Proof.
  intros Hf. unfold flow_client_close.
  apply (three_ok f flow_cl_tx flow_sv_tx flow_cl_tx (fun f => seg_fin_ack (flow_cl f)) (fun f => seg_fin_ack (flow_sv f)) (fun f => seg_ack (flow_cl f)));
    try exact flow_cl_tx_ok; try exact flow_sv_tx_ok; try exact Hf;
    intros g Hg; first [apply seg_fin_ack_inv, flow_cl_inv | apply seg_fin_ack_inv, flow_sv_inv | apply seg_ack_inv, flow_cl_inv]; exact Hg.
Qed.

Theorem flow_server_close_ip_ok f f' ps : flow_wf f -> flow_server_close f = Ok (f', ps) ->
  Forall (frame_ip_ok (tf_raw f)) ps /\ flow_wf f'.
Proof.
  intros Hf. unfold flow_server_close.
  apply (three_ok f flow_sv_tx flow_cl_tx flow_sv_tx (fun f => seg_fin_ack (flow_sv f)) (fun f => seg_fin_ack (flow_cl f)) (fun f => seg_ack (flow_sv f)));
    try exact flow_cl_tx_ok; try exact flow_sv_tx_ok; try exact Hf;
    intros g Hg; first [apply seg_fin_ack_inv, flow_sv_inv | apply seg_fin_ack_inv, flow_cl_inv | apply seg_ack_inv, flow_sv_inv]; exact Hg.
Qed.

(** data segments *)
Lemma flow_seg_inv (client : bool) f b off s :
  flow_wf f -> off < 65536 -> 40 + len b < 65536 ->
  (if client then flow_cl_seg f b off else flow_sv_seg f b off) = Ok s -> seg_inv (tf_raw f) s.
Proof.
  intros Hf Ho Hb. unfold flow_cl_seg, flow_sv_seg, seg_push_bytes.
  destruct client; intros E; eapply seg_append_data_inv; try exact E.
  - apply seg_push_inv, seg_frag_off_inv; [exact Ho|apply flow_cl_inv; exact Hf].
  - cbn. lia.
  - apply seg_push_inv, seg_frag_off_inv; [exact Ho|apply flow_sv_inv; exact Hf].
  - cbn. lia.
Qed.

Theorem flow_client_message_ip_ok f b sa off f' ps :
  flow_wf f -> off < 65536 -> 40 + len b < 65536 ->
  flow_client_message f b sa off = Ok (f', ps) -> Forall (frame_ip_ok (tf_raw f)) ps /\ flow_wf f'.
Proof.
  intros Hf Ho Hb. unfold flow_client_message.
  destruct (flow_cl_seg f b off) as [s| | |] eqn:Es; cbn [obind]; try discriminate.
  pose proof (flow_seg_inv true f b off s Hf Ho Hb Es) as Hs.
  destruct (flow_cl_tx f s) as [[f1 p1]| | |] eqn:E1; cbn [obind]; try discriminate.
  destruct (flow_cl_tx_ok _ _ _ _ Hf Hs E1) as (P1 & W1 & R1).
  destruct sa.
  - destruct (flow_sv_tx f1 (seg_ack (flow_sv f1))) as [[f2 p2]| | |] eqn:E2; cbn [obind]; try discriminate.
    destruct (flow_sv_tx_ok _ _ _ _ W1 (seg_ack_inv _ _ (flow_sv_inv _ W1)) E2) as (P2 & W2 & R2).
    intros E; inversion E; subst; clear E. rewrite R1 in P2. split; [repeat constructor; assumption|exact W2].
  - intros E; inversion E; subst; clear E. split; [repeat constructor; assumption|exact W1].
Qed.

Theorem flow_server_message_ip_ok f b sa off f' ps :
  flow_wf f -> off < 65536 -> 40 + len b < 65536 ->
  flow_server_message f b sa off = Ok (f', ps) -> Forall (frame_ip_ok (tf_raw f)) ps /\ flow_wf f'.
Proof.
  intros Hf Ho Hb. unfold flow_server_message.
  destruct (flow_sv_seg f b off) as [s| | |] eqn:Es; cbn [obind]; try discriminate.
  pose proof (flow_seg_inv false f b off s Hf Ho Hb Es) as Hs.
  destruct (flow_sv_tx f s) as [[f1 p1]| | |] eqn:E1; cbn [obind]; try discriminate.
  destruct (flow_sv_tx_ok _ _ _ _ Hf Hs E1) as (P1 & W1 & R1).
  destruct sa.
  - destruct (flow_cl_tx f1 (seg_ack (flow_cl f1))) as [[f2 p2]| | |] eqn:E2; cbn [obind]; try discriminate.
    destruct (flow_cl_tx_ok _ _ _ _ W1 (seg_ack_inv _ _ (flow_cl_inv _ W1)) E2) as (P2 & W2 & R2).
    intros E; inversion E; subst; clear E. rewrite R1 in P2. split; [repeat constructor; assumption|exact W2].
  - intros E; inversion E; subst; clear E. split; [repeat constructor; assumption|exact W1].
Qed.

Theorem flow_data_segment_ip_ok (client : bool) f b f' s :
  flow_wf f -> 40 + len b < 65536 ->
  (if client then flow_client_data_segment f b else flow_server_data_segment f b) = Ok (f', s) ->
  frame_ip_ok (tf_raw f) (seg_packet s) /\ flow_wf f'.
Proof.
  intros Hf Hb. unfold flow_client_data_segment, flow_server_data_segment.
  destruct client.
  - destruct (flow_cl_seg f b 0) as [s0| | |] eqn:Es; cbn [obind]; try discriminate.
    pose proof (flow_seg_inv true f b 0 s0 Hf ltac:(lia) Hb Es) as Hs.
    destruct (seg_seq_consumed s0) as [n| | |]; cbn [obind]; try discriminate.
    destruct (seg_tcp_csum s0) as [s1| | |] eqn:E; cbn [obind]; try discriminate.
    intros E'; inversion E'; subst; clear E'.
    split; [apply seg_packet_ok; eapply seg_tcp_csum_inv; eassumption|exact Hf].
  - destruct (flow_sv_seg f b 0) as [s0| | |] eqn:Es; cbn [obind]; try discriminate.
    pose proof (flow_seg_inv false f b 0 s0 Hf ltac:(lia) Hb Es) as Hs.
    destruct (seg_seq_consumed s0) as [n| | |]; cbn [obind]; try discriminate.
    destruct (seg_tcp_csum s0) as [s1| | |] eqn:E; cbn [obind]; try discriminate.
    intros E'; inversion E'; subst; clear E'.
    split; [apply seg_packet_ok; eapply seg_tcp_csum_inv; eassumption|exact Hf].
Qed.

Theorem flow_ack_reset_ip_ok f :
  flow_wf f ->
  (forall s, flow_client_ack f = Ok s -> frame_ip_ok (tf_raw f) (seg_packet s)) /\
  (forall s, flow_server_ack f = Ok s -> frame_ip_ok (tf_raw f) (seg_packet s)) /\
  (forall p, flow_client_reset f = Ok p -> frame_ip_ok (tf_raw f) p) /\
  (forall p, flow_server_reset f = Ok p -> frame_ip_ok (tf_raw f) p).
Proof.
  intros Hf. unfold flow_client_ack, flow_server_ack, flow_client_reset, flow_server_reset.
  repeat split.
  - intros s E. apply seg_packet_ok. eapply seg_tcp_csum_inv; [|exact E]. apply seg_ack_inv, flow_cl_inv, Hf.
  - intros s E. apply seg_packet_ok. eapply seg_tcp_csum_inv; [|exact E]. apply seg_ack_inv, flow_sv_inv, Hf.
  - intros p. destruct (seg_tcp_csum (seg_rst (flow_cl f))) as [s| | |] eqn:E; cbn [obind]; try discriminate.
    intros E'; inversion E'; subst. apply seg_packet_ok. eapply seg_tcp_csum_inv; [|exact E]. apply seg_rst_inv, flow_cl_inv, Hf.
  - intros p. destruct (seg_tcp_csum (seg_rst (flow_sv f))) as [s| | |] eqn:E; cbn [obind]; try discriminate.
    intros E'; inversion E'; subst. apply seg_packet_ok. eapply seg_tcp_csum_inv; [|exact E]. apply seg_rst_inv, flow_sv_inv, Hf.
Qed.
