(** Ones-complement checksum: the arithmetic core shared by C02 and C03. *)
From RS Require Import Base.Bytes Pkt.Csum Spec.Wire Proofs.BytesLemmas.
From Coq Require Import ZArith Lia ZifyBool ZifyNat ZifyN.
Ltac Zify.zify_post_hook ::= Z.div_mod_to_equations.
Open Scope N_scope.

(** the model's word sum is the RFC word sum; the accumulator is its end-around-carry reduction *)
Lemma csum_words_wsum l : csum_words l = wsum l.
Proof.
  assert (H : forall n l, (length l <= n)%nat -> csum_words l = wsum l).
  { induction n as [|n IH]; intros [|a [|b r]] Hl; cbn [csum_words wsum length] in *; try lia; try reflexivity. }
  apply (H (length l)). lia.
Qed.

Definition red (S : N) : N := oc_reduce 8 S.

Lemma csum_partial_red l : csum_partial l = red (wsum l mod 18446744073709551616).
Proof. unfold csum_partial, red. rewrite csum_words_wsum. reflexivity. Qed.

Lemma oc_step_inv s : (s mod 65536 + s / 65536) mod 65535 = s mod 65535 /\ (s mod 65536 + s / 65536 = 0 <-> s = 0).
Proof. split; lia. Qed.

Lemma oc_reduce_inv fuel : forall s, oc_reduce fuel s mod 65535 = s mod 65535 /\ (oc_reduce fuel s = 0 <-> s = 0).
Proof.
  induction fuel as [|f IH]; intros s; cbn [oc_reduce]; [split; [reflexivity|tauto]|].
  destruct (s <? 65536) eqn:E; [split; [reflexivity|tauto]|].
  destruct (IH (s mod 65536 + s / 65536)) as (H1 & H2). destruct (oc_step_inv s) as (S1 & S2).
  split; [congruence|tauto].
Qed.

Lemma oc_reduce_small fuel s : s < 65536 -> oc_reduce fuel s = s.
Proof. intros H. destruct fuel; cbn [oc_reduce]; [reflexivity|]. destruct (s <? 65536) eqn:E; [reflexivity|lia]. Qed.

Lemma red_bound S : S < 281474976710656 -> red S <= 65535.
Proof.
  intros H. unfold red.
  cbn [oc_reduce]. destruct (S <? 65536) eqn:E0; [lia|].
  set (s1 := S mod 65536 + S / 65536). assert (B1 : s1 < 4295032832) by (unfold s1; lia).
  destruct (s1 <? 65536) eqn:E1; [lia|].
  set (s2 := s1 mod 65536 + s1 / 65536). assert (B2 : s2 < 131073) by (unfold s2; lia).
  destruct (s2 <? 65536) eqn:E2; [lia|].
  set (s3 := s2 mod 65536 + s2 / 65536). assert (B3 : s3 < 65538) by (unfold s3; lia).
  destruct (s3 <? 65536) eqn:E3; [lia|].
  set (s4 := s3 mod 65536 + s3 / 65536). assert (B4 : s4 < 65536) by (unfold s4; lia).
  destruct (s4 <? 65536) eqn:E4; lia.
Qed.

Lemma red_spec S : S < 281474976710656 ->
  red S <= 65535 /\ red S mod 65535 = S mod 65535 /\ (red S = 0 <-> S = 0).
Proof. intros H. split; [apply red_bound, H|]. apply oc_reduce_inv. Qed.

(** whatever the list, the partial sum the code returns fits 16 bits *)
Lemma csum_partial_lt l : csum_partial l < 65536.
Proof.
  rewrite csum_partial_red. assert (H : wsum l mod 18446744073709551616 < 18446744073709551616) by (apply N.mod_lt; lia).
  revert H. generalize (wsum l mod 18446744073709551616). intros S H. unfold red. cbn [oc_reduce].
  destruct (S <? 65536) eqn:E0; [lia|].
  set (s1 := S mod 65536 + S / 65536). assert (B1 : s1 < 281474976776192) by (unfold s1; lia).
  destruct (s1 <? 65536) eqn:E1; [lia|].
  set (s2 := s1 mod 65536 + s1 / 65536). assert (B2 : s2 < 4295032832) by (unfold s2; lia).
  destruct (s2 <? 65536) eqn:E2; [lia|].
  set (s3 := s2 mod 65536 + s2 / 65536). assert (B3 : s3 < 131073) by (unfold s3; lia).
  destruct (s3 <? 65536) eqn:E3; [lia|].
  set (s4 := s3 mod 65536 + s3 / 65536). assert (B4 : s4 < 65536) by (unfold s4; lia).
  destruct (s4 <? 65536) eqn:E4; lia.
Qed.

Lemma wsum_app_even a b : Nat.even (length a) = true -> wsum (a ++ b) = wsum a + wsum b.
Proof.
  assert (H : forall n a, (length a <= n)%nat -> Nat.even (length a) = true -> wsum (a ++ b) = wsum a + wsum b).
  { induction n as [|n IH]; intros [|x [|y r]] Hl Hev; cbn [app wsum length] in *; try lia; try reflexivity; try discriminate.
    rewrite IH; [lia|lia|]. exact Hev. }
  apply (H (length a)). lia.
Qed.

Lemma wsum_bound l : wf_bytes l -> wsum l <= 65535 * N.of_nat (S (length l) / 2).
Proof.
  assert (H : forall n l, (length l <= n)%nat -> wf_bytes l -> wsum l <= 65535 * N.of_nat (S (length l) / 2)).
  { induction n as [|n IH]; intros [|x [|y r]] Hl Hwf; cbn [wsum length] in *; try lia.
    - inversion Hwf; subst. cbn. lia.
    - inversion Hwf as [|? ? Hx Hr]; subst. inversion Hr as [|? ? Hy Hr']; subst.
      specialize (IH r ltac:(lia) Hr').
      replace (S (S (S (length r))) / 2)%nat with (S (S (length r) / 2))%nat.
      + lia.
      + change (S (S (S (length r)))) with (2 + S (length r))%nat.
        rewrite (Nat.add_comm 2). replace (S (length r) + 2)%nat with (S (length r) + 1 * 2)%nat by lia.
        rewrite Nat.div_add by lia. lia. }
  apply (H (length l)). lia.
Qed.

(** csum_fold: closed form below 2^32 *)
Lemma csum_fold_spec S : S < 4294967296 ->
  exists r, r <= 65535 /\ csum_fold S = 65535 - r /\ (r = 0 <-> S = 0) /\ (S + (65535 - r)) mod 65535 = 0.
Proof.
  intros HS. unfold csum_fold.
  set (s1 := S mod 65536 + S / 65536).
  set (s2 := s1 mod 65536 + s1 / 65536).
  assert (H1 : s1 <= 131070) by (unfold s1; lia).
  assert (H2 : s2 <= 65535) by (unfold s2; lia).
  exists s2. rewrite (N.mod_small s2) by lia.
  split; [exact H2|]. split; [reflexivity|].
  split.
  - unfold s2, s1. lia.
  - unfold s2, s1. lia.
Qed.

(** the fold used by the specification agrees: a region verifies iff its sum is a positive multiple of 0xffff *)
Lemma ocfold_small s : s < 65536 -> ocfold 8 s = s.
Proof. intros H. cbn [ocfold]. destruct (s <? 65536) eqn:E; [reflexivity|lia]. Qed.

Lemma verifies_of_sum l : wsum l < 4294967296 -> 0 < wsum l -> wsum l mod 65535 = 0 -> verifies l = true.
Proof.
  intros Hb Hpos Hmod. unfold verifies.
  set (S := wsum l) in *.
  assert (E : ocfold 8 S = 65535).
  { cbn [ocfold].
    destruct (S <? 65536) eqn:E0; [lia|].
    set (s1 := S mod 65536 + S / 65536).
    assert (s1 <= 131070) by (unfold s1; lia).
    assert (s1 mod 65535 = 0) by (unfold s1; lia).
    assert (0 < s1) by (unfold s1; lia).
    destruct (s1 <? 65536) eqn:E1; [lia|].
    set (s2 := s1 mod 65536 + s1 / 65536).
    assert (s2 <= 65535) by (unfold s2; lia).
    assert (s2 mod 65535 = 0) by (unfold s2; lia).
    assert (0 < s2) by (unfold s2; lia).
    destruct (s2 <? 65536) eqn:E2; lia. }
  rewrite E. reflexivity.
Qed.

(** storing [csum_fold S] where the field held zero makes the region verify *)
Theorem csum_set_then_verify l l' S :
  wsum l = S -> S < 4294901760 -> wsum l' = S + csum_fold S -> verifies l' = true.
Proof.
  intros HS Hb Hl'.
  destruct (csum_fold_spec S) as (r & Hr & Hf & Hz & Hm); [lia|].
  apply verifies_of_sum; rewrite Hl', Hf; lia.
Qed.

Fixpoint sumN' (l : list N) : N := match l with [] => 0 | x :: r => x + sumN' r end.

Lemma sum_red_mod parts : Forall (fun S => S < 281474976710656) parts ->
  sumN' (map red parts) mod 65535 = sumN' parts mod 65535
  /\ (sumN' (map red parts) = 0 <-> sumN' parts = 0)
  /\ sumN' (map red parts) <= 65535 * N.of_nat (length parts).
Proof.
  induction parts as [|S r IH]; intros Hall; cbn [map sumN' length].
  - repeat split; lia.
  - inversion Hall as [|? ? HS Hr]; subst. destruct (IH Hr) as (I1 & I2 & I3).
    destruct (red_spec S HS) as (R1 & R2 & R3).
    split; [|split].
    + rewrite N.add_mod by lia. rewrite R2, I1. rewrite <- N.add_mod by lia. reflexivity.
    + lia.
    + lia.
Qed.

(** the checksum the code stores -- fold of the sum of the reduced partial sums -- makes the whole
    region verify, whatever the partition into parts *)
Theorem csum_parts_verify parts l' :
  Forall (fun S => S < 281474976710656) parts -> (length parts <= 16)%nat ->
  let c := csum_fold (sumN' (map red parts)) in
  wsum l' = sumN' parts + c -> wsum l' < 4294967296 ->
  verifies l' = true /\ c < 65536.
Proof.
  intros Hall Hlen c Hl' Hb.
  destruct (sum_red_mod parts Hall) as (M1 & M2 & M3).
  set (R := sumN' (map red parts)) in *.
  assert (HR : R < 4294901760) by lia.
  destruct (csum_fold_spec R ltac:(lia)) as (r & Hr & Hf & Hz & Hm).
  assert (Hc : c = 65535 - r) by exact Hf.
  split; [|lia].
  apply verifies_of_sum; [exact Hb| |].
  - rewrite Hl', Hc. destruct (N.eq_dec (sumN' parts) 0) as [E|E]; [|lia].
    assert (R = 0) by tauto. assert (r = 0) by tauto. lia.
  - rewrite Hl', Hc.
    rewrite N.add_mod by lia. rewrite <- M1. rewrite <- N.add_mod by lia. exact Hm.
Qed.
