(** Ones-complement checksum: the arithmetic core shared by C02 and C03. *)
From RS Require Import Base.Bytes Pkt.Csum Spec.Wire Proofs.BytesLemmas.
From Coq Require Import ZArith Lia ZifyBool ZifyNat ZifyN.
Ltac Zify.zify_post_hook ::= Z.div_mod_to_equations.
Open Scope N_scope.

(** the model's accumulator is the RFC word sum *)
Lemma csum_partial_wsum l : csum_partial l = wsum l.
Proof.
  assert (H : forall n l, (length l <= n)%nat -> csum_partial l = wsum l).
  { induction n as [|n IH]; intros [|a [|b r]] Hl; cbn [csum_partial wsum length] in *; try lia; try reflexivity. }
  apply (H (length l)). lia.
Qed.

Lemma wsum_app_even a b : Nat.even (length a) = true -> wsum (a ++ b) = wsum a + wsum b.
Proof.
  assert (H : forall n a, (length a <= n)%nat -> Nat.even (length a) = true -> wsum (a ++ b) = wsum a + wsum b).
  { induction n as [|n IH]; intros [|x [|y r]] Hl Hev; cbn [app wsum length] in *; try lia; try reflexivity; try discriminate.
    rewrite IH; [lia|lia|]. exact Hev. }
  apply (H (length a)). lia.
Qed.

Lemma wsum_bound l : wf_bytes l -> wsum l <= 65535 * N.of_nat (S (length l) / 2).
Proof.
  assert (H : forall n l, (length l <= n)%nat -> wf_bytes l -> wsum l <= 65535 * N.of_nat (S (length l) / 2)).
  { induction n as [|n IH]; intros [|x [|y r]] Hl Hwf; cbn [wsum length] in *; try lia.
    - inversion Hwf; subst. cbn. lia.
    - inversion Hwf as [|? ? Hx Hr]; subst. inversion Hr as [|? ? Hy Hr']; subst.
      specialize (IH r ltac:(lia) Hr').
      replace (S (S (S (length r))) / 2)%nat with (S (S (length r) / 2))%nat.
      + lia.
      + change (S (S (S (length r)))) with (2 + S (length r))%nat.
        rewrite (Nat.add_comm 2). replace (S (length r) + 2)%nat with (S (length r) + 1 * 2)%nat by lia.
        rewrite Nat.div_add by lia. lia. }
  apply (H (length l)). lia.
Qed.

(** csum_fold: closed form below 2^32 *)
Lemma csum_fold_spec S : S < 4294967296 ->
  exists r, r <= 65535 /\ csum_fold S = 65535 - r /\ (r = 0 <-> S = 0) /\ (S + (65535 - r)) mod 65535 = 0.
Proof.
  intros HS. unfold csum_fold.
  set (s1 := S mod 65536 + S / 65536).
  set (s2 := s1 mod 65536 + s1 / 65536).
  assert (H1 : s1 <= 131070) by (unfold s1; lia).
  assert (H2 : s2 <= 65535) by (unfold s2; lia).
  exists s2. rewrite (N.mod_small s2) by lia.
  split; [exact H2|]. split; [reflexivity|].
  split.
  - unfold s2, s1. lia.
  - unfold s2, s1. lia.
Qed.

(** the fold used by the specification agrees: a region verifies iff its sum is a positive multiple of 0xffff *)
Lemma ocfold_small s : s < 65536 -> ocfold 8 s = s.
Proof. intros H. cbn [ocfold]. destruct (s <? 65536) eqn:E; [reflexivity|lia]. Qed.

Lemma verifies_of_sum l : wsum l < 4294967296 -> 0 < wsum l -> wsum l mod 65535 = 0 -> verifies l = true.
Proof.
  intros Hb Hpos Hmod. unfold verifies.
  set (S := wsum l) in *.
  assert (E : ocfold 8 S = 65535).
  { cbn [ocfold].
    destruct (S <? 65536) eqn:E0; [lia|].
    set (s1 := S mod 65536 + S / 65536).
    assert (s1 <= 131070) by (unfold s1; lia).
    assert (s1 mod 65535 = 0) by (unfold s1; lia).
    assert (0 < s1) by (unfold s1; lia).
    destruct (s1 <? 65536) eqn:E1; [lia|].
    set (s2 := s1 mod 65536 + s1 / 65536).
    assert (s2 <= 65535) by (unfold s2; lia).
    assert (s2 mod 65535 = 0) by (unfold s2; lia).
    assert (0 < s2) by (unfold s2; lia).
    destruct (s2 <? 65536) eqn:E2; lia. }
  rewrite E. reflexivity.
Qed.

(** storing [csum_fold S] where the field held zero makes the region verify *)
Theorem csum_set_then_verify l l' S :
  wsum l = S -> S < 4294901760 -> wsum l' = S + csum_fold S -> verifies l' = true.
Proof.
  intros HS Hb Hl'.
  destruct (csum_fold_spec S) as (r & Hr & Hf & Hz & Hm); [lia|].
  apply verifies_of_sum; rewrite Hl', Hf; lia.
Qed.
