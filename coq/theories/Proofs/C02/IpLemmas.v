(** The IPv4 header: serialisation, checksum, well-formedness preserved by the setters. *)
From RS Require Import Base.Bytes Pkt.Csum Pkt.Hdrs Spec.Wire Proofs.BytesLemmas Proofs.C02.CsumLemmas.
From Coq Require Import ZArith Lia ZifyBool ZifyNat ZifyN.
Ltac Zify.zify_post_hook ::= Z.div_mod_to_equations.
Open Scope N_scope.

(* ---- bit-operation bounds ---- *)
Lemma lor_lt_pow2 a b n : a < 2 ^ n -> b < 2 ^ n -> N.lor a b < 2 ^ n.
Proof.
  intros Ha Hb.
  destruct (N.eq_dec a 0) as [->|Na]; [now rewrite N.lor_0_l|].
  destruct (N.eq_dec b 0) as [->|Nb]; [now rewrite N.lor_0_r|].
  assert (0 < N.lor a b).
  { destruct (N.eq_dec (N.lor a b) 0) as [E|E]; [|lia]. apply N.lor_eq_0_iff in E. lia. }
  apply N.log2_lt_pow2; [assumption|].
  rewrite N.log2_lor.
  apply N.log2_lt_pow2 in Ha; [|lia]. apply N.log2_lt_pow2 in Hb; [|lia]. lia.
Qed.

Lemma land_le_l a b : N.land a b <= a.
Proof.
  replace (N.land a b) with (N.ldiff a (N.ldiff a b)).
  - apply N.ldiff_le. apply N.bits_inj. intros n. rewrite !N.ldiff_spec, N.bits_0.
    destruct (N.testbit a n); destruct (N.testbit b n); reflexivity.
  - apply N.bits_inj. intros n. rewrite !N.ldiff_spec, N.land_spec.
    destruct (N.testbit a n); destruct (N.testbit b n); reflexivity.
Qed.

Lemma land_lt_pow2 a b n : a < 2 ^ n -> N.land a b < 2 ^ n.
Proof. intros. pose proof (land_le_l a b). lia. Qed.

Definition ip_wf (h : ip_hdr) : Prop :=
  ip_tot_len h < 65536 /\ ip_id h < 65536 /\ ip_frag h < 65536 /\ ip_ttl h < 256 /\ ip_proto h < 256
  /\ ip_src h < 4294967296 /\ ip_dst h < 4294967296.

Lemma ip_default_wf : ip_wf ip_default.
Proof. unfold ip_wf, ip_default. cbn. lia. Qed.

Lemma ip_calc_csum_wf h : ip_wf h -> ip_wf (ip_calc_csum h).
Proof. unfold ip_wf, ip_calc_csum, ip_set_csum. cbn. tauto. Qed.

Lemma ip_set_tot_len_wf h v : ip_wf h -> v < 65536 -> ip_wf (ip_set_tot_len h v).
Proof. unfold ip_wf, ip_set_tot_len. cbn. tauto. Qed.
Lemma ip_set_id_wf h v : ip_wf h -> v < 65536 -> ip_wf (ip_set_id h v).
Proof. unfold ip_wf, ip_set_id. cbn. tauto. Qed.
Lemma ip_set_frag_wf h v : ip_wf h -> v < 65536 -> ip_wf (ip_set_frag h v).
Proof. unfold ip_wf, ip_set_frag. cbn. tauto. Qed.
Lemma ip_set_ttl_wf h v : ip_wf h -> v < 256 -> ip_wf (ip_set_ttl h v).
Proof. unfold ip_wf, ip_set_ttl. cbn. tauto. Qed.
Lemma ip_set_protocol_wf h v : ip_wf h -> v < 256 -> ip_wf (ip_set_protocol h v).
Proof. unfold ip_wf, ip_set_protocol. cbn. tauto. Qed.
Lemma ip_set_saddr_wf h v : ip_wf h -> v < 4294967296 -> ip_wf (ip_set_saddr h v).
Proof. unfold ip_wf, ip_set_saddr. cbn. tauto. Qed.
Lemma ip_set_daddr_wf h v : ip_wf h -> v < 4294967296 -> ip_wf (ip_set_daddr h v).
Proof. unfold ip_wf, ip_set_daddr. cbn. tauto. Qed.

Lemma pow16 : 65536 = 2 ^ 16. Proof. reflexivity. Qed.

Lemma ip_set_frag_off_wf h off : ip_wf h -> off < 65536 -> ip_wf (ip_set_frag_off h off).
Proof.
  intros H Ho. unfold ip_set_frag_off. apply ip_set_frag_wf; [exact H|].
  rewrite pow16 in *. apply lor_lt_pow2; [exact Ho|]. apply land_lt_pow2. unfold ip_wf in H. rewrite <- pow16. tauto.
Qed.

Lemma set_bit16_lt w b on : w < 65536 -> b < 65536 -> set_bit16 w b on < 65536.
Proof.
  intros Hw Hb. unfold set_bit16. destruct on.
  - rewrite pow16 in *. apply lor_lt_pow2; assumption.
  - rewrite pow16 in *. apply land_lt_pow2. assumption.
Qed.

Lemma ip_set_mf_wf h b : ip_wf h -> ip_wf (ip_set_mf h b).
Proof. intros H. unfold ip_set_mf. apply ip_set_frag_wf; [exact H|]. apply set_bit16_lt; [unfold ip_wf in H; tauto|unfold IP_MF; lia]. Qed.
Lemma ip_set_df_wf h b : ip_wf h -> ip_wf (ip_set_df h b).
Proof. intros H. unfold ip_set_df. apply ip_set_frag_wf; [exact H|]. apply set_bit16_lt; [unfold ip_wf in H; tauto|unfold IP_DF; lia]. Qed.
Lemma ip_set_evil_wf h b : ip_wf h -> ip_wf (ip_set_evil h b).
Proof. intros H. unfold ip_set_evil. apply ip_set_frag_wf; [exact H|]. apply set_bit16_lt; [unfold ip_wf in H; tauto|unfold IP_EVIL; lia]. Qed.

(* ---- serialisation ---- *)
Lemma length_ip_ser h : length (ip_ser h) = 20%nat.
Proof. reflexivity. Qed.

Definition ip_words (h : ip_hdr) : N :=
  17664 + ip_tot_len h + ip_id h + ip_frag h + (ip_ttl h * 256 + ip_proto h) + ip_csum h
  + ip_src h / 65536 + ip_src h mod 65536 + ip_dst h / 65536 + ip_dst h mod 65536.

Lemma wsum_be16 x r : x < 65536 -> wsum (be16 x ++ r) = x + wsum r.
Proof. intros H. unfold be16. cbn [app wsum]. lia. Qed.

Lemma wsum_be32 x r : x < 4294967296 -> wsum (be32 x ++ r) = x / 65536 + x mod 65536 + wsum r.
Proof.
  intros H. unfold be32. rewrite <- app_assoc.
  rewrite wsum_be16 by lia. rewrite wsum_be16 by lia. lia.
Qed.

Lemma wsum_cons2 a b r : wsum (a :: b :: r) = a * 256 + b + wsum r.
Proof. reflexivity. Qed.

Lemma wsum_ip_ser h : ip_wf h -> ip_csum h < 65536 -> wsum (ip_ser h) = ip_words h.
Proof.
  unfold ip_wf, ip_words, ip_ser. intros H Hc.
  cbn [app]. rewrite wsum_cons2.
  rewrite !wsum_be16 by tauto.
  rewrite wsum_cons2.
  rewrite wsum_be16 by exact Hc.
  rewrite wsum_be32 by tauto.
  rewrite <- (app_nil_r (be32 (ip_dst h))).
  rewrite wsum_be32 by tauto.
  cbn [wsum]. lia.
Qed.

Lemma csum_fold_lt S : S < 4294967296 -> csum_fold S < 65536.
Proof. intros H. destruct (csum_fold_spec S H) as (r & Hr & Hf & _). lia. Qed.

(** calc_csum makes the 20 header bytes verify *)
Theorem ip_calc_verifies h : ip_wf h -> verifies (ip_ser (ip_calc_csum h)) = true.
Proof.
  intros H.
  assert (H0 : ip_wf (ip_set_csum h 0)) by (unfold ip_wf, ip_set_csum in *; cbn; tauto).
  pose proof (wsum_ip_ser (ip_set_csum h 0) H0 ltac:(cbn; lia)) as E0.
  set (S0 := ip_words (ip_set_csum h 0)) in *.
  assert (Hb : S0 < 4294901760).
  { unfold S0, ip_words, ip_set_csum, ip_wf in *. cbn. lia. }
  set (c := csum_fold (sumN' (map red [S0]))).
  assert (Hc : Hdrs.ip_csum (ip_calc_csum h) = c).
  { unfold ip_calc_csum, ip_checksum, c. cbn [Hdrs.ip_csum ip_set_csum]. rewrite csum_partial_red, E0.
    rewrite (N.mod_small S0) by lia. cbn [map sumN']. rewrite N.add_0_r. reflexivity. }
  assert (Hlt : c < 65536).
  { unfold c. cbn [map sumN']. rewrite N.add_0_r. apply csum_fold_lt. pose proof (red_bound S0 ltac:(lia)). lia. }
  assert (W : wsum (ip_ser (ip_calc_csum h)) = sumN' [S0] + c).
  { rewrite wsum_ip_ser.
    - unfold ip_words. rewrite Hc. unfold ip_calc_csum, ip_set_csum. cbn [ip_tot_len ip_id Hdrs.ip_frag ip_ttl ip_proto ip_src ip_dst].
      cbn [sumN']. unfold S0, ip_words, ip_set_csum. cbn. lia.
    - unfold ip_wf, ip_calc_csum, ip_set_csum in *. cbn. tauto.
    - rewrite Hc. exact Hlt. }
  destruct (csum_parts_verify [S0] (ip_ser (ip_calc_csum h))) as (V & _).
  - constructor; [lia|constructor].
  - cbn. lia.
  - exact W.
  - rewrite W. cbn [sumN']. lia.
  - exact V.
Qed.

Lemma rd_be16 x : x < 65536 -> (x / 256) mod 256 * 256 + x mod 256 = x.
Proof. lia. Qed.

Lemma firstn_app_exact {A} (a b : list A) n : length a = n -> firstn n (a ++ b) = a.
Proof. intros <-. rewrite firstn_app, Nat.sub_diag, firstn_all. cbn. apply app_nil_r. Qed.

(** a datagram [header ++ rest] whose header was finished by calc_csum with the right total length *)
Theorem ipv4_ok_intro h rest :
  ip_wf h -> ip_tot_len h = 20 + len rest ->
  ipv4_ok (ip_ser (ip_calc_csum h) ++ rest) = true.
Proof.
  intros H Hl. unfold ipv4_ok.
  rewrite (firstn_app_exact _ _ 20%nat) by reflexivity.
  rewrite ip_calc_verifies by exact H.
  rewrite app_length, length_ip_ser.
  assert (E1 : Nat.leb 20 (20 + length rest) = true) by (apply Nat.leb_le; lia).
  rewrite E1.
  assert (E2 : nth 0 (ip_ser (ip_calc_csum h) ++ rest) 0 = 69) by reflexivity.
  rewrite E2.
  assert (E3 : u16_at (ip_ser (ip_calc_csum h) ++ rest) 2 = len (ip_ser (ip_calc_csum h) ++ rest)).
  { rewrite len_app. change (len (ip_ser (ip_calc_csum h))) with 20.
    unfold u16_at. cbn [ip_ser app nth be16].
    unfold ip_calc_csum, ip_set_csum. cbn [ip_tot_len].
    rewrite <- Hl. apply rd_be16. unfold ip_wf in H. tauto. }
  rewrite E3. rewrite !N.eqb_refl. reflexivity.
Qed.

(** field read-back *)
Lemma ip_fields_readback h rest : ip_wf h ->
  let d := ip_ser (ip_calc_csum h) ++ rest in
  ip_id_of d = ip_id h /\ ip_frag_of d = ip_frag h /\ ip_ttl_of d = ip_ttl h /\ ip_proto_of d = ip_proto h
  /\ ip_src_of d = ip_src h /\ ip_dst_of d = ip_dst h.
Proof.
  intros H d. unfold d, ip_id_of, ip_frag_of, ip_ttl_of, ip_proto_of, ip_src_of, ip_dst_of, u32_at, u16_at.
  unfold ip_calc_csum, ip_set_csum, ip_ser, be32, be16. cbn [app nth ip_id ip_frag ip_ttl ip_proto ip_src ip_dst Nat.add].
  unfold ip_wf in H. destruct H as (H1 & H2 & H3 & H4 & H5 & H6 & H7).
  split; [apply rd_be16; exact H2|].
  split; [apply rd_be16; exact H3|].
  split; [reflexivity|]. split; [reflexivity|].
  split.
  - rewrite !rd_be16 by lia. lia.
  - rewrite !rd_be16 by lia. lia.
Qed.
