(** C02 for the UDP, VXLAN, ICMP, fragment, GRE/ERSPAN and raw-datagram builders. *)
From RS Require Import Base.Bytes Base.Outcome Pkt.Csum Pkt.Hdrs Pkt.Packet Ez.Tcp Ez.Udp Ez.Icmp Ez.Ip4 Ez.Gre
  Spec.Wire Proofs.BytesLemmas Proofs.C02.CsumLemmas Proofs.C02.IpLemmas Proofs.C02.TcpIp Proofs.Tactics.
From Coq Require Import ZArith Lia ZifyBool ZifyNat ZifyN.
Ltac Zify.zify_post_hook ::= Z.div_mod_to_equations.
Open Scope N_scope.

Lemma l3_of_framed (raw : bool) (eth l3 : bytes) :
  length eth = 14%nat -> l3_of raw (if raw then l3 else eth ++ l3) = l3.
Proof.
  intros H. unfold l3_of. destruct raw; [reflexivity|].
  rewrite skipn_app, H, Nat.sub_diag. rewrite skipn_all2 by lia. reflexivity.
Qed.

Definition eth_wf (e : eth_hdr) : Prop := length (eth_dst e) = 6%nat /\ length (eth_src e) = 6%nat.
Lemma eth_wf_length e : eth_wf e -> length (eth_ser e) = 14%nat.
Proof. intros (H1 & H2). unfold eth_ser. rewrite !app_length, H1, H2. reflexivity. Qed.

(* ---------------- UDP ---------------- *)
(** after [udp_push] the header checksum is current and the lengths are exact *)
Definition udp_inv (d : udp_dgram) : Prop :=
  ip_fresh (ud_ip d) /\ ip_tot_len (ud_ip d) = 28 + len (ud_payload d) /\ eth_wf (ud_eth d)
  /\ uh_len (ud_udp d) = 8 + len (ud_payload d).

(** before the first push: addresses set, checksum possibly stale, lengths exact *)
Definition udp_pre (d : udp_dgram) : Prop :=
  ip_wf (ud_ip d) /\ ip_tot_len (ud_ip d) = 28 + len (ud_payload d) /\ eth_wf (ud_eth d)
  /\ uh_len (ud_udp d) = 8 + len (ud_payload d).

Lemma udp_inv_pre d : udp_inv d -> udp_pre d.
Proof. intros (H1 & H2 & H3 & H4). refine (conj _ (conj H2 (conj H3 H4))). apply ip_fresh_wf, H1. Qed.

Lemma udp_new_pre raw : udp_pre (udp_new raw).
Proof.
  unfold udp_pre, udp_new. cbn [ud_ip ud_payload ud_eth ud_udp]. refine (conj _ (conj eq_refl (conj (conj eq_refl eq_refl) eq_refl))).
  apply ip_calc_csum_wf, ip_set_tot_len_wf; [|lia]. apply ip_set_protocol_wf; [apply ip_default_wf|unfold PROTO_UDP; lia].
Qed.

Lemma udp_src_pre d s : sock_wf s -> udp_pre d -> udp_pre (udp_src d s).
Proof.
  intros (Hs & _) (H1 & H2 & (H3 & H3') & H4). unfold udp_pre, udp_src, eth_wf. cbn. refine (conj _ (conj H2 (conj (conj H3 eq_refl) H4))).
  apply ip_set_saddr_wf; assumption.
Qed.
Lemma udp_dst_pre d s : sock_wf s -> udp_pre d -> udp_pre (udp_dst d s).
Proof.
  intros (Hs & _) (H1 & H2 & (H3 & H3') & H4). unfold udp_pre, udp_dst, eth_wf. cbn. refine (conj _ (conj H2 (conj (conj eq_refl H3') H4))).
  apply ip_set_daddr_wf; assumption.
Qed.
Lemma udp_broadcast_pre d : udp_pre d -> udp_pre (udp_broadcast d).
Proof. intros (H1 & H2 & (H3 & H3') & H4). unfold udp_pre, udp_broadcast, eth_wf. cbn. exact (conj H1 (conj H2 (conj (conj eq_refl H3') H4))). Qed.

Lemma udp_push_inv d b d' :
  udp_pre d -> 28 + len (ud_payload d) + len b < 65536 -> udp_push d b = Ok d' -> udp_inv d'.
Proof.
  intros (H1 & H2 & H3 & H4) Hfit. unfold udp_push, wrap16.
  rewrite (N.mod_small (len b)) by lia.
  rewrite (N.mod_small (ip_tot_len (ud_ip d) + len b)) by lia.
  rewrite (N.mod_small (uh_len (ud_udp d) + len b)) by lia.
  intros E; ok_inv E. unfold udp_inv. cbn [ud_ip ud_payload ud_eth ud_udp uh_len].
  split; [|split; [|split]].
  - apply ip_fresh_calc, ip_set_tot_len_wf; [exact H1|lia].
  - rewrite ip_tot_len_calc. cbn. rewrite len_app. lia.
  - exact H3.
  - rewrite len_app. lia.
Qed.

Lemma udp_srcip_inv d a : a < 4294967296 -> udp_inv d -> udp_inv (udp_srcip d a).
Proof.
  intros Ha (H1 & H2 & H3 & H4). unfold udp_inv, udp_srcip. cbn. refine (conj _ (conj H2 (conj H3 H4))).
  apply ip_fresh_calc, ip_set_saddr_wf; [apply ip_fresh_wf, H1|exact Ha].
Qed.
Lemma udp_frag_off_inv d off : off < 65536 -> udp_inv d -> udp_inv (udp_frag_off d off).
Proof.
  intros Ho (H1 & H2 & H3 & H4). unfold udp_inv, udp_frag_off. cbn [ud_ip ud_payload ud_eth ud_udp ud_with_ip].
  refine (conj _ (conj H2 (conj H3 H4))).
  apply ip_fresh_calc, ip_set_frag_off_wf; [apply ip_fresh_wf, H1|exact Ho].
Qed.
Lemma udp_csum_inv d d' : udp_inv d -> udp_csum d = Ok d' -> udp_inv d'.
Proof.
  intros (H1 & H2 & H3 & H4). unfold udp_csum.
  destruct (cadd _ _ _ _) as [a| | |]; cbn [obind]; try discriminate.
  destruct (cadd _ _ _ _) as [b| | |]; cbn [obind]; try discriminate.
  intros E; ok_inv E. unfold udp_inv. cbn. exact (conj H1 (conj H2 (conj H3 H4))).
Qed.

Theorem udp_packet_ok d : udp_inv d -> frame_ip_ok (ud_raw d) (udp_packet d).
Proof.
  intros (H1 & H2 & H3 & H4). unfold frame_ip_ok, udp_packet, pkt_of_body, udp_bytes. cbn [pk_body].
  rewrite l3_of_framed by (apply eth_wf_length; exact H3).
  unfold udp_l3_bytes, udp_l4_bytes. apply ipv4_ok_fresh; [exact H1|].
  rewrite len_app. change (len (udp_ser (ud_udp d))) with 8. lia.
Qed.

Lemma udp_raw_preserved :
  (forall d s, ud_raw (udp_src d s) = ud_raw d) /\ (forall d s, ud_raw (udp_dst d s) = ud_raw d)
  /\ (forall d, ud_raw (udp_broadcast d) = ud_raw d) /\ (forall d a, ud_raw (udp_srcip d a) = ud_raw d)
  /\ (forall d o, ud_raw (udp_frag_off d o) = ud_raw d).
Proof. repeat split. Qed.

Lemma udp_push_fields d b d' : udp_push d b = Ok d' -> ud_raw d' = ud_raw d /\ ud_payload d' = ud_payload d ++ b.
Proof.
  unfold udp_push. intros E. apply Ok_inj in E. subst d'. split; reflexivity.
Qed.

Lemma udp_addressed_payload raw s t : ud_payload (udp_dst (udp_src (udp_new raw) s) t) = [] /\ ud_raw (udp_dst (udp_src (udp_new raw) s) t) = raw.
Proof. split; reflexivity. Qed.

Definition uflow_wf (f : udp_flow) : Prop := sock_wf (uf_cl f) /\ sock_wf (uf_sv f).

Lemma udp_addressed_push raw s t b d :
  sock_wf s -> sock_wf t -> 28 + len b < 65536 ->
  udp_push (udp_dst (udp_src (udp_new raw) s) t) b = Ok d -> udp_inv d /\ ud_raw d = raw /\ ud_payload d = b.
Proof.
  intros Hs Ht Hb E.
  destruct (udp_addressed_payload raw s t) as (P & R).
  destruct (udp_push_fields _ _ _ E) as (R' & P').
  split; [|split].
  - eapply udp_push_inv; [| |exact E]; [apply udp_dst_pre, udp_src_pre, udp_new_pre; assumption|rewrite P; change (len (@nil N)) with 0; lia].
  - rewrite R'. exact R.
  - rewrite P', P. reflexivity.
Qed.

Theorem uflow_dgram_ok (client : bool) f b d :
  uflow_wf f -> 28 + len b < 65536 ->
  (if client then uflow_client_dgram f b else uflow_server_dgram f b) = Ok d ->
  udp_inv d /\ ud_raw d = uf_raw f.
Proof.
  intros (Hc & Hs) Hb. unfold uflow_client_dgram, uflow_server_dgram.
  destruct client; intros E.
  - destruct (udp_addressed_push _ _ _ _ _ Hc Hs Hb E) as (I & R & _). split; assumption.
  - destruct (udp_addressed_push _ _ _ _ _ Hs Hc Hb E) as (I & R & _). split; assumption.
Qed.

(** VXLAN outer header *)
Theorem vxlan_encap_ip_ok f inner p :
  sock_wf (vx_cl f) -> sock_wf (vx_sv f) -> 36 + len inner < 65536 ->
  vxlan_encap f inner = Ok p -> frame_ip_ok (vx_raw f) p.
Proof.
  intros Hc Hs Hfit. unfold vxlan_encap.
  destruct (udp_push _ (vxlan_ser (vx_vni f))) as [d1| | |] eqn:E1; cbn [obind]; try discriminate.
  destruct (udp_push d1 inner) as [d2| | |] eqn:E2; cbn [obind]; try discriminate.
  intros E; apply Ok_inj in E; subst p.
  assert (Hv : 28 + len (vxlan_ser (vx_vni f)) < 65536) by (change (len (vxlan_ser (vx_vni f))) with 8; lia).
  destruct (udp_addressed_push _ _ _ _ _ Hc Hs Hv E1) as (I1 & R1 & P1).
  destruct (udp_push_fields _ _ _ E2) as (R2 & P2).
  assert (I2 : udp_inv d2).
  { eapply udp_push_inv; [apply udp_inv_pre, I1| |exact E2]. rewrite P1. change (len (vxlan_ser (vx_vni f))) with 8. lia. }
  rewrite <- R1, <- R2. apply udp_packet_ok, I2.
Qed.

(* ---------------- ICMP ---------------- *)
Theorem icmp_dgram_ip_ok src dst raw typ id seq b p :
  src < 4294967296 -> dst < 4294967296 -> 28 + len b < 65536 ->
  icmp_dgram src dst raw typ id seq b = Ok p -> frame_ip_ok raw p.
Proof.
  intros Hs Hd Hb. unfold icmp_dgram, wrap16.
  rewrite ip_tot_len_calc. cbn [ip_tot_len ip_set_daddr ip_set_saddr ip_set_tot_len].
  rewrite (N.mod_small (len b)) by lia.
  rewrite (N.mod_small (28 + len b)) by lia.
  intros E'; ok_inv E'.
  unfold frame_ip_ok, pkt_of_body. cbn [pk_body].
  rewrite l3_of_framed by reflexivity.
  apply ipv4_ok_fresh.
  - apply ip_fresh_calc, ip_set_tot_len_wf; [|lia]. apply ip_calc_csum_wf.
    apply ip_set_daddr_wf; [|exact Hd]. apply ip_set_saddr_wf; [|exact Hs].
    apply ip_set_tot_len_wf; [|lia]. apply ip_set_protocol_wf; [apply ip_default_wf|unfold PROTO_ICMP; lia].
  - rewrite ip_tot_len_calc. cbn [ip_tot_len ip_set_tot_len]. rewrite len_app.
    change (len (icmp_ser _)) with 8. lia.
Qed.

(* ---------------- IpDgram / fragments ---------------- *)
Theorem ipdgram_ip_ok iph payload raw off mf p :
  ip_wf iph -> off < 65536 -> 20 + len payload < 65536 ->
  ipdgram iph payload raw off mf = Ok p -> frame_ip_ok raw p.
Proof.
  intros Hw Ho Hfit. unfold ipdgram, wrap16.
  rewrite (N.mod_small (len payload)) by lia.
  rewrite (N.mod_small (len payload + 20)) by lia.
  intros E'; ok_inv E'.
  unfold frame_ip_ok, pkt_of_body. cbn [pk_body].
  rewrite l3_of_framed by reflexivity.
  apply ipv4_ok_fresh.
  - apply ip_fresh_calc, ip_set_mf_wf, ip_set_frag_off_wf; [|exact Ho]. apply ip_set_tot_len_wf; [exact Hw|lia].
  - rewrite ip_tot_len_calc. cbn. lia.
Qed.

Lemma len_takeN_le {A} n (l : list A) : len (takeN n l) <= len l.
Proof. unfold len, takeN. rewrite firstn_length. lia. Qed.
Lemma len_dropN_le {A} n (l : list A) : len (dropN n l) <= len l.
Proof. unfold len, dropN. rewrite skipn_length. lia. Qed.

Theorem frag_fragment_ip_ok f off l raw p :
  ip_wf (fr_hdr f) -> off < 65536 -> 20 + len (fr_payload f) < 65536 ->
  frag_fragment f off l raw = Ok p -> frame_ip_ok raw p.
Proof.
  intros Hw Ho Hfit. unfold frag_fragment. apply ipdgram_ip_ok; try assumption.
  pose proof (len_takeN_le (N.min (off * 8 + l * 8) (len (fr_payload f)) - N.min (off * 8) (N.min (off * 8 + l * 8) (len (fr_payload f))))
                (dropN (N.min (off * 8) (N.min (off * 8 + l * 8) (len (fr_payload f)))) (fr_payload f))).
  pose proof (len_dropN_le (N.min (off * 8) (N.min (off * 8 + l * 8) (len (fr_payload f)))) (fr_payload f)).
  lia.
Qed.

Theorem frag_datagram_ip_ok f raw p :
  ip_wf (fr_hdr f) -> 20 + len (fr_payload f) < 65536 -> frag_datagram f raw = Ok p -> frame_ip_ok raw p.
Proof. intros Hw Hfit. unfold frag_datagram. apply ipdgram_ip_ok; try assumption. lia. Qed.

(* ---------------- GRE / ERSPAN ---------------- *)
Definition gre_extra (g : gre_frame) : bytes :=
  gr_hdr g ++ (match gr_seq g with Some n => be32 n | None => [] end) ++ gr_rest g.

(** between construction and the first push the checksum may be stale *)
Definition gre_pre (g : gre_frame) : Prop :=
  ip_wf (gr_ip g) /\ ip_tot_len (gr_ip g) = 20 + len (gre_extra g) /\ length (eth_ser (gr_eth g)) = 14%nat.
Definition gre_inv (g : gre_frame) : Prop :=
  ip_fresh (gr_ip g) /\ ip_tot_len (gr_ip g) = 20 + len (gre_extra g) /\ length (eth_ser (gr_eth g)) = 14%nat.

Lemma gre_new_pre src dst flags proto raw g :
  src < 4294967296 -> dst < 4294967296 -> gre_new src dst flags proto raw = Ok g -> gre_pre g /\ gr_raw g = raw.
Proof.
  intros Hs Hd. unfold gre_new.
  assert (W : ip_wf (ip_calc_csum (ip_set_daddr (ip_set_saddr (ip_set_tot_len (ip_set_protocol ip_default PROTO_GRE) 24) src) dst))).
  { apply ip_calc_csum_wf, ip_set_daddr_wf; [|exact Hd]. apply ip_set_saddr_wf; [|exact Hs].
    apply ip_set_tot_len_wf; [|lia]. apply ip_set_protocol_wf; [apply ip_default_wf|unfold PROTO_GRE; lia]. }
  destruct (negb (N.land (gre_flags_word flags) 4096 =? 0)).
  - rewrite ip_tot_len_calc. cbn [ip_tot_len ip_set_daddr ip_set_saddr ip_set_tot_len].
    change (wrap16 (24 + 4)) with 28.
    intros E; ok_inv E. unfold gre_pre, gre_extra. cbn [gr_ip gr_hdr gr_seq gr_rest gr_eth gr_raw].
    refine (conj (conj _ (conj eq_refl eq_refl)) eq_refl).
    apply ip_set_tot_len_wf; [exact W|lia].
  - intros E; ok_inv E. unfold gre_pre, gre_extra. cbn [gr_ip gr_hdr gr_seq gr_rest gr_eth gr_raw].
    exact (conj (conj W (conj eq_refl eq_refl)) eq_refl).
Qed.

Lemma gre_set_seq_pre g n : gre_pre g -> gre_pre (gre_set_seq g n).
Proof.
  intros (H1 & H2 & H3). unfold gre_pre, gre_set_seq, gre_extra in *. cbn [gr_ip gr_hdr gr_seq gr_rest gr_eth].
  refine (conj H1 (conj _ H3)). rewrite H2. destruct (gr_seq g); rewrite !len_app; reflexivity.
Qed.

Lemma gre_push_inv g b g' :
  gre_pre g -> 20 + len (gre_extra g) + len b < 65536 -> gre_push g b = Ok g' -> gre_inv g' /\ gr_raw g' = gr_raw g.
Proof.
  intros (H1 & H2 & H3) Hfit. unfold gre_push, wrap16.
  rewrite (N.mod_small (len b)) by lia.
  rewrite (N.mod_small (ip_tot_len (gr_ip g) + len b)) by lia.
  intros E'; ok_inv E'. unfold gre_inv, gre_extra in *. cbn [gr_ip gr_hdr gr_seq gr_rest gr_eth gr_raw].
  refine (conj (conj _ (conj _ H3)) eq_refl).
  - apply ip_fresh_calc, ip_set_tot_len_wf; [exact H1|lia].
  - rewrite ip_tot_len_calc. cbn [ip_tot_len ip_set_tot_len]. rewrite H2, !len_app. lia.
Qed.

Lemma gre_inv_pre g : gre_inv g -> gre_pre g.
Proof. intros (H1 & H2 & H3). refine (conj _ (conj H2 H3)). apply ip_fresh_wf, H1. Qed.

Theorem gre_packet_ok g : gre_inv g -> frame_ip_ok (gr_raw g) (gre_packet g).
Proof.
  intros (H1 & H2 & H3). unfold frame_ip_ok, gre_packet, pkt_of_body, gre_bytes. cbn [pk_body].
  rewrite l3_of_framed by exact H3. apply ipv4_ok_fresh; [exact H1|exact H2].
Qed.

Lemma gre_extra_len_new src dst flags proto raw g :
  gre_new src dst flags proto raw = Ok g -> len (gre_extra g) <= 8.
Proof.
  unfold gre_new. destruct (negb _).
  - intros E; ok_inv E. unfold gre_extra. cbn [gr_hdr gr_seq gr_rest]. rewrite !len_app. cbn. lia.
  - intros E; ok_inv E. unfold gre_extra. cbn [gr_hdr gr_seq gr_rest]. rewrite !len_app. cbn. lia.
Qed.

Theorem gre_flow_encap_ip_ok f b f' p :
  gl_cl f < 4294967296 -> gl_sv f < 4294967296 -> 28 + len b < 65536 ->
  gre_flow_encap f b = Ok (f', p) -> frame_ip_ok (gl_raw f) p.
Proof.
  intros Hc Hs Hfit. unfold gre_flow_encap.
  destruct (gre_new _ _ _ _ _) as [g| | |] eqn:E0; cbn [obind]; try discriminate.
  destruct (gre_push _ b) as [g'| | |] eqn:E1; cbn [obind]; try discriminate.
  intros E; ok_inv E.
  destruct (gre_new_pre _ _ _ _ _ _ Hc Hs E0) as (P0 & R0).
  pose proof (gre_extra_len_new _ _ _ _ _ _ E0) as L0.
  destruct (gre_push_inv (gre_set_seq g (gl_seq f)) b g' (gre_set_seq_pre _ _ P0)) as (I1 & R1); [|exact E1|].
  - assert (len (gre_extra (gre_set_seq g (gl_seq f))) = len (gre_extra g)).
    { unfold gre_extra, gre_set_seq. cbn. destruct (gr_seq g); rewrite !len_app; reflexivity. }
    lia.
  - rewrite <- R0. change (gr_raw g) with (gr_raw (gre_set_seq g (gl_seq f))). rewrite <- R1. apply gre_packet_ok, I1.
Qed.

Theorem erspan1_encap_ip_ok f b p :
  e1_cl f < 4294967296 -> e1_sv f < 4294967296 -> 28 + len b < 65536 ->
  erspan1_encap f b = Ok p -> frame_ip_ok (e1_raw f) p.
Proof.
  intros Hc Hs Hfit. unfold erspan1_encap.
  destruct (gre_new _ _ _ _ _) as [g| | |] eqn:E0; cbn [obind]; try discriminate.
  destruct (gre_push g b) as [g'| | |] eqn:E1; cbn [obind]; try discriminate.
  intros E; ok_inv E.
  destruct (gre_new_pre _ _ _ _ _ _ Hc Hs E0) as (P0 & R0).
  pose proof (gre_extra_len_new _ _ _ _ _ _ E0) as L0.
  destruct (gre_push_inv g b g' P0) as (I1 & R1); [lia|exact E1|].
  rewrite <- R0, <- R1. apply gre_packet_ok, I1.
Qed.

Theorem erspan2_encap_ip_ok f b ix f' p :
  e2_cl f < 4294967296 -> e2_sv f < 4294967296 -> 36 + len b < 65536 ->
  erspan2_encap f b ix = Ok (f', p) -> frame_ip_ok (e2_raw f) p.
Proof.
  intros Hc Hs Hfit. unfold erspan2_encap.
  destruct (gre_new _ _ _ _ _) as [g| | |] eqn:E0; cbn [obind]; try discriminate.
  destruct (gre_push _ (erspan2_ser _ _)) as [g1| | |] eqn:E1; cbn [obind]; try discriminate.
  destruct (gre_push g1 b) as [g2| | |] eqn:E2; cbn [obind]; try discriminate.
  intros E; ok_inv E.
  destruct (gre_new_pre _ _ _ _ _ _ Hc Hs E0) as (P0 & R0).
  pose proof (gre_extra_len_new _ _ _ _ _ _ E0) as L0.
  assert (L0' : len (gre_extra (gre_set_seq g (e2_seq f))) = len (gre_extra g)).
  { unfold gre_extra, gre_set_seq. cbn. destruct (gr_seq g); rewrite !len_app; reflexivity. }
  destruct (gre_push_inv (gre_set_seq g (e2_seq f)) (erspan2_ser (e2_sess f) ix) g1 (gre_set_seq_pre _ _ P0)) as (I1 & R1); [|exact E1|].
  { change (len (erspan2_ser (e2_sess f) ix)) with 8. lia. }
  assert (L1 : len (gre_extra g1) = len (gre_extra g) + 8).
  { unfold gre_push in E1. apply Ok_inj in E1. subst g1.
    unfold gre_extra, gre_set_seq. cbn [gr_hdr gr_seq gr_rest].
    assert (B : forall x, len (be32 x) = 4) by reflexivity.
    destruct (gr_seq g); rewrite !len_app, ?B; change (len (erspan2_ser (e2_sess f) ix)) with 8; change (len (@nil N)) with 0; lia. }
  destruct (gre_push_inv g1 b g2 (gre_inv_pre _ I1)) as (I2 & R2); [lia|exact E2|].
  rewrite <- R0. change (gr_raw g) with (gr_raw (gre_set_seq g (e2_seq f))). rewrite <- R1, <- R2. apply gre_packet_ok, I2.
Qed.
