(** C02 at the level the interpreter executes, part 3: the UdpFlow methods, ipv4::udp::unicast / broadcast,
    the Icmp methods, ipv4::datagram, the IpFrag methods and dns::host, as dispatched by [exec]:
    every packet returned carries the IPv4 header the call designates ([ip_pkt], Proofs/C02/LibIp.v).
    Partial-correctness statements ("whenever the call returns a value"); that calls never panic is C08. *)
From RS Require Import Base.Bytes Base.Outcome Bind.Types Pkt.Csum Pkt.Hdrs Pkt.Packet Ez.Tcp Ez.Udp Ez.Icmp Ez.Ip4
  Interp.Val Interp.Eval Lib.LibBase Lib.StdLib Lib.Ipv4Lib Lib.MiscLib Lib.ProtoLib Spec.Wire
  Proofs.BytesLemmas Proofs.Tactics Proofs.C02.IpLemmas Proofs.C02.TcpIp Proofs.C02.OtherIp Proofs.C02.DgramIp
  Proofs.C02.LibIp Proofs.C02.LibIpTcp
  Proofs.C03.Transport Proofs.C08.LibTac Proofs.C03.LibCalls Proofs.C03.LibUdp Proofs.C03.LibIcmp
  Proofs.C07.FragExact Proofs.C07.Compose Proofs.C07.LibFrag.
From RSGen Require Import Catalogue.
From Coq Require Import Arith ZArith Lia ZifyBool ZifyNat ZifyN.
Ltac Zify.zify_post_hook ::= Z.div_mod_to_equations.
Open Scope N_scope.
Open Scope string_scope.

(** packets [ps] carry, in order, the headers [ws] *)
Definition pkts_carry (raw : bool) (ws : list ip_want) (ps : list packet) : Prop :=
  Forall2 (fun w p => ip_pkt w raw p) ws ps.

Lemma tcp_pkts_carry f pl ps :
  tcp_pkts f pl ps -> pkts_carry (tf_raw f) (map (fun cf => tcp_want f (fst cf) (snd cf)) pl) ps.
Proof. unfold tcp_pkts, pkts_carry. induction 1; cbn [map]; constructor; assumption. Qed.

(** address values as the lexer produces them: 32-bit addresses, 16-bit ports (the model's numbers are unbounded) *)
Definition addr_val_ok (v : val) : Prop :=
  match v with VIp4 a => a < 4294967296 | VSock4 a p => a < 4294967296 /\ p < 65536 | _ => True end.

Lemma conv_sock_wf v s : addr_val_ok v -> conv_sock v = Ok s -> sock_wf s.
Proof. destruct v; try discriminate. cbn [addr_val_ok conv_sock]. intros H E. apply Ok_inj in E. subst s. exact H. Qed.
Lemma conv_ip4_ok v a : addr_val_ok v -> conv_ip4 v = Ok a -> a < 4294967296.
Proof. destruct v; try discriminate. cbn [addr_val_ok conv_ip4]. intros H E. apply Ok_inj in E. subst a. exact H. Qed.
Lemma conv_opt_ip4_ok v a : addr_val_ok v -> conv_opt conv_ip4 v = Ok (Some a) -> a < 4294967296.
Proof.
  destruct v; try discriminate. cbn [addr_val_ok conv_opt conv_ip4 omap obind]. intros H E.
  apply Ok_inj in E. injection E as <-. exact H.
Qed.

Ltac split_addr :=
  repeat match goal with
  | H : Forall addr_val_ok (_ :: _) |- _ => apply Forall_cons_iff in H; let A := fresh "A" in destruct H as (A & H)
  end.

Ltac not_in_names :=
  let Hin := fresh "Hin" in intros Hin; exfalso; cbn [In] in Hin;
  repeat (destruct Hin as [Hin|Hin]; [discriminate Hin|]); exact Hin.

(* ------------------------------------------------------------------ UDP flow datagrams *)
Lemma uflow_dgram_base (client : bool) f b d :
  uflow_wf f -> 28 + len b < 65536 ->
  (if client then uflow_client_dgram f b else uflow_server_dgram f b) = Ok d ->
  udp_inv d /\ ud_raw d = uf_raw f
  /\ hdr_wants (udp_want (fst (uflow_side client f)) (snd (uflow_side client f))) (ud_ip d).
Proof.
  intros (Hc & Hs) Hb. unfold uflow_client_dgram, uflow_server_dgram.
  destruct client; intros E; cbn [uflow_side fst snd].
  - exact (udp_addressed_clause false _ _ _ _ _ Hc Hs Hb E).
  - exact (udp_addressed_clause false _ _ _ _ _ Hs Hc Hb E).
Qed.

Lemma udp_csum_keeps w (cs : bool) d d2 :
  udp_inv d -> hdr_wants w (ud_ip d) -> (if cs then udp_csum d else Ok d) = Ok d2 ->
  udp_inv d2 /\ hdr_wants w (ud_ip d2) /\ ud_raw d2 = ud_raw d.
Proof.
  intros I W E. destruct cs.
  - destruct (udp_csum_ip _ _ E) as (Ei & Er). split; [eapply udp_csum_inv; eassumption|]. rewrite Ei. split; assumption.
  - apply Ok_inj in E. subst d2. split; [exact I|]. split; [exact W|reflexivity].
Qed.

Definition udp_side_want (f : udp_flow) (client : bool) (fo : N) : ip_want :=
  want_frag (udp_want (fst (uflow_side client f)) (snd (uflow_side client f))) fo.

Lemma uflow_dgram_clause (client cs : bool) f b fo d d2 :
  uflow_wf f -> 28 + len b < 65536 -> fo < 65536 ->
  (if client then uflow_client_dgram f b else uflow_server_dgram f b) = Ok d ->
  (if cs then udp_csum (udp_frag_off d fo) else Ok (udp_frag_off d fo)) = Ok d2 ->
  ip_pkt (udp_side_want f client fo) (uf_raw f) (udp_packet d2).
Proof.
  intros Hf Hb Ho Ed Ec. destruct (uflow_dgram_base client f b d Hf Hb Ed) as (I & R & W).
  pose proof (udp_frag_off_inv d fo Ho I) as I1.
  pose proof (udp_frag_off_wants _ d fo W eq_refl) as W1.
  destruct (udp_csum_keeps _ cs _ _ I1 W1 Ec) as (I2 & W2 & R2).
  rewrite <- R. change (ud_raw d) with (ud_raw (udp_frag_off d fo)). rewrite <- R2.
  apply udp_packet_clause; assumption.
Qed.

(** the headers a UdpFlow method designates: client_dgram / server_dgram, with the call's frag_off: word *)
Definition udp_pkt_names : list string := ["client_dgram"; "server_dgram"].
Definition udp_dgram_plan (f : udp_flow) (client : bool) (slots : list val) : option (list ip_want) :=
  match slots with
  | [frag_off; _] => match conv_u16 frag_off with Ok fo => Some [udp_side_want f client fo] | _ => None end
  | _ => None
  end.
Definition udp_plan (f : udp_flow) (name : string) (slots : list val) : option (list ip_want) :=
  if String.eqb name "client_dgram" then udp_dgram_plan f true slots
  else if String.eqb name "server_dgram" then udp_dgram_plan f false slots
  else None.

Ltac udp_framed_ip c f Hf Hfit :=
  match goal with
  | Efo : conv_u16 _ = Ok ?fo, Ej : join_extra [] _ = Ok ?b, Ed : _ f ?b = Ok ?d,
    Ec : (if ?cs then udp_csum (udp_frag_off ?d ?fo) else _) = Ok ?d2, Ev : Ok _ = Ok _ |- _ =>
    ok_inv Ev; intros _;
    pose proof (uflow_dgram_clause c cs f b fo d d2 Hf (Hfit _ Ej) (conv_u16_lt _ _ Efo) Ed Ec) as Cl;
    eexists; eexists; split; [unfold udp_plan, udp_dgram_plan; cbn [String.eqb Ascii.eqb Bool.eqb]; rewrite Efo; reflexivity|];
    split; [reflexivity|]; constructor; [exact Cl|constructor]
  end.

Theorem udp_ip_method e ms name key slots extra h a f v h' :
  assoc udp_class class_table = Some ms -> In (name, key) ms ->
  extra_fits 28 extra ->
  nth_error h a = Some (OUdp f) -> uflow_wf f ->
  exec e key (Some a) slots extra h = Some (Ok (v, h')) ->
  h' = h /\ (In name udp_pkt_names ->
             exists ws ps, udp_plan f name slots = Some ws /\ conv_pktgen v = Ok ps /\ pkts_carry (uf_raw f) ws ps).
Proof.
  intros Hms Hin Hfit Hn Hf H. vm_compute in Hms. apply Some_inj in Hms. subst ms.
  cbn [In] in Hin.
  repeat (destruct Hin as [Hin|Hin]; [apply pair_equal_spec in Hin; destruct Hin as [<- <-]|]); [..|contradiction Hin].
  - udp_enter H Hn.
    destruct slots as [|s1 [|s2 [|? ?]]]; cbv beta iota in E; try (exfalso; exact (bad_args_not_ok' _ E)).
    binv E. udp_framed_ip true f Hf Hfit.
  - udp_enter H Hn.
    destruct slots as [|s1 [|s2 [|? ?]]]; cbv beta iota in E; try (exfalso; exact (bad_args_not_ok' _ E)).
    binv E. udp_framed_ip false f Hf Hfit.
  - udp_enter H Hn. unfold udp_pkt_names. not_in_names.
  - udp_enter H Hn. unfold udp_pkt_names. not_in_names.
Qed.

(* ------------------------------------------------------------------ unicast / broadcast *)
Definition unicast_plan (slots : list val) : outcome (bool * list ip_want) :=
  match slots with
  | [src; dst; raw] => do r <- conv_bool raw; do s <- conv_sock src; do d <- conv_sock dst; Ok (r, [udp_want s d])
  | _ => bad_args
  end.
Definition broadcast_plan (slots : list val) : outcome (bool * list ip_want) :=
  match slots with
  | [src; dst; srcip; raw] =>
    do sip <- conv_opt conv_ip4 srcip; do r <- conv_bool raw; do s <- conv_sock src; do d <- conv_sock dst;
    Ok (r, [match sip with Some ip => want_src (udp_want s d) ip | None => udp_want s d end])
  | _ => bad_args
  end.

Theorem unicast_ip e slots extra h v h' :
  Forall addr_val_ok slots -> extra_fits 28 extra ->
  exec e "ipv4::udp::unicast" None slots extra h = Some (Ok (v, h')) ->
  h' = h /\ exists raw ws ps, unicast_plan slots = Ok (raw, ws) /\ conv_pktgen v = Ok ps /\ pkts_carry raw ws ps.
Proof.
  intros Ha Hfit H. exec_unfold_in H. apply Some_inj in H. revert H. unfold udp_unicast_fn. intros H.
  destruct slots as [|s1 [|s2 [|s3 [|? ?]]]]; try (exfalso; exact (bad_args_not_ok' _ H)).
  split_addr. binv H. ok_inv H. split; [reflexivity|].
  match goal with
  | Er : conv_bool s3 = Ok ?r, Ej : join_extra [] extra = Ok ?b, Es : conv_sock s1 = Ok ?s, Et : conv_sock s2 = Ok ?t,
    Ed : udp_push _ ?b = Ok ?d |- _ =>
    destruct (udp_addressed_clause false r s t b d (conv_sock_wf _ _ A Es) (conv_sock_wf _ _ A0 Et) (Hfit _ Ej) Ed) as (I & R & W);
    eexists; eexists; eexists; split; [unfold unicast_plan; rewrite Er, Es, Et; reflexivity|];
    split; [reflexivity|]; constructor; [|constructor];
    rewrite <- R; apply udp_packet_clause; assumption
  end.
Qed.

Theorem broadcast_ip e slots extra h v h' :
  Forall addr_val_ok slots -> extra_fits 28 extra ->
  exec e "ipv4::udp::broadcast" None slots extra h = Some (Ok (v, h')) ->
  h' = h /\ exists raw ws ps, broadcast_plan slots = Ok (raw, ws) /\ conv_pktgen v = Ok ps /\ pkts_carry raw ws ps.
Proof.
  intros Ha Hfit H. exec_unfold_in H. apply Some_inj in H. revert H. unfold udp_broadcast_fn. intros H.
  destruct slots as [|s1 [|s2 [|s3 [|s4 [|? ?]]]]]; try (exfalso; exact (bad_args_not_ok' _ H)).
  split_addr. binv H. ok_inv H. split; [reflexivity|].
  match goal with
  | Ei : conv_opt conv_ip4 s3 = Ok ?sip, Er : conv_bool s4 = Ok ?r, Ej : join_extra [] extra = Ok ?b,
    Es : conv_sock s1 = Ok ?s, Et : conv_sock s2 = Ok ?t, Ed : udp_push _ ?b = Ok ?d |- _ =>
    destruct (udp_addressed_clause true r s t b d (conv_sock_wf _ _ A Es) (conv_sock_wf _ _ A0 Et) (Hfit _ Ej) Ed) as (I & R & W);
    eexists; eexists; eexists; split; [unfold broadcast_plan; rewrite Ei, Er, Es, Et; reflexivity|];
    split; [reflexivity|]; constructor; [|constructor];
    destruct sip as [ip|];
    [ pose proof (conv_opt_ip4_ok _ _ A1 Ei) as Hip; rewrite <- R; change (ud_raw d) with (ud_raw (udp_srcip d ip));
      apply udp_packet_clause; [apply udp_srcip_inv; assumption|apply udp_srcip_wants, W]
    | rewrite <- R; apply udp_packet_clause; assumption ]
  end.
Qed.

(* ------------------------------------------------------------------ ICMP *)
Definition icmp_awf (f : icmp_flow) : Prop := if_cl f < 4294967296 /\ if_sv f < 4294967296.
Definition icmp_same (f' f : icmp_flow) : Prop := if_cl f' = if_cl f /\ if_sv f' = if_sv f /\ if_raw f' = if_raw f.
(** the payload argument, converted, fits a datagram behind the IPv4 and ICMP headers *)
Definition icmp_ip_fits (slots : list val) : Prop :=
  forall pv b, slots = [pv] -> conv_buf pv = Ok b -> 28 + len b < 65536.
Definition icmp_plan (f : icmp_flow) (name : string) : option (list ip_want) :=
  if String.eqb name "echo" then Some [want_default (if_cl f) (if_sv f) 1]
  else if String.eqb name "echo_reply" then Some [want_default (if_sv f) (if_cl f) 1]
  else None.

Lemma echo_ip (req : bool) f b f' p :
  icmp_awf f -> 28 + len b < 65536 ->
  (if req then icmp_echo f b else icmp_echo_reply f b) = Ok (f', p) ->
  icmp_same f' f /\
  ip_pkt (if req then want_default (if_cl f) (if_sv f) 1 else want_default (if_sv f) (if_cl f) 1) (if_raw f) p.
Proof.
  intros (Hc & Hs) Hfit H. revert H. unfold icmp_echo, icmp_echo_reply. intros H.
  destruct req; binv H; ok_inv H; (split; [repeat split|]);
    (eapply icmp_dgram_clause; [| | |eassumption]; assumption).
Qed.

Theorem icmp_ip_method e ms name key slots extra h a f v h' :
  assoc icmp_class class_table = Some ms -> In (name, key) ms ->
  icmp_ip_fits slots ->
  nth_error h a = Some (OIcmp f) -> icmp_awf f ->
  exec e key (Some a) slots extra h = Some (Ok (v, h')) ->
  exists f', h' = set_nth h a (OIcmp f') /\ icmp_same f' f
    /\ exists ws ps, icmp_plan f name = Some ws /\ conv_pktgen v = Ok ps /\ pkts_carry (if_raw f) ws ps.
Proof.
  intros Hms Hin Hfit Hn Hf H. vm_compute in Hms. apply Some_inj in Hms. subst ms.
  cbn [In] in Hin.
  repeat (destruct Hin as [Hin|Hin]; [apply pair_equal_spec in Hin; destruct Hin as [<- <-]|]); [..|contradiction Hin].
  - exec_unfold_in H. apply Some_inj in H. rewrite (take_this_some _ _ _ Hn), obind_ok in H. cbv beta iota in H.
    destruct slots as [|pv [|? ?]]; cbv beta iota in H; try (exfalso; exact (bad_args_not_ok' _ H)).
    binv H. ok_inv H.
    match goal with Eb : conv_buf pv = Ok ?b, Ee : icmp_echo f ?b = Ok (?f1, ?p) |- _ =>
      destruct (echo_ip true f b f1 p Hf (Hfit _ _ eq_refl Eb) Ee) as (S & Cl);
      exists f1; split; [reflexivity|]; split; [exact S|];
      eexists; eexists; split; [reflexivity|]; split; [reflexivity|]; constructor; [exact Cl|constructor]
    end.
  - exec_unfold_in H. apply Some_inj in H. rewrite (take_this_some _ _ _ Hn), obind_ok in H. cbv beta iota in H.
    destruct slots as [|pv [|? ?]]; cbv beta iota in H; try (exfalso; exact (bad_args_not_ok' _ H)).
    binv H. ok_inv H.
    match goal with Eb : conv_buf pv = Ok ?b, Ee : icmp_echo_reply f ?b = Ok (?f1, ?p) |- _ =>
      destruct (echo_ip false f b f1 p Hf (Hfit _ _ eq_refl Eb) Ee) as (S & Cl);
      exists f1; split; [reflexivity|]; split; [exact S|];
      eexists; eexists; split; [reflexivity|]; split; [reflexivity|]; constructor; [exact Cl|constructor]
    end.
Qed.

(* ------------------------------------------------------------------ ipv4::datagram *)
(** the header ipv4::datagram(src, dst, id:, evil:, df:, mf:, ttl:, frag_off:, proto:, payload...) designates:
    every field as converted from its argument; flags word = frag_off ORed with the three flag bits *)
Definition datagram_want (slots : list val) : outcome ip_want :=
  match slots with
  | [src; dst; id; evil; df; mf; ttl; frag_off; proto] =>
    do s <- conv_ip4 src; do d <- conv_ip4 dst; do i <- conv_u16 id; do ev <- conv_bool evil;
    do dfb <- conv_bool df; do mfb <- conv_bool mf; do t <- conv_u8 ttl; do fo <- conv_u16 frag_off;
    do pr <- conv_u8 proto;
    Ok {| w_src := s; w_dst := d; w_proto := pr; w_id := i; w_ttl := t; w_frag := N.lor fo (flag_bits ev dfb mfb) |}
  | _ => bad_args
  end.

Lemma datagram_pkt_clause s d i ev dfb mfb t fo pr data :
  s < 4294967296 -> d < 4294967296 -> i < 65536 -> t < 256 -> fo < 65536 -> pr < 256 -> 20 + len data < 65536 ->
  ip_pkt {| w_src := s; w_dst := d; w_proto := pr; w_id := i; w_ttl := t; w_frag := N.lor fo (flag_bits ev dfb mfb) |} false
    (pkt_of_body (eth_ser (eth_new (mac_of_ip s) (mac_of_ip d) ETH_IPV4)
       ++ ip_ser (ip_calc_csum (dgram_hdr s d i ev dfb mfb t fo pr (wrap16 (20 + wrap16 (len data))))) ++ data)%list).
Proof.
  intros Hs Hd Hi Ht Hfo Hpr Hl.
  unfold wrap16. rewrite (N.mod_small (len data)) by lia. rewrite (N.mod_small (20 + len data)) by lia.
  unfold ip_pkt, pkt_of_body, l3_of. cbn [pk_body].
  change (skipn 14 (eth_ser (eth_new (mac_of_ip s) (mac_of_ip d) ETH_IPV4) ++ ?x)) with x.
  pose proof (dgram_hdr_wf s d i ev dfb mfb t fo pr (20 + len data) Hs Hd Hi Ht Hfo Hpr Hl) as W.
  destruct (dgram_hdr_fields s d i ev dfb mfb t fo pr (20 + len data)) as (F1 & F2 & F3 & F4 & F5 & F6 & F7).
  apply clause_intro.
  - apply ip_fresh_calc, W.
  - rewrite ip_tot_len_calc. exact F1.
  - 
apply wants_calc. unfold hdr_wants. cbn [w_src w_dst w_proto w_id w_ttl w_frag].
  repeat split; assumption.
Qed.

Theorem datagram_ip e slots extra h v h' :
  Forall addr_val_ok slots -> extra_fits 20 extra ->
  exec e "ipv4::datagram" None slots extra h = Some (Ok (v, h')) ->
  h' = h /\ exists w p, datagram_want slots = Ok w /\ v = VPkt p /\ ip_pkt w false p.
Proof.
  intros Ha Hfit H. exec_unfold_in H. apply Some_inj in H. revert H. unfold ipv4_datagram_fn. intros H.
  destruct slots as [|s1 [|s2 [|s3 [|s4 [|s5 [|s6 [|s7 [|s8 [|s9 [|? ?]]]]]]]]]]; try (exfalso; exact (bad_args_not_ok' _ H)).
  split_addr. binv H. ok_inv H. split; [reflexivity|].
  match goal with
  | E1 : conv_ip4 s1 = Ok ?s, E2 : conv_ip4 s2 = Ok ?d, E3 : conv_u16 s3 = Ok ?i, E4 : conv_bool s4 = Ok ?ev,
    E5 : conv_bool s5 = Ok ?dfb, E6 : conv_bool s6 = Ok ?mfb, E7 : conv_u8 s7 = Ok ?t, E8 : conv_u16 s8 = Ok ?fo,
    E9 : conv_u8 s9 = Ok ?pr, Ej : join_extra [] extra = Ok ?data |- _ =>
    pose proof (conv_ip4_ok _ _ A E1) as Hs; pose proof (conv_ip4_ok _ _ A0 E2) as Hd;
    pose proof (conv_u16_lt _ _ E3) as Hi; pose proof (conv_u8_lt _ _ E7) as Ht;
    pose proof (conv_u16_lt _ _ E8) as Hfo; pose proof (conv_u8_lt _ _ E9) as Hpr; pose proof (Hfit _ Ej) as Hl;
    eexists; eexists; split; [unfold datagram_want; rewrite E1, E2, E3, E4, E5, E6, E7, E8, E9; reflexivity|];
    split; [reflexivity|];
    exact (datagram_pkt_clause s d i ev dfb mfb t fo pr data Hs Hd Hi Ht Hfo Hpr Hl)
  end.
Qed.

(* ------------------------------------------------------------------ IpFrag methods *)
(** the header a request designates, and the bytes its datagram carries behind the header *)
Definition req_want (f : ip_frag) (r : req) : ip_want :=
  match r with
  | RFrag o l => ctx_want (fr_hdr f) o (frag_mf (fr_payload f) o l)
  | RTail o => ctx_want (fr_hdr f) o (frag_mf (fr_payload f) o (wrap16 (len (fr_payload f))))
  | RDgram => ctx_want (fr_hdr f) 0 false
  end.
Definition req_carried (f : ip_frag) (r : req) : bytes :=
  match r with
  | RFrag o l => frag_slice (fr_payload f) o l
  | RTail o => frag_slice (fr_payload f) o (wrap16 (len (fr_payload f)))
  | RDgram => fr_payload f
  end.

Lemma req_run_clause f r raw p :
  ip_wf (fr_hdr f) -> req_off r < 65536 -> 20 + len (req_carried f r) < 65536 ->
  req_run f r raw = Ok p -> ip_pkt (req_want f r) raw p.
Proof.
  intros Hw Ho Hfit. destruct r as [o l|o|]; cbn [req_run req_want req_carried req_off] in *.
  - apply frag_fragment_clause; assumption.
  - unfold frag_tail. apply frag_fragment_clause; assumption.
  - apply frag_datagram_clause; assumption.
Qed.

Lemma req_carried_le f r : len (req_carried f r) <= len (fr_payload f).
Proof. destruct r; cbn [req_carried]; try apply frag_slice_le. lia. Qed.

Lemma frag_call_req_off name slots q : frag_call_req name slots = Some q -> req_off (fst q) < 65536.
Proof.
  unfold frag_call_req.
  destruct (String.eqb name "fragment"); [|destruct (String.eqb name "tail"); [|destruct (String.eqb name "datagram"); [|discriminate]]].
  - destruct slots as [|a [|b [|c [|? ?]]]]; try discriminate.
    destruct (conv_u16 a) eqn:Ea; try discriminate. destruct (conv_u16 b); try discriminate. destruct (conv_bool c); try discriminate.
    intros E. injection E as <-. cbn [fst req_off]. eapply conv_u16_lt, Ea.
  - destruct slots as [|a [|c [|? ?]]]; try discriminate.
    destruct (conv_u16 a) eqn:Ea; try discriminate. destruct (conv_bool c); try discriminate.
    intros E. injection E as <-. cbn [fst req_off]. eapply conv_u16_lt, Ea.
  - destruct slots as [|c [|? ?]]; try discriminate. destruct (conv_bool c); try discriminate.
    intros E. injection E as <-. cbn [fst req_off]. lia.
Qed.

(** every method of the IpFrag class: the heap is unchanged; the packet carries the context's fields with
    the flags+offset word of the request [frag_call_req] reads off the arguments, framed as the call's raw: says *)
Theorem frag_ip_method e ms name key slots extra h a f v h' :
  assoc frag_class class_table = Some ms -> In (name, key) ms ->
  nth_error h a = Some (OFrag f) -> ip_wf (fr_hdr f) ->
  (forall q, frag_call_req name slots = Some q -> 20 + len (req_carried f (fst q)) < 65536) ->
  exec e key (Some a) slots extra h = Some (Ok (v, h')) ->
  h' = h /\ exists q p, frag_call_req name slots = Some q /\ v = VPkt p /\ ip_pkt (req_want f (fst q)) (snd q) p.
Proof.
  intros Hms Hin Ha Hw Hfit H.
  destruct (frag_method_sound e ms name key slots extra h a f v h' Hms Hin Ha H) as (-> & q & p & Hq & -> & E).
  split; [reflexivity|]. exists q, p. split; [exact Hq|]. split; [reflexivity|].
  exact (req_run_clause f (fst q) (snd q) p Hw (frag_call_req_off _ _ _ Hq) (Hfit _ Hq) E).
Qed.

(* ------------------------------------------------------------------ dns::host *)
Definition dns_host_plan (slots : list val) : outcome (bool * list ip_want) :=
  match slots with
  | [client; _; _; ns; raw] =>
    do cl <- conv_ip4 client; do nsip <- conv_ip4 ns; do r <- conv_bool raw;
    Ok (r, [udp_want (cl, 32768) (nsip, 53); udp_want (nsip, 53) (cl, 32768)])
  | _ => bad_args
  end.

Theorem dns_host_ip e slots extra h v h' :
  Forall addr_val_ok slots ->
  (forall qn, conv_buf (nth 1 slots VNil) = Ok qn -> dns_host_fits qn (len extra)) ->
  exec e "dns::host" None slots extra h = Some (Ok (v, h')) ->
  h' = h /\ exists raw ws ps, dns_host_plan slots = Ok (raw, ws) /\ conv_pktgen v = Ok ps /\ pkts_carry raw ws ps.
Proof.
  intros Ha Hqn H. exec_unfold_in H. apply Some_inj in H. revert H. unfold dns_host_fn. intros H.
  destruct slots as [|s1 [|s2 [|s3 [|s4 [|s5 [|? ?]]]]]]; try (exfalso; exact (bad_args_not_ok' _ H)).
  cbn [nth] in Hqn. split_addr. binv H. ok_inv H. split; [reflexivity|].
  match goal with
  | Ec : conv_ip4 s1 = Ok ?cl, Eq : conv_buf s2 = Ok ?qn, En : conv_ip4 s4 = Ok ?ns, Er : conv_bool s5 = Ok ?r,
    Ed1 : uflow_client_dgram ?fl ?b1 = Ok ?d1, Ec1 : udp_csum ?d1 = Ok ?d1c, Ei : omapM conv_ip4 extra = Ok ?ips,
    Ed2 : uflow_server_dgram ?fl ?b2 = Ok ?d2, Ec2 : udp_csum ?d2 = Ok ?d2c |- _ =>
    pose proof (conv_ip4_ok _ _ A Ec) as Bc; pose proof (conv_ip4_ok _ _ A2 En) as Bn; pose proof (Hqn _ Eq) as Fq;
    pose proof (omapM_len _ _ _ Ei) as Li;
    assert (Hf : uflow_wf fl) by (unfold uflow_wf, sock_wf; cbn [uf_cl uf_sv fst snd]; lia);
    assert (L1 : 28 + len b1 < 65536) by (rewrite len_dns_query; unfold dns_host_fits in Fq; lia);
    assert (L2 : 28 + len b2 < 65536) by (rewrite len_dns_response, Li; unfold dns_host_fits in Fq; lia);
    destruct (uflow_dgram_base true fl _ _ Hf L1 Ed1) as (I1 & R1 & W1);
    destruct (uflow_dgram_base false fl _ _ Hf L2 Ed2) as (I2 & R2 & W2);
    destruct (udp_csum_keeps _ true _ _ I1 W1 Ec1) as (I1' & W1' & R1');
    destruct (udp_csum_keeps _ true _ _ I2 W2 Ec2) as (I2' & W2' & R2');
    cbn [uflow_side fst snd uf_cl uf_sv uf_raw] in *;
    eexists; eexists; eexists; split; [unfold dns_host_plan; rewrite Ec, En, Er; reflexivity|];
    split; [reflexivity|]; constructor; [|constructor; [|constructor]];
    [ rewrite <- R1, <- R1'; apply udp_packet_clause; assumption
    | rewrite <- R2, <- R2'; apply udp_packet_clause; assumption ]
  end.
Qed.
