(** C02 at the level the interpreter executes, part 1: the vocabulary ([ip_want], [ip_clause], [ip_pkt]) and
    the ezpkt builders once more -- UDP, VXLAN, ICMP, IpDgram/fragments, GRE/ERSPAN -- now with the header
    FIELDS next to the consistency predicate [ipv4_ok] of Props/C02.v.
    [ip_clause w d]: the datagram [d] (from the first byte of its IPv4 header to its end) passes
    [Spec.Wire.ipv4_ok] (version/IHL 0x45, total length = len d, header checksum verifies) and reads back,
    with the readers of Spec/Wire.v, the source, destination, protocol, identification, TTL and
    flags+fragment-offset word [w] designates. *)
From RS Require Import Base.Bytes Base.Outcome Pkt.Csum Pkt.Hdrs Pkt.Packet Ez.Tcp Ez.Udp Ez.Icmp Ez.Ip4 Ez.Gre
  Spec.Wire Proofs.BytesLemmas Proofs.Tactics Proofs.C02.CsumLemmas Proofs.C02.IpLemmas Proofs.C02.TcpIp
  Proofs.C02.OtherIp Proofs.C07.FragExact.
From Coq Require Import ZArith Lia ZifyBool ZifyNat ZifyN.
Ltac Zify.zify_post_hook ::= Z.div_mod_to_equations.
Open Scope N_scope.

(* ------------------------------------------------------------------ vocabulary *)
(** what a call designates for one IPv4 header; [w_frag] is the whole 16-bit flags + fragment-offset word *)
Record ip_want := { w_src : N; w_dst : N; w_proto : N; w_id : N; w_ttl : N; w_frag : N }.

Definition ip_fields (w : ip_want) (d : bytes) : Prop :=
  ip_src_of d = w_src w /\ ip_dst_of d = w_dst w /\ ip_proto_of d = w_proto w /\ ip_id_of d = w_id w
  /\ ip_ttl_of d = w_ttl w /\ ip_frag_of d = w_frag w.

Definition ip_clause (w : ip_want) (d : bytes) : Prop := ipv4_ok d = true /\ ip_fields w d.

(** the outermost IPv4 header of packet [p]: behind the 14-byte Ethernet header unless [raw] *)
Definition ip_pkt (w : ip_want) (raw : bool) (p : packet) : Prop := ip_clause w (l3_of raw (pk_body p)).

(** the same as a decision procedure (for concrete packets) *)
Definition ip_clause_b (w : ip_want) (d : bytes) : bool :=
  ipv4_ok d && (ip_src_of d =? w_src w) && (ip_dst_of d =? w_dst w) && (ip_proto_of d =? w_proto w)
  && (ip_id_of d =? w_id w) && (ip_ttl_of d =? w_ttl w) && (ip_frag_of d =? w_frag w).

Lemma ip_clause_b_ok w d : ip_clause_b w d = true <-> ip_clause w d.
Proof.
  unfold ip_clause_b, ip_clause, ip_fields. rewrite !andb_true_iff, !N.eqb_eq. tauto.
Qed.

(** defaults of the code: identification 0, TTL 64, no flags, offset 0 (pkt/src/ipv4.rs Default) *)
Definition want_default (src dst proto : N) : ip_want :=
  {| w_src := src; w_dst := dst; w_proto := proto; w_id := 0; w_ttl := 64; w_frag := 0 |}.
Definition want_frag (w : ip_want) (fr : N) : ip_want :=
  {| w_src := w_src w; w_dst := w_dst w; w_proto := w_proto w; w_id := w_id w; w_ttl := w_ttl w; w_frag := fr |}.
Definition want_src (w : ip_want) (a : N) : ip_want :=
  {| w_src := a; w_dst := w_dst w; w_proto := w_proto w; w_id := w_id w; w_ttl := w_ttl w; w_frag := w_frag w |}.

(** model side: the header record carries the designated fields *)
Definition hdr_wants (w : ip_want) (h : ip_hdr) : Prop :=
  ip_src h = w_src w /\ ip_dst h = w_dst w /\ ip_proto h = w_proto w /\ ip_id h = w_id w
  /\ ip_ttl h = w_ttl w /\ Hdrs.ip_frag h = w_frag w.

(** a header finished by calc_csum, with an exact total length, serialises to bytes satisfying the clause *)
Theorem clause_intro w h rest :
  ip_fresh h -> ip_tot_len h = 20 + len rest -> hdr_wants w h -> ip_clause w (ip_ser h ++ rest).
Proof.
  intros (h0 & W0 & ->) Hl Hw. split; [apply ipv4_ok_intro; [exact W0|exact Hl]|].
  destruct (ip_fields_readback h0 rest W0) as (R1 & R2 & R3 & R4 & R5 & R6).
  destruct Hw as (A1 & A2 & A3 & A4 & A5 & A6).
  unfold ip_fields. rewrite R1, R2, R3, R4, R5, R6.
  repeat split; assumption.
Qed.

Lemma wants_calc w h : hdr_wants w h -> hdr_wants w (ip_calc_csum h).
Proof. intros H. exact H. Qed.
Lemma wants_tot_len w h v : hdr_wants w h -> hdr_wants w (ip_set_tot_len h v).
Proof. intros H. exact H. Qed.
Lemma lor_0_flags off : N.lor off (N.land 0 57344) = off.
Proof. rewrite N.land_0_l. apply N.lor_0_r. Qed.
Lemma wants_frag_off w h off : hdr_wants w h -> w_frag w = 0 -> hdr_wants (want_frag w off) (ip_set_frag_off h off).
Proof.
  intros (A1 & A2 & A3 & A4 & A5 & A6) Z. unfold hdr_wants, ip_set_frag_off, want_frag.
  cbn [ip_src ip_dst ip_proto ip_id ip_ttl Hdrs.ip_frag ip_set_frag w_src w_dst w_proto w_id w_ttl w_frag].
  rewrite A6, Z, lor_0_flags. repeat split; assumption.
Qed.
Lemma wants_saddr w h a : hdr_wants w h -> hdr_wants (want_src w a) (ip_set_saddr h a).
Proof.
  intros (A1 & A2 & A3 & A4 & A5 & A6). unfold hdr_wants, want_src.
  cbn [ip_src ip_dst ip_proto ip_id ip_ttl Hdrs.ip_frag ip_set_saddr w_src w_dst w_proto w_id w_ttl w_frag].
  repeat split; assumption.
Qed.

(* ------------------------------------------------------------------ UDP *)
Definition udp_want (s t : sock) : ip_want := want_default (fst s) (fst t) 17.

Lemma udp_new_wants raw s t : hdr_wants (udp_want s t) (ud_ip (udp_dst (udp_src (udp_new raw) s) t)).
Proof. repeat split. Qed.
Lemma udp_broadcast_ip d : ud_ip (udp_broadcast d) = ud_ip d. Proof. reflexivity. Qed.

Lemma udp_push_wants w d b d' : udp_push d b = Ok d' -> hdr_wants w (ud_ip d) -> hdr_wants w (ud_ip d').
Proof. unfold udp_push. intros E H. apply Ok_inj in E. subst d'. exact H. Qed.
Lemma udp_csum_ip d d' : udp_csum d = Ok d' -> ud_ip d' = ud_ip d /\ ud_raw d' = ud_raw d.
Proof.
  unfold udp_csum.
  destruct (cadd _ _ _ _) as [a| | |]; cbn [obind]; try discriminate.
  destruct (cadd _ _ _ _) as [b| | |]; cbn [obind]; try discriminate.
  intros E. apply Ok_inj in E. subst d'. split; reflexivity.
Qed.

Theorem udp_packet_clause w d : udp_inv d -> hdr_wants w (ud_ip d) -> ip_pkt w (ud_raw d) (udp_packet d).
Proof.
  intros (H1 & H2 & H3 & H4) Hw. unfold ip_pkt, udp_packet, pkt_of_body, udp_bytes. cbn [pk_body].
  rewrite l3_of_framed by (apply eth_wf_length; exact H3).
  unfold udp_l3_bytes, udp_l4_bytes. apply clause_intro; [exact H1| |exact Hw].
  rewrite len_app. change (len (udp_ser (ud_udp d))) with 8. lia.
Qed.

(** a datagram addressed s -> t with payload b (unicast, flow datagrams), optionally to the broadcast MAC *)
Lemma udp_addressed_clause (bc : bool) raw s t b d :
  sock_wf s -> sock_wf t -> 28 + len b < 65536 ->
  udp_push (if bc then udp_broadcast (udp_dst (udp_src (udp_new raw) s) t) else udp_dst (udp_src (udp_new raw) s) t) b = Ok d ->
  udp_inv d /\ ud_raw d = raw /\ hdr_wants (udp_want s t) (ud_ip d).
Proof.
  intros Hs Ht Hb E.
  assert (P : udp_pre (if bc then udp_broadcast (udp_dst (udp_src (udp_new raw) s) t) else udp_dst (udp_src (udp_new raw) s) t)).
  { destruct bc; [apply udp_broadcast_pre|]; apply udp_dst_pre, udp_src_pre, udp_new_pre; assumption. }
  destruct (udp_push_fields _ _ _ E) as (R' & _).
  split; [|split].
  - eapply udp_push_inv; [exact P| |exact E]. destruct bc; change (len (ud_payload _)) with 0; lia.
  - rewrite R'. destruct bc; reflexivity.
  - eapply udp_push_wants; [exact E|]. destruct bc; apply udp_new_wants.
Qed.

Lemma udp_frag_off_wants w d off : hdr_wants w (ud_ip d) -> w_frag w = 0 -> hdr_wants (want_frag w off) (ud_ip (udp_frag_off d off)).
Proof. intros H Z. unfold udp_frag_off. cbn [ud_ip ud_with_ip]. apply wants_calc, wants_frag_off; assumption. Qed.
Lemma udp_srcip_wants w d a : hdr_wants w (ud_ip d) -> hdr_wants (want_src w a) (ud_ip (udp_srcip d a)).
Proof. intros H. unfold udp_srcip. cbn [ud_ip ud_with_ip]. apply wants_calc, wants_saddr, H. Qed.

(** VXLAN: outer datagram client -> server, UDP *)
Theorem vxlan_encap_clause f inner p :
  sock_wf (vx_cl f) -> sock_wf (vx_sv f) -> 36 + len inner < 65536 ->
  vxlan_encap f inner = Ok p -> ip_pkt (udp_want (vx_cl f) (vx_sv f)) (vx_raw f) p.
Proof.
  intros Hc Hs Hfit. unfold vxlan_encap.
  destruct (udp_push _ (vxlan_ser (vx_vni f))) as [d1| | |] eqn:E1; cbn [obind]; try discriminate.
  destruct (udp_push d1 inner) as [d2| | |] eqn:E2; cbn [obind]; try discriminate.
  intros E; apply Ok_inj in E; subst p.
  assert (Hv : 28 + len (vxlan_ser (vx_vni f)) < 65536) by (change (len (vxlan_ser (vx_vni f))) with 8; lia).
  destruct (udp_addressed_clause false _ _ _ _ _ Hc Hs Hv E1) as (I1 & R1 & W1).
  destruct (udp_addressed_push _ _ _ _ _ Hc Hs Hv E1) as (_ & _ & P1).
  destruct (udp_push_fields _ _ _ E2) as (R2 & P2).
  assert (I2 : udp_inv d2).
  { eapply udp_push_inv; [apply udp_inv_pre, I1| |exact E2]. rewrite P1. change (len (vxlan_ser (vx_vni f))) with 8. lia. }
  rewrite <- R1, <- R2. apply udp_packet_clause; [exact I2|]. eapply udp_push_wants; [exact E2|exact W1].
Qed.

(* ------------------------------------------------------------------ ICMP *)
Theorem icmp_dgram_clause src dst raw typ id seq b p :
  src < 4294967296 -> dst < 4294967296 -> 28 + len b < 65536 ->
  icmp_dgram src dst raw typ id seq b = Ok p -> ip_pkt (want_default src dst 1) raw p.
Proof.
  intros Hs Hd Hb. unfold icmp_dgram, wrap16.
  rewrite ip_tot_len_calc. cbn [ip_tot_len ip_set_daddr ip_set_saddr ip_set_tot_len].
  rewrite (N.mod_small (len b)) by lia.
  rewrite (N.mod_small (28 + len b)) by lia.
  intros E'; ok_inv E'.
  unfold ip_pkt, pkt_of_body. cbn [pk_body].
  rewrite l3_of_framed by reflexivity.
  apply clause_intro.
  - apply ip_fresh_calc, ip_set_tot_len_wf; [|lia]. apply ip_calc_csum_wf.
    apply ip_set_daddr_wf; [|exact Hd]. apply ip_set_saddr_wf; [|exact Hs].
    apply ip_set_tot_len_wf; [|lia]. apply ip_set_protocol_wf; [apply ip_default_wf|unfold PROTO_ICMP; lia].
  - rewrite ip_tot_len_calc. cbn [ip_tot_len ip_set_tot_len]. rewrite len_app.
    change (len (icmp_ser _)) with 8. lia.
  - repeat split.
Qed.

(* ------------------------------------------------------------------ IpDgram / fragments *)
(** the context's fields; the flags + offset word is [frag_word off ctx_flags mf] (Proofs/C07/FragExact.v):
    the requested offset ORed onto the context's evil/DF bits, MF set or cleared *)
Definition ctx_want (iph : ip_hdr) (off : N) (mf : bool) : ip_want :=
  {| w_src := ip_src iph; w_dst := ip_dst iph; w_proto := ip_proto iph; w_id := ip_id iph; w_ttl := ip_ttl iph;
     w_frag := frag_word off (Hdrs.ip_frag iph) mf |}.

Theorem ipdgram_clause iph payload raw off mf p :
  ip_wf iph -> off < 65536 -> 20 + len payload < 65536 ->
  ipdgram iph payload raw off mf = Ok p -> ip_pkt (ctx_want iph off mf) raw p.
Proof.
  intros Hw Ho Hfit. unfold ipdgram, wrap16.
  rewrite (N.mod_small (len payload)) by lia.
  rewrite (N.mod_small (len payload + 20)) by lia.
  intros E'; ok_inv E'.
  unfold ip_pkt, pkt_of_body. cbn [pk_body].
  rewrite l3_of_framed by reflexivity.
  apply clause_intro.
  - apply ip_fresh_calc, ip_set_mf_wf, ip_set_frag_off_wf; [|exact Ho]. apply ip_set_tot_len_wf; [exact Hw|lia].
  - rewrite ip_tot_len_calc. cbn. lia.
  - repeat split.
Qed.

(** the slice of the payload a fragment() request carries, and its MF bit -- the arithmetic of
    ezpkt/src/ip4.rs IpFrag::fragment verbatim *)
Definition frag_slice (payload : bytes) (off l : N) : bytes :=
  let e := N.min (off * 8 + l * 8) (len payload) in
  let s := N.min (off * 8) e in
  takeN (e - s) (dropN s payload).
Definition frag_mf (payload : bytes) (off l : N) : bool := negb (N.min (off * 8 + l * 8) (len payload) =? len payload).

Theorem frag_fragment_clause f off l raw p :
  ip_wf (fr_hdr f) -> off < 65536 -> 20 + len (frag_slice (fr_payload f) off l) < 65536 ->
  frag_fragment f off l raw = Ok p -> ip_pkt (ctx_want (fr_hdr f) off (frag_mf (fr_payload f) off l)) raw p.
Proof. intros Hw Ho Hfit. unfold frag_fragment. apply ipdgram_clause; assumption. Qed.

Theorem frag_datagram_clause f raw p :
  ip_wf (fr_hdr f) -> 20 + len (fr_payload f) < 65536 ->
  frag_datagram f raw = Ok p -> ip_pkt (ctx_want (fr_hdr f) 0 false) raw p.
Proof. intros Hw Hfit. unfold frag_datagram. apply ipdgram_clause; [exact Hw|lia|exact Hfit]. Qed.

(** a slice is never longer than the payload: if the whole payload fits a datagram, every fragment does *)
Lemma frag_slice_le payload off l : len (frag_slice payload off l) <= len payload.
Proof.
  unfold frag_slice. cbv zeta.
  pose proof (len_takeN_le (N.min (off * 8 + l * 8) (len payload) - N.min (off * 8) (N.min (off * 8 + l * 8) (len payload)))
                (dropN (N.min (off * 8) (N.min (off * 8 + l * 8) (len payload))) payload)).
  pose proof (len_dropN_le (N.min (off * 8) (N.min (off * 8 + l * 8) (len payload))) payload).
  lia.
Qed.

(** for an offset that fits the 13-bit field and a context made by ipv4::frag (flags: evil and/or DF), the
    word is the plain sum offset + context flags + MF *)
Definition frag_plain_ok (off fr : N) (mf : bool) : bool :=
  frag_word off fr mf =? off + fr + (if mf then 8192 else 0).
Lemma frag_plain_table :
  forallb (fun off => forallb (fun fr => forallb (frag_plain_ok off fr) [true; false]) [0; 16384; 32768; 49152])
          (map N.of_nat (seq 0 (N.to_nat 8192))) = true.
Proof. vm_compute. reflexivity. Qed.
Theorem frag_word_plain off fr mf :
  off < 8192 -> In fr [0; 16384; 32768; 49152] -> frag_word off fr mf = off + fr + (if mf then 8192 else 0).
Proof.
  intros Ho Hfr. pose proof frag_plain_table as T. rewrite forallb_forall in T.
  assert (Hin : In off (map N.of_nat (seq 0 (N.to_nat 8192)))).
  { apply in_map_iff. exists (N.to_nat off). split; [lia|]. apply in_seq. lia. }
  specialize (T off Hin). rewrite forallb_forall in T. specialize (T fr Hfr). rewrite forallb_forall in T.
  assert (Hm : In mf [true; false]) by (destruct mf; cbn; tauto).
  specialize (T mf Hm). unfold frag_plain_ok in T. apply N.eqb_eq in T. exact T.
Qed.

(* ------------------------------------------------------------------ GRE / ERSPAN *)
(** bytes in front of the inner frame: IPv4 header, GRE header, sequence number when the S flag is set *)
Definition gre_overhead (flags : gre_flags) : N := if negb (N.land (gre_flags_word flags) 4096 =? 0) then 28 else 24.

Lemma gre_new_facts src dst flags proto raw g :
  src < 4294967296 -> dst < 4294967296 -> gre_new src dst flags proto raw = Ok g ->
  gre_pre g /\ gr_raw g = raw /\ hdr_wants (want_default src dst 47) (gr_ip g)
  /\ 20 + len (gre_extra g) = gre_overhead flags.
Proof.
  intros Hs Hd E. destruct (gre_new_pre _ _ _ _ _ _ Hs Hd E) as (P & R).
  split; [exact P|]. split; [exact R|].
  revert E. unfold gre_new, gre_overhead. destruct (negb (N.land (gre_flags_word flags) 4096 =? 0)).
  - intros E. apply Ok_inj in E. subst g. split; [repeat split|].
    unfold gre_extra. cbn [gr_hdr gr_seq gr_rest]. rewrite !len_app. reflexivity.
  - intros E. apply Ok_inj in E. subst g. split; [repeat split|].
    unfold gre_extra. cbn [gr_hdr gr_seq gr_rest]. rewrite !len_app. reflexivity.
Qed.

Lemma gre_set_seq_facts g n : len (gre_extra (gre_set_seq g n)) = len (gre_extra g) /\ gr_ip (gre_set_seq g n) = gr_ip g
  /\ gr_raw (gre_set_seq g n) = gr_raw g.
Proof.
  split; [|split; reflexivity]. unfold gre_extra, gre_set_seq. cbn [gr_hdr gr_seq gr_rest].
  destruct (gr_seq g); rewrite !len_app; reflexivity.
Qed.

Lemma gre_push_facts w g b g' :
  gre_pre g -> 20 + len (gre_extra g) + len b < 65536 -> hdr_wants w (gr_ip g) -> gre_push g b = Ok g' ->
  gre_inv g' /\ gr_raw g' = gr_raw g /\ hdr_wants w (gr_ip g') /\ len (gre_extra g') = len (gre_extra g) + len b.
Proof.
  intros P Hfit Hw E. destruct (gre_push_inv g b g' P Hfit E) as (I & R).
  split; [exact I|]. split; [exact R|].
  revert E. unfold gre_push. intros E. apply Ok_inj in E. subst g'. split; [exact Hw|].
  unfold gre_extra. cbn [gr_hdr gr_seq gr_rest]. rewrite !len_app. lia.
Qed.

Theorem gre_packet_clause w g : gre_inv g -> hdr_wants w (gr_ip g) -> ip_pkt w (gr_raw g) (gre_packet g).
Proof.
  intros (H1 & H2 & H3) Hw. unfold ip_pkt, gre_packet, pkt_of_body, gre_bytes. cbn [pk_body].
  rewrite l3_of_framed by exact H3. apply clause_intro; [exact H1|exact H2|exact Hw].
Qed.

Theorem gre_flow_encap_clause f b f' p :
  gl_cl f < 4294967296 -> gl_sv f < 4294967296 -> gre_overhead (gl_flags f) + len b < 65536 ->
  gre_flow_encap f b = Ok (f', p) -> ip_pkt (want_default (gl_cl f) (gl_sv f) 47) (gl_raw f) p.
Proof.
  intros Hc Hs Hfit. unfold gre_flow_encap.
  destruct (gre_new _ _ _ _ _) as [g| | |] eqn:E0; cbn [obind]; try discriminate.
  destruct (gre_push _ b) as [g'| | |] eqn:E1; cbn [obind]; try discriminate.
  intros E; ok_inv E.
  destruct (gre_new_facts _ _ _ _ _ _ Hc Hs E0) as (P0 & R0 & W0 & L0).
  destruct (gre_set_seq_facts g (gl_seq f)) as (L1 & I1 & R1).
  destruct (gre_push_facts (want_default (gl_cl f) (gl_sv f) 47) (gre_set_seq g (gl_seq f)) b g') as (I2 & R2 & W2 & _).
  - apply gre_set_seq_pre, P0.
  - rewrite L1. lia.
  - rewrite I1. exact W0.
  - exact E1.
  - rewrite <- R0, <- R1, <- R2. apply gre_packet_clause; assumption.
Qed.

Theorem erspan1_encap_clause f b p :
  e1_cl f < 4294967296 -> e1_sv f < 4294967296 -> 24 + len b < 65536 ->
  erspan1_encap f b = Ok p -> ip_pkt (want_default (e1_cl f) (e1_sv f) 47) (e1_raw f) p.
Proof.
  intros Hc Hs Hfit. unfold erspan1_encap.
  destruct (gre_new _ _ _ _ _) as [g| | |] eqn:E0; cbn [obind]; try discriminate.
  destruct (gre_push g b) as [g'| | |] eqn:E1; cbn [obind]; try discriminate.
  intros E; ok_inv E.
  destruct (gre_new_facts _ _ _ _ _ _ Hc Hs E0) as (P0 & R0 & W0 & L0).
  change (gre_overhead gre_flags_default) with 24 in L0.
  destruct (gre_push_facts (want_default (e1_cl f) (e1_sv f) 47) g b g') as (I2 & R2 & W2 & _);
    [exact P0|lia|exact W0|exact E1|].
  rewrite <- R0, <- R2. apply gre_packet_clause; assumption.
Qed.

Theorem erspan2_encap_clause f b ix f' p :
  e2_cl f < 4294967296 -> e2_sv f < 4294967296 -> 36 + len b < 65536 ->
  erspan2_encap f b ix = Ok (f', p) -> ip_pkt (want_default (e2_cl f) (e2_sv f) 47) (e2_raw f) p.
Proof.
  intros Hc Hs Hfit. unfold erspan2_encap.
  destruct (gre_new _ _ _ _ _) as [g| | |] eqn:E0; cbn [obind]; try discriminate.
  destruct (gre_push _ (erspan2_ser _ _)) as [g1| | |] eqn:E1; cbn [obind]; try discriminate.
  destruct (gre_push g1 b) as [g2| | |] eqn:E2; cbn [obind]; try discriminate.
  intros E; ok_inv E.
  destruct (gre_new_facts _ _ _ _ _ _ Hc Hs E0) as (P0 & R0 & W0 & L0).
  change (gre_overhead (gre_flags_seq gre_flags_default true)) with 28 in L0.
  destruct (gre_set_seq_facts g (e2_seq f)) as (L1 & I1 & R1).
  assert (L8 : len (erspan2_ser (e2_sess f) ix) = 8) by reflexivity.
  destruct (gre_push_facts (want_default (e2_cl f) (e2_sv f) 47) (gre_set_seq g (e2_seq f)) (erspan2_ser (e2_sess f) ix) g1)
    as (I2 & R2 & W2 & L2).
  - apply gre_set_seq_pre, P0.
  - rewrite L1, L8. lia.
  - rewrite I1. exact W0.
  - exact E1.
  - destruct (gre_push_facts (want_default (e2_cl f) (e2_sv f) 47) g1 b g2) as (I3 & R3 & W3 & _).
    + apply gre_inv_pre, I2.
    + rewrite L2, L1, L8. lia.
    + exact W2.
    + exact E2.
    + rewrite <- R0, <- R1, <- R2, <- R3. apply gre_packet_clause; assumption.
Qed.
