(** C02 at the level the interpreter executes, part 4: the tunnel methods (Vxlan.dgram/encap, Gre.encap,
    Erspan1.encap, Erspan2.encap) as dispatched by [exec], and nesting to any depth: in a frame wrapped by any
    list of tunnel layers ([wrap], Proofs/C06/Nesting.v) the header at every depth k -- reached by peeling k
    layers with the specification-side [peel] (Spec/TunnelPeel.v) -- carries its session's addresses and
    protocol with the defaults (id 0, TTL 64, flags+offset 0), exact length and verifying checksum; peeling
    all layers gives back the inner frame byte for byte, so its own header is as it was. *)
From RS Require Import Base.Bytes Base.Outcome Bind.Types Pkt.Csum Pkt.Hdrs Pkt.Packet Ez.Tcp Ez.Udp Ez.Gre
  Interp.Val Interp.Eval Lib.LibBase Lib.StdLib Lib.Ipv4Lib Lib.MiscLib Spec.Wire Spec.Tunnel Spec.TunnelPeel
  Proofs.BytesLemmas Proofs.Tactics Proofs.C02.IpLemmas Proofs.C02.TcpIp Proofs.C02.OtherIp
  Proofs.C02.LibIp Proofs.C02.LibIpTcp Proofs.C02.LibIpFns
  Proofs.C18.Framing Proofs.C06.Tunnels Proofs.C06.Nesting
  Proofs.C08.LibTac Proofs.C03.LibCalls.
From RSGen Require Import Catalogue.
From Coq Require Import Arith ZArith Lia ZifyBool ZifyNat ZifyN.
Ltac Zify.zify_post_hook ::= Z.div_mod_to_equations.
Open Scope N_scope.

(* ------------------------------------------------------------------ one outer packet per inner packet *)
(** every inner packet of the first argument leaves room for [ov] bytes of outer headers *)
Definition inner_fits (ov : N) (gen : val) : Prop :=
  forall ps, conv_pktgen gen = Ok ps -> Forall (fun p => ov + len (pk_body p) < 65536) ps.

Definition same_want (w : ip_want) (ps : list packet) : list ip_want := map (fun _ => w) ps.

Lemma omapM_carry (g : packet -> outcome packet) raw w : forall ps out,
  Forall (fun p => forall q, g p = Ok q -> ip_pkt w raw q) ps ->
  omapM g ps = Ok out -> pkts_carry raw (same_want w ps) out.
Proof.
  induction ps as [|p r IH]; intros out Hall H; cbn [omapM] in H.
  - apply Ok_inj in H. subst out. constructor.
  - apply Forall_cons_iff in Hall. destruct Hall as (Hp & Hr). binv H. apply Ok_inj in H. subst out.
    constructor; [apply Hp; assumption|apply IH; assumption].
Qed.

(* ------------------------------------------------------------------ VXLAN *)
Definition vxlan_wf (f : vxlan_flow) : Prop := sock_wf (vx_cl f) /\ sock_wf (vx_sv f).
Definition vxlan_want (f : vxlan_flow) : ip_want := udp_want (vx_cl f) (vx_sv f).

Theorem vxlan_ip_method e ms name key slots extra h a f v h' :
  assoc "vxlan::Vxlan"%string class_table = Some ms -> In (name, key) ms ->
  inner_fits 36 (nth 0 slots VNil) ->
  nth_error h a = Some (OVxlan f) -> vxlan_wf f ->
  exec e key (Some a) slots extra h = Some (Ok (v, h')) ->
  h' = h /\ exists ps out, conv_pktgen (nth 0 slots VNil) = Ok ps /\ conv_pktgen v = Ok out
    /\ pkts_carry (vx_raw f) (same_want (vxlan_want f) ps) out.
Proof.
  intros Hms Hin Hfit Hn (Hc & Hs) H. vm_compute in Hms. apply Some_inj in Hms. subst ms.
  cbn [In] in Hin.
  repeat (destruct Hin as [Hin|Hin]; [apply pair_equal_spec in Hin; destruct Hin as [<- <-]|]); [..|contradiction Hin].
  - (* dgram *) exec_unfold_in H. apply Some_inj in H. rewrite (take_this_some _ _ _ Hn), obind_ok in H. cbv beta iota in H.
    destruct slots as [|s1 [|? ?]]; cbv beta iota in H; try (exfalso; exact (bad_args_not_ok' _ H)).
    cbn [nth] in Hfit |- *. binv H. ok_inv H. split; [reflexivity|].
    match goal with Ep : conv_pkt s1 = Ok ?p, Eq : vxlan_encap f _ = Ok ?q |- _ =>
      assert (Eg : conv_pktgen s1 = Ok [p]) by (destruct s1; try discriminate Ep; cbn in Ep |- *; congruence);
      pose proof (Hfit _ Eg) as Hp; apply Forall_cons_iff in Hp; destruct Hp as (Hp & _);
      exists [p]; eexists; split; [exact Eg|]; split; [reflexivity|];
      constructor; [exact (vxlan_encap_clause f _ q Hc Hs Hp Eq)|constructor]
    end.
  - (* encap *) exec_unfold_in H. apply Some_inj in H. rewrite (take_this_some _ _ _ Hn), obind_ok in H. cbv beta iota in H.
    destruct slots as [|s1 [|? ?]]; cbv beta iota in H; try (exfalso; exact (bad_args_not_ok' _ H)).
    cbn [nth] in Hfit |- *. binv H. ok_inv H. split; [reflexivity|].
    match goal with Ep : conv_pktgen s1 = Ok ?ps, Eo : omapM _ ?ps = Ok ?out |- _ =>
      exists ps, out; split; [exact Ep|]; split; [reflexivity|];
      eapply omapM_carry; [|exact Eo];
      eapply Forall_impl; [|exact (Hfit _ Ep)]; intros p Hp q Eq; exact (vxlan_encap_clause f _ q Hc Hs Hp Eq)
    end.
Qed.

(* ------------------------------------------------------------------ GRE *)
Definition gre_wf (f : gre_flow) : Prop := gl_cl f < 4294967296 /\ gl_sv f < 4294967296.
Definition gre_same (f' f : gre_flow) : Prop :=
  gl_cl f' = gl_cl f /\ gl_sv f' = gl_sv f /\ gl_raw f' = gl_raw f /\ gl_flags f' = gl_flags f
  /\ gl_ethertype f' = gl_ethertype f.
Definition gre_want (f : gre_flow) : ip_want := want_default (gl_cl f) (gl_sv f) 47.

Lemma gre_same_refl f : gre_same f f. Proof. repeat split. Qed.
Lemma gre_same_trans a b c : gre_same a b -> gre_same b c -> gre_same a c.
Proof. intros (A1 & A2 & A3 & A4 & A5) (B1 & B2 & B3 & B4 & B5). repeat split; congruence. Qed.

Lemma gre_encap_all_ip : forall ps f f' out,
  gre_wf f -> Forall (fun p => gre_overhead (gl_flags f) + len (pk_body p) < 65536) ps ->
  gre_encap_all f ps = Ok (f', out) ->
  gre_same f' f /\ pkts_carry (gl_raw f) (same_want (gre_want f) ps) out.
Proof.
  induction ps as [|p r IH]; intros f f' out Hf Hall H; cbn [gre_encap_all] in H.
  - ok_inv H. split; [apply gre_same_refl|constructor].
  - apply Forall_cons_iff in Hall. destruct Hall as (Hp & Hr). binv H. ok_inv H.
    match goal with E1 : gre_flow_encap f _ = Ok (?f1, ?q), E2 : gre_encap_all ?f1 r = Ok _ |- _ =>
      destruct Hf as (Hc & Hs);
      pose proof (gre_flow_encap_clause f _ f1 q Hc Hs Hp E1) as Cl;
      assert (S1 : gre_same f1 f)
        by (destruct (gre_flow_encap_shape f (pkt_frame p)) as (iph & E' & _); rewrite E' in E1; ok_inv E1; repeat split);
      pose proof S1 as (B1 & B2 & B3 & B4 & B5);
      destruct (IH f1 _ _ ltac:(unfold gre_wf; rewrite B1, B2; split; assumption) ltac:(rewrite B4; exact Hr) E2) as (S2 & G);
      split; [exact (gre_same_trans _ _ _ S2 S1)|];
      constructor; [exact Cl|]; unfold gre_want in G; rewrite B1, B2, B3 in G; exact G
    end.
Qed.

Theorem gre_ip_method e ms name key slots extra h a f v h' :
  assoc "gre::Gre"%string class_table = Some ms -> In (name, key) ms ->
  inner_fits (gre_overhead (gl_flags f)) (nth 0 slots VNil) ->
  nth_error h a = Some (OGre f) -> gre_wf f ->
  exec e key (Some a) slots extra h = Some (Ok (v, h')) ->
  exists f', h' = set_nth h a (OGre f') /\ gre_same f' f
    /\ exists ps out, conv_pktgen (nth 0 slots VNil) = Ok ps /\ conv_pktgen v = Ok out
       /\ pkts_carry (gl_raw f) (same_want (gre_want f) ps) out.
Proof.
  intros Hms Hin Hfit Hn Hf H. vm_compute in Hms. apply Some_inj in Hms. subst ms.
  cbn [In] in Hin.
  repeat (destruct Hin as [Hin|Hin]; [apply pair_equal_spec in Hin; destruct Hin as [<- <-]|]); [..|contradiction Hin].
  exec_unfold_in H. apply Some_inj in H. rewrite (take_this_some _ _ _ Hn), obind_ok in H. cbv beta iota in H.
  destruct slots as [|s1 [|? ?]]; cbv beta iota in H; try (exfalso; exact (bad_args_not_ok' _ H)).
  cbn [nth] in Hfit |- *. binv H. ok_inv H.
  match goal with Ep : conv_pktgen s1 = Ok ?ps, Eo : gre_encap_all f ?ps = Ok (?f1, ?out) |- _ =>
    destruct (gre_encap_all_ip ps f f1 out Hf (Hfit _ Ep) Eo) as (S & G);
    exists f1; split; [reflexivity|]; split; [exact S|];
    exists ps, out; split; [exact Ep|]; split; [reflexivity|exact G]
  end.
Qed.

(* ------------------------------------------------------------------ ERSPAN I *)
Definition erspan1_wf (f : erspan1_flow) : Prop := e1_cl f < 4294967296 /\ e1_sv f < 4294967296.
Definition erspan1_want (f : erspan1_flow) : ip_want := want_default (e1_cl f) (e1_sv f) 47.

Theorem erspan1_ip_method e ms name key slots extra h a f v h' :
  assoc "erspan1::Erspan1"%string class_table = Some ms -> In (name, key) ms ->
  inner_fits 24 (nth 0 slots VNil) ->
  nth_error h a = Some (OErspan1 f) -> erspan1_wf f ->
  exec e key (Some a) slots extra h = Some (Ok (v, h')) ->
  h' = h /\ exists ps out, conv_pktgen (nth 0 slots VNil) = Ok ps /\ conv_pktgen v = Ok out
    /\ pkts_carry (e1_raw f) (same_want (erspan1_want f) ps) out.
Proof.
  intros Hms Hin Hfit Hn (Hc & Hs) H. vm_compute in Hms. apply Some_inj in Hms. subst ms.
  cbn [In] in Hin.
  repeat (destruct Hin as [Hin|Hin]; [apply pair_equal_spec in Hin; destruct Hin as [<- <-]|]); [..|contradiction Hin].
  exec_unfold_in H. apply Some_inj in H. rewrite (take_this_some _ _ _ Hn), obind_ok in H. cbv beta iota in H.
  destruct slots as [|s1 [|? ?]]; cbv beta iota in H; try (exfalso; exact (bad_args_not_ok' _ H)).
  cbn [nth] in Hfit |- *. binv H. ok_inv H. split; [reflexivity|].
  match goal with Ep : conv_pktgen s1 = Ok ?ps, Eo : omapM _ ?ps = Ok ?out |- _ =>
    exists ps, out; split; [exact Ep|]; split; [reflexivity|];
    eapply omapM_carry; [|exact Eo];
    eapply Forall_impl; [|exact (Hfit _ Ep)]; intros p Hp q Eq; exact (erspan1_encap_clause f _ q Hc Hs Hp Eq)
  end.
Qed.

(* ------------------------------------------------------------------ ERSPAN II *)
Definition erspan2_wf (f : erspan2_flow) : Prop := e2_cl f < 4294967296 /\ e2_sv f < 4294967296.
Definition erspan2_same (f' f : erspan2_flow) : Prop :=
  e2_cl f' = e2_cl f /\ e2_sv f' = e2_sv f /\ e2_raw f' = e2_raw f /\ e2_sess f' = e2_sess f.
Definition erspan2_want (f : erspan2_flow) : ip_want := want_default (e2_cl f) (e2_sv f) 47.

Lemma erspan2_same_refl f : erspan2_same f f. Proof. repeat split. Qed.
Lemma erspan2_same_trans a b c : erspan2_same a b -> erspan2_same b c -> erspan2_same a c.
Proof. intros (A1 & A2 & A3 & A4) (B1 & B2 & B3 & B4). repeat split; congruence. Qed.

Lemma erspan2_encap_all_ip ix : forall ps f f' out,
  erspan2_wf f -> Forall (fun p => 36 + len (pk_body p) < 65536) ps ->
  erspan2_encap_all f ix ps = Ok (f', out) ->
  erspan2_same f' f /\ pkts_carry (e2_raw f) (same_want (erspan2_want f) ps) out.
Proof.
  induction ps as [|p r IH]; intros f f' out Hf Hall H; cbn [erspan2_encap_all] in H.
  - ok_inv H. split; [apply erspan2_same_refl|constructor].
  - apply Forall_cons_iff in Hall. destruct Hall as (Hp & Hr). binv H. ok_inv H.
    match goal with E1 : erspan2_encap f _ ix = Ok (?f1, ?q), E2 : erspan2_encap_all ?f1 ix r = Ok _ |- _ =>
      destruct Hf as (Hc & Hs);
      pose proof (erspan2_encap_clause f _ ix f1 q Hc Hs Hp E1) as Cl;
      assert (S1 : erspan2_same f1 f)
        by (destruct (erspan2_encap_shape f (pkt_frame p) ix) as (iph & E' & _); rewrite E' in E1; ok_inv E1; repeat split);
      pose proof S1 as (B1 & B2 & B3 & B4);
      destruct (IH f1 _ _ ltac:(unfold erspan2_wf; rewrite B1, B2; split; assumption) Hr E2) as (S2 & G);
      split; [exact (erspan2_same_trans _ _ _ S2 S1)|];
      constructor; [exact Cl|]; unfold erspan2_want in G; rewrite B1, B2, B3 in G; exact G
    end.
Qed.

Theorem erspan2_ip_method e ms name key slots extra h a f v h' :
  assoc "erspan2::Erspan2"%string class_table = Some ms -> In (name, key) ms ->
  inner_fits 36 (nth 0 slots VNil) ->
  nth_error h a = Some (OErspan2 f) -> erspan2_wf f ->
  exec e key (Some a) slots extra h = Some (Ok (v, h')) ->
  exists f', h' = set_nth h a (OErspan2 f') /\ erspan2_same f' f
    /\ exists ps out, conv_pktgen (nth 0 slots VNil) = Ok ps /\ conv_pktgen v = Ok out
       /\ pkts_carry (e2_raw f) (same_want (erspan2_want f) ps) out.
Proof.
  intros Hms Hin Hfit Hn Hf H. vm_compute in Hms. apply Some_inj in Hms. subst ms.
  cbn [In] in Hin.
  repeat (destruct Hin as [Hin|Hin]; [apply pair_equal_spec in Hin; destruct Hin as [<- <-]|]); [..|contradiction Hin].
  exec_unfold_in H. apply Some_inj in H. rewrite (take_this_some _ _ _ Hn), obind_ok in H. cbv beta iota in H.
  destruct slots as [|s1 [|s2 [|? ?]]]; cbv beta iota in H; try (exfalso; exact (bad_args_not_ok' _ H)).
  cbn [nth] in Hfit |- *. binv H. ok_inv H.
  match goal with Ep : conv_pktgen s1 = Ok ?ps, Eo : erspan2_encap_all f ?ix ?ps = Ok (?f1, ?out) |- _ =>
    destruct (erspan2_encap_all_ip ix ps f f1 out Hf (Hfit _ Ep) Eo) as (S & G);
    exists f1; split; [reflexivity|]; split; [exact S|];
    exists ps, out; split; [exact Ep|]; split; [reflexivity|exact G]
  end.
Qed.

(* ------------------------------------------------------------------ nesting to any depth *)
Definition layer_want (l : layer) : ip_want :=
  match l with
  | LVxlan f => vxlan_want f | LGre f => gre_want f | LErspan1 f => erspan1_want f | LErspan2 f _ => erspan2_want f
  end.
Definition layer_raw (l : layer) : bool := t_raw (spec_of l).
(** bytes a layer puts in front of the inner frame, from the first byte of its IPv4 header *)
Definition layer_overhead (l : layer) : N :=
  match l with LVxlan _ => 36 | LGre f => gre_overhead (gl_flags f) | LErspan1 _ => 24 | LErspan2 _ _ => 36 end.

(** one layer: the outer header is the session's *)
Theorem wrap1_clause l b x :
  wf_layer l -> layer_overhead l + len b < 65536 -> wrap1 l b = Ok x ->
  ip_clause (layer_want l) (l3_of (layer_raw l) x).
Proof.
  destruct l as [f|f|f|f ix]; cbn [wf_layer wrap1 layer_overhead layer_want layer_raw spec_of t_raw]; intros W Hfit H; binv H; apply Ok_inj in H; subst x.
  - destruct W as (H1 & H2 & H3 & H4 & _).
    match goal with E : vxlan_encap f b = Ok ?p |- _ =>
      exact (vxlan_encap_clause f b p (conj H1 H3) (conj H2 H4) Hfit E) end.
  - destruct W as (H1 & H2 & _).
    match goal with E : gre_flow_encap f b = Ok (?f1, ?p) |- _ => exact (gre_flow_encap_clause f b f1 p H1 H2 Hfit E) end.
  - destruct W as (H1 & H2).
    match goal with E : erspan1_encap f b = Ok ?p |- _ => exact (erspan1_encap_clause f b p H1 H2 Hfit E) end.
  - destruct W as (H1 & H2 & _).
    match goal with E : erspan2_encap f b ix = Ok (?f1, ?p) |- _ => exact (erspan2_encap_clause f b ix f1 p H1 H2 Hfit E) end.
Qed.

(** the frame a layer builds: Ethernet header unless raw, then [layer_overhead] bytes, then the inner frame *)
Lemma len_framed raw eth l3 : length eth = 14%nat -> len (framed raw eth l3) = (if raw then 0 else 14) + len l3.
Proof. intros H. unfold framed. destruct raw; [lia|]. rewrite len_app. unfold len at 1. rewrite H. reflexivity. Qed.

Lemma wrap1_len l b x : wrap1 l b = Ok x -> len x = (if layer_raw l then 0 else 14) + layer_overhead l + len b.
Proof.
  assert (L32 : forall v, len (be32 v) = 4) by reflexivity.
  assert (Lip : forall iph, len (ip_ser iph) = 20) by reflexivity.
  destruct l as [f|f|f|f ix]; cbn [wrap1 layer_overhead layer_raw spec_of t_raw]; intros H.
  - destruct (vxlan_encap_shape f b) as (iph & uh & E & _). rewrite E in H. cbn [obind] in H. apply Ok_inj in H. subst x.
    unfold pkt_frame, pkt_of_body. cbn [pk_body]. rewrite len_framed by reflexivity. rewrite !len_app, Lip.
    change (len (udp_ser uh)) with 8. change (len (vxlan_ser (vx_vni f))) with 8. lia.
  - destruct (gre_flow_encap_shape f b) as (iph & E & _). rewrite E in H. cbn [obind] in H. apply Ok_inj in H. subst x.
    unfold pkt_frame, pkt_of_body. cbn [pk_body]. rewrite len_framed by reflexivity. rewrite !len_app, Lip.
    change (len (gre_ser _ _)) with 4. unfold gre_overhead.
    destruct (negb (N.land (gre_flags_word (gl_flags f)) 4096 =? 0)); [rewrite L32|change (len (@nil N)) with 0]; lia.
  - destruct (erspan1_encap_shape f b) as (iph & E & _). rewrite E in H. cbn [obind] in H. apply Ok_inj in H. subst x.
    unfold pkt_frame, pkt_of_body. cbn [pk_body]. rewrite len_framed by reflexivity. rewrite !len_app, Lip.
    change (len (gre_ser _ _)) with 4. lia.
  - destruct (erspan2_encap_shape f b ix) as (iph & E & _). rewrite E in H. cbn [obind] in H. apply Ok_inj in H. subst x.
    unfold pkt_frame, pkt_of_body. cbn [pk_body]. rewrite len_framed by reflexivity. rewrite !len_app, Lip, L32.
    change (len (gre_ser _ _)) with 4. change (len (erspan2_ser _ _)) with 8. lia.
Qed.

(** every datagram of the nesting fits: layer by layer (innermost first), header bytes + what is inside < 2^16;
    [n] is the length of the frame being wrapped *)
Fixpoint nest_fits (ls : list layer) (n : N) : Prop :=
  match ls with
  | [] => True
  | l :: r => layer_overhead l + n < 65536 /\ nest_fits r ((if layer_raw l then 0 else 14) + layer_overhead l + n)
  end.

Lemma firstn_app_le {A} (a b : list A) k : (k <= length a)%nat -> firstn k (a ++ b) = firstn k a.
Proof. intros H. rewrite firstn_app. replace (k - length a)%nat with 0%nat by lia. cbn [firstn]. apply app_nil_r. Qed.

(** [wrap ls inner = outer], layers innermost first; [rev ls] is the order in which they appear on the wire.
    For every depth k: peeling the k outermost layers off [outer] succeeds, and the frame found there starts
    (behind its Ethernet header unless the layer is raw) with an IPv4 header satisfying the clause of the
    k-th layer's session.  Peeling all of them gives [inner] itself. *)
Theorem nest_headers : forall ls inner outer,
  Forall wf_layer ls -> nest_fits ls (len inner) -> wrap ls inner = Ok outer ->
  (forall k l, nth_error (rev ls) k = Some l ->
     exists x, peel (map spec_of (firstn k (rev ls))) outer = Some x
               /\ ip_clause (layer_want l) (l3_of (layer_raw l) x))
  /\ peel (map spec_of (rev ls)) outer = Some inner.
Proof.
  induction ls as [|l r IH]; intros inner outer W Hfit H.
  - split; [intros [|k] l Hk; discriminate Hk|]. cbn [wrap] in H. apply Ok_inj in H. subst outer. reflexivity.
  - split; [|exact (wrap_peel (l :: r) inner outer W H)].
    cbn [wrap] in H. binv1 H. rename a into x1, E into E1.
    apply Forall_cons_iff in W. destruct W as (Wl & Wr). cbn [nest_fits] in Hfit. destruct Hfit as (Fl & Fr).
    rewrite <- (wrap1_len l inner x1 E1) in Fr.
    destruct (IH x1 outer Wr Fr H) as (IHk & IHall).
    intros k l' Hk. cbn [rev] in Hk |- *.
    destruct (Nat.lt_ge_cases k (length (rev r))) as [Lt|Ge].
    + rewrite nth_error_app1 in Hk by exact Lt. rewrite firstn_app_le by lia. exact (IHk k l' Hk).
    + rewrite nth_error_app2 in Hk by exact Ge.
      destruct (k - length (rev r))%nat as [|m] eqn:Ek; [|destruct m; discriminate Hk].
      cbn [nth_error] in Hk. apply Some_inj in Hk. subst l'.
      assert (k = length (rev r)) by lia. subst k.
      rewrite firstn_app_le by lia. rewrite firstn_all. exists x1. split; [exact IHall|].
      exact (wrap1_clause l inner x1 Wl Fl E1).
Qed.
