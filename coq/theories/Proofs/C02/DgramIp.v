(** C02 for ipv4::datagram (src/stdlib/ipv4/mod.rs DGRAM) and the fields of fragments. *)
From RS Require Import Base.Bytes Base.Outcome Bind.Types Pkt.Csum Pkt.Hdrs Pkt.Packet Ez.Ip4 Interp.Val
  Lib.LibBase Lib.Ipv4Lib Spec.Wire Proofs.BytesLemmas Proofs.C02.CsumLemmas Proofs.C02.IpLemmas
  Proofs.C02.TcpIp Proofs.C02.OtherIp Proofs.Tactics.
From Coq Require Import ZArith Lia ZifyBool ZifyNat ZifyN.
Ltac Zify.zify_post_hook ::= Z.div_mod_to_equations.
Open Scope N_scope.

(** the header ipv4::datagram assembles *)
Definition dgram_hdr (s d i : N) (ev dfb mfb : bool) (t fo pr tl : N) : ip_hdr :=
  ip_set_daddr (ip_set_saddr (ip_set_protocol (ip_set_ttl
    (ip_set_frag_off (ip_set_mf (ip_set_df (ip_set_evil (ip_set_id (ip_set_tot_len ip_default tl) i) ev) dfb) mfb) fo) t) pr) s) d.

Lemma dgram_hdr_wf s d i ev dfb mfb t fo pr tl :
  s < 4294967296 -> d < 4294967296 -> i < 65536 -> t < 256 -> fo < 65536 -> pr < 256 -> tl < 65536 ->
  ip_wf (dgram_hdr s d i ev dfb mfb t fo pr tl).
Proof.
  intros. unfold dgram_hdr.
  apply ip_set_daddr_wf; [|assumption]. apply ip_set_saddr_wf; [|assumption].
  apply ip_set_protocol_wf; [|assumption]. apply ip_set_ttl_wf; [|assumption].
  apply ip_set_frag_off_wf; [|assumption]. apply ip_set_mf_wf, ip_set_df_wf, ip_set_evil_wf.
  apply ip_set_id_wf; [|assumption]. apply ip_set_tot_len_wf; [apply ip_default_wf|assumption].
Qed.

Definition flag_bits (ev dfb mfb : bool) : N := bit ev 32768 + bit dfb 16384 + bit mfb 8192.

Lemma dgram_hdr_fields s d i ev dfb mfb t fo pr tl :
  let h := dgram_hdr s d i ev dfb mfb t fo pr tl in
  ip_tot_len h = tl /\ ip_id h = i /\ ip_ttl h = t /\ ip_proto h = pr /\ ip_src h = s /\ ip_dst h = d
  /\ Hdrs.ip_frag h = N.lor fo (flag_bits ev dfb mfb).
Proof.
  cbn zeta. unfold dgram_hdr. repeat split.
  cbn [Hdrs.ip_frag ip_set_daddr ip_set_saddr ip_set_protocol ip_set_ttl ip_set_frag_off ip_set_frag].
  f_equal. destruct ev, dfb, mfb; reflexivity.
Qed.

Theorem datagram_fn_ok s d i ev dfb mfb t fo pr data h r :
  s < 4294967296 -> d < 4294967296 -> i < 65536 -> t < 256 -> fo < 65536 -> pr < 256 -> 20 + len data < 65536 ->
  ipv4_datagram_fn [VIp4 s; VIp4 d; VU16 i; VBool ev; VBool dfb; VBool mfb; VU8 t; VU16 fo; VU8 pr] [VStr data] h = Ok r ->
  exists p, r = (VPkt p, h) /\
    let l3 := skipn 14 (pk_body p) in
    ipv4_ok l3 = true /\ ip_id_of l3 = i /\ ip_ttl_of l3 = t /\ ip_proto_of l3 = pr /\ ip_src_of l3 = s
    /\ ip_dst_of l3 = d /\ ip_frag_of l3 = N.lor fo (flag_bits ev dfb mfb)
    /\ skipn 20 l3 = data.
Proof.
  intros Hs Hd Hi Ht Hfo Hpr Hfit.
  unfold ipv4_datagram_fn, conv_ip4, conv_u16, conv_u8, conv_bool, conv_int, omap, join_extra, conv_buf, wrap16, wrap8.
  cbn [obind omapM join app].
  rewrite !(N.mod_small i), !(N.mod_small t), !(N.mod_small fo), !(N.mod_small pr) by lia.
  rewrite (N.mod_small (len data)) by lia.
  rewrite (N.mod_small (20 + len data)) by lia.
  intros E'. apply Ok_inj in E'. subst r.
  eexists. split; [reflexivity|]. cbn zeta. unfold pkt_of_body. cbn [pk_body].
  change (skipn 14 (eth_ser (eth_new (mac_of_ip s) (mac_of_ip d) ETH_IPV4) ++ ?x)) with x.
  fold (dgram_hdr s d i ev dfb mfb t fo pr (20 + len data)).
  pose proof (dgram_hdr_wf s d i ev dfb mfb t fo pr (20 + len data) Hs Hd Hi Ht Hfo Hpr Hfit) as W.
  destruct (dgram_hdr_fields s d i ev dfb mfb t fo pr (20 + len data)) as (F1 & F2 & F3 & F4 & F5 & F6 & F7).
  destruct (ip_fields_readback _ data W) as (R1 & R2 & R3 & R4 & R5 & R6).
  split; [apply ipv4_ok_intro; [exact W|exact F1]|].
  rewrite R1, R2, R3, R4, R5, R6. repeat split; try assumption.
Qed.
