(** C02 at the level the interpreter executes, part 6: histories.  Over any sequence of calls ([run_hist],
    Proofs/C03/LibCalls.v) in which the object at address [a] is only touched by methods of its own class --
    every other call being [foreign] to it -- every packet every call on [a] returns carries the IPv4 header
    designated by the object AS IT WAS AT THE START of the history (addresses, framing and flags never change;
    sequence counters do) and by that call's own arguments.  One generic induction, one instance per class.
    Then a concrete mixed history. *)
From RS Require Import Base.Bytes Base.Outcome Bind.Types Pkt.Csum Pkt.Hdrs Pkt.Packet Ez.Tcp Ez.Udp Ez.Icmp Ez.Ip4 Ez.Gre
  Interp.Val Interp.Eval Lib.LibBase Lib.StdLib Lib.Ipv4Lib Lib.MiscLib Spec.Wire Spec.Tunnel Spec.TunnelPeel
  Proofs.BytesLemmas Proofs.Tactics Proofs.C02.IpLemmas Proofs.C02.TcpIp Proofs.C02.OtherIp
  Proofs.C02.LibIp Proofs.C02.LibIpTcp Proofs.C02.LibIpFns Proofs.C02.LibIpTun Proofs.C02.LibIpAll
  Proofs.C06.Nesting
  Proofs.C08.LibTac Proofs.C03.LibCalls Proofs.C03.LibTcpOps Proofs.C03.LibTcp Proofs.C03.LibUdp Proofs.C03.LibIcmp
  Proofs.C03.LibFrame Proofs.C07.FragExact Proofs.C07.Compose Proofs.C07.LibFrag.
From RSGen Require Import Catalogue.
From Coq Require Import Arith ZArith Lia ZifyBool ZifyNat ZifyN.
Ltac Zify.zify_post_hook ::= Z.div_mod_to_equations.
Open Scope N_scope.

(* ------------------------------------------------------------------ the generic induction *)
Lemma hist_generic e a (I : obj -> Prop) (own : call -> Prop) (R : call -> val -> Prop) :
  (forall c h o v h1, own c -> nth_error h a = Some o -> I o -> do_call e c h = Some (Ok (v, h1)) ->
     (exists o', nth_error h1 a = Some o' /\ I o') /\ R c v) ->
  forall cs h o vs h', nth_error h a = Some o -> I o ->
  Forall (fun c => own c \/ foreign e a c) cs -> run_hist e cs h = Some (vs, h') ->
  (exists o', nth_error h' a = Some o' /\ I o') /\ Forall2 (fun c v => own c -> R c v) cs vs.
Proof.
  intros Step. induction cs as [|c r IH]; intros h o vs h' Hn Hi Hall H; cbn [run_hist] in H.
  - apply Some_inj in H. apply pair_equal_spec in H. destruct H as [<- <-].
    split; [exists o; split; assumption|constructor].
  - destruct (do_call e c h) as [[[v h1]| | |]|] eqn:Ec; try discriminate H.
    destruct (run_hist e r h1) as [[vs2 h2]|] eqn:Er; try discriminate H.
    apply Some_inj in H. apply pair_equal_spec in H. destruct H as [<- <-].
    apply Forall_cons_iff in Hall. destruct Hall as (Hc & Hr).
    assert (Nx : exists o1, nth_error h1 a = Some o1 /\ I o1).
    { destruct Hc as [Hc|Hc]; [exact (proj1 (Step c h o v h1 Hc Hn Hi Ec))|].
      exists o. split; [eapply Hc; eassumption|exact Hi]. }
    destruct Nx as (o1 & Hn1 & Hi1).
    destruct (IH h1 o1 vs2 h2 Hn1 Hi1 Hr Er) as (Fin & F2).
    split; [exact Fin|]. constructor; [|exact F2]. intros Hc'. exact (proj2 (Step c h o v h1 Hc' Hn Hi Ec)).
Qed.

(** a call of some method of class [cls] on the object at [a], whose sizes fit *)
Definition on_obj (a : nat) (cls : string) (fits : call -> Prop) (c : call) : Prop :=
  c_this c = Some a /\ (exists name, class_method cls name (c_key c)) /\ fits c.

(* ------------------------------------------------------------------ TCP *)
Definition tcp_ip_call_ok (f : tcp_flow) (c : call) (v : val) : Prop :=
  forall name, class_method tcp_class name (c_key c) -> In name tcp_pkt_names ->
  exists pl ps, tcp_plan name (c_slots c) = Some pl /\ conv_pktgen v = Ok ps /\ tcp_pkts f pl ps.

Theorem tcp_ip_history e a cs h f vs h' :
  nth_error h a = Some (OTcp f) -> flow_wf f ->
  Forall (fun c => on_obj a tcp_class (fun c => extra_fits 40 (c_extra c)) c \/ foreign e a c) cs ->
  run_hist e cs h = Some (vs, h') ->
  (exists f', nth_error h' a = Some (OTcp f') /\ same_socks f' f)
  /\ Forall2 (fun c v => on_obj a tcp_class (fun c => extra_fits 40 (c_extra c)) c -> tcp_ip_call_ok f c v) cs vs.
Proof.
  intros Hn Hf Hall H.
  destruct (hist_generic e a (fun o => exists f1, o = OTcp f1 /\ same_socks f1 f)
              (on_obj a tcp_class (fun c => extra_fits 40 (c_extra c))) (tcp_ip_call_ok f)) with (2 := Hn) (4 := Hall) (5 := H)
    as ((o' & Hn' & f' & -> & S') & F2).
  - intros c h0 o v h1 (Ht & (n0 & ms & Hms & Hin) & Hfit) Hn0 (f1 & -> & S1) Ec. unfold do_call in Ec. rewrite Ht in Ec.
    pose proof (wf_socks _ _ S1 Hf) as Hf1. split.
    + destruct (tcp_ip_method e ms n0 _ _ _ h0 a f1 v h1 Hms Hin Hfit Hn0 Hf1 Ec) as (f2 & -> & S2 & _).
      eexists. split; [eapply nth_error_set_same, Hn0|]. exists f2. split; [reflexivity|exact (same_socks_trans _ _ _ S2 S1)].
    + intros name (ms' & Hms' & Hin') Hpk.
      destruct (tcp_ip_method e ms' name _ _ _ h0 a f1 v h1 Hms' Hin' Hfit Hn0 Hf1 Ec) as (f2 & _ & _ & Rr).
      destruct (Rr Hpk) as (pl & ps & A & B & G). exists pl, ps. split; [exact A|]. split; [exact B|].
      exact (tcp_pkts_socks _ _ _ _ S1 G).
  - exists f. split; [reflexivity|apply same_socks_refl].
  - split; [exists f'; split; assumption|exact F2].
Qed.

(* ------------------------------------------------------------------ UDP *)
Definition udp_ip_call_ok (f : udp_flow) (c : call) (v : val) : Prop :=
  forall name, class_method udp_class name (c_key c) -> In name udp_pkt_names ->
  exists ws ps, udp_plan f name (c_slots c) = Some ws /\ conv_pktgen v = Ok ps /\ pkts_carry (uf_raw f) ws ps.

Theorem udp_ip_history e a cs h f vs h' :
  nth_error h a = Some (OUdp f) -> uflow_wf f ->
  Forall (fun c => on_obj a udp_class (fun c => extra_fits 28 (c_extra c)) c \/ foreign e a c) cs ->
  run_hist e cs h = Some (vs, h') ->
  nth_error h' a = Some (OUdp f)
  /\ Forall2 (fun c v => on_obj a udp_class (fun c => extra_fits 28 (c_extra c)) c -> udp_ip_call_ok f c v) cs vs.
Proof.
  intros Hn Hf Hall H.
  destruct (hist_generic e a (fun o => o = OUdp f)
              (on_obj a udp_class (fun c => extra_fits 28 (c_extra c))) (udp_ip_call_ok f)) with (2 := Hn) (4 := Hall) (5 := H)
    as ((o' & Hn' & ->) & F2).
  - intros c h0 o v h1 (Ht & (n0 & ms & Hms & Hin) & Hfit) Hn0 -> Ec. unfold do_call in Ec. rewrite Ht in Ec. split.
    + destruct (udp_ip_method e ms n0 _ _ _ h0 a f v h1 Hms Hin Hfit Hn0 Hf Ec) as (-> & _).
      eexists. split; [exact Hn0|reflexivity].
    + intros name (ms' & Hms' & Hin') Hpk.
      destruct (udp_ip_method e ms' name _ _ _ h0 a f v h1 Hms' Hin' Hfit Hn0 Hf Ec) as (_ & Rr). exact (Rr Hpk).
  - reflexivity.
  - split; assumption.
Qed.

(* ------------------------------------------------------------------ ICMP *)
Definition icmp_ip_call_ok (f : icmp_flow) (c : call) (v : val) : Prop :=
  forall name, class_method icmp_class name (c_key c) ->
  exists ws ps, icmp_plan f name = Some ws /\ conv_pktgen v = Ok ps /\ pkts_carry (if_raw f) ws ps.

Lemma icmp_plan_same f1 f name : icmp_same f1 f -> icmp_plan f1 name = icmp_plan f name.
Proof. intros (A & B & _). unfold icmp_plan. rewrite A, B. reflexivity. Qed.

Theorem icmp_ip_history e a cs h f vs h' :
  nth_error h a = Some (OIcmp f) -> icmp_awf f ->
  Forall (fun c => on_obj a icmp_class (fun c => icmp_ip_fits (c_slots c)) c \/ foreign e a c) cs ->
  run_hist e cs h = Some (vs, h') ->
  (exists f', nth_error h' a = Some (OIcmp f') /\ icmp_same f' f)
  /\ Forall2 (fun c v => on_obj a icmp_class (fun c => icmp_ip_fits (c_slots c)) c -> icmp_ip_call_ok f c v) cs vs.
Proof.
  intros Hn Hf Hall H.
  destruct (hist_generic e a (fun o => exists f1, o = OIcmp f1 /\ icmp_same f1 f)
              (on_obj a icmp_class (fun c => icmp_ip_fits (c_slots c))) (icmp_ip_call_ok f)) with (2 := Hn) (4 := Hall) (5 := H)
    as ((o' & Hn' & f' & -> & S') & F2).
  - intros c h0 o v h1 (Ht & (n0 & ms & Hms & Hin) & Hfit) Hn0 (f1 & -> & S1) Ec. unfold do_call in Ec. rewrite Ht in Ec.
    assert (Hf1 : icmp_awf f1) by (destruct S1 as (A & B & _); unfold icmp_awf; rewrite A, B; exact Hf).
    split.
    + destruct (icmp_ip_method e ms n0 _ _ _ h0 a f1 v h1 Hms Hin Hfit Hn0 Hf1 Ec) as (f2 & -> & S2 & _).
      eexists. split; [eapply nth_error_set_same, Hn0|]. exists f2. split; [reflexivity|].
      destruct S2 as (A1 & A2 & A3). destruct S1 as (B1 & B2 & B3). repeat split; congruence.
    + intros name (ms' & Hms' & Hin').
      destruct (icmp_ip_method e ms' name _ _ _ h0 a f1 v h1 Hms' Hin' Hfit Hn0 Hf1 Ec) as (f2 & _ & _ & ws & ps & A & B & G).
      exists ws, ps. rewrite <- (icmp_plan_same f1 f name S1). split; [exact A|]. split; [exact B|].
      destruct S1 as (_ & _ & R). rewrite <- R. exact G.
  - exists f. split; [reflexivity|repeat split].
  - split; [exists f'; split; assumption|exact F2].
Qed.

(* ------------------------------------------------------------------ IpFrag *)
Definition frag_ip_call_ok (f : ip_frag) (c : call) (v : val) : Prop :=
  forall name, class_method frag_class name (c_key c) ->
  exists q p, frag_call_req name (c_slots c) = Some q /\ v = VPkt p /\ ip_pkt (req_want f (fst q)) (snd q) p.

Theorem frag_ip_history e a cs h f vs h' :
  nth_error h a = Some (OFrag f) -> ip_wf (fr_hdr f) -> 20 + len (fr_payload f) < 65536 ->
  Forall (fun c => on_obj a frag_class (fun _ => True) c \/ foreign e a c) cs ->
  run_hist e cs h = Some (vs, h') ->
  nth_error h' a = Some (OFrag f)
  /\ Forall2 (fun c v => on_obj a frag_class (fun _ => True) c -> frag_ip_call_ok f c v) cs vs.
Proof.
  intros Hn Hf Hfit Hall H.
  assert (Fq : forall name slots q, frag_call_req name slots = Some q -> 20 + len (req_carried f (fst q)) < 65536).
  { intros name slots q _. pose proof (req_carried_le f (fst q)). lia. }
  destruct (hist_generic e a (fun o => o = OFrag f) (on_obj a frag_class (fun _ => True)) (frag_ip_call_ok f))
    with (2 := Hn) (4 := Hall) (5 := H) as ((o' & Hn' & ->) & F2).
  - intros c h0 o v h1 (Ht & (n0 & ms & Hms & Hin) & _) Hn0 -> Ec. unfold do_call in Ec. rewrite Ht in Ec. split.
    + destruct (frag_ip_method e ms n0 _ _ _ h0 a f v h1 Hms Hin Hn0 Hf (Fq _ _) Ec) as (-> & _).
      eexists. split; [exact Hn0|reflexivity].
    + intros name (ms' & Hms' & Hin').
      destruct (frag_ip_method e ms' name _ _ _ h0 a f v h1 Hms' Hin' Hn0 Hf (Fq _ _) Ec) as (_ & Rr). exact Rr.
  - reflexivity.
  - split; assumption.
Qed.

(* ------------------------------------------------------------------ the four tunnel sessions *)
(** what an encap / dgram call returns: one outer packet per inner packet of its first argument, each with the
    session's header [w] *)
Definition tun_call_ok (raw : bool) (w : ip_want) (c : call) (v : val) : Prop :=
  exists ps out, conv_pktgen (nth 0 (c_slots c) VNil) = Ok ps /\ conv_pktgen v = Ok out
    /\ pkts_carry raw (same_want w ps) out.
Definition tun_fits (ov : N) (c : call) : Prop := inner_fits ov (nth 0 (c_slots c) VNil).

Theorem vxlan_ip_history e a cs h f vs h' :
  nth_error h a = Some (OVxlan f) -> vxlan_wf f ->
  Forall (fun c => on_obj a "vxlan::Vxlan" (tun_fits 36) c \/ foreign e a c) cs ->
  run_hist e cs h = Some (vs, h') ->
  nth_error h' a = Some (OVxlan f)
  /\ Forall2 (fun c v => on_obj a "vxlan::Vxlan" (tun_fits 36) c -> tun_call_ok (vx_raw f) (vxlan_want f) c v) cs vs.
Proof.
  intros Hn Hf Hall H.
  destruct (hist_generic e a (fun o => o = OVxlan f) (on_obj a "vxlan::Vxlan" (tun_fits 36)) (tun_call_ok (vx_raw f) (vxlan_want f)))
    with (2 := Hn) (4 := Hall) (5 := H) as ((o' & Hn' & ->) & F2).
  - intros c h0 o v h1 (Ht & (n0 & ms & Hms & Hin) & Hfit) Hn0 -> Ec. unfold do_call in Ec. rewrite Ht in Ec.
    destruct (vxlan_ip_method e ms n0 _ _ _ h0 a f v h1 Hms Hin Hfit Hn0 Hf Ec) as (-> & Rr).
    split; [eexists; split; [exact Hn0|reflexivity]|exact Rr].
  - reflexivity.
  - split; assumption.
Qed.

Theorem gre_ip_history e a cs h f vs h' :
  nth_error h a = Some (OGre f) -> gre_wf f ->
  Forall (fun c => on_obj a "gre::Gre" (tun_fits (gre_overhead (gl_flags f))) c \/ foreign e a c) cs ->
  run_hist e cs h = Some (vs, h') ->
  (exists f', nth_error h' a = Some (OGre f') /\ gre_same f' f)
  /\ Forall2 (fun c v => on_obj a "gre::Gre" (tun_fits (gre_overhead (gl_flags f))) c ->
                         tun_call_ok (gl_raw f) (gre_want f) c v) cs vs.
Proof.
  intros Hn Hf Hall H.
  destruct (hist_generic e a (fun o => exists f1, o = OGre f1 /\ gre_same f1 f)
              (on_obj a "gre::Gre" (tun_fits (gre_overhead (gl_flags f)))) (tun_call_ok (gl_raw f) (gre_want f)))
    with (2 := Hn) (4 := Hall) (5 := H) as ((o' & Hn' & f' & -> & S') & F2).
  - intros c h0 o v h1 (Ht & (n0 & ms & Hms & Hin) & Hfit) Hn0 (f1 & -> & S1) Ec. unfold do_call in Ec. rewrite Ht in Ec.
    pose proof S1 as (B1 & B2 & B3 & B4 & B5).
    assert (Hf1 : gre_wf f1) by (unfold gre_wf; rewrite B1, B2; exact Hf).
    unfold tun_fits in Hfit. rewrite <- B4 in Hfit.
    destruct (gre_ip_method e ms n0 _ _ _ h0 a f1 v h1 Hms Hin Hfit Hn0 Hf1 Ec) as (f2 & -> & S2 & Rr).
    split.
    + eexists. split; [eapply nth_error_set_same, Hn0|]. exists f2. split; [reflexivity|exact (gre_same_trans _ _ _ S2 S1)].
    + unfold tun_call_ok. unfold gre_want in Rr |- *. rewrite B1, B2, B3 in Rr. exact Rr.
  - exists f. split; [reflexivity|apply gre_same_refl].
  - split; [exists f'; split; assumption|exact F2].
Qed.

Theorem erspan1_ip_history e a cs h f vs h' :
  nth_error h a = Some (OErspan1 f) -> erspan1_wf f ->
  Forall (fun c => on_obj a "erspan1::Erspan1" (tun_fits 24) c \/ foreign e a c) cs ->
  run_hist e cs h = Some (vs, h') ->
  nth_error h' a = Some (OErspan1 f)
  /\ Forall2 (fun c v => on_obj a "erspan1::Erspan1" (tun_fits 24) c -> tun_call_ok (e1_raw f) (erspan1_want f) c v) cs vs.
Proof.
  intros Hn Hf Hall H.
  destruct (hist_generic e a (fun o => o = OErspan1 f) (on_obj a "erspan1::Erspan1" (tun_fits 24))
              (tun_call_ok (e1_raw f) (erspan1_want f))) with (2 := Hn) (4 := Hall) (5 := H) as ((o' & Hn' & ->) & F2).
  - intros c h0 o v h1 (Ht & (n0 & ms & Hms & Hin) & Hfit) Hn0 -> Ec. unfold do_call in Ec. rewrite Ht in Ec.
    destruct (erspan1_ip_method e ms n0 _ _ _ h0 a f v h1 Hms Hin Hfit Hn0 Hf Ec) as (-> & Rr).
    split; [eexists; split; [exact Hn0|reflexivity]|exact Rr].
  - reflexivity.
  - split; assumption.
Qed.

Theorem erspan2_ip_history e a cs h f vs h' :
  nth_error h a = Some (OErspan2 f) -> erspan2_wf f ->
  Forall (fun c => on_obj a "erspan2::Erspan2" (tun_fits 36) c \/ foreign e a c) cs ->
  run_hist e cs h = Some (vs, h') ->
  (exists f', nth_error h' a = Some (OErspan2 f') /\ erspan2_same f' f)
  /\ Forall2 (fun c v => on_obj a "erspan2::Erspan2" (tun_fits 36) c -> tun_call_ok (e2_raw f) (erspan2_want f) c v) cs vs.
Proof.
  intros Hn Hf Hall H.
  destruct (hist_generic e a (fun o => exists f1, o = OErspan2 f1 /\ erspan2_same f1 f)
              (on_obj a "erspan2::Erspan2" (tun_fits 36)) (tun_call_ok (e2_raw f) (erspan2_want f)))
    with (2 := Hn) (4 := Hall) (5 := H) as ((o' & Hn' & f' & -> & S') & F2).
  - intros c h0 o v h1 (Ht & (n0 & ms & Hms & Hin) & Hfit) Hn0 (f1 & -> & S1) Ec. unfold do_call in Ec. rewrite Ht in Ec.
    pose proof S1 as (B1 & B2 & B3 & B4).
    assert (Hf1 : erspan2_wf f1) by (unfold erspan2_wf; rewrite B1, B2; exact Hf).
    destruct (erspan2_ip_method e ms n0 _ _ _ h0 a f1 v h1 Hms Hin Hfit Hn0 Hf1 Ec) as (f2 & -> & S2 & Rr).
    split.
    + eexists. split; [eapply nth_error_set_same, Hn0|]. exists f2. split; [reflexivity|exact (erspan2_same_trans _ _ _ S2 S1)].
    + unfold tun_call_ok. unfold erspan2_want in Rr |- *. rewrite B1, B2, B3 in Rr. exact Rr.
  - exists f. split; [reflexivity|apply erspan2_same_refl].
  - split; [exists f'; split; assumption|exact F2].
Qed.

(* ------------------------------------------------------------------ a concrete mixed history *)
(** decision procedure for [pkts_carry] *)
Fixpoint carry_b (raw : bool) (ws : list ip_want) (ps : list packet) : bool :=
  match ws, ps with
  | [], [] => true
  | w :: wr, p :: pr => ip_clause_b w (l3_of raw (pk_body p)) && carry_b raw wr pr
  | _, _ => false
  end.
Lemma carry_b_ok raw : forall ws ps, carry_b raw ws ps = true <-> pkts_carry raw ws ps.
Proof.
  unfold pkts_carry. induction ws as [|w wr IH]; intros [|p pr]; cbn [carry_b]; split; intros H;
    try discriminate H; try (inversion H; fail).
  - constructor.
  - reflexivity.
  - apply andb_prop in H. destruct H as (A & B). constructor; [exact (proj1 (ip_clause_b_ok _ _) A)|apply IH, B].
  - inversion H as [|? ? ? ? A B]; subst. apply andb_true_intro. split; [exact (proj2 (ip_clause_b_ok _ _) A)|apply IH, B].
Qed.

Definition exb_payload : bytes := map N.of_nat (seq 0 24).
Definition exb_calls : list call := [
  fcall "ipv4::tcp::flow" [VSock4 16909060 1025; VSock4 16909061 80; VU32 1000; VU32 2000; VBool false] [];
  mcall "ipv4::tcp::TcpFlow.open" 0 [] [];
  mcall "ipv4::tcp::TcpFlow.client_message" 0 [VBool true; VNil; VNil; VU16 0] [VStr [104; 105]];
  fcall "ipv4::udp::flow" [VSock4 167837953 1234; VSock4 167837954 53; VBool false] [];
  mcall "ipv4::udp::UdpFlow.client_dgram" 1 [VU16 0; VBool true] [VStr [1; 2; 3]];
  fcall "ipv4::icmp::flow" [VIp4 16909060; VIp4 16909061; VBool true] [];
  mcall "ipv4::icmp::Icmp.echo" 2 [VStr [7]] [];
  fcall "ipv4::frag" [VIp4 3232235777; VIp4 3232235778; VU16 4660; VBool false; VBool true; VU8 9; VU8 17] [VStr exb_payload];
  mcall "ipv4::IpFrag.fragment" 3 [VU16 1; VU16 1; VBool false] [];
  fcall "gre::session" [VIp4 167772161; VIp4 167772162; VU16 25944; VBool true] [];
  fcall "vxlan::session" [VSock4 3232235777 40000; VSock4 3232235778 4789; VU32 77; VBool false] [] ]%string.

Definition exb_gre : gre_flow :=
  {| gl_cl := 167772161; gl_sv := 167772162; gl_flags := gre_flags_default; gl_ethertype := 25944; gl_raw := true; gl_seq := 0 |}.
Definition exb_vx : vxlan_flow := {| vx_cl := (3232235777, 40000); vx_sv := (3232235778, 4789); vx_vni := 77; vx_raw := false |}.
