(** C02 at the level the interpreter executes, part 2: TCP.  Every packet a TcpFlow operation emits carries
    an IPv4 header between the flow's addresses in the direction of the sending side, protocol 6,
    identification 0, TTL 64, and the flags+offset word 0 -- except the data segment of
    client_message/server_message, which carries the call's frag_off: value --, with exact total length and
    verifying checksum; then every method of the TcpFlow class as dispatched by [exec]. *)
From RS Require Import Base.Bytes Base.Outcome Bind.Types Pkt.Csum Pkt.Hdrs Pkt.Packet Ez.Tcp
  Interp.Val Interp.Eval Lib.LibBase Lib.StdLib Lib.Ipv4Lib Spec.Wire
  Proofs.BytesLemmas Proofs.Tactics Proofs.C02.IpLemmas Proofs.C02.TcpIp Proofs.C02.OtherIp Proofs.C02.LibIp
  Proofs.C03.Transport Proofs.C08.LibTac Proofs.C03.LibCalls Proofs.C03.LibTcpOps Proofs.C03.LibTcp.
From RSGen Require Import Catalogue.
From Coq Require Import Arith ZArith Lia ZifyBool ZifyNat ZifyN.
Ltac Zify.zify_post_hook ::= Z.div_mod_to_equations.
Open Scope N_scope.
Open Scope string_scope.

(** the header a segment sent by the client (server) side of [f] must carry; [fo]: flags+offset word *)
Definition tcp_want (f : tcp_flow) (client : bool) (fo : N) : ip_want :=
  want_frag (want_default (side_src client f) (side_dst client f) 6) fo.

(** packets [ps] carry, in order, the headers of plan [pl] (sending side, flags+offset word) *)
Definition tcp_pkts (f : tcp_flow) (pl : list (bool * N)) (ps : list packet) : Prop :=
  Forall2 (fun cf p => ip_pkt (tcp_want f (fst cf) (snd cf)) (tf_raw f) p) pl ps.

(** a segment under construction: framing/lengths/current checksum ([seg_inv]) and the designated fields *)
Definition seg_ipw (f : tcp_flow) (c : bool) (fo : N) (s : tcp_seg) : Prop :=
  seg_inv (tf_raw f) s /\ hdr_wants (tcp_want f c fo) (ts_ip s).

Lemma side_seg_ipw c f : flow_wf f -> seg_ipw f c 0 (side_seg c f).
Proof.
  intros Hf. split.
  - destruct c; [apply flow_cl_inv|apply flow_sv_inv]; exact Hf.
  - destruct c; repeat split.
Qed.

Definition ipw_keep (g : tcp_seg -> tcp_seg) : Prop := forall f c fo s, seg_ipw f c fo s -> seg_ipw f c fo (g s).
Lemma ik_syn : ipw_keep seg_syn. Proof. intros f c fo s (I & W). split; [apply seg_syn_inv, I|exact W]. Qed.
Lemma ik_rst : ipw_keep seg_rst. Proof. intros f c fo s (I & W). split; [apply seg_rst_inv, I|exact W]. Qed.
Lemma ik_ack : ipw_keep seg_ack. Proof. intros f c fo s (I & W). split; [apply seg_ack_inv, I|exact W]. Qed.
Lemma ik_syn_ack : ipw_keep seg_syn_ack. Proof. intros f c fo s (I & W). split; [apply seg_syn_ack_inv, I|exact W]. Qed.
Lemma ik_push : ipw_keep seg_push. Proof. intros f c fo s (I & W). split; [apply seg_push_inv, I|exact W]. Qed.
Lemma ik_fin_ack : ipw_keep seg_fin_ack. Proof. intros f c fo s (I & W). split; [apply seg_fin_ack_inv, I|exact W]. Qed.

Lemma ipw_frag_off f c s off : off < 65536 -> seg_ipw f c 0 s -> seg_ipw f c off (seg_frag_off s off).
Proof.
  intros Ho (I & W). split; [apply seg_frag_off_inv; assumption|].
  unfold seg_frag_off. cbn [ts_ip ts_with_ip]. apply wants_calc.
  exact (wants_frag_off (tcp_want f c 0) (ts_ip s) off W eq_refl).
Qed.

Lemma ipw_append f c fo s b s' :
  seg_ipw f c fo s -> 40 + len (ts_payload s) + len b < 65536 -> seg_append_data s b = Ok s' -> seg_ipw f c fo s'.
Proof.
  intros (I & W) Hfit E. split; [eapply seg_append_data_inv; eassumption|].
  revert E. unfold seg_append_data, seg_update_tot_len. intros E. binv E. apply Ok_inj in E. subst s'. exact W.
Qed.

Lemma ipw_csum f c fo s s' : seg_ipw f c fo s -> seg_tcp_csum s = Ok s' -> seg_ipw f c fo s'.
Proof.
  intros (I & W) E. split; [eapply seg_tcp_csum_inv; eassumption|].
  revert E. unfold seg_tcp_csum. intros E. binv E. apply Ok_inj in E. subst s'. exact W.
Qed.

Theorem ipw_packet f c fo s : seg_ipw f c fo s -> ip_pkt (tcp_want f c fo) (tf_raw f) (seg_packet s).
Proof.
  intros ((H1 & H2 & H3 & H4) & W). unfold ip_pkt, seg_packet, pkt_of_body, seg_bytes. cbn [pk_body].
  rewrite H1. rewrite l3_of_framed by exact H4. unfold seg_l3_bytes.
  apply clause_intro; [exact H2| |exact W].
  rewrite len_app. change (len (tcp_ser (ts_tcp s))) with 20. rewrite H3. lia.
Qed.

(* ------------------------------------------------------------------ sockets never change *)
Lemma wf_socks f' f : same_socks f' f -> flow_wf f -> flow_wf f'.
Proof. intros (A & B & _) (C & D). unfold flow_wf. rewrite A, B. split; assumption. Qed.
Lemma tcp_want_socks f' f c fo : same_socks f' f -> tcp_want f' c fo = tcp_want f c fo.
Proof. intros (A & B & _). unfold tcp_want, side_src, side_dst. rewrite A, B. reflexivity. Qed.
Lemma ip_pkt_socks f' f c fo p :
  same_socks f' f -> ip_pkt (tcp_want f' c fo) (tf_raw f') p -> ip_pkt (tcp_want f c fo) (tf_raw f) p.
Proof. intros S H. rewrite (tcp_want_socks _ _ c fo S) in H. destruct S as (_ & _ & R). rewrite R in H. exact H. Qed.
Lemma tcp_pkts_socks f' f pl ps : same_socks f' f -> tcp_pkts f' pl ps -> tcp_pkts f pl ps.
Proof.
  intros S H. unfold tcp_pkts in *. induction H as [|cf p pl ps Hp _ IH]; constructor; [|exact IH].
  eapply ip_pkt_socks; eassumption.
Qed.

(* ------------------------------------------------------------------ transmissions *)
Definition is_txi (tx : tcp_flow -> tcp_seg -> outcome (tcp_flow * packet)) : Prop :=
  forall f s f' p c fo, seg_ipw f c fo s -> tx f s = Ok (f', p) ->
  ip_pkt (tcp_want f c fo) (tf_raw f) p /\ same_socks f' f.
Definition mk_oki (c : bool) (mk : tcp_flow -> tcp_seg) : Prop := forall f, flow_wf f -> seg_ipw f c 0 (mk f).

Lemma tx_ip (client : bool) : is_txi (side_tx client).
Proof.
  intros f s f' p c fo Hs H. revert H. unfold side_tx, flow_cl_tx, flow_sv_tx. intros H.
  destruct client; binv H; ok_inv H; (split; [apply ipw_packet; eapply ipw_csum; eassumption|repeat split]).
Qed.
Lemma cl_txi : is_txi flow_cl_tx. Proof. exact (tx_ip true). Qed.
Lemma sv_txi : is_txi flow_sv_tx. Proof. exact (tx_ip false). Qed.
Lemma mk_cli g : ipw_keep g -> mk_oki true (fun f => g (flow_cl f)).
Proof. intros K f Hf. apply K. exact (side_seg_ipw true f Hf). Qed.
Lemma mk_svi g : ipw_keep g -> mk_oki false (fun f => g (flow_sv f)).
Proof. intros K f Hf. apply K. exact (side_seg_ipw false f Hf). Qed.

Lemma chain3_ip tx1 tx2 tx3 mk1 mk2 mk3 c1 c2 c3 f f' ps :
  is_txi tx1 -> is_txi tx2 -> is_txi tx3 -> mk_oki c1 mk1 -> mk_oki c2 mk2 -> mk_oki c3 mk3 -> flow_wf f ->
  (do (f1, p1) <- tx1 f (mk1 f);
   do (f2, p2) <- tx2 f1 (mk2 f1);
   do (f3, p3) <- tx3 f2 (mk3 f2);
   Ok (f3, [p1; p2; p3])) = Ok (f', ps) ->
  tcp_pkts f [(c1, 0); (c2, 0); (c3, 0)] ps /\ same_socks f' f.
Proof.
  intros T1 T2 T3 M1 M2 M3 Hf H. binv1 H. binv1 H. binv1 H. ok_inv H.
  match goal with
  | E1 : tx1 f _ = Ok (?f1, ?p1), E2 : tx2 ?f1 _ = Ok (?f2, ?p2), E3 : tx3 ?f2 _ = Ok (?f3, ?p3) |- _ =>
    destruct (T1 _ _ _ _ _ _ (M1 f Hf) E1) as (S1 & So1);
    pose proof (wf_socks _ _ So1 Hf) as Hf1;
    destruct (T2 _ _ _ _ _ _ (M2 f1 Hf1) E2) as (S2 & So2);
    pose proof (wf_socks _ _ So2 Hf1) as Hf2;
    destruct (T3 _ _ _ _ _ _ (M3 f2 Hf2) E3) as (S3 & So3);
    pose proof (same_socks_trans _ _ _ So2 So1) as So12;
    split; [|exact (same_socks_trans _ _ _ So3 So12)];
    constructor; [exact S1|]; constructor; [exact (ip_pkt_socks _ _ _ _ _ So1 S2)|];
    constructor; [exact (ip_pkt_socks _ _ _ _ _ So12 S3)|constructor]
  end.
Qed.

Theorem open_ip f f' ps : flow_wf f -> flow_open f = Ok (f', ps) ->
  tcp_pkts f [(true, 0); (false, 0); (true, 0)] ps /\ same_socks f' f.
Proof.
  intros Hf H. revert H. unfold flow_open. intros H.
  exact (chain3_ip flow_cl_tx flow_sv_tx flow_cl_tx (fun f => seg_syn (flow_cl f)) (fun f => seg_syn_ack (flow_sv f))
           (fun f => seg_ack (flow_cl f)) true false true f f' ps cl_txi sv_txi cl_txi
           (mk_cli _ ik_syn) (mk_svi _ ik_syn_ack) (mk_cli _ ik_ack) Hf H).
Qed.
Theorem client_close_ip f f' ps : flow_wf f -> flow_client_close f = Ok (f', ps) ->
  tcp_pkts f [(true, 0); (false, 0); (true, 0)] ps /\ same_socks f' f.
Proof.
  intros Hf H. revert H. unfold flow_client_close. intros H.
  exact (chain3_ip flow_cl_tx flow_sv_tx flow_cl_tx (fun f => seg_fin_ack (flow_cl f)) (fun f => seg_fin_ack (flow_sv f))
           (fun f => seg_ack (flow_cl f)) true false true f f' ps cl_txi sv_txi cl_txi
           (mk_cli _ ik_fin_ack) (mk_svi _ ik_fin_ack) (mk_cli _ ik_ack) Hf H).
Qed.
Theorem server_close_ip f f' ps : flow_wf f -> flow_server_close f = Ok (f', ps) ->
  tcp_pkts f [(false, 0); (true, 0); (false, 0)] ps /\ same_socks f' f.
Proof.
  intros Hf H. revert H. unfold flow_server_close. intros H.
  exact (chain3_ip flow_sv_tx flow_cl_tx flow_sv_tx (fun f => seg_fin_ack (flow_sv f)) (fun f => seg_fin_ack (flow_cl f))
           (fun f => seg_ack (flow_sv f)) false true false f f' ps sv_txi cl_txi sv_txi
           (mk_svi _ ik_fin_ack) (mk_cli _ ik_fin_ack) (mk_svi _ ik_ack) Hf H).
Qed.

(** the data segment of a message: the flow's segment with the requested flags+offset word and the payload *)
Lemma flow_seg_ipw (client : bool) f b off s :
  flow_wf f -> off < 65536 -> 40 + len b < 65536 ->
  (if client then flow_cl_seg f b off else flow_sv_seg f b off) = Ok s -> seg_ipw f client off s.
Proof.
  intros Hf Ho Hb. unfold flow_cl_seg, flow_sv_seg, seg_push_bytes.
  destruct client; intros E; eapply ipw_append; try exact E.
  - apply ik_push, ipw_frag_off; [exact Ho|exact (side_seg_ipw true f Hf)].
  - cbn. lia.
  - apply ik_push, ipw_frag_off; [exact Ho|exact (side_seg_ipw false f Hf)].
  - cbn. lia.
Qed.

Definition msg_plan (c : bool) (fo : N) (sa : bool) : list (bool * N) := (c, fo) :: (if sa then [(negb c, 0)] else []).

Lemma message_ip_gen (c : bool) tx1 tx2 (mk2 : tcp_flow -> tcp_seg)
  (mkseg : tcp_flow -> bytes -> N -> outcome tcp_seg) f b (sa : bool) off f' ps :
  is_txi tx1 -> is_txi tx2 -> mk_oki (negb c) mk2 ->
  (forall s, mkseg f b off = Ok s -> seg_ipw f c off s) ->
  flow_wf f ->
  (do s <- mkseg f b off;
   do (f1, p1) <- tx1 f s;
   if sa then (do (f2, p2) <- tx2 f1 (mk2 f1); Ok (f2, [p1; p2])) else Ok (f1, [p1])) = Ok (f', ps) ->
  tcp_pkts f (msg_plan c off sa) ps /\ same_socks f' f.
Proof.
  intros T1 T2 M2 MS Hf H. binv1 H. binv1 H.
  match goal with
  | Es : mkseg f b off = Ok ?s, E1 : tx1 f ?s = Ok (?f1, ?p1) |- _ =>
    destruct (T1 _ _ _ _ _ _ (MS _ Es) E1) as (S1 & So1);
    pose proof (wf_socks _ _ So1 Hf) as Hf1;
    destruct sa;
    [ binv1 H; ok_inv H;
      match goal with
      | E2 : tx2 f1 _ = Ok (?f2, ?p2) |- _ =>
        destruct (T2 _ _ _ _ _ _ (M2 f1 Hf1) E2) as (S2 & So2);
        split; [|exact (same_socks_trans _ _ _ So2 So1)];
        constructor; [exact S1|]; constructor; [exact (ip_pkt_socks _ _ _ _ _ So1 S2)|constructor]
      end
    | ok_inv H; split; [|exact So1]; constructor; [exact S1|constructor] ]
  end.
Qed.

Theorem message_ip (client : bool) f b sa off f' ps :
  flow_wf f -> off < 65536 -> 40 + len b < 65536 ->
  (if client then flow_client_message f b sa off else flow_server_message f b sa off) = Ok (f', ps) ->
  tcp_pkts f (msg_plan client off sa) ps /\ same_socks f' f.
Proof.
  intros Hf Ho Hfit H. destruct client.
  - revert H. unfold flow_client_message. intros H.
    refine (message_ip_gen true flow_cl_tx flow_sv_tx (fun f => seg_ack (flow_sv f)) flow_cl_seg f b sa off f' ps
              cl_txi sv_txi (mk_svi _ ik_ack) _ Hf H).
    intros s Es. exact (flow_seg_ipw true f b off s Hf Ho Hfit Es).
  - revert H. unfold flow_server_message. intros H.
    refine (message_ip_gen false flow_sv_tx flow_cl_tx (fun f => seg_ack (flow_cl f)) flow_sv_seg f b sa off f' ps
              sv_txi cl_txi (mk_cli _ ik_ack) _ Hf H).
    intros s Es. exact (flow_seg_ipw false f b off s Hf Ho Hfit Es).
Qed.

Theorem data_segment_ip (client : bool) f b f' s :
  flow_wf f -> 40 + len b < 65536 ->
  (if client then flow_client_data_segment f b else flow_server_data_segment f b) = Ok (f', s) ->
  tcp_pkts f [(client, 0)] [seg_packet s] /\ same_socks f' f.
Proof.
  intros Hf Hfit H. revert H. unfold flow_client_data_segment, flow_server_data_segment. intros H.
  destruct client; binv H; ok_inv H.
  - match goal with
    | Es : flow_cl_seg f b 0 = Ok ?s0, Ec : seg_tcp_csum ?s0 = Ok _ |- _ =>
      pose proof (flow_seg_ipw true f b 0 s0 Hf ltac:(lia) Hfit Es) as A1;
      split; [|repeat split]; constructor; [|constructor];
      apply ipw_packet; eapply ipw_csum; eassumption
    end.
  - match goal with
    | Es : flow_sv_seg f b 0 = Ok ?s0, Ec : seg_tcp_csum ?s0 = Ok _ |- _ =>
      pose proof (flow_seg_ipw false f b 0 s0 Hf ltac:(lia) Hfit Es) as A1;
      split; [|repeat split]; constructor; [|constructor];
      apply ipw_packet; eapply ipw_csum; eassumption
    end.
Qed.

Lemma data_segment_socks (client : bool) f b f' s :
  (if client then flow_client_data_segment f b else flow_server_data_segment f b) = Ok (f', s) -> same_socks f' f.
Proof.
  intros H. revert H. unfold flow_client_data_segment, flow_server_data_segment. intros H.
  destruct client; binv H; ok_inv H; repeat split.
Qed.

Theorem ack_ip (client : bool) f s : flow_wf f ->
  (if client then flow_client_ack f else flow_server_ack f) = Ok s -> tcp_pkts f [(client, 0)] [seg_packet s].
Proof.
  intros Hf H. revert H. unfold flow_client_ack, flow_server_ack. intros H.
  constructor; [|constructor]. apply ipw_packet. destruct client.
  - eapply ipw_csum; [|exact H]. exact (mk_cli _ ik_ack f Hf).
  - eapply ipw_csum; [|exact H]. exact (mk_svi _ ik_ack f Hf).
Qed.

Theorem reset_ip (client : bool) f p : flow_wf f ->
  (if client then flow_client_reset f else flow_server_reset f) = Ok p -> tcp_pkts f [(client, 0)] [p].
Proof.
  intros Hf H. revert H. unfold flow_client_reset, flow_server_reset. intros H.
  destruct client; binv H; apply Ok_inj in H; subst p; (constructor; [|constructor]); apply ipw_packet.
  - eapply ipw_csum; [|eassumption]. exact (mk_cli _ ik_rst f Hf).
  - eapply ipw_csum; [|eassumption]. exact (mk_svi _ ik_rst f Hf).
Qed.

(* ------------------------------------------------------------------ the library methods *)
(** the payload of a call (the extra arguments joined) fits a datagram whose headers take [hdr] bytes *)
Definition extra_fits (hdr : N) (extra : list val) : Prop :=
  forall b, join_extra [] extra = Ok b -> hdr + len b < 65536.

(** the methods of the class that return packets, and the headers each call designates, in order:
    (sending side, flags+offset word) *)
Definition tcp_pkt_names : list string :=
  ["open"; "client_message"; "server_message"; "client_segment"; "server_segment"; "client_ack"; "server_ack";
   "client_close"; "server_close"; "client_reset"; "server_reset"].

Definition tcp_msg_plan (c : bool) (slots : list val) : option (list (bool * N)) :=
  match slots with
  | [send_ack; _; _; frag_off] =>
    match conv_bool send_ack, conv_u16 frag_off with
    | Ok sa, Ok fo => Some (msg_plan c fo sa)
    | _, _ => None
    end
  | _ => None
  end.

Definition tcp_plan (name : string) (slots : list val) : option (list (bool * N)) :=
  if String.eqb name "open" then Some [(true, 0); (false, 0); (true, 0)]
  else if String.eqb name "client_message" then tcp_msg_plan true slots
  else if String.eqb name "server_message" then tcp_msg_plan false slots
  else if String.eqb name "client_segment" then Some [(true, 0)]
  else if String.eqb name "server_segment" then Some [(false, 0)]
  else if String.eqb name "client_ack" then Some [(true, 0)]
  else if String.eqb name "server_ack" then Some [(false, 0)]
  else if String.eqb name "client_close" then Some [(true, 0); (false, 0); (true, 0)]
  else if String.eqb name "server_close" then Some [(false, 0); (true, 0); (false, 0)]
  else if String.eqb name "client_reset" then Some [(true, 0)]
  else if String.eqb name "server_reset" then Some [(false, 0)]
  else None.

Lemma with_override_ip {A} f client sq ak (k : tcp_flow -> outcome (tcp_flow * A)) (P : A -> Prop) f' v :
  (forall f1 f2 w, same_socks f1 f -> k f1 = Ok (f2, w) -> same_socks f2 f1 /\ P w) ->
  with_override f client sq ak k = Ok (f', v) -> same_socks f' f /\ P v.
Proof.
  intros K H. revert H. unfold with_override. cbv zeta. intros H. binv1 H. ok_inv H.
  match goal with E : k ?f1 = Ok (?f2, _) |- _ =>
    assert (S1 : same_socks f1 f) by (repeat split);
    destruct (K _ _ _ S1 E) as ((A1 & A2 & A3) & Pw) end.
  split; [|exact Pw]. repeat split; cbn; assumption.
Qed.

(** result of a method body: the value is packets carrying plan [pl] (when [pl] is given), sockets kept *)
Definition posti (pl : option (list (bool * N))) (f : tcp_flow) (r : tcp_flow * val) : Prop :=
  same_socks (fst r) f /\
  match pl with Some l => exists ps, conv_pktgen (snd r) = Ok ps /\ tcp_pkts f l ps | None => True end.

Lemma gen_ip f (op : tcp_flow -> outcome (tcp_flow * list packet)) pl r :
  (forall f' ps, op f = Ok (f', ps) -> tcp_pkts f pl ps /\ same_socks f' f) ->
  (do (f2, ps) <- op f; Ok (f2, VPktGen ps)) = Ok r -> posti (Some pl) f r.
Proof.
  intros K H. binv H. ok_inv H. match goal with E : op f = Ok _ |- _ => destruct (K _ _ E) as (G & S) end.
  split; [exact S|]. eexists. split; [reflexivity|exact G].
Qed.

Lemma one_ip (client : bool) f r : flow_wf f ->
  (do p <- (if client then flow_client_reset else flow_server_reset) f; Ok (f, VPkt p)) = Ok r ->
  posti (Some [(client, 0)]) f r.
Proof.
  intros Hf H. binv H. ok_inv H. split; [apply same_socks_refl|].
  eexists. split; [reflexivity|]. apply (reset_ip client); [exact Hf|].
  match goal with E : _ = Ok _ |- _ => destruct client; exact E end.
Qed.

Lemma message_family_ip (client : bool) f sa sq ak fo b r :
  flow_wf f -> fo < 65536 -> 40 + len b < 65536 ->
  with_override f client sq ak (fun f1 =>
    do (f2, ps) <- (if client then flow_client_message else flow_server_message) f1 b sa fo;
    Ok (f2, VPktGen ps)) = Ok r -> posti (Some (msg_plan client fo sa)) f r.
Proof.
  intros Hf Ho Hfit H. destruct r as [f' v].
  apply (with_override_ip f client sq ak _ (fun w => exists ps, conv_pktgen w = Ok ps /\ tcp_pkts f (msg_plan client fo sa) ps)) in H.
  - destruct H as (S & P). split; [exact S|exact P].
  - intros f1 f2 w S1 E. binv E. ok_inv E.
    match goal with Em : _ = Ok (?f2, ?ps) |- _ =>
      assert (Em' : (if client then flow_client_message f1 b sa fo else flow_server_message f1 b sa fo) = Ok (f2, ps))
        by (destruct client; exact Em);
      destruct (message_ip client f1 b sa fo f2 ps (wf_socks _ _ S1 Hf) Ho Hfit Em') as (G & S2);
      split; [exact S2|]; exists ps; split; [reflexivity|]; exact (tcp_pkts_socks _ _ _ _ S1 G)
    end.
Qed.

Lemma segment_family_ip (client raw : bool) f sq ak b r :
  flow_wf f -> 40 + len b < 65536 ->
  with_override f client sq ak (fun f1 =>
    do (f2, s) <- (if client then flow_client_data_segment else flow_server_data_segment) f1 b;
    Ok (f2, if raw then VStr (seg_tcpseg s) else VPkt (seg_packet s))) = Ok r ->
  posti (if raw then None else Some [(client, 0)]) f r.
Proof.
  intros Hf Hfit H. destruct r as [f' v].
  apply (with_override_ip f client sq ak _
           (fun w => match (if raw then None else Some [(client, 0)]) with
                     | Some l => exists ps, conv_pktgen w = Ok ps /\ tcp_pkts f l ps | None => True end)) in H.
  - destruct H as (S & P). split; [exact S|exact P].
  - intros f1 f2 w S1 E. binv E. ok_inv E.
    match goal with Em : _ = Ok (?f2, ?s) |- _ =>
      assert (Em' : (if client then flow_client_data_segment f1 b else flow_server_data_segment f1 b) = Ok (f2, s))
        by (destruct client; exact Em);
      destruct (data_segment_ip client f1 b f2 s (wf_socks _ _ S1 Hf) Hfit Em') as (G & S2);
      split; [exact S2|]; destruct raw; [exact I|];
      eexists; split; [reflexivity|]; exact (tcp_pkts_socks _ _ _ _ S1 G)
    end.
Qed.

Lemma ack_family_ip (client : bool) f sq ak r :
  flow_wf f ->
  with_override f client sq ak (fun f1 =>
    do s <- (if client then flow_client_ack else flow_server_ack) f1;
    Ok (f1, VPkt (seg_packet s))) = Ok r -> posti (Some [(client, 0)]) f r.
Proof.
  intros Hf H. destruct r as [f' v].
  apply (with_override_ip f client sq ak _ (fun w => exists ps, conv_pktgen w = Ok ps /\ tcp_pkts f [(client, 0)] ps)) in H.
  - destruct H as (S & P). split; [exact S|exact P].
  - intros f1 f2 w S1 E. binv E. ok_inv E. split; [apply same_socks_refl|].
    eexists. split; [reflexivity|]. apply (tcp_pkts_socks _ _ _ _ S1). apply (ack_ip client); [exact (wf_socks _ _ S1 Hf)|].
    match goal with Em : _ = Ok _ |- _ => destruct client; exact Em end.
Qed.

Lemma hdr_family_ip (client : bool) f d r :
  (do (f2, b) <- (if client then flow_client_hdr else flow_server_hdr) f d; Ok (f2, VStr b)) = Ok r -> posti None f r.
Proof.
  intros H. revert H. unfold flow_client_hdr, flow_server_hdr. intros H.
  destruct client; binv H; ok_inv E; ok_inv H; (split; [repeat split|exact I]).
Qed.

Ltac finish_ip :=
  match goal with
  | P : posti ?pl ?f (?f', ?v) |- _ =>
    destruct P as (S & R); cbn [fst snd] in S, R;
    exists f'; split; [reflexivity|]; split; [exact S|]
  end.

Ltac plan_known R :=
  intros _; destruct R as (ps & Eps & G); eexists; exists ps; split; [reflexivity|]; split; assumption.

Ltac not_pkt_name :=
  let Hin := fresh "Hin" in intros Hin; exfalso; cbn [In tcp_pkt_names] in Hin;
  repeat (destruct Hin as [Hin|Hin]; [discriminate Hin|]); exact Hin.

(** EVERY method of the TcpFlow class (a method added later has no case here and breaks the proof), on a
    heap where the receiver is a flow with 32-bit addresses, with a payload that fits a datagram: the flow
    written back has the same sockets, and if the method returns packets they carry the planned headers *)
Theorem tcp_ip_method e ms name key slots extra h a f v h' :
  assoc tcp_class class_table = Some ms -> In (name, key) ms ->
  extra_fits 40 extra ->
  nth_error h a = Some (OTcp f) -> flow_wf f ->
  exec e key (Some a) slots extra h = Some (Ok (v, h')) ->
  exists f', h' = set_nth h a (OTcp f') /\ same_socks f' f
    /\ (In name tcp_pkt_names ->
        exists pl ps, tcp_plan name slots = Some pl /\ conv_pktgen v = Ok ps /\ tcp_pkts f pl ps).
Proof.
  intros Hms Hin Hfit Hn Hf H. vm_compute in Hms. apply Some_inj in Hms. subst ms.
  cbn [In] in Hin.
  repeat (destruct Hin as [Hin|Hin]; [apply pair_equal_spec in Hin; destruct Hin as [<- <-]|]); [..|contradiction Hin].
  - (* open *) tcp_enter H Hn. apply (gen_ip f flow_open [(true, 0); (false, 0); (true, 0)]) in E;
      [finish_ip; plan_known R|intros; eapply open_ip; eassumption].
  - (* client_message *) tcp_enter H Hn. slots_shape E slots. binv E.
    match goal with
    | Eo : with_override _ _ _ _ _ = Ok _, Ea : conv_bool _ = Ok ?sa, Ef : conv_u16 _ = Ok ?fo, Ej : join_extra [] _ = Ok ?b |- _ =>
      apply (message_family_ip true) in Eo; [|exact Hf|exact (conv_u16_lt _ _ Ef)|exact (Hfit _ Ej)];
      finish_ip; intros _; destruct R as (ps & Eps & G); exists (msg_plan true fo sa), ps;
      split; [unfold tcp_plan, tcp_msg_plan; cbn [String.eqb Ascii.eqb Bool.eqb]; rewrite Ea, Ef; reflexivity|]; split; assumption
    end.
  - (* server_message *) tcp_enter H Hn. slots_shape E slots. binv E.
    match goal with
    | Eo : with_override _ _ _ _ _ = Ok _, Ea : conv_bool _ = Ok ?sa, Ef : conv_u16 _ = Ok ?fo, Ej : join_extra [] _ = Ok ?b |- _ =>
      apply (message_family_ip false) in Eo; [|exact Hf|exact (conv_u16_lt _ _ Ef)|exact (Hfit _ Ej)];
      finish_ip; intros _; destruct R as (ps & Eps & G); exists (msg_plan false fo sa), ps;
      split; [unfold tcp_plan, tcp_msg_plan; cbn [String.eqb Ascii.eqb Bool.eqb]; rewrite Ea, Ef; reflexivity|]; split; assumption
    end.
  - (* client_segment *) tcp_enter H Hn. slots_shape E slots. binv E.
    match goal with Eo : with_override _ _ _ _ _ = Ok _, Ej : join_extra [] _ = Ok ?b |- _ =>
      apply (segment_family_ip true false) in Eo; [|exact Hf|exact (Hfit _ Ej)]; cbv iota in Eo; finish_ip; plan_known R end.
  - (* server_segment *) tcp_enter H Hn. slots_shape E slots. binv E.
    match goal with Eo : with_override _ _ _ _ _ = Ok _, Ej : join_extra [] _ = Ok ?b |- _ =>
      apply (segment_family_ip false false) in Eo; [|exact Hf|exact (Hfit _ Ej)]; cbv iota in Eo; finish_ip; plan_known R end.
  - (* client_raw_segment *) tcp_enter H Hn. slots_shape E slots. binv E.
    match goal with Eo : with_override _ _ _ _ _ = Ok _, Ej : join_extra [] _ = Ok ?b |- _ =>
      apply (segment_family_ip true true) in Eo; [|exact Hf|exact (Hfit _ Ej)]; cbv iota in Eo; finish_ip; not_pkt_name end.
  - (* server_raw_segment *) tcp_enter H Hn. slots_shape E slots. binv E.
    match goal with Eo : with_override _ _ _ _ _ = Ok _, Ej : join_extra [] _ = Ok ?b |- _ =>
      apply (segment_family_ip false true) in Eo; [|exact Hf|exact (Hfit _ Ej)]; cbv iota in Eo; finish_ip; not_pkt_name end.
  - (* client_hdr *) tcp_enter H Hn. slots_shape E slots. binv1 E.
    match goal with Eo : obind _ _ = Ok (_, _) |- _ => apply (hdr_family_ip true) in Eo; finish_ip; not_pkt_name end.
  - (* server_hdr *) tcp_enter H Hn. slots_shape E slots. binv1 E.
    match goal with Eo : obind _ _ = Ok (_, _) |- _ => apply (hdr_family_ip false) in Eo; finish_ip; not_pkt_name end.
  - (* client_ack *) tcp_enter H Hn. slots_shape E slots. binv E.
    match goal with Eo : with_override _ _ _ _ _ = Ok _ |- _ =>
      apply (ack_family_ip true) in Eo; [|exact Hf]; finish_ip; plan_known R end.
  - (* server_ack *) tcp_enter H Hn. slots_shape E slots. binv E.
    match goal with Eo : with_override _ _ _ _ _ = Ok _ |- _ =>
      apply (ack_family_ip false) in Eo; [|exact Hf]; finish_ip; plan_known R end.
  - (* client_hole *) tcp_enter H Hn. slots_shape E slots. binv E. ok_inv E.
    eexists. split; [reflexivity|]. split; [repeat split|not_pkt_name].
  - (* server_hole *) tcp_enter H Hn. slots_shape E slots. binv E. ok_inv E.
    eexists. split; [reflexivity|]. split; [repeat split|not_pkt_name].
  - (* client_close *) tcp_enter H Hn. apply (gen_ip f flow_client_close [(true, 0); (false, 0); (true, 0)]) in E;
      [finish_ip; plan_known R|intros; eapply client_close_ip; eassumption].
  - (* server_close *) tcp_enter H Hn. apply (gen_ip f flow_server_close [(false, 0); (true, 0); (false, 0)]) in E;
      [finish_ip; plan_known R|intros; eapply server_close_ip; eassumption].
  - (* client_reset *) tcp_enter H Hn. apply (one_ip true) in E; [finish_ip; plan_known R|exact Hf].
  - (* server_reset *) tcp_enter H Hn. apply (one_ip false) in E; [finish_ip; plan_known R|exact Hf].
Qed.
