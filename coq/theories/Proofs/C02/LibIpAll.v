(** C02 at the level the interpreter executes, part 5: EVERY library key that returns packets.
    [pkt_keys] is computed from the catalogue (regenerated from the code on every run): every key whose
    declared return type is a packet or a packet sequence, except eth::frame (a hand-made frame carries
    whatever bytes the script gives).  [ip_plan] says, for a call, which framing and which IPv4 headers
    its packets must carry, in order; [lib_ip_all]: they do.  A key added to the library later has no case in
    the proof and breaks it until handled.  Also: the objects the library's constructors create satisfy the
    receiver premise. *)
From RS Require Import Base.Bytes Base.Outcome Bind.Types Pkt.Csum Pkt.Hdrs Pkt.Packet Ez.Tcp Ez.Udp Ez.Icmp Ez.Ip4 Ez.Gre
  Interp.Val Interp.Eval Lib.LibBase Lib.StdLib Lib.Ipv4Lib Lib.MiscLib Lib.ProtoLib Spec.Wire
  Proofs.BytesLemmas Proofs.Tactics Proofs.C02.IpLemmas Proofs.C02.TcpIp Proofs.C02.OtherIp
  Proofs.C02.LibIp Proofs.C02.LibIpTcp Proofs.C02.LibIpFns Proofs.C02.LibIpTun
  Proofs.C08.LibTac Proofs.C03.LibCalls Proofs.C03.LibTcpOps Proofs.C03.LibTcp Proofs.C03.LibUdp Proofs.C03.LibIcmp
  Proofs.C03.LibFrame Proofs.C07.FragExact Proofs.C07.Compose Proofs.C07.LibFrag.
From RSGen Require Import Catalogue.
From Coq Require Import Arith ZArith Lia ZifyBool ZifyNat ZifyN.
Ltac Zify.zify_post_hook ::= Z.div_mod_to_equations.
Open Scope N_scope.

(* ------------------------------------------------------------------ the keys *)
Definition returns_packets (t : vtype) : bool := match t with TPkt | TPktGen => true | _ => false end.
Definition pkt_keys : list string :=
  map fd_key (filter (fun f => returns_packets (fd_ret f) && negb (String.eqb (fd_key f) "eth::frame")) catalogue).

(* ------------------------------------------------------------------ receiver premise *)
Definition obj_ip_wf (o : obj) : Prop :=
  match o with
  | OTcp f => flow_wf f | OUdp f => uflow_wf f | OIcmp f => icmp_awf f | OFrag f => ip_wf (fr_hdr f)
  | OVxlan f => vxlan_wf f | OGre f => gre_wf f | OErspan1 f => erspan1_wf f | OErspan2 f => erspan2_wf f
  | OBufIo _ _ => True
  end.
(** the receiver object, if the call has one, holds 32-bit addresses (and 16-bit ports) *)
Definition recv_wf (this : option nat) (h : heap) : Prop :=
  forall a o, this = Some a -> nth_error h a = Some o -> obj_ip_wf o.

(* ------------------------------------------------------------------ what a call designates *)
Definition opt_of {A} (o : outcome A) : option A := match o with Ok a => Some a | _ => None end.

(** method [name] called on object [o]: framing and headers, in order *)
Definition method_plan (o : obj) (name : string) (slots : list val) : option (bool * list ip_want) :=
  let inner := opt_of (conv_pktgen (nth 0 slots VNil)) in
  match o with
  | OTcp f => option_map (fun pl => (tf_raw f, map (fun cf => tcp_want f (fst cf) (snd cf)) pl)) (tcp_plan name slots)
  | OUdp f => option_map (fun ws => (uf_raw f, ws)) (udp_plan f name slots)
  | OIcmp f => option_map (fun ws => (if_raw f, ws)) (icmp_plan f name)
  | OFrag f => option_map (fun q => (snd q, [req_want f (fst q)])) (frag_call_req name slots)
  | OVxlan f => option_map (fun ps => (vx_raw f, same_want (vxlan_want f) ps)) inner
  | OGre f => option_map (fun ps => (gl_raw f, same_want (gre_want f) ps)) inner
  | OErspan1 f => option_map (fun ps => (e1_raw f, same_want (erspan1_want f) ps)) inner
  | OErspan2 f => option_map (fun ps => (e2_raw f, same_want (erspan2_want f) ps)) inner
  | OBufIo _ _ => None
  end.

Definition ip_plan (key : string) (this : option nat) (slots : list val) (h : heap) : option (bool * list ip_want) :=
  match this with
  | Some a =>
    match nth_error h a with
    | Some o => match strip_prefix (obj_class o ++ ".") key with
                | Some name => method_plan o name slots
                | None => None
                end
    | None => None
    end
  | None =>
    if String.eqb key "ipv4::udp::unicast" then opt_of (unicast_plan slots)
    else if String.eqb key "ipv4::udp::broadcast" then opt_of (broadcast_plan slots)
    else if String.eqb key "ipv4::datagram" then option_map (fun w => (false, [w])) (opt_of (datagram_want slots))
    else if String.eqb key "dns::host" then opt_of (dns_host_plan slots)
    else None
  end.

(** "the datagram fits in 65535 bytes", per family, in terms of the script's payload sizes *)
Definition ip_fits (key : string) (this : option nat) (slots extra : list val) (h : heap) : Prop :=
  match this with
  | Some a => forall o, nth_error h a = Some o ->
    match o with
    | OTcp _ => extra_fits 40 extra
    | OUdp _ => extra_fits 28 extra
    | OIcmp _ => icmp_ip_fits slots
    | OFrag f => forall name q, strip_prefix "ipv4::IpFrag." key = Some name -> frag_call_req name slots = Some q ->
                                20 + len (req_carried f (fst q)) < 65536
    | OVxlan _ => inner_fits 36 (nth 0 slots VNil)
    | OGre f => inner_fits (gre_overhead (gl_flags f)) (nth 0 slots VNil)
    | OErspan1 _ => inner_fits 24 (nth 0 slots VNil)
    | OErspan2 _ => inner_fits 36 (nth 0 slots VNil)
    | OBufIo _ _ => True
    end
  | None =>
    if String.eqb key "dns::host" then forall qn, conv_buf (nth 1 slots VNil) = Ok qn -> dns_host_fits qn (len extra)
    else if String.eqb key "ipv4::datagram" then extra_fits 20 extra
    else extra_fits 28 extra
  end.

Definition ip_result (key : string) (this : option nat) (slots : list val) (h : heap) (v : val) : Prop :=
  exists raw ws ps, ip_plan key this slots h = Some (raw, ws) /\ conv_pktgen v = Ok ps /\ pkts_carry raw ws ps.

(* ------------------------------------------------------------------ a method needs its receiver *)
Definition ip_classes : list string :=
  [tcp_class; udp_class; icmp_class; frag_class; "vxlan::Vxlan"; "gre::Gre"; "erspan1::Erspan1"; "erspan2::Erspan2"]%string.

Lemma take_this_ok_inv this h n o : take_this this h = Ok (n, o) -> this = Some n /\ nth_error h n = Some o.
Proof.
  unfold take_this. destruct this as [a|]; [|discriminate]. destruct (nth_error h a) as [o'|] eqn:E; [|discriminate].
  intros H. apply Ok_inj in H. apply pair_equal_spec in H. destruct H as [<- <-]. split; [reflexivity|exact E].
Qed.

Ltac recv_case H :=
  exec_unfold_in H; apply Some_inj in H; binv1 H;
  match goal with Et : take_this _ _ = Ok (?n, ?ob) |- _ =>
    apply take_this_ok_inv in Et; destruct Et as (-> & Hn); destruct ob; try discriminate H;
    eexists; eexists; split; [reflexivity|]; split; [exact Hn|reflexivity]
  end.

Lemma method_recv e cls name key this slots extra h v h' :
  In cls ip_classes -> class_method cls name key ->
  exec e key this slots extra h = Some (Ok (v, h')) ->
  exists a o, this = Some a /\ nth_error h a = Some o /\ obj_class o = cls.
Proof.
  intros Hc (ms & Hms & Hin) H. cbn [In ip_classes] in Hc.
  destruct Hc as [<-|[<-|[<-|[<-|[<-|[<-|[<-|[<-|[]]]]]]]]];
    vm_compute in Hms; apply Some_inj in Hms; subst ms; cbn [In] in Hin;
    repeat (destruct Hin as [Hin|Hin]; [apply pair_equal_spec in Hin; destruct Hin as [<- <-]|]); try contradiction Hin;
    recv_case H.
Qed.

Lemma ip_plan_method a o key name slots h :
  nth_error h a = Some o -> strip_prefix (obj_class o ++ ".") key = Some name ->
  ip_plan key (Some a) slots h = method_plan o name slots.
Proof. intros H1 H2. unfold ip_plan. rewrite H1, H2. reflexivity. Qed.

(* ------------------------------------------------------------------ one lemma per class *)
Section Cases.
Variables (e : env) (name key : string) (this : option nat) (slots extra : list val) (h : heap) (v : val) (h' : heap).
Hypothesis Hr : recv_wf this h.
Hypothesis Hfit : ip_fits key this slots extra h.
Hypothesis H : exec e key this slots extra h = Some (Ok (v, h')).

Lemma tcp_case : class_method tcp_class name key -> In name tcp_pkt_names ->
  strip_prefix "ipv4::tcp::TcpFlow." key = Some name -> ip_result key this slots h v.
Proof.
  intros Hcm Hpk Hsp. destruct (method_recv e (tcp_class) name key this slots extra h v h' ltac:(cbn; tauto) Hcm H) as (a & o & -> & Hn & Hc).
  destruct o; try discriminate Hc. pose proof (Hr a _ eq_refl Hn) as W. pose proof (Hfit _ Hn) as F. cbn [obj_ip_wf] in W. cbv iota in F.
  destruct Hcm as (ms & Hms & Hin).
  destruct (tcp_ip_method e ms name key slots extra h a f v h' Hms Hin F Hn W H) as (f' & _ & _ & R).
  destruct (R Hpk) as (pl & ps & Epl & Eps & G).
  exists (tf_raw f), (map (fun cf => tcp_want f (fst cf) (snd cf)) pl), ps.
  split; [rewrite (ip_plan_method a (OTcp f) key name slots h Hn Hsp); cbn [method_plan]; rewrite Epl; reflexivity|].
  split; [exact Eps|apply tcp_pkts_carry, G].
Qed.

Lemma udp_case : class_method udp_class name key -> In name udp_pkt_names ->
  strip_prefix "ipv4::udp::UdpFlow." key = Some name -> ip_result key this slots h v.
Proof.
  intros Hcm Hpk Hsp. destruct (method_recv e (udp_class) name key this slots extra h v h' ltac:(cbn; tauto) Hcm H) as (a & o & -> & Hn & Hc).
  destruct o; try discriminate Hc. pose proof (Hr a _ eq_refl Hn) as W. pose proof (Hfit _ Hn) as F. cbn [obj_ip_wf] in W. cbv iota in F.
  destruct Hcm as (ms & Hms & Hin).
  destruct (udp_ip_method e ms name key slots extra h a f v h' Hms Hin F Hn W H) as (_ & R).
  destruct (R Hpk) as (ws & ps & Epl & Eps & G).
  exists (uf_raw f), ws, ps.
  split; [rewrite (ip_plan_method a (OUdp f) key name slots h Hn Hsp); cbn [method_plan]; rewrite Epl; reflexivity|].
  split; assumption.
Qed.

Lemma icmp_case : class_method icmp_class name key ->
  strip_prefix "ipv4::icmp::Icmp." key = Some name -> ip_result key this slots h v.
Proof.
  intros Hcm Hsp. destruct (method_recv e (icmp_class) name key this slots extra h v h' ltac:(cbn; tauto) Hcm H) as (a & o & -> & Hn & Hc).
  destruct o; try discriminate Hc. pose proof (Hr a _ eq_refl Hn) as W. pose proof (Hfit _ Hn) as F. cbn [obj_ip_wf] in W. cbv iota in F.
  destruct Hcm as (ms & Hms & Hin).
  destruct (icmp_ip_method e ms name key slots extra h a f v h' Hms Hin F Hn W H) as (f' & _ & _ & ws & ps & Epl & Eps & G).
  exists (if_raw f), ws, ps.
  split; [rewrite (ip_plan_method a (OIcmp f) key name slots h Hn Hsp); cbn [method_plan]; rewrite Epl; reflexivity|].
  split; assumption.
Qed.

Lemma frag_case : class_method frag_class name key ->
  strip_prefix "ipv4::IpFrag." key = Some name -> ip_result key this slots h v.
Proof.
  intros Hcm Hsp. destruct (method_recv e (frag_class) name key this slots extra h v h' ltac:(cbn; tauto) Hcm H) as (a & o & -> & Hn & Hc).
  destruct o; try discriminate Hc. pose proof (Hr a _ eq_refl Hn) as W. pose proof (Hfit _ Hn) as F. cbn [obj_ip_wf] in W. cbv iota in F.
  destruct Hcm as (ms & Hms & Hin).
  destruct (frag_ip_method e ms name key slots extra h a f v h' Hms Hin Hn W (fun q => F name q Hsp) H) as (_ & q & p & Eq & -> & G).
  exists (snd q), [req_want f (fst q)], [p].
  split; [rewrite (ip_plan_method a (OFrag f) key name slots h Hn Hsp); cbn [method_plan]; rewrite Eq; reflexivity|].
  split; [reflexivity|]. constructor; [exact G|constructor].
Qed.

Lemma vxlan_case : class_method "vxlan::Vxlan"%string name key ->
  strip_prefix "vxlan::Vxlan." key = Some name -> ip_result key this slots h v.
Proof.
  intros Hcm Hsp. destruct (method_recv e ("vxlan::Vxlan"%string) name key this slots extra h v h' ltac:(cbn; tauto) Hcm H) as (a & o & -> & Hn & Hc).
  destruct o; try discriminate Hc. pose proof (Hr a _ eq_refl Hn) as W. pose proof (Hfit _ Hn) as F. cbn [obj_ip_wf] in W. cbv iota in F.
  destruct Hcm as (ms & Hms & Hin).
  destruct (vxlan_ip_method e ms name key slots extra h a f v h' Hms Hin F Hn W H) as (_ & ps & out & Ep & Eo & G).
  exists (vx_raw f), (same_want (vxlan_want f) ps), out.
  split; [rewrite (ip_plan_method a (OVxlan f) key name slots h Hn Hsp); cbn [method_plan]; rewrite Ep; reflexivity|].
  split; assumption.
Qed.

Lemma gre_case : class_method "gre::Gre"%string name key ->
  strip_prefix "gre::Gre." key = Some name -> ip_result key this slots h v.
Proof.
  intros Hcm Hsp. destruct (method_recv e ("gre::Gre"%string) name key this slots extra h v h' ltac:(cbn; tauto) Hcm H) as (a & o & -> & Hn & Hc).
  destruct o; try discriminate Hc. pose proof (Hr a _ eq_refl Hn) as W. pose proof (Hfit _ Hn) as F. cbn [obj_ip_wf] in W. cbv iota in F.
  destruct Hcm as (ms & Hms & Hin).
  destruct (gre_ip_method e ms name key slots extra h a f v h' Hms Hin F Hn W H) as (f' & _ & _ & ps & out & Ep & Eo & G).
  exists (gl_raw f), (same_want (gre_want f) ps), out.
  split; [rewrite (ip_plan_method a (OGre f) key name slots h Hn Hsp); cbn [method_plan]; rewrite Ep; reflexivity|].
  split; assumption.
Qed.

Lemma erspan1_case : class_method "erspan1::Erspan1"%string name key ->
  strip_prefix "erspan1::Erspan1." key = Some name -> ip_result key this slots h v.
Proof.
  intros Hcm Hsp. destruct (method_recv e ("erspan1::Erspan1"%string) name key this slots extra h v h' ltac:(cbn; tauto) Hcm H) as (a & o & -> & Hn & Hc).
  destruct o; try discriminate Hc. pose proof (Hr a _ eq_refl Hn) as W. pose proof (Hfit _ Hn) as F. cbn [obj_ip_wf] in W. cbv iota in F.
  destruct Hcm as (ms & Hms & Hin).
  destruct (erspan1_ip_method e ms name key slots extra h a f v h' Hms Hin F Hn W H) as (_ & ps & out & Ep & Eo & G).
  exists (e1_raw f), (same_want (erspan1_want f) ps), out.
  split; [rewrite (ip_plan_method a (OErspan1 f) key name slots h Hn Hsp); cbn [method_plan]; rewrite Ep; reflexivity|].
  split; assumption.
Qed.

Lemma erspan2_case : class_method "erspan2::Erspan2"%string name key ->
  strip_prefix "erspan2::Erspan2." key = Some name -> ip_result key this slots h v.
Proof.
  intros Hcm Hsp. destruct (method_recv e ("erspan2::Erspan2"%string) name key this slots extra h v h' ltac:(cbn; tauto) Hcm H) as (a & o & -> & Hn & Hc).
  destruct o; try discriminate Hc. pose proof (Hr a _ eq_refl Hn) as W. pose proof (Hfit _ Hn) as F. cbn [obj_ip_wf] in W. cbv iota in F.
  destruct Hcm as (ms & Hms & Hin).
  destruct (erspan2_ip_method e ms name key slots extra h a f v h' Hms Hin F Hn W H) as (f' & _ & _ & ps & out & Ep & Eo & G).
  exists (e2_raw f), (same_want (erspan2_want f) ps), out.
  split; [rewrite (ip_plan_method a (OErspan2 f) key name slots h Hn Hsp); cbn [method_plan]; rewrite Ep; reflexivity|].
  split; assumption.
Qed.
End Cases.

(** a function key is called without a receiver *)
Lemma function_no_this e key this slots extra h r f :
  assoc key (functions e) = Some f -> exec e key this slots extra h = Some (Ok r) -> this = None.
Proof.
  intros Hk H. unfold exec in H. rewrite Hk in H. destruct this as [a|]; [|reflexivity].
  apply Some_inj in H. discriminate H.
Qed.

Ltac cm := eexists; split; [vm_compute; reflexivity|cbn [In]; tauto].

Ltac fn_case thm :=
  match goal with
  | Ha : Forall addr_val_ok ?slots, Hfit : ip_fits ?key ?this ?slots ?extra ?h,
    H : exec ?e ?key ?this ?slots ?extra ?h = Some (Ok (?v, ?h')) |- _ =>
    let Hn := fresh "Hn" in
    assert (Hn : this = None) by (eapply function_no_this; [|exact H]; lazy [assoc functions String.eqb Ascii.eqb Bool.eqb]; reflexivity);
    subst this; cbn [ip_fits String.eqb Ascii.eqb Bool.eqb] in Hfit;
    destruct (thm e slots extra h v h' Ha Hfit H) as (_ & raw & ws & ps & Ep & Ev & G);
    exists raw, ws, ps; split; [unfold ip_plan; cbn [String.eqb Ascii.eqb Bool.eqb]; rewrite Ep; reflexivity|];
    split; assumption
  end.

(** EVERY packet-returning key of the catalogue but eth::frame *)
Theorem lib_ip_all e key this slots extra h v h' :
  In key pkt_keys ->
  Forall addr_val_ok slots -> recv_wf this h -> ip_fits key this slots extra h ->
  exec e key this slots extra h = Some (Ok (v, h')) ->
  ip_result key this slots h v.
Proof.
  intros Hin Ha Hr Hfit H.
  let l := eval vm_compute in pkt_keys in change pkt_keys with l in Hin.
  cbn [In] in Hin.
  repeat (destruct Hin as [<-|Hin]); [..|contradiction Hin].
  - eapply (frag_case e "fragment"); try eassumption; [cm|reflexivity].
  - eapply (frag_case e "tail"); try eassumption; [cm|reflexivity].
  - eapply (frag_case e "datagram"); try eassumption; [cm|reflexivity].
  - eapply (tcp_case e "open"); try eassumption; [cm|cbn; tauto|reflexivity].
  - eapply (tcp_case e "client_message"); try eassumption; [cm|cbn; tauto|reflexivity].
  - eapply (tcp_case e "server_message"); try eassumption; [cm|cbn; tauto|reflexivity].
  - eapply (tcp_case e "client_segment"); try eassumption; [cm|cbn; tauto|reflexivity].
  - eapply (tcp_case e "server_segment"); try eassumption; [cm|cbn; tauto|reflexivity].
  - eapply (tcp_case e "client_ack"); try eassumption; [cm|cbn; tauto|reflexivity].
  - eapply (tcp_case e "server_ack"); try eassumption; [cm|cbn; tauto|reflexivity].
  - eapply (tcp_case e "client_close"); try eassumption; [cm|cbn; tauto|reflexivity].
  - eapply (tcp_case e "server_close"); try eassumption; [cm|cbn; tauto|reflexivity].
  - eapply (tcp_case e "client_reset"); try eassumption; [cm|cbn; tauto|reflexivity].
  - eapply (tcp_case e "server_reset"); try eassumption; [cm|cbn; tauto|reflexivity].
  - eapply (udp_case e "client_dgram"); try eassumption; [cm|cbn; tauto|reflexivity].
  - eapply (udp_case e "server_dgram"); try eassumption; [cm|cbn; tauto|reflexivity].
  - fn_case broadcast_ip.
  - fn_case unicast_ip.
  - eapply (icmp_case e "echo"); try eassumption; [cm|reflexivity].
  - eapply (icmp_case e "echo_reply"); try eassumption; [cm|reflexivity].
  - match goal with
    | Hfit : ip_fits ?key ?this ?slots ?extra ?h, H : exec ?e ?key ?this ?slots ?extra ?h = Some (Ok (?v, ?h')) |- _ =>
      assert (Hn : this = None) by (eapply function_no_this; [|exact H]; lazy [assoc functions String.eqb Ascii.eqb Bool.eqb]; reflexivity);
      subst this; cbn [ip_fits String.eqb Ascii.eqb Bool.eqb] in Hfit;
      destruct (datagram_ip e slots extra h v h' Ha Hfit H) as (_ & w & p & Ep & -> & G);
      exists false, [w], [p]; split; [unfold ip_plan; cbn [String.eqb Ascii.eqb Bool.eqb]; rewrite Ep; reflexivity|];
      split; [reflexivity|]; constructor; [exact G|constructor]
    end.
  - fn_case dns_host_ip.
  - eapply (vxlan_case e "dgram"); try eassumption; [cm|reflexivity].
  - eapply (vxlan_case e "encap"); try eassumption; [cm|reflexivity].
  - eapply (gre_case e "encap"); try eassumption; [cm|reflexivity].
  - eapply (erspan1_case e "encap"); try eassumption; [cm|reflexivity].
  - eapply (erspan2_case e "encap"); try eassumption; [cm|reflexivity].
Qed.

(* ------------------------------------------------------------------ the constructors establish the receiver premise *)
Definition ctor_keys : list string :=
  ["ipv4::tcp::flow"; "ipv4::udp::flow"; "ipv4::icmp::flow"; "ipv4::frag"; "vxlan::session"; "gre::session";
   "erspan1::session"; "erspan2::session"]%string.

Ltac ctor_done :=
  match goal with H : Ok (alloc _ _) = Ok _ |- _ => revert H; unfold alloc; intros H; ok_inv H end;
  eexists; split; [reflexivity|]; split; [reflexivity|]; cbn [obj_ip_wf].

(** every object made by a constructor from 32-bit addresses / 16-bit ports is a well-formed receiver *)
Theorem created_wf e key slots extra h v h' :
  In key ctor_keys -> Forall addr_val_ok slots ->
  exec e key None slots extra h = Some (Ok (v, h')) ->
  exists o, v = VObj (length h) /\ h' = (h ++ [o])%list /\ obj_ip_wf o.
Proof.
  intros Hk Ha H. cbn [In ctor_keys] in Hk.
  destruct Hk as [<-|[<-|[<-|[<-|[<-|[<-|[<-|[<-|[]]]]]]]]].
  - exec_unfold_in H. apply Some_inj in H. revert H. unfold tcp_flow_new. intros H.
    destruct slots as [|s1 [|s2 [|s3 [|s4 [|s5 [|? ?]]]]]]; try (exfalso; exact (bad_args_not_ok' _ H)).
    split_addr. binv H. ctor_done.
    match goal with Ec : conv_sock s1 = Ok _, Ed : conv_sock s2 = Ok _ |- _ =>
      split; [exact (conv_sock_wf _ _ A Ec)|exact (conv_sock_wf _ _ A0 Ed)] end.
  - exec_unfold_in H. apply Some_inj in H. revert H. unfold udp_flow_new. intros H.
    destruct slots as [|s1 [|s2 [|s3 [|? ?]]]]; try (exfalso; exact (bad_args_not_ok' _ H)).
    split_addr. binv H. ctor_done.
    match goal with Ec : conv_sock s1 = Ok _, Ed : conv_sock s2 = Ok _ |- _ =>
      split; [exact (conv_sock_wf _ _ A Ec)|exact (conv_sock_wf _ _ A0 Ed)] end.
  - exec_unfold_in H. apply Some_inj in H. revert H. unfold icmp_flow_fn. intros H.
    destruct slots as [|s1 [|s2 [|s3 [|? ?]]]]; try (exfalso; exact (bad_args_not_ok' _ H)).
    split_addr. binv H. ctor_done.
    match goal with Ec : conv_ip4 s1 = Ok _, Ed : conv_ip4 s2 = Ok _ |- _ =>
      split; [exact (conv_ip4_ok _ _ A Ec)|exact (conv_ip4_ok _ _ A0 Ed)] end.
  - destruct (frag_created e slots extra h v h' H) as (src & dst & id & evil & df & ttl & proto & bs & E1 & E2 & _ & _ & _ & _ & _ & _ & K).
    cbv zeta in K. destruct K as (-> & -> & K).
    destruct slots as [|s1 [|s2 ?]]; try discriminate E1; try discriminate E2. cbn [nth] in E1, E2. split_addr.
    eexists. split; [reflexivity|]. split; [reflexivity|]. cbn [obj_ip_wf].
    exact (proj1 (K (conv_ip4_ok _ _ A E1) (conv_ip4_ok _ _ A0 E2))).
  - exec_unfold_in H. apply Some_inj in H. revert H. unfold vxlan_session_fn. intros H.
    destruct slots as [|s1 [|s2 [|s3 [|s4 [|? ?]]]]]; try (exfalso; exact (bad_args_not_ok' _ H)).
    split_addr. binv H. ctor_done.
    match goal with Ec : conv_sock s1 = Ok _, Ed : conv_sock s2 = Ok _ |- _ =>
      split; [exact (conv_sock_wf _ _ A Ec)|exact (conv_sock_wf _ _ A0 Ed)] end.
  - exec_unfold_in H. apply Some_inj in H. revert H. unfold gre_session_fn. intros H.
    destruct slots as [|s1 [|s2 [|s3 [|s4 [|? ?]]]]]; try (exfalso; exact (bad_args_not_ok' _ H)).
    split_addr. binv H. ctor_done.
    match goal with Ec : conv_ip4 s1 = Ok _, Ed : conv_ip4 s2 = Ok _ |- _ =>
      split; [exact (conv_ip4_ok _ _ A Ec)|exact (conv_ip4_ok _ _ A0 Ed)] end.
  - exec_unfold_in H. apply Some_inj in H. revert H. unfold erspan1_session_fn. intros H.
    destruct slots as [|s1 [|s2 [|s3 [|? ?]]]]; try (exfalso; exact (bad_args_not_ok' _ H)).
    split_addr. binv H. ctor_done.
    match goal with Ec : conv_ip4 s1 = Ok _, Ed : conv_ip4 s2 = Ok _ |- _ =>
      split; [exact (conv_ip4_ok _ _ A Ec)|exact (conv_ip4_ok _ _ A0 Ed)] end.
  - exec_unfold_in H. apply Some_inj in H. revert H. unfold erspan2_session_fn. intros H.
    destruct slots as [|s1 [|s2 [|s3 [|? ?]]]]; try (exfalso; exact (bad_args_not_ok' _ H)).
    split_addr. binv H. ctor_done.
    match goal with Ec : conv_ip4 s1 = Ok _, Ed : conv_ip4 s2 = Ok _ |- _ =>
      split; [exact (conv_ip4_ok _ _ A Ec)|exact (conv_ip4_ok _ _ A0 Ed)] end.
Qed.
