(** C17, socket addresses: ADDR:PORT in the parser and ADDR/PORT in the interpreter build exactly the
    pair written, and a port that does not fit in 16 bits is rejected, never truncated. *)
From RS Require Import Base.Bytes Base.Outcome Lex.Tokens Lex.Literals Bind.Types Interp.Val Interp.Ast Interp.Eval
  Parse.Verdict Parse.Automaton Spec.Literal Proofs.Tactics Proofs.C17.Ints Proofs.C17.Quad.
From Coq Require Import ZArith Lia ZifyBool ZifyNat ZifyN.
Ltac Zify.zify_post_hook ::= Z.div_mod_to_equations.
Open Scope N_scope.

(* ------------------------------------------------------------------ the state after ADDR ':' *)

Theorem sock_colon_exact p l ds : dec_digits_ok ds = true -> ds <> [] ->
  state_ipv4_colon p {| tk_type := TIntLit; tk_loc := l; tk_val := Some (spell_dec ds) |}
  = if dec_value_of ds <=? 65535
    then Ok (push (NLoc l) p, AShift StReduceSockAddr (NLiteral (VU64 (dec_value_of ds))))
    else Err EParse.
Proof.
  intros Hok Hne. unfold state_ipv4_colon. cbn [tk_type tk_loc]. rewrite (int_token_exact l ds Hok Hne).
  destruct (N.ltb_spec (dec_value_of ds) two64) as [Hlt|Hge]; cbn [obind].
  - destruct (dec_value_of ds <=? 65535); reflexivity.
  - destruct (N.leb_spec (dec_value_of ds) 65535) as [Hle|_]; [unfold two64 in Hge; lia|reflexivity].
Qed.

(** whatever follows the colon, the outcome is a port that fits or a parse error *)
Theorem sock_colon_only p t q act : state_ipv4_colon p t = Ok (q, act) ->
  exists s pt, tk_type t = TIntLit /\ tk_val t = Some s /\ parse_u64_dec s = Some pt /\ pt <= 65535
               /\ q = push (NLoc (tk_loc t)) p /\ act = AShift StReduceSockAddr (NLiteral (VU64 pt)).
Proof.
  unfold state_ipv4_colon, parse_error. destruct (tk_type t) eqn:Ety; try discriminate.
  unfold val_of_token. rewrite Ety. destruct (tk_val t) as [s|]; [|discriminate].
  destruct (parse_u64_dec s) as [pt|] eqn:Ep; [|discriminate]. cbn [obind].
  destruct (N.leb_spec pt 65535) as [Hle|_]; [|discriminate].
  intros E. ok_inv E. exists s, pt. repeat split; try reflexivity; assumption.
Qed.

Theorem sock_colon_rejects_other p t : tk_type t <> TIntLit -> state_ipv4_colon p t = Err EParse.
Proof. intros H. unfold state_ipv4_colon, parse_error. destruct (tk_type t); try reflexivity. congruence. Qed.

(* ------------------------------------------------------------------ the reduction *)

Lemma wrap16_small pt : pt <= 65535 -> wrap16 pt = pt.
Proof. intros H. unfold wrap16. apply N.mod_small. lia. Qed.

(** reduce_sockaddr pops the port, one node it ignores (the port's location), the address and the
    node below it (the address's location), and pushes that node back under the pair *)
Theorem reduce_sockaddr_exact p a pt ign below rest : pt <= 65535 ->
  p_stack p = NLiteral (VU64 pt) :: ign :: NLiteral (VIp4 a) :: below :: rest ->
  reduce_sockaddr p
  = Ok {| p_state := p_state p; p_stack := NLiteral (VSock4 a pt) :: below :: rest; p_stmts := p_stmts p |}.
Proof.
  intros Hpt Hst. unfold reduce_sockaddr, pop. rewrite Hst. cbn [obind p_stack p_state p_stmts node_ipv4 node_u16 push].
  rewrite (wrap16_small pt Hpt). reflexivity.
Qed.

Theorem state_reduce_sockaddr_exact p t a pt ign below rest : pt <= 65535 ->
  p_stack p = NLiteral (VU64 pt) :: ign :: NLiteral (VIp4 a) :: below :: rest ->
  state_reduce_sockaddr p t
  = Ok ({| p_state := p_state p; p_stack := NLiteral (VSock4 a pt) :: below :: rest; p_stmts := p_stmts p |},
        AGoto StReduceLiteralExpr).
Proof.
  intros Hpt Hst. unfold state_reduce_sockaddr. rewrite (reduce_sockaddr_exact p a pt ign below rest Hpt Hst).
  reflexivity.
Qed.

(* ------------------------------------------------------------------ whole statement: let NAME = A:P; *)

Definition tok (ty : toktype) (l : loc) (v : option bytes) : token := {| tk_type := ty; tk_loc := l; tk_val := v |}.

(** the tokens of [let NAME = W.X.Y.Z:PORT;] followed by end of input, at arbitrary positions *)
Definition sock_stmt_tokens (l0 l1 l2 l3 l4 l5 l6 : loc) (name : bytes) (w x y z : N) (ds : list N) : list token :=
  [ tok TLet l0 None; tok TIdent l1 (Some name); tok TEquals l2 None;
    tok TIPv4Lit l3 (Some (spell_quad w x y z)); tok TColon l4 None; tok TIntLit l5 (Some (spell_dec ds));
    tok TSemiColon l6 None; eof_token ].

(** the automaton up to and including the colon *)
Lemma sock_prefix l0 l1 l2 l3 l4 name w x y z r :
  w <= 255 -> x <= 255 -> y <= 255 -> z <= 255 ->
  run_tokens
    (tok TLet l0 None :: tok TIdent l1 (Some name) :: tok TEquals l2 None ::
     tok TIPv4Lit l3 (Some (spell_quad w x y z)) :: tok TColon l4 None :: r)
  = run_from {| p_state := StIPv4Colon;
                p_stack := [NLiteral (VIp4 (quad_value w x y z)); NLoc l3; NState StAssignStmtEnd;
                            NAssignTo (string_of_bytes name); NLoc l1];
                p_stmts := [] |} r 5.
Proof.
  intros Hw Hx Hy Hz. unfold run_tokens, tok.
  cbn -[val_of_token spell_quad].
  rewrite (ip_token_exact l3 w x y z Hw Hx Hy Hz).
  cbn -[val_of_token spell_quad spell_dec].
  reflexivity.
Qed.

Theorem sock_literal_exact l0 l1 l2 l3 l4 l5 l6 name w x y z ds :
  w <= 255 -> x <= 255 -> y <= 255 -> z <= 255 -> dec_digits_ok ds = true -> ds <> [] ->
  dec_value_of ds <= 65535 ->
  run_tokens (sock_stmt_tokens l0 l1 l2 l3 l4 l5 l6 name w x y z ds)
  = VAccept [SAssign l1 (string_of_bytes name) (ELit l3 (VSock4 (quad_value w x y z) (dec_value_of ds)))].
Proof.
  intros Hw Hx Hy Hz Hok Hne Hport. unfold sock_stmt_tokens.
  rewrite (sock_prefix l0 l1 l2 l3 l4 name w x y z _ Hw Hx Hy Hz). unfold tok.
  cbn -[val_of_token spell_quad spell_dec].
  rewrite (int_token_exact l5 ds Hok Hne).
  destruct (N.ltb_spec (dec_value_of ds) two64) as [_|Hge]; [|unfold two64 in Hge; lia].
  cbn -[val_of_token spell_quad spell_dec].
  destruct (N.leb_spec (dec_value_of ds) 65535) as [_|Hgt]; [|lia].
  lazy -[wrap16 quad_value dec_value_of string_of_bytes].
  rewrite (wrap16_small _ Hport). reflexivity.
Qed.

Theorem sock_literal_rejects l0 l1 l2 l3 l4 l5 l6 name w x y z ds :
  w <= 255 -> x <= 255 -> y <= 255 -> z <= 255 -> dec_digits_ok ds = true -> ds <> [] ->
  65535 < dec_value_of ds ->
  run_tokens (sock_stmt_tokens l0 l1 l2 l3 l4 l5 l6 name w x y z ds) = VReject 5.
Proof.
  intros Hw Hx Hy Hz Hok Hne Hport. unfold sock_stmt_tokens.
  rewrite (sock_prefix l0 l1 l2 l3 l4 name w x y z _ Hw Hx Hy Hz). unfold tok.
  cbn [run_from]. unfold feed, feed_fuel. cbn [p_stack length Nat.mul Nat.add feed_loop dispatch p_state].
  rewrite (sock_colon_exact _ l5 ds Hok Hne).
  destruct (N.leb_spec (dec_value_of ds) 65535) as [Hle|_]; [lia|]. reflexivity.
Qed.

(* ------------------------------------------------------------------ anywhere an expression may start *)

Lemma feed_fuel_S p : feed_fuel p = S (2 * length (p_stack p) + 7).
Proof. unfold feed_fuel. lia. Qed.

(** from any parser that expects an expression (right-hand side, call argument, operand of '/'),
    the three tokens ADDR ':' PORT leave address and port on the stack, or are rejected at PORT *)
Theorem sock_feed_exact p l3 l4 l5 w x y z ds :
  p_state p = StExpr -> w <= 255 -> x <= 255 -> y <= 255 -> z <= 255 -> dec_digits_ok ds = true -> ds <> [] ->
  feed_all p [tok TIPv4Lit l3 (Some (spell_quad w x y z)); tok TColon l4 None; tok TIntLit l5 (Some (spell_dec ds))]
  = if dec_value_of ds <=? 65535
    then Ok {| p_state := StReduceSockAddr;
               p_stack := NLiteral (VU64 (dec_value_of ds)) :: NLoc l5
                          :: NLiteral (VIp4 (quad_value w x y z)) :: NLoc l3 :: p_stack p;
               p_stmts := p_stmts p |}
    else Err EParse.
Proof.
  intros Hst Hw Hx Hy Hz Hok Hne. destruct p as [st stk ss]. cbn [p_state] in Hst. subst st.
  unfold feed_all, tok. cbn [fold_left obind].
  assert (E1 : feed {| p_state := StExpr; p_stack := stk; p_stmts := ss |}
                 {| tk_type := TIPv4Lit; tk_loc := l3; tk_val := Some (spell_quad w x y z) |}
               = Ok {| p_state := StIPv4; p_stack := NLiteral (VIp4 (quad_value w x y z)) :: NLoc l3 :: stk;
                       p_stmts := ss |}).
  { unfold feed. rewrite feed_fuel_S.
    cbn [feed_loop dispatch p_state state_expr tk_type push_literal tk_loc].
    rewrite (ip_token_exact l3 w x y z Hw Hx Hy Hz). reflexivity. }
  rewrite E1. cbn [obind].
  assert (E2 : feed {| p_state := StIPv4; p_stack := NLiteral (VIp4 (quad_value w x y z)) :: NLoc l3 :: stk;
                       p_stmts := ss |} {| tk_type := TColon; tk_loc := l4; tk_val := None |}
               = Ok {| p_state := StIPv4Colon; p_stack := NLiteral (VIp4 (quad_value w x y z)) :: NLoc l3 :: stk;
                       p_stmts := ss |}).
  { unfold feed. rewrite feed_fuel_S. reflexivity. }
  rewrite E2. cbn [obind].
  unfold feed. rewrite feed_fuel_S.
  cbn [feed_loop dispatch p_state].
  rewrite (sock_colon_exact _ l5 ds Hok Hne).
  destruct (dec_value_of ds <=? 65535); reflexivity.
Qed.

(** ... and the next token, whatever it is, first turns them into the socket-address literal *)
Theorem sock_reduce_step p t a pt l5 l3 rest : pt <= 65535 ->
  p_state p = StReduceSockAddr ->
  p_stack p = NLiteral (VU64 pt) :: NLoc l5 :: NLiteral (VIp4 a) :: NLoc l3 :: rest ->
  dispatch p t
  = Ok ({| p_state := StReduceSockAddr; p_stack := NLiteral (VSock4 a pt) :: NLoc l3 :: rest; p_stmts := p_stmts p |},
        AGoto StReduceLiteralExpr)
  /\ dispatch {| p_state := StReduceLiteralExpr; p_stack := NLiteral (VSock4 a pt) :: NLoc l3 :: rest;
                 p_stmts := p_stmts p |} t
     = Ok ({| p_state := StReduceLiteralExpr; p_stack := NExpr (ELit l3 (VSock4 a pt)) :: rest; p_stmts := p_stmts p |},
           AGoto StSlash).
Proof.
  intros Hpt Hst Hstk. split.
  - unfold dispatch. rewrite Hst. rewrite (state_reduce_sockaddr_exact p t a pt _ _ rest Hpt Hstk). rewrite Hst. reflexivity.
  - reflexivity.
Qed.

(* ------------------------------------------------------------------ the '/' operator *)

Lemma conv_int_integral vb n : conv_int vb = Ok n -> is_integral (val_type vb) = true.
Proof. destruct vb; cbn [conv_int]; intros H; try discriminate; reflexivity. Qed.

Theorem sock_slash_exact functions classes modules exec p a b ip vb n p1 p2 :
  eval functions classes modules exec p a = ROk (VIp4 ip) p1 ->
  eval functions classes modules exec p1 b = ROk vb p2 ->
  conv_int vb = Ok n ->
  eval functions classes modules exec p (ESlash a b)
  = if 65535 <? n then RErr EType (set_loc p2 (p_loc p1)) else ROk (VSock4 ip n) (set_loc p2 (p_loc p1)).
Proof.
  intros Ha Hb Hn. cbn [eval]. rewrite Ha. cbn [rbind val_type vtype_eqb negb].
  rewrite Hb. cbn [rbind]. rewrite (conv_int_integral vb n Hn). cbn [negb conv_ip4 lift rbind].
  rewrite Hn. cbn [lift rbind]. reflexivity.
Qed.

(** a right operand that is not an integer is a type error, never a conversion *)
Theorem sock_slash_rejects_nonint functions classes modules exec p a b ip vb p1 p2 :
  eval functions classes modules exec p a = ROk (VIp4 ip) p1 ->
  eval functions classes modules exec p1 b = ROk vb p2 ->
  is_integral (val_type vb) = false ->
  eval functions classes modules exec p (ESlash a b) = RErr EType p2.
Proof.
  intros Ha Hb Hn. cbn [eval]. rewrite Ha. cbn [rbind val_type vtype_eqb negb].
  rewrite Hb. cbn [rbind]. rewrite Hn. reflexivity.
Qed.

Theorem sock_slash_literals functions classes modules exec p l1 l2 ip n :
  eval functions classes modules exec p (ESlash (ELit l1 (VIp4 ip)) (ELit l2 (VU64 n)))
  = if 65535 <? n then RErr EType (set_loc (set_loc (set_loc p l1) l2) l1)
    else ROk (VSock4 ip n) (set_loc (set_loc (set_loc p l1) l2) l1).
Proof.
  rewrite (sock_slash_exact functions classes modules exec p (ELit l1 (VIp4 ip)) (ELit l2 (VU64 n)) ip (VU64 n) n
             (set_loc p l1) (set_loc (set_loc p l1) l2) eq_refl eq_refl eq_refl).
  reflexivity.
Qed.

