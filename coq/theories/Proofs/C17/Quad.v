(** C17, dotted quads and booleans: Ipv4Addr::from_str / bool::from_str as modelled in Lex/Literals.v
    accept exactly the canonical spellings and return the value written. *)
From RS Require Import Base.Bytes Base.Outcome Lex.Tokens Lex.Literals Interp.Val Spec.Literal Proofs.Tactics
  Proofs.C17.Ints.
From Coq Require Import ZArith Lia ZifyBool ZifyNat ZifyN.
Ltac Zify.zify_post_hook ::= Z.div_mod_to_equations.
Open Scope N_scope.

(* ------------------------------------------------------------------ split_on and join *)

Definition sep_free (sep : N) (p : bytes) : Prop := Forall (fun c => c <> sep) p.

Lemma sep_free_notin sep p : sep_free sep p <-> ~ In sep p.
Proof.
  unfold sep_free. rewrite Forall_forall. split.
  - intros H Hin. exact (H sep Hin eq_refl).
  - intros H c Hin ->. exact (H Hin).
Qed.

Lemma split_on_nonempty sep l : forall cur, split_on sep l cur <> [].
Proof.
  induction l as [|c r IH]; intros cur; cbn [split_on]; [discriminate|].
  destruct (c =? sep); [discriminate|apply IH].
Qed.

(** a separator-free prefix goes into the current part *)
Lemma split_on_part sep p : sep_free sep p -> forall rest cur,
  split_on sep (p ++ rest) cur = split_on sep rest (rev p ++ cur).
Proof.
  induction p as [|c p IH]; intros Hf rest cur; [reflexivity|].
  inversion Hf as [|c' p' Hc Hp]; subst. cbn [app split_on].
  destruct (N.eqb_spec c sep) as [E|_]; [contradiction|].
  rewrite (IH Hp). cbn [rev]. rewrite <- app_assoc. reflexivity.
Qed.

Lemma split_on_last sep p cur : sep_free sep p -> split_on sep p cur = [rev cur ++ p].
Proof.
  intros Hf. rewrite <- (app_nil_r p) at 1. rewrite (split_on_part sep p Hf). cbn [split_on].
  rewrite rev_app_distr, rev_involutive. reflexivity.
Qed.

Lemma split_on_next sep p rest cur : sep_free sep p ->
  split_on sep (p ++ sep :: rest) cur = (rev cur ++ p) :: split_on sep rest [].
Proof.
  intros Hf. rewrite (split_on_part sep p Hf). cbn [split_on]. rewrite N.eqb_refl.
  rewrite rev_app_distr, rev_involutive. reflexivity.
Qed.

(** the accumulator is just a prefix of the first part *)
Lemma split_on_cur sep l : forall cur, exists hd tl,
  split_on sep l [] = hd :: tl /\ split_on sep l cur = (rev cur ++ hd) :: tl.
Proof.
  induction l as [|c r IH]; intros cur; cbn [split_on].
  - exists [], []. rewrite app_nil_r. split; reflexivity.
  - destruct (c =? sep).
    + exists [], (split_on sep r []). rewrite app_nil_r. split; reflexivity.
    + destruct (IH [c]) as (hd & tl & E0 & E1). destruct (IH (c :: cur)) as (hd' & tl' & E0' & E1').
      rewrite E0 in E0'. injection E0' as <- <-.
      exists (c :: hd), tl. split; [exact E1|]. rewrite E1'. cbn [rev]. rewrite <- app_assoc. reflexivity.
Qed.

Theorem split_join sep parts : parts <> [] -> Forall (sep_free sep) parts ->
  split_on sep (join [sep] parts) [] = parts.
Proof.
  induction parts as [|x parts IH]; intros Hne Hf; [congruence|].
  inversion Hf as [|x' ps' Hx Hps]; subst.
  destruct parts as [|y r].
  - cbn [join]. rewrite (split_on_last sep x [] Hx). reflexivity.
  - change (join [sep] (x :: y :: r)) with (x ++ sep :: join [sep] (y :: r)).
    rewrite (split_on_next sep x _ [] Hx). cbn [rev app]. f_equal. apply IH; [discriminate|exact Hps].
Qed.

Theorem join_split sep l : forall cur, sep_free sep cur ->
  join [sep] (split_on sep l cur) = rev cur ++ l /\ Forall (sep_free sep) (split_on sep l cur).
Proof.
  induction l as [|c r IH]; intros cur Hcur; cbn [split_on].
  - cbn [join]. rewrite app_nil_r. split; [reflexivity|]. constructor; [|constructor].
    unfold sep_free in *. apply Forall_rev. exact Hcur.
  - destruct (N.eqb_spec c sep) as [->|Hne].
    + destruct (IH [] (Forall_nil _)) as [Hj Hf]. cbn [rev app] in Hj. split.
      * destruct (split_on sep r []) as [|y ys] eqn:E; [exfalso; exact (split_on_nonempty sep r [] E)|].
        change (join [sep] (rev cur :: y :: ys)) with (rev cur ++ sep :: join [sep] (y :: ys)).
        rewrite Hj. reflexivity.
      * constructor; [|exact Hf]. unfold sep_free in *. apply Forall_rev. exact Hcur.
    + assert (Hc : sep_free sep (c :: cur)) by (constructor; assumption).
      destruct (IH (c :: cur) Hc) as [Hj Hf]. split; [|exact Hf].
      rewrite Hj. cbn [rev]. rewrite <- app_assoc. reflexivity.
Qed.

(* ------------------------------------------------------------------ octets *)

Definition octet_digits (l : bytes) : option N :=
  if Nat.ltb 3 (length l) then None
  else match parse_digits 10 dec_value l 0 with
       | Some v => if v <=? 255 then Some v else None
       | None => None
       end.

(** the nested pattern [48 :: _] of parse_octet as a test on the first byte *)
Lemma parse_octet_eq l : parse_octet l =
  match l with
  | [] => None
  | [a] => dec_value a
  | a :: _ :: _ => if a =? 48 then None else octet_digits l
  end.
Proof.
  destruct l as [|a [|b r]]; [reflexivity| |].
  - destruct a as [|p]; [reflexivity|]. do 6 (try (destruct p as [p|p|]; try reflexivity)).
  - destruct (N.eqb_spec a 48) as [->|Hne]; [reflexivity|].
    destruct a as [|p]; [reflexivity|].
    do 6 (try (destruct p as [p|p|]; try reflexivity)). congruence.
Qed.

Theorem octet_rejects_empty : parse_octet [] = None.
Proof. reflexivity. Qed.

Theorem octet_rejects_padded c r : parse_octet (48 :: c :: r) = None.
Proof. rewrite parse_octet_eq. reflexivity. Qed.

Lemma spell_octet_cases n :
  (n < 10 /\ spell_octet n = spell_dec [n])
  \/ (10 <= n < 100 /\ spell_octet n = spell_dec [n / 10; n mod 10])
  \/ (100 <= n /\ spell_octet n = spell_dec [n / 100; (n / 10) mod 10; n mod 10]).
Proof.
  unfold spell_octet. destruct (N.ltb_spec n 10) as [H1|H1]; [left; split; [exact H1|reflexivity]|].
  destruct (N.ltb_spec n 100) as [H2|H2]; [right; left|right; right]; (split; [lia|reflexivity]).
Qed.

Theorem octet_exact n : n <= 255 -> parse_octet (spell_octet n) = Some n.
Proof.
  intros Hn. rewrite parse_octet_eq.
  destruct (spell_octet_cases n) as [[H ->]|[[H ->]|[H ->]]].
  - cbn [spell_dec map]. apply dec_value_spell. lia.
  - assert (Hok : dec_digits_ok [n / 10; n mod 10] = true) by (cbn [dec_digits_ok forallb]; lia).
    cbn [spell_dec map]. destruct (N.eqb_spec (48 + n / 10) 48) as [E|_]; [lia|].
    unfold octet_digits. cbn [length Nat.ltb Nat.leb].
    change [48 + n / 10; 48 + n mod 10] with (spell_dec [n / 10; n mod 10]).
    rewrite (dec_digits_exact _ 0 Hok two64_pos). cbn [fold_left]. cbv zeta.
    replace ((0 * 10 + n / 10) * 10 + n mod 10) with n by lia.
    destruct (N.ltb_spec n two64) as [_|Hge]; [|unfold two64 in Hge; lia].
    destruct (N.leb_spec n 255) as [_|Hgt]; [reflexivity|lia].
  - assert (Hok : dec_digits_ok [n / 100; (n / 10) mod 10; n mod 10] = true) by (cbn [dec_digits_ok forallb]; lia).
    cbn [spell_dec map]. destruct (N.eqb_spec (48 + n / 100) 48) as [E|_]; [lia|].
    unfold octet_digits. cbn [length Nat.ltb Nat.leb].
    change [48 + n / 100; 48 + (n / 10) mod 10; 48 + n mod 10] with (spell_dec [n / 100; (n / 10) mod 10; n mod 10]).
    rewrite (dec_digits_exact _ 0 Hok two64_pos). cbn [fold_left]. cbv zeta.
    replace (((0 * 10 + n / 100) * 10 + (n / 10) mod 10) * 10 + n mod 10) with n by lia.
    destruct (N.ltb_spec n two64) as [_|Hge]; [|unfold two64 in Hge; lia].
    destruct (N.leb_spec n 255) as [_|Hgt]; [reflexivity|lia].
Qed.

Theorem octet_only l v : parse_octet l = Some v -> v <= 255 /\ l = spell_octet v.
Proof.
  rewrite parse_octet_eq. destruct l as [|a [|b r]]; [discriminate| |].
  - intros H. apply dec_value_inv in H. destruct H as [-> Hv]. split; [lia|].
    unfold spell_octet. destruct (N.ltb_spec v 10); [reflexivity|lia].
  - destruct (N.eqb_spec a 48) as [->|Ha]; [discriminate|].
    unfold octet_digits. destruct (Nat.ltb 3 (length (a :: b :: r))) eqn:El; [discriminate|].
    destruct (parse_digits 10 dec_value (a :: b :: r) 0) as [v'|] eqn:Ep; [|discriminate].
    destruct (N.leb_spec v' 255) as [Hle|_]; [|discriminate]. intros H. injection H as ->.
    split; [exact Hle|].
    destruct (parse_digits_only 10 dec_value N (fun d => 48 + d) (fun d => d) (fun d => d <? 10)
                dec_value_only _ 0 v two64_pos Ep) as (ds & Hok & Hl & Hv & _).
    rewrite map_id_N in Hv.
    destruct ds as [|d1 [|d2 [|d3 [|d4 ds]]]]; cbn [map] in Hl; try discriminate.
    + injection Hl as -> -> ->. cbn [forallb] in Hok. cbn [fold_left] in Hv. unfold dstep in Hv.
      unfold spell_octet.
      destruct (N.ltb_spec v 10); [lia|]. destruct (N.ltb_spec v 100); [|lia].
      f_equal; [lia|]. f_equal. lia.
    + injection Hl as -> -> ->. cbn [forallb] in Hok. cbn [fold_left] in Hv. unfold dstep in Hv.
      unfold spell_octet.
      destruct (N.ltb_spec v 10); [lia|]. destruct (N.ltb_spec v 100); [lia|].
      f_equal; [lia|]. f_equal; [lia|]. f_equal. lia.
    + injection Hl as -> -> Hr. rewrite Hr in El. cbn in El. discriminate.
Qed.

Theorem octet_rejects_big ds : dec_digits_ok ds = true -> 255 < dec_value_of ds -> parse_octet (spell_dec ds) = None.
Proof.
  intros Hok Hbig. rewrite parse_octet_eq.
  destruct ds as [|d1 [|d2 r]].
  - cbv in Hbig. discriminate.
  - exfalso. cbn [dec_digits_ok forallb] in Hok. unfold dec_value_of in Hbig. cbn [fold_left] in Hbig. lia.
  - cbn [spell_dec map]. destruct (48 + d1 =? 48); [reflexivity|].
    unfold octet_digits. destruct (Nat.ltb 3 _); [reflexivity|].
    change (48 + d1 :: 48 + d2 :: map (fun d => 48 + d) r) with (spell_dec (d1 :: d2 :: r)).
    rewrite (dec_digits_exact _ 0 Hok two64_pos). cbv zeta. fold (dec_value_of (d1 :: d2 :: r)).
    destruct (_ <? two64); [|reflexivity].
    destruct (N.leb_spec (dec_value_of (d1 :: d2 :: r)) 255); [lia|reflexivity].
Qed.

Lemma spell_octet_sep_free n : sep_free DOT (spell_octet n).
Proof.
  unfold DOT.
  destruct (spell_octet_cases n) as [[H ->]|[[H ->]|[H ->]]]; cbn [spell_dec map];
    repeat (constructor; [lia|]); constructor.
Qed.

(* ------------------------------------------------------------------ dotted quads *)

Lemma spell_quad_join w x y z :
  spell_quad w x y z = join [DOT] [spell_octet w; spell_octet x; spell_octet y; spell_octet z].
Proof. unfold spell_quad. cbn [join app]. reflexivity. Qed.

Lemma parse_ipv4_parts p1 p2 p3 p4 :
  sep_free DOT p1 -> sep_free DOT p2 -> sep_free DOT p3 -> sep_free DOT p4 ->
  parse_ipv4 (p1 ++ DOT :: p2 ++ DOT :: p3 ++ DOT :: p4) =
  match parse_octet p1, parse_octet p2, parse_octet p3, parse_octet p4 with
  | Some a, Some b, Some c, Some d => Some (quad_value a b c d)
  | _, _, _, _ => None
  end.
Proof.
  intros H1 H2 H3 H4. unfold parse_ipv4. fold DOT.
  change (p1 ++ DOT :: p2 ++ DOT :: p3 ++ DOT :: p4) with (join [DOT] [p1; p2; p3; p4]).
  rewrite (split_join DOT [p1; p2; p3; p4]); [reflexivity|discriminate|].
  repeat (constructor; [assumption|]). constructor.
Qed.

Theorem quad_denotes w x y z : w <= 255 -> x <= 255 -> y <= 255 -> z <= 255 ->
  parse_ipv4 (spell_quad w x y z) = Some (quad_value w x y z).
Proof.
  intros Hw Hx Hy Hz. unfold spell_quad. cbn [app].
  rewrite parse_ipv4_parts by apply spell_octet_sep_free.
  rewrite !octet_exact by assumption. reflexivity.
Qed.

Theorem quad_only s a : parse_ipv4 s = Some a ->
  exists w x y z, w <= 255 /\ x <= 255 /\ y <= 255 /\ z <= 255 /\ s = spell_quad w x y z /\ a = quad_value w x y z.
Proof.
  unfold parse_ipv4. fold DOT. intros H.
  destruct (join_split DOT s [] (Forall_nil _)) as [Hj _]. cbn [rev app] in Hj.
  destruct (split_on DOT s []) as [|p1 [|p2 [|p3 [|p4 [|p5 r]]]]]; try discriminate.
  destruct (parse_octet p1) as [w|] eqn:E1; [|discriminate].
  destruct (parse_octet p2) as [x|] eqn:E2; [|discriminate].
  destruct (parse_octet p3) as [y|] eqn:E3; [|discriminate].
  destruct (parse_octet p4) as [z|] eqn:E4; [|discriminate].
  apply octet_only in E1, E2, E3, E4.
  destruct E1 as [Hw ->], E2 as [Hx ->], E3 as [Hy ->], E4 as [Hz ->].
  exists w, x, y, z. injection H as <-. rewrite spell_quad_join.
  repeat (split; [assumption|]). split; [symmetry; exact Hj|reflexivity].
Qed.

Theorem quad_exact s a : parse_ipv4 s = Some a <->
  exists w x y z, w <= 255 /\ x <= 255 /\ y <= 255 /\ z <= 255 /\ s = spell_quad w x y z /\ a = quad_value w x y z.
Proof.
  split; [apply quad_only|].
  intros (w & x & y & z & Hw & Hx & Hy & Hz & -> & ->). apply quad_denotes; assumption.
Qed.

Theorem quad_rejects_bad_octet p1 p2 p3 p4 :
  ~ In DOT p1 -> ~ In DOT p2 -> ~ In DOT p3 -> ~ In DOT p4 ->
  parse_octet p1 = None \/ parse_octet p2 = None \/ parse_octet p3 = None \/ parse_octet p4 = None ->
  parse_ipv4 (p1 ++ DOT :: p2 ++ DOT :: p3 ++ DOT :: p4) = None.
Proof.
  intros H1 H2 H3 H4 Hbad. apply sep_free_notin in H1, H2, H3, H4.
  rewrite (parse_ipv4_parts p1 p2 p3 p4 H1 H2 H3 H4).
  destruct (parse_octet p1); [|reflexivity]. destruct (parse_octet p2); [|reflexivity].
  destruct (parse_octet p3); [|reflexivity]. destruct (parse_octet p4); [|reflexivity].
  destruct Hbad as [Hb|[Hb|[Hb|Hb]]]; discriminate.
Qed.

(** any number of parts other than four is rejected *)
Theorem quad_rejects_wrong_count parts : parts <> [] -> Forall (fun p => ~ In DOT p) parts ->
  length parts <> 4%nat -> parse_ipv4 (join [DOT] parts) = None.
Proof.
  intros Hne Hf Hlen. unfold parse_ipv4. fold DOT. rewrite (split_join DOT parts Hne).
  - destruct parts as [|p1 [|p2 [|p3 [|p4 [|p5 r]]]]]; try reflexivity. cbn [length] in Hlen. congruence.
  - eapply Forall_impl; [|exact Hf]. intros p Hp. apply sep_free_notin. exact Hp.
Qed.

(* ------------------------------------------------------------------ booleans *)

Lemma bytes_eqb_eq a : forall b, bytes_eqb a b = true <-> a = b.
Proof.
  unfold bytes_eqb. induction a as [|x a IH]; intros [|y b]; cbn [list_eqb]; try (split; [discriminate|congruence]).
  - split; reflexivity.
  - rewrite andb_true_iff, N.eqb_eq, IH. split; [intros [-> ->]; reflexivity|intros E; injection E as -> ->; split; reflexivity].
Qed.

Theorem bool_exact s b : parse_bool s = Some b <-> s = spell_bool b.
Proof.
  unfold parse_bool. split.
  - destruct (bytes_eqb s [116; 114; 117; 101]) eqn:E1.
    { apply bytes_eqb_eq in E1. intros H. injection H as <-. exact E1. }
    destruct (bytes_eqb s [102; 97; 108; 115; 101]) eqn:E2; [|discriminate].
    apply bytes_eqb_eq in E2. intros H. injection H as <-. exact E2.
  - intros ->. destruct b; reflexivity.
Qed.

(* ------------------------------------------------------------------ Val::from_token *)

Theorem ip_token_exact l w x y z : w <= 255 -> x <= 255 -> y <= 255 -> z <= 255 ->
  val_of_token {| tk_type := TIPv4Lit; tk_loc := l; tk_val := Some (spell_quad w x y z) |}
  = Ok (VIp4 (quad_value w x y z)).
Proof.
  intros Hw Hx Hy Hz. unfold val_of_token. cbn [tk_val tk_type].
  rewrite (quad_denotes w x y z Hw Hx Hy Hz). reflexivity.
Qed.

Theorem ip_token_total l s :
  (exists a, val_of_token {| tk_type := TIPv4Lit; tk_loc := l; tk_val := Some s |} = Ok (VIp4 a)
             /\ parse_ipv4 s = Some a)
  \/ val_of_token {| tk_type := TIPv4Lit; tk_loc := l; tk_val := Some s |} = Err EParse.
Proof.
  unfold val_of_token. cbn [tk_val tk_type]. destruct (parse_ipv4 s) as [a|]; [left; exists a; split|right]; reflexivity.
Qed.

Theorem bool_token_exact l b :
  val_of_token {| tk_type := TBoolLit; tk_loc := l; tk_val := Some (spell_bool b) |} = Ok (VBool b).
Proof. destruct b; reflexivity. Qed.

Theorem bool_token_total l s :
  (exists b, val_of_token {| tk_type := TBoolLit; tk_loc := l; tk_val := Some s |} = Ok (VBool b) /\ s = spell_bool b)
  \/ val_of_token {| tk_type := TBoolLit; tk_loc := l; tk_val := Some s |} = Err EParse.
Proof.
  unfold val_of_token. cbn [tk_val tk_type]. destruct (parse_bool s) as [b|] eqn:E; [left|right; reflexivity].
  exists b. split; [reflexivity|]. apply bool_exact. exact E.
Qed.

