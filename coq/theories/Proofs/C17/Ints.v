(** C17, integers: u64::from_str / from_str_radix(_,16) as modelled in Lex/Literals.v accept exactly the
    digit strings (with an optional single '+') whose value is below 2^64 and return that value. *)
From RS Require Import Base.Bytes Base.Outcome Lex.Tokens Lex.Literals Interp.Val Spec.Literal Proofs.Tactics.
From Coq Require Import ZArith Lia ZifyBool ZifyNat ZifyN.
Ltac Zify.zify_post_hook ::= Z.div_mod_to_equations.
Open Scope N_scope.

(* ------------------------------------------------------------------ generic digit strings *)

Definition dstep (radix acc d : N) : N := acc * radix + d.

Lemma fold_dstep_ge radix ds : 1 <= radix -> forall acc, acc <= fold_left (dstep radix) ds acc.
Proof.
  intros radix_pos. induction ds as [|d ds IH]; intros acc; cbn [fold_left]; [lia|].
  specialize (IH (dstep radix acc d)). unfold dstep in *.
  assert (Hm : acc * 1 <= acc * radix) by (apply N.mul_le_mono_l; exact radix_pos). lia.
Qed.

Lemma parse_digits_spell radix (radix_pos : 1 <= radix) (digit : N -> option N)
  (D : Type) (sp vl : D -> N) (ok : D -> bool)
  (digit_sp : forall d, ok d = true -> digit (sp d) = Some (vl d)) ds :
  forall acc, forallb ok ds = true -> acc < two64 ->
  parse_digits radix digit (map sp ds) acc
  = let v := fold_left (dstep radix) (map vl ds) acc in if v <? two64 then Some v else None.
Proof.
  induction ds as [|d ds IH]; intros acc Hok Hacc; cbn [map parse_digits fold_left].
  - cbv zeta. destruct (N.ltb_spec acc two64) as [_|Hge]; [reflexivity|lia].
  - cbn [forallb] in Hok. apply andb_true_iff in Hok. destruct Hok as [Hd Hds].
    rewrite (digit_sp d Hd). cbv zeta. fold (dstep radix acc (vl d)).
    destruct (N.ltb_spec (dstep radix acc (vl d)) two64) as [Hlt|Hge].
    + rewrite (IH _ Hds Hlt). reflexivity.
    + pose proof (fold_dstep_ge radix (map vl ds) radix_pos (dstep radix acc (vl d))) as Hm.
      destruct (N.ltb_spec (fold_left (dstep radix) (map vl ds) (dstep radix acc (vl d))) two64) as [Hlt|_]; [lia|reflexivity].
Qed.

Lemma parse_digits_only radix (digit : N -> option N)
  (D : Type) (sp vl : D -> N) (ok : D -> bool)
  (digit_only : forall c v, digit c = Some v -> exists d, ok d = true /\ c = sp d /\ v = vl d) l :
  forall acc n, acc < two64 -> parse_digits radix digit l acc = Some n ->
  exists ds, forallb ok ds = true /\ l = map sp ds /\ fold_left (dstep radix) (map vl ds) acc = n /\ n < two64.
Proof.
  induction l as [|c r IH]; intros acc n Hacc Hp; cbn [parse_digits] in Hp.
  - exists []. injection Hp as <-. repeat split; try reflexivity. exact Hacc.
  - destruct (digit c) as [v|] eqn:Ed; [|discriminate]. cbv zeta in Hp.
    destruct (N.ltb_spec (acc * radix + v) two64) as [Hlt|Hge]; [|discriminate].
    destruct (digit_only c v Ed) as (d & Hd & -> & ->).
    destruct (IH _ _ Hlt Hp) as (ds & Hok & -> & Hv & Hn).
    exists (d :: ds). cbn [forallb map fold_left]. rewrite Hd, Hok. repeat split; assumption.
Qed.

Lemma parse_digits_bad radix (digit : N -> option N) a :
  forall c b acc, digit c = None -> parse_digits radix digit (a ++ c :: b) acc = None.
Proof.
  induction a as [|x a IH]; intros c b acc Hc; cbn [app parse_digits].
  - rewrite Hc. reflexivity.
  - destruct (digit x) as [v|]; [|reflexivity]. cbv zeta.
    destruct (_ <? two64); [apply IH; exact Hc|reflexivity].
Qed.

(* ------------------------------------------------------------------ the optional sign *)

(** the nested pattern [43 :: r] of the two parsers, as a test on the first byte *)
Definition signed_body (l : bytes) : bytes :=
  match l with c :: r => if c =? 43 then r else l | [] => [] end.

Lemma body_match (l : bytes) : match l with 43 :: r => r | _ => l end = signed_body l.
Proof.
  destruct l as [|c r]; [reflexivity|]. cbn [signed_body].
  destruct (N.eqb_spec c 43) as [->|Hne]; [reflexivity|].
  destruct c as [|p]; [reflexivity|].
  do 6 (try (destruct p as [p|p|]; try reflexivity)). congruence.
Qed.

Lemma parse_u64_dec_eq l : parse_u64_dec l =
  match signed_body l with [] => None | _ => parse_digits 10 dec_value (signed_body l) 0 end.
Proof. unfold parse_u64_dec. cbv zeta. rewrite body_match. reflexivity. Qed.

Lemma parse_u64_hex_eq l : parse_u64_hex l =
  match signed_body l with [] => None | _ => parse_digits 16 hex_value (signed_body l) 0 end.
Proof. unfold parse_u64_hex. cbv zeta. rewrite body_match. reflexivity. Qed.

(* ------------------------------------------------------------------ decimal *)

Lemma dec_value_spell d : (d <? 10) = true -> dec_value (48 + d) = Some d.
Proof.
  intros H. unfold dec_value, is_digit.
  destruct ((48 <=? 48 + d) && (48 + d <=? 57)) eqn:E; [f_equal; lia|lia].
Qed.

Lemma dec_value_inv c d : dec_value c = Some d -> c = 48 + d /\ d < 10.
Proof.
  unfold dec_value, is_digit. destruct ((48 <=? c) && (c <=? 57)) eqn:E; [|discriminate].
  intros H. injection H as <-. lia.
Qed.

Lemma dec_value_only c v : dec_value c = Some v -> exists d, (d <? 10) = true /\ c = 48 + d /\ v = d.
Proof. intros H. apply dec_value_inv in H. exists v. repeat split; lia. Qed.

Lemma dec_value_none c : is_digit c = false -> dec_value c = None.
Proof. intros H. unfold dec_value. rewrite H. reflexivity. Qed.

Lemma map_id_N (ds : list N) : map (fun d : N => d) ds = ds.
Proof. apply map_id. Qed.

Lemma dec_digits_exact ds acc : dec_digits_ok ds = true -> acc < two64 ->
  parse_digits 10 dec_value (spell_dec ds) acc
  = let v := fold_left (fun a d => a * 10 + d) ds acc in if v <? two64 then Some v else None.
Proof.
  intros Hok Hacc. unfold spell_dec.
  rewrite (parse_digits_spell 10 ltac:(lia) dec_value N (fun d => 48 + d) (fun d => d) (fun d => d <? 10)
             dec_value_spell ds acc Hok Hacc).
  rewrite map_id_N. reflexivity.
Qed.

Lemma two64_pos : 0 < two64. Proof. reflexivity. Qed.

Lemma spell_dec_nonempty ds : ds <> [] -> exists c r, spell_dec ds = c :: r /\ c <> 43 /\ (dec_digits_ok ds = true -> is_digit c = true).
Proof.
  destruct ds as [|d ds]; [congruence|]. intros _. exists (48 + d), (spell_dec ds).
  split; [reflexivity|]. split.
  - lia.
  - cbn [dec_digits_ok forallb]. intros H. apply andb_true_iff in H. destruct H as [H _]. unfold is_digit. lia.
Qed.

Theorem dec_exact ds : dec_digits_ok ds = true -> ds <> [] ->
  parse_u64_dec (spell_dec ds) = if dec_value_of ds <? two64 then Some (dec_value_of ds) else None.
Proof.
  intros Hok Hne. rewrite parse_u64_dec_eq.
  destruct (spell_dec_nonempty ds Hne) as (c & r & E & Hc & _).
  assert (Hb : signed_body (spell_dec ds) = spell_dec ds).
  { rewrite E. cbn [signed_body]. destruct (N.eqb_spec c 43); [congruence|reflexivity]. }
  rewrite Hb. rewrite (dec_digits_exact ds 0 Hok two64_pos). rewrite E. reflexivity.
Qed.

Theorem dec_plus_exact ds : dec_digits_ok ds = true -> ds <> [] ->
  parse_u64_dec (PLUS :: spell_dec ds) = if dec_value_of ds <? two64 then Some (dec_value_of ds) else None.
Proof.
  intros Hok Hne. rewrite parse_u64_dec_eq. unfold PLUS. cbn [signed_body]. rewrite N.eqb_refl.
  destruct (spell_dec_nonempty ds Hne) as (c & r & E & _ & _).
  rewrite (dec_digits_exact ds 0 Hok two64_pos). rewrite E. reflexivity.
Qed.

Theorem dec_only s n : parse_u64_dec s = Some n ->
  exists ds, dec_digits_ok ds = true /\ ds <> [] /\ (s = spell_dec ds \/ s = PLUS :: spell_dec ds)
             /\ dec_value_of ds = n /\ n < two64.
Proof.
  rewrite parse_u64_dec_eq. intros H.
  destruct (signed_body s) as [|c0 r0] eqn:Eb; [discriminate|].
  destruct (parse_digits_only 10 dec_value N (fun d => 48 + d) (fun d => d) (fun d => d <? 10)
              dec_value_only (c0 :: r0) 0 n two64_pos H) as (ds & Hok & Hl & Hv & Hn).
  rewrite map_id_N in Hv.
  exists ds. split; [exact Hok|]. split; [destruct ds; [discriminate|congruence]|].
  split; [|split; [exact Hv|exact Hn]].
  fold (spell_dec ds) in Hl. rewrite <- Hl, <- Eb.
  destruct s as [|c r]; [discriminate|]. cbn [signed_body].
  destruct (N.eqb_spec c 43) as [->|_]; [right|left]; reflexivity.
Qed.

Theorem dec_rejects_empty : parse_u64_dec [] = None.
Proof. reflexivity. Qed.

Theorem dec_rejects_plus_only : parse_u64_dec [PLUS] = None.
Proof. reflexivity. Qed.

Lemma dec_value_minus : dec_value MINUS = None. Proof. reflexivity. Qed.

Theorem dec_rejects_minus s : parse_u64_dec (MINUS :: s) = None.
Proof.
  rewrite parse_u64_dec_eq. unfold MINUS. cbn [signed_body].
  replace (45 =? 43) with false by reflexivity.
  cbn [parse_digits]. replace (dec_value 45) with (@None N) by reflexivity. reflexivity.
Qed.

(** any character that is not a digit makes the whole string invalid, wherever it stands -- except
    the one '+' allowed in front *)
Theorem dec_rejects_nondigit a c b : is_digit c = false -> (a <> [] \/ c <> PLUS) ->
  parse_u64_dec (a ++ c :: b) = None.
Proof.
  intros Hc Hside. rewrite parse_u64_dec_eq. apply dec_value_none in Hc.
  assert (Hbody : exists a', signed_body (a ++ c :: b) = a' ++ c :: b).
  { destruct a as [|x a]; cbn [app signed_body].
    - destruct (N.eqb_spec c 43) as [->|_]; [destruct Hside as [Hs|Hs]; exfalso; apply Hs; reflexivity|].
      exists []. reflexivity.
    - destruct (x =? 43); [exists a|exists (x :: a)]; reflexivity. }
  destruct Hbody as (a' & ->).
  rewrite (parse_digits_bad 10 dec_value a' c b 0 Hc). destruct (a' ++ c :: b); reflexivity.
Qed.

(* ------------------------------------------------------------------ hexadecimal *)

Lemma hex_value_spell (d : bool * N) : (snd d <? 16) = true -> hex_value (hex_digit (fst d) (snd d)) = Some (snd d).
Proof.
  destruct d as [u v]. cbn [fst snd]. intros H. unfold hex_value, hex_digit.
  destruct (v <? 10) eqn:E10.
  - destruct ((48 <=? 48 + v) && (48 + v <=? 57)) eqn:E; [f_equal; lia|lia].
  - destruct u.
    + destruct ((48 <=? 55 + v) && (55 + v <=? 57)) eqn:E1; [lia|].
      destruct ((97 <=? 55 + v) && (55 + v <=? 102)) eqn:E2; [lia|].
      destruct ((65 <=? 55 + v) && (55 + v <=? 70)) eqn:E3; [f_equal; lia|lia].
    + destruct ((48 <=? 87 + v) && (87 + v <=? 57)) eqn:E1; [lia|].
      destruct ((97 <=? 87 + v) && (87 + v <=? 102)) eqn:E2; [f_equal; lia|lia].
Qed.

Lemma hex_value_only c v : hex_value c = Some v ->
  exists d : bool * N, (snd d <? 16) = true /\ c = hex_digit (fst d) (snd d) /\ v = snd d.
Proof.
  unfold hex_value.
  destruct ((48 <=? c) && (c <=? 57)) eqn:E1.
  { intros H. injection H as <-. exists (false, c - 48). cbn [fst snd]. unfold hex_digit.
    destruct (c - 48 <? 10) eqn:E; repeat split; lia. }
  destruct ((97 <=? c) && (c <=? 102)) eqn:E2.
  { intros H. injection H as <-. exists (false, c - 87). cbn [fst snd]. unfold hex_digit.
    destruct (c - 87 <? 10) eqn:E; repeat split; lia. }
  destruct ((65 <=? c) && (c <=? 70)) eqn:E3; [|discriminate].
  intros H. injection H as <-. exists (true, c - 55). cbn [fst snd]. unfold hex_digit.
  destruct (c - 55 <? 10) eqn:E; repeat split; lia.
Qed.

Lemma hex_digits_exact ds acc : hex_digits_ok ds = true -> acc < two64 ->
  parse_digits 16 hex_value (spell_hex ds) acc
  = let v := fold_left (fun a d => a * 16 + d) (map snd ds) acc in if v <? two64 then Some v else None.
Proof.
  intros Hok Hacc. unfold spell_hex.
  exact (parse_digits_spell 16 ltac:(lia) hex_value (bool * N)%type (fun d => hex_digit (fst d) (snd d)) snd
           (fun d => snd d <? 16) hex_value_spell ds acc Hok Hacc).
Qed.

Lemma hex_digit_not_plus u v : hex_digit u v <> 43.
Proof. unfold hex_digit. destruct (v <? 10) eqn:E; [lia|]. destruct u; lia. Qed.

Theorem hex_exact ds : hex_digits_ok ds = true -> ds <> [] ->
  parse_u64_hex (spell_hex ds)
  = let v := hex_value_of (map snd ds) in if v <? two64 then Some v else None.
Proof.
  intros Hok Hne. rewrite parse_u64_hex_eq.
  destruct ds as [|d ds]; [congruence|].
  assert (Hb : signed_body (spell_hex (d :: ds)) = spell_hex (d :: ds)).
  { cbn [spell_hex map signed_body]. destruct (N.eqb_spec (hex_digit (fst d) (snd d)) 43) as [E|_]; [|reflexivity].
    exfalso. exact (hex_digit_not_plus _ _ E). }
  rewrite Hb. rewrite (hex_digits_exact (d :: ds) 0 Hok two64_pos). reflexivity.
Qed.

Theorem hex_plus_exact ds : hex_digits_ok ds = true -> ds <> [] ->
  parse_u64_hex (PLUS :: spell_hex ds)
  = let v := hex_value_of (map snd ds) in if v <? two64 then Some v else None.
Proof.
  intros Hok Hne. rewrite parse_u64_hex_eq. unfold PLUS. cbn [signed_body]. rewrite N.eqb_refl.
  destruct ds as [|d ds]; [congruence|].
  rewrite (hex_digits_exact (d :: ds) 0 Hok two64_pos). reflexivity.
Qed.

Theorem hex_only s n : parse_u64_hex s = Some n ->
  exists ds, hex_digits_ok ds = true /\ ds <> [] /\ (s = spell_hex ds \/ s = PLUS :: spell_hex ds)
             /\ hex_value_of (map snd ds) = n /\ n < two64.
Proof.
  rewrite parse_u64_hex_eq. intros H.
  destruct (signed_body s) as [|c0 r0] eqn:Eb; [discriminate|].
  destruct (parse_digits_only 16 hex_value (bool * N)%type (fun d => hex_digit (fst d) (snd d)) snd
              (fun d => snd d <? 16) hex_value_only (c0 :: r0) 0 n two64_pos H) as (ds & Hok & Hl & Hv & Hn).
  exists ds. split; [exact Hok|]. split; [destruct ds; [discriminate|congruence]|].
  split; [|split; [exact Hv|exact Hn]].
  fold (spell_hex ds) in Hl. rewrite <- Hl, <- Eb.
  destruct s as [|c r]; [discriminate|]. cbn [signed_body].
  destruct (N.eqb_spec c 43) as [->|_]; [right|left]; reflexivity.
Qed.

Theorem hex_rejects_empty : parse_u64_hex [] = None.
Proof. reflexivity. Qed.

(* ------------------------------------------------------------------ Val::from_token *)

Theorem int_token_exact l ds : dec_digits_ok ds = true -> ds <> [] ->
  val_of_token {| tk_type := TIntLit; tk_loc := l; tk_val := Some (spell_dec ds) |}
  = if dec_value_of ds <? two64 then Ok (VU64 (dec_value_of ds)) else Err EParse.
Proof.
  intros Hok Hne. unfold val_of_token. cbn [tk_val tk_type]. rewrite (dec_exact ds Hok Hne).
  destruct (dec_value_of ds <? two64); reflexivity.
Qed.

Theorem hex_token_exact l ds : hex_digits_ok ds = true -> ds <> [] ->
  val_of_token {| tk_type := THexLit; tk_loc := l; tk_val := Some (48 :: 120 :: spell_hex ds) |}
  = let v := hex_value_of (map snd ds) in if v <? two64 then Ok (VU64 v) else Err EParse.
Proof.
  intros Hok Hne. unfold val_of_token. cbn [tk_val tk_type]. rewrite (hex_exact ds Hok Hne). cbv zeta.
  destruct (hex_value_of (map snd ds) <? two64); reflexivity.
Qed.

Theorem int_token_total l s :
  (exists n, val_of_token {| tk_type := TIntLit; tk_loc := l; tk_val := Some s |} = Ok (VU64 n)
             /\ parse_u64_dec s = Some n)
  \/ val_of_token {| tk_type := TIntLit; tk_loc := l; tk_val := Some s |} = Err EParse.
Proof.
  unfold val_of_token. cbn [tk_val tk_type]. destruct (parse_u64_dec s) as [n|]; [left; exists n; split|right]; reflexivity.
Qed.

Theorem hex_token_total l h :
  (exists n, val_of_token {| tk_type := THexLit; tk_loc := l; tk_val := Some (48 :: 120 :: h) |} = Ok (VU64 n)
             /\ parse_u64_hex h = Some n)
  \/ val_of_token {| tk_type := THexLit; tk_loc := l; tk_val := Some (48 :: 120 :: h) |} = Err EParse.
Proof.
  unfold val_of_token. cbn [tk_val tk_type]. destruct (parse_u64_hex h) as [n|]; [left; exists n; split|right]; reflexivity.
Qed.

