(** C17 / C05: Val::from_token on string-literal tokens, from the decoder theorems of Proofs/C05/Literal.v. *)
From RS Require Import Base.Bytes Base.Outcome Lex.Tokens Lex.Literals Interp.Val Spec.Literal Proofs.C05.Literal.
Open Scope N_scope.

Theorem str_token_exact l segs : forallb seg_ok segs = true ->
  val_of_token {| tk_type := TStringLit; tk_loc := l; tk_val := Some (spell segs) |} = Ok (VStr (denote segs)).
Proof. intros H. unfold val_of_token. cbn [tk_val tk_type]. rewrite literal_denotes by exact H. reflexivity. Qed.

Theorem str_token_rejects l segs b rest : forallb seg_ok segs = true -> bad_section_ok b = true ->
  val_of_token {| tk_type := TStringLit; tk_loc := l; tk_val := Some (spell segs ++ spell_bad b ++ rest) |} = Err EParse.
Proof. intros H B. unfold val_of_token. cbn [tk_val tk_type]. rewrite hex_section_rejects by assumption. reflexivity. Qed.

(** value or diagnostic, nothing else *)
Theorem str_token_total l s :
  (exists b, val_of_token {| tk_type := TStringLit; tk_loc := l; tk_val := Some s |} = Ok (VStr b) /\ decode_strlit s = Some b)
  \/ val_of_token {| tk_type := TStringLit; tk_loc := l; tk_val := Some s |} = Err EParse.
Proof.
  unfold val_of_token. cbn [tk_val tk_type]. destruct (decode_strlit s) as [b|]; [left; exists b; split; reflexivity|right; reflexivity].
Qed.
