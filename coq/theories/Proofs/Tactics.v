(** Small helpers: inverting [Ok _ = Ok _] without letting [inversion] normalise large terms. *)
From RS Require Import Base.Bytes Base.Outcome.

Lemma Ok_inj {A} (a b : A) : Ok a = Ok b -> a = b.
Proof. congruence. Qed.

Ltac ok_inv E :=
  apply Ok_inj in E;
  try (apply pair_equal_spec in E; destruct E);
  subst.
