(** C11: what [split_args] computes, phase by phase, for any signature. *)
From RS Require Import Base.Bytes Base.Outcome Bind.Types Bind.Binder Bind.BindSpec.
From Coq Require Import Arith Lia.

(** ** association lists and name tables *)
Lemma mem_string_In : forall x l, mem_string x l = true <-> In x l.
Proof.
  intros x l. unfold mem_string. rewrite existsb_exists. split.
  - intros [y [Hy He]]. apply String.eqb_eq in He. subst y. exact Hy.
  - intros H. exists x. split; [exact H | apply String.eqb_refl].
Qed.

Lemma mem_string_false : forall x l, mem_string x l = false <-> ~ In x l.
Proof.
  intros x l. rewrite <- mem_string_In. destruct (mem_string x l); split; intros H; try reflexivity;
    try discriminate H. exfalso. apply H. reflexivity. intros H2; discriminate H2.
Qed.

Lemma distinct_NoDup : forall l, distinct l = true <-> NoDup l.
Proof.
  induction l as [| x r IH]; cbn [distinct].
  - split; [constructor | reflexivity].
  - rewrite Bool.andb_true_iff, Bool.negb_true_iff, mem_string_false, IH. split.
    + intros [H1 H2]. constructor; assumption.
    + intros H. inversion H; subst. split; assumption.
Qed.

Lemma assoc_None_iff {A} : forall x (l : list (string * A)), assoc x l = None <-> ~ In x (map fst l).
Proof.
  intros x l. induction l as [| [k v] r IH]; cbn [assoc map fst In].
  - split; [intros _ H; exact H | reflexivity].
  - destruct (String.eqb x k) eqn:E.
    + apply String.eqb_eq in E. subst k. split; [discriminate | intros H; exfalso; apply H; left; reflexivity].
    + apply String.eqb_neq in E. rewrite IH. split.
      * intros H [H1 | H1]; [apply E; symmetry; exact H1 | exact (H H1)].
      * intros H H1. apply H. right. exact H1.
Qed.

Lemma assoc_index_table : forall x names i,
  assoc x (index_table i names) = option_map (fun k => (i + k)%nat) (index_of x names).
Proof.
  intros x names. induction names as [| y r IH]; intros i; cbn [index_table assoc index_of option_map].
  - reflexivity.
  - destruct (String.eqb x y).
    + cbn [option_map]. f_equal. lia.
    + rewrite IH. destruct (index_of x r); cbn [option_map]; [f_equal; lia | reflexivity].
Qed.

Lemma pos_table_eqb_eq : forall a b, pos_table_eqb a b = true -> a = b.
Proof.
  induction a as [| [x i] a IH]; intros [| [y j] b] H; cbn [pos_table_eqb] in H; try discriminate H.
  - reflexivity.
  - apply Bool.andb_true_iff in H. destruct H as [H H3]. apply Bool.andb_true_iff in H. destruct H as [H1 H2].
    apply String.eqb_eq in H1. apply Nat.eqb_eq in H2. subst. f_equal. apply IH. exact H3.
Qed.

Lemma index_of_Some_skipn : forall x l m i, index_of x l = Some i -> (m <= i)%nat -> In x (skipn m l).
Proof.
  intros x l. induction l as [| y r IH]; intros m i H Hm; cbn [index_of] in H.
  - discriminate H.
  - destruct (String.eqb x y) eqn:E.
    + inversion H; subst i. assert (m = 0)%nat by lia. subst m. apply String.eqb_eq in E. subst y.
      cbn [skipn]. left. reflexivity.
    + destruct (index_of x r) as [j |] eqn:Ej; cbn [option_map] in H; [| discriminate H].
      inversion H; subst i. destruct m as [| m']; cbn [skipn].
      * right. apply (IH 0%nat j); [reflexivity | lia].
      * apply (IH m' j); [reflexivity | lia].
Qed.

Lemma index_of_None : forall x l, index_of x l = None <-> ~ In x l.
Proof.
  intros x l. induction l as [| y r IH]; cbn [index_of In].
  - split; [intros _ H; exact H | reflexivity].
  - destruct (String.eqb x y) eqn:E.
    + apply String.eqb_eq in E. subst y. split; [discriminate | intros H; exfalso; apply H; left; reflexivity].
    + apply String.eqb_neq in E. destruct (index_of x r) eqn:Ei; cbn [option_map].
      * split; [discriminate |]. intros H. exfalso. apply H. right.
        destruct (in_dec string_dec x r) as [Hin | Hnin]; [exact Hin |].
        apply IH in Hnin. discriminate Hnin.
      * split; [| reflexivity]. intros _ [H | H]; [apply E; symmetry; exact H |].
        assert (H0 : ~ In x r) by (apply IH; reflexivity). exact (H0 H).
Qed.

Section Split.
Variable V : Type.

Notation arg := (option string * V)%type.
Notation mk := (Build_argprep V).
Notation anon := (anon V).
Notation named := (named V).
Notation take_while := (take_while V).
Notation drop_while := (drop_while V).
Notation names_of := (names_of V).
Notation split_loop := (split_loop V).

Variable f : funcdef.

(** the named arguments as the association list the implementation builds *)
Fixpoint entries (l : list arg) : list (string * V) :=
  match l with
  | [] => []
  | (Some x, v) :: r => (x, v) :: entries r
  | (None, _) :: r => entries r
  end.

Lemma entries_keys : forall l, map fst (entries l) = names_of l.
Proof.
  induction l as [| [[x |] v] r IH]; cbn [entries BindSpec.names_of map fst]; [reflexivity | f_equal; exact IH | exact IH].
Qed.

Lemma entries_lookup : forall x l, assoc x (entries l) = lookup V x l.
Proof.
  intros x. induction l as [| [[y |] v] r IH]; cbn [entries lookup assoc]; [reflexivity | | exact IH].
  destruct (String.eqb x y); [reflexivity | exact IH].
Qed.

Lemma entries_app : forall a b, entries (a ++ b) = entries a ++ entries b.
Proof.
  induction a as [| [[y |] v] r IH]; intros b; cbn [entries app]; [reflexivity | f_equal; apply IH | apply IH].
Qed.

(** ** phase 3: collecting *)
Definition is_nil {A} (l : list A) : bool := match l with [] => true | _ => false end.

Lemma split_collect : forall l pos nm ex,
  split_loop f SCollectOnly l (mk pos nm ex) =
  if (is_nil l || fd_is_collect f) && forallb anon l
  then Ok (mk pos nm (ex ++ map snd l)) else Err EType.
Proof.
  induction l as [| a r IH]; intros pos nm ex.
  - cbn. rewrite app_nil_r. reflexivity.
  - cbn [Binder.split_loop step is_nil orb forallb map]. unfold step_collect.
    destruct (fd_is_collect f) eqn:Ec; cbn [negb]; [| reflexivity].
    unfold BindSpec.anon at 1. destruct a as [[x |] v]; cbn [fst snd obind]; [reflexivity |].
    cbn [ap_pos ap_named ap_extra]. rewrite IH. rewrite Bool.orb_true_r. cbn [andb].
    rewrite <- app_assoc. reflexivity.
Qed.

(** ** phase 2: named arguments *)
Definition pos_ok (npos : nat) (x : string) : bool :=
  match fd_arg_pos_of f x with
  | Some i => Nat.leb npos i
  | None => false
  end.

Fixpoint check (npos : nat) (seen : list string) (names : list string) : bool :=
  match names with
  | [] => true
  | x :: r => pos_ok npos x && negb (mem_string x seen) && check npos (seen ++ [x]) r
  end.

Lemma check_iff : forall npos names seen,
  check npos seen names = true <->
  (forallb (pos_ok npos) names = true /\ NoDup names /\ forall x, In x names -> ~ In x seen).
Proof.
  intros npos. induction names as [| x r IH]; intros seen; cbn [check forallb].
  - split; [intros _; split; [reflexivity | split; [constructor | intros x []]] | reflexivity].
  - rewrite !Bool.andb_true_iff, Bool.negb_true_iff, mem_string_false, IH. split.
    + intros [[H1 H2] [H3 [H4 H5]]]. split; [split; assumption |]. split.
      * constructor; [| exact H4]. intros Hin. apply (H5 x Hin). apply in_or_app. right. left. reflexivity.
      * intros y [Hy | Hy]; [subst y; exact H2 |]. intros Hs. apply (H5 y Hy). apply in_or_app. left. exact Hs.
    + intros [[H1 H3] [H4 H5]]. inversion H4 as [| x' r' Hnin Hnd]; subst.
      split; [split; [exact H1 | apply H5; left; reflexivity] |]. split; [exact H3 |]. split; [exact Hnd |].
      intros y Hy Hs. apply in_app_or in Hs. destruct Hs as [Hs | [Hs | []]].
      * apply (H5 y); [right; exact Hy | exact Hs].
      * subst y. exact (Hnin Hy).
Qed.

Lemma check_nil_seen : forall npos names,
  check npos [] names = forallb (pos_ok npos) names && distinct names.
Proof.
  intros npos names. apply Bool.eq_iff_eq_true.
  rewrite check_iff, Bool.andb_true_iff, distinct_NoDup. split.
  - intros [H1 [H2 _]]. split; assumption.
  - intros [H1 H2]. split; [exact H1 | split; [exact H2 | intros x _ []]].
Qed.

Lemma split_optional : forall l pos nm,
  split_loop f SOptional l (mk pos nm []) =
  if check (length pos) (map fst nm) (names_of (take_while named l))
  then split_loop f SCollectOnly (drop_while named l) (mk pos (nm ++ entries (take_while named l)) [])
  else Err EType.
Proof.
  induction l as [| a r IH]; intros pos nm.
  - cbn. rewrite app_nil_r. reflexivity.
  - destruct a as [[x |] v].
    + cbn [Binder.split_loop step step_optional fst snd BindSpec.take_while BindSpec.drop_while BindSpec.named
           BindSpec.anon negb BindSpec.names_of check entries ap_pos ap_named ap_extra].
      unfold pos_ok. destruct (fd_arg_pos_of f x) as [i |]; [| reflexivity].
      rewrite Nat.leb_antisym. destruct (Nat.ltb i (length pos)); cbn [negb andb obind]; [reflexivity |].
      destruct (assoc x nm) eqn:Ea.
      * assert (Hm : mem_string x (map fst nm) = true).
        { apply mem_string_In. destruct (in_dec string_dec x (map fst nm)) as [H | H]; [exact H |].
          apply assoc_None_iff in H. rewrite H in Ea. discriminate Ea. }
        rewrite Hm. reflexivity.
      * assert (Hm : mem_string x (map fst nm) = false).
        { apply mem_string_false. apply assoc_None_iff. exact Ea. }
        rewrite Hm. cbn [negb andb obind]. rewrite IH. rewrite map_app. cbn [map fst].
        rewrite <- app_assoc. reflexivity.
    + cbn [BindSpec.take_while BindSpec.drop_while BindSpec.named BindSpec.anon fst negb BindSpec.names_of check entries].
      rewrite app_nil_r.
      cbn [Binder.split_loop step step_optional step_collect fst snd]. reflexivity.
Qed.

(** ** phase 1: leading unnamed arguments *)
Definition cap : nat := if fd_is_collect f then fd_min_args f else length (fd_args f).

Lemma split_anon : forall l pos,
  (fd_min_args f <= length (fd_args f))%nat ->
  let k := Nat.min (length (take_while anon l)) (cap - length pos) in
  split_loop f SAnon l (mk pos [] []) =
  split_loop f SOptional (skipn k l) (mk (pos ++ map snd (firstn k l)) [] []).
Proof.
  intros l pos Hle. revert pos. induction l as [| a r IH]; intros pos k.
  - subst k. cbn. rewrite app_nil_r. reflexivity.
  - destruct a as [[x |] v].
    + subst k. cbn [BindSpec.take_while BindSpec.anon fst length Nat.min skipn firstn map].
      rewrite app_nil_r. reflexivity.
    + cbn [BindSpec.take_while BindSpec.anon fst length] in k.
      cbn [Binder.split_loop step step_anon fst snd ap_pos ap_named ap_extra].
      unfold cap in *.
      destruct (fd_is_collect f) eqn:Ec; cbn [andb].
      * destruct (Nat.leb (fd_min_args f) (length pos)) eqn:E1.
        -- apply Nat.leb_le in E1. assert (Hk : k = 0%nat) by (subst k; lia). rewrite Hk.
           cbn [skipn firstn map]. rewrite app_nil_r.
           cbn [Binder.split_loop step step_optional fst]. reflexivity.
        -- apply Nat.leb_gt in E1.
           assert (E2 : Nat.leb (length (fd_args f)) (length pos) = false) by (apply Nat.leb_gt; lia).
           rewrite E2. cbn [obind].
           specialize (IH (pos ++ [v])). cbn zeta in IH. rewrite IH.
           rewrite app_length. cbn [length].
           assert (Hk : k = S (Nat.min (length (take_while anon r)) (fd_min_args f - (length pos + 1)))) by (subst k; lia).
           rewrite Hk. cbn [skipn firstn map snd]. rewrite <- app_assoc. reflexivity.
      * destruct (Nat.leb (length (fd_args f)) (length pos)) eqn:E2.
        -- apply Nat.leb_le in E2. assert (Hk : k = 0%nat) by (subst k; lia). rewrite Hk.
           cbn [skipn firstn map]. rewrite app_nil_r.
           cbn [Binder.split_loop step step_optional fst]. unfold step_collect. rewrite Ec. reflexivity.
        -- apply Nat.leb_gt in E2. cbn [obind].
           specialize (IH (pos ++ [v])). cbn zeta in IH. rewrite IH.
           rewrite app_length. cbn [length].
           assert (Hk : k = S (Nat.min (length (take_while anon r)) (length (fd_args f) - (length pos + 1)))) by (subst k; lia).
           rewrite Hk. cbn [skipn firstn map snd]. rewrite <- app_assoc. reflexivity.
Qed.

End Split.
