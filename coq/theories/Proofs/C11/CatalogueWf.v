(** C11: every signature of the regenerated catalogue is well formed (re-checked on every run). *)
From RS Require Import Base.Bytes Base.Outcome Bind.Types Bind.BindSpec.
From RSGen Require Import Catalogue.

Lemma catalogue_wf : forallb wf_sig catalogue = true.
Proof. vm_compute. reflexivity. Qed.
