(** C11: the compatibility relation of the model equals the table of the specification. *)
From RS Require Import Base.Bytes Base.Outcome Bind.Types Bind.BindSpec.

Lemma compat_table : forall a b, compatible_with a b = compat_spec a b.
Proof. destruct a, b; reflexivity. Qed.

Lemma compat_clauses : forall p a, compatible_with p a = true <-> compat_prose p a.
Proof.
  intros p a. unfold compat_prose, integral. split.
  - destruct p, a; cbn; intros H; try discriminate H; tauto.
  - intros H. destruct p, a; try reflexivity; exfalso;
      repeat match goal with
             | H : _ \/ _ |- _ => destruct H
             | H : _ /\ _ |- _ => destruct H
             | H : _ = _ |- _ => discriminate H
             end.
Qed.

Lemma decl_compat : forall d t,
  (match d with
   | Positional ty => compatible_with ty t
   | Optional dfl => arg_compatible dfl t
   end) = param_accepts d t.
Proof.
  intros [ty | dfl] t; cbn [param_accepts].
  - apply compat_table.
  - destruct dfl; cbn [arg_compatible valdef_type]; rewrite ?compat_table; reflexivity.
Qed.

(** a nullable option takes nothing at all, or a value compatible with its type *)
Lemma nullable_accepts : forall t a,
  param_accepts (Optional (DType t)) a = true <-> a = TVoid \/ compat_prose t a.
Proof.
  intros t a. cbn [param_accepts]. rewrite <- compat_table, Bool.orb_true_iff, compat_clauses.
  split; intros [H | H]; auto; left; destruct a; try discriminate H; reflexivity.
Qed.
