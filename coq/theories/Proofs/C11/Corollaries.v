(** C11: the clauses of the property, read off the specification (and hence, by
    [argvec_eq_spec], true of the binder). *)
From RS Require Import Base.Bytes Base.Outcome Bind.Types Bind.Binder Bind.BindSpec.
From Coq Require Import Arith Lia.
From RS Require Import Proofs.C11.Compat Proofs.C11.Split Proofs.C11.Fill Proofs.C11.Main.

Lemma index_of_nth : forall x l i, index_of x l = Some i -> nth_error l i = Some x.
Proof.
  intros x l. induction l as [| y r IH]; intros i H; cbn [index_of] in H; [discriminate H |].
  destruct (String.eqb x y) eqn:E.
  - inversion H. apply String.eqb_eq in E. subst. reflexivity.
  - destruct (index_of x r) as [j |]; cbn [option_map] in H; [| discriminate H].
    inversion H. cbn [nth_error]. apply IH. reflexivity.
Qed.

Lemma nth_index_of : forall l i x, NoDup l -> nth_error l i = Some x -> index_of x l = Some i.
Proof.
  induction l as [| y r IH]; intros i x Hnd H; [destruct i; discriminate H |].
  inversion Hnd as [| y' r' Hnin Hnd']; subst. destruct i as [| i']; cbn [nth_error] in H; cbn [index_of].
  - inversion H. rewrite String.eqb_refl. reflexivity.
  - destruct (String.eqb x y) eqn:E.
    + apply String.eqb_eq in E. subst y. exfalso. apply Hnin. apply nth_error_In with i'. exact H.
    + rewrite (IH i' x Hnd' H). reflexivity.
Qed.

Lemma nth_error_map_inv {A B} : forall (g : A -> B) l i y,
  nth_error (map g l) i = Some y -> exists a, nth_error l i = Some a /\ g a = y.
Proof.
  intros g l. induction l as [| a r IH]; intros i y H; [destruct i; discriminate H |].
  destruct i as [| i']; cbn [map nth_error] in *.
  - inversion H. exists a. split; reflexivity.
  - apply IH. exact H.
Qed.

Section Corollaries.
Variable V : Type.
Variable type_of : V -> vtype.
Variable of_valdef : valdef -> V.

Notation arg := (BindSpec.arg V).
Notation anon := (anon V).
Notation named := (named V).
Notation take_while := (take_while V).
Notation drop_while := (drop_while V).
Notation names_of := (names_of V).
Notation lookup := (lookup V).
Notation lead_count := (lead_count V).
Notation named_part := (named_part V).
Notation tail_part := (tail_part V).
Notation slots_from := (slots_from V of_valdef).
Notation designated := (designated V of_valdef).
Notation all_accept := (all_accept V type_of).
Notation shape_ok := (shape_ok V).
Notation name_ok := (name_ok V).
Notation bind_spec := (bind_spec V type_of of_valdef).
Notation argvec := (argvec V type_of of_valdef).

(** ** facts about lists of arguments *)
Lemma names_of_app : forall a b : list arg, names_of (a ++ b) = names_of a ++ names_of b.
Proof.
  induction a as [| [[x |] v] r IH]; intros b; cbn [BindSpec.names_of app]; [reflexivity | f_equal; apply IH | apply IH].
Qed.

Lemma names_of_anon : forall l : list arg, forallb anon l = true -> names_of l = [].
Proof.
  induction l as [| [[x |] v] r IH]; intros H; cbn [BindSpec.names_of forallb BindSpec.anon fst] in *;
    [reflexivity | discriminate H | apply IH; exact H].
Qed.

Lemma names_of_named_length : forall l : list arg, forallb named l = true -> length (names_of l) = length l.
Proof.
  induction l as [| [[x |] v] r IH]; intros H; cbn [BindSpec.names_of forallb BindSpec.named BindSpec.anon fst negb length] in *;
    [reflexivity | f_equal; apply IH; exact H | discriminate H].
Qed.

Lemma In_names_of : forall x v (l : list arg), In (Some x, v) l -> In x (names_of l).
Proof.
  intros x v. induction l as [| [[y |] w] r IH]; intros H; [contradiction | |]; cbn [BindSpec.names_of];
    destruct H as [H | H].
  - inversion H. left. reflexivity.
  - right. apply IH. exact H.
  - discriminate H.
  - apply IH. exact H.
Qed.

Lemma lookup_NoDup_In : forall x v (l : list arg),
  NoDup (names_of l) -> In (Some x, v) l -> lookup x l = Some v.
Proof.
  intros x v. induction l as [| [[y |] w] r IH]; intros Hnd H; cbn [BindSpec.names_of BindSpec.lookup] in *.
  - contradiction.
  - inversion Hnd as [| y' r' Hnin Hnd']; subst. destruct H as [H | H].
    + inversion H. rewrite String.eqb_refl. reflexivity.
    + destruct (String.eqb x y) eqn:E.
      * apply String.eqb_eq in E. subst y. exfalso. apply Hnin. apply In_names_of with v. exact H.
      * apply IH; assumption.
  - destruct H as [H | H]; [discriminate H | apply IH; assumption].
Qed.

Lemma lookup_notin : forall x (l : list arg), (forall v, ~ In (Some x, v) l) -> lookup x l = None.
Proof.
  intros x. induction l as [| [[y |] w] r IH]; intros H; cbn [BindSpec.lookup]; [reflexivity | |].
  - destruct (String.eqb x y) eqn:E.
    + apply String.eqb_eq in E. subst y. exfalso. apply (H w). left. reflexivity.
    + apply IH. intros v Hv. apply (H v). right. exact Hv.
  - apply IH. intros v Hv. apply (H v). right. exact Hv.
Qed.

Lemma firstn_take_while : forall p (l : list arg) k,
  (k <= length (take_while p l))%nat -> forallb p (firstn k l) = true.
Proof.
  intros p. induction l as [| a r IH]; intros k H; [destruct k; reflexivity |].
  destruct k as [| k']; [reflexivity |]. cbn [BindSpec.take_while] in H. cbn [firstn forallb].
  destruct (p a); cbn [length] in H; [| lia]. apply IH. lia.
Qed.

(** a list of [P]s followed by a list of [Q]s has no non-[P] before a non-[Q] *)
Lemma no_inversion : forall (P Q : arg -> bool) A B X Y Z u w,
  forallb P A = true -> forallb Q B = true ->
  A ++ B = X ++ u :: Y ++ w :: Z -> P u = false -> Q w = false -> False.
Proof.
  intros P Q. induction A as [| a A' IH]; intros B X Y Z u w HA HB E Hu Hw.
  - cbn [app] in E. rewrite forallb_forall in HB. assert (Hin : In w B).
    { rewrite E. apply in_or_app. right. right. apply in_or_app. right. left. reflexivity. }
    rewrite (HB w Hin) in Hw. discriminate Hw.
  - cbn [forallb] in HA. apply Bool.andb_true_iff in HA. destruct HA as [Ha HA'].
    destruct X as [| x0 X']; cbn [app] in E; inversion E; subst.
    + rewrite Ha in Hu. discriminate Hu.
    + eapply IH; eassumption.
Qed.

(** ** the split of a call *)
Lemma call_split : forall f (c : list arg),
  c = firstn (lead_count f c) c ++ named_part f c ++ tail_part f c.
Proof.
  intros f c. unfold BindSpec.named_part, BindSpec.tail_part.
  rewrite (take_drop_while V). rewrite firstn_skipn. reflexivity.
Qed.

Lemma lead_all_anon : forall f (c : list arg), forallb anon (firstn (lead_count f c) c) = true.
Proof. intros f c. apply firstn_take_while. apply lead_count_le_anon. Qed.

Lemma nmd_all_named : forall f (c : list arg), forallb named (named_part f c) = true.
Proof. intros f c. apply (take_while_all V). Qed.

Lemma nmd_incl : forall f (c : list arg) a, In a (named_part f c) -> In a c.
Proof.
  intros f c a H. rewrite (call_split f c). apply in_or_app. right. apply in_or_app. left. exact H.
Qed.

Lemma split_is_a_split : forall f (c : list arg),
  c = firstn (lead_count f c) c ++ named_part f c ++ tail_part f c
  /\ forallb anon (firstn (lead_count f c) c) = true
  /\ forallb named (named_part f c) = true
  /\ (forall a r, tail_part f c = a :: r -> anon a = true).
Proof.
  intros f c. split; [apply call_split |]. split; [apply lead_all_anon |]. split; [apply nmd_all_named |].
  intros a r H. unfold BindSpec.tail_part in H.
  remember (skipn (lead_count f c) c) as l eqn:El. clear El.
  induction l as [| b l' IH]; cbn [BindSpec.drop_while] in H; [discriminate H |].
  destruct (named b) eqn:Eb; [apply IH; exact H |]. inversion H; subst.
  unfold BindSpec.named in Eb. apply Bool.negb_false_iff in Eb. exact Eb.
Qed.

(** ** inversion of the specification *)
Lemma spec_cases : forall f c,
  bind_spec f c = Err EType \/ exists slots extra, bind_spec f c = Ok (slots, extra).
Proof.
  intros f c. unfold BindSpec.bind_spec. destruct (shape_ok f c); [| left; reflexivity].
  destruct (slots_from f c 0 (fd_args f)) as [slots |]; [| left; reflexivity].
  destruct (_ && _); [right; eexists; eexists; reflexivity | left; reflexivity].
Qed.

Lemma spec_ok_inv : forall f c slots extra,
  bind_spec f c = Ok (slots, extra) ->
  shape_ok f c = true
  /\ slots_from f c 0 (fd_args f) = Some slots
  /\ extra = map snd (tail_part f c)
  /\ all_accept (fd_args f) slots = true
  /\ forallb (fun v => compat_spec (fd_collect f) (type_of v)) extra = true.
Proof.
  intros f c slots extra H. unfold BindSpec.bind_spec in H.
  destruct (shape_ok f c); [| discriminate H].
  destruct (slots_from f c 0 (fd_args f)) as [s |]; [| discriminate H].
  destruct (all_accept (fd_args f) s && _) eqn:E; [| discriminate H].
  inversion H; subst. apply Bool.andb_true_iff in E. destruct E as [E1 E2].
  repeat split; try reflexivity; assumption.
Qed.

Lemma shape_inv : forall f c,
  shape_ok f c = true ->
  (lead_count f c <= length (fd_args f))%nat
  /\ forallb anon (tail_part f c) = true
  /\ (collects f = true \/ tail_part f c = [])
  /\ (forall x, In x (names_of (named_part f c)) -> name_ok f c x = true)
  /\ NoDup (names_of (named_part f c)).
Proof.
  intros f c H. unfold BindSpec.shape_ok in H. repeat rewrite Bool.andb_true_iff in H.
  destruct H as [[[[H1 H2] H3] H4] H5].
  split; [apply Nat.leb_le; exact H1 |]. split; [exact H2 |]. split.
  - apply Bool.orb_true_iff in H3. destruct H3 as [H3 | H3]; [left; exact H3 | right].
    destruct (tail_part f c); [reflexivity | discriminate H3].
  - split; [rewrite forallb_forall in H4; exact H4 | apply distinct_NoDup; exact H5].
Qed.

Lemma named_in_nmd : forall f c x v,
  shape_ok f c = true -> In (Some x, v) c -> In (Some x, v) (named_part f c).
Proof.
  intros f c x v Hs Hin. destruct (shape_inv f c Hs) as [_ [Ht _]].
  rewrite (call_split f c) in Hin. apply in_app_or in Hin. destruct Hin as [Hin | Hin].
  - pose proof (lead_all_anon f c) as Hl. rewrite forallb_forall in Hl. specialize (Hl _ Hin). discriminate Hl.
  - apply in_app_or in Hin. destruct Hin as [Hin | Hin]; [exact Hin |].
    rewrite forallb_forall in Ht. specialize (Ht _ Hin). discriminate Ht.
Qed.

Lemma names_of_call : forall f c, shape_ok f c = true -> names_of c = names_of (named_part f c).
Proof.
  intros f c Hs. destruct (shape_inv f c Hs) as [_ [Ht _]].
  rewrite (call_split f c) at 1. rewrite !names_of_app.
  rewrite (names_of_anon _ (lead_all_anon f c)), (names_of_anon _ Ht), app_nil_r. reflexivity.
Qed.

Lemma slots_nth : forall f c ps j slots,
  slots_from f c j ps = Some slots ->
  forall i p, nth_error ps i = Some p ->
  exists v, designated f c (j + i) p = Some v /\ nth_error slots i = Some v.
Proof.
  intros f c ps. induction ps as [| q r IH]; intros j slots H i p Hp; [destruct i; discriminate Hp |].
  cbn [BindSpec.slots_from] in H. destruct (designated f c j q) as [v |] eqn:Ed; [| discriminate H].
  destruct (slots_from f c (S j) r) as [vs |] eqn:Er; [| discriminate H]. inversion H; subst.
  destruct i as [| i']; cbn [nth_error] in *.
  - inversion Hp; subst. exists v. rewrite Nat.add_0_r. split; [exact Ed | reflexivity].
  - destruct (IH (S j) vs Er i' p Hp) as [w [H1 H2]]. exists w.
    replace (j + S i')%nat with (S j + i')%nat by lia. split; assumption.
Qed.

Lemma slots_length : forall f c ps j slots, slots_from f c j ps = Some slots -> length slots = length ps.
Proof.
  intros f c ps. induction ps as [| q r IH]; intros j slots H; cbn [BindSpec.slots_from] in H.
  - inversion H. reflexivity.
  - destruct (designated f c j q); [| discriminate H].
    destruct (slots_from f c (S j) r) as [vs |] eqn:Er; [| discriminate H]. inversion H. cbn [length].
    f_equal. exact (IH _ _ Er).
Qed.

Lemma all_accept_nth : forall ps vs i p v,
  all_accept ps vs = true -> nth_error ps i = Some p -> nth_error vs i = Some v ->
  param_accepts (snd p) (type_of v) = true.
Proof.
  induction ps as [| q r IH]; intros vs i p v H Hp Hv; [destruct i; discriminate Hp |].
  destruct vs as [| w ws]; [destruct i; discriminate Hv |].
  cbn [BindSpec.all_accept] in H. apply Bool.andb_true_iff in H. destruct H as [H1 H2].
  destruct i as [| i']; cbn [nth_error] in *.
  - inversion Hp; inversion Hv; subst. exact H1.
  - exact (IH ws i' p v H2 Hp Hv).
Qed.

Lemma mandatory_prefix : forall ps i,
  mandatory_first ps = true -> (i < count_mandatory ps)%nat ->
  exists x t, nth_error ps i = Some (x, Positional t).
Proof.
  induction ps as [| [x d] r IH]; intros i Hm Hi; unfold count_mandatory in *; cbn [filter length] in Hi; [lia |].
  cbn [mandatory_first] in Hm. unfold is_mandatory, is_optional in *. cbn [snd] in *.
  destruct d as [t | dfl]; cbn [negb] in Hi.
  - destruct i as [| i']; [exists x, t; reflexivity |]. cbn [length] in Hi. cbn [nth_error]. apply IH; [exact Hm | lia].
  - exfalso. assert (Hz : length (filter (fun p : param => negb match snd p with Optional _ => true | Positional _ => false end) r) = 0%nat).
    { clear -Hm. induction r as [| q r' IHr]; [reflexivity |]. cbn [forallb] in Hm.
      apply Bool.andb_true_iff in Hm. destruct Hm as [H1 H2]. cbn [filter]. rewrite H1. cbn [negb]. apply IHr. exact H2. }
    rewrite Hz in Hi. lia.
Qed.

(** ** the clauses *)
Variable f : funcdef.
Hypothesis Hwf : wf_sig f = true.

Lemma to_spec : forall c, argvec f c = bind_spec f c.
Proof. intros c. apply argvec_eq_spec. exact Hwf. Qed.

Theorem never_panics : forall c,
  argvec f c = Err EType \/ exists slots extra, argvec f c = Ok (slots, extra).
Proof. intros c. rewrite to_spec. apply spec_cases. Qed.

Theorem leading_fill_in_order : forall c slots extra i,
  argvec f c = Ok (slots, extra) -> (i < lead_count f c)%nat ->
  nth_error slots i = nth_error (map snd c) i.
Proof.
  intros c slots extra i H Hi. rewrite to_spec in H.
  destruct (spec_ok_inv _ _ _ _ H) as [Hs [Hsl _]]. destruct (shape_inv _ _ Hs) as [Hm _].
  destruct (nth_error (fd_args f) i) as [p |] eqn:Ep.
  - destruct (slots_nth _ _ _ _ _ Hsl i p Ep) as [v [H1 H2]]. cbn [Nat.add] in H1.
    unfold BindSpec.designated in H1. assert (Hlt : Nat.ltb i (lead_count f c) = true) by (apply Nat.ltb_lt; exact Hi).
    rewrite Hlt in H1. rewrite H1. exact H2.
  - apply nth_error_None in Ep. lia.
Qed.

Theorem collecting_fills_only_mandatory : forall (c : list arg) i,
  collects f = true -> (i < lead_count f c)%nat ->
  exists x t, nth_error (fd_args f) i = Some (x, Positional t).
Proof.
  intros c i Hc Hi. unfold BindSpec.lead_count in Hi. rewrite Hc in Hi.
  unfold wf_sig in Hwf. repeat rewrite Bool.andb_true_iff in Hwf. destruct Hwf as [[[[H1 _] _] _] _].
  apply mandatory_prefix; [exact H1 | lia].
Qed.

Theorem tail_collected_in_order : forall c slots extra,
  argvec f c = Ok (slots, extra) ->
  extra = map snd (tail_part f c) /\ forallb anon (tail_part f c) = true
  /\ (tail_part f c <> [] -> collects f = true).
Proof.
  intros c slots extra H. rewrite to_spec in H.
  destruct (spec_ok_inv _ _ _ _ H) as [Hs [_ [He _]]]. destruct (shape_inv _ _ Hs) as [_ [Ht [Hc _]]].
  split; [exact He |]. split; [exact Ht |]. intros Hne. destruct Hc as [Hc | Hc]; [exact Hc | contradiction].
Qed.

Theorem named_goes_to_named : forall c slots extra x v,
  argvec f c = Ok (slots, extra) -> In (Some x, v) c ->
  exists i, index_of x (param_names f) = Some i /\ nth_error slots i = Some v.
Proof.
  intros c slots extra x v H Hin. rewrite to_spec in H.
  destruct (spec_ok_inv _ _ _ _ H) as [Hs [Hsl _]]. destruct (shape_inv _ _ Hs) as [_ [_ [_ [Hn Hnd]]]].
  pose proof (named_in_nmd _ _ _ _ Hs Hin) as Hin'.
  specialize (Hn x (In_names_of _ _ _ Hin')). unfold BindSpec.name_ok in Hn.
  destruct (index_of x (param_names f)) as [i |] eqn:Ei; [| discriminate Hn]. apply Nat.leb_le in Hn.
  exists i. split; [reflexivity |].
  pose proof (index_of_nth _ _ _ Ei) as Hx. unfold param_names in Hx.
  destruct (nth_error_map_inv _ _ _ _ Hx) as [p [Hp Hfp]].
  destruct (slots_nth _ _ _ _ _ Hsl i p Hp) as [w [H1 H2]]. cbn [Nat.add] in H1.
  unfold BindSpec.designated in H1. assert (Hlt : Nat.ltb i (lead_count f c) = false) by (apply Nat.ltb_ge; exact Hn).
  rewrite Hlt, Hfp, (lookup_NoDup_In _ _ _ Hnd Hin') in H1. inversion H1; subst. exact H2.
Qed.

Theorem defaults_fill : forall c slots extra i x d,
  argvec f c = Ok (slots, extra) ->
  nth_error (fd_args f) i = Some (x, Optional d) -> (lead_count f c <= i)%nat ->
  (forall v, ~ In (Some x, v) c) ->
  nth_error slots i = Some (of_valdef d).
Proof.
  intros c slots extra i x d H Hp Hi Hno. rewrite to_spec in H.
  destruct (spec_ok_inv _ _ _ _ H) as [Hs [Hsl _]].
  destruct (slots_nth _ _ _ _ _ Hsl i _ Hp) as [w [H1 H2]]. cbn [Nat.add] in H1.
  unfold BindSpec.designated in H1. assert (Hlt : Nat.ltb i (lead_count f c) = false) by (apply Nat.ltb_ge; exact Hi).
  rewrite Hlt in H1. cbn [fst snd] in H1. rewrite lookup_notin in H1.
  - inversion H1; subst. exact H2.
  - intros v Hv. apply (Hno v). apply (nmd_incl f c). exact Hv.
Qed.

Theorem unknown_name_rejected : forall c x v,
  In (Some x, v) c -> index_of x (param_names f) = None -> argvec f c = Err EType.
Proof.
  intros c x v Hin Hx. rewrite to_spec. unfold BindSpec.bind_spec.
  destruct (shape_ok f c) eqn:Hs; [exfalso | reflexivity].
  destruct (shape_inv _ _ Hs) as [_ [_ [_ [Hn _]]]].
  specialize (Hn x (In_names_of _ _ _ (named_in_nmd _ _ _ _ Hs Hin))).
  unfold BindSpec.name_ok in Hn. rewrite Hx in Hn. discriminate Hn.
Qed.

Theorem duplicate_rejected : forall c l1 l2 l3 x v w,
  c = l1 ++ (Some x, v) :: l2 ++ (Some x, w) :: l3 -> argvec f c = Err EType.
Proof.
  intros c l1 l2 l3 x v w Hc. rewrite to_spec. unfold BindSpec.bind_spec.
  destruct (shape_ok f c) eqn:Hs; [exfalso | reflexivity].
  destruct (shape_inv _ _ Hs) as [_ [_ [_ [_ Hnd]]]]. rewrite <- (names_of_call _ _ Hs) in Hnd.
  rewrite Hc, names_of_app in Hnd. cbn [BindSpec.names_of] in Hnd. rewrite names_of_app in Hnd.
  cbn [BindSpec.names_of] in Hnd. apply NoDup_remove_2 in Hnd. apply Hnd.
  apply in_or_app. right. apply in_or_app. right. left. reflexivity.
Qed.

Theorem already_supplied_rejected : forall c x v i,
  In (Some x, v) c -> index_of x (param_names f) = Some i -> (i < lead_count f c)%nat ->
  argvec f c = Err EType.
Proof.
  intros c x v i Hin Hx Hi. rewrite to_spec. unfold BindSpec.bind_spec.
  destruct (shape_ok f c) eqn:Hs; [exfalso | reflexivity].
  destruct (shape_inv _ _ Hs) as [_ [_ [_ [Hn _]]]].
  specialize (Hn x (In_names_of _ _ _ (named_in_nmd _ _ _ _ Hs Hin))).
  unfold BindSpec.name_ok in Hn. rewrite Hx in Hn. apply Nat.leb_le in Hn. lia.
Qed.

Theorem missing_mandatory_rejected : forall c i x t,
  nth_error (fd_args f) i = Some (x, Positional t) -> (lead_count f c <= i)%nat ->
  (forall v, ~ In (Some x, v) c) ->
  argvec f c = Err EType.
Proof.
  intros c i x t Hp Hi Hno. rewrite to_spec. unfold BindSpec.bind_spec.
  destruct (shape_ok f c) eqn:Hs; [| reflexivity].
  destruct (slots_from f c 0 (fd_args f)) as [slots |] eqn:Hsl; [exfalso | reflexivity].
  destruct (slots_nth _ _ _ _ _ Hsl i _ Hp) as [w [H1 _]]. cbn [Nat.add] in H1.
  unfold BindSpec.designated in H1. assert (Hlt : Nat.ltb i (lead_count f c) = false) by (apply Nat.ltb_ge; exact Hi).
  rewrite Hlt in H1. cbn [fst snd] in H1. rewrite lookup_notin in H1; [discriminate H1 |].
  intros v Hv. apply (Hno v). apply (nmd_incl f c). exact Hv.
Qed.

Theorem surplus_rejected : forall c,
  collects f = false -> (length (fd_args f) < length c)%nat -> argvec f c = Err EType.
Proof.
  intros c Hc Hlen. rewrite to_spec. unfold BindSpec.bind_spec.
  destruct (shape_ok f c) eqn:Hs; [exfalso | reflexivity].
  destruct (shape_inv _ _ Hs) as [Hm [_ [Ht [Hn Hnd]]]].
  destruct Ht as [Ht | Ht]; [rewrite Ht in Hc; discriminate Hc |].
  pose proof (call_split f c) as Hsp. rewrite Ht, app_nil_r in Hsp.
  assert (Hl : length c = (lead_count f c + length (named_part f c))%nat).
  { rewrite Hsp at 1. rewrite app_length, firstn_length, Nat.min_l by apply lead_count_le_len. reflexivity. }
  rewrite <- (names_of_named_length _ (nmd_all_named f c)) in Hl.
  assert (Hincl : incl (names_of (named_part f c)) (skipn (lead_count f c) (param_names f))).
  { intros y Hy. specialize (Hn y Hy). unfold BindSpec.name_ok in Hn.
    destruct (index_of y (param_names f)) as [j |] eqn:Ej; [| discriminate Hn]. apply Nat.leb_le in Hn.
    exact (index_of_Some_skipn _ _ _ _ Ej Hn). }
  pose proof (NoDup_incl_length Hnd Hincl) as Hle. rewrite skipn_length in Hle.
  unfold param_names in Hle. rewrite map_length in Hle. unfold BindSpec.arg in *. lia.
Qed.

Theorem misplaced_unnamed_rejected : forall c l1 l2 l3 x v w,
  collects f = false -> c = l1 ++ (Some x, v) :: l2 ++ (None, w) :: l3 -> argvec f c = Err EType.
Proof.
  intros c l1 l2 l3 x v w Hc Hcall. rewrite to_spec. unfold BindSpec.bind_spec.
  destruct (shape_ok f c) eqn:Hs; [exfalso | reflexivity].
  destruct (shape_inv _ _ Hs) as [_ [_ [Ht _]]].
  destruct Ht as [Ht | Ht]; [rewrite Ht in Hc; discriminate Hc |].
  pose proof (call_split f c) as Hsp. rewrite Ht, app_nil_r in Hsp. rewrite Hcall in Hsp at 1.
  symmetry in Hsp.
  exact (no_inversion anon named _ _ _ _ _ _ _ (lead_all_anon f c) (nmd_all_named f c) Hsp eq_refl eq_refl).
Qed.

Theorem named_after_collected_rejected : forall c l1 l2 l3 v x w,
  c = l1 ++ (None, v) :: l2 ++ (Some x, w) :: l3 -> (lead_count f c <= length l1)%nat ->
  argvec f c = Err EType.
Proof.
  intros c l1 l2 l3 v x w Hcall Hl. rewrite to_spec. unfold BindSpec.bind_spec.
  destruct (shape_ok f c) eqn:Hs; [exfalso | reflexivity].
  destruct (shape_inv _ _ Hs) as [_ [Ht _]].
  assert (Hsp : named_part f c ++ tail_part f c = skipn (lead_count f c) c)
    by apply (take_drop_while V named (skipn (lead_count f c) c)).
  pose proof (nmd_all_named f c) as HA.
  remember (lead_count f c) as m eqn:Em. remember (named_part f c) as A eqn:EA. remember (tail_part f c) as B eqn:EB.
  clear Em EA EB Hs. subst c. rewrite skipn_app in Hsp.
  replace (m - length l1)%nat with 0%nat in Hsp by lia. cbn [skipn] in Hsp.
  exact (no_inversion named anon _ _ _ _ _ _ _ HA Ht Hsp eq_refl eq_refl).
Qed.

Theorem accepted_values_compatible : forall c slots extra,
  argvec f c = Ok (slots, extra) ->
  length slots = length (fd_args f)
  /\ all_accept (fd_args f) slots = true
  /\ forallb (fun v => compat_spec (fd_collect f) (type_of v)) extra = true.
Proof.
  intros c slots extra H. rewrite to_spec in H.
  destruct (spec_ok_inv _ _ _ _ H) as [_ [Hsl [_ [Ha He]]]].
  split; [exact (slots_length _ _ _ _ _ Hsl) |]. split; assumption.
Qed.

Theorem incompatible_rejected : forall c,
  (forall x v i d, In (Some x, v) c -> nth_error (fd_args f) i = Some (x, d) ->
     param_accepts d (type_of v) = false -> argvec f c = Err EType)
  /\ (forall i v x d, (i < lead_count f c)%nat -> nth_error c i = Some (None, v) ->
     nth_error (fd_args f) i = Some (x, d) -> param_accepts d (type_of v) = false -> argvec f c = Err EType)
  /\ (forall a, In a (tail_part f c) -> compat_spec (fd_collect f) (type_of (snd a)) = false ->
     argvec f c = Err EType).
Proof.
  intros c. destruct (wf_parts f Hwf) as [W2 _].
  split; [| split].
  - intros x v i d Hin Hp Hbad. destruct (never_panics c) as [E | [slots [extra E]]]; [exact E | exfalso].
    destruct (named_goes_to_named _ _ _ _ _ E Hin) as [j [Hj Hv]].
    destruct (accepted_values_compatible _ _ _ E) as [_ [Ha _]].
    assert (Hx : nth_error (param_names f) i = Some x).
    { unfold param_names. rewrite (map_nth_error fst _ _ Hp). reflexivity. }
    rewrite (nth_index_of _ _ _ W2 Hx) in Hj. inversion Hj; subst j.
    pose proof (all_accept_nth _ _ _ _ _ Ha Hp Hv) as Hok. cbn [snd] in Hok. rewrite Hok in Hbad. discriminate Hbad.
  - intros i v x d Hi Hc Hp Hbad. destruct (never_panics c) as [E | [slots [extra E]]]; [exact E | exfalso].
    pose proof (leading_fill_in_order _ _ _ _ E Hi) as Hv.
    rewrite (map_nth_error snd _ _ Hc) in Hv. cbn [snd] in Hv.
    destruct (accepted_values_compatible _ _ _ E) as [_ [Ha _]].
    pose proof (all_accept_nth _ _ _ _ _ Ha Hp Hv) as Hok. cbn [snd] in Hok. rewrite Hok in Hbad. discriminate Hbad.
  - intros a Hin Hbad. destruct (never_panics c) as [E | [slots [extra E]]]; [exact E | exfalso].
    destruct (accepted_values_compatible _ _ _ E) as [_ [_ He]].
    destruct (tail_collected_in_order _ _ _ E) as [Hx _]. rewrite Hx in He.
    rewrite forallb_forall in He. specialize (He (snd a) (in_map snd _ _ Hin)).
    rewrite He in Hbad. discriminate Hbad.
Qed.

End Corollaries.
