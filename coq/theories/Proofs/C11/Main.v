(** C11: the binder equals the calling convention on every well-formed signature and every call. *)
From RS Require Import Base.Bytes Base.Outcome Bind.Types Bind.Binder Bind.BindSpec.
From Coq Require Import Arith Lia.
From RS Require Import Proofs.C11.Compat Proofs.C11.Split Proofs.C11.Fill.

Lemma forallb_ext' {A} : forall (g h : A -> bool) l, (forall x, g x = h x) -> forallb g l = forallb h l.
Proof. intros g h l H. induction l as [| x r IH]; cbn [forallb]; [reflexivity | rewrite H, IH; reflexivity]. Qed.

Lemma NoDup_skipn {A} : forall m (l : list A), NoDup l -> NoDup (skipn m l).
Proof.
  induction m as [| m IH]; intros l H; [exact H |]. destruct l as [| x r]; [constructor |].
  cbn [skipn]. apply IH. inversion H; assumption.
Qed.

Section Main.
Variable V : Type.
Variable type_of : V -> vtype.
Variable of_valdef : valdef -> V.

Notation arg := (BindSpec.arg V).
Notation anon := (anon V).
Notation named := (named V).
Notation take_while := (take_while V).
Notation drop_while := (drop_while V).
Notation names_of := (names_of V).
Notation lead_count := (lead_count V).
Notation named_part := (named_part V).
Notation tail_part := (tail_part V).
Notation mk := (Build_argprep V).

(** ** list facts about the split of a call *)
Lemma take_while_length_le : forall p (l : list arg), (length (take_while p l) <= length l)%nat.
Proof.
  intros p l. induction l as [| a r IH]; cbn [BindSpec.take_while length]; [lia |].
  destruct (p a); cbn [length]; lia.
Qed.

Lemma take_drop_while : forall p (l : list arg), take_while p l ++ drop_while p l = l.
Proof.
  intros p l. induction l as [| a r IH]; cbn [BindSpec.take_while BindSpec.drop_while]; [reflexivity |].
  destruct (p a); cbn [app]; [f_equal; exact IH | reflexivity].
Qed.

Lemma take_while_all : forall p (l : list arg), forallb p (take_while p l) = true.
Proof.
  intros p l. induction l as [| a r IH]; cbn [BindSpec.take_while]; [reflexivity |].
  destruct (p a) eqn:E; cbn [forallb]; [rewrite E; exact IH | reflexivity].
Qed.

Lemma skipn_anon_head : forall (c : list arg) k,
  (k < length (take_while anon c))%nat -> exists v r, skipn k c = (None, v) :: r.
Proof.
  induction c as [| [[x |] v] r IH]; intros k H; cbn [BindSpec.take_while BindSpec.anon fst length] in H; try lia.
  destruct k as [| k']; [exists v, r; reflexivity |]. cbn [skipn]. apply IH. lia.
Qed.

Lemma lead_count_le_anon : forall f (c : list arg), (lead_count f c <= length (take_while anon c))%nat.
Proof. intros f c. unfold BindSpec.lead_count. destruct (collects f); lia. Qed.

Lemma lead_count_le_len : forall f (c : list arg), (lead_count f c <= length c)%nat.
Proof. intros f c. pose proof (lead_count_le_anon f c). pose proof (take_while_length_le anon c). lia. Qed.

(** the first [lead_count] arguments are unnamed *)
Lemma lead_anon : forall f (c : list arg) i a,
  (i < lead_count f c)%nat -> nth_error c i = Some a -> fst a = None.
Proof.
  intros f c i a Hi. pose proof (lead_count_le_anon f c) as Hle.
  assert (Hi' : (i < length (take_while anon c))%nat) by lia. clear Hi Hle. revert i Hi'.
  induction c as [| [[x |] v] r IH]; intros i Hi H; cbn [BindSpec.take_while BindSpec.anon fst length] in Hi; try lia.
  destruct i as [| i']; cbn [nth_error] in H; [inversion H; reflexivity |]. apply (IH i'); [lia | exact H].
Qed.

Lemma typecheck_all_accept : forall ps vs, typecheck V type_of ps vs = all_accept V type_of ps vs.
Proof.
  induction ps as [| [x d] pr IH]; intros vs; [reflexivity |].
  destruct vs as [| v vr]; [reflexivity |]. cbn [typecheck all_accept snd].
  rewrite decl_compat, IH. reflexivity.
Qed.

Lemma extras_check : forall t (l : list V),
  existsb (fun x => negb (compatible_with t (type_of x))) l
  = negb (forallb (fun v => compat_spec t (type_of v)) l).
Proof.
  intros t l. induction l as [| v r IH]; cbn [existsb forallb]; [reflexivity |].
  rewrite IH, compat_table, Bool.negb_andb. reflexivity.
Qed.

Variable f : funcdef.
Hypothesis Hwf : wf_sig f = true.

Lemma wf_parts :
  NoDup (param_names f) /\ fd_arg_pos f = index_table 0 (param_names f)
  /\ fd_min_args f = count_mandatory (fd_args f).
Proof.
  unfold wf_sig in Hwf. repeat rewrite Bool.andb_true_iff in Hwf.
  destruct Hwf as [[[[H1 H2] H3] H4] H5].
  split; [apply distinct_NoDup; exact H2 |].
  split; [apply pos_table_eqb_eq; exact H3 | apply Nat.eqb_eq; exact H4].
Qed.

Lemma arg_pos_index : forall x, fd_arg_pos_of f x = index_of x (param_names f).
Proof.
  intros x. unfold fd_arg_pos_of. destruct wf_parts as [_ [H _]]. rewrite H, assoc_index_table.
  destruct (index_of x (param_names f)); reflexivity.
Qed.

Lemma min_args_le : (fd_min_args f <= length (fd_args f))%nat.
Proof. destruct wf_parts as [_ [_ H]]. rewrite H. apply filter_length_le'. Qed.

Lemma pos_ok_name_ok : forall c x, pos_ok f (lead_count f c) x = name_ok V f c x.
Proof. intros c x. unfold pos_ok, name_ok. rewrite arg_pos_index. reflexivity. Qed.

(** ** [split_args] in normal form *)
Lemma split_args_overflow : forall c,
  fd_is_collect f = false -> (length (fd_args f) < length (take_while anon c))%nat ->
  split_args V f c = Err EType.
Proof.
  intros c Ec Hlt. unfold split_args. rewrite split_anon by exact min_args_le. cbn zeta.
  unfold cap. rewrite Ec. cbn [length]. rewrite Nat.sub_0_r, Nat.min_r by lia.
  destruct (skipn_anon_head c _ Hlt) as [v [r E]]. rewrite E.
  rewrite split_optional.
  cbn [BindSpec.take_while BindSpec.drop_while BindSpec.named BindSpec.anon fst negb BindSpec.names_of check].
  rewrite split_collect. cbn [is_nil orb]. rewrite Ec. reflexivity.
Qed.

Lemma split_args_nf : forall c,
  (fd_is_collect f = true \/ (length (take_while anon c) <= length (fd_args f))%nat) ->
  split_args V f c =
  if check f (lead_count f c) [] (names_of (named_part f c))
     && ((is_nil (tail_part f c) || fd_is_collect f) && forallb anon (tail_part f c))
  then Ok (mk (map snd (firstn (lead_count f c) c)) (entries V (named_part f c)) (map snd (tail_part f c)))
  else Err EType.
Proof.
  intros c Hc. unfold split_args. rewrite split_anon by exact min_args_le. cbn zeta.
  assert (Hk : Nat.min (length (take_while anon c)) (cap f - length (@nil V)) = lead_count f c).
  { unfold cap, BindSpec.lead_count. change (collects f) with (fd_is_collect f).
    cbn [length]. rewrite Nat.sub_0_r. destruct wf_parts as [_ [_ H4]].
    destruct (fd_is_collect f); [rewrite H4; reflexivity |].
    destruct Hc as [Hc | Hc]; [discriminate Hc | lia]. }
  rewrite Hk. cbn [app].
  rewrite split_optional. cbn [map fst app].
  rewrite map_length, firstn_length, Nat.min_l by apply lead_count_le_len.
  fold (named_part f c). fold (tail_part f c).
  rewrite split_collect. cbn [app].
  destruct (check f (lead_count f c) [] (names_of (named_part f c))); [| reflexivity].
  cbn [andb]. reflexivity.
Qed.

(** ** the slots of the specification, split at [lead_count] *)
Notation slots_from := (slots_from V of_valdef).
Notation sel := (sel V of_valdef).

Lemma slots_from_app : forall c ps1 ps2 i,
  slots_from f c i (ps1 ++ ps2) =
  match slots_from f c i ps1, slots_from f c (i + length ps1) ps2 with
  | Some a, Some b => Some (a ++ b)
  | _, _ => None
  end.
Proof.
  intros c ps1. induction ps1 as [| p r IH]; intros ps2 i.
  - cbn [app BindSpec.slots_from length]. rewrite Nat.add_0_r. destruct (slots_from f c i ps2); reflexivity.
  - cbn [app BindSpec.slots_from length]. destruct (designated V of_valdef f c i p); [| reflexivity].
    rewrite IH. replace (S i + length r)%nat with (i + S (length r))%nat by lia.
    destruct (slots_from f c (S i) r); [| reflexivity].
    destruct (slots_from f c (i + S (length r)) ps2); reflexivity.
Qed.

Lemma skipn_nth_cons {A} : forall (l : list A) i v, nth_error l i = Some v -> skipn i l = v :: skipn (S i) l.
Proof.
  induction l as [| x r IH]; intros i v H; destruct i as [| i']; cbn [nth_error] in H; try discriminate H.
  - inversion H. reflexivity.
  - cbn [skipn]. rewrite (IH i' v H). reflexivity.
Qed.

Lemma slots_lead : forall c ps i,
  (i + length ps <= lead_count f c)%nat ->
  slots_from f c i ps = Some (firstn (length ps) (skipn i (map snd c))).
Proof.
  intros c ps. induction ps as [| p r IH]; intros i Hi; cbn [BindSpec.slots_from length firstn]; [reflexivity |].
  cbn [length] in Hi. unfold designated.
  assert (Hlt : Nat.ltb i (lead_count f c) = true) by (apply Nat.ltb_lt; lia). rewrite Hlt.
  destruct (nth_error (map snd c) i) as [v |] eqn:En.
  - rewrite IH by lia. rewrite (skipn_nth_cons _ _ _ En). reflexivity.
  - exfalso. apply nth_error_None in En. rewrite map_length in En. pose proof (lead_count_le_len f c). unfold BindSpec.arg in *. lia.
Qed.

Lemma slots_rest : forall c ps i,
  (lead_count f c <= i)%nat ->
  slots_from f c i ps = omap_all (sel (entries V (named_part f c))) ps.
Proof.
  intros c ps. induction ps as [| p r IH]; intros i Hi; cbn [BindSpec.slots_from omap_all]; [reflexivity |].
  unfold designated, Fill.sel.
  assert (Hlt : Nat.ltb i (lead_count f c) = false) by (apply Nat.ltb_ge; lia). rewrite Hlt.
  rewrite entries_lookup. rewrite IH by lia. reflexivity.
Qed.

Lemma slots_split : forall c,
  (lead_count f c <= length (fd_args f))%nat ->
  slots_from f c 0 (fd_args f) =
  match omap_all (sel (entries V (named_part f c))) (skipn (lead_count f c) (fd_args f)) with
  | Some vs => Some (map snd (firstn (lead_count f c) c) ++ vs)
  | None => None
  end.
Proof.
  intros c Hm. rewrite <- (firstn_skipn (lead_count f c) (fd_args f)) at 1.
  rewrite slots_from_app. cbn [Nat.add].
  rewrite firstn_length, Nat.min_l by exact Hm.
  rewrite slots_lead by (rewrite firstn_length; lia).
  rewrite firstn_length, Nat.min_l by exact Hm. cbn [skipn].
  rewrite slots_rest by lia. rewrite firstn_map. reflexivity.
Qed.

(** ** the theorem *)
Lemma argvec_eq_spec_main : forall c,
  (fd_is_collect f = true \/ (length (take_while anon c) <= length (fd_args f))%nat) ->
  argvec V type_of of_valdef f c = bind_spec V type_of of_valdef f c.
Proof.
  intros c Hc. unfold argvec, bind_spec. rewrite split_args_nf by exact Hc.
  destruct wf_parts as [W2 [W3 W4]].
  assert (Hm : (lead_count f c <= length (fd_args f))%nat).
  { pose proof (lead_count_le_anon f c) as H1. unfold BindSpec.lead_count in *.
    change (collects f) with (fd_is_collect f) in *.
    destruct (fd_is_collect f).
    - pose proof min_args_le as H2. rewrite W4 in H2. lia.
    - destruct Hc as [Hc | Hc]; [discriminate Hc | lia]. }
  assert (Hshape : shape_ok V f c =
    check f (lead_count f c) [] (names_of (named_part f c))
    && ((is_nil (tail_part f c) || fd_is_collect f) && forallb anon (tail_part f c))).
  { unfold shape_ok. rewrite check_nil_seen.
    rewrite (forallb_ext' _ _ _ (pos_ok_name_ok c)).
    assert (Hle : Nat.leb (lead_count f c) (length (fd_args f)) = true) by (apply Nat.leb_le; exact Hm).
    rewrite Hle. change (collects f) with (fd_is_collect f).
    change (match tail_part f c with [] => true | _ :: _ => false end) with (is_nil (tail_part f c)).
    destruct (forallb (name_ok V f c) (names_of (named_part f c)));
      destruct (distinct (names_of (named_part f c)));
      destruct (is_nil (tail_part f c)); destruct (fd_is_collect f);
      destruct (forallb anon (tail_part f c)); reflexivity. }
  rewrite Hshape.
  destruct (check f (lead_count f c) [] (names_of (named_part f c))
            && ((is_nil (tail_part f c) || fd_is_collect f) && forallb anon (tail_part f c))) eqn:Hcond;
    [| reflexivity].
  apply Bool.andb_true_iff in Hcond. destruct Hcond as [Hchk _].
  apply check_iff in Hchk. destruct Hchk as [Hpos [Hnd _]].
  cbn [obind ap_pos ap_named ap_extra].
  rewrite map_length, firstn_length, Nat.min_l by apply lead_count_le_len.
  assert (HndK : NoDup (map fst (skipn (lead_count f c) (fd_args f)))).
  { rewrite <- skipn_map. apply NoDup_skipn. exact W2. }
  rewrite fill_eq by exact HndK.
  rewrite slots_split by exact Hm.
  destruct (omap_all (sel (entries V (named_part f c))) (skipn (lead_count f c) (fd_args f))) as [vs |] eqn:Eo.
  - (* every parameter has a value: the arity check passes and nothing is left over *)
    assert (Hcount : Nat.ltb (lead_count f c + length (entries V (named_part f c))) (fd_min_args f) = false).
    { apply Nat.ltb_ge. rewrite W4. unfold count_mandatory.
      pose proof (mandatory_count_le V of_valdef _ _ _ HndK Eo) as H1.
      pose proof (filter_skipn_count is_mandatory (fd_args f) (lead_count f c)) as H2. unfold param in *. lia. }
    rewrite Hcount. cbn [obind].
    rewrite remove_all_nil.
    + rewrite typecheck_all_accept, extras_check.
      destruct (all_accept V type_of (fd_args f) (map snd (firstn (lead_count f c) c) ++ vs));
        cbn [negb andb]; [| reflexivity].
      destruct (forallb (fun v => compat_spec (fd_collect f) (type_of v)) (map snd (tail_part f c)));
        reflexivity.
    + rewrite entries_keys. exact Hnd.
    + rewrite entries_keys. intros k Hk. rewrite <- skipn_map.
      rewrite forallb_forall in Hpos. specialize (Hpos k Hk). unfold pos_ok in Hpos.
      rewrite arg_pos_index in Hpos.
      destruct (index_of k (param_names f)) as [i |] eqn:Ei; [| discriminate Hpos].
      apply Nat.leb_le in Hpos. exact (index_of_Some_skipn _ _ _ _ Ei Hpos).
  - destruct (Nat.ltb _ _); reflexivity.
Qed.

Theorem argvec_eq_spec : forall c,
  argvec V type_of of_valdef f c = bind_spec V type_of of_valdef f c.
Proof.
  intros c. destruct (fd_is_collect f) eqn:Ec.
  - apply argvec_eq_spec_main. left. exact Ec.
  - destruct (Nat.leb (length (take_while anon c)) (length (fd_args f))) eqn:El.
    + apply Nat.leb_le in El. apply argvec_eq_spec_main. right. exact El.
    + apply Nat.leb_gt in El. unfold argvec. rewrite split_args_overflow by assumption.
      unfold bind_spec, shape_ok, BindSpec.lead_count. change (collects f) with (fd_is_collect f). rewrite Ec.
      assert (H : Nat.leb (length (take_while anon c)) (length (fd_args f)) = false) by (apply Nat.leb_gt; exact El).
      rewrite H. reflexivity.
Qed.

End Main.
