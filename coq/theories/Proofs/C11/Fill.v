(** C11: what [fill] (step 2 of argvec: named values and defaults) computes. *)
From RS Require Import Base.Bytes Base.Outcome Bind.Types Bind.Binder Bind.BindSpec.
From Coq Require Import Arith Lia.
From RS Require Import Proofs.C11.Split.

Fixpoint omap_all {A B} (g : A -> option B) (l : list A) : option (list B) :=
  match l with
  | [] => Some []
  | x :: r => match g x, omap_all g r with
              | Some y, Some ys => Some (y :: ys)
              | _, _ => None
              end
  end.

Lemma omap_all_ext {A B} : forall (g h : A -> option B) l,
  (forall x, In x l -> g x = h x) -> omap_all g l = omap_all h l.
Proof.
  intros g h l. induction l as [| x r IH]; intros H; cbn [omap_all]; [reflexivity |].
  rewrite (H x) by (left; reflexivity). rewrite IH; [reflexivity |].
  intros y Hy. apply H. right. exact Hy.
Qed.

Lemma omap_all_length {A B} : forall (g : A -> option B) l vs, omap_all g l = Some vs -> length vs = length l.
Proof.
  intros g l. induction l as [| x r IH]; intros vs H; cbn [omap_all] in H.
  - inversion H. reflexivity.
  - destruct (g x); [| discriminate H]. destruct (omap_all g r) as [ys |]; [| discriminate H].
    inversion H. cbn [length]. f_equal. apply IH. reflexivity.
Qed.

Section Fill.
Variable V : Type.
Variable of_valdef : valdef -> V.
Notation fill := (fill V of_valdef).
Notation remove_named := (remove_named V).

(** the value for a parameter that was not filled by position *)
Definition sel (nm : list (string * V)) (p : param) : option V :=
  match assoc (fst p) nm with
  | Some v => Some v
  | None => match snd p with
            | Optional dfl => Some (of_valdef dfl)
            | Positional _ => None
            end
  end.

Fixpoint remove_all (names : list string) (nm : list (string * V)) : list (string * V) :=
  match names with
  | [] => nm
  | x :: r => remove_all r (remove_named x nm)
  end.

Lemma remove_named_absent : forall x l, assoc x l = None -> remove_named x l = l.
Proof.
  intros x l. induction l as [| [k v] r IH]; intros H; cbn [Binder.remove_named assoc] in *; [reflexivity |].
  destruct (String.eqb x k); [discriminate H |]. f_equal. apply IH. exact H.
Qed.

Lemma assoc_remove_other : forall x y l, x <> y -> assoc x (remove_named y l) = assoc x l.
Proof.
  intros x y l Hxy. induction l as [| [k v] r IH]; cbn [Binder.remove_named assoc]; [reflexivity |].
  destruct (String.eqb y k) eqn:E.
  - apply String.eqb_eq in E. subst k.
    destruct (String.eqb x y) eqn:E2; [apply String.eqb_eq in E2; contradiction | reflexivity].
  - cbn [assoc]. destruct (String.eqb x k); [reflexivity | exact IH].
Qed.

Lemma fill_eq : forall decls nm acc,
  NoDup (map fst decls) ->
  fill decls nm acc =
  match omap_all (sel nm) decls with
  | Some vs => Ok (acc ++ vs, remove_all (map fst decls) nm)
  | None => Err EType
  end.
Proof.
  induction decls as [| [name d] r IH]; intros nm acc Hnd.
  - cbn. rewrite app_nil_r. reflexivity.
  - cbn [map fst] in Hnd. inversion Hnd as [| x l Hnin Hnd']; subst.
    cbn [Binder.fill omap_all map fst remove_all]. unfold sel at 1. cbn [fst snd].
    destruct (assoc name nm) as [v |] eqn:Ea.
    + rewrite IH by exact Hnd'.
      rewrite (omap_all_ext (sel (remove_named name nm)) (sel nm)).
      * destruct (omap_all (sel nm) r); [rewrite <- app_assoc; reflexivity | reflexivity].
      * intros p Hp. unfold sel. rewrite assoc_remove_other; [reflexivity |].
        intros E. apply Hnin. rewrite <- E. apply in_map. exact Hp.
    + destruct d as [t | dfl]; [reflexivity |].
      rewrite IH by exact Hnd'. rewrite (remove_named_absent _ _ Ea).
      destruct (omap_all (sel nm) r); [rewrite <- app_assoc; reflexivity | reflexivity].
Qed.

Lemma remove_named_keys : forall x k l,
  NoDup (map fst l) -> In k (map fst (remove_named x l)) -> In k (map fst l) /\ k <> x.
Proof.
  intros x k l. induction l as [| [k' v] r IH]; intros Hnd H; cbn [Binder.remove_named map fst] in *.
  - contradiction.
  - inversion Hnd as [| y l Hnin Hnd']; subst. destruct (String.eqb x k') eqn:E.
    + apply String.eqb_eq in E. subst k'. split; [right; exact H |]. intros E. subst k. exact (Hnin H).
    + apply String.eqb_neq in E. cbn [map fst In] in H. destruct H as [H | H].
      * subst k'. split; [left; reflexivity |]. intros E2. apply E. symmetry. exact E2.
      * destruct (IH Hnd' H) as [H1 H2]. split; [right; exact H1 | exact H2].
Qed.

Lemma remove_named_NoDup : forall x l, NoDup (map fst l) -> NoDup (map fst (remove_named x l)).
Proof.
  intros x l. induction l as [| [k' v] r IH]; intros Hnd; cbn [Binder.remove_named map fst] in *; [constructor |].
  inversion Hnd as [| y l Hnin Hnd']; subst. destruct (String.eqb x k'); [exact Hnd' |].
  cbn [map fst]. constructor; [| apply IH; exact Hnd'].
  intros H. apply remove_named_keys in H; [| exact Hnd']. apply Hnin. apply H.
Qed.

Lemma remove_all_nil : forall names nm,
  NoDup (map fst nm) -> (forall k, In k (map fst nm) -> In k names) -> remove_all names nm = [].
Proof.
  induction names as [| x r IH]; intros nm Hnd Hin; cbn [remove_all].
  - destruct nm as [| [k v] t]; [reflexivity |]. exfalso. apply (Hin k). left. reflexivity.
  - apply IH; [apply remove_named_NoDup; exact Hnd |].
    intros k Hk. apply remove_named_keys in Hk; [| exact Hnd]. destruct Hk as [H1 H2].
    destruct (Hin k H1) as [H3 | H3]; [exfalso; apply H2; symmetry; exact H3 | exact H3].
Qed.

(** every mandatory parameter that got a value this way was named *)
Lemma sel_mandatory_named : forall nm ps vs,
  omap_all (sel nm) ps = Some vs ->
  forall p, In p ps -> is_mandatory p = true -> In (fst p) (map fst nm).
Proof.
  intros nm ps. induction ps as [| q r IH]; intros vs H p Hp Hm; [contradiction |].
  cbn [omap_all] in H. destruct (sel nm q) as [v |] eqn:Es; [| discriminate H].
  destruct (omap_all (sel nm) r) as [ys |] eqn:Er; [| discriminate H].
  destruct Hp as [Hp | Hp]; [| exact (IH ys eq_refl p Hp Hm)].
  subst q. unfold sel in Es. destruct (assoc (fst p) nm) eqn:Ea.
  - destruct (in_dec string_dec (fst p) (map fst nm)) as [Hi | Hi]; [exact Hi |].
    apply assoc_None_iff in Hi. rewrite Hi in Ea. discriminate Ea.
  - unfold is_mandatory, is_optional in Hm. destruct (snd p); [discriminate Es | discriminate Hm].
Qed.

Lemma NoDup_filter_keys : forall (P : param -> bool) ps, NoDup (map fst ps) -> NoDup (map fst (filter P ps)).
Proof.
  intros P ps. induction ps as [| q r IH]; intros Hnd; cbn [filter map]; [constructor |].
  cbn [map] in Hnd. inversion Hnd as [| y l Hnin Hnd']; subst.
  destruct (P q); [| apply IH; exact Hnd'].
  cbn [map]. constructor; [| apply IH; exact Hnd'].
  intros H. apply Hnin. apply in_map_iff in H. destruct H as [p [Hp1 Hp2]].
  apply filter_In in Hp2. rewrite <- Hp1. apply in_map. apply Hp2.
Qed.

Lemma mandatory_count_le : forall nm ps vs,
  NoDup (map fst ps) -> omap_all (sel nm) ps = Some vs ->
  (length (filter is_mandatory ps) <= length nm)%nat.
Proof.
  intros nm ps vs Hnd H.
  assert (H1 : (length (map fst (filter is_mandatory ps)) <= length (map fst nm))%nat);
    [| rewrite !map_length in H1; exact H1].
  apply NoDup_incl_length; [apply NoDup_filter_keys; exact Hnd |].
  intros x Hx. apply in_map_iff in Hx. destruct Hx as [p [Hp1 Hp2]]. apply filter_In in Hp2.
  destruct Hp2 as [Hp2 Hp3]. subst x. exact (sel_mandatory_named nm ps vs H p Hp2 Hp3).
Qed.

End Fill.

Lemma filter_skipn_count {A} : forall (P : A -> bool) l m,
  (length (filter P l) <= m + length (filter P (skipn m l)))%nat.
Proof.
  intros P l. induction l as [| x r IH]; intros m.
  - destruct m; cbn; lia.
  - destruct m as [| m']; [cbn [skipn]; lia |].
    cbn [skipn filter]. specialize (IH m'). destruct (P x); cbn [length]; lia.
Qed.

Lemma filter_length_le' {A} : forall (P : A -> bool) l, (length (filter P l) <= length l)%nat.
Proof.
  intros P l. induction l as [| x r IH]; cbn [filter length]; [lia |].
  destruct (P x); cbn [length]; lia.
Qed.
