(** C03 at the library level, ICMP: Icmp.echo / Icmp.echo_reply as dispatched by [exec], and echo
    histories on one flow object interleaved with any other calls. *)
From RS Require Import Base.Bytes Base.Outcome Bind.Types Pkt.Csum Pkt.Hdrs Pkt.Packet Ez.Icmp
  Interp.Val Interp.Eval Lib.LibBase Lib.StdLib Lib.Ipv4Lib Spec.Wire
  Proofs.BytesLemmas Proofs.Tactics Proofs.C02.IpLemmas Proofs.C02.TcpIp Proofs.C02.OtherIp Proofs.C03.Transport
  Proofs.C08.LibTac Proofs.C03.LibCalls.
From RSGen Require Import Catalogue.
From Coq Require Import Arith ZArith Lia ZifyBool ZifyNat ZifyN.
Ltac Zify.zify_post_hook ::= Z.div_mod_to_equations.
Open Scope N_scope.

Definition icmp_class : string := "ipv4::icmp::Icmp"%string.

(** identifier and counters are 16-bit values (they are: [icmp_flow_new] starts at 0x1234, 0, 0) *)
Definition icmp_fwf (f : icmp_flow) : Prop := if_id f < 65536 /\ if_ping f < 65536 /\ if_pong f < 65536.

(** the flow after one more request (reply) *)
Definition icmp_next (req : bool) (f : icmp_flow) : icmp_flow :=
  {| if_cl := if_cl f; if_sv := if_sv f; if_raw := if_raw f; if_id := if_id f;
     if_ping := if req then (if_ping f + 1) mod 65536 else if_ping f;
     if_pong := if req then if_pong f else (if_pong f + 1) mod 65536 |}.

Lemma icmp_next_wf req f : icmp_fwf f -> icmp_fwf (icmp_next req f).
Proof. intros (A & B & C). unfold icmp_fwf, icmp_next. destruct req; cbn; repeat split; try assumption; lia. Qed.

(** the frame, decoded: an IPv4 header for protocol 1 between [src] and [dst], then an ICMP message that
    verifies, of type [typ], code 0, with the given identifier and sequence number *)
Definition icmp_msg_ok (raw : bool) (p : packet) (src dst typ id seq : N) : Prop :=
  exists iph msg, l3_of raw (pk_body p) = (ip_ser iph ++ msg)%list
    /\ ip_proto iph = 1 /\ ip_src iph = src /\ ip_dst iph = dst
    /\ icmp_ok msg = true /\ nth 0 msg 0 = typ /\ nth 1 msg 0 = 0 /\ u16_at msg 4 = id /\ u16_at msg 6 = seq.

Lemma icmp_dgram_msg src dst raw typ id seq b p :
  typ < 256 -> id < 65536 -> seq < 65536 -> wf_bytes b -> 8 + len b < 65536 ->
  icmp_dgram src dst raw typ id seq b = Ok p -> icmp_msg_ok raw p src dst typ id seq.
Proof.
  intros Ht Hi Hs Hb Hfit E. unfold icmp_dgram in E. apply Ok_inj in E. subst p.
  unfold icmp_msg_ok, pkt_of_body. cbn [pk_body]. rewrite l3_of_framed by reflexivity.
  eexists. eexists. split; [reflexivity|].
  split; [reflexivity|]. split; [reflexivity|]. split; [reflexivity|].
  split; [apply icmp_verifies; assumption|].
  split; [reflexivity|]. split; [reflexivity|].
  unfold u16_at, icmp_ser, be16. cbn [app nth ic_id ic_seq]. split; lia.
Qed.

(** the payload argument, converted: every byte a byte, and header + payload fit an ICMP message *)
Definition icmp_payload_fits (slots : list val) : Prop :=
  forall pv b, slots = [pv] -> conv_buf pv = Ok b -> wf_bytes b /\ 8 + len b < 65536.

Definition icmp_side (req : bool) (f : icmp_flow) : N * N * N * N :=
  if req then (if_cl f, if_sv f, 8, if_ping f) else (if_sv f, if_cl f, 0, if_pong f).

Lemma echo_inv (req : bool) f b f' p :
  icmp_fwf f -> wf_bytes b -> 8 + len b < 65536 ->
  (if req then icmp_echo f b else icmp_echo_reply f b) = Ok (f', p) ->
  f' = icmp_next req f /\
  let '(src, dst, typ, seq) := icmp_side req f in icmp_msg_ok (if_raw f) p src dst typ (if_id f) seq.
Proof.
  intros (Hi & Hp & Hq) Hb Hfit H. unfold icmp_echo, icmp_echo_reply in H.
  destruct req; binv H; ok_inv H; (split; [reflexivity|]); cbn [icmp_side];
    (eapply icmp_dgram_msg; [| | | | |eassumption]; try assumption; unfold ICMP_ECHO, ICMP_ECHOREPLY; lia).
Qed.

Definition icmp_name (req : bool) : string := (if req then "echo" else "echo_reply")%string.

Theorem icmp_method_sound e ms name key slots extra h a f v h' :
  assoc icmp_class class_table = Some ms -> In (name, key) ms ->
  icmp_payload_fits slots ->
  nth_error h a = Some (OIcmp f) -> icmp_fwf f ->
  exec e key (Some a) slots extra h = Some (Ok (v, h')) ->
  exists req p, name = icmp_name req /\ v = VPkt p
    /\ (let '(src, dst, typ, seq) := icmp_side req f in icmp_msg_ok (if_raw f) p src dst typ (if_id f) seq)
    /\ h' = set_nth h a (OIcmp (icmp_next req f)).
Proof.
  intros Hms Hin Hfit Hn Hf H. vm_compute in Hms. apply Some_inj in Hms. subst ms.
  cbn [In] in Hin.
  repeat (destruct Hin as [Hin|Hin]; [apply pair_equal_spec in Hin; destruct Hin as [<- <-]|]); [..|contradiction Hin].
  - exec_unfold_in H. apply Some_inj in H. rewrite (take_this_some _ _ _ Hn), obind_ok in H. cbv beta iota in H.
    destruct slots as [|pv [|? ?]]; cbv beta iota in H; try (exfalso; exact (bad_args_not_ok' _ H)).
    binv H. ok_inv H. destruct (Hfit _ _ eq_refl E) as (Hb & Hl).
    destruct (echo_inv true f _ _ _ Hf Hb Hl E0) as (-> & M).
    exists true. eexists. split; [reflexivity|]. split; [reflexivity|]. split; [exact M|reflexivity].
  - exec_unfold_in H. apply Some_inj in H. rewrite (take_this_some _ _ _ Hn), obind_ok in H. cbv beta iota in H.
    destruct slots as [|pv [|? ?]]; cbv beta iota in H; try (exfalso; exact (bad_args_not_ok' _ H)).
    binv H. ok_inv H. destruct (Hfit _ _ eq_refl E) as (Hb & Hl).
    destruct (echo_inv false f _ _ _ Hf Hb Hl E0) as (-> & M).
    exists false. eexists. split; [reflexivity|]. split; [reflexivity|]. split; [exact M|reflexivity].
Qed.

(* ------------------------------------------------------------------ histories *)
Definition icmp_key (req : bool) : string :=
  (if req then "ipv4::icmp::Icmp.echo" else "ipv4::icmp::Icmp.echo_reply")%string.

(** [c] is a request (reply) on the object at [a] *)
Definition icmp_is (a : nat) (req : bool) (c : call) : bool :=
  match c_this c with
  | Some a' => Nat.eqb a' a && String.eqb (c_key c) (icmp_key req)
  | None => false
  end.

(** number of requests (replies) on [a] in a history *)
Definition icmp_count (a : nat) (req : bool) (cs : list call) : N := len (filter (icmp_is a req) cs).

(** a step of an interleaved history: an echo or echo_reply on [a] with a payload that fits, or any call
    that is neither and leaves the object at [a] alone *)
Definition icmp_step_ok (e : env) (a : nat) (c : call) : Prop :=
  (exists req, icmp_is a req c = true /\ icmp_payload_fits (c_slots c))
  \/ (icmp_is a true c = false /\ icmp_is a false c = false /\ foreign e a c).

(** the flow after [np] more requests and [nq] more replies *)
Definition icmp_after (f : icmp_flow) (np nq : N) : icmp_flow :=
  {| if_cl := if_cl f; if_sv := if_sv f; if_raw := if_raw f; if_id := if_id f;
     if_ping := (if_ping f + np) mod 65536; if_pong := (if_pong f + nq) mod 65536 |}.

Lemma icmp_is_inv a req c : icmp_is a req c = true ->
  c_this c = Some a /\ c_key c = icmp_key req /\ icmp_is a (negb req) c = false.
Proof.
  unfold icmp_is. destruct (c_this c) as [a'|]; [|discriminate]. intros H. apply andb_prop in H. destruct H as (H1 & H2).
  apply Nat.eqb_eq in H1. apply String.eqb_eq in H2. subst a'. split; [reflexivity|]. split; [exact H2|].
  rewrite H2, Nat.eqb_refl. destruct req; reflexivity.
Qed.

Lemma icmp_call_step e a req c h f v h1 :
  icmp_is a req c = true -> icmp_payload_fits (c_slots c) ->
  nth_error h a = Some (OIcmp f) -> icmp_fwf f ->
  do_call e c h = Some (Ok (v, h1)) ->
  (exists p, v = VPkt p
     /\ let '(src, dst, typ, seq) := icmp_side req f in icmp_msg_ok (if_raw f) p src dst typ (if_id f) seq)
  /\ h1 = set_nth h a (OIcmp (icmp_next req f)).
Proof.
  intros Hi Hfit Hn Hf H. destruct (icmp_is_inv _ _ _ Hi) as (Ht & Hk & _).
  unfold do_call in H. rewrite Ht, Hk in H.
  assert (Hm : exists ms, assoc icmp_class class_table = Some ms /\ In (icmp_name req, icmp_key req) ms).
  { eexists. split; [vm_compute; reflexivity|]. destruct req; cbn; auto. }
  destruct Hm as (ms & Hms & Hin).
  destruct (icmp_method_sound e ms _ _ _ _ h a f v h1 Hms Hin Hfit Hn Hf H) as (req' & p & En & -> & M & ->).
  assert (req' = req) by (destruct req, req'; try reflexivity; discriminate En). subst req'.
  split; [exists p; split; [reflexivity|exact M]|reflexivity].
Qed.

Lemma icmp_after_0 f : icmp_fwf f -> icmp_after f 0 0 = f.
Proof.
  intros (_ & B & C). destruct f as [cl sv raw id pi po]. unfold icmp_after. cbn in *.
  rewrite !N.add_0_r, !N.mod_small by assumption. reflexivity.
Qed.

Lemma icmp_after_next (req : bool) f np nq :
  icmp_after (icmp_next req f) np nq = icmp_after f (np + (if req then 1 else 0)) (nq + (if req then 0 else 1)).
Proof.
  unfold icmp_after, icmp_next. destruct req; cbn [if_cl if_sv if_raw if_id if_ping if_pong]; f_equal; lia.
Qed.

Lemma icmp_count_cons a req c r :
  icmp_count a req (c :: r) = icmp_count a req r + (if icmp_is a req c then 1 else 0).
Proof. unfold icmp_count. cbn [filter]. destruct (icmp_is a req c); rewrite ?len_cons; lia. Qed.

Lemma icmp_msg_ok_seq raw p src dst typ id s1 s2 : s1 = s2 ->
  icmp_msg_ok raw p src dst typ id s1 -> icmp_msg_ok raw p src dst typ id s2.
Proof. intros ->. exact (fun H => H). Qed.

(** the n-th request on a flow carries (n-1) mod 2^16, the n-th reply (n-1) mod 2^16 -- counted from the
    flow's counters at the start of the history --, one identifier throughout, whatever happens to other
    objects in between *)
Theorem icmp_history e a : forall cs h f vs h',
  nth_error h a = Some (OIcmp f) -> icmp_fwf f ->
  Forall (icmp_step_ok e a) cs ->
  run_hist e cs h = Some (vs, h') ->
  nth_error h' a = Some (OIcmp (icmp_after f (icmp_count a true cs) (icmp_count a false cs)))
  /\ forall n c v req, nth_error cs n = Some c -> nth_error vs n = Some v -> icmp_is a req c = true ->
       exists p, v = VPkt p /\
         let '(src, dst, typ, seq0) := icmp_side req f in
         icmp_msg_ok (if_raw f) p src dst typ (if_id f) ((seq0 + icmp_count a req (firstn n cs)) mod 65536).
Proof.
  induction cs as [|c r IH]; intros h f vs h' Hn Hf Hall H; cbn [run_hist] in H.
  - apply Some_inj in H. apply pair_equal_spec in H. destruct H as [<- <-].
    split; [change (icmp_count a true []) with 0; change (icmp_count a false []) with 0; rewrite icmp_after_0 by exact Hf; exact Hn|].
    intros n c v req Hc. destruct n; discriminate Hc.
  - destruct (do_call e c h) as [[[v h1]| | |]|] eqn:Ec; try discriminate H.
    destruct (run_hist e r h1) as [[vs2 h2]|] eqn:Er; try discriminate H.
    apply Some_inj in H. apply pair_equal_spec in H. destruct H as [<- <-].
    apply Forall_cons_iff in Hall. destruct Hall as (Hc & Hr).
    destruct Hc as [(req0 & Hi & Hfit)|(N1 & N2 & Hfor)].
    + destruct (icmp_call_step e a req0 c h f v h1 Hi Hfit Hn Hf Ec) as ((p & -> & M) & ->).
      destruct (icmp_is_inv _ _ _ Hi) as (_ & _ & Hneg).
      pose proof (nth_error_set_same h a (OIcmp (icmp_next req0 f)) _ Hn) as Hn1.
      destruct (IH _ _ _ _ Hn1 (icmp_next_wf req0 f Hf) Hr Er) as (Hfin & Hnth).
      split.
      * rewrite Hfin, icmp_after_next, !icmp_count_cons. destruct req0; cbn [negb] in Hneg; rewrite Hi, Hneg; rewrite ?N.add_0_r; reflexivity.
      * intros n c' v' req Hc' Hv' Hi'. destruct n as [|n].
        -- cbn [nth_error] in Hc', Hv'. apply Some_inj in Hc', Hv'. subst c' v'.
           assert (req = req0) by (destruct req, req0; try reflexivity; cbn [negb] in Hneg; congruence). subst req.
           exists p. split; [reflexivity|]. cbn [firstn]. change (icmp_count a req0 []) with 0.
           destruct Hf as (_ & B & C). destruct req0; cbn [icmp_side] in *;
             (eapply icmp_msg_ok_seq; [|exact M]); rewrite N.add_0_r, N.mod_small; try reflexivity; assumption.
        -- cbn [nth_error] in Hc', Hv'. destruct (Hnth n c' v' req Hc' Hv' Hi') as (p' & -> & M').
           exists p'. split; [reflexivity|]. cbn [firstn]. rewrite icmp_count_cons.
           destruct req, req0; cbn [negb] in Hneg; cbn [icmp_side icmp_next if_cl if_sv if_raw if_id if_ping if_pong] in *;
             rewrite ?Hi, ?Hneg; (eapply icmp_msg_ok_seq; [|exact M']); lia.
    + pose proof (Hfor h v h1 _ Hn Ec) as Hn1.
      destruct (IH _ _ _ _ Hn1 Hf Hr Er) as (Hfin & Hnth).
      split.
      * rewrite Hfin, !icmp_count_cons, N1, N2, !N.add_0_r. reflexivity.
      * intros n c' v' req Hc' Hv' Hi'. destruct n as [|n].
        -- cbn [nth_error] in Hc'. apply Some_inj in Hc'. subst c'. destruct req; congruence.
        -- cbn [nth_error] in Hc', Hv'. destruct (Hnth n c' v' req Hc' Hv' Hi') as (p' & -> & M').
           exists p'. split; [reflexivity|]. cbn [firstn]. rewrite icmp_count_cons.
           destruct req; rewrite ?N1, ?N2, N.add_0_r; exact M'.
Qed.
