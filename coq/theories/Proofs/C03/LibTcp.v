(** C03 at the library level, TCP: every method of the TcpFlow class, as dispatched by [exec].
    The packet-level facts come from Proofs/C03/Transport.v and LibTcpOps.v; here the library bodies
    (argument conversion, seq/ack overrides, write-back of the flow object) are walked. *)
From RS Require Import Base.Bytes Base.Outcome Bind.Types Pkt.Csum Pkt.Hdrs Pkt.Packet Ez.Tcp
  Interp.Val Interp.Eval Lib.LibBase Lib.StdLib Lib.Ipv4Lib Spec.Wire
  Proofs.BytesLemmas Proofs.Tactics Proofs.C02.TcpIp Proofs.C03.Transport Proofs.C08.LibTac Proofs.C03.LibCalls
  Proofs.C03.LibTcpOps.
From RSGen Require Import Catalogue.
From Coq Require Import Arith Lia.
Open Scope N_scope.
Open Scope string_scope.

(** what a TcpFlow method returns *)
Inductive tcp_ret :=
| RPackets                 (* one packet or a sequence of packets *)
| RRawSeg (client : bool)  (* the TCP segment (header + payload) as a byte string *)
| RHdr (client : bool)     (* a bare TCP header as a byte string *)
| RNone.                   (* nothing: the call only moves a counter *)

Definition tcp_kinds : list (string * tcp_ret) := [
  ("open", RPackets); ("client_message", RPackets); ("server_message", RPackets);
  ("client_segment", RPackets); ("server_segment", RPackets);
  ("client_raw_segment", RRawSeg true); ("server_raw_segment", RRawSeg false);
  ("client_hdr", RHdr true); ("server_hdr", RHdr false);
  ("client_ack", RPackets); ("server_ack", RPackets);
  ("client_hole", RNone); ("server_hole", RNone);
  ("client_close", RPackets); ("server_close", RPackets);
  ("client_reset", RPackets); ("server_reset", RPackets) ].

(** header-only methods: a PSH|ACK header carrying the side's current counters, checksum field zero *)
Definition hdr_of (client : bool) (f : tcp_flow) : tcp_hdr :=
  let me := if client then tf_cl f else tf_sv f in
  let peer := if client then tf_sv f else tf_cl f in
  {| th_sport := snd me; th_dport := snd peer;
     th_seq := if client then tf_cl_seq f else tf_sv_seq f;
     th_ack := if client then tf_sv_seq f else tf_cl_seq f;
     th_flags := 24; th_win := 65535; th_csum := 0; th_urp := 0 |}.

(** a packet of flow [f]: a checksummed segment of the model ([tcp_good], Proofs/C03/Transport.v) whose frame
    decodes to an IPv4 header between the flow's addresses and a verifying TCP segment ([tcp_wire]) *)
Definition tcp_pkt_ok (f : tcp_flow) (p : packet) : Prop := tcp_good p /\ tcp_wire f p.

Lemma sent_pkt_ok f p : sent_by f p -> tcp_pkt_ok f p.
Proof. intros H. split; [eapply sent_good, H|apply sent_wire, H]. Qed.
Lemma pkt_ok_socks f' f p : same_socks f' f -> tcp_pkt_ok f' p -> tcp_pkt_ok f p.
Proof. intros S (A & B). split; [exact A|eapply tcp_wire_socks; eassumption]. Qed.

Definition tcp_result_ok (k : tcp_ret) (f : tcp_flow) (v : val) : Prop :=
  match k with
  | RPackets => exists ps, conv_pktgen v = Ok ps /\ Forall (tcp_pkt_ok f) ps
  | RRawSeg client => exists b, v = VStr b /\ tcp_ok (side_src client f) (side_dst client f) b = true
  | RHdr client => v = VStr (tcp_ser (hdr_of client f))
  | RNone => v = VNil
  end.

(* ------------------------------------------------------------------ overrides *)
Lemma pop_twf f2 f c s : flow_twf f2 -> flow_twf f ->
  flow_twf (flow_pop_state f2 (snd (flow_push_state f c s))).
Proof.
  intros (A & B & C & D) (_ & _ & C' & D'). unfold flow_twf, flow_pop_state, flow_push_state.
  cbn [fst snd tf_with_seqs tf_cl tf_sv tf_cl_seq tf_sv_seq].
  split; [exact A|]. split; [exact B|]. split; [destruct c; assumption|destruct s; assumption].
Qed.

(** the body runs on a well-formed flow with the same sockets; what it establishes about its value
    holds for the call, and the flow written back is well formed *)
Lemma with_override_inv {A} f client sq ak (k : tcp_flow -> outcome (tcp_flow * A)) (P : A -> Prop) f' v :
  flow_twf f ->
  (forall n, sq = Some n -> n < 4294967296) -> (forall n, ak = Some n -> n < 4294967296) ->
  (forall f1 f2 w, flow_twf f1 -> same_socks f1 f -> k f1 = Ok (f2, w) -> flow_twf f2 /\ same_socks f2 f1 /\ P w) ->
  with_override f client sq ak k = Ok (f', v) ->
  flow_twf f' /\ same_socks f' f /\ P v.
Proof.
  intros Hf Hsq Hak K H. unfold with_override in H.
  set (cs := if client then (sq, ak) else (ak, sq)) in H.
  assert (Hc : (forall n, fst cs = Some n -> n < 4294967296) /\ (forall n, snd cs = Some n -> n < 4294967296)).
  { unfold cs. destruct client; cbn [fst snd]; split; assumption. }
  destruct Hc as (Hc1 & Hc2).
  pose proof (push_pop_twf f (fst cs) (snd cs) Hf Hc1 Hc2) as W1.
  assert (S1 : same_socks (fst (flow_push_state f (fst cs) (snd cs))) f) by (repeat split).
  binv H. ok_inv H. destruct (K _ _ _ W1 S1 E) as (W2 & S2 & Pw).
  split; [apply pop_twf; assumption|]. split; [|exact Pw].
  destruct S2 as (A1 & A2 & A3). repeat split; cbn; assumption.
Qed.

Ltac ov_inv H P Hf Hsq Hak :=
  match type of H with
  | with_override ?f ?c ?sq ?ak ?k = Ok (?f', ?v) =>
    let K := fresh "K" in
    assert (K : forall f1 f2 w, flow_twf f1 -> same_socks f1 f -> k f1 = Ok (f2, w) ->
                flow_twf f2 /\ same_socks f2 f1 /\ P w);
    [ cbv beta
    | let W := fresh "W" in let S := fresh "S" in let Pv := fresh "Pv" in
      destruct (with_override_inv f c sq ak k P f' v Hf Hsq Hak K H) as (W & S & Pv);
      split; [exact Pv|]; split; assumption ]
  end.

(* ------------------------------------------------------------------ the method families *)
Definition post (k : tcp_ret) (f : tcp_flow) (r : tcp_flow * val) : Prop :=
  tcp_result_ok k f (snd r) /\ flow_twf (fst r) /\ same_socks (fst r) f.

Lemma sent_all_ok f ps : Forall (sent_by f) ps -> Forall (tcp_pkt_ok f) ps.
Proof. apply Forall_impl. intros p. apply sent_pkt_ok. Qed.

Lemma gen_family f (op : tcp_flow -> outcome (tcp_flow * list packet)) r :
  flow_twf f ->
  (forall f' ps, flow_twf f -> op f = Ok (f', ps) -> Forall (sent_by f) ps /\ flow_twf f' /\ same_socks f' f) ->
  (do (f2, ps) <- op f; Ok (f2, VPktGen ps)) = Ok r -> post RPackets f r.
Proof.
  intros Hf K H. binv H. ok_inv H. destruct (K _ _ Hf E) as (G & W & S).
  split; [eexists; split; [reflexivity|apply sent_all_ok, G]|]. split; assumption.
Qed.

Lemma one_family (client : bool) f r :
  flow_twf f ->
  (do p <- (if client then flow_client_reset else flow_server_reset) f; Ok (f, VPkt p)) = Ok r -> post RPackets f r.
Proof.
  intros Hf H. binv H. ok_inv H.
  split; [|split; [exact Hf|apply same_socks_refl]].
  eexists. split; [reflexivity|]. constructor; [|constructor]. apply sent_pkt_ok, (reset_sent client); [exact Hf|].
  destruct client; exact E.
Qed.

Lemma message_family (client : bool) f sa sq ak fo b r :
  flow_twf f -> (forall n, sq = Some n -> n < 4294967296) -> (forall n, ak = Some n -> n < 4294967296) ->
  wf_bytes b -> 20 + len b < 65536 ->
  with_override f client sq ak (fun f1 =>
    do (f2, ps) <- (if client then flow_client_message else flow_server_message) f1 b sa fo;
    Ok (f2, VPktGen ps)) = Ok r -> post RPackets f r.
Proof.
  intros Hf Hsq Hak Hb Hfit H. destruct r as [f' v].
  ov_inv H (tcp_result_ok RPackets f) Hf Hsq Hak.
  intros f1 f2 w W1 S1 E.
  binv E. ok_inv E.
  match goal with Em : _ = Ok (?f2, ?ps) |- _ =>
    assert (Em' : (if client then flow_client_message f1 b sa fo else flow_server_message f1 b sa fo) = Ok (f2, ps))
      by (destruct client; exact Em);
    destruct (message_sent client f1 b sa fo f2 ps W1 Hb Hfit Em') as (G & W2 & S2);
    split; [exact W2|]; split; [exact S2|];
    exists ps; split; [reflexivity|];
    apply sent_all_ok; eapply Forall_impl; [|exact G]; intros p; apply sent_socks, S1
  end.
Qed.

Lemma side_same client f1 f : same_socks f1 f -> side_src client f1 = side_src client f /\ side_dst client f1 = side_dst client f.
Proof. intros (A & B & C). unfold side_src, side_dst. destruct client; rewrite A, B; split; reflexivity. Qed.

Lemma segment_family (client raw : bool) f sq ak b r :
  flow_twf f -> (forall n, sq = Some n -> n < 4294967296) -> (forall n, ak = Some n -> n < 4294967296) ->
  wf_bytes b -> 20 + len b < 65536 ->
  with_override f client sq ak (fun f1 =>
    do (f2, s) <- (if client then flow_client_data_segment else flow_server_data_segment) f1 b;
    Ok (f2, if raw then VStr (seg_tcpseg s) else VPkt (seg_packet s))) = Ok r ->
  post (if raw then RRawSeg client else RPackets) f r.
Proof.
  intros Hf Hsq Hak Hb Hfit H. destruct r as [f' v].
  ov_inv H (tcp_result_ok (if raw then RRawSeg client else RPackets) f) Hf Hsq Hak.
  intros f1 f2 w W1 S1 E.
  binv E. ok_inv E.
  match goal with Em : _ = Ok (?f2, ?s) |- _ =>
    assert (Em' : (if client then flow_client_data_segment f1 b else flow_server_data_segment f1 b) = Ok (f2, s))
      by (destruct client; exact Em);
    destruct (data_segment_sent client f1 b f2 s W1 Hb Hfit Em') as (G & W2 & S2 & V);
    split; [exact W2|]; split; [exact S2|];
    destruct (side_same client f1 f S1) as (Q1 & Q2); rewrite Q1, Q2 in V;
    destruct raw; cbn [tcp_result_ok];
    [ exists (seg_tcpseg s); split; [reflexivity|exact V]
    | exists [seg_packet s]; split; [reflexivity|];
      constructor; [apply sent_pkt_ok, (sent_socks _ _ _ S1 G)|constructor] ]
  end.
Qed.

Lemma ack_family (client : bool) f sq ak r :
  flow_twf f -> (forall n, sq = Some n -> n < 4294967296) -> (forall n, ak = Some n -> n < 4294967296) ->
  with_override f client sq ak (fun f1 =>
    do s <- (if client then flow_client_ack else flow_server_ack) f1;
    Ok (f1, VPkt (seg_packet s))) = Ok r -> post RPackets f r.
Proof.
  intros Hf Hsq Hak H. destruct r as [f' v].
  ov_inv H (tcp_result_ok RPackets f) Hf Hsq Hak.
  intros f1 f2 w W1 S1 E.
  binv E. ok_inv E. split; [exact W1|]. split; [apply same_socks_refl|].
  eexists. split; [reflexivity|]. constructor; [|constructor].
  apply sent_pkt_ok, (sent_socks _ _ _ S1), (ack_sent client); [exact W1|].
  match goal with Em : _ = Ok _ |- _ => destruct client; exact Em end.
Qed.

Lemma hdr_family (client : bool) f d r :
  flow_twf f ->
  (do (f2, b) <- (if client then flow_client_hdr else flow_server_hdr) f d; Ok (f2, VStr b)) = Ok r ->
  post (RHdr client) f r.
Proof.
  intros Hf H. unfold flow_client_hdr, flow_server_hdr in H.
  destruct client; binv H; ok_inv E; ok_inv H; (split; [reflexivity|]); (split; [apply flow_update_twf, Hf|repeat split]).
Qed.

Lemma hole_family (client : bool) f d : flow_twf f ->
  post RNone f ((if client then flow_client_hole else flow_server_hole) f d, VNil).
Proof.
  intros Hf. split; [reflexivity|]. unfold flow_client_hole, flow_server_hole.
  destruct client; (split; [apply flow_update_twf, Hf|repeat split]).
Qed.

(* ------------------------------------------------------------------ dispatch: every method of the class *)
Definition tcp_class : string := "ipv4::tcp::TcpFlow".

Ltac arity H :=
  match type of H with
  | obind bad_args _ = Ok _ => exfalso; exact (bad_args_not_ok _ _ H)
  | bad_args = Ok _ => exfalso; exact (bad_args_not_ok' _ H)
  | _ => idtac
  end.

(** after dispatch: the receiver is taken from the heap, the body runs on it, the new flow is written back *)
Ltac tcp_enter H Hn :=
  exec_unfold_in H; apply Some_inj in H;
  rewrite (take_this_some _ _ _ Hn), obind_ok in H; cbv beta iota in H;
  binv1 H; ok_inv H.

Ltac finish k :=
  match goal with
  | P : post _ ?f (?f', ?v) |- _ =>
    destruct P as (R & W & S); cbn [fst snd] in R, W, S;
    exists k, f'; split; [reflexivity|]; split; [exact R|]; split; [reflexivity|]; split; assumption
  end.

Ltac slots_shape E slots :=
  destruct slots as [|?s [|?s [|?s [|?s [|?s ?]]]]]; cbv beta iota in E; arity E.

Ltac t_gen sent Hf :=
  match goal with E : _ = Ok (_, _) |- _ =>
    apply gen_family in E; [ finish RPackets | exact Hf | intros; eapply sent; eassumption ]
  end.

Ltac t_one c Hf :=
  match goal with E : _ = Ok (_, _) |- _ => apply (one_family c) in E; [finish RPackets | exact Hf] end.

Ltac t_message c Hf Hfit :=
  match goal with
  | Eo : with_override _ _ ?sq ?ak _ = Ok _, E1 : conv_opt conv_u32 _ = Ok ?sq, E2 : conv_opt conv_u32 _ = Ok ?ak,
    Ej : join_extra [] _ = Ok ?b |- _ =>
    let Hb := fresh "Hb" in let Hl := fresh "Hl" in
    destruct (Hfit _ Ej) as (Hb & Hl);
    apply (message_family c) in Eo;
    [ finish RPackets | exact Hf | exact (conv_opt_u32_lt _ _ E1) | exact (conv_opt_u32_lt _ _ E2) | exact Hb | exact Hl ]
  end.

Ltac t_segment c raw k Hf Hfit :=
  match goal with
  | Eo : with_override _ _ ?sq ?ak _ = Ok _, E1 : conv_opt conv_u32 _ = Ok ?sq, E2 : conv_opt conv_u32 _ = Ok ?ak,
    Ej : join_extra [] _ = Ok ?b |- _ =>
    let Hb := fresh "Hb" in let Hl := fresh "Hl" in
    destruct (Hfit _ Ej) as (Hb & Hl);
    apply (segment_family c raw) in Eo;
    [ cbv iota in Eo; finish k | exact Hf | exact (conv_opt_u32_lt _ _ E1) | exact (conv_opt_u32_lt _ _ E2) | exact Hb | exact Hl ]
  end.

Ltac t_ack c Hf :=
  match goal with
  | Eo : with_override _ _ ?sq ?ak _ = Ok _, E1 : conv_opt conv_u32 _ = Ok ?sq, E2 : conv_opt conv_u32 _ = Ok ?ak |- _ =>
    apply (ack_family c) in Eo;
    [ finish RPackets | exact Hf | exact (conv_opt_u32_lt _ _ E1) | exact (conv_opt_u32_lt _ _ E2) ]
  end.

Ltac t_hdr c Hf :=
  match goal with Eo : obind _ _ = Ok (_, _) |- _ => apply (hdr_family c) in Eo; [finish (RHdr c) | exact Hf] end.

Ltac t_hole c Hf :=
  match goal with Eo : Ok (_, VNil) = Ok (_, _), Ed : conv_u32 _ = Ok ?d |- _ =>
    ok_inv Eo; pose proof (hole_family c _ d Hf) as P; finish RNone end.

Theorem tcp_method_sound e ms name key slots extra h a f v h' :
  assoc tcp_class class_table = Some ms -> In (name, key) ms ->
  payload_fits 20 extra ->
  nth_error h a = Some (OTcp f) -> flow_twf f ->
  exec e key (Some a) slots extra h = Some (Ok (v, h')) ->
  exists k f', assoc name tcp_kinds = Some k /\ tcp_result_ok k f v
    /\ h' = set_nth h a (OTcp f') /\ flow_twf f' /\ same_socks f' f.
Proof.
  intros Hms Hin Hfit Hn Hf H. vm_compute in Hms. apply Some_inj in Hms. subst ms.
  cbn [In] in Hin.
  repeat (destruct Hin as [Hin|Hin]; [apply pair_equal_spec in Hin; destruct Hin as [<- <-]|]); [..|contradiction Hin].
  - (* open *) tcp_enter H Hn. t_gen open_sent Hf.
  - (* client_message *) tcp_enter H Hn. slots_shape E slots. binv E. t_message true Hf Hfit.
  - (* server_message *) tcp_enter H Hn. slots_shape E slots. binv E. t_message false Hf Hfit.
  - (* client_segment *) tcp_enter H Hn. slots_shape E slots. binv E. t_segment true false RPackets Hf Hfit.
  - (* server_segment *) tcp_enter H Hn. slots_shape E slots. binv E. t_segment false false RPackets Hf Hfit.
  - (* client_raw_segment *) tcp_enter H Hn. slots_shape E slots. binv E. t_segment true true (RRawSeg true) Hf Hfit.
  - (* server_raw_segment *) tcp_enter H Hn. slots_shape E slots. binv E. t_segment false true (RRawSeg false) Hf Hfit.
  - (* client_hdr *) tcp_enter H Hn. slots_shape E slots. binv1 E. t_hdr true Hf.
  - (* server_hdr *) tcp_enter H Hn. slots_shape E slots. binv1 E. t_hdr false Hf.
  - (* client_ack *) tcp_enter H Hn. slots_shape E slots. binv E. t_ack true Hf.
  - (* server_ack *) tcp_enter H Hn. slots_shape E slots. binv E. t_ack false Hf.
  - (* client_hole *) tcp_enter H Hn. slots_shape E slots. binv E. t_hole true Hf.
  - (* server_hole *) tcp_enter H Hn. slots_shape E slots. binv E. t_hole false Hf.
  - (* client_close *) tcp_enter H Hn. t_gen client_close_sent Hf.
  - (* server_close *) tcp_enter H Hn. t_gen server_close_sent Hf.
  - (* client_reset *) tcp_enter H Hn. t_one true Hf.
  - (* server_reset *) tcp_enter H Hn. t_one false Hf.
Qed.

(* ------------------------------------------------------------------ histories on one flow object *)
(** a call of a TcpFlow method on the object at [a] whose payload fits a segment *)
Definition tcp_call_on (a : nat) (c : call) : Prop :=
  c_this c = Some a /\ (exists name, class_method tcp_class name (c_key c)) /\ payload_fits 20 (c_extra c).

(** what the call returned, in terms of the state [fi] the flow had when the call was made *)
Definition tcp_call_ok (f : tcp_flow) (c : call) (v : val) : Prop :=
  exists fi name k, flow_twf fi /\ same_socks fi f /\ class_method tcp_class name (c_key c)
    /\ assoc name tcp_kinds = Some k /\ tcp_result_ok k fi v.

Theorem tcp_history e a : forall cs h f vs h',
  nth_error h a = Some (OTcp f) -> flow_twf f ->
  Forall (fun c => tcp_call_on a c \/ foreign e a c) cs ->
  run_hist e cs h = Some (vs, h') ->
  (exists f', nth_error h' a = Some (OTcp f') /\ flow_twf f' /\ same_socks f' f)
  /\ Forall2 (fun c v => tcp_call_on a c -> tcp_call_ok f c v) cs vs.
Proof.
  induction cs as [|c r IH]; intros h f vs h' Hn Hf Hall H; cbn [run_hist] in H.
  - apply Some_inj in H. apply pair_equal_spec in H. destruct H as [<- <-].
    split; [exists f; split; [exact Hn|split; [exact Hf|apply same_socks_refl]]|constructor].
  - destruct (do_call e c h) as [[[v h1]| | |]|] eqn:Ec; try discriminate H.
    destruct (run_hist e r h1) as [[vs2 h2]|] eqn:Er; try discriminate H.
    apply Some_inj in H. apply pair_equal_spec in H. destruct H as [<- <-].
    apply Forall_cons_iff in Hall. destruct Hall as (Hc & Hr).
    assert (Step : exists f1, nth_error h1 a = Some (OTcp f1) /\ flow_twf f1 /\ same_socks f1 f
                              /\ (tcp_call_on a c -> tcp_call_ok f c v)).
    { assert (Own : tcp_call_on a c -> exists f1, nth_error h1 a = Some (OTcp f1) /\ flow_twf f1 /\ same_socks f1 f
                                                  /\ tcp_call_ok f c v).
      { intros (Ht & (name & ms & Hms & Hin) & Hfit). unfold do_call in Ec. rewrite Ht in Ec.
        destruct (tcp_method_sound e ms name _ _ _ h a f v h1 Hms Hin Hfit Hn Hf Ec) as (k & f1 & Hk & R & -> & W & S).
        exists f1. split; [eapply nth_error_set_same, Hn|]. split; [exact W|]. split; [exact S|].
        exists f, name, k. split; [exact Hf|]. split; [apply same_socks_refl|].
        split; [exists ms; split; assumption|]. split; assumption. }
      destruct Hc as [Hc|Hc].
      - destruct (Own Hc) as (f1 & A & B & C & D). exists f1. repeat (split; [assumption|]). intros _. exact D.
      - exists f. split; [eapply Hc; eassumption|]. split; [exact Hf|]. split; [apply same_socks_refl|].
        intros Hc'. destruct (Own Hc') as (f1 & _ & _ & _ & D). exact D. }
    destruct Step as (f1 & Hn1 & W1 & S1 & R1).
    destruct (IH h1 f1 vs2 h2 Hn1 W1 Hr Er) as ((f' & Hn' & W' & S') & F2).
    split.
    + exists f'. split; [exact Hn'|]. split; [exact W'|eapply same_socks_trans; eassumption].
    + constructor; [exact R1|].
      eapply Forall2_mono; [|exact F2]. intros c' v' K Hc'. destruct (K Hc') as (fi & name & k & A & B & C & D & E).
      exists fi, name, k. split; [exact A|]. split; [eapply same_socks_trans; eassumption|]. repeat (split; [assumption|]). exact E.
Qed.

(** every segment a history emits verifies: every packet of every packet-returning call is a frame that
    decodes to an IPv4 header between the flow's addresses and a TCP segment verifying against them
    ([tcp_pkt_ok]); a byte string is a raw segment that verifies for the flow's addresses in one of the
    two directions, or the 20-byte header of client_hdr/server_hdr, whose checksum field is zero (it is
    not a segment) *)
Corollary tcp_history_verifies e a cs h f vs h' :
  nth_error h a = Some (OTcp f) -> flow_twf f ->
  Forall (tcp_call_on a) cs ->
  run_hist e cs h = Some (vs, h') ->
  Forall (fun v =>
    (forall ps, conv_pktgen v = Ok ps -> Forall (tcp_pkt_ok f) ps)
    /\ (forall b, v = VStr b ->
          tcp_ok (fst (tf_cl f)) (fst (tf_sv f)) b = true \/ tcp_ok (fst (tf_sv f)) (fst (tf_cl f)) b = true
          \/ (length b = 20%nat /\ u16_at b 16 = 0))) vs.
Proof.
  intros Hn Hf Hall H.
  assert (Hall' : Forall (fun c => tcp_call_on a c \/ foreign e a c) cs)
    by (eapply Forall_impl; [|exact Hall]; intros c Hc; left; exact Hc).
  destruct (tcp_history e a cs h f vs h' Hn Hf Hall' H) as (_ & F2).
  clear H Hn Hall'. revert vs F2. induction Hall as [|c r Hc Hr IH]; intros vs F2; inversion F2 as [|c0 v r0 vs0 Hv F2']; subst.
  - constructor.
  - constructor; [|apply IH, F2'].
    destruct (Hv Hc) as (fi & name & k & Wi & Si & _ & _ & R). pose proof Si as (S1 & S2 & S3).
    destruct k; cbn [tcp_result_ok] in R.
    + destruct R as (ps & Eps & G). split.
      * intros ps' Eps'. rewrite Eps in Eps'. apply Ok_inj in Eps'. subst ps'.
        eapply Forall_impl; [|exact G]. intros p. apply pkt_ok_socks, Si.
      * intros b -> . discriminate Eps.
    + destruct R as (b & -> & V). split; [intros ps Eps; discriminate Eps|].
      intros b' Eb. injection Eb as <-. unfold side_src, side_dst in V. rewrite S1, S2 in V.
      destruct client; [left|right; left]; exact V.
    + subst v. split; [intros ps Eps; discriminate Eps|]. intros b Eb. injection Eb as <-.
      right. right. split; reflexivity.
    + subst v. split; [intros ps Eps; discriminate Eps|]. intros b Eb. discriminate Eb.
Qed.
