(** C03: TCP / UDP / ICMP checksums, UDP length, ICMP echo fields and counters. *)
From RS Require Import Base.Bytes Base.Outcome Pkt.Csum Pkt.Hdrs Pkt.Packet Ez.Tcp Ez.Udp Ez.Icmp Spec.Wire
  Proofs.BytesLemmas Proofs.C02.CsumLemmas Proofs.C02.IpLemmas Proofs.C02.TcpIp Proofs.C02.OtherIp Proofs.Tactics.
From Coq Require Import ZArith Lia ZifyBool ZifyNat ZifyN.
Ltac Zify.zify_post_hook ::= Z.div_mod_to_equations.
Open Scope N_scope.

(* ---------------- word sums of the headers ---------------- *)
Lemma pseudo_same src dst proto l : pseudo_ser src dst proto l = pseudo_hdr src dst proto l.
Proof. reflexivity. Qed.

Definition pseudo_words (src dst proto l : N) : N :=
  src / 65536 + src mod 65536 + dst / 65536 + dst mod 65536 + proto + l.

Lemma wsum_pseudo src dst proto l r :
  src < 4294967296 -> dst < 4294967296 -> proto < 256 -> l < 65536 ->
  wsum (pseudo_hdr src dst proto l ++ r) = pseudo_words src dst proto l + wsum r.
Proof.
  intros Hs Hd Hp Hl. unfold pseudo_hdr, pseudo_words. rewrite <- !app_assoc.
  rewrite wsum_be32 by exact Hs. rewrite wsum_be32 by exact Hd.
  cbn [app]. rewrite wsum_cons2. rewrite wsum_be16 by exact Hl. lia.
Qed.

Definition th_wf (h : tcp_hdr) : Prop :=
  th_sport h < 65536 /\ th_dport h < 65536 /\ th_seq h < 4294967296 /\ th_ack h < 4294967296
  /\ th_flags h < 256 /\ th_win h < 65536 /\ th_urp h < 65536.

Definition tcp_words (h : tcp_hdr) : N :=
  th_sport h + th_dport h + th_seq h / 65536 + th_seq h mod 65536 + th_ack h / 65536 + th_ack h mod 65536
  + (80 * 256 + th_flags h) + th_win h + th_csum h + th_urp h.

Lemma wsum_tcp_ser h r : th_wf h -> th_csum h < 65536 -> wsum (tcp_ser h ++ r) = tcp_words h + wsum r.
Proof.
  intros (H1 & H2 & H3 & H4 & H5 & H6 & H7) Hc. unfold tcp_ser, tcp_words. rewrite <- !app_assoc.
  rewrite wsum_be16 by exact H1. rewrite wsum_be16 by exact H2.
  rewrite wsum_be32 by exact H3. rewrite wsum_be32 by exact H4.
  cbn [app]. rewrite wsum_cons2.
  rewrite wsum_be16 by exact H6. rewrite wsum_be16 by exact Hc. rewrite wsum_be16 by exact H7. lia.
Qed.

Lemma wsum_bound_len l : wf_bytes l -> len l < 65536 -> wsum l <= 65535 * 32768.
Proof.
  intros Hw Hl. pose proof (wsum_bound l Hw) as B.
  assert (E : N.of_nat (S (length l) / 2) = (len l + 1) / 2).
  { rewrite Nat2N.inj_div. unfold len. f_equal. lia. }
  rewrite E in B. lia.
Qed.

(* ---------------- TCP ---------------- *)
(** a segment about to be checksummed *)
Definition seg_twf (s : tcp_seg) : Prop :=
  th_wf (ts_tcp s) /\ th_csum (ts_tcp s) = 0 /\ wf_bytes (ts_payload s) /\ ts_data_len s = len (ts_payload s)
  /\ 20 + len (ts_payload s) < 65536
  /\ ip_src (ts_ip s) < 4294967296 /\ ip_dst (ts_ip s) < 4294967296 /\ ip_proto (ts_ip s) = 6.

Theorem tcp_csum_verifies s s' :
  seg_twf s -> seg_tcp_csum s = Ok s' ->
  tcp_ok (ip_src (ts_ip s')) (ip_dst (ts_ip s')) (seg_tcpseg s') = true
  /\ ts_ip s' = ts_ip s /\ ts_payload s' = ts_payload s.
Proof.
  intros (Hw & Hc0 & Hp & Hdl & Hfit & Hs & Hd & Hpr). unfold seg_tcp_csum, seg_csum_len.
  rewrite Hdl, Hpr. rewrite takeN_app_exact_nil.
  unfold wrap16. rewrite (N.mod_small (len (ts_payload s) + 20)) by lia.
  rewrite !csum_partial_red. rewrite pseudo_same.
  rewrite <- (app_nil_r (pseudo_hdr _ _ _ _)), wsum_pseudo by lia.
  rewrite <- (app_nil_r (tcp_ser _)), wsum_tcp_ser by (try exact Hw; rewrite Hc0; lia).
  cbn [wsum]. rewrite !N.add_0_r.
  pose proof (wsum_bound_len _ Hp ltac:(lia)) as Bp.
  set (A := pseudo_words (ip_src (ts_ip s)) (ip_dst (ts_ip s)) 6 (len (ts_payload s) + 20)).
  set (B := tcp_words (ts_tcp s)). set (C := wsum (ts_payload s)) in *.
  assert (Bph : A <= 6 * 65535) by (unfold A, pseudo_words; lia).
  assert (Bth : B <= 10 * 65535).
  { destruct Hw as (H1 & H2 & H3 & H4 & H5 & H6 & H7). unfold B, tcp_words. rewrite Hc0. lia. }
  rewrite (N.mod_small A), (N.mod_small B), (N.mod_small C) by lia.
  pose proof (red_bound A ltac:(lia)) as RA. pose proof (red_bound B ltac:(lia)) as RB. pose proof (red_bound C ltac:(lia)) as RC.
  unfold cadd, two32.
  destruct (red A + red B <? 4294967296) eqn:E1; [|lia]. cbn [obind].
  destruct (red A + red B + red C <? 4294967296) eqn:E2; [|lia]. cbn [obind].
  intros E. apply Ok_inj in E. subst s'.
  cbn [ts_ip ts_with_tcp ts_payload]. split; [|split; reflexivity].
  unfold tcp_ok, seg_tcpseg. cbn [ts_tcp ts_with_tcp ts_payload].
  set (c := csum_fold (red A + red B + red C)).
  assert (L : length (tcp_ser (th_set_csum (ts_tcp s) c) ++ ts_payload s) = (20 + length (ts_payload s))%nat).
  { rewrite app_length. reflexivity. }
  rewrite L. replace (Nat.leb 20 (20 + length (ts_payload s))) with true by (symmetry; apply Nat.leb_le; lia).
  cbn [andb].
  assert (Ec : c = csum_fold (sumN' (map red [A; B; C]))) by (unfold c; cbn [map sumN']; f_equal; lia).
  assert (Hcf : c < 65536) by (unfold c; apply csum_fold_lt; lia).
  assert (W : wsum (pseudo_hdr (ip_src (ts_ip s)) (ip_dst (ts_ip s)) 6 (len (tcp_ser (th_set_csum (ts_tcp s) c) ++ ts_payload s))
                    ++ tcp_ser (th_set_csum (ts_tcp s) c) ++ ts_payload s) = sumN' [A; B; C] + c).
  { rewrite len_app. change (len (tcp_ser _)) with 20.
    replace (20 + len (ts_payload s)) with (len (ts_payload s) + 20) by lia.
    rewrite wsum_pseudo by lia.
    rewrite wsum_tcp_ser.
    - unfold tcp_words. cbn [th_set_csum th_sport th_dport th_seq th_ack th_flags th_win th_csum th_urp].
      cbn [sumN']. unfold A, B, C, tcp_words. rewrite Hc0. lia.
    - destruct Hw as (H1 & H2 & H3 & H4 & H5 & H6 & H7). unfold th_wf. cbn. tauto.
    - cbn [th_csum th_set_csum]. exact Hcf. }
  destruct (csum_parts_verify [A; B; C] _ ltac:(repeat constructor; lia) ltac:(cbn; lia)
              ltac:(rewrite <- Ec; exact W) ltac:(rewrite W; cbn [sumN']; lia)) as (V & _).
  exact V.
Qed.

(* ---- every segment the flow checksums is well-formed ---- *)
Definition flow_twf (f : tcp_flow) : Prop :=
  sock_wf (tf_cl f) /\ sock_wf (tf_sv f) /\ tf_cl_seq f < 4294967296 /\ tf_sv_seq f < 4294967296.

Lemma pow8 : 256 = 2 ^ 8. Proof. reflexivity. Qed.
Lemma or_flag_lt fl b : fl < 256 -> b < 256 -> N.lor fl b < 256.
Proof. rewrite pow8. apply lor_lt_pow2. Qed.

Lemma seg_new_twf src dst sn rn raw :
  sock_wf src -> sock_wf dst -> sn < 4294967296 -> seg_twf (seg_new src dst sn rn raw).
Proof.
  intros (Hs & Hsp) (Hd & Hdp) Hsn. unfold seg_twf, seg_new, th_wf.
  cbn [ts_tcp ts_payload ts_data_len ts_ip th_set_seq tcp_new th_sport th_dport th_seq th_ack th_flags th_win th_urp th_csum].
  unfold ip_calc_csum. cbn [ip_src ip_dst ip_proto ip_set_csum ip_set_daddr ip_set_saddr ip_set_tot_len ip_set_protocol].
  change (len (@nil N)) with 0. unfold PROTO_TCP.
  repeat split; try lia; try constructor.
Qed.

Definition twf_keep (g : tcp_seg -> tcp_seg) : Prop :=
  forall s, seg_twf s -> ts_rcv_nxt s < 4294967296 -> seg_twf (g s) /\ ts_rcv_nxt (g s) = ts_rcv_nxt s.

Ltac twf_flag :=
  intros s (Hw & Hc0 & Hp & Hdl & Hfit & Hs & Hd & Hpr) Hr;
  destruct Hw as (H1 & H2 & H3 & H4 & H5 & H6 & H7);
  unfold seg_twf, th_wf;
  cbn [seg_syn seg_rst seg_ack seg_syn_ack seg_push seg_fin seg_fin_ack ts_with_tcp ts_with_extra ts_tcp ts_payload
       ts_data_len ts_ip ts_rcv_nxt th_or_flag th_set_flags th_set_ack th_sport th_dport th_seq th_ack th_flags th_win th_urp th_csum];
  repeat split; try assumption;
  repeat (apply or_flag_lt; [|unfold TCP_SYN, TCP_RST, TCP_PSH, TCP_FIN; lia]); try assumption; try lia.

Lemma seg_syn_twf : twf_keep seg_syn. Proof. twf_flag. Qed.
Lemma seg_rst_twf : twf_keep seg_rst. Proof. twf_flag. Qed.
Lemma seg_ack_twf : twf_keep seg_ack. Proof. twf_flag. Qed.
Lemma seg_syn_ack_twf : twf_keep seg_syn_ack. Proof. twf_flag. Qed.
Lemma seg_push_twf : twf_keep seg_push. Proof. twf_flag. Qed.
Lemma seg_fin_ack_twf : twf_keep seg_fin_ack. Proof. twf_flag. Qed.

Lemma seg_frag_off_twf off : twf_keep (fun s => seg_frag_off s off).
Proof.
  intros s (Hw & Hc0 & Hp & Hdl & Hfit & Hs & Hd & Hpr) Hr. split; [|reflexivity].
  unfold seg_twf, seg_frag_off. cbn [ts_with_ip ts_tcp ts_payload ts_data_len ts_ip].
  unfold ip_calc_csum, ip_set_frag_off. cbn [ip_src ip_dst ip_proto ip_set_csum ip_set_frag].
  exact (conj Hw (conj Hc0 (conj Hp (conj Hdl (conj Hfit (conj Hs (conj Hd Hpr))))))).
Qed.

Lemma seg_append_data_twf s b s' :
  seg_twf s -> wf_bytes b -> 20 + len (ts_payload s) + len b < 65536 ->
  seg_append_data s b = Ok s' -> seg_twf s' /\ ts_rcv_nxt s' = ts_rcv_nxt s.
Proof.
  intros (Hw & Hc0 & Hp & Hdl & Hfit & Hs & Hd & Hpr) Hb Hfit'. unfold seg_append_data, seg_update_tot_len.
  unfold cadd at 1. unfold two32, wrap32. rewrite (N.mod_small (len b)) by lia. rewrite Hdl.
  destruct (len (ts_payload s) + len b <? 4294967296) eqn:E; [|lia]. cbn [obind].
  cbn [ts_ip ts_payload].
  intros E'. apply Ok_inj in E'. subst s'. split; [|reflexivity].
  unfold seg_twf. cbn [ts_with_ip ts_tcp ts_payload ts_data_len ts_ip].
  unfold ip_calc_csum. cbn [ip_src ip_dst ip_proto ip_set_csum ip_set_tot_len].
  refine (conj Hw (conj Hc0 (conj _ (conj _ (conj _ (conj Hs (conj Hd Hpr))))))).
  - apply wf_app; assumption.
  - rewrite len_app. reflexivity.
  - rewrite len_app. lia.
Qed.

Definition tcp_good (p : packet) : Prop :=
  exists s0 s, seg_twf s0 /\ seg_tcp_csum s0 = Ok s /\ p = seg_packet s.

(** what tcp_good buys: the bytes of the segment verify against the addresses in the packet's own IP header *)
Theorem tcp_good_verifies p : tcp_good p ->
  exists s, p = seg_packet s /\ tcp_ok (ip_src (ts_ip s)) (ip_dst (ts_ip s)) (seg_tcpseg s) = true.
Proof.
  intros (s0 & s & Hw & E & ->). exists s. split; [reflexivity|].
  destruct (tcp_csum_verifies _ _ Hw E) as (H & _). exact H.
Qed.

Lemma flow_cl_twf f : flow_twf f -> seg_twf (flow_cl f) /\ ts_rcv_nxt (flow_cl f) < 4294967296.
Proof. intros (Hc & Hs & Hcs & Hss). split; [apply seg_new_twf; assumption|exact Hss]. Qed.
Lemma flow_sv_twf f : flow_twf f -> seg_twf (flow_sv f) /\ ts_rcv_nxt (flow_sv f) < 4294967296.
Proof. intros (Hc & Hs & Hcs & Hss). split; [apply seg_new_twf; assumption|exact Hcs]. Qed.

Lemma wrap32_lt' x : wrap32 x < 4294967296.
Proof. unfold wrap32. lia. Qed.

Lemma flow_update_twf f n : flow_twf f -> flow_twf (flow_cl_update f n) /\ flow_twf (flow_sv_update f n).
Proof.
  intros (Hc & Hs & Hcs & Hss). unfold flow_twf, flow_cl_update, flow_sv_update. cbn.
  pose proof (wrap32_lt' (tf_cl_seq f + n)). pose proof (wrap32_lt' (tf_sv_seq f + n)). tauto.
Qed.

Lemma flow_tx_good (client : bool) f s f' p :
  flow_twf f -> seg_twf s ->
  (if client then flow_cl_tx f s else flow_sv_tx f s) = Ok (f', p) -> tcp_good p /\ flow_twf f'.
Proof.
  intros Hf Hs. unfold flow_cl_tx, flow_sv_tx.
  destruct client.
  - destruct (seg_seq_consumed s) as [n| | |]; cbn [obind]; try discriminate.
    destruct (seg_tcp_csum s) as [s1| | |] eqn:E; cbn [obind]; try discriminate.
    intros E'. ok_inv E'. split; [exists s, s1; tauto|apply flow_update_twf, Hf].
  - destruct (seg_seq_consumed s) as [n| | |]; cbn [obind]; try discriminate.
    destruct (seg_tcp_csum s) as [s1| | |] eqn:E; cbn [obind]; try discriminate.
    intros E'. ok_inv E'. split; [exists s, s1; tauto|apply flow_update_twf, Hf].
Qed.

(** segments built from the flow's own state by flag operations *)
Definition mk_ok (mk : tcp_flow -> tcp_seg) : Prop := forall f, flow_twf f -> seg_twf (mk f).

Lemma mk_flag (client : bool) g : twf_keep g -> mk_ok (fun f => g (if client then flow_cl f else flow_sv f)).
Proof.
  intros K f Hf. destruct client.
  - destruct (flow_cl_twf f Hf) as (A & B). apply K; assumption.
  - destruct (flow_sv_twf f Hf) as (A & B). apply K; assumption.
Qed.

Definition is_tx (tx : tcp_flow -> tcp_seg -> outcome (tcp_flow * packet)) : Prop :=
  forall f s f' p, flow_twf f -> seg_twf s -> tx f s = Ok (f', p) -> tcp_good p /\ flow_twf f'.

Lemma cl_tx_is_tx : is_tx flow_cl_tx.
Proof. intros f s f' p Hf Hs E. exact (flow_tx_good true f s f' p Hf Hs E). Qed.
Lemma sv_tx_is_tx : is_tx flow_sv_tx.
Proof. intros f s f' p Hf Hs E. exact (flow_tx_good false f s f' p Hf Hs E). Qed.

Lemma three_good tx1 tx2 tx3 mk1 mk2 mk3 f f' ps :
  is_tx tx1 -> is_tx tx2 -> is_tx tx3 ->
  mk_ok mk1 -> mk_ok mk2 -> mk_ok mk3 -> flow_twf f ->
  (do (f1, p1) <- tx1 f (mk1 f);
   do (f2, p2) <- tx2 f1 (mk2 f1);
   do (f3, p3) <- tx3 f2 (mk3 f2);
   Ok (f3, [p1; p2; p3])) = Ok (f', ps) ->
  Forall tcp_good ps /\ flow_twf f'.
Proof.
  intros T1 T2 T3 M1 M2 M3 Hf.
  destruct (tx1 f (mk1 f)) as [[f1 p1]| | |] eqn:E1; cbn [obind]; try discriminate.
  destruct (T1 _ _ _ _ Hf (M1 _ Hf) E1) as (P1 & W1).
  destruct (tx2 f1 (mk2 f1)) as [[f2 p2]| | |] eqn:E2; cbn [obind]; try discriminate.
  destruct (T2 _ _ _ _ W1 (M2 _ W1) E2) as (P2 & W2).
  destruct (tx3 f2 (mk3 f2)) as [[f3 p3]| | |] eqn:E3; cbn [obind]; try discriminate.
  destruct (T3 _ _ _ _ W2 (M3 _ W2) E3) as (P3 & W3).
  intros E. ok_inv E. split; [repeat constructor; assumption|exact W3].
Qed.

Theorem flow_open_good f f' ps : flow_twf f -> flow_open f = Ok (f', ps) -> Forall tcp_good ps /\ flow_twf f'.
Proof.
  intros Hf. unfold flow_open.
  pose proof (mk_flag true _ seg_syn_twf) as M1. pose proof (mk_flag false _ seg_syn_ack_twf) as M2.
  pose proof (mk_flag true _ seg_ack_twf) as M3. unfold mk_ok in M1, M2, M3.
  destruct (flow_cl_tx f (seg_syn (flow_cl f))) as [[f1 p1]| | |] eqn:E1; cbn [obind]; try discriminate.
  destruct (cl_tx_is_tx _ _ _ _ Hf (M1 _ Hf) E1) as (P1 & W1).
  destruct (flow_sv_tx f1 (seg_syn_ack (flow_sv f1))) as [[f2 p2]| | |] eqn:E2; cbn [obind]; try discriminate.
  destruct (sv_tx_is_tx _ _ _ _ W1 (M2 _ W1) E2) as (P2 & W2).
  destruct (flow_cl_tx f2 (seg_ack (flow_cl f2))) as [[f3 p3]| | |] eqn:E3; cbn [obind]; try discriminate.
  destruct (cl_tx_is_tx _ _ _ _ W2 (M3 _ W2) E3) as (P3 & W3).
  intros E. ok_inv E. split; [repeat constructor; assumption|exact W3].
Qed.
Theorem flow_client_close_good f f' ps : flow_twf f -> flow_client_close f = Ok (f', ps) -> Forall tcp_good ps /\ flow_twf f'.
Proof.
  intros Hf. unfold flow_client_close.
  pose proof (mk_flag true _ seg_fin_ack_twf) as M1. pose proof (mk_flag false _ seg_fin_ack_twf) as M2.
  pose proof (mk_flag true _ seg_ack_twf) as M3. unfold mk_ok in M1, M2, M3.
  destruct (flow_cl_tx f (seg_fin_ack (flow_cl f))) as [[f1 p1]| | |] eqn:E1; cbn [obind]; try discriminate.
  destruct (cl_tx_is_tx _ _ _ _ Hf (M1 _ Hf) E1) as (P1 & W1).
  destruct (flow_sv_tx f1 (seg_fin_ack (flow_sv f1))) as [[f2 p2]| | |] eqn:E2; cbn [obind]; try discriminate.
  destruct (sv_tx_is_tx _ _ _ _ W1 (M2 _ W1) E2) as (P2 & W2).
  destruct (flow_cl_tx f2 (seg_ack (flow_cl f2))) as [[f3 p3]| | |] eqn:E3; cbn [obind]; try discriminate.
  destruct (cl_tx_is_tx _ _ _ _ W2 (M3 _ W2) E3) as (P3 & W3).
  intros E. ok_inv E. split; [repeat constructor; assumption|exact W3].
Qed.
Theorem flow_server_close_good f f' ps : flow_twf f -> flow_server_close f = Ok (f', ps) -> Forall tcp_good ps /\ flow_twf f'.
Proof.
  intros Hf. unfold flow_server_close.
  pose proof (mk_flag false _ seg_fin_ack_twf) as M1. pose proof (mk_flag true _ seg_fin_ack_twf) as M2.
  pose proof (mk_flag false _ seg_ack_twf) as M3. unfold mk_ok in M1, M2, M3.
  destruct (flow_sv_tx f (seg_fin_ack (flow_sv f))) as [[f1 p1]| | |] eqn:E1; cbn [obind]; try discriminate.
  destruct (sv_tx_is_tx _ _ _ _ Hf (M1 _ Hf) E1) as (P1 & W1).
  destruct (flow_cl_tx f1 (seg_fin_ack (flow_cl f1))) as [[f2 p2]| | |] eqn:E2; cbn [obind]; try discriminate.
  destruct (cl_tx_is_tx _ _ _ _ W1 (M2 _ W1) E2) as (P2 & W2).
  destruct (flow_sv_tx f2 (seg_ack (flow_sv f2))) as [[f3 p3]| | |] eqn:E3; cbn [obind]; try discriminate.
  destruct (sv_tx_is_tx _ _ _ _ W2 (M3 _ W2) E3) as (P3 & W3).
  intros E. ok_inv E. split; [repeat constructor; assumption|exact W3].
Qed.

Lemma flow_seg_twf (client : bool) f b off s :
  flow_twf f -> wf_bytes b -> 20 + len b < 65536 ->
  (if client then flow_cl_seg f b off else flow_sv_seg f b off) = Ok s -> seg_twf s.
Proof.
  intros Hf Hb Hfit. unfold flow_cl_seg, flow_sv_seg, seg_push_bytes.
  destruct client; intros E.
  - destruct (flow_cl_twf f Hf) as (A & B).
    destruct (seg_frag_off_twf off _ A B) as (A1 & B1). cbn beta in *.
    destruct (seg_push_twf _ A1 ltac:(rewrite B1; exact B)) as (A2 & B2).
    eapply seg_append_data_twf; [exact A2|exact Hb| |exact E]. cbn. change (len (@nil N)) with 0. lia.
  - destruct (flow_sv_twf f Hf) as (A & B).
    destruct (seg_frag_off_twf off _ A B) as (A1 & B1). cbn beta in *.
    destruct (seg_push_twf _ A1 ltac:(rewrite B1; exact B)) as (A2 & B2).
    eapply seg_append_data_twf; [exact A2|exact Hb| |exact E]. cbn. change (len (@nil N)) with 0. lia.
Qed.

Theorem flow_message_good (client : bool) f b sa off f' ps :
  flow_twf f -> wf_bytes b -> 20 + len b < 65536 ->
  (if client then flow_client_message f b sa off else flow_server_message f b sa off) = Ok (f', ps) ->
  Forall tcp_good ps /\ flow_twf f'.
Proof.
  intros Hf Hb Hfit. unfold flow_client_message, flow_server_message. destruct client.
  - destruct (flow_cl_seg f b off) as [s| | |] eqn:Es; cbn [obind]; try discriminate.
    pose proof (flow_seg_twf true f b off s Hf Hb Hfit Es) as Hs.
    destruct (flow_cl_tx f s) as [[f1 p1]| | |] eqn:E1; cbn [obind]; try discriminate.
    destruct (flow_tx_good true _ _ _ _ Hf Hs E1) as (P1 & W1).
    destruct sa.
    + destruct (flow_sv_tx f1 (seg_ack (flow_sv f1))) as [[f2 p2]| | |] eqn:E2; cbn [obind]; try discriminate.
      destruct (flow_tx_good false _ _ _ _ W1 (mk_flag false _ seg_ack_twf _ W1) E2) as (P2 & W2).
      intros E. ok_inv E. split; [repeat constructor; assumption|exact W2].
    + intros E. ok_inv E. split; [repeat constructor; assumption|exact W1].
  - destruct (flow_sv_seg f b off) as [s| | |] eqn:Es; cbn [obind]; try discriminate.
    pose proof (flow_seg_twf false f b off s Hf Hb Hfit Es) as Hs.
    destruct (flow_sv_tx f s) as [[f1 p1]| | |] eqn:E1; cbn [obind]; try discriminate.
    destruct (flow_tx_good false _ _ _ _ Hf Hs E1) as (P1 & W1).
    destruct sa.
    + destruct (flow_cl_tx f1 (seg_ack (flow_cl f1))) as [[f2 p2]| | |] eqn:E2; cbn [obind]; try discriminate.
      destruct (flow_tx_good true _ _ _ _ W1 (mk_flag true _ seg_ack_twf _ W1) E2) as (P2 & W2).
      intros E. ok_inv E. split; [repeat constructor; assumption|exact W2].
    + intros E. ok_inv E. split; [repeat constructor; assumption|exact W1].
Qed.

Theorem flow_data_segment_good (client : bool) f b f' s :
  flow_twf f -> wf_bytes b -> 20 + len b < 65536 ->
  (if client then flow_client_data_segment f b else flow_server_data_segment f b) = Ok (f', s) ->
  tcp_good (seg_packet s) /\ flow_twf f'.
Proof.
  intros Hf Hb Hfit. unfold flow_client_data_segment, flow_server_data_segment. destruct client.
  - destruct (flow_cl_seg f b 0) as [s0| | |] eqn:Es; cbn [obind]; try discriminate.
    pose proof (flow_seg_twf true f b 0 s0 Hf Hb Hfit Es) as Hs.
    destruct (seg_seq_consumed s0) as [n| | |]; cbn [obind]; try discriminate.
    destruct (seg_tcp_csum s0) as [s1| | |] eqn:E; cbn [obind]; try discriminate.
    intros E'. ok_inv E'. split; [exists s0, s; tauto|apply flow_update_twf, Hf].
  - destruct (flow_sv_seg f b 0) as [s0| | |] eqn:Es; cbn [obind]; try discriminate.
    pose proof (flow_seg_twf false f b 0 s0 Hf Hb Hfit Es) as Hs.
    destruct (seg_seq_consumed s0) as [n| | |]; cbn [obind]; try discriminate.
    destruct (seg_tcp_csum s0) as [s1| | |] eqn:E; cbn [obind]; try discriminate.
    intros E'. ok_inv E'. split; [exists s0, s; tauto|apply flow_update_twf, Hf].
Qed.

Theorem flow_ack_reset_good f : flow_twf f ->
  (forall s, flow_client_ack f = Ok s -> tcp_good (seg_packet s)) /\
  (forall s, flow_server_ack f = Ok s -> tcp_good (seg_packet s)) /\
  (forall p, flow_client_reset f = Ok p -> tcp_good p) /\
  (forall p, flow_server_reset f = Ok p -> tcp_good p).
Proof.
  intros Hf. unfold flow_client_ack, flow_server_ack, flow_client_reset, flow_server_reset.
  split; [|split; [|split]].
  - intros s E. exists (seg_ack (flow_cl f)), s. split; [exact (mk_flag true _ seg_ack_twf _ Hf)|tauto].
  - intros s E. exists (seg_ack (flow_sv f)), s. split; [exact (mk_flag false _ seg_ack_twf _ Hf)|tauto].
  - intros p. destruct (seg_tcp_csum (seg_rst (flow_cl f))) as [s| | |] eqn:E; cbn [obind]; try discriminate.
    intros E'. apply Ok_inj in E'. subst p. exists (seg_rst (flow_cl f)), s. split; [exact (mk_flag true _ seg_rst_twf _ Hf)|tauto].
  - intros p. destruct (seg_tcp_csum (seg_rst (flow_sv f))) as [s| | |] eqn:E; cbn [obind]; try discriminate.
    intros E'. apply Ok_inj in E'. subst p. exists (seg_rst (flow_sv f)), s. split; [exact (mk_flag false _ seg_rst_twf _ Hf)|tauto].
Qed.

(** overrides keep the flow well-formed (an override is a u32) *)
Lemma push_pop_twf f c s : flow_twf f ->
  (forall v, c = Some v -> v < 4294967296) -> (forall v, s = Some v -> v < 4294967296) ->
  flow_twf (fst (flow_push_state f c s)).
Proof.
  intros (Hc & Hs & Hcs & Hss) Bc Bs. unfold flow_twf, flow_push_state. cbn.
  repeat split; try (apply Hc); try (apply Hs).
  - destruct c; [apply Bc; reflexivity|exact Hcs].
  - destruct s; [apply Bs; reflexivity|exact Hss].
Qed.

(* ---------------- UDP ---------------- *)
Definition uh_wf (h : udp_hdr) : Prop := uh_sport h < 65536 /\ uh_dport h < 65536 /\ uh_len h < 65536.
Definition udp_words (h : udp_hdr) : N := uh_sport h + uh_dport h + uh_len h + uh_csum h.

Lemma wsum_udp_ser h r : uh_wf h -> uh_csum h < 65536 -> wsum (udp_ser h ++ r) = udp_words h + wsum r.
Proof.
  intros (H1 & H2 & H3) Hc. unfold udp_ser, udp_words. rewrite <- !app_assoc.
  rewrite wsum_be16 by exact H1. rewrite wsum_be16 by exact H2. rewrite wsum_be16 by exact H3.
  rewrite wsum_be16 by exact Hc. lia.
Qed.

Lemma u16_at_be16 (a b x : N) (r : bytes) : x < 65536 -> u16_at (be16 a ++ be16 b ++ be16 x ++ r) 4 = x.
Proof. intros H. unfold u16_at, be16. cbn [app nth]. lia. Qed.
Lemma u16_at_be16_6 (a b c x : N) (r : bytes) : x < 65536 -> u16_at (be16 a ++ be16 b ++ be16 c ++ be16 x ++ r) 6 = x.
Proof. intros H. unfold u16_at, be16. cbn [app nth]. lia. Qed.

(** length field = header + payload *)
Theorem udp_len_exact d : udp_inv d -> 8 + len (ud_payload d) < 65536 -> udp_len_ok (udp_l4_bytes d) = true.
Proof.
  intros (_ & _ & _ & Hl) Hfit. unfold udp_len_ok, udp_l4_bytes.
  rewrite app_length. change (length (udp_ser (ud_udp d))) with 8%nat.
  replace (Nat.leb 8 (8 + length (ud_payload d))) with true by (symmetry; apply Nat.leb_le; lia).
  cbn [andb]. unfold udp_ser. rewrite <- !app_assoc.
  rewrite u16_at_be16 by lia. rewrite !len_app. change (len (be16 _)) with 2. rewrite Hl.
  apply N.eqb_eq. unfold len. cbn [length]. lia.
Qed.

(** with checksumming on, the checksum is non-zero and verifies *)
Theorem udp_csum_verifies d d' :
  udp_inv d -> uh_wf (ud_udp d) -> uh_csum (ud_udp d) = 0 -> wf_bytes (ud_payload d) -> 8 + len (ud_payload d) < 65536 ->
  ip_proto (ud_ip d) = 17 ->
  udp_csum d = Ok d' ->
  udp_csum_ok (ip_src (ud_ip d')) (ip_dst (ud_ip d')) (udp_l4_bytes d') = true /\ ud_payload d' = ud_payload d.
Proof.
  intros (Hfr & _ & _ & Hl) Hw Hc0 Hp Hfit Hpr. unfold udp_csum.
  pose proof (ip_fresh_wf _ Hfr) as Wip. destruct Wip as (_ & _ & _ & _ & _ & Hs & Hd).
  unfold wrap16. rewrite (N.mod_small (8 + len (ud_payload d))) by lia. rewrite Hpr.
  rewrite !csum_partial_red. rewrite pseudo_same.
  rewrite <- (app_nil_r (pseudo_hdr _ _ _ _)), wsum_pseudo by lia.
  rewrite <- (app_nil_r (udp_ser _)), wsum_udp_ser by (try exact Hw; rewrite Hc0; lia).
  cbn [wsum]. rewrite !N.add_0_r.
  pose proof (wsum_bound_len _ Hp ltac:(lia)) as Bp.
  set (A := pseudo_words (ip_src (ud_ip d)) (ip_dst (ud_ip d)) 17 (8 + len (ud_payload d))).
  set (B := udp_words (ud_udp d)). set (C := wsum (ud_payload d)) in *.
  assert (Bph : A <= 6 * 65535) by (unfold A, pseudo_words; lia).
  assert (Bu : B <= 4 * 65535).
  { destruct Hw as (H1 & H2 & H3). unfold B, udp_words. rewrite Hc0. lia. }
  rewrite (N.mod_small A), (N.mod_small B), (N.mod_small C) by lia.
  pose proof (red_bound A ltac:(lia)) as RA. pose proof (red_bound B ltac:(lia)) as RB. pose proof (red_bound C ltac:(lia)) as RC.
  unfold cadd, two32.
  destruct (red A + red B <? 4294967296) eqn:E1; [|lia]. cbn [obind].
  destruct (red A + red B + red C <? 4294967296) eqn:E2; [|lia]. cbn [obind].
  intros E. apply Ok_inj in E. subst d'.
  cbn [ud_ip ud_with_udp ud_payload]. split; [|reflexivity].
  destruct (sum_red_mod [A; B; C] ltac:(repeat constructor; lia)) as (M1 & M2 & M3).
  cbn [map sumN' length] in M1, M2, M3.
  set (R := red A + red B + red C) in *.
  assert (M1' : R mod 65535 = (A + B + C) mod 65535) by (unfold R; lia).
  clear M1 M2.
  set (c := if csum_fold R =? 0 then 65535 else csum_fold R).
  assert (HR : R < 4294901760) by (unfold R; lia).
  destruct (csum_fold_spec R ltac:(lia)) as (r & Hr & Hf & Hz & Hm).
  assert (Hc : 0 < c /\ c < 65536 /\ (A + B + C + c) mod 65535 = 0).
  { unfold c. destruct (csum_fold R =? 0) eqn:Ez.
    - assert (r = 65535) by lia. subst r. clear Hz Hf Ez. split; [lia|split; [lia|]]. lia.
    - rewrite Hf. split; [lia|split; [lia|]]. clear Hz Ez. lia. }
  destruct Hc as (Hcpos & Hclt & Hcmod).
  unfold udp_csum_ok, udp_l4_bytes. cbn [ud_udp ud_with_udp ud_payload].
  apply andb_true_intro. split.
  - unfold udp_ser. cbn [uh_sport uh_dport uh_len uh_csum]. rewrite <- !app_assoc.
    rewrite u16_at_be16_6 by exact Hclt. apply negb_true_iff. apply N.eqb_neq. lia.
  - rewrite len_app. change (len (udp_ser _)) with 8.
    assert (W : wsum (pseudo_hdr (ip_src (ud_ip d)) (ip_dst (ud_ip d)) 17 (8 + len (ud_payload d))
                 ++ udp_ser {| uh_sport := uh_sport (ud_udp d); uh_dport := uh_dport (ud_udp d); uh_len := uh_len (ud_udp d); uh_csum := c |}
                 ++ ud_payload d) = A + B + C + c).
    { rewrite wsum_pseudo by lia. rewrite wsum_udp_ser.
      - unfold udp_words. cbn [uh_sport uh_dport uh_len uh_csum]. unfold A, B, C, udp_words. rewrite Hc0. lia.
      - destruct Hw as (H1 & H2 & H3). unfold uh_wf. cbn. tauto.
      - cbn. exact Hclt. }
    apply verifies_of_sum; rewrite W; lia.
Qed.

(* ---------------- ICMP ---------------- *)
Lemma wsum_cons2' a b r : wsum (a :: b :: r) = a * 256 + b + wsum r. Proof. reflexivity. Qed.

(** the ICMP message the builder lays out: type, code 0, checksum, identifier, sequence number, payload *)
Theorem icmp_dgram_layout src dst raw typ id seq b p :
  icmp_dgram src dst raw typ id seq b = Ok p ->
  exists iph c, l3_of raw (pk_body p) = ip_ser iph ++ icmp_ser {| ic_typ := typ; ic_code := 0; ic_csum := c; ic_id := id; ic_seq := seq |} ++ b
    /\ c = ip_checksum (icmp_ser {| ic_typ := typ; ic_code := 0; ic_csum := 0; ic_id := id; ic_seq := seq |} ++ b).
Proof.
  unfold icmp_dgram.
  intros E. apply Ok_inj in E. subst p. eexists. eexists. split; [|reflexivity].
  unfold pkt_of_body. cbn [pk_body]. apply l3_of_framed. reflexivity.
Qed.

Theorem icmp_verifies typ id seq b :
  typ < 256 -> id < 65536 -> seq < 65536 -> wf_bytes b -> 8 + len b < 65536 ->
  let c := ip_checksum (icmp_ser {| ic_typ := typ; ic_code := 0; ic_csum := 0; ic_id := id; ic_seq := seq |} ++ b) in
  icmp_ok (icmp_ser {| ic_typ := typ; ic_code := 0; ic_csum := c; ic_id := id; ic_seq := seq |} ++ b) = true.
Proof.
  intros Ht Hi Hs Hb Hfit c. unfold icmp_ok.
  rewrite app_length. change (length (icmp_ser _)) with 8%nat.
  replace (Nat.leb 8 (8 + length b)) with true by (symmetry; apply Nat.leb_le; lia). cbn [andb].
  pose proof (wsum_bound_len _ Hb ltac:(lia)) as Bp.
  assert (W0 : wsum (icmp_ser {| ic_typ := typ; ic_code := 0; ic_csum := 0; ic_id := id; ic_seq := seq |} ++ b)
               = typ * 256 + id + seq + wsum b).
  { unfold icmp_ser. cbn [ic_typ ic_code ic_csum ic_id ic_seq]. rewrite <- !app_assoc. cbn [app].
    rewrite wsum_cons2'. rewrite !wsum_be16 by lia. lia. }
  set (S0 := typ * 256 + id + seq + wsum b) in *.
  assert (Ec : c = csum_fold (sumN' (map red [S0]))).
  { unfold c, ip_checksum. rewrite csum_partial_red, W0. rewrite (N.mod_small S0) by (unfold S0; lia). cbn [map sumN']. rewrite N.add_0_r. reflexivity. }
  assert (Hc : c < 65536) by (rewrite Ec; apply csum_fold_lt; cbn [map sumN']; pose proof (red_bound S0 ltac:(unfold S0; lia)); lia).
  assert (W : wsum (icmp_ser {| ic_typ := typ; ic_code := 0; ic_csum := c; ic_id := id; ic_seq := seq |} ++ b) = sumN' [S0] + c).
  { unfold icmp_ser. cbn [ic_typ ic_code ic_csum ic_id ic_seq]. rewrite <- !app_assoc. cbn [app].
    rewrite wsum_cons2'. rewrite !wsum_be16 by lia. cbn [sumN']. unfold S0. lia. }
  destruct (csum_parts_verify [S0] _ ltac:(repeat constructor; unfold S0; lia) ltac:(cbn; lia)
              ltac:(rewrite <- Ec; exact W) ltac:(rewrite W; cbn [sumN']; unfold S0; lia)) as (V & _).
  exact V.
Qed.

(** echo histories: the n-th request carries n-1, the n-th reply n-1, one identifier per flow *)
Fixpoint icmp_run (f : icmp_flow) (ops : list (bool * bytes)) : outcome (icmp_flow * list (bool * N * N)) :=
  match ops with
  | [] => Ok (f, [])
  | (req, b) :: r =>
    do (f1, _) <- (if req then icmp_echo f b else icmp_echo_reply f b);
    do (f2, l) <- icmp_run f1 r;
    Ok (f2, (req, if_id f, if req then if_ping f else if_pong f) :: l)
  end.

Definition count_before (req : bool) (ops : list (bool * bytes)) : N :=
  len (filter (fun o => Bool.eqb (fst o) req) ops).

Theorem icmp_seq_counts ops : forall f f' l,
  if_ping f < 65536 -> if_pong f < 65536 ->
  icmp_run f ops = Ok (f', l) ->
  if_id f' = if_id f
  /\ if_ping f' = (if_ping f + count_before true ops) mod 65536 /\ if_pong f' = (if_pong f + count_before false ops) mod 65536
  /\ forall n req id seq, nth_error l n = Some (req, id, seq) ->
       id = if_id f /\ seq = ((if req then if_ping f else if_pong f) + count_before req (firstn n ops)) mod 65536.
Proof.
  induction ops as [|[req b] ops IH]; intros f f' l Hpi Hpo; cbn [icmp_run].
  - intros E. ok_inv E. unfold count_before. cbn [filter]. change (len (@nil (bool * bytes))) with 0.
    split; [reflexivity|]. split; [rewrite N.add_0_r, N.mod_small; lia|]. split; [rewrite N.add_0_r, N.mod_small; lia|].
    intros k req id seq Hk. destruct k; discriminate.
  - destruct (if req then icmp_echo f b else icmp_echo_reply f b) as [[f1 p]| | |] eqn:E1; cbn [obind]; try discriminate.
    destruct (icmp_run f1 ops) as [[f2 l2]| | |] eqn:E2; cbn [obind]; try discriminate.
    intros E. ok_inv E.
    assert (S1 : if_id f1 = if_id f /\ if_ping f1 = (if_ping f + (if req then 1 else 0)) mod 65536
                 /\ if_pong f1 = (if_pong f + (if req then 0 else 1)) mod 65536).
    { destruct req; unfold icmp_echo, icmp_echo_reply in E1;
        destruct (icmp_dgram _ _ _ _ _ _ _); cbn [obind] in E1; try discriminate;
        ok_inv E1; cbn; unfold wrap16; repeat split; try reflexivity; rewrite N.add_0_r, N.mod_small; lia. }
    destruct S1 as (I1 & P1 & Q1).
    assert (B1 : if_ping f1 < 65536) by (rewrite P1; lia). assert (B2 : if_pong f1 < 65536) by (rewrite Q1; lia).
    destruct (IH _ _ _ B1 B2 E2) as (Hid & Hpi' & Hpo' & Hnth).
    unfold count_before in *. cbn [filter fst].
    split; [congruence|].
    split; [rewrite Hpi', P1; destruct req; cbn [Bool.eqb]; rewrite ?len_cons; lia|].
    split; [rewrite Hpo', Q1; destruct req; cbn [Bool.eqb]; rewrite ?len_cons; lia|].
    intros k req' id seq Hk'. destruct k as [|k].
    + cbn in Hk'. inversion Hk'; subst. cbn. split; [reflexivity|]. change (len (@nil (bool * bytes))) with 0.
      destruct req'; rewrite N.add_0_r, N.mod_small; lia.
    + cbn [nth_error] in Hk'. destruct (Hnth _ _ _ _ Hk') as (A & B). split; [congruence|].
      cbn [firstn filter fst]. rewrite B.
      destruct req, req'; cbn [Bool.eqb]; rewrite ?len_cons, ?P1, ?Q1; lia.
Qed.
