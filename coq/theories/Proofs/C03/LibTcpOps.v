(** C03 at the library level, TCP flow operations once more, with what the library-level statements need
    beyond Proofs/C03/Transport.v: the flow keeps its sockets, and every packet is a frame one can
    decode -- IPv4 header for protocol 6 between the flow's two addresses, then a segment whose checksum
    verifies against exactly those addresses ([tcp_wire]). *)
From RS Require Import Base.Bytes Base.Outcome Pkt.Csum Pkt.Hdrs Pkt.Packet Ez.Tcp Spec.Wire
  Proofs.BytesLemmas Proofs.Tactics Proofs.C02.TcpIp Proofs.C02.OtherIp Proofs.C03.Transport Proofs.C03.LibCalls.
From Coq Require Import Arith Lia.
Open Scope N_scope.

(** addresses, ports and framing of a flow never change *)
Definition same_socks (f' f : tcp_flow) : Prop :=
  tf_cl f' = tf_cl f /\ tf_sv f' = tf_sv f /\ tf_raw f' = tf_raw f.

Lemma same_socks_refl f : same_socks f f. Proof. repeat split. Qed.
Lemma same_socks_trans f1 f2 f3 : same_socks f1 f2 -> same_socks f2 f3 -> same_socks f1 f3.
Proof. intros (A & B & C) (A' & B' & C'). repeat split; congruence. Qed.

(** the sender and receiver address of a segment sent by the client (server) side *)
Definition side_src (client : bool) (f : tcp_flow) : N := fst (if client then tf_cl f else tf_sv f).
Definition side_dst (client : bool) (f : tcp_flow) : N := fst (if client then tf_sv f else tf_cl f).

(** the frame of a packet of flow [f], decoded *)
Definition tcp_wire (f : tcp_flow) (p : packet) : Prop :=
  exists iph seg, l3_of (tf_raw f) (pk_body p) = (ip_ser iph ++ seg)%list /\ ip_proto iph = 6
    /\ (exists client, ip_src iph = side_src client f /\ ip_dst iph = side_dst client f)
    /\ tcp_ok (ip_src iph) (ip_dst iph) seg = true.

(** a segment under construction belongs to [f]: framing as the flow's, a 14-byte Ethernet header, the
    flow's addresses in one of the two directions *)
Definition seg_wire (f : tcp_flow) (s : tcp_seg) : Prop :=
  ts_raw s = tf_raw f /\ length (eth_ser (ts_eth s)) = 14%nat
  /\ exists client, ip_src (ts_ip s) = side_src client f /\ ip_dst (ts_ip s) = side_dst client f.

(** a packet sent by [f]: a well-formed segment of [f], checksummed, serialised *)
Definition sent_by (f : tcp_flow) (p : packet) : Prop :=
  exists s0 s, seg_twf s0 /\ seg_wire f s0 /\ seg_tcp_csum s0 = Ok s /\ p = seg_packet s.

Lemma sent_good f p : sent_by f p -> tcp_good p.
Proof. intros (s0 & s & A & _ & B & C). exists s0, s. split; [exact A|]. split; [exact B|exact C]. Qed.

Lemma sent_wire f p : sent_by f p -> tcp_wire f p.
Proof.
  intros (s0 & s & Hw & (Hr & He & (c & Hs & Hd)) & E & ->).
  destruct (tcp_csum_verifies _ _ Hw E) as (V & I & _).
  assert (K : ts_raw s = ts_raw s0 /\ ts_eth s = ts_eth s0).
  { revert E. unfold seg_tcp_csum. intros E. binv E. apply Ok_inj in E. subst s. split; reflexivity. }
  destruct K as (K1 & K2).
  exists (ts_ip s), (seg_tcpseg s). unfold seg_packet, pkt_of_body, seg_bytes. cbn [pk_body].
  rewrite K1, Hr. rewrite l3_of_framed by (rewrite K2; exact He).
  split; [reflexivity|]. rewrite I.
  split; [destruct Hw as (_ & _ & _ & _ & _ & _ & _ & Hp); exact Hp|].
  split; [exists c; split; assumption|]. rewrite <- I. exact V.
Qed.

Lemma seg_wire_socks f' f s : same_socks f' f -> seg_wire f' s -> seg_wire f s.
Proof.
  intros (A & B & C) (Hr & He & (c & Hs & Hd)). unfold seg_wire, side_src, side_dst in *.
  rewrite A, B in Hs, Hd. rewrite C in Hr. split; [exact Hr|]. split; [exact He|]. exists c. split; assumption.
Qed.
Lemma sent_socks f' f p : same_socks f' f -> sent_by f' p -> sent_by f p.
Proof.
  intros S (s0 & s & A & W & B & C). exists s0, s. split; [exact A|]. split; [eapply seg_wire_socks; eassumption|].
  split; assumption.
Qed.
Lemma tcp_wire_socks f' f p : same_socks f' f -> tcp_wire f' p -> tcp_wire f p.
Proof.
  intros (A & B & C) (iph & seg & H1 & H2 & (c & H3 & H4) & H5). unfold tcp_wire, side_src, side_dst in *.
  rewrite A, B in H3, H4. rewrite C in H1. exists iph, seg. split; [exact H1|]. split; [exact H2|].
  split; [exists c; split; assumption|exact H5].
Qed.

(* ------------------------------------------------------------------ segments of a flow *)
Definition side_seg (client : bool) (f : tcp_flow) : tcp_seg := if client then flow_cl f else flow_sv f.

Lemma side_seg_wire client f : seg_wire f (side_seg client f).
Proof. destruct client; (split; [reflexivity|]; split; [reflexivity|]); [exists true|exists false]; split; reflexivity. Qed.

(** operations that touch neither framing, Ethernet header nor addresses *)
Definition wire_keep (g : tcp_seg -> tcp_seg) : Prop := forall f s, seg_wire f s -> seg_wire f (g s).
Lemma wk_syn : wire_keep seg_syn. Proof. intros f s H. exact H. Qed.
Lemma wk_rst : wire_keep seg_rst. Proof. intros f s H. exact H. Qed.
Lemma wk_ack : wire_keep seg_ack. Proof. intros f s H. exact H. Qed.
Lemma wk_syn_ack : wire_keep seg_syn_ack. Proof. intros f s H. exact H. Qed.
Lemma wk_push : wire_keep seg_push. Proof. intros f s H. exact H. Qed.
Lemma wk_fin_ack : wire_keep seg_fin_ack. Proof. intros f s H. exact H. Qed.
Lemma wk_frag_off off : wire_keep (fun s => seg_frag_off s off). Proof. intros f s H. exact H. Qed.

Lemma wire_append_data f s b s' : seg_wire f s -> seg_append_data s b = Ok s' -> seg_wire f s'.
Proof.
  intros H E. revert E. unfold seg_append_data, seg_update_tot_len. intros E. binv E. apply Ok_inj in E. subst s'. exact H.
Qed.

Lemma mk_side (client : bool) g f :
  twf_keep g -> wire_keep g -> flow_twf f -> seg_twf (g (side_seg client f)) /\ seg_wire f (g (side_seg client f)).
Proof.
  intros K W Hf. split; [exact (mk_flag client g K f Hf)|apply W, side_seg_wire].
Qed.

Lemma data_seg_wire (client : bool) f b off s :
  (if client then flow_cl_seg f b off else flow_sv_seg f b off) = Ok s ->
  seg_wire f s /\ ip_src (ts_ip s) = side_src client f /\ ip_dst (ts_ip s) = side_dst client f.
Proof.
  intros H. revert H. unfold flow_cl_seg, flow_sv_seg, seg_push_bytes. intros H. destruct client.
  - split; [eapply wire_append_data; [|exact H]; apply wk_push, (wk_frag_off off), (side_seg_wire true)|].
    revert H. unfold seg_append_data, seg_update_tot_len. intros H. binv H. apply Ok_inj in H. subst s. split; reflexivity.
  - split; [eapply wire_append_data; [|exact H]; apply wk_push, (wk_frag_off off), (side_seg_wire false)|].
    revert H. unfold seg_append_data, seg_update_tot_len. intros H. binv H. apply Ok_inj in H. subst s. split; reflexivity.
Qed.

(* ------------------------------------------------------------------ transmissions *)
Definition side_tx (client : bool) := if client then flow_cl_tx else flow_sv_tx.

Lemma tx_sent (client : bool) f s f' p :
  flow_twf f -> seg_twf s -> seg_wire f s -> side_tx client f s = Ok (f', p) ->
  sent_by f p /\ flow_twf f' /\ same_socks f' f.
Proof.
  intros Hf Hs Hw H. revert H. unfold side_tx, flow_cl_tx, flow_sv_tx. intros H.
  destruct client; binv H; ok_inv H;
    (split; [eexists; eexists; split; [exact Hs|]; split; [exact Hw|]; split; [eassumption|reflexivity]|]);
    (split; [apply flow_update_twf, Hf|repeat split]).
Qed.

Lemma csum_sent f s0 s : seg_twf s0 -> seg_wire f s0 -> seg_tcp_csum s0 = Ok s -> sent_by f (seg_packet s).
Proof. intros A B C. exists s0, s. split; [exact A|]. split; [exact B|]. split; [exact C|reflexivity]. Qed.

(** the two transmit functions and the segment builders, abstractly (so that instances need only beta) *)
Definition is_tx' (tx : tcp_flow -> tcp_seg -> outcome (tcp_flow * packet)) : Prop :=
  forall f s f' p, flow_twf f -> seg_twf s -> seg_wire f s -> tx f s = Ok (f', p) ->
  sent_by f p /\ flow_twf f' /\ same_socks f' f.
Definition mk_ok' (mk : tcp_flow -> tcp_seg) : Prop :=
  forall f, flow_twf f -> seg_twf (mk f) /\ seg_wire f (mk f).

Lemma cl_tx' : is_tx' flow_cl_tx.
Proof. intros f s f' p Hf Hs Hw E. exact (tx_sent true f s f' p Hf Hs Hw E). Qed.
Lemma sv_tx' : is_tx' flow_sv_tx.
Proof. intros f s f' p Hf Hs Hw E. exact (tx_sent false f s f' p Hf Hs Hw E). Qed.
Lemma mk_cl' g : twf_keep g -> wire_keep g -> mk_ok' (fun f => g (flow_cl f)).
Proof. intros K W f Hf. exact (mk_side true g f K W Hf). Qed.
Lemma mk_sv' g : twf_keep g -> wire_keep g -> mk_ok' (fun f => g (flow_sv f)).
Proof. intros K W f Hf. exact (mk_side false g f K W Hf). Qed.

(** three transmissions in a row (handshake, the two closes) *)
Lemma chain3 tx1 tx2 tx3 mk1 mk2 mk3 f f' ps :
  is_tx' tx1 -> is_tx' tx2 -> is_tx' tx3 -> mk_ok' mk1 -> mk_ok' mk2 -> mk_ok' mk3 -> flow_twf f ->
  (do (f1, p1) <- tx1 f (mk1 f);
   do (f2, p2) <- tx2 f1 (mk2 f1);
   do (f3, p3) <- tx3 f2 (mk3 f2);
   Ok (f3, [p1; p2; p3])) = Ok (f', ps) ->
  Forall (sent_by f) ps /\ flow_twf f' /\ same_socks f' f.
Proof.
  intros T1 T2 T3 M1 M2 M3 Hf H. binv1 H. binv1 H. binv1 H. ok_inv H.
  match goal with
  | E1 : tx1 f _ = Ok (?f1, ?p1), E2 : tx2 ?f1 _ = Ok (?f2, ?p2), E3 : tx3 ?f2 _ = Ok (?f3, ?p3) |- _ =>
    destruct (M1 f Hf) as (A1 & B1);
    destruct (T1 _ _ _ _ Hf A1 B1 E1) as (S1 & Hf1 & So1);
    destruct (M2 f1 Hf1) as (A2 & B2);
    destruct (T2 _ _ _ _ Hf1 A2 B2 E2) as (S2 & Hf2 & So2);
    destruct (M3 f2 Hf2) as (A3 & B3);
    destruct (T3 _ _ _ _ Hf2 A3 B3 E3) as (S3 & Hf3 & So3);
    pose proof (same_socks_trans _ _ _ So2 So1) as So12;
    split; [|split; [exact Hf3|exact (same_socks_trans _ _ _ So3 So12)]];
    constructor; [exact S1|]; constructor; [exact (sent_socks _ _ _ So1 S2)|];
    constructor; [exact (sent_socks _ _ _ So12 S3)|constructor]
  end.
Qed.

Theorem open_sent f f' ps : flow_twf f -> flow_open f = Ok (f', ps) ->
  Forall (sent_by f) ps /\ flow_twf f' /\ same_socks f' f.
Proof.
  intros Hf H. revert H. unfold flow_open. intros H.
  exact (chain3 flow_cl_tx flow_sv_tx flow_cl_tx (fun f => seg_syn (flow_cl f)) (fun f => seg_syn_ack (flow_sv f))
           (fun f => seg_ack (flow_cl f)) f f' ps cl_tx' sv_tx' cl_tx'
           (mk_cl' _ seg_syn_twf wk_syn) (mk_sv' _ seg_syn_ack_twf wk_syn_ack) (mk_cl' _ seg_ack_twf wk_ack) Hf H).
Qed.
Theorem client_close_sent f f' ps : flow_twf f -> flow_client_close f = Ok (f', ps) ->
  Forall (sent_by f) ps /\ flow_twf f' /\ same_socks f' f.
Proof.
  intros Hf H. revert H. unfold flow_client_close. intros H.
  exact (chain3 flow_cl_tx flow_sv_tx flow_cl_tx (fun f => seg_fin_ack (flow_cl f)) (fun f => seg_fin_ack (flow_sv f))
           (fun f => seg_ack (flow_cl f)) f f' ps cl_tx' sv_tx' cl_tx'
           (mk_cl' _ seg_fin_ack_twf wk_fin_ack) (mk_sv' _ seg_fin_ack_twf wk_fin_ack) (mk_cl' _ seg_ack_twf wk_ack) Hf H).
Qed.
Theorem server_close_sent f f' ps : flow_twf f -> flow_server_close f = Ok (f', ps) ->
  Forall (sent_by f) ps /\ flow_twf f' /\ same_socks f' f.
Proof.
  intros Hf H. revert H. unfold flow_server_close. intros H.
  exact (chain3 flow_sv_tx flow_cl_tx flow_sv_tx (fun f => seg_fin_ack (flow_sv f)) (fun f => seg_fin_ack (flow_cl f))
           (fun f => seg_ack (flow_sv f)) f f' ps sv_tx' cl_tx' sv_tx'
           (mk_sv' _ seg_fin_ack_twf wk_fin_ack) (mk_cl' _ seg_fin_ack_twf wk_fin_ack) (mk_sv' _ seg_ack_twf wk_ack) Hf H).
Qed.

(** a data message, with or without the automatic ACK of the other side *)
Lemma message_sent_gen (client : bool) tx1 tx2 (mk2 : tcp_flow -> tcp_seg)
  (mkseg : tcp_flow -> bytes -> N -> outcome tcp_seg) f b (sa : bool) off f' ps :
  is_tx' tx1 -> is_tx' tx2 -> mk_ok' mk2 ->
  (forall s, mkseg f b off = Ok s -> seg_twf s /\ seg_wire f s) ->
  flow_twf f ->
  (do s <- mkseg f b off;
   do (f1, p1) <- tx1 f s;
   if sa then (do (f2, p2) <- tx2 f1 (mk2 f1); Ok (f2, [p1; p2])) else Ok (f1, [p1])) = Ok (f', ps) ->
  Forall (sent_by f) ps /\ flow_twf f' /\ same_socks f' f.
Proof.
  intros T1 T2 M2 MS Hf H. binv1 H. binv1 H.
  match goal with
  | Es : mkseg f b off = Ok ?s, E1 : tx1 f ?s = Ok (?f1, ?p1) |- _ =>
    destruct (MS _ Es) as (A1 & B1);
    destruct (T1 _ _ _ _ Hf A1 B1 E1) as (S1 & Hf1 & So1);
    destruct sa;
    [ binv1 H; ok_inv H;
      match goal with
      | E2 : tx2 f1 _ = Ok (?f2, ?p2) |- _ =>
        destruct (M2 f1 Hf1) as (A2 & B2);
        destruct (T2 _ _ _ _ Hf1 A2 B2 E2) as (S2 & Hf2 & So2);
        split; [|split; [exact Hf2|exact (same_socks_trans _ _ _ So2 So1)]];
        constructor; [exact S1|]; constructor; [exact (sent_socks _ _ _ So1 S2)|constructor]
      end
    | ok_inv H; split; [|split; [exact Hf1|exact So1]]; constructor; [exact S1|constructor] ]
  end.
Qed.

Theorem message_sent (client : bool) f b sa off f' ps :
  flow_twf f -> wf_bytes b -> 20 + len b < 65536 ->
  (if client then flow_client_message f b sa off else flow_server_message f b sa off) = Ok (f', ps) ->
  Forall (sent_by f) ps /\ flow_twf f' /\ same_socks f' f.
Proof.
  intros Hf Hb Hfit H. destruct client.
  - revert H. unfold flow_client_message. intros H.
    refine (message_sent_gen true flow_cl_tx flow_sv_tx (fun f => seg_ack (flow_sv f)) flow_cl_seg f b sa off f' ps
              cl_tx' sv_tx' (mk_sv' _ seg_ack_twf wk_ack) _ Hf H).
    intros s Es. split; [exact (flow_seg_twf true f b off s Hf Hb Hfit Es)|exact (proj1 (data_seg_wire true f b off s Es))].
  - revert H. unfold flow_server_message. intros H.
    refine (message_sent_gen false flow_sv_tx flow_cl_tx (fun f => seg_ack (flow_cl f)) flow_sv_seg f b sa off f' ps
              sv_tx' cl_tx' (mk_cl' _ seg_ack_twf wk_ack) _ Hf H).
    intros s Es. split; [exact (flow_seg_twf false f b off s Hf Hb Hfit Es)|exact (proj1 (data_seg_wire false f b off s Es))].
Qed.

(** a single data segment: also the segment bytes verify for the side's addresses *)
Theorem data_segment_sent (client : bool) f b f' s :
  flow_twf f -> wf_bytes b -> 20 + len b < 65536 ->
  (if client then flow_client_data_segment f b else flow_server_data_segment f b) = Ok (f', s) ->
  sent_by f (seg_packet s) /\ flow_twf f' /\ same_socks f' f
  /\ tcp_ok (side_src client f) (side_dst client f) (seg_tcpseg s) = true.
Proof.
  intros Hf Hb Hfit H. revert H. unfold flow_client_data_segment, flow_server_data_segment. intros H.
  destruct client; binv H; ok_inv H.
  - match goal with
    | Es : flow_cl_seg f b 0 = Ok ?s0, Ec : seg_tcp_csum ?s0 = Ok _ |- _ =>
      pose proof (flow_seg_twf true f b 0 s0 Hf Hb Hfit Es) as A1;
      destruct (data_seg_wire true f b 0 s0 Es) as (B1 & Q1 & Q2);
      split; [exact (csum_sent f _ _ A1 B1 Ec)|];
      split; [apply flow_update_twf, Hf|];
      split; [repeat split|];
      destruct (tcp_csum_verifies _ _ A1 Ec) as (V & I & _); rewrite I, Q1, Q2 in V; exact V
    end.
  - match goal with
    | Es : flow_sv_seg f b 0 = Ok ?s0, Ec : seg_tcp_csum ?s0 = Ok _ |- _ =>
      pose proof (flow_seg_twf false f b 0 s0 Hf Hb Hfit Es) as A1;
      destruct (data_seg_wire false f b 0 s0 Es) as (B1 & Q1 & Q2);
      split; [exact (csum_sent f _ _ A1 B1 Ec)|];
      split; [apply flow_update_twf, Hf|];
      split; [repeat split|];
      destruct (tcp_csum_verifies _ _ A1 Ec) as (V & I & _); rewrite I, Q1, Q2 in V; exact V
    end.
Qed.

Theorem ack_sent (client : bool) f s : flow_twf f ->
  (if client then flow_client_ack f else flow_server_ack f) = Ok s -> sent_by f (seg_packet s).
Proof.
  intros Hf H. revert H. unfold flow_client_ack, flow_server_ack. intros H. destruct client.
  - destruct (mk_cl' seg_ack seg_ack_twf wk_ack f Hf) as (A & B). exact (csum_sent f _ _ A B H).
  - destruct (mk_sv' seg_ack seg_ack_twf wk_ack f Hf) as (A & B). exact (csum_sent f _ _ A B H).
Qed.

Theorem reset_sent (client : bool) f p : flow_twf f ->
  (if client then flow_client_reset f else flow_server_reset f) = Ok p -> sent_by f p.
Proof.
  intros Hf H. revert H. unfold flow_client_reset, flow_server_reset. intros H. destruct client; binv H; apply Ok_inj in H; subst p.
  - destruct (mk_cl' seg_rst seg_rst_twf wk_rst f Hf) as (A & B). eapply csum_sent; eassumption.
  - destruct (mk_sv' seg_rst seg_rst_twf wk_rst f Hf) as (A & B). eapply csum_sent; eassumption.
Qed.
