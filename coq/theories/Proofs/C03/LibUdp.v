(** C03 at the library level, UDP: the four UdpFlow methods, ipv4::udp::unicast / broadcast, as
    dispatched by [exec], and the two datagrams of dns::host.
    Every datagram: the length field equals header plus payload.  Checksumming is a property of the
    builder: the flow methods checksum unless called with csum: false (then the field is 0, "none");
    unicast and broadcast never do (the field is exactly 0); dns::host always does. *)
From RS Require Import Base.Bytes Base.Outcome Bind.Types Pkt.Csum Pkt.Hdrs Pkt.Packet Ez.Tcp Ez.Udp
  Interp.Val Interp.Eval Lib.LibBase Lib.StdLib Lib.Ipv4Lib Lib.MiscLib Lib.ProtoLib Spec.Wire
  Proofs.BytesLemmas Proofs.Tactics Proofs.C02.IpLemmas Proofs.C02.TcpIp Proofs.C02.OtherIp Proofs.C03.Transport
  Proofs.C08.LibTac Proofs.C03.LibCalls.
From RSGen Require Import Catalogue.
From Coq Require Import Arith ZArith Lia ZifyBool ZifyNat ZifyN.
Ltac Zify.zify_post_hook ::= Z.div_mod_to_equations.
Open Scope N_scope.

Definition udp_class : string := "ipv4::udp::UdpFlow"%string.

(** the frame, decoded: an IPv4 header for protocol 17 between [src] and [dst], then the UDP datagram [l4] *)
Definition udp_wire (raw : bool) (p : packet) (src dst : N) (l4 : bytes) : Prop :=
  exists iph, l3_of raw (pk_body p) = (ip_ser iph ++ l4)%list
    /\ ip_proto iph = 17 /\ ip_src iph = src /\ ip_dst iph = dst.

(** what every builder establishes before an optional checksum: framing, payload, exact length field,
    protocol, a zero checksum field, and the sockets *)
Definition udp_shape (d : udp_dgram) (raw : bool) (s t : sock) (b : bytes) : Prop :=
  ud_raw d = raw /\ ud_payload d = b /\ eth_wf (ud_eth d) /\ uh_len (ud_udp d) = 8 + len b
  /\ ip_proto (ud_ip d) = 17 /\ uh_csum (ud_udp d) = 0
  /\ ip_src (ud_ip d) = fst s /\ ip_dst (ud_ip d) = fst t /\ uh_sport (ud_udp d) = snd s /\ uh_dport (ud_udp d) = snd t.

Lemma udp_addressed_shape raw s t b d :
  8 + len b < 65536 -> udp_push (udp_dst (udp_src (udp_new raw) s) t) b = Ok d -> udp_shape d raw s t b.
Proof.
  intros Hfit E. unfold udp_push in E. apply Ok_inj in E. subst d. unfold udp_shape.
  cbn [ud_raw ud_payload ud_eth ud_udp ud_ip udp_dst udp_src udp_new ud_with_eth ud_with_ip ud_with_udp
       uh_len uh_csum uh_sport uh_dport udp_default app].
  split; [reflexivity|]. split; [reflexivity|]. split; [split; reflexivity|].
  split; [unfold wrap16; lia|]. repeat split.
Qed.

Lemma shape_frag_off d raw s t b off : udp_shape d raw s t b -> udp_shape (udp_frag_off d off) raw s t b.
Proof. intros H. exact H. Qed.
Lemma shape_broadcast d raw s t b : udp_shape d raw s t b -> udp_shape (udp_broadcast d) raw s t b.
Proof.
  intros (H1 & H2 & (H3 & H3') & H4). unfold udp_shape, udp_broadcast, eth_wf.
  cbn [ud_raw ud_payload ud_eth ud_udp ud_ip ud_with_eth eth_set_broadcast eth_dst eth_src].
  split; [exact H1|]. split; [exact H2|]. split; [split; [reflexivity|exact H3']|exact H4].
Qed.
Lemma shape_srcip d raw s t b a : udp_shape d raw s t b -> udp_shape (udp_srcip d a) raw (a, snd s) t b.
Proof.
  intros (H1 & H2 & H3 & H4 & H5 & H6 & H7 & H8 & H9 & H10). unfold udp_shape, udp_srcip.
  cbn [ud_raw ud_payload ud_eth ud_udp ud_ip ud_with_ip fst snd].
  repeat (split; [assumption|]). split; [reflexivity|]. repeat (split; [assumption|]). assumption.
Qed.

Lemma shape_wire d raw s t b :
  udp_shape d raw s t b -> udp_wire raw (udp_packet d) (fst s) (fst t) (udp_l4_bytes d).
Proof.
  intros (H1 & H2 & H3 & H4 & H5 & H6 & H7 & H8 & _). exists (ud_ip d).
  unfold udp_packet, pkt_of_body, udp_bytes. cbn [pk_body]. rewrite H1.
  rewrite l3_of_framed by (apply eth_wf_length; exact H3).
  split; [reflexivity|]. split; [exact H5|]. split; assumption.
Qed.

Lemma shape_len d raw s t b : udp_shape d raw s t b -> 8 + len b < 65536 -> udp_len_ok (udp_l4_bytes d) = true.
Proof.
  intros (_ & H2 & _ & H4 & _) Hfit. unfold udp_len_ok, udp_l4_bytes.
  rewrite app_length. change (length (udp_ser (ud_udp d))) with 8%nat.
  replace (Nat.leb 8 (8 + length (ud_payload d))) with true by (symmetry; apply Nat.leb_le; lia).
  cbn [andb]. unfold udp_ser. rewrite <- !app_assoc.
  rewrite u16_at_be16 by (rewrite H4; lia). rewrite !len_app. change (len (be16 _)) with 2. rewrite H4, H2.
  apply N.eqb_eq. lia.
Qed.

(** no checksum: the field is exactly zero *)
Lemma shape_csum_absent d raw s t b : udp_shape d raw s t b -> u16_at (udp_l4_bytes d) 6 = 0.
Proof.
  intros (_ & _ & _ & _ & _ & H6 & _). unfold udp_l4_bytes, udp_ser. rewrite H6. rewrite <- !app_assoc.
  apply u16_at_be16_6. lia.
Qed.

(** the UdpFlow's datagram: in addition current IPv4 checksum etc. ([udp_inv]), needed by the checksum proof *)
Definition uflow_side (client : bool) (f : udp_flow) : sock * sock :=
  if client then (uf_cl f, uf_sv f) else (uf_sv f, uf_cl f).

Lemma uflow_dgram_shape (client : bool) f b d :
  uflow_wf f -> 28 + len b < 65536 ->
  (if client then uflow_client_dgram f b else uflow_server_dgram f b) = Ok d ->
  udp_inv d /\ udp_shape d (uf_raw f) (fst (uflow_side client f)) (snd (uflow_side client f)) b.
Proof.
  intros Hf Hfit E. destruct (uflow_dgram_ok client f b d Hf Hfit E) as (I & _). split; [exact I|].
  unfold uflow_client_dgram, uflow_server_dgram in E.
  destruct client; cbn [uflow_side fst snd]; apply udp_addressed_shape; try exact E; lia.
Qed.

(** checksumming a datagram of that shape: non-zero, verifies; length field and layout unchanged *)
Lemma shape_csum d d' raw s t b :
  udp_inv d -> udp_shape d raw s t b -> sock_wf s -> sock_wf t -> wf_bytes b -> 8 + len b < 65536 ->
  udp_csum d = Ok d' ->
  udp_wire raw (udp_packet d') (fst s) (fst t) (udp_l4_bytes d')
  /\ udp_len_ok (udp_l4_bytes d') = true
  /\ udp_csum_ok (fst s) (fst t) (udp_l4_bytes d') = true.
Proof.
  intros I Sh (_ & Hsp) (_ & Htp) Hb Hfit E.
  pose proof Sh as (H1 & H2 & H3 & H4 & H5 & H6 & H7 & H8 & H9 & H10).
  assert (Hw : uh_wf (ud_udp d)) by (unfold uh_wf; rewrite H9, H10, H4; lia).
  destruct (udp_csum_verifies d d' I Hw H6 ltac:(rewrite H2; exact Hb) ltac:(rewrite H2; exact Hfit) H5 E) as (V & P).
  pose proof (udp_csum_inv _ _ I E) as I'.
  assert (Eip : ud_ip d' = ud_ip d /\ ud_raw d' = ud_raw d /\ ud_eth d' = ud_eth d).
  { unfold udp_csum in E. binv E. apply Ok_inj in E. subst d'. repeat split. }
  destruct Eip as (Eip & Eraw & Eeth). rewrite Eip, H7, H8 in V.
  split; [|split; [|exact V]].
  - exists (ud_ip d'). unfold udp_packet, pkt_of_body, udp_bytes. cbn [pk_body]. rewrite Eraw, H1.
    rewrite l3_of_framed by (apply eth_wf_length; rewrite Eeth; exact H3).
    split; [reflexivity|]. rewrite Eip. split; [exact H5|]. split; assumption.
  - apply udp_len_exact; [exact I'|]. rewrite P, H2. exact Hfit.
Qed.

(* ------------------------------------------------------------------ the UdpFlow methods *)
Definition udp_name (client framed : bool) : string :=
  (if client then (if framed then "client_dgram" else "client_raw_dgram")
   else (if framed then "server_dgram" else "server_raw_dgram"))%string.

(** what a UdpFlow method returns: the datagram [l4] between the side's sockets -- inside a frame
    ([framed]) or as a byte string --, length field exact, checksum as requested by the last argument *)
Definition udp_flow_result (f : udp_flow) (client framed cs : bool) (v : val) : Prop :=
  let src := fst (fst (uflow_side client f)) in
  let dst := fst (snd (uflow_side client f)) in
  exists l4,
    (if framed then exists p, v = VPkt p /\ udp_wire (uf_raw f) p src dst l4 else v = VStr l4)
    /\ udp_len_ok l4 = true
    /\ (if cs then udp_csum_ok src dst l4 = true else u16_at l4 6 = 0).

Lemma flow_dgram_post (client cs : bool) f b d d2 :
  uflow_wf f -> wf_bytes b -> 28 + len b < 65536 ->
  udp_inv d -> udp_shape d (uf_raw f) (fst (uflow_side client f)) (snd (uflow_side client f)) b ->
  (if cs then udp_csum d else Ok d) = Ok d2 ->
  udp_wire (uf_raw f) (udp_packet d2) (fst (fst (uflow_side client f))) (fst (snd (uflow_side client f))) (udp_l4_bytes d2)
  /\ udp_len_ok (udp_l4_bytes d2) = true
  /\ (if cs then udp_csum_ok (fst (fst (uflow_side client f))) (fst (snd (uflow_side client f))) (udp_l4_bytes d2) = true
      else u16_at (udp_l4_bytes d2) 6 = 0).
Proof.
  intros (Hc & Hs) Hb Hfit I Sh E. destruct cs.
  - eapply shape_csum; try eassumption; try lia; destruct client; assumption.
  - apply Ok_inj in E. subst d2. split; [eapply shape_wire, Sh|]. split; [eapply shape_len; [exact Sh|lia]|eapply shape_csum_absent, Sh].
Qed.

Ltac udp_enter H Hn :=
  exec_unfold_in H; apply Some_inj in H; rewrite (take_this_some _ _ _ Hn), obind_ok in H; cbv beta iota in H;
  binv1 H; ok_inv H; (split; [reflexivity|]).

Ltac udp_framed c f Hf Hfit :=
  match goal with
  | Efo : conv_u16 _ = Ok ?fo, Ecs : conv_bool _ = Ok ?cs, Ej : join_extra [] _ = Ok ?b, Ed : _ f ?b = Ok ?d,
    Ec : (if ?cs then udp_csum (udp_frag_off ?d ?fo) else _) = Ok ?d2, Ev : Ok _ = Ok _ |- _ =>
    let Hb := fresh "Hb" in let Hl := fresh "Hl" in let I := fresh "I" in let Sh := fresh "Sh" in let I1 := fresh "I1" in
    ok_inv Ev;
    destruct (Hfit _ Ej) as (Hb & Hl);
    destruct (uflow_dgram_shape c f _ _ Hf Hl Ed) as (I & Sh);
    pose proof (udp_frag_off_inv _ _ (conv_u16_lt _ _ Efo) I) as I1; apply (shape_frag_off _ _ _ _ _ fo) in Sh;
    destruct (flow_dgram_post c _ f _ _ _ Hf Hb Hl I1 Sh Ec) as (Wr & Ln & Cs);
    exists c, true; eexists; split; [reflexivity|]; split; [exact Ecs|];
    eexists; split; [eexists; split; [reflexivity|exact Wr]|]; split; assumption
  end.

Ltac udp_unframed c f Hf Hfit :=
  match goal with
  | Ecs : conv_bool _ = Ok ?cs, Ej : join_extra [] _ = Ok ?b, Ed : _ f ?b = Ok ?d,
    Ec : (if ?cs then udp_csum ?d else _) = Ok ?d2, Ev : Ok _ = Ok _ |- _ =>
    let Hb := fresh "Hb" in let Hl := fresh "Hl" in let I := fresh "I" in let Sh := fresh "Sh" in
    ok_inv Ev;
    destruct (Hfit _ Ej) as (Hb & Hl);
    destruct (uflow_dgram_shape c f _ _ Hf Hl Ed) as (I & Sh);
    destruct (flow_dgram_post c _ f _ _ _ Hf Hb Hl I Sh Ec) as (Wr & Ln & Cs);
    exists c, false; eexists; split; [reflexivity|]; split; [exact Ecs|];
    eexists; split; [reflexivity|]; split; assumption
  end.

Theorem udp_method_sound e ms name key slots extra h a f v h' :
  assoc udp_class class_table = Some ms -> In (name, key) ms ->
  payload_fits 28 extra ->
  nth_error h a = Some (OUdp f) -> uflow_wf f ->
  exec e key (Some a) slots extra h = Some (Ok (v, h')) ->
  h' = h /\ exists client framed cs, name = udp_name client framed
    /\ conv_bool (last slots VNil) = Ok cs /\ udp_flow_result f client framed cs v.
Proof.
  intros Hms Hin Hfit Hn Hf H. vm_compute in Hms. apply Some_inj in Hms. subst ms.
  cbn [In] in Hin.
  repeat (destruct Hin as [Hin|Hin]; [apply pair_equal_spec in Hin; destruct Hin as [<- <-]|]); [..|contradiction Hin].
  - udp_enter H Hn.
    destruct slots as [|s1 [|s2 [|? ?]]]; cbv beta iota in E; try (exfalso; exact (bad_args_not_ok' _ E)).
    binv E. udp_framed true f Hf Hfit.
  - udp_enter H Hn.
    destruct slots as [|s1 [|s2 [|? ?]]]; cbv beta iota in E; try (exfalso; exact (bad_args_not_ok' _ E)).
    binv E. udp_framed false f Hf Hfit.
  - udp_enter H Hn.
    destruct slots as [|s1 [|? ?]]; cbv beta iota in E; try (exfalso; exact (bad_args_not_ok' _ E)).
    binv E. udp_unframed true f Hf Hfit.
  - udp_enter H Hn.
    destruct slots as [|s1 [|? ?]]; cbv beta iota in E; try (exfalso; exact (bad_args_not_ok' _ E)).
    binv E. udp_unframed false f Hf Hfit.
Qed.

(* ------------------------------------------------------------------ unicast / broadcast *)
(** a datagram built outside a flow: length exact, checksum field exactly zero ("none"), by design *)
Definition udp_plain_result (raw : bool) (src dst : N) (v : val) : Prop :=
  exists p l4, v = VPkt p /\ udp_wire raw p src dst l4 /\ udp_len_ok l4 = true /\ u16_at l4 6 = 0.

Lemma plain_post d raw s t b : udp_shape d raw s t b -> 8 + len b < 65536 ->
  udp_plain_result raw (fst s) (fst t) (VPkt (udp_packet d)).
Proof.
  intros Sh Hl. eexists. eexists. split; [reflexivity|]. split; [eapply shape_wire, Sh|].
  split; [eapply shape_len; eassumption|eapply shape_csum_absent, Sh].
Qed.

Theorem udp_unicast_sound e slots extra h v h' :
  payload_fits 8 extra ->
  exec e "ipv4::udp::unicast" None slots extra h = Some (Ok (v, h')) ->
  h' = h /\ exists src dst raw,
    conv_sock (nth 0 slots VNil) = Ok src /\ conv_sock (nth 1 slots VNil) = Ok dst /\ conv_bool (nth 2 slots VNil) = Ok raw
    /\ udp_plain_result raw (fst src) (fst dst) v.
Proof.
  intros Hfit H. exec_unfold_in H. apply Some_inj in H. unfold udp_unicast_fn in H.
  destruct slots as [|s1 [|s2 [|s3 [|? ?]]]]; try (exfalso; exact (bad_args_not_ok' _ H)).
  binv H. ok_inv H. split; [reflexivity|].
  match goal with
  | Er : conv_bool s3 = Ok ?r, Ej : join_extra [] extra = Ok ?b, Es : conv_sock s1 = Ok ?s, Et : conv_sock s2 = Ok ?t,
    Ed : udp_push _ ?b = Ok ?d |- _ =>
    destruct (Hfit _ Ej) as (Hb & Hl);
    exists s, t, r; split; [exact Es|]; split; [exact Et|]; split; [exact Er|];
    eapply plain_post; [eapply udp_addressed_shape; [exact Hl|exact Ed]|exact Hl]
  end.
Qed.

Theorem udp_broadcast_sound e slots extra h v h' :
  payload_fits 8 extra ->
  exec e "ipv4::udp::broadcast" None slots extra h = Some (Ok (v, h')) ->
  h' = h /\ exists src dst sip raw,
    conv_sock (nth 0 slots VNil) = Ok src /\ conv_sock (nth 1 slots VNil) = Ok dst
    /\ conv_opt conv_ip4 (nth 2 slots VNil) = Ok sip /\ conv_bool (nth 3 slots VNil) = Ok raw
    /\ udp_plain_result raw (match sip with Some ip => ip | None => fst src end) (fst dst) v.
Proof.
  intros Hfit H. exec_unfold_in H. apply Some_inj in H. unfold udp_broadcast_fn in H.
  destruct slots as [|s1 [|s2 [|s3 [|s4 [|? ?]]]]]; try (exfalso; exact (bad_args_not_ok' _ H)).
  binv H. ok_inv H. split; [reflexivity|].
  match goal with
  | Ei : conv_opt conv_ip4 s3 = Ok ?sip, Er : conv_bool s4 = Ok ?r, Ej : join_extra [] extra = Ok ?b,
    Es : conv_sock s1 = Ok ?s, Et : conv_sock s2 = Ok ?t, Ed : udp_push _ ?b = Ok ?d |- _ =>
    destruct (Hfit _ Ej) as (Hb & Hl);
    exists s, t, sip, r; split; [exact Es|]; split; [exact Et|]; split; [exact Ei|]; split; [exact Er|];
    assert (Sh : udp_shape d r s t b);
    [ unfold udp_push in Ed; apply Ok_inj in Ed; subst d; unfold udp_shape;
      cbn [ud_raw ud_payload ud_eth ud_udp ud_ip udp_dst udp_src udp_new udp_broadcast ud_with_eth ud_with_ip ud_with_udp
           uh_len uh_csum uh_sport uh_dport udp_default app];
      split; [reflexivity|]; split; [reflexivity|]; split; [split; reflexivity|];
      split; [unfold wrap16; lia|]; repeat split
    | destruct sip as [ip|];
      [ apply (shape_srcip _ _ _ _ _ ip) in Sh; exact (plain_post _ _ _ _ _ Sh Hl)
      | exact (plain_post _ _ _ _ _ Sh Hl) ] ]
  end.
Qed.

(* ------------------------------------------------------------------ VXLAN outer datagrams *)
Lemma shape_push d raw s t b b' d' :
  udp_shape d raw s t b -> 8 + len b + len b' < 65536 -> udp_push d b' = Ok d' -> udp_shape d' raw s t (b ++ b')%list.
Proof.
  intros (H1 & H2 & H3 & H4 & H5 & H6 & H7 & H8 & H9 & H10) Hfit E. unfold udp_push in E. apply Ok_inj in E. subst d'.
  unfold udp_shape. cbn [ud_raw ud_payload ud_eth ud_udp ud_ip uh_len uh_csum uh_sport uh_dport].
  split; [exact H1|]. split; [rewrite H2; reflexivity|]. split; [exact H3|].
  split; [rewrite H4, len_app; unfold wrap16; lia|]. repeat (split; [assumption|]). assumption.
Qed.

Lemma vxlan_encap_plain f inner p : 16 + len inner < 65536 ->
  vxlan_encap f inner = Ok p -> udp_plain_result (vx_raw f) (fst (vx_cl f)) (fst (vx_sv f)) (VPkt p).
Proof.
  intros Hfit H. unfold vxlan_encap in H. binv H. apply Ok_inj in H. subst p.
  assert (L8 : len (vxlan_ser (vx_vni f)) = 8) by reflexivity.
  match goal with
  | E1 : udp_push _ (vxlan_ser _) = Ok ?d1, E2 : udp_push ?d1 inner = Ok ?d2 |- _ =>
    assert (Sh1 : udp_shape d1 (vx_raw f) (vx_cl f) (vx_sv f) (vxlan_ser (vx_vni f)))
      by (eapply udp_addressed_shape; [rewrite L8; lia|exact E1]);
    assert (Sh2 : udp_shape d2 (vx_raw f) (vx_cl f) (vx_sv f) (vxlan_ser (vx_vni f) ++ inner)%list)
      by (eapply shape_push; [exact Sh1|rewrite L8; lia|exact E2]);
    eapply plain_post; [exact Sh2|rewrite len_app, L8; lia]
  end.
Qed.

Lemma vxlan_encap_all_plain f : forall ps out,
  Forall (fun p => 16 + len (pk_body p) < 65536) ps ->
  omapM (fun p => vxlan_encap f (pkt_frame p)) ps = Ok out ->
  Forall (fun q => udp_plain_result (vx_raw f) (fst (vx_cl f)) (fst (vx_sv f)) (VPkt q)) out.
Proof.
  induction ps as [|p r IH]; intros out Hall H; cbn [omapM] in H.
  - apply Ok_inj in H. subst out. constructor.
  - apply Forall_cons_iff in Hall. destruct Hall as (Hp & Hr). binv H. apply Ok_inj in H. subst out.
    constructor; [eapply vxlan_encap_plain; [exact Hp|eassumption]|apply IH; assumption].
Qed.

(** Vxlan.dgram / Vxlan.encap: the outer datagram of every encapsulated frame has an exact length field
    and checksum field zero *)
Theorem vxlan_method_sound e ms name key slots extra h a f v h' :
  assoc "vxlan::Vxlan"%string class_table = Some ms -> In (name, key) ms ->
  (forall ps, conv_pktgen (nth 0 slots VNil) = Ok ps -> Forall (fun p => 16 + len (pk_body p) < 65536) ps) ->
  nth_error h a = Some (OVxlan f) ->
  exec e key (Some a) slots extra h = Some (Ok (v, h')) ->
  h' = h /\ exists out, conv_pktgen v = Ok out
    /\ Forall (fun q => udp_plain_result (vx_raw f) (fst (vx_cl f)) (fst (vx_sv f)) (VPkt q)) out.
Proof.
  intros Hms Hin Hfit Hn H. vm_compute in Hms. apply Some_inj in Hms. subst ms.
  cbn [In] in Hin.
  repeat (destruct Hin as [Hin|Hin]; [apply pair_equal_spec in Hin; destruct Hin as [<- <-]|]); [..|contradiction Hin].
  - (* dgram *) exec_unfold_in H. apply Some_inj in H. rewrite (take_this_some _ _ _ Hn), obind_ok in H. cbv beta iota in H.
    destruct slots as [|s1 [|? ?]]; cbv beta iota in H; try (exfalso; exact (bad_args_not_ok' _ H)).
    cbn [nth] in Hfit. binv H. ok_inv H. split; [reflexivity|]. eexists. split; [reflexivity|].
    match goal with Ep : conv_pkt s1 = Ok ?p, Eq : vxlan_encap f _ = Ok ?q |- _ =>
      assert (Eg : conv_pktgen s1 = Ok [p]) by (destruct s1; try discriminate Ep; cbn in Ep |- *; congruence);
      pose proof (Hfit _ Eg) as Hp; apply Forall_cons_iff in Hp; destruct Hp as (Hp & _);
      constructor; [eapply vxlan_encap_plain; [exact Hp|exact Eq]|constructor]
    end.
  - (* encap *) exec_unfold_in H. apply Some_inj in H. rewrite (take_this_some _ _ _ Hn), obind_ok in H. cbv beta iota in H.
    destruct slots as [|s1 [|? ?]]; cbv beta iota in H; try (exfalso; exact (bad_args_not_ok' _ H)).
    cbn [nth] in Hfit. binv H. ok_inv H. split; [reflexivity|]. eexists. split; [reflexivity|].
    match goal with Ep : conv_pktgen s1 = Ok ?ps, Eo : omapM _ ?ps = Ok _ |- _ =>
      eapply vxlan_encap_all_plain; [exact (Hfit _ Ep)|exact Eo]
    end.
Qed.

(* ------------------------------------------------------------------ dns::host *)
Lemma wf_cons x l : x < 256 -> wf_bytes l -> wf_bytes (x :: l).
Proof. intros; constructor; assumption. Qed.
Lemma wf_rev l : wf_bytes l -> wf_bytes (rev l).
Proof. unfold wf_bytes. apply Forall_rev. Qed.

Lemma wf_dns_labels cs : Forall wf_bytes cs -> wf_bytes (dns_labels cs).
Proof.
  intros H. unfold dns_labels. induction H as [|c r Hc Hr IH]; cbn [map concat]; [constructor|].
  apply wf_app; [|exact IH]. unfold dns_label. apply wf_cons; [unfold wrap8; lia|exact Hc].
Qed.
Lemma wf_split_dot_aux : forall l cur, wf_bytes l -> wf_bytes cur -> Forall wf_bytes (split_dot_aux l cur).
Proof.
  induction l as [|c r IH]; intros cur Hl Hc; cbn [split_dot_aux].
  - constructor; [apply wf_rev, Hc|constructor].
  - inversion Hl as [|? ? Hx Hr]; subst. destruct (c =? 46).
    + constructor; [apply wf_rev, Hc|]. apply IH; [exact Hr|constructor].
    + apply IH; [exact Hr|]. apply wf_cons; assumption.
Qed.
Lemma wf_dns_name_from qn : wf_bytes qn -> wf_bytes (dns_name_from qn).
Proof.
  intros H. unfold dns_name_from. apply wf_app; [|repeat constructor; lia].
  apply wf_dns_labels, wf_split_dot_aux; [exact H|constructor].
Qed.

Lemma wf_dns_hdr a b c d e' f : wf_bytes (dns_hdr_bytes a b c d e' f).
Proof. unfold dns_hdr_bytes. do 5 (apply wf_app; [apply be16_wf|]). apply be16_wf. Qed.

Lemma wf_dns_query name : wf_bytes name -> wf_bytes (dns_host_query name).
Proof.
  intros H. unfold dns_host_query. apply wf_app; [apply wf_dns_hdr|]. apply wf_app; [exact H|].
  apply wf_app; apply be16_wf.
Qed.
Lemma wf_dns_rrs name ttlv ips : wf_bytes name -> wf_bytes (concat (map (dns_host_rr name ttlv) ips)).
Proof.
  intros H. induction ips as [|ip r IH]; cbn [map concat]; [constructor|]. apply wf_app; [|exact IH].
  unfold dns_host_rr. apply wf_app; [exact H|].
  apply wf_app; [apply be16_wf|]. apply wf_app; [apply be16_wf|]. apply wf_app; [apply be32_wf|].
  apply wf_app; [apply be16_wf|apply be32_wf].
Qed.
Lemma wf_dns_response name ttlv an ips : wf_bytes name -> wf_bytes (dns_host_response name ttlv an ips).
Proof.
  intros H. unfold dns_host_response. apply wf_app; [apply wf_dns_hdr|]. apply wf_app; [exact H|].
  apply wf_app; [apply be16_wf|]. apply wf_app; [apply be16_wf|]. apply wf_dns_rrs, H.
Qed.

Lemma len_dns_query name : len (dns_host_query name) = 16 + len name.
Proof. unfold dns_host_query. rewrite !len_app. change (len (dns_hdr_bytes _ _ _ _ _ _)) with 12. change (len (be16 1)) with 2. lia. Qed.
Lemma len_dns_rrs name ttlv ips : len (concat (map (dns_host_rr name ttlv) ips)) = len ips * (len name + 14).
Proof.
  induction ips as [|ip r IH]; [reflexivity|]. cbn [map concat]. rewrite len_app, IH, len_cons.
  unfold dns_host_rr. rewrite !len_app. change (len (be16 _)) with 2. change (len (be32 _)) with 4. lia.
Qed.
Lemma len_dns_response name ttlv an ips :
  len (dns_host_response name ttlv an ips) = 16 + len name + len ips * (len name + 14).
Proof.
  unfold dns_host_response. rewrite !len_app, len_dns_rrs. change (len (dns_hdr_bytes _ _ _ _ _ _)) with 12.
  change (len (be16 1)) with 2. lia.
Qed.

Lemma omapM_len {A B} (g : A -> outcome B) : forall l r, omapM g l = Ok r -> len r = len l.
Proof.
  induction l as [|x l IH]; intros r H; cbn [omapM] in H.
  - apply Ok_inj in H. subst r. reflexivity.
  - binv H. apply Ok_inj in H. subst r. rewrite !len_cons. f_equal. apply IH. assumption.
Qed.

(** the response (the larger of the two messages) fits a datagram: [n] answers for the encoded name *)
Definition dns_host_fits (qn : bytes) (n : N) : Prop :=
  28 + 16 + len (dns_name_from qn) + n * (len (dns_name_from qn) + 14) < 65536.

(** both datagrams: length exact, checksum present, non-zero and verifying; query client:32768 -> ns:53,
    response back *)
Definition udp_checksummed (raw : bool) (p : packet) (src dst : N) : Prop :=
  exists l4, udp_wire raw p src dst l4 /\ udp_len_ok l4 = true /\ udp_csum_ok src dst l4 = true.

Theorem dns_host_sound e slots extra h v h' :
  (forall cl, conv_ip4 (nth 0 slots VNil) = Ok cl -> cl < 4294967296) ->
  (forall ns, conv_ip4 (nth 3 slots VNil) = Ok ns -> ns < 4294967296) ->
  (forall qn, conv_buf (nth 1 slots VNil) = Ok qn -> wf_bytes qn /\ dns_host_fits qn (len extra)) ->
  exec e "dns::host" None slots extra h = Some (Ok (v, h')) ->
  h' = h /\ exists cl ns raw q r,
    conv_ip4 (nth 0 slots VNil) = Ok cl /\ conv_ip4 (nth 3 slots VNil) = Ok ns /\ conv_bool (nth 4 slots VNil) = Ok raw
    /\ v = VPktGen [q; r] /\ udp_checksummed raw q cl ns /\ udp_checksummed raw r ns cl.
Proof.
  intros Hcl Hns Hqn H. exec_unfold_in H. apply Some_inj in H. unfold dns_host_fn in H.
  destruct slots as [|s1 [|s2 [|s3 [|s4 [|s5 [|? ?]]]]]]; try (exfalso; exact (bad_args_not_ok' _ H)).
  cbn [nth] in Hcl, Hns, Hqn |- *.
  binv H. ok_inv H. split; [reflexivity|].
  match goal with
  | Ec : conv_ip4 s1 = Ok ?cl, Eq : conv_buf s2 = Ok ?qn, En : conv_ip4 s4 = Ok ?ns, Er : conv_bool s5 = Ok ?r,
    Ed1 : uflow_client_dgram ?fl ?b1 = Ok ?d1, Ec1 : udp_csum ?d1 = Ok ?d1c, Ei : omapM conv_ip4 extra = Ok ?ips,
    Ed2 : uflow_server_dgram ?fl ?b2 = Ok ?d2, Ec2 : udp_csum ?d2 = Ok ?d2c |- _ =>
    pose proof (Hcl _ Ec) as Bc; pose proof (Hns _ En) as Bn; destruct (Hqn _ Eq) as (Wq & Fq);
    pose proof (omapM_len _ _ _ Ei) as Li;
    assert (Hf : uflow_wf fl) by (unfold uflow_wf, sock_wf; cbn [uf_cl uf_sv fst snd]; lia);
    assert (L1 : 28 + len b1 < 65536) by (rewrite len_dns_query; unfold dns_host_fits in Fq; lia);
    assert (L2 : 28 + len b2 < 65536) by (rewrite len_dns_response, Li; unfold dns_host_fits in Fq; lia);
    destruct (uflow_dgram_shape true fl _ _ Hf L1 Ed1) as (I1 & Sh1);
    destruct (uflow_dgram_shape false fl _ _ Hf L2 Ed2) as (I2 & Sh2);
    cbn [uflow_side fst snd uf_cl uf_sv uf_raw] in Sh1, Sh2;
    destruct (shape_csum _ _ _ _ _ _ I1 Sh1 (proj1 Hf) (proj2 Hf) (wf_dns_query _ (wf_dns_name_from _ Wq)) ltac:(lia) Ec1) as (W1 & N1 & C1);
    destruct (shape_csum _ _ _ _ _ _ I2 Sh2 (proj2 Hf) (proj1 Hf) (wf_dns_response _ _ _ _ (wf_dns_name_from _ Wq)) ltac:(lia) Ec2) as (W2 & N2 & C2);
    exists cl, ns, r; eexists; eexists; split; [exact Ec|]; split; [exact En|]; split; [exact Er|];
    split; [reflexivity|]; split; eexists; (split; [eassumption|]); split; assumption
  end.
Qed.
