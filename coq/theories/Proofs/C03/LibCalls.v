(** C03 at the level the interpreter executes: shared vocabulary for the library-level theorems.
    A [call] is one dispatch through [exec] (what [Interp/Eval.v] does for every call expression, with
    the slots and extra arguments the binder produced); a history is a sequence of calls threaded
    through the heap.  Also the inversion tactic used to walk the library bodies. *)
From RS Require Import Base.Bytes Base.Outcome Bind.Types Pkt.Packet Interp.Val Interp.Eval
  Lib.LibBase Lib.StdLib Lib.Ipv4Lib Lib.MiscLib Proofs.Tactics Proofs.BytesLemmas Proofs.C08.Safe Proofs.C08.LibPost.
From RSGen Require Import Catalogue.
From Coq Require Import Arith Lia.
Open Scope N_scope.

Record call := { c_key : string; c_this : option nat; c_slots : list val; c_extra : list val }.

Definition do_call (e : env) (c : call) (h : heap) : option libres :=
  exec e (c_key c) (c_this c) (c_slots c) (c_extra c) h.

(** every call returns a value; the heap is threaded; the history stops being a history at the first
    call that does not return (error, unknown key) *)
Fixpoint run_hist (e : env) (cs : list call) (h : heap) : option (list val * heap) :=
  match cs with
  | [] => Some ([], h)
  | c :: r => match do_call e c h with
              | Some (Ok (v, h1)) => match run_hist e r h1 with
                                     | Some (vs, h2) => Some (v :: vs, h2)
                                     | None => None
                                     end
              | _ => None
              end
  end.

(** a call that leaves the object at [a] alone, whatever else it does (allocate, update its own receiver) *)
Definition foreign (e : env) (a : nat) (c : call) : Prop :=
  forall h v h1 o, nth_error h a = Some o -> do_call e c h = Some (Ok (v, h1)) -> nth_error h1 a = Some o.

(** [key] is the exec key of method [name] of class [cls] in the catalogue's class table *)
Definition class_method (cls name key : string) : Prop :=
  exists ms, assoc cls class_table = Some ms /\ In (name, key) ms.

(** the payload of a call: the extra arguments joined; every byte a byte, and the whole fits a
    datagram whose headers take [hdr] bytes *)
Definition payload_fits (hdr : N) (extra : list val) : Prop :=
  forall b, join_extra [] extra = Ok b -> wf_bytes b /\ hdr + len b < 65536.

Lemma run_hist_length e : forall cs h vs h', run_hist e cs h = Some (vs, h') -> length vs = length cs.
Proof.
  induction cs as [|c r IH]; intros h vs h' H; cbn [run_hist] in H.
  - injection H as <- _. reflexivity.
  - destruct (do_call e c h) as [[[v h1]| | |]|]; try discriminate H.
    destruct (run_hist e r h1) as [[vs2 h2]|] eqn:E; try discriminate H.
    injection H as <- _. cbn [length]. f_equal. eapply IH, E.
Qed.

Lemma Forall2_mono {A B} (R1 R2 : A -> B -> Prop) l1 l2 :
  (forall a b, R1 a b -> R2 a b) -> Forall2 R1 l1 l2 -> Forall2 R2 l1 l2.
Proof. intros K H. induction H; constructor; auto. Qed.

Lemma Some_inj {A} (a b : A) : Some a = Some b -> a = b.
Proof. congruence. Qed.

Lemma nth_error_set_same {A} (l : list A) n x y : nth_error l n = Some y -> nth_error (set_nth l n x) n = Some x.
Proof. intros H. rewrite nth_error_set_nth, Nat.eqb_refl, H. reflexivity. Qed.

Lemma nth_error_set_other {A} (l : list A) n m x : n <> m -> nth_error (set_nth l n x) m = nth_error l m.
Proof. intros H. rewrite nth_error_set_nth. destruct (Nat.eqb_spec n m); [contradiction|reflexivity]. Qed.

(** [binv H]: H : (do x <- a; ...) = Ok r.  Names every intermediate result.  Goes through a lemma, not
    through [destruct ... eqn] + [cbn in], so that the proof term stays cheap for the kernel. *)
Lemma obind_ok_inv {A B} (x : outcome A) (f : A -> outcome B) r :
  obind x f = Ok r -> exists a, x = Ok a /\ f a = Ok r.
Proof. destruct x as [a| | |]; cbn [obind]; intros H; try discriminate H. exists a. split; [reflexivity|exact H]. Qed.

Ltac binv H :=
  lazymatch type of H with
  | obind ?x _ = Ok _ =>
    let a := fresh "a" in let E := fresh "E" in
    apply obind_ok_inv in H; destruct H as (a & E & H);
    repeat match goal with x : (_ * _)%type |- _ => destruct x end;
    cbv beta iota in H;
    binv E; binv H
  | _ => idtac
  end.

(** one layer only *)
Ltac binv1 H :=
  let a := fresh "a" in let E := fresh "E" in
  apply obind_ok_inv in H; destruct H as (a & E & H);
  repeat match goal with x : (_ * _)%type |- _ => destruct x end;
  cbv beta iota in H.

Lemma obind_ok {A B} (a : A) (f : A -> outcome B) : obind (Ok a) f = f a.
Proof. reflexivity. Qed.

Lemma bad_args_not_ok {A B} (f : A -> outcome B) r : obind bad_args f = Ok r -> False.
Proof. discriminate. Qed.
Lemma bad_args_not_ok' {A} (r : A) : bad_args = Ok r -> False.
Proof. discriminate. Qed.

(** dispatch of a concrete key, in a hypothesis *)
Ltac exec_unfold_in H :=
  lazy [exec assoc functions String.eqb Ascii.eqb Bool.eqb find_method method_tables strip_prefix
        Lib.Ipv4Lib.tcp_method Lib.Ipv4Lib.udp_method Lib.Ipv4Lib.icmp_method Lib.Ipv4Lib.frag_method
        Lib.MiscLib.vxlan_method Lib.MiscLib.gre_method Lib.MiscLib.erspan1_method
        Lib.MiscLib.erspan2_method Lib.MiscLib.bufio_method] in H.

Lemma conv_u32_lt v n : conv_u32 v = Ok n -> n < 4294967296.
Proof.
  unfold conv_u32, omap. intros H. destruct (conv_int v); cbn [obind] in H; try discriminate H.
  apply Ok_inj in H. subst n. unfold wrap32. apply N.mod_lt. discriminate.
Qed.
Lemma conv_u16_lt v n : conv_u16 v = Ok n -> n < 65536.
Proof.
  unfold conv_u16, omap. intros H. destruct (conv_int v); cbn [obind] in H; try discriminate H.
  apply Ok_inj in H. subst n. unfold wrap16. apply N.mod_lt. discriminate.
Qed.
Lemma conv_opt_u32_lt v o : conv_opt conv_u32 v = Ok o -> forall n, o = Some n -> n < 4294967296.
Proof.
  unfold conv_opt. intros H n ->.
  assert (K : omap Some (conv_u32 v) = Ok (Some n) -> n < 4294967296).
  { unfold omap. destruct (conv_u32 v) eqn:E; cbn [obind]; try discriminate. intros E'. apply Ok_inj in E'.
    injection E' as ->. eapply conv_u32_lt, E. }
  destruct v; try (exact (K H)). discriminate H.
Qed.
