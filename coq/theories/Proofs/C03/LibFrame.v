(** C03 at the library level: what surrounds the method theorems.
    (1) The flow objects the library itself creates satisfy the well-formedness premises of the method
        theorems (sockets as written in a script are 32-bit addresses and 16-bit ports).
    (2) Frame: a method of the TcpFlow / UdpFlow / Icmp classes called on another object, and the
        functions that create flows or build single datagrams, leave every existing object alone -- they are
        [foreign] steps of the history theorems. *)
From RS Require Import Base.Bytes Base.Outcome Bind.Types Pkt.Packet Ez.Tcp Ez.Udp Ez.Icmp
  Interp.Val Interp.Eval Lib.LibBase Lib.StdLib Lib.Ipv4Lib Lib.ProtoLib
  Proofs.BytesLemmas Proofs.Tactics Proofs.C02.TcpIp Proofs.C02.OtherIp Proofs.C03.Transport
  Proofs.C08.LibTac Proofs.C15.StdHelpers Proofs.C03.LibCalls Proofs.C03.LibTcp Proofs.C03.LibUdp Proofs.C03.LibIcmp.
From RSGen Require Import Catalogue.
From Coq Require Import Arith Lia.
Open Scope N_scope.

(** a socket value as the lexer produces it *)
Definition sock_val_wf (v : val) : Prop := forall s, conv_sock v = Ok s -> sock_wf s.

Theorem tcp_flow_created_wf e slots extra h v h' :
  sock_val_wf (nth 0 slots VNil) -> sock_val_wf (nth 1 slots VNil) ->
  exec e "ipv4::tcp::flow" None slots extra h = Some (Ok (v, h')) ->
  exists f, v = VObj (length h) /\ h' = (h ++ [OTcp f])%list /\ flow_twf f.
Proof.
  intros H0 H1 H. exec_unfold_in H. apply Some_inj in H. unfold tcp_flow_new in H.
  destruct slots as [|s1 [|s2 [|s3 [|s4 [|s5 [|? ?]]]]]]; try (exfalso; exact (bad_args_not_ok' _ H)).
  cbn [nth] in H0, H1. binv H. unfold alloc in H. ok_inv H.
  eexists. split; [reflexivity|]. split; [reflexivity|].
  match goal with
  | Ea : conv_u32 s3 = Ok _, Eb : conv_u32 s4 = Ok _, Ec : conv_sock s1 = Ok _, Ed : conv_sock s2 = Ok _ |- _ =>
    unfold flow_twf; cbn [tf_cl tf_sv tf_cl_seq tf_sv_seq];
    split; [exact (H0 _ Ec)|]; split; [exact (H1 _ Ed)|]; split; [exact (conv_u32_lt _ _ Ea)|exact (conv_u32_lt _ _ Eb)]
  end.
Qed.

Theorem udp_flow_created_wf e slots extra h v h' :
  sock_val_wf (nth 0 slots VNil) -> sock_val_wf (nth 1 slots VNil) ->
  exec e "ipv4::udp::flow" None slots extra h = Some (Ok (v, h')) ->
  exists f, v = VObj (length h) /\ h' = (h ++ [OUdp f])%list /\ uflow_wf f.
Proof.
  intros H0 H1 H. exec_unfold_in H. apply Some_inj in H. unfold udp_flow_new in H.
  destruct slots as [|s1 [|s2 [|s3 [|? ?]]]]; try (exfalso; exact (bad_args_not_ok' _ H)).
  cbn [nth] in H0, H1. binv H. unfold alloc in H. ok_inv H.
  eexists. split; [reflexivity|]. split; [reflexivity|].
  match goal with
  | Ec : conv_sock s1 = Ok _, Ed : conv_sock s2 = Ok _ |- _ =>
    unfold uflow_wf; cbn [uf_cl uf_sv]; split; [exact (H0 _ Ec)|exact (H1 _ Ed)]
  end.
Qed.

Theorem icmp_flow_created_wf e slots extra h v h' :
  exec e "ipv4::icmp::flow" None slots extra h = Some (Ok (v, h')) ->
  exists f, v = VObj (length h) /\ h' = (h ++ [OIcmp f])%list /\ icmp_fwf f
    /\ if_id f = 4660 /\ if_ping f = 0 /\ if_pong f = 0.
Proof.
  intros H. exec_unfold_in H. apply Some_inj in H. unfold icmp_flow_fn in H.
  destruct slots as [|s1 [|s2 [|s3 [|? ?]]]]; try (exfalso; exact (bad_args_not_ok' _ H)).
  binv H. unfold alloc in H. ok_inv H.
  eexists. split; [reflexivity|]. split; [reflexivity|].
  unfold icmp_fwf, icmp_flow_new. cbn [if_id if_ping if_pong]. repeat split; lia.
Qed.

(* ------------------------------------------------------------------ frame *)
Lemma take_this_inv a h n o : take_this (Some a) h = Ok (n, o) -> n = a.
Proof.
  unfold take_this. destruct (nth_error h a); [|discriminate]. intros H. apply Ok_inj in H.
  apply pair_equal_spec in H. destruct H as [H _]. symmetry. exact H.
Qed.

Definition mcall (key : string) (a : nat) (slots extra : list val) : call :=
  {| c_key := key; c_this := Some a; c_slots := slots; c_extra := extra |}.
Definition fcall (key : string) (slots extra : list val) : call :=
  {| c_key := key; c_this := None; c_slots := slots; c_extra := extra |}.

Ltac frame_start H :=
  let h := fresh "h" in let v := fresh "v" in let h1 := fresh "h1" in let o := fresh "o" in let Ho := fresh "Ho" in
  intros h v h1 o Ho H; unfold do_call in H; cbn [mcall fcall c_key c_this c_slots c_extra] in H;
  exec_unfold_in H; apply Some_inj in H.

Ltac frame_method H Hne :=
  binv1 H;
  match goal with Et : take_this _ _ = Ok (?n, ?ob) |- _ => apply take_this_inv in Et; subst n; destruct ob end;
  try discriminate H.

Theorem family_methods_foreign e cls name key a a' slots extra :
  In cls [tcp_class; udp_class; icmp_class] -> class_method cls name key -> a' <> a ->
  foreign e a (mcall key a' slots extra).
Proof.
  intros Hcls (ms & Hms & Hin) Hne. cbn [In] in Hcls. destruct Hcls as [<-|[<-|[<-|[]]]].
  - vm_compute in Hms. apply Some_inj in Hms. subst ms. cbn [In] in Hin.
    repeat (destruct Hin as [Hin|Hin]; [apply pair_equal_spec in Hin; destruct Hin as [<- <-]|]); [..|contradiction Hin];
      frame_start H; frame_method H Hne; binv1 H; ok_inv H; rewrite nth_error_set_other by exact Hne; assumption.
  - vm_compute in Hms. apply Some_inj in Hms. subst ms. cbn [In] in Hin.
    repeat (destruct Hin as [Hin|Hin]; [apply pair_equal_spec in Hin; destruct Hin as [<- <-]|]); [..|contradiction Hin];
      frame_start H; frame_method H Hne; binv1 H; ok_inv H; assumption.
  - vm_compute in Hms. apply Some_inj in Hms. subst ms. cbn [In] in Hin.
    repeat (destruct Hin as [Hin|Hin]; [apply pair_equal_spec in Hin; destruct Hin as [<- <-]|]); [..|contradiction Hin];
      frame_start H; frame_method H Hne;
      (destruct slots as [|? [|? ?]]; cbv beta iota in H; try (exfalso; exact (bad_args_not_ok' _ H)));
      binv H; ok_inv H; rewrite nth_error_set_other by exact Hne; assumption.
Qed.

(** the functions of the three families: flows are allocated at the end of the heap, datagram builders
    do not touch it *)
Theorem family_functions_foreign e key a slots extra :
  In key ["ipv4::tcp::flow"; "ipv4::udp::flow"; "ipv4::icmp::flow"; "ipv4::udp::unicast"; "ipv4::udp::broadcast";
          "dns::host"]%string ->
  foreign e a (fcall key slots extra).
Proof.
  intros Hk. cbn [In] in Hk.
  assert (Happ : forall (h : heap) x o, nth_error h a = Some o -> nth_error (h ++ [x]) a = Some o).
  { intros h x o Ho. rewrite nth_error_app1; [exact Ho|]. apply nth_error_Some. congruence. }
  destruct Hk as [<-|[<-|[<-|[<-|[<-|[<-|[]]]]]]]; frame_start H.
  - unfold tcp_flow_new in H.
    destruct slots as [|? [|? [|? [|? [|? [|? ?]]]]]]; try (exfalso; exact (bad_args_not_ok' _ H)).
    binv H. unfold alloc in H. ok_inv H. apply Happ. assumption.
  - unfold udp_flow_new in H.
    destruct slots as [|? [|? [|? [|? ?]]]]; try (exfalso; exact (bad_args_not_ok' _ H)).
    binv H. unfold alloc in H. ok_inv H. apply Happ. assumption.
  - unfold icmp_flow_fn in H.
    destruct slots as [|? [|? [|? [|? ?]]]]; try (exfalso; exact (bad_args_not_ok' _ H)).
    binv H. unfold alloc in H. ok_inv H. apply Happ. assumption.
  - unfold udp_unicast_fn in H.
    destruct slots as [|? [|? [|? [|? ?]]]]; try (exfalso; exact (bad_args_not_ok' _ H)).
    binv H. ok_inv H. assumption.
  - unfold udp_broadcast_fn in H.
    destruct slots as [|? [|? [|? [|? [|? ?]]]]]; try (exfalso; exact (bad_args_not_ok' _ H)).
    binv H. ok_inv H. assumption.
  - unfold dns_host_fn in H.
    destruct slots as [|? [|? [|? [|? [|? [|? ?]]]]]]; try (exfalso; exact (bad_args_not_ok' _ H)).
    binv H. ok_inv H. assumption.
Qed.

(* ------------------------------------------------------------------ a concrete history *)
(** one TCP flow (open, a data message with a seq override, a reset), one UDP flow datagram, three ICMP
    echo calls -- all on one heap, built by the library's own constructors *)
Definition ex_env : env := {| env_files := [] |}.
Definition ex_calls : list call := [
  fcall "ipv4::tcp::flow" [VSock4 16909060 1025; VSock4 16909061 80; VU32 4294967295; VU32 7; VBool false] [];
  mcall "ipv4::tcp::TcpFlow.open" 0 [] [];
  mcall "ipv4::tcp::TcpFlow.client_message" 0 [VBool true; VU32 1000; VNil; VU16 0] [VStr [255; 255; 255]];
  mcall "ipv4::tcp::TcpFlow.server_reset" 0 [] [];
  fcall "ipv4::udp::flow" [VSock4 16909060 53; VSock4 16909061 5353; VBool false] [];
  mcall "ipv4::udp::UdpFlow.client_dgram" 1 [VU16 0; VBool true] [VStr [1; 2; 3]];
  fcall "ipv4::icmp::flow" [VIp4 16909060; VIp4 16909061; VBool false] [];
  mcall "ipv4::icmp::Icmp.echo" 2 [VStr [1]] [];
  mcall "ipv4::icmp::Icmp.echo" 2 [VStr []] [];
  mcall "ipv4::icmp::Icmp.echo_reply" 2 [VStr [2; 3]] [] ]%string.

(** transport bytes of a framed packet; all packets of a value *)
Definition ex_l4 (p : packet) : bytes := skipn 34 (pk_body p).
Definition ex_pkts (v : val) : list packet := match conv_pktgen v with Ok ps => ps | _ => [] end.

Lemma payload_fits_strs hdr parts :
  wf_bytes (concat parts) -> hdr + len (concat parts) < 65536 -> payload_fits hdr (map VStr parts).
Proof.
  intros Hw Hl b E. rewrite join_extra_strs in E. apply Ok_inj in E. subst b. split; assumption.
Qed.

Lemma payload_fits_nil hdr : hdr < 65536 -> payload_fits hdr [].
Proof. intros H. apply (payload_fits_strs hdr []); [constructor|cbn; lia]. Qed.

Lemma class_method_intro cls ms name key :
  assoc cls class_table = Some ms -> In (name, key) ms -> class_method cls name key.
Proof. intros H1 H2. exists ms. split; assumption. Qed.

(** the TCP calls of the example are calls on object 0, everything after the flow's creation that is not
    is foreign to it: the premises of the history theorem hold *)
Lemma ex_tcp_premises : Forall (fun c => tcp_call_on 0 c \/ foreign ex_env 0 c) (tl ex_calls).
Proof.
  unfold ex_calls. cbn [tl].
  assert (M : forall name, In (name, ("ipv4::tcp::TcpFlow." ++ name)%string)
       [("open", "ipv4::tcp::TcpFlow.open"); ("client_message", "ipv4::tcp::TcpFlow.client_message");
        ("server_reset", "ipv4::tcp::TcpFlow.server_reset")]%string ->
       class_method tcp_class name ("ipv4::tcp::TcpFlow." ++ name)%string).
  { intros name Hin. eapply class_method_intro; [vm_compute; reflexivity|].
    cbn [In] in Hin |- *. destruct Hin as [Hin|[Hin|[Hin|[]]]]; apply pair_equal_spec in Hin; destruct Hin as [<- _]; cbn; tauto. }
  repeat apply Forall_cons; try apply Forall_nil.
  - left. split; [reflexivity|]. split; [exists "open"%string; apply (M "open"%string); cbn; tauto|apply payload_fits_nil; lia].
  - left. split; [reflexivity|]. split; [exists "client_message"%string; apply (M "client_message"%string); cbn; tauto|].
    apply (payload_fits_strs 20 [[255; 255; 255]]); [repeat constructor; lia|cbn; lia].
  - left. split; [reflexivity|]. split; [exists "server_reset"%string; apply (M "server_reset"%string); cbn; tauto|apply payload_fits_nil; lia].
  - right. apply family_functions_foreign. cbn; tauto.
  - right. eapply family_methods_foreign with (cls := udp_class); [cbn; tauto| |lia].
    eapply class_method_intro; [vm_compute; reflexivity|cbn; tauto].
  - right. apply family_functions_foreign. cbn; tauto.
  - right. eapply family_methods_foreign with (cls := icmp_class); [cbn; tauto| |lia].
    eapply class_method_intro; [vm_compute; reflexivity|cbn; left; reflexivity].
  - right. eapply family_methods_foreign with (cls := icmp_class); [cbn; tauto| |lia].
    eapply class_method_intro; [vm_compute; reflexivity|cbn; left; reflexivity].
  - right. eapply family_methods_foreign with (cls := icmp_class); [cbn; tauto| |lia].
    eapply class_method_intro; [vm_compute; reflexivity|cbn; right; left; reflexivity].
Qed.

(** the last three calls are an echo history on object 2 *)
Lemma ex_icmp_premises : Forall (icmp_step_ok ex_env 2) (skipn 7 ex_calls).
Proof.
  unfold ex_calls. cbn [skipn].
  assert (F : forall b, wf_bytes b -> 8 + len b < 65536 -> icmp_payload_fits [VStr b]).
  { intros b Hw Hl pv b' E1 E2. injection E1 as <-. cbn in E2. apply Ok_inj in E2. subst b'. split; assumption. }
  repeat apply Forall_cons; try apply Forall_nil.
  - left. exists true. split; [reflexivity|]. apply F; [repeat constructor; lia|cbn; lia].
  - left. exists true. split; [reflexivity|]. apply F; [repeat constructor; lia|cbn; lia].
  - left. exists false. split; [reflexivity|]. apply F; [repeat constructor; lia|cbn; lia].
Qed.
