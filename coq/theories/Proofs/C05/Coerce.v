(** C05: values used as bytes (impl From<Val> for Buf), Args::join_extra and the text/std helpers. *)
From Coq Require Import ZArith Lia ZifyBool ZifyNat ZifyN.
Ltac Zify.zify_post_hook ::= Z.div_mod_to_equations.
From RS Require Import Base.Bytes Base.Outcome Pkt.Packet Interp.Val Lib.LibBase Lib.MiscLib Spec.Literal
  Proofs.BytesLemmas Proofs.Tactics.
Open Scope N_scope.

(* ------------------------------------------------------------------ big-endian values *)

Lemma be_value_snoc l b : be_value (l ++ [b]) = be_value l * 256 + b.
Proof. unfold be_value. rewrite fold_left_app. reflexivity. Qed.

Lemma be_value_acc l : forall acc, fold_left (fun a b => a * 256 + b) l acc = acc * 256 ^ len l + be_value l.
Proof.
  unfold be_value. induction l as [|x r IH]; intros acc.
  - cbn [fold_left]. rewrite len_nil. change (256 ^ 0) with 1. lia.
  - cbn [fold_left]. rewrite IH, (IH (0 * 256 + x)), len_cons.
    replace (1 + len r) with (N.succ (len r)) by lia. rewrite N.pow_succ_r'. lia.
Qed.

Lemma be_value_cons x r : be_value (x :: r) = x * 256 ^ len r + be_value r.
Proof. unfold be_value at 1. cbn [fold_left]. rewrite be_value_acc. lia. Qed.

Lemma be_value_bound l : wf_bytes l -> be_value l < 256 ^ len l.
Proof.
  induction l as [|x r IH]; intros W.
  - vm_compute. reflexivity.
  - inversion W as [|? ? Hx Hr]; subst. rewrite be_value_cons, len_cons.
    replace (1 + len r) with (N.succ (len r)) by lia. rewrite N.pow_succ_r'.
    specialize (IH Hr). nia.
Qed.

(** a big-endian byte string of a given length is determined by its value *)
Theorem be_value_inj a : forall b, length a = length b -> wf_bytes a -> wf_bytes b -> be_value a = be_value b -> a = b.
Proof.
  induction a as [|x r IH]; intros b L Wa Wb E; destruct b as [|y s]; try discriminate; [reflexivity|].
  injection L as L. inversion Wa as [|? ? Hx Hr]; inversion Wb as [|? ? Hy Hs]; subst.
  rewrite !be_value_cons in E.
  assert (Ln : len r = len s) by (unfold len; rewrite L; reflexivity).
  rewrite Ln in E.
  pose proof (be_value_bound r Hr) as Br. pose proof (be_value_bound s Hs) as Bs. rewrite Ln in Br.
  assert (x = y /\ be_value r = be_value s) as (-> & E2).
  { apply (N.div_mod_unique (256 ^ len s)); [exact Br|exact Bs|]. lia. }
  f_equal. apply IH; assumption.
Qed.

Lemma be_value_be16 n : n < 65536 -> be_value (be16 n) = n.
Proof. intros H. unfold be16, be_value. cbn [fold_left]. lia. Qed.
Lemma be_value_app a b : be_value (a ++ b) = be_value a * 256 ^ len b + be_value b.
Proof. unfold be_value at 1. rewrite fold_left_app. fold (be_value a). apply be_value_acc. Qed.
Lemma be_value_be32 n : n < 4294967296 -> be_value (be32 n) = n.
Proof.
  intros H. unfold be32. rewrite be_value_app, !be_value_be16 by lia.
  change (256 ^ len (be16 (n mod 65536))) with 65536. lia.
Qed.
Lemma be_value_be64 n : n < 18446744073709551616 -> be_value (be64 n) = n.
Proof.
  intros H. unfold be64. rewrite be_value_app, !be_value_be32 by lia.
  change (256 ^ len (be32 (n mod 4294967296))) with 4294967296. lia.
Qed.

Lemma be64_wf x : wf_bytes (be64 x).
Proof. unfold be64. apply wf_app; apply be32_wf. Qed.

(* ------------------------------------------------------------------ coercion to bytes *)

(** an integer or address used as bytes contributes its big-endian encoding: exactly [k] bytes, each
    below 256, whose big-endian value is the number (by [be_value_inj] there is only one such string) *)
Definition is_be_encoding (k : nat) (n : N) (b : bytes) : Prop :=
  length b = k /\ wf_bytes b /\ be_value b = n.

Theorem coerce_be_u8 n : n < 256 -> exists b, conv_buf (VU8 n) = Ok b /\ is_be_encoding 1 n b.
Proof.
  intros H. exists [n]. split; [reflexivity|]. split; [reflexivity|]. split.
  - constructor; [exact H|constructor].
  - unfold be_value. cbn [fold_left]. lia.
Qed.
Theorem coerce_be_u16 n : n < 65536 -> exists b, conv_buf (VU16 n) = Ok b /\ is_be_encoding 2 n b.
Proof. intros H. exists (be16 n). repeat split; [apply be16_wf|apply be_value_be16, H]. Qed.
Theorem coerce_be_u32 n : n < 4294967296 -> exists b, conv_buf (VU32 n) = Ok b /\ is_be_encoding 4 n b.
Proof. intros H. exists (be32 n). repeat split; [apply be32_wf|apply be_value_be32, H]. Qed.
Theorem coerce_be_u64 n : n < 18446744073709551616 -> exists b, conv_buf (VU64 n) = Ok b /\ is_be_encoding 8 n b.
Proof. intros H. exists (be64 n). repeat split; [apply be64_wf|apply be_value_be64, H]. Qed.
Theorem coerce_be_ip4 a : a < 4294967296 -> exists b, conv_buf (VIp4 a) = Ok b /\ is_be_encoding 4 a b.
Proof. intros H. exists (be32 a). repeat split; [apply be32_wf|apply be_value_be32, H]. Qed.
(** a packet used as bytes contributes its frame, a string itself *)
Theorem coerce_pkt p : conv_buf (VPkt p) = Ok (pkt_frame p).
Proof. reflexivity. Qed.
Theorem coerce_str s : conv_buf (VStr s) = Ok s.
Proof. reflexivity. Qed.

(** all the coercions in one statement *)
Definition bytes_of_val (v : val) (b : bytes) : Prop :=
  match v with
  | VStr s => b = s
  | VPkt p => b = pkt_frame p
  | VU8 n => is_be_encoding 1 n b
  | VU16 n => is_be_encoding 2 n b
  | VU32 n => is_be_encoding 4 n b
  | VU64 n => is_be_encoding 8 n b
  | VIp4 a => is_be_encoding 4 a b
  | _ => False
  end.
Definition val_in_range (v : val) : Prop :=
  match v with
  | VU8 n => n < 256 | VU16 n => n < 65536 | VU32 n => n < 4294967296 | VU64 n => n < 18446744073709551616
  | VIp4 a => a < 4294967296
  | _ => True
  end.

Theorem coerce_be v b : val_in_range v -> conv_buf v = Ok b -> bytes_of_val v b.
Proof.
  destruct v; cbn [val_in_range conv_buf bytes_of_val]; intros R E; try discriminate; apply Ok_inj in E; subst b;
    try reflexivity.
  - destruct (coerce_be_u8 n R) as (b & E & I). apply Ok_inj in E. subst b. exact I.
  - destruct (coerce_be_u16 n R) as (b & E & I). apply Ok_inj in E. subst b. exact I.
  - destruct (coerce_be_u32 n R) as (b & E & I). apply Ok_inj in E. subst b. exact I.
  - destruct (coerce_be_u64 n R) as (b & E & I). apply Ok_inj in E. subst b. exact I.
  - destruct (coerce_be_ip4 a R) as (b & E & I). apply Ok_inj in E. subst b. exact I.
Qed.

(* ------------------------------------------------------------------ joining *)

Lemma join_nil_concat l : join [] l = concat l.
Proof.
  induction l as [|x r IH]; [reflexivity|]. destruct r as [|y s].
  - cbn [join concat]. rewrite app_nil_r. reflexivity.
  - change (join [] (x :: y :: s)) with (x ++ [] ++ join [] (y :: s)). rewrite IH. reflexivity.
Qed.

(** the separator stands between parts only: with one more separator at the end the result is
    every part followed by the separator *)
Lemma join_between sep l : l <> [] -> join sep l ++ sep = concat (map (fun b => b ++ sep) l).
Proof.
  induction l as [|x r IH]; intros H; [congruence|]. destruct r as [|y s].
  - cbn [join map concat]. rewrite app_nil_r. reflexivity.
  - change (join sep (x :: y :: s)) with (x ++ sep ++ join sep (y :: s)).
    change (concat (map (fun b => b ++ sep) (x :: y :: s))) with ((x ++ sep) ++ concat (map (fun b => b ++ sep) (y :: s))).
    rewrite <- IH by discriminate. rewrite <- !app_assoc. reflexivity.
Qed.

Lemma join_cons2 sep x y r : join sep (x :: y :: r) = x ++ sep ++ join sep (y :: r).
Proof. reflexivity. Qed.
Lemma join_one sep x : join sep [x] = x.
Proof. reflexivity. Qed.

(** omapM as a relation *)
Lemma omapM_ok {A B} (f : A -> outcome B) l : forall r, omapM f l = Ok r <-> Forall2 (fun a b => f a = Ok b) l r.
Proof.
  induction l as [|x l IH]; intros r.
  - cbn [omapM]. split; [intros E; apply Ok_inj in E; subst; constructor|intros F; inversion F; reflexivity].
  - cbn [omapM]. split.
    + destruct (f x) as [y| | |] eqn:E1; cbn [obind]; try discriminate.
      destruct (omapM f l) as [ys| | |] eqn:E2; cbn [obind]; try discriminate.
      intros E. apply Ok_inj in E. subst r. constructor; [exact E1|]. apply IH. reflexivity.
    + intros F. inversion F as [|? y ? ys E1 F']; subst. rewrite E1. cbn [obind].
      apply IH in F'. rewrite F'. reflexivity.
Qed.

(** join_extra: every argument converted to bytes, joined in the order the caller wrote them *)
Theorem join_extra_in_order sep vs bs :
  Forall2 (fun v b => conv_buf v = Ok b) vs bs -> join_extra sep vs = Ok (join sep bs).
Proof. intros F. unfold join_extra. apply omapM_ok in F. rewrite F. reflexivity. Qed.

Theorem join_extra_concat vs bs :
  Forall2 (fun v b => conv_buf v = Ok b) vs bs -> join_extra [] vs = Ok (concat bs).
Proof. intros F. rewrite (join_extra_in_order _ _ _ F), join_nil_concat. reflexivity. Qed.

Theorem join_extra_only vs sep b : join_extra sep vs = Ok b ->
  exists bs, Forall2 (fun v b => conv_buf v = Ok b) vs bs /\ b = join sep bs.
Proof.
  unfold join_extra. destruct (omapM conv_buf vs) as [bs| | |] eqn:E; cbn [obind]; try discriminate.
  intros E'. apply Ok_inj in E'. subst b. exists bs. split; [apply omapM_ok, E|reflexivity].
Qed.

(** text::concat, text::crlflines, text::len *)
Theorem text_concat_in_order vs bs h :
  Forall2 (fun v b => conv_buf v = Ok b) vs bs -> text_join_fn [] [] vs h = Ok (VStr (concat bs), h).
Proof. intros F. unfold text_join_fn. rewrite (join_extra_concat _ _ F). reflexivity. Qed.

Theorem text_crlflines_in_order vs bs h :
  Forall2 (fun v b => conv_buf v = Ok b) vs bs ->
  text_join_fn [13; 10] [] vs h = Ok (VStr (join [13; 10] bs), h).
Proof. intros F. unfold text_join_fn. rewrite (join_extra_in_order _ _ _ F). reflexivity. Qed.

Theorem text_len_counts vs bs h :
  Forall2 (fun v b => conv_buf v = Ok b) vs bs -> len (concat bs) < 18446744073709551616 ->
  text_len_fn [] vs h = Ok (VU64 (len (concat bs)), h).
Proof.
  intros F L. unfold text_len_fn. rewrite (join_extra_concat _ _ F). cbn [obind]. unfold wrap64.
  rewrite N.mod_small by exact L. reflexivity.
Qed.

(** std::be16/be32/be64 *)
Theorem std_be64_exact n h : n < 18446744073709551616 ->
  exists b, std_int_fn conv_u64 be64 [VU64 n] [] h = Ok (VStr b, h) /\ is_be_encoding 8 n b.
Proof. intros H. exists (be64 n). split; [reflexivity|]. repeat split; [apply be64_wf|apply be_value_be64, H]. Qed.
Theorem std_be32_exact n h : n < 4294967296 ->
  exists b, std_int_fn conv_u32 be32 [VU64 n] [] h = Ok (VStr b, h) /\ is_be_encoding 4 n b.
Proof.
  intros H. exists (be32 n). split.
  - unfold std_int_fn, conv_u32, conv_int, omap, wrap32. cbn [obind]. rewrite N.mod_small by exact H. reflexivity.
  - repeat split; [apply be32_wf|apply be_value_be32, H].
Qed.
Theorem std_be16_exact n h : n < 65536 ->
  exists b, std_int_fn conv_u16 be16 [VU64 n] [] h = Ok (VStr b, h) /\ is_be_encoding 2 n b.
Proof.
  intros H. exists (be16 n). split.
  - unfold std_int_fn, conv_u16, conv_int, omap, wrap16. cbn [obind]. rewrite N.mod_small by exact H. reflexivity.
  - repeat split; [apply be16_wf|apply be_value_be16, H].
Qed.
