(** C05: buffered reads (src/stdlib/io.rs BufIo::read / read_all, Lib/MiscLib.v [bufio_method]) hand out
    consecutive, non-overlapping slices that together equal the original buffer. *)
From Coq Require Import ZArith Lia ZifyBool ZifyNat ZifyN.
Ltac Zify.zify_post_hook ::= Z.div_mod_to_equations.
From RS Require Import Base.Bytes Base.Outcome Interp.Val Lib.LibBase Lib.MiscLib Spec.Literal
  Proofs.BytesLemmas Proofs.Tactics Proofs.C05.Coerce.
Open Scope N_scope.

(* ------------------------------------------------------------------ list slices *)

Lemma len_takeN {A} n (l : list A) : len (takeN n l) = N.min n (len l).
Proof. unfold len, takeN. rewrite firstn_length. lia. Qed.
Lemma len_dropN {A} n (l : list A) : len (dropN n l) = len l - n.
Proof. unfold len, dropN. rewrite skipn_length. lia. Qed.
Lemma dropN_dropN {A} a b (l : list A) : dropN a (dropN b l) = dropN (b + a) l.
Proof.
  unfold dropN. replace (N.to_nat (b + a)) with (N.to_nat b + N.to_nat a)%nat by lia.
  revert l. induction (N.to_nat b) as [|k IH]; intros l; [reflexivity|].
  destruct l; [rewrite !skipn_nil; reflexivity|]. cbn [skipn Nat.add]. apply IH.
Qed.
Lemma takeN_add {A} a b (l : list A) : takeN (a + b) l = takeN a l ++ takeN b (dropN a l).
Proof.
  unfold takeN, dropN. replace (N.to_nat (a + b)) with (N.to_nat a + N.to_nat b)%nat by lia.
  revert l. induction (N.to_nat a) as [|k IH]; intros l; [reflexivity|].
  destruct l; [rewrite !firstn_nil; reflexivity|]. cbn [firstn skipn Nat.add app]. f_equal. apply IH.
Qed.
Lemma takeN_all {A} n (l : list A) : len l <= n -> takeN n l = l.
Proof. intros H. unfold takeN. apply firstn_all2. unfold len in H. lia. Qed.
Lemma take_drop {A} n (l : list A) : takeN n l ++ dropN n l = l.
Proof. apply firstn_skipn. Qed.

(* ------------------------------------------------------------------ consequences of the specification *)

Lemma slices_of_consecutive buf ops : forall pos, consecutive_slices buf pos ops (slices_of buf pos ops).
Proof. induction ops as [|op r IH]; intros pos; [exact I|]. cbn [slices_of consecutive_slices]. split; [reflexivity|apply IH]. Qed.

Lemma consecutive_unique buf ops : forall pos rs, consecutive_slices buf pos ops rs -> rs = slices_of buf pos ops.
Proof.
  induction ops as [|op r IH]; intros pos rs H; destruct rs as [|x rs]; cbn [consecutive_slices] in H; try contradiction;
    [reflexivity|].
  destruct H as (-> & H). cbn [slices_of]. f_equal. apply IH, H.
Qed.

(** the results concatenate, in order, to the part of the buffer between the first read's start and
    the last read's end: nothing skipped, nothing handed out twice *)
Theorem consecutive_concat buf ops : forall pos rs, pos <= len buf -> consecutive_slices buf pos ops rs ->
  pos + len (concat rs) <= len buf /\ concat rs = takeN (len (concat rs)) (dropN pos buf).
Proof.
  induction ops as [|op r IH]; intros pos rs Hp H; destruct rs as [|x rs]; cbn [consecutive_slices] in H; try contradiction.
  - cbn [concat]. rewrite len_nil. split; [lia|reflexivity].
  - destruct H as (Hx & H).
    set (n := match op with BRead n => N.min n (len buf - pos) | BReadAll => len buf - pos end) in *.
    assert (Hn : n <= len buf - pos) by (subst n; destruct op; lia).
    assert (Lx : len x = n) by (rewrite Hx, len_takeN, len_dropN; lia).
    destruct (IH (pos + n) rs ltac:(lia) H) as (B & C).
    cbn [concat]. rewrite len_app, Lx. split; [lia|].
    rewrite takeN_add, dropN_dropN, <- C, <- Hx. reflexivity.
Qed.

(** together with what precedes and what is left they are the buffer *)
Corollary consecutive_partition buf ops pos rs : pos <= len buf -> consecutive_slices buf pos ops rs ->
  takeN pos buf ++ concat rs ++ dropN (pos + len (concat rs)) buf = buf.
Proof.
  intros Hp H. destruct (consecutive_concat buf ops pos rs Hp H) as (B & C).
  rewrite C at 1. rewrite <- dropN_dropN, take_drop, take_drop. reflexivity.
Qed.

(** after a read_all everything has been handed out *)
Theorem consecutive_read_all buf ops : forall pos rs, pos <= len buf -> consecutive_slices buf pos ops rs ->
  In BReadAll ops -> concat rs = dropN pos buf.
Proof.
  induction ops as [|op r IH]; intros pos rs Hp H Hin; [contradiction|].
  destruct rs as [|x rs]; cbn [consecutive_slices] in H; [contradiction|]. destruct H as (Hx & H).
  set (n := match op with BRead n => N.min n (len buf - pos) | BReadAll => len buf - pos end) in *.
  assert (Hn : n <= len buf - pos) by (subst n; destruct op; lia).
  cbn [concat]. destruct Hin as [->|Hin].
  - subst n. destruct (consecutive_concat buf r (pos + (len buf - pos)) rs ltac:(lia) H) as (B & C).
    assert (Z : len (concat rs) = 0) by lia.
    assert (concat rs = []) as -> by (destruct (concat rs); [reflexivity|rewrite len_cons in Z; lia]).
    rewrite app_nil_r, Hx. apply takeN_all. rewrite len_dropN. lia.
  - rewrite (IH (pos + n) rs ltac:(lia) H Hin), Hx.
    rewrite <- dropN_dropN. apply take_drop.
Qed.

(* ------------------------------------------------------------------ the model against the specification *)

Lemma nth_error_set_nth_same {A} (l : list A) : forall n x y, nth_error l n = Some y -> nth_error (set_nth l n x) n = Some x.
Proof.
  induction l as [|a l IH]; intros n x y H; destruct n; cbn in *; try discriminate; [reflexivity|]. eapply IH, H.
Qed.
Lemma nth_error_set_nth_other {A} (l : list A) : forall n m x, n <> m -> nth_error (set_nth l n x) m = nth_error l m.
Proof.
  induction l as [|a l IH]; intros n m x H; destruct n, m; cbn; try reflexivity; try congruence. apply IH. congruence.
Qed.

(** one method call on the object at [addr] *)
Definition bufio_call (addr : nat) (op : bufop) (h : heap) : option libres :=
  match op with
  | BRead n => bufio_method "read" (Some addr) [VU64 n] [] h
  | BReadAll => bufio_method "read_all" (Some addr) [] [] h
  end.

(** a history of calls; the values they return, in order, and the final heap *)
Fixpoint run_reads (addr : nat) (ops : list bufop) (h : heap) : option (outcome (list val * heap)) :=
  match ops with
  | [] => Some (Ok ([], h))
  | op :: r =>
    match bufio_call addr op h with
    | Some (Ok (v, h1)) =>
      match run_reads addr r h1 with
      | Some (Ok (vs, h2)) => Some (Ok (v :: vs, h2))
      | other => other
      end
    | Some (Err e) => Some (Err e)
    | Some (Panic s) => Some (Panic s)
    | Some OutOfFuel => Some OutOfFuel
    | None => None
    end
  end.

Lemma bufio_call_step addr op h buf pos :
  nth_error h addr = Some (OBufIo buf pos) -> pos <= len buf ->
  let remaining := len buf - pos in
  let n := match op with BRead n => N.min n remaining | BReadAll => remaining end in
  bufio_call addr op h = Some (Ok (VStr (takeN n (dropN pos buf)), set_nth h addr (OBufIo buf (pos + n)))).
Proof.
  intros Hh Hp. destruct op as [n|]; cbn [bufio_call]; unfold bufio_method.
  - cbn [String.eqb Ascii.eqb Bool.eqb]. unfold conv_u64, conv_int, take_this. cbn [obind]. rewrite Hh. cbn [obind].
    rewrite (N.min_comm n). reflexivity.
  - cbn [String.eqb Ascii.eqb Bool.eqb]. unfold take_this. rewrite Hh. cbn [obind]. reflexivity.
Qed.

(** for every history of read(n)/read_all on a buffer object: every call succeeds, the results are
    strings, and they are the consecutive slices the specification prescribes; the cursor ends where
    the last slice ends and no other object is touched *)
Theorem bufio_partition ops : forall addr h buf pos,
  nth_error h addr = Some (OBufIo buf pos) -> pos <= len buf ->
  exists rs h',
    run_reads addr ops h = Some (Ok (map VStr rs, h'))
    /\ consecutive_slices buf pos ops rs
    /\ nth_error h' addr = Some (OBufIo buf (pos + len (concat rs)))
    /\ (forall a, a <> addr -> nth_error h' a = nth_error h a).
Proof.
  induction ops as [|op r IH]; intros addr h buf pos Hh Hp.
  - exists [], h. cbn [run_reads map consecutive_slices concat]. rewrite len_nil, N.add_0_r. repeat split; assumption.
  - pose proof (bufio_call_step addr op h buf pos Hh Hp) as S. cbn zeta in S.
    set (n := match op with BRead n => N.min n (len buf - pos) | BReadAll => len buf - pos end) in *.
    assert (Hn : n <= len buf - pos) by (subst n; destruct op; lia).
    destruct (IH addr (set_nth h addr (OBufIo buf (pos + n))) buf (pos + n)
                (nth_error_set_nth_same _ _ _ _ Hh) ltac:(lia)) as (rs & h' & R & C & F & O).
    exists (takeN n (dropN pos buf) :: rs), h'.
    cbn [run_reads]. rewrite S, R. cbn [map consecutive_slices concat]. fold n.
    split; [reflexivity|]. split; [split; [reflexivity|exact C]|]. split.
    + rewrite F. f_equal. f_equal. rewrite len_app, len_takeN, len_dropN. lia.
    + intros a Ha. rewrite (O a Ha). apply nth_error_set_nth_other. congruence.
Qed.

(** io::bufio: the object starts at the beginning of the concatenation of its arguments *)
Theorem bufio_new vs bs h :
  Forall2 (fun v b => conv_buf v = Ok b) vs bs ->
  io_bufio_fn [] vs h = Ok (VObj (length h), h ++ [OBufIo (concat bs) 0]).
Proof. intros F. unfold io_bufio_fn. rewrite (join_extra_concat _ _ F). reflexivity. Qed.

(** from creation: the reads partition the buffer, and a history containing read_all returns all of it *)
Corollary bufio_from_start ops vs bs h :
  Forall2 (fun v b => conv_buf v = Ok b) vs bs ->
  exists rs h', run_reads (length h) ops (h ++ [OBufIo (concat bs) 0]) = Some (Ok (map VStr rs, h'))
    /\ consecutive_slices (concat bs) 0 ops rs
    /\ concat rs = takeN (len (concat rs)) (concat bs)
    /\ (In BReadAll ops -> concat rs = concat bs).
Proof.
  intros F.
  assert (Hh : nth_error (h ++ [OBufIo (concat bs) 0]) (length h) = Some (OBufIo (concat bs) 0)).
  { rewrite nth_error_app2 by lia. rewrite Nat.sub_diag. reflexivity. }
  destruct (bufio_partition ops _ _ _ _ Hh (N.le_0_l _)) as (rs & h' & R & C & _ & _).
  exists rs, h'. split; [exact R|]. split; [exact C|].
  destruct (consecutive_concat _ _ _ _ (N.le_0_l _) C) as (_ & P). split; [exact P|].
  intros Hin. apply (consecutive_read_all _ _ _ _ (N.le_0_l _) C Hin).
Qed.
