(** C05 at the level the interpreter executes, part 4: the tunnel sessions.  A packet used as payload contributes
    its frame: every outer packet of Vxlan.encap/dgram, Gre.encap, Erspan1.encap, Erspan2.encap shows, behind the
    outer Ethernet/IPv4 header and the tunnel headers ([tunnel_inner], LibPay.v), exactly the frame of the
    corresponding inner packet, one outer packet per inner packet, in order.  The only premise: a GRE session's
    flags are the library's (default, with or without S) -- [gre::session] creates no others. *)
From RS Require Import Base.Bytes Base.Outcome Bind.Types Pkt.Csum Pkt.Hdrs Pkt.Packet Ez.Tcp Ez.Udp Ez.Gre
  Interp.Val Interp.Eval Lib.LibBase Lib.StdLib Lib.MiscLib Spec.Wire Spec.Tunnel Spec.TunnelPeel
  Proofs.BytesLemmas Proofs.Tactics Proofs.C18.Framing Proofs.C08.LibPost Proofs.C03.LibCalls
  Proofs.C06.Tunnels Proofs.C06.Nesting
  Proofs.C05.LibPay Proofs.C05.LibPayTcp.
From RSGen Require Import Catalogue.
From Coq Require Import Arith ZArith Lia ZifyBool ZifyNat ZifyN.
Ltac Zify.zify_post_hook ::= Z.div_mod_to_equations.
Open Scope N_scope.
Open Scope list_scope.

(* ------------------------------------------------------------------ the decoders on serialised tunnel headers *)
Lemma vxlan_decode_inner vni inner : option_map snd (vxlan_decode (vxlan_ser vni ++ inner)) = Some inner.
Proof.
  unfold vxlan_ser, be32, be16. cbn [app vxlan_decode]. change (N.land 8 8 =? 0) with false. reflexivity.
Qed.
Lemma gre_decode_plain_payload proto rest : option_map g_payload (gre_decode (gre_ser 0 proto ++ rest)) = Some rest.
Proof.
  unfold gre_ser, be16. cbn [app gre_decode].
  change (0 / 256 mod 256 * 256 + 0 mod 256) with 0.
  change (N.land 0 57344 =? 0) with true. change (N.land 0 4096 =? 0) with true. reflexivity.
Qed.
Lemma gre_decode_seq_payload proto n rest :
  option_map g_payload (gre_decode (gre_ser 4096 proto ++ be32 n ++ rest)) = Some rest.
Proof.
  unfold gre_ser, be32, be16. cbn [app gre_decode].
  change (4096 / 256 mod 256 * 256 + 4096 mod 256) with 4096.
  change (N.land 4096 57344 =? 0) with true. change (N.land 4096 4096 =? 0) with false. reflexivity.
Qed.
Lemma gre_decode_seq_some proto n rest : exists g,
  gre_decode (gre_ser 4096 proto ++ be32 n ++ rest) = Some g /\ g_payload g = rest.
Proof.
  unfold gre_ser, be32, be16. cbn [app gre_decode].
  change (4096 / 256 mod 256 * 256 + 4096 mod 256) with 4096.
  change (N.land 4096 57344 =? 0) with true. change (N.land 4096 4096 =? 0) with false.
  eexists. split; reflexivity.
Qed.
Lemma erspan2_decode_inner sess ix b : option_map snd (erspan2_decode (erspan2_ser sess ix ++ b)) = Some b.
Proof. unfold erspan2_ser, be32, be16. cbn [app erspan2_decode]. reflexivity. Qed.

(** the outer part: a frame the builders made, as the walker sees it *)
Lemma tunnel_outer (raw : bool) a b iph x :
  l3_at raw (framed raw (eth_for a b) (ip_ser iph ++ x)) = (ip_ser iph ++ x)%list.
Proof. apply l3_at_framed, length_eth_for. Qed.

(* ------------------------------------------------------------------ one packet *)
Lemma vxlan_carries f inner q : vxlan_encap f inner = Ok q ->
  carries (PTunnel KVxlan (vx_raw f), inner) (pk_body q).
Proof.
  intros H. destruct (vxlan_encap_shape f inner) as (iph & uh & E & P & _). rewrite E in H. apply Ok_inj in H. subst q.
  unfold carries, pkt_of_body. cbn [fst snd payload_at pk_body]. unfold tunnel_inner.
  rewrite tunnel_outer, ip_payload_ser, ip_proto_of_ser, P. change (17 =? 17) with true. cbv iota.
  change (skipn 8 (udp_ser uh ++ vxlan_ser (vx_vni f) ++ inner)) with (vxlan_ser (vx_vni f) ++ inner)%list.
  apply vxlan_decode_inner.
Qed.

(** the library's GRE flag sets *)
Definition gre_std (f : gre_flow) : Prop := exists s, gl_flags f = gre_flags_seq gre_flags_default s.

Lemma gre_carries f b f' q : gre_std f -> gre_flow_encap f b = Ok (f', q) ->
  carries (PTunnel KGre (gl_raw f), b) (pk_body q) /\ f' = gre_next f.
Proof.
  intros (s & Hs) H. destruct (gre_flow_encap_shape f b) as (iph & E & P & _). rewrite E in H.
  apply Ok_inj in H. apply pair_equal_spec in H. destruct H as [<- <-]. split; [|reflexivity].
  unfold carries, pkt_of_body. cbn [fst snd payload_at pk_body]. unfold tunnel_inner.
  rewrite tunnel_outer, ip_payload_ser, ip_proto_of_ser, P. change (47 =? 47) with true. cbv iota.
  rewrite Hs. destruct s.
  - change (gre_flags_word (gre_flags_seq gre_flags_default true)) with 4096.
    change (negb (N.land 4096 4096 =? 0)) with true. cbv iota. apply gre_decode_seq_payload.
  - change (gre_flags_word (gre_flags_seq gre_flags_default false)) with 0.
    change (negb (N.land 0 4096 =? 0)) with false. cbv iota. cbn [app]. apply gre_decode_plain_payload.
Qed.

Lemma erspan1_carries f b q : erspan1_encap f b = Ok q -> carries (PTunnel KErspan1 (e1_raw f), b) (pk_body q).
Proof.
  intros H. destruct (erspan1_encap_shape f b) as (iph & E & P & _). rewrite E in H. apply Ok_inj in H. subst q.
  unfold carries, pkt_of_body. cbn [fst snd payload_at pk_body]. unfold tunnel_inner.
  rewrite tunnel_outer, ip_payload_ser, ip_proto_of_ser, P. change (47 =? 47) with true. cbv iota.
  apply gre_decode_plain_payload.
Qed.

Lemma erspan2_carries f b ix f' q : erspan2_encap f b ix = Ok (f', q) ->
  carries (PTunnel KErspan2 (e2_raw f), b) (pk_body q) /\ f' = erspan2_next f.
Proof.
  intros H. destruct (erspan2_encap_shape f b ix) as (iph & E & P & _). rewrite E in H.
  apply Ok_inj in H. apply pair_equal_spec in H. destruct H as [<- <-]. split; [|reflexivity].
  unfold carries, pkt_of_body. cbn [fst snd payload_at pk_body]. unfold tunnel_inner.
  rewrite tunnel_outer, ip_payload_ser, ip_proto_of_ser, P. change (47 =? 47) with true. cbv iota.
  destruct (gre_decode_seq_some ETH_ERSPAN_1_2 (e2_seq f) (erspan2_ser (e2_sess f) ix ++ b)) as (g & -> & ->).
  apply erspan2_decode_inner.
Qed.

(* ------------------------------------------------------------------ batches *)
Definition tunnel_wants (k : tkind) (raw : bool) (ps : list packet) : list want :=
  map (fun p => (PTunnel k raw, pk_body p)) ps.

Lemma omapM_carries (g : packet -> outcome packet) k raw :
  (forall p q, g p = Ok q -> carries (PTunnel k raw, pk_body p) (pk_body q)) ->
  forall ps qs, omapM g ps = Ok qs -> frames_carry (tunnel_wants k raw ps) (map pk_body qs).
Proof.
  intros G. induction ps as [|p r IH]; intros qs H; cbn [omapM] in H.
  - apply Ok_inj in H. subst qs. constructor.
  - binv1 H. binv1 H. apply Ok_inj in H. subst qs. cbn [tunnel_wants map]. constructor; [eapply G; eassumption|].
    apply IH. assumption.
Qed.

Lemma gre_next_std f : gre_std f -> gre_std (gre_next f). Proof. intros H. exact H. Qed.

Lemma gre_all_carries : forall ps f f' out, gre_std f -> gre_encap_all f ps = Ok (f', out) ->
  frames_carry (tunnel_wants KGre (gl_raw f) ps) (map pk_body out)
  /\ gl_raw f' = gl_raw f /\ gl_flags f' = gl_flags f.
Proof.
  induction ps as [|p r IH]; intros f f' out Hs H; cbn [gre_encap_all] in H.
  - apply Ok_inj in H. apply pair_equal_spec in H. destruct H as [<- <-]. split; [constructor|split; reflexivity].
  - binv1 H. binv1 H. apply Ok_inj in H. apply pair_equal_spec in H. destruct H as [<- <-].
    match goal with E1 : gre_flow_encap f _ = Ok (?f1, ?q), E2 : gre_encap_all ?f1 r = Ok _ |- _ =>
      destruct (gre_carries _ _ _ _ Hs E1) as (C & ->);
      destruct (IH _ _ _ (gre_next_std f Hs) E2) as (C2 & R2 & F2)
    end.
    split; [|split; [rewrite R2; reflexivity|rewrite F2; reflexivity]].
    cbn [tunnel_wants map]. constructor; [exact C|exact C2].
Qed.

Lemma erspan2_all_carries ix : forall ps f f' out, erspan2_encap_all f ix ps = Ok (f', out) ->
  frames_carry (tunnel_wants KErspan2 (e2_raw f) ps) (map pk_body out) /\ e2_raw f' = e2_raw f.
Proof.
  induction ps as [|p r IH]; intros f f' out H; cbn [erspan2_encap_all] in H.
  - apply Ok_inj in H. apply pair_equal_spec in H. destruct H as [<- <-]. split; [constructor|reflexivity].
  - binv1 H. binv1 H. apply Ok_inj in H. apply pair_equal_spec in H. destruct H as [<- <-].
    match goal with E1 : erspan2_encap f _ ix = Ok (?f1, ?q), E2 : erspan2_encap_all ?f1 ix r = Ok _ |- _ =>
      destruct (erspan2_carries _ _ _ _ _ E1) as (C & ->);
      destruct (IH _ _ _ E2) as (C2 & R2)
    end.
    split; [|rewrite R2; reflexivity].
    cbn [tunnel_wants map]. constructor; [exact C|exact C2].
Qed.

(* ------------------------------------------------------------------ the methods, through exec *)
Definition tunnel_pay_plan (k : tkind) (raw : bool) (slots : list val) : option (list want) :=
  match conv_pktgen (nth 0 slots VNil) with Ok ps => Some (tunnel_wants k raw ps) | _ => None end.

Ltac tun_cases Hms Hin :=
  vm_compute in Hms; apply Some_inj in Hms; subst; cbn [In] in Hin;
  repeat (destruct Hin as [Hin|Hin]; [apply pair_equal_spec in Hin; destruct Hin as [<- <-]|]); [..|contradiction Hin].

Theorem vxlan_pay_method e ms name key slots extra h a f v h' :
  assoc "vxlan::Vxlan"%string class_table = Some ms -> In (name, key) ms ->
  nth_error h a = Some (OVxlan f) ->
  exec e key (Some a) slots extra h = Some (Ok (v, h')) ->
  h' = h /\ exists ws, tunnel_pay_plan KVxlan (vx_raw f) slots = Some ws /\ val_carries ws v.
Proof.
  intros Hms Hin Hn H. tun_cases Hms Hin.
  - (* dgram *) exec_unfold_in H. apply Some_inj in H. rewrite (take_this_some _ _ _ Hn), obind_ok in H. cbv beta iota in H.
    destruct slots as [|s1 [|? ?]]; try (exfalso; exact (bad_args_not_ok' _ H)).
    binv1 H. binv1 H. ok_inv H. split; [reflexivity|].
    match goal with Ep : conv_pkt s1 = Ok ?p |- _ => destruct s1; try discriminate Ep; apply Ok_inj in Ep; subst end.
    eexists. split; [reflexivity|]. apply vc_pkt. eapply vxlan_carries. eassumption.
  - (* encap *) exec_unfold_in H. apply Some_inj in H. rewrite (take_this_some _ _ _ Hn), obind_ok in H. cbv beta iota in H.
    destruct slots as [|s1 [|? ?]]; try (exfalso; exact (bad_args_not_ok' _ H)).
    binv1 H. binv1 H. ok_inv H. split; [reflexivity|].
    eexists. split; [unfold tunnel_pay_plan; cbn [nth]; match goal with Ep : conv_pktgen s1 = Ok _ |- _ => rewrite Ep end; reflexivity|].
    apply vc_gen. eapply (omapM_carries (fun p => vxlan_encap f (pkt_frame p))); [|eassumption].
    intros p q Eq. exact (vxlan_carries _ _ _ Eq).
Qed.

Theorem erspan1_pay_method e ms name key slots extra h a f v h' :
  assoc "erspan1::Erspan1"%string class_table = Some ms -> In (name, key) ms ->
  nth_error h a = Some (OErspan1 f) ->
  exec e key (Some a) slots extra h = Some (Ok (v, h')) ->
  h' = h /\ exists ws, tunnel_pay_plan KErspan1 (e1_raw f) slots = Some ws /\ val_carries ws v.
Proof.
  intros Hms Hin Hn H. tun_cases Hms Hin.
  exec_unfold_in H. apply Some_inj in H. rewrite (take_this_some _ _ _ Hn), obind_ok in H. cbv beta iota in H.
  destruct slots as [|s1 [|? ?]]; try (exfalso; exact (bad_args_not_ok' _ H)).
  binv1 H. binv1 H. ok_inv H. split; [reflexivity|].
  eexists. split; [unfold tunnel_pay_plan; cbn [nth]; match goal with Ep : conv_pktgen s1 = Ok _ |- _ => rewrite Ep end; reflexivity|].
  apply vc_gen. eapply (omapM_carries (fun p => erspan1_encap f (pkt_frame p))); [|eassumption].
  intros p q Eq. exact (erspan1_carries _ _ _ Eq).
Qed.

Theorem gre_pay_method e ms name key slots extra h a f v h' :
  assoc "gre::Gre"%string class_table = Some ms -> In (name, key) ms ->
  nth_error h a = Some (OGre f) -> gre_std f ->
  exec e key (Some a) slots extra h = Some (Ok (v, h')) ->
  exists ws f', tunnel_pay_plan KGre (gl_raw f) slots = Some ws /\ val_carries ws v
    /\ h' = set_nth h a (OGre f') /\ gl_raw f' = gl_raw f /\ gl_flags f' = gl_flags f.
Proof.
  intros Hms Hin Hn Hs H. tun_cases Hms Hin.
  exec_unfold_in H. apply Some_inj in H. rewrite (take_this_some _ _ _ Hn), obind_ok in H. cbv beta iota in H.
  destruct slots as [|s1 [|? ?]]; try (exfalso; exact (bad_args_not_ok' _ H)).
  binv1 H. binv1 H. ok_inv H.
  match goal with E : gre_encap_all f _ = Ok _ |- _ => destruct (gre_all_carries _ _ _ _ Hs E) as (C & R & F) end.
  eexists. eexists. split; [unfold tunnel_pay_plan; cbn [nth]; match goal with Ep : conv_pktgen s1 = Ok _ |- _ => rewrite Ep end; reflexivity|].
  split; [apply vc_gen, C|]. split; [reflexivity|]. split; assumption.
Qed.

Theorem erspan2_pay_method e ms name key slots extra h a f v h' :
  assoc "erspan2::Erspan2"%string class_table = Some ms -> In (name, key) ms ->
  nth_error h a = Some (OErspan2 f) ->
  exec e key (Some a) slots extra h = Some (Ok (v, h')) ->
  exists ws f', tunnel_pay_plan KErspan2 (e2_raw f) slots = Some ws /\ val_carries ws v
    /\ h' = set_nth h a (OErspan2 f') /\ e2_raw f' = e2_raw f.
Proof.
  intros Hms Hin Hn H. tun_cases Hms Hin.
  exec_unfold_in H. apply Some_inj in H. rewrite (take_this_some _ _ _ Hn), obind_ok in H. cbv beta iota in H.
  destruct slots as [|s1 [|s2 [|? ?]]]; try (exfalso; exact (bad_args_not_ok' _ H)).
  binv1 H. binv1 H. binv1 H. ok_inv H.
  match goal with E : erspan2_encap_all f _ _ = Ok _ |- _ => destruct (erspan2_all_carries _ _ _ _ _ E) as (C & R) end.
  eexists. eexists. split; [unfold tunnel_pay_plan; cbn [nth]; match goal with Ep : conv_pktgen s1 = Ok _ |- _ => rewrite Ep end; reflexivity|].
  split; [apply vc_gen, C|]. split; [reflexivity|exact R].
Qed.

(** the session gre::session creates has the library's flags *)
Theorem gre_session_std e slots extra h v h' :
  exec e "gre::session" None slots extra h = Some (Ok (v, h')) ->
  exists f, v = VObj (length h) /\ h' = (h ++ [OGre f])%list /\ gre_std f.
Proof.
  intros H. exec_unfold_in H. apply Some_inj in H. unfold gre_session_fn in H.
  destruct slots as [|s1 [|s2 [|s3 [|s4 [|? ?]]]]]; try (exfalso; exact (bad_args_not_ok' _ H)).
  do 4 binv1 H. unfold alloc in H. ok_inv H. eexists. split; [reflexivity|]. split; [reflexivity|]. exists false. reflexivity.
Qed.
