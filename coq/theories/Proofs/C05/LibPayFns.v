(** C05 at the level the interpreter executes, part 3: UdpFlow, ipv4::udp::unicast/broadcast, Icmp, ipv4::datagram,
    IpFrag, eth::frame, and the two constructors that store a payload (ipv4::frag, io::bufio).  No size premise
    anywhere: the walker of LibPay.v reads no length field. *)
From RS Require Import Base.Bytes Base.Outcome Bind.Types Pkt.Csum Pkt.Hdrs Pkt.Packet Ez.Tcp Ez.Udp Ez.Icmp Ez.Ip4
  Interp.Val Interp.Eval Lib.LibBase Lib.StdLib Lib.Ipv4Lib Lib.MiscLib Spec.Wire Spec.TunnelPeel
  Proofs.BytesLemmas Proofs.Tactics Proofs.C18.Framing Proofs.C08.LibPost Proofs.C03.LibCalls Proofs.C03.LibUdp Proofs.C03.LibIcmp
  Proofs.C07.Compose Proofs.C07.LibFrag Proofs.C02.LibIp Proofs.C02.LibIpFns
  Proofs.C05.Coerce Proofs.C05.LibPay Proofs.C05.LibPayTcp.
From RSGen Require Import Catalogue.
From Coq Require Import Arith ZArith Lia ZifyBool ZifyNat ZifyN.
Ltac Zify.zify_post_hook ::= Z.div_mod_to_equations.
Open Scope N_scope.

(* ------------------------------------------------------------------ UDP datagrams under construction *)
Definition udp_pinv (raw : bool) (d : udp_dgram) (b : bytes) : Prop :=
  ud_raw d = raw /\ length (eth_ser (ud_eth d)) = 14%nat /\ ip_proto (ud_ip d) = 17 /\ ud_payload d = b.

Lemma udp_addr_pinv raw s t : udp_pinv raw (udp_dst (udp_src (udp_new raw) s) t) [].
Proof. repeat split. Qed.
Lemma udp_bcast_pinv raw s t : udp_pinv raw (udp_broadcast (udp_dst (udp_src (udp_new raw) s) t)) [].
Proof. repeat split. Qed.
Lemma udp_push_pinv raw d p b d' : udp_pinv raw d p -> udp_push d b = Ok d' -> udp_pinv raw d' (p ++ b)%list.
Proof. intros (A & B & C & D) E. unfold udp_push in E. apply Ok_inj in E. subst d' p. repeat split; assumption. Qed.
Lemma udp_srcip_pinv raw d b a : udp_pinv raw d b -> udp_pinv raw (udp_srcip d a) b.
Proof. intros H. exact H. Qed.
Lemma udp_frag_off_pinv raw d b off : udp_pinv raw d b -> udp_pinv raw (udp_frag_off d off) b.
Proof. intros H. exact H. Qed.
Lemma udp_csum_pinv raw d b d' : udp_pinv raw d b -> udp_csum d = Ok d' -> udp_pinv raw d' b.
Proof. intros H E. revert E. unfold udp_csum. intros E. binv E. apply Ok_inj in E. subst d'. exact H. Qed.

Lemma udp_packet_carries raw d b : udp_pinv raw d b -> carries (PTransport raw, b) (pk_body (udp_packet d)).
Proof.
  intros (A & B & C & D). unfold carries. cbn [fst snd payload_at]. subst raw b.
  exact (transport_udp (ud_raw d) (eth_ser (ud_eth d)) (ud_ip d) (ud_udp d) (ud_payload d) B C).
Qed.
Lemma udp_l4_carries raw d b : udp_pinv raw d b -> carries (PSeg 17, b) (udp_l4_bytes d).
Proof. intros (_ & _ & _ & D). unfold carries, udp_l4_bytes. subst b. apply l4_payload_udp. Qed.

Lemma uflow_dgram_pinv (client : bool) f b d :
  (if client then uflow_client_dgram else uflow_server_dgram) f b = Ok d -> udp_pinv (uf_raw f) d b.
Proof.
  destruct client; unfold uflow_client_dgram, uflow_server_dgram; intros E;
    change b with ([] ++ b)%list; (eapply udp_push_pinv; [apply udp_addr_pinv|exact E]).
Qed.

(* ------------------------------------------------------------------ UdpFlow methods *)
Definition udp_pay_plan (raw : bool) (name : string) (extra : list val) : option (list want) :=
  match extra_payload extra with
  | Some b =>
    if String.eqb name "client_dgram" || String.eqb name "server_dgram" then Some [(PTransport raw, b)]
    else if String.eqb name "client_raw_dgram" || String.eqb name "server_raw_dgram" then Some [(PSeg 17, b)]
    else None
  | None => None
  end.

Ltac upay_enter H Hn :=
  exec_unfold_in H; apply Some_inj in H; rewrite (take_this_some _ _ _ Hn), obind_ok in H; cbv beta iota in H;
  binv1 H; ok_inv H; (split; [reflexivity|]).

Ltac upay_framed c :=
  match goal with
  | Ej : join_extra [] _ = Ok ?b, Ed : _ ?f ?b = Ok ?d, Ec : (if ?cs then udp_csum (udp_frag_off ?d ?fo) else _) = Ok ?d2 |- _ =>
    pose proof (udp_frag_off_pinv _ _ _ fo (uflow_dgram_pinv c f b d Ed)) as I;
    assert (I2 : udp_pinv (uf_raw f) d2 b)
      by (destruct cs; [exact (udp_csum_pinv _ _ _ _ I Ec)|apply Ok_inj in Ec; subst d2; exact I]);
    eexists; split; [unfold udp_pay_plan; rewrite (join_extra_payload _ _ Ej); reflexivity|];
    apply vc_pkt, udp_packet_carries, I2
  end.
Ltac upay_unframed c :=
  match goal with
  | Ej : join_extra [] _ = Ok ?b, Ed : _ ?f ?b = Ok ?d, Ec : (if ?cs then udp_csum ?d else _) = Ok ?d2 |- _ =>
    pose proof (uflow_dgram_pinv c f b d Ed) as I;
    assert (I2 : udp_pinv (uf_raw f) d2 b)
      by (destruct cs; [exact (udp_csum_pinv _ _ _ _ I Ec)|apply Ok_inj in Ec; subst d2; exact I]);
    eexists; split; [unfold udp_pay_plan; rewrite (join_extra_payload _ _ Ej); reflexivity|];
    apply vc_str, (udp_l4_carries (uf_raw f)), I2
  end.

(** EVERY method of the UdpFlow class *)
Theorem udp_pay_method e ms name key slots extra h a f v h' :
  assoc udp_class class_table = Some ms -> In (name, key) ms ->
  nth_error h a = Some (OUdp f) ->
  exec e key (Some a) slots extra h = Some (Ok (v, h')) ->
  h' = h /\ exists ws, udp_pay_plan (uf_raw f) name extra = Some ws /\ val_carries ws v.
Proof.
  intros Hms Hin Hn H. vm_compute in Hms. apply Some_inj in Hms. subst ms.
  cbn [In] in Hin.
  repeat (destruct Hin as [Hin|Hin]; [apply pair_equal_spec in Hin; destruct Hin as [<- <-]|]); [..|contradiction Hin].
  - upay_enter H Hn.
    destruct slots as [|s1 [|s2 [|? ?]]]; cbv beta iota in E; try (exfalso; exact (bad_args_not_ok' _ E)).
    binv E. ok_inv E. upay_framed true.
  - upay_enter H Hn.
    destruct slots as [|s1 [|s2 [|? ?]]]; cbv beta iota in E; try (exfalso; exact (bad_args_not_ok' _ E)).
    binv E. ok_inv E. upay_framed false.
  - upay_enter H Hn.
    destruct slots as [|s1 [|? ?]]; cbv beta iota in E; try (exfalso; exact (bad_args_not_ok' _ E)).
    binv E. ok_inv E. upay_unframed true.
  - upay_enter H Hn.
    destruct slots as [|s1 [|? ?]]; cbv beta iota in E; try (exfalso; exact (bad_args_not_ok' _ E)).
    binv E. ok_inv E. upay_unframed false.
Qed.

(* ------------------------------------------------------------------ ipv4::udp::unicast / broadcast *)
(** the framing a function call asks for: its raw: argument *)
Definition raw_arg (n : nat) (slots : list val) : option bool :=
  match conv_bool (nth n slots VNil) with Ok r => Some r | _ => None end.

Definition fn_pay_plan (pl : place) (extra : list val) : option (list want) :=
  option_map (fun b => [(pl, b)]) (extra_payload extra).

Theorem unicast_pay e slots extra h v h' :
  exec e "ipv4::udp::unicast" None slots extra h = Some (Ok (v, h')) ->
  h' = h /\ exists raw b, raw_arg 2 slots = Some raw /\ extra_payload extra = Some b
    /\ val_carries [(PTransport raw, b)] v.
Proof.
  intros H. exec_unfold_in H. apply Some_inj in H. unfold udp_unicast_fn in H.
  destruct slots as [|s1 [|s2 [|s3 [|? ?]]]]; try (exfalso; exact (bad_args_not_ok' _ H)).
  binv H. ok_inv H. split; [reflexivity|].
  match goal with
  | Er : conv_bool s3 = Ok ?r, Ej : join_extra [] extra = Ok ?b, Ed : udp_push _ ?b = Ok ?d |- _ =>
    exists r, b; split; [unfold raw_arg; cbn [nth]; rewrite Er; reflexivity|];
    split; [exact (join_extra_payload _ _ Ej)|];
    apply vc_pkt, udp_packet_carries; change b with ([] ++ b)%list;
    eapply udp_push_pinv; [apply udp_addr_pinv|exact Ed]
  end.
Qed.

Theorem broadcast_pay e slots extra h v h' :
  exec e "ipv4::udp::broadcast" None slots extra h = Some (Ok (v, h')) ->
  h' = h /\ exists raw b, raw_arg 3 slots = Some raw /\ extra_payload extra = Some b
    /\ val_carries [(PTransport raw, b)] v.
Proof.
  intros H. exec_unfold_in H. apply Some_inj in H. unfold udp_broadcast_fn in H.
  destruct slots as [|s1 [|s2 [|s3 [|s4 [|? ?]]]]]; try (exfalso; exact (bad_args_not_ok' _ H)).
  binv H. ok_inv H. split; [reflexivity|].
  match goal with
  | Er : conv_bool s4 = Ok ?r, Ej : join_extra [] extra = Ok ?b, Ed : udp_push _ ?b = Ok ?d |- _ =>
    exists r, b; split; [unfold raw_arg; cbn [nth]; rewrite Er; reflexivity|];
    split; [exact (join_extra_payload _ _ Ej)|];
    assert (I : udp_pinv r d b)
      by (change b with ([] ++ b)%list; eapply udp_push_pinv; [apply udp_bcast_pinv|exact Ed]);
    apply vc_pkt, udp_packet_carries;
    match goal with |- udp_pinv _ (match ?o with Some _ => _ | None => _ end) _ => destruct o end;
    [apply udp_srcip_pinv, I|exact I]
  end.
Qed.

(* ------------------------------------------------------------------ Icmp.echo / echo_reply *)
Lemma icmp_dgram_carries src dst raw typ id seq b p :
  icmp_dgram src dst raw typ id seq b = Ok p -> carries (PTransport raw, b) (pk_body p).
Proof.
  unfold icmp_dgram. intros E. apply Ok_inj in E. subst p. unfold carries, pkt_of_body. cbn [fst snd payload_at pk_body].
  destruct raw; [apply transport_icmp_raw|apply transport_icmp_eth]; reflexivity.
Qed.

Definition icmp_pay_plan (raw : bool) (slots : list val) : option (list want) :=
  match slots with
  | [pv] => match conv_buf pv with Ok b => Some [(PTransport raw, b)] | _ => None end
  | _ => None
  end.

(** EVERY method of the Icmp class: the payload is the (coerced) argument *)
Theorem icmp_pay_method e ms name key slots extra h a f v h' :
  assoc icmp_class class_table = Some ms -> In (name, key) ms ->
  nth_error h a = Some (OIcmp f) ->
  exec e key (Some a) slots extra h = Some (Ok (v, h')) ->
  exists ws f', icmp_pay_plan (if_raw f) slots = Some ws /\ val_carries ws v
    /\ h' = set_nth h a (OIcmp f') /\ if_raw f' = if_raw f.
Proof.
  intros Hms Hin Hn H. vm_compute in Hms. apply Some_inj in Hms. subst ms.
  cbn [In] in Hin.
  repeat (destruct Hin as [Hin|Hin]; [apply pair_equal_spec in Hin; destruct Hin as [<- <-]|]); [..|contradiction Hin].
  - exec_unfold_in H. apply Some_inj in H. rewrite (take_this_some _ _ _ Hn), obind_ok in H. cbv beta iota in H.
    destruct slots as [|pv [|? ?]]; cbv beta iota in H; try (exfalso; exact (bad_args_not_ok' _ H)).
    binv1 H. binv1 H. ok_inv H.
    rename E into Eb, E0 into Ee. revert Ee. unfold icmp_echo. intros Ee. binv1 Ee. ok_inv Ee.
    eexists. eexists. split; [unfold icmp_pay_plan; rewrite Eb; reflexivity|].
    split; [apply vc_pkt; eapply icmp_dgram_carries; eassumption|]. split; reflexivity.
  - exec_unfold_in H. apply Some_inj in H. rewrite (take_this_some _ _ _ Hn), obind_ok in H. cbv beta iota in H.
    destruct slots as [|pv [|? ?]]; cbv beta iota in H; try (exfalso; exact (bad_args_not_ok' _ H)).
    binv1 H. binv1 H. ok_inv H.
    rename E into Eb, E0 into Ee. revert Ee. unfold icmp_echo_reply. intros Ee. binv1 Ee. ok_inv Ee.
    eexists. eexists. split; [unfold icmp_pay_plan; rewrite Eb; reflexivity|].
    split; [apply vc_pkt; eapply icmp_dgram_carries; eassumption|]. split; reflexivity.
Qed.

(* ------------------------------------------------------------------ ipv4::datagram *)
Theorem datagram_pay e slots extra h v h' :
  exec e "ipv4::datagram" None slots extra h = Some (Ok (v, h')) ->
  h' = h /\ exists b, extra_payload extra = Some b /\ val_carries [(PIp false, b)] v.
Proof.
  intros H. exec_unfold_in H. apply Some_inj in H. unfold ipv4_datagram_fn in H.
  destruct slots as [|s1 [|s2 [|s3 [|s4 [|s5 [|s6 [|s7 [|s8 [|s9 [|? ?]]]]]]]]]]; try (exfalso; exact (bad_args_not_ok' _ H)).
  do 10 binv1 H. ok_inv H. split; [reflexivity|].
  match goal with Ej : join_extra [] extra = Ok ?b |- _ =>
    exists b; split; [exact (join_extra_payload _ _ Ej)|]; apply vc_pkt;
    unfold carries, pkt_of_body; cbn [fst snd pk_body]; apply ip_place_eth; reflexivity
  end.
Qed.

(* ------------------------------------------------------------------ IpFrag *)
Lemma ipdgram_carries iph payload raw off mf p :
  ipdgram iph payload raw off mf = Ok p -> carries (PIp raw, payload) (pk_body p).
Proof.
  unfold ipdgram. intros E. apply Ok_inj in E. subst p. unfold carries, pkt_of_body. cbn [fst snd pk_body].
  destruct raw; [apply ip_place_raw|apply ip_place_eth; reflexivity].
Qed.

Lemma req_run_carries f r raw p : req_run f r raw = Ok p -> carries (PIp raw, req_carried f r) (pk_body p).
Proof.
  destruct r as [o l|o|]; cbn [req_run req_carried]; unfold frag_tail, frag_fragment, frag_datagram, frag_slice;
    intros E; exact (ipdgram_carries _ _ _ _ _ _ E).
Qed.

Definition frag_pay_plan (f : ip_frag) (name : string) (slots : list val) : option (list want) :=
  option_map (fun q => [(PIp (snd q), req_carried f (fst q))]) (frag_call_req name slots).

(** EVERY method of the IpFrag class: the slice the request designates (fragment/tail), the whole payload (datagram) *)
Theorem frag_pay_method e ms name key slots extra h a f v h' :
  assoc frag_class class_table = Some ms -> In (name, key) ms ->
  nth_error h a = Some (OFrag f) ->
  exec e key (Some a) slots extra h = Some (Ok (v, h')) ->
  h' = h /\ exists ws, frag_pay_plan f name slots = Some ws /\ val_carries ws v.
Proof.
  intros Hms Hin Hn H.
  destruct (frag_method_sound e ms name key slots extra h a f v h' Hms Hin Hn H) as (-> & q & p & Hq & -> & E).
  split; [reflexivity|]. eexists. split; [unfold frag_pay_plan; rewrite Hq; reflexivity|].
  apply vc_pkt, req_run_carries, E.
Qed.

(* ------------------------------------------------------------------ eth::frame *)
Theorem eth_frame_pay e slots extra h v h' :
  exec e "eth::frame" None slots extra h = Some (Ok (v, h')) ->
  h' = h /\ exists b, extra_payload extra = Some b /\ val_carries [(PEth, b)] v.
Proof.
  intros H. exec_unfold_in H. apply Some_inj in H. unfold eth_frame_fn in H.
  destruct slots as [|s1 [|s2 [|s3 [|? ?]]]]; try (exfalso; exact (bad_args_not_ok' _ H)).
  do 4 binv1 H.
  match goal with Es : conv_buf s1 = Ok ?s, Ed : conv_buf s2 = Ok ?d, Ej : join_extra [] extra = Ok ?b |- _ =>
    destruct (len s =? 6) eqn:Ls; cbn [negb] in H; [|discriminate H];
    destruct (len d =? 6) eqn:Ld; cbn [negb] in H; [|discriminate H];
    ok_inv H; split; [reflexivity|]; exists b; split; [exact (join_extra_payload _ _ Ej)|];
    apply vc_pkt; unfold carries, pkt_of_body; cbn [fst snd payload_at pk_body]; f_equal; apply skipn_exact;
    unfold eth_ser, eth_new; cbn [eth_dst eth_src eth_proto]; rewrite !app_length;
    apply N.eqb_eq in Ls; apply N.eqb_eq in Ld; unfold len in Ls, Ld;
    match goal with |- context [length (be16 ?x)] => change (length (be16 x)) with 2%nat end; lia
  end.
Qed.

(* ------------------------------------------------------------------ constructors that store a payload *)
(** ipv4::frag keeps the concatenation of its collected arguments as the context's payload; io::bufio as the
    buffer, cursor at 0 *)
Theorem frag_ctx_stores e slots extra h v h' :
  exec e "ipv4::frag" None slots extra h = Some (Ok (v, h')) ->
  exists b f, extra_payload extra = Some b /\ v = VObj (length h) /\ h' = (h ++ [OFrag f])%list /\ fr_payload f = b.
Proof.
  intros H. destruct (frag_created e slots extra h v h' H) as (src & dst & id & evil & df & ttl & proto & bs & _ & _ & _ & _ & _ & _ & _ & Ebs & K).
  cbv zeta in K. destruct K as (-> & -> & _).
  eexists. eexists. split; [|split; [reflexivity|split; [reflexivity|reflexivity]]].
  unfold extra_payload, join_extra. rewrite Ebs. cbn [obind]. rewrite join_nil_concat. reflexivity.
Qed.

Theorem bufio_stores e slots extra h v h' :
  exec e "io::bufio" None slots extra h = Some (Ok (v, h')) ->
  exists b, extra_payload extra = Some b /\ v = VObj (length h) /\ h' = (h ++ [OBufIo b 0])%list.
Proof.
  intros H. exec_unfold_in H. apply Some_inj in H. unfold io_bufio_fn in H.
  destruct slots as [|? ?]; try (exfalso; exact (bad_args_not_ok' _ H)).
  binv1 H. unfold alloc in H. ok_inv H.
  eexists. split; [eapply join_extra_payload; eassumption|]. split; reflexivity.
Qed.
