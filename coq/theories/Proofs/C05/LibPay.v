(** C05 at the level the interpreter executes, part 1: vocabulary.
    An independent walker locates the payload in a frame: skip the 14-byte Ethernet header unless the frame is
    raw, the IPv4 header by its IHL nibble, then -- by the protocol number the IPv4 header shows -- the TCP
    header by its data-offset nibble (6) or the fixed 8-byte UDP (17) / ICMP echo (1) header; what remains, to
    the END OF THE FRAME, is the payload.  No length field is consulted (IPv4 total length, UDP length), so
    the statements hold for every payload length, also where those 16-bit fields wrap (DESIGN 10.3 D22).
    For tunnels [tunnel_inner] skips the outer IPv4 header the same way and then the UDP+VXLAN / GRE /
    GRE+ERSPAN II headers with the decoders of Spec/Tunnel.v.
    A [want] is a place and the bytes expected there; [val_carries ws v]: value v is as many frames as ws has
    entries, and the i-th frame shows the i-th entry's bytes at the i-th entry's place.
    The first part of this file mentions no builder; the second part relates the walker to the header
    serialisers of Pkt/Hdrs.v. *)
From RS Require Import Base.Bytes Base.Outcome Pkt.Hdrs Pkt.Packet Interp.Val Spec.Wire Spec.Tunnel Spec.TunnelPeel
  Proofs.BytesLemmas Proofs.C18.Framing Proofs.C02.IpLemmas.
From Coq Require Import Arith ZArith Lia ZifyBool ZifyNat ZifyN.
Ltac Zify.zify_post_hook ::= Z.div_mod_to_equations.
Open Scope N_scope.

(* ------------------------------------------------------------------ the walker (specification side) *)
Definition l3_at (raw : bool) (fr : bytes) : bytes := if raw then fr else skipn 14 fr.
(** IPv4 header length in bytes: 4 * the low nibble of the first byte *)
Definition ip_hlen (l3 : bytes) : nat := N.to_nat (4 * (nth 0 l3 0 mod 16)).
Definition ip_payload (l3 : bytes) : bytes := skipn (ip_hlen l3) l3.
(** TCP header length in bytes: 4 * the high nibble of byte 12 *)
Definition tcp_hlen (l4 : bytes) : nat := N.to_nat (4 * (nth 12 l4 0 / 16)).
Definition l4_payload (proto : N) (l4 : bytes) : option bytes :=
  if proto =? 6 then Some (skipn (tcp_hlen l4) l4)
  else if proto =? 17 then Some (skipn 8 l4)
  else if proto =? 1 then Some (skipn 8 l4)
  else None.
Definition transport_payload (raw : bool) (fr : bytes) : option bytes :=
  let l3 := l3_at raw fr in l4_payload (ip_proto_of l3) (ip_payload l3).

(** the frame inside a tunnel packet; addresses, ports, VNI and sequence numbers are not looked at (C06 does) *)
Definition tunnel_inner (k : tkind) (raw : bool) (fr : bytes) : option bytes :=
  let l3 := l3_at raw fr in
  let l4 := ip_payload l3 in
  match k with
  | KVxlan => if ip_proto_of l3 =? 17 then option_map snd (vxlan_decode (skipn 8 l4)) else None
  | KGre | KErspan1 => if ip_proto_of l3 =? 47 then option_map g_payload (gre_decode l4) else None
  | KErspan2 =>
    if ip_proto_of l3 =? 47 then
      match gre_decode l4 with
      | Some g => option_map snd (erspan2_decode (g_payload g))
      | None => None
      end
    else None
  end.

Inductive place :=
| PTransport (raw : bool)         (* a frame: [Ethernet] IPv4 TCP/UDP/ICMP-echo payload *)
| PSeg (proto : N)                (* a bare transport segment / datagram: header, payload *)
| PIp (raw : bool)                (* a frame: [Ethernet] IPv4 payload *)
| PEth                            (* a frame: Ethernet payload *)
| PTunnel (k : tkind) (raw : bool). (* a frame: [Ethernet] IPv4 tunnel-headers inner-frame *)

Definition payload_at (pl : place) (fr : bytes) : option bytes :=
  match pl with
  | PTransport raw => transport_payload raw fr
  | PSeg proto => l4_payload proto fr
  | PIp raw => Some (ip_payload (l3_at raw fr))
  | PEth => Some (skipn 14 fr)
  | PTunnel k raw => tunnel_inner k raw fr
  end.

Definition want : Type := place * bytes.
Definition carries (w : want) (fr : bytes) : Prop := payload_at (fst w) fr = Some (snd w).
Definition frames_carry (ws : list want) (frs : list bytes) : Prop := Forall2 carries ws frs.

(** the frames (or bare byte strings) a returned value consists of *)
Definition val_frames (v : val) : option (list bytes) :=
  match v with
  | VPkt p => Some [pk_body p]
  | VPktGen ps => Some (map pk_body ps)
  | VStr b => Some [b]
  | VNil => Some []
  | _ => None
  end.
Definition val_carries (ws : list want) (v : val) : Prop :=
  exists frs, val_frames v = Some frs /\ frames_carry ws frs.

(** decision procedure, for examples *)
Definition opt_bytes_eqb (a : option bytes) (b : bytes) : bool :=
  match a with Some x => bytes_eqb x b | None => false end.
Fixpoint frames_carry_b (ws : list want) (frs : list bytes) : bool :=
  match ws, frs with
  | [], [] => true
  | w :: wr, fr :: fr' => opt_bytes_eqb (payload_at (fst w) fr) (snd w) && frames_carry_b wr fr'
  | _, _ => false
  end.
Definition val_carries_b (ws : list want) (v : val) : bool :=
  match val_frames v with Some frs => frames_carry_b ws frs | None => false end.

Lemma bytes_eqb_eq : forall a b : bytes, bytes_eqb a b = true -> a = b.
Proof.
  unfold bytes_eqb. induction a as [|x a IH]; intros [|y b] H; cbn [list_eqb] in H; try discriminate H; [reflexivity|].
  apply andb_prop in H. destruct H as (A & B). apply N.eqb_eq in A. subst y. f_equal. apply IH, B.
Qed.
Lemma frames_carry_b_ok : forall ws frs, frames_carry_b ws frs = true -> frames_carry ws frs.
Proof.
  induction ws as [|w wr IH]; intros [|fr fr'] H; cbn [frames_carry_b] in H; try discriminate H; [constructor|].
  apply andb_prop in H. destruct H as (A & B). constructor; [|apply IH, B].
  unfold carries. destruct (payload_at (fst w) fr) as [x|]; [|discriminate A]. cbn [opt_bytes_eqb] in A.
  f_equal. apply bytes_eqb_eq, A.
Qed.
Lemma val_carries_b_ok ws v : val_carries_b ws v = true -> val_carries ws v.
Proof.
  unfold val_carries_b, val_carries. destruct (val_frames v) as [frs|]; [|discriminate].
  intros H. exists frs. split; [reflexivity|apply frames_carry_b_ok, H].
Qed.

Lemma frames_carry_app ws1 ws2 f1 f2 : frames_carry ws1 f1 -> frames_carry ws2 f2 -> frames_carry (ws1 ++ ws2) (f1 ++ f2).
Proof. apply Forall2_app. Qed.

(** the payloads of a plan, concatenated in order *)
Definition wants_data (ws : list want) : bytes := concat (map snd ws).

(* ------------------------------------------------------------------ the walker on serialised headers *)
Lemma skipn_exact {A} (a b : list A) n : length a = n -> skipn n (a ++ b) = b.
Proof. intros <-. induction a; [reflexivity|cbn; assumption]. Qed.

Lemma l3_at_framed (raw : bool) (eth l3 : bytes) : length eth = 14%nat -> l3_at raw (framed raw eth l3) = l3.
Proof. intros H. unfold l3_at, framed. destruct raw; [reflexivity|]. apply skipn_exact, H. Qed.

Lemma ip_payload_ser iph x : ip_payload (ip_ser iph ++ x) = x.
Proof.
  unfold ip_payload, ip_hlen. change (nth 0 (ip_ser iph ++ x) 0) with 69.
  change (N.to_nat (4 * (69 mod 16))) with 20%nat. apply skipn_exact, length_ip_ser.
Qed.
Lemma ip_proto_of_ser iph x : ip_proto_of (ip_ser iph ++ x) = ip_proto iph.
Proof. reflexivity. Qed.

Lemma l4_payload_tcp th b : l4_payload 6 (tcp_ser th ++ b) = Some b.
Proof. reflexivity. Qed.
Lemma l4_payload_udp uh b : l4_payload 17 (udp_ser uh ++ b) = Some b.
Proof. reflexivity. Qed.
Lemma l4_payload_icmp ih b : l4_payload 1 (icmp_ser ih ++ b) = Some b.
Proof. reflexivity. Qed.

Lemma transport_tcp raw eth iph th b : length eth = 14%nat -> ip_proto iph = 6 ->
  transport_payload raw (framed raw eth (ip_ser iph ++ tcp_ser th ++ b)) = Some b.
Proof.
  intros He Hp. unfold transport_payload. cbv zeta. rewrite (l3_at_framed raw eth _ He), ip_payload_ser, ip_proto_of_ser, Hp.
  apply l4_payload_tcp.
Qed.
Lemma transport_udp raw eth iph uh b : length eth = 14%nat -> ip_proto iph = 17 ->
  transport_payload raw (framed raw eth (ip_ser iph ++ udp_ser uh ++ b)) = Some b.
Proof.
  intros He Hp. unfold transport_payload. cbv zeta. rewrite (l3_at_framed raw eth _ He), ip_payload_ser, ip_proto_of_ser, Hp.
  apply l4_payload_udp.
Qed.
Lemma transport_icmp raw eth iph ih b : length eth = 14%nat -> ip_proto iph = 1 ->
  transport_payload raw (framed raw eth (ip_ser iph ++ icmp_ser ih ++ b)) = Some b.
Proof.
  intros He Hp. unfold transport_payload. cbv zeta. rewrite (l3_at_framed raw eth _ He), ip_payload_ser, ip_proto_of_ser, Hp.
  apply l4_payload_icmp.
Qed.
Lemma ip_place raw eth iph b : length eth = 14%nat ->
  payload_at (PIp raw) (framed raw eth (ip_ser iph ++ b)) = Some b.
Proof. intros He. cbn [payload_at]. rewrite (l3_at_framed raw eth _ He), ip_payload_ser. reflexivity. Qed.

Lemma ip_place_eth eth iph b : length eth = 14%nat -> payload_at (PIp false) (eth ++ ip_ser iph ++ b) = Some b.
Proof. exact (ip_place false eth iph b). Qed.
Lemma ip_place_raw iph b : payload_at (PIp true) (ip_ser iph ++ b) = Some b.
Proof. exact (ip_place true [] iph b eq_refl) || (cbn [payload_at]; unfold l3_at; rewrite ip_payload_ser; reflexivity). Qed.
Lemma transport_icmp_eth eth iph ih b : length eth = 14%nat -> ip_proto iph = 1 ->
  transport_payload false (eth ++ ip_ser iph ++ icmp_ser ih ++ b) = Some b.
Proof. exact (transport_icmp false eth iph ih b). Qed.
Lemma transport_icmp_raw iph ih b : ip_proto iph = 1 -> transport_payload true (ip_ser iph ++ icmp_ser ih ++ b) = Some b.
Proof. intros Hp. unfold transport_payload, l3_at. cbv zeta. rewrite ip_payload_ser, ip_proto_of_ser, Hp. apply l4_payload_icmp. Qed.

Lemma length_eth_for a b : length (eth_for a b) = 14%nat. Proof. reflexivity. Qed.
