(** C05 at the level the interpreter executes, part 2: TcpFlow.  Every method of the class, through [exec]:
    the frames (or bare segments) returned show, behind their Ethernet/IPv4/TCP headers as found by the
    walker of LibPay.v, exactly the call's payload -- and nothing where the method carries none.
    The method call is the operation [op_of_call] denotes (Proofs/C04/Ops.v); [op_pay] is the plan. *)
From RS Require Import Base.Bytes Base.Outcome Bind.Types Pkt.Csum Pkt.Hdrs Pkt.Packet Ez.Tcp Interp.Val Interp.Eval
  Lib.LibBase Lib.StdLib Lib.Ipv4Lib Spec.Wire Spec.TcpAccount Spec.TcpHistory Spec.TunnelPeel
  Proofs.BytesLemmas Proofs.Tactics Proofs.C18.Framing Proofs.C08.LibPost Proofs.C03.LibCalls Proofs.C03.LibTcp Proofs.C04.Ops
  Proofs.C05.Coerce Proofs.C05.LibPay.
From RSGen Require Import Catalogue.
From Coq Require Import Arith ZArith Lia ZifyBool ZifyNat ZifyN.
Ltac Zify.zify_post_hook ::= Z.div_mod_to_equations.
Open Scope N_scope.

(* ------------------------------------------------------------------ segments under construction *)
Definition seg_inv (raw : bool) (s : tcp_seg) (b : bytes) : Prop :=
  ts_raw s = raw /\ length (eth_ser (ts_eth s)) = 14%nat /\ ip_proto (ts_ip s) = 6 /\ ts_payload s = b.

Lemma seg_new_inv src dst a b raw : seg_inv raw (seg_new src dst a b raw) [].
Proof. repeat split. Qed.
Lemma flow_cl_inv f : seg_inv (tf_raw f) (flow_cl f) []. Proof. apply seg_new_inv. Qed.
Lemma flow_sv_inv f : seg_inv (tf_raw f) (flow_sv f) []. Proof. apply seg_new_inv. Qed.

Definition inv_keep (g : tcp_seg -> tcp_seg) : Prop := forall raw s b, seg_inv raw s b -> seg_inv raw (g s) b.
Lemma ik_syn : inv_keep seg_syn. Proof. intros raw s b H. exact H. Qed.
Lemma ik_rst : inv_keep seg_rst. Proof. intros raw s b H. exact H. Qed.
Lemma ik_ack : inv_keep seg_ack. Proof. intros raw s b H. exact H. Qed.
Lemma ik_syn_ack : inv_keep seg_syn_ack. Proof. intros raw s b H. exact H. Qed.
Lemma ik_push : inv_keep seg_push. Proof. intros raw s b H. exact H. Qed.
Lemma ik_fin_ack : inv_keep seg_fin_ack. Proof. intros raw s b H. exact H. Qed.
Lemma ik_frag_off off : inv_keep (fun s => seg_frag_off s off). Proof. intros raw s b H. exact H. Qed.

Lemma append_inv raw s p b s' : seg_inv raw s p -> seg_append_data s b = Ok s' -> seg_inv raw s' (p ++ b)%list.
Proof.
  intros (A & B & C & D) E. revert E. unfold seg_append_data, seg_update_tot_len. intros E. binv E.
  apply Ok_inj in E. subst s'. subst p. repeat split; assumption.
Qed.
Lemma csum_inv raw s b s' : seg_inv raw s b -> seg_tcp_csum s = Ok s' -> seg_inv raw s' b.
Proof. intros H E. revert E. unfold seg_tcp_csum. intros E. binv E. apply Ok_inj in E. subst s'. exact H. Qed.

(** a finished segment as a frame and as a bare segment *)
Lemma seg_packet_carries raw s b : seg_inv raw s b -> carries (PTransport raw, b) (pk_body (seg_packet s)).
Proof.
  intros (A & B & C & D). unfold carries. cbn [fst snd payload_at]. subst raw b.
  exact (transport_tcp (ts_raw s) (eth_ser (ts_eth s)) (ts_ip s) (ts_tcp s) (ts_payload s) B C).
Qed.
Lemma seg_tcpseg_carries raw s b : seg_inv raw s b -> carries (PSeg 6, b) (seg_tcpseg s).
Proof. intros (_ & _ & _ & D). unfold carries, seg_tcpseg. subst b. apply l4_payload_tcp. Qed.
Lemma seg_hdr_carries s : carries (PSeg 6, []) (seg_tcp_hdr_bytes s).
Proof.
  unfold carries, seg_tcp_hdr_bytes. cbn [fst snd payload_at].
  rewrite <- (app_nil_r (tcp_ser (ts_tcp s))). apply l4_payload_tcp.
Qed.

(* ------------------------------------------------------------------ transmissions *)
Definition is_ptx (tx : tcp_flow -> tcp_seg -> outcome (tcp_flow * packet)) : Prop :=
  forall f s f' p raw b, seg_inv raw s b -> tx f s = Ok (f', p) ->
  carries (PTransport raw, b) (pk_body p) /\ tf_raw f' = tf_raw f.
Lemma cl_ptx : is_ptx flow_cl_tx.
Proof.
  intros f s f' p raw b I E. revert E. unfold flow_cl_tx. intros E. binv E. ok_inv E.
  split; [eapply seg_packet_carries, csum_inv; eassumption|reflexivity].
Qed.
Lemma sv_ptx : is_ptx flow_sv_tx.
Proof.
  intros f s f' p raw b I E. revert E. unfold flow_sv_tx. intros E. binv E. ok_inv E.
  split; [eapply seg_packet_carries, csum_inv; eassumption|reflexivity].
Qed.

Definition mk_pinv (mk : tcp_flow -> tcp_seg) : Prop := forall f, seg_inv (tf_raw f) (mk f) [].
Lemma mk_pcl g : inv_keep g -> mk_pinv (fun f => g (flow_cl f)).
Proof. intros K f. apply K, flow_cl_inv. Qed.
Lemma mk_psv g : inv_keep g -> mk_pinv (fun f => g (flow_sv f)).
Proof. intros K f. apply K, flow_sv_inv. Qed.

Definition empty3 (raw : bool) : list want := [(PTransport raw, []); (PTransport raw, []); (PTransport raw, [])].

Lemma pchain3 tx1 tx2 tx3 mk1 mk2 mk3 f f' ps :
  is_ptx tx1 -> is_ptx tx2 -> is_ptx tx3 -> mk_pinv mk1 -> mk_pinv mk2 -> mk_pinv mk3 ->
  (do (f1, p1) <- tx1 f (mk1 f);
   do (f2, p2) <- tx2 f1 (mk2 f1);
   do (f3, p3) <- tx3 f2 (mk3 f2);
   Ok (f3, [p1; p2; p3])) = Ok (f', ps) ->
  frames_carry (empty3 (tf_raw f)) (map pk_body ps) /\ tf_raw f' = tf_raw f.
Proof.
  intros T1 T2 T3 M1 M2 M3 H. binv1 H. binv1 H. binv1 H. ok_inv H.
  match goal with
  | E1 : tx1 f _ = Ok (?f1, ?p1), E2 : tx2 ?f1 _ = Ok (?f2, ?p2), E3 : tx3 ?f2 _ = Ok (?f3, ?p3) |- _ =>
    destruct (T1 _ _ _ _ _ _ (M1 f) E1) as (S1 & R1);
    destruct (T2 _ _ _ _ _ _ (M2 f1) E2) as (S2 & R2);
    destruct (T3 _ _ _ _ _ _ (M3 f2) E3) as (S3 & R3);
    rewrite R1 in S2; rewrite R2, R1 in S3;
    split; [|congruence];
    cbn [map]; constructor; [exact S1|]; constructor; [exact S2|]; constructor; [exact S3|constructor]
  end.
Qed.

Theorem open_pay f f' ps : flow_open f = Ok (f', ps) ->
  frames_carry (empty3 (tf_raw f)) (map pk_body ps) /\ tf_raw f' = tf_raw f.
Proof.
  unfold flow_open. intros H.
  exact (pchain3 flow_cl_tx flow_sv_tx flow_cl_tx (fun f => seg_syn (flow_cl f)) (fun f => seg_syn_ack (flow_sv f))
           (fun f => seg_ack (flow_cl f)) f f' ps cl_ptx sv_ptx cl_ptx (mk_pcl _ ik_syn) (mk_psv _ ik_syn_ack) (mk_pcl _ ik_ack) H).
Qed.
Theorem client_close_pay f f' ps : flow_client_close f = Ok (f', ps) ->
  frames_carry (empty3 (tf_raw f)) (map pk_body ps) /\ tf_raw f' = tf_raw f.
Proof.
  unfold flow_client_close. intros H.
  exact (pchain3 flow_cl_tx flow_sv_tx flow_cl_tx (fun f => seg_fin_ack (flow_cl f)) (fun f => seg_fin_ack (flow_sv f))
           (fun f => seg_ack (flow_cl f)) f f' ps cl_ptx sv_ptx cl_ptx (mk_pcl _ ik_fin_ack) (mk_psv _ ik_fin_ack) (mk_pcl _ ik_ack) H).
Qed.
Theorem server_close_pay f f' ps : flow_server_close f = Ok (f', ps) ->
  frames_carry (empty3 (tf_raw f)) (map pk_body ps) /\ tf_raw f' = tf_raw f.
Proof.
  unfold flow_server_close. intros H.
  exact (pchain3 flow_sv_tx flow_cl_tx flow_sv_tx (fun f => seg_fin_ack (flow_sv f)) (fun f => seg_fin_ack (flow_cl f))
           (fun f => seg_ack (flow_sv f)) f f' ps sv_ptx cl_ptx sv_ptx (mk_psv _ ik_fin_ack) (mk_pcl _ ik_fin_ack) (mk_psv _ ik_ack) H).
Qed.

(** the data segment of a message / segment call *)
Lemma data_seg_inv (client : bool) f b off s :
  (if client then flow_cl_seg f b off else flow_sv_seg f b off) = Ok s -> seg_inv (tf_raw f) s b.
Proof.
  unfold flow_cl_seg, flow_sv_seg, seg_push_bytes. intros H.
  change b with ([] ++ b)%list. destruct client.
  - eapply append_inv; [|exact H]. apply ik_push, (ik_frag_off off), flow_cl_inv.
  - eapply append_inv; [|exact H]. apply ik_push, (ik_frag_off off), flow_sv_inv.
Qed.

Definition message_wants (raw : bool) (b : bytes) (sa : bool) : list want :=
  (PTransport raw, b) :: (if sa then [(PTransport raw, [])] else []).

Lemma message_pay_gen tx1 tx2 (mk2 : tcp_flow -> tcp_seg)
  (mkseg : tcp_flow -> bytes -> N -> outcome tcp_seg) f b (sa : bool) off f' ps :
  is_ptx tx1 -> is_ptx tx2 -> mk_pinv mk2 ->
  (forall s, mkseg f b off = Ok s -> seg_inv (tf_raw f) s b) ->
  (do s <- mkseg f b off;
   do (f1, p1) <- tx1 f s;
   if sa then (do (f2, p2) <- tx2 f1 (mk2 f1); Ok (f2, [p1; p2])) else Ok (f1, [p1])) = Ok (f', ps) ->
  frames_carry (message_wants (tf_raw f) b sa) (map pk_body ps) /\ tf_raw f' = tf_raw f.
Proof.
  intros T1 T2 M2 MS H. binv1 H. binv1 H.
  match goal with
  | Es : mkseg f b off = Ok ?s, E1 : tx1 f ?s = Ok (?f1, ?p1) |- _ =>
    destruct (T1 _ _ _ _ _ _ (MS _ Es) E1) as (S1 & R1);
    destruct sa;
    [ binv1 H; ok_inv H;
      match goal with
      | E2 : tx2 f1 _ = Ok (?f2, ?p2) |- _ =>
        destruct (T2 _ _ _ _ _ _ (M2 f1) E2) as (S2 & R2); rewrite R1 in S2;
        split; [|congruence];
        cbn [map message_wants]; constructor; [exact S1|]; constructor; [exact S2|constructor]
      end
    | ok_inv H; split; [|exact R1]; cbn [map message_wants]; constructor; [exact S1|constructor] ]
  end.
Qed.

Theorem message_pay (client : bool) f b sa off f' ps :
  (if client then flow_client_message else flow_server_message) f b sa off = Ok (f', ps) ->
  frames_carry (message_wants (tf_raw f) b sa) (map pk_body ps) /\ tf_raw f' = tf_raw f.
Proof.
  intros H. destruct client.
  - revert H. unfold flow_client_message. intros H.
    refine (message_pay_gen flow_cl_tx flow_sv_tx (fun f => seg_ack (flow_sv f)) flow_cl_seg f b sa off f' ps
              cl_ptx sv_ptx (mk_psv _ ik_ack) _ H).
    intros s Es. exact (data_seg_inv true f b off s Es).
  - revert H. unfold flow_server_message. intros H.
    refine (message_pay_gen flow_sv_tx flow_cl_tx (fun f => seg_ack (flow_cl f)) flow_sv_seg f b sa off f' ps
              sv_ptx cl_ptx (mk_pcl _ ik_ack) _ H).
    intros s Es. exact (data_seg_inv false f b off s Es).
Qed.

Theorem data_segment_pay (client : bool) f b f' s :
  (if client then flow_client_data_segment else flow_server_data_segment) f b = Ok (f', s) ->
  seg_inv (tf_raw f) s b /\ tf_raw f' = tf_raw f.
Proof.
  destruct client; unfold flow_client_data_segment, flow_server_data_segment; intros H; binv H; ok_inv H.
  - match goal with Es : flow_cl_seg f b 0 = Ok ?s0, Ec : seg_tcp_csum ?s0 = Ok _ |- _ =>
      split; [exact (csum_inv _ _ _ _ (data_seg_inv true f b 0 s0 Es) Ec)|reflexivity] end.
  - match goal with Es : flow_sv_seg f b 0 = Ok ?s0, Ec : seg_tcp_csum ?s0 = Ok _ |- _ =>
      split; [exact (csum_inv _ _ _ _ (data_seg_inv false f b 0 s0 Es) Ec)|reflexivity] end.
Qed.

Theorem ack_pay (client : bool) f s :
  (if client then flow_client_ack else flow_server_ack) f = Ok s -> seg_inv (tf_raw f) s [].
Proof.
  destruct client; unfold flow_client_ack, flow_server_ack; intros H.
  - exact (csum_inv _ _ _ _ (mk_pcl _ ik_ack f) H).
  - exact (csum_inv _ _ _ _ (mk_psv _ ik_ack f) H).
Qed.
Theorem reset_pay (client : bool) f p :
  (if client then flow_client_reset else flow_server_reset) f = Ok p -> carries (PTransport (tf_raw f), []) (pk_body p).
Proof.
  destruct client; unfold flow_client_reset, flow_server_reset; intros H; binv H; apply Ok_inj in H; subst p.
  - eapply seg_packet_carries, csum_inv; [exact (mk_pcl _ ik_rst f)|eassumption].
  - eapply seg_packet_carries, csum_inv; [exact (mk_psv _ ik_rst f)|eassumption].
Qed.

(* ------------------------------------------------------------------ operations *)
(** what the frames an operation returns must carry, in order *)
Definition op_pay (raw : bool) (o : op) : list want :=
  match o with
  | OOpen | OClose _ => empty3 raw
  | OMessage _ b sa _ _ _ => message_wants raw b sa
  | OSegment _ false b _ _ => [(PTransport raw, b)]
  | OSegment _ true b _ _ => [(PSeg 6, b)]
  | OHdr _ _ => [(PSeg 6, [])]
  | OAck _ _ _ | OReset _ => [(PTransport raw, [])]
  | OHole _ _ => []
  end.

Lemma vc_gen ws ps : frames_carry ws (map pk_body ps) -> val_carries ws (VPktGen ps).
Proof. intros H. exists (map pk_body ps). split; [reflexivity|exact H]. Qed.
Lemma vc_pkt w p : carries w (pk_body p) -> val_carries [w] (VPkt p).
Proof. intros H. exists [pk_body p]. split; [reflexivity|]. constructor; [exact H|constructor]. Qed.
Lemma vc_str w b : carries w b -> val_carries [w] (VStr b).
Proof. intros H. exists [b]. split; [reflexivity|]. constructor; [exact H|constructor]. Qed.

Theorem close_pay (client : bool) f f' ps :
  (if client then flow_client_close else flow_server_close) f = Ok (f', ps) ->
  frames_carry (empty3 (tf_raw f)) (map pk_body ps) /\ tf_raw f' = tf_raw f.
Proof. destruct client; [apply client_close_pay|apply server_close_pay]. Qed.

Theorem hdr_pay (client : bool) f n f' b :
  (if client then flow_client_hdr else flow_server_hdr) f n = Ok (f', b) ->
  carries (PSeg 6, []) b /\ tf_raw f' = tf_raw f.
Proof.
  destruct client; unfold flow_client_hdr, flow_server_hdr; intros E; binv E; ok_inv E;
    (split; [apply seg_hdr_carries|reflexivity]).
Qed.

Theorem lib_body_pay o f1 f2 v : lib_body o f1 = Ok (f2, v) ->
  val_carries (op_pay (tf_raw f1) o) v /\ tf_raw f2 = tf_raw f1.
Proof.
  destruct o as [|d b sa fo sq ak|d raw b sq ak|d n|d sq ak|d n|d|d]; cbn [lib_body op_pay];
    try (generalize (is_cl d); intros c); intros H.
  - binv1 H. ok_inv H. match goal with E : flow_open _ = Ok _ |- _ => destruct (open_pay _ _ _ E) as (A & B) end.
    split; [apply vc_gen, A|exact B].
  - binv1 H. ok_inv H.
    match goal with E : _ = Ok (?f2, ?ps) |- _ => destruct (message_pay c f1 b sa fo f2 ps E) as (A & B) end.
    split; [apply vc_gen, A|exact B].
  - binv1 H. ok_inv H.
    match goal with E : _ = Ok (?f2, ?s) |- _ => destruct (data_segment_pay c f1 b f2 s E) as (A & B) end.
    split; [|exact B]. destruct raw.
    + apply vc_str. eapply seg_tcpseg_carries, A.
    + apply vc_pkt, seg_packet_carries, A.
  - binv1 H. ok_inv H.
    match goal with E : _ = Ok (?f2, ?b) |- _ => destruct (hdr_pay c f1 n f2 b E) as (A & B) end.
    split; [apply vc_str, A|exact B].
  - binv1 H. ok_inv H. split; [|reflexivity].
    match goal with E : _ = Ok ?s |- _ => pose proof (ack_pay c f2 s E) as A end.
    apply vc_pkt, seg_packet_carries, A.
  - ok_inv H. split; [exists []; split; [reflexivity|constructor]|]. destruct c; reflexivity.
  - binv1 H. ok_inv H.
    match goal with E : _ = Ok (?f2, ?ps) |- _ => destruct (close_pay c f1 f2 ps E) as (A & B) end.
    split; [apply vc_gen, A|exact B].
  - binv1 H. ok_inv H. split; [|reflexivity].
    match goal with E : _ = Ok ?p |- _ => pose proof (reset_pay c f2 p E) as A end.
    apply vc_pkt, A.
Qed.

Theorem lib_op_pay f o f' v : lib_op f o = Ok (f', v) ->
  val_carries (op_pay (tf_raw f) o) v /\ tf_raw f' = tf_raw f.
Proof.
  unfold lib_op. destruct (op_over o) as [[[d sq] ak]|]; [|apply lib_body_pay].
  unfold with_override. intros H. binv1 H. ok_inv H.
  match goal with E : lib_body o _ = Ok _ |- _ => destruct (lib_body_pay _ _ _ _ E) as (A & B) end.
  split; [exact A|]. unfold flow_pop_state, flow_push_state, tf_with_seqs in *. cbn [tf_raw fst snd] in *. exact B.
Qed.

(* ------------------------------------------------------------------ through exec *)
(** the payload a call supplies: its collected arguments, each coerced to bytes ([conv_buf]), concatenated *)
Definition extra_payload (extra : list val) : option bytes :=
  match join_extra [] extra with Ok b => Some b | _ => None end.

Theorem extra_payload_concat extra bs :
  Forall2 (fun v b => conv_buf v = Ok b) extra bs -> extra_payload extra = Some (concat bs).
Proof. intros F. unfold extra_payload. rewrite (join_extra_concat _ _ F). reflexivity. Qed.
Theorem extra_payload_only extra b : extra_payload extra = Some b ->
  exists bs, Forall2 (fun v b => conv_buf v = Ok b) extra bs /\ b = concat bs.
Proof.
  unfold extra_payload. destruct (join_extra [] extra) as [b'| | |] eqn:E; try discriminate. intros H. injection H as <-.
  destruct (join_extra_only _ _ _ E) as (bs & F & ->). exists bs. split; [exact F|apply join_nil_concat].
Qed.
Lemma join_extra_payload extra b : join_extra [] extra = Ok b -> extra_payload extra = Some b.
Proof. intros E. unfold extra_payload. rewrite E. reflexivity. Qed.

Lemma exec_tcp_method e ms name key this a x h :
  assoc tcp_class class_table = Some ms -> In (name, key) ms ->
  exec e key this a x h = tcp_method name this a x h.
Proof.
  intros Hms Hin. vm_compute in Hms. apply Some_inj in Hms. subst ms. cbn [In] in Hin.
  repeat (destruct Hin as [Hin|Hin]; [apply pair_equal_spec in Hin; destruct Hin as [<- <-]|]); [..|contradiction Hin];
    lazy [exec assoc functions String.eqb Ascii.eqb Bool.eqb find_method method_tables strip_prefix]; reflexivity.
Qed.

(** the plan of a TcpFlow method call: the operation its name and arguments denote, then [op_pay] *)
Definition tcp_pay_plan (raw : bool) (name : string) (slots extra : list val) : option (list want) :=
  match op_of_call name slots extra with Some (Ok o) => Some (op_pay raw o) | _ => None end.

(** EVERY method of the TcpFlow class *)
Theorem tcp_pay_method e ms name key slots extra h a f v h' :
  assoc tcp_class class_table = Some ms -> In (name, key) ms ->
  nth_error h a = Some (OTcp f) ->
  exec e key (Some a) slots extra h = Some (Ok (v, h')) ->
  exists ws f', tcp_pay_plan (tf_raw f) name slots extra = Some ws /\ val_carries ws v
    /\ h' = set_nth h a (OTcp f') /\ tf_raw f' = tf_raw f.
Proof.
  intros Hms Hin Hn H. rewrite (exec_tcp_method e ms name key _ _ _ _ Hms Hin), tcp_method_is_lib_op in H.
  unfold tcp_pay_plan. destruct (op_of_call name slots extra) as [oo|]; [|discriminate H].
  cbn [option_map] in H. apply Some_inj in H. unfold call_on_heap in H.
  rewrite (take_this_some _ _ _ Hn), obind_ok in H. cbv beta iota in H. binv1 H. ok_inv H.
  match goal with E : obind oo _ = Ok _ |- _ => rename E into E0 end.
  destruct oo as [o| | |]; try discriminate E0. cbn [obind] in E0.
  destruct (lib_op_pay _ _ _ _ E0) as (A & B).
  eexists. eexists. split; [reflexivity|]. split; [exact A|]. split; [reflexivity|exact B].
Qed.

(** the plans, spelled out: for arguments the binder passes (booleans, optional 32-bit overrides, a 16-bit
    offset) and collected arguments that coerce to [bs] *)
Theorem tcp_pay_plans raw sa sq ak fo n extra bs :
  Forall2 (fun v b => conv_buf v = Ok b) extra bs ->
  (exists x, conv_opt conv_u32 sq = Ok x) -> (exists y, conv_opt conv_u32 ak = Ok y) ->
  let b := concat bs in
  tcp_pay_plan raw "open" [] [] = Some (empty3 raw)
  /\ tcp_pay_plan raw "client_close" [] [] = Some (empty3 raw) /\ tcp_pay_plan raw "server_close" [] [] = Some (empty3 raw)
  /\ tcp_pay_plan raw "client_message" [VBool sa; sq; ak; VU16 fo] extra = Some (message_wants raw b sa)
  /\ tcp_pay_plan raw "server_message" [VBool sa; sq; ak; VU16 fo] extra = Some (message_wants raw b sa)
  /\ tcp_pay_plan raw "client_segment" [sq; ak] extra = Some [(PTransport raw, b)]
  /\ tcp_pay_plan raw "server_segment" [sq; ak] extra = Some [(PTransport raw, b)]
  /\ tcp_pay_plan raw "client_raw_segment" [sq; ak] extra = Some [(PSeg 6, b)]
  /\ tcp_pay_plan raw "server_raw_segment" [sq; ak] extra = Some [(PSeg 6, b)]
  /\ tcp_pay_plan raw "client_ack" [sq; ak] [] = Some [(PTransport raw, [])]
  /\ tcp_pay_plan raw "server_ack" [sq; ak] [] = Some [(PTransport raw, [])]
  /\ tcp_pay_plan raw "client_reset" [] [] = Some [(PTransport raw, [])]
  /\ tcp_pay_plan raw "server_reset" [] [] = Some [(PTransport raw, [])]
  /\ tcp_pay_plan raw "client_hdr" [VU32 n] [] = Some [(PSeg 6, [])]
  /\ tcp_pay_plan raw "server_hdr" [VU32 n] [] = Some [(PSeg 6, [])]
  /\ tcp_pay_plan raw "client_hole" [VU32 n] [] = Some [] /\ tcp_pay_plan raw "server_hole" [VU32 n] [] = Some [].
Proof.
  intros F (x & Ex) (y & Ey). cbv zeta. pose proof (join_extra_concat _ _ F) as J.
  unfold tcp_pay_plan, op_of_call. cbn [String.eqb Ascii.eqb Bool.eqb].
  change (conv_u32 (VU32 n)) with (Ok (wrap32 n)). change (conv_u16 (VU16 fo)) with (Ok (wrap16 fo)).
  unfold conv_bool. cbn [obind].
  rewrite Ex, Ey, J. cbn [obind op_pay]. repeat split.
Qed.

(** message-style calls: the payloads of the returned segments, concatenated in order, are the payload supplied *)
Theorem message_wants_data raw b sa : wants_data (message_wants raw b sa) = b.
Proof. unfold wants_data, message_wants. destruct sa; cbn [map snd concat]; rewrite ?app_nil_r; reflexivity. Qed.
