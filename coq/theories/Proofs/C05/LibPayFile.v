(** C05 at the level the interpreter executes, part 7: from the returned values to the pcap file; the walker and
    the strict tunnel oracle of C06 agree; payloads inside tunnels. *)
From RS Require Import Base.Bytes Base.Outcome Pkt.Hdrs Pkt.Packet Pkt.Pcap Interp.Val
  Interp.Eval Spec.Wire Spec.Tunnel Spec.TunnelPeel Spec.Timeline
  Proofs.BytesLemmas Proofs.Tactics Proofs.C01.Program Proofs.C05.LibPay.
From Coq Require Import Arith ZArith Lia ZifyBool ZifyNat ZifyN.
Ltac Zify.zify_post_hook ::= Z.div_mod_to_equations.
Open Scope N_scope.
Open Scope list_scope.

(* ------------------------------------------------------------------ the frames a program writes *)
(** [timeline now vs] (Spec/Timeline.v) is what C01_program_pcap says the output file consists of: one record per
    frame of every packet-valued statement, statement order then generation order *)
Lemma timeline_frames : forall vs now, map snd (timeline now vs) = concat (map frames vs).
Proof.
  induction vs as [|v r IH]; intros now; cbn [timeline map concat]; [reflexivity|].
  rewrite map_app, map_map, IH. cbn [snd]. rewrite map_id. reflexivity.
Qed.

Definition is_pkts (v : val) : Prop := exists ps, conv_pktgen v = Ok ps.

Lemma carried_frames ws v : val_carries ws v -> is_pkts v -> frames_carry ws (frames v).
Proof.
  intros (frs & Ef & C) (ps & Ep). destruct v; try discriminate Ep; cbn [val_frames] in Ef; injection Ef as <-; exact C.
Qed.

(** the values of a program's statements carry their plans => the frames of the file's records, in file order, carry
    the concatenated plans *)
Theorem file_frames_carry : forall plans vs now,
  Forall2 (fun ws v => val_carries ws v /\ is_pkts v) plans vs ->
  frames_carry (concat plans) (map snd (timeline now vs)).
Proof.
  intros plans vs now F. rewrite timeline_frames. induction F as [|ws v pr vr (C & P) _ IH]; cbn [concat map]; [constructor|].
  apply frames_carry_app; [exact (carried_frames ws v C P)|exact IH].
Qed.

(** ... and each record's bytes are its 16-byte header followed by the frame *)
Theorem rec_bytes_frame r : skipn 16 (rec_bytes r) = snd r /\ length (firstn 16 (rec_bytes r)) = 16%nat.
Proof.
  unfold rec_bytes. assert (L : length (pcap_rec_hdr (fst r) (len (snd r))) = 16%nat) by reflexivity.
  split; [apply skipn_exact, L|]. apply firstn_length_le. rewrite app_length, L. lia.
Qed.

(* ------------------------------------------------------------------ the strict tunnel oracle implies the walker *)
(** [peel1] of Spec/TunnelPeel.v (C06) also checks addresses, ports, VNI, protocol type, sequence number and port
    index; whenever it accepts a frame and yields an inner frame, [tunnel_inner] yields the same *)
Theorem peel1_walker s fr x : peel1 s fr = Some x -> tunnel_inner (t_kind s) (t_raw s) fr = Some x.
Proof.
  unfold peel1, strip_outer, tunnel_inner, l3_at.
  destruct (negb (t_raw s) && negb (u16_at fr 12 =? 2048)); [discriminate|].
  set (l3 := if t_raw s then fr else skipn 14 fr).
  destruct (Nat.ltb (length l3) 20); [discriminate|].
  destruct (nth 0 l3 0 =? 69) eqn:E69; cbn [negb]; [|discriminate].
  destruct (negb (ip_src_of l3 =? t_src s) || negb (ip_dst_of l3 =? t_dst s)); [discriminate|].
  apply N.eqb_eq in E69.
  assert (Ep : ip_payload l3 = skipn 20 l3) by (unfold ip_payload, ip_hlen; rewrite E69; reflexivity).
  rewrite Ep. unfold peel_tunnel.
  destruct (t_kind s).
  - destruct (ip_proto_of l3 =? 17); cbn [negb]; [|discriminate].
    destruct (negb (u16_at (skipn 20 l3) 0 =? t_sport s) || negb (u16_at (skipn 20 l3) 2 =? t_dport s)); [discriminate|].
    destruct (vxlan_decode (skipn 8 (skipn 20 l3))) as [[v inner]|]; [|discriminate].
    destruct (v =? t_vni s); [|discriminate]. intros H. exact H.
  - destruct (ip_proto_of l3 =? 47); cbn [negb]; [|discriminate].
    destruct (gre_decode (skipn 20 l3)) as [g|]; [|discriminate].
    destruct (negb (g_proto g =? t_et s)); [discriminate|].
    destruct (negb (opt_N_eqb (g_seq g) (t_seq s))); [discriminate|]. intros H. exact H.
  - destruct (ip_proto_of l3 =? 47); cbn [negb]; [|discriminate].
    destruct (gre_decode (skipn 20 l3)) as [g|]; [|discriminate].
    destruct (negb (g_proto g =? 35006)); [discriminate|].
    destruct (negb (opt_N_eqb (g_seq g) (t_seq s))); [discriminate|]. intros H. exact H.
  - destruct (ip_proto_of l3 =? 47); cbn [negb]; [|discriminate].
    destruct (gre_decode (skipn 20 l3)) as [g|]; [|discriminate].
    destruct (negb (g_proto g =? 35006)); [discriminate|].
    destruct (negb (opt_N_eqb (g_seq g) (t_seq s))); [discriminate|].
    destruct (erspan2_decode (g_payload g)) as [[[ver idx] inner]|]; [|discriminate].
    destruct (negb (ver =? 1)); [discriminate|]. destruct (negb (idx =? t_ix s mod 1048576)); [discriminate|].
    intros H. exact H.
Qed.

(* ------------------------------------------------------------------ payloads inside tunnels, to any depth *)
(** walking through the layers of a nested frame, outermost first *)
Fixpoint through (layers : list (tkind * bool)) (fr : bytes) : option bytes :=
  match layers with
  | [] => Some fr
  | (k, raw) :: r => match tunnel_inner k raw fr with Some x => through r x | None => None end
  end.

Lemma through_app a b fr : through (a ++ b) fr = match through a fr with Some x => through b x | None => None end.
Proof.
  revert fr. induction a as [|[k raw] r IH]; intros fr; cbn [through app]; [reflexivity|].
  destruct (tunnel_inner k raw fr); [apply IH|reflexivity].
Qed.

(** if the outer frame carries the inner frame and the inner frame carries a payload, the payload is found in the
    outer frame behind the tunnel layer -- the inner packet's payload is untouched by encapsulation *)
Theorem nested_carries k raw inner outer w :
  carries (PTunnel k raw, inner) outer -> carries w inner ->
  exists x, through [(k, raw)] outer = Some x /\ payload_at (fst w) x = Some (snd w).
Proof.
  unfold carries. cbn [fst snd payload_at through]. intros -> C. exists inner. split; [reflexivity|exact C].
Qed.

Theorem nested_carries_deep layers : forall k raw inner outer x,
  carries (PTunnel k raw, inner) outer -> through layers inner = Some x ->
  through ((k, raw) :: layers) outer = Some x.
Proof. intros k raw inner outer x C T. unfold carries in C. cbn [fst snd payload_at] in C. cbn [through]. rewrite C. exact T. Qed.

(* ------------------------------------------------------------------ the whole program *)
(** C01_program_pcap composed with the above: the output file of a successful run is the global header followed by
    one record (16-byte header ++ frame) per frame of the values [vs] of its expression statements, in order; if
    every value carries its plan (section 1 says so for every value a payload-carrying call returned), the frames
    of the records carry the concatenated plans *)
Theorem program_file_carries functions classes modules exec ss p' :
  add_stmts functions classes modules exec prog_init ss = ROk tt p' ->
  exists vs, run_vals functions classes modules exec prog_init ss vs p'
    /\ pcap_of p' = pcap_ghdr ++ concat (map rec_bytes (timeline 0 vs))
    /\ forall plans, Forall2 (fun ws v => val_carries ws v /\ is_pkts v) plans vs ->
         frames_carry (concat plans) (map snd (timeline 0 vs)).
Proof.
  intros H. destruct (program_pcap _ _ _ _ _ _ H) as (vs & R & F & _).
  exists vs. split; [exact R|]. split; [exact F|]. intros plans P. apply file_frames_carry, P.
Qed.
