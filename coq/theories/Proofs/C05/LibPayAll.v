(** C05 at the level the interpreter executes, part 5: EVERY payload-carrying library key.
    [pay_keys] is computed from the catalogue (regenerated from the code on every run): every key that returns
    a packet or a packet sequence, except dns::host (its wire content is C16's), plus every method that takes
    collected string arguments and returns a string (the raw segment / raw datagram methods).  [pay_plan] says,
    for a call, which bytes each returned frame must show and where; [lib_pay_all]: they do.  A key added to
    the library later has no case in the proof and breaks it until handled.  [store_keys]: the constructors that
    keep a payload in an object (ipv4::frag, io::bufio). *)
From RS Require Import Base.Bytes Base.Outcome Bind.Types Pkt.Csum Pkt.Hdrs Pkt.Packet Ez.Tcp Ez.Udp Ez.Icmp Ez.Ip4 Ez.Gre
  Interp.Val Interp.Eval Lib.LibBase Lib.StdLib Lib.Ipv4Lib Lib.MiscLib Spec.Wire Spec.Tunnel Spec.TunnelPeel
  Proofs.BytesLemmas Proofs.Tactics Proofs.C08.LibPost Proofs.C03.LibCalls Proofs.C03.LibTcp Proofs.C03.LibUdp Proofs.C03.LibIcmp
  Proofs.C07.Compose Proofs.C07.LibFrag Proofs.C02.LibIp Proofs.C02.LibIpFns Proofs.C02.LibIpAll Proofs.C04.Ops
  Proofs.C05.Coerce Proofs.C05.LibPay Proofs.C05.LibPayTcp Proofs.C05.LibPayFns Proofs.C05.LibPayTun.
From RSGen Require Import Catalogue.
From Coq Require Import Arith ZArith Lia ZifyBool ZifyNat ZifyN.
Ltac Zify.zify_post_hook ::= Z.div_mod_to_equations.
Open Scope N_scope.
Open Scope list_scope.

(* ------------------------------------------------------------------ the keys *)
Definition is_method_key (k : string) : bool :=
  existsb (fun c => existsb (fun nk => String.eqb (snd nk) k) (snd c)) class_table.
Definition carries_payload (f : funcdef) : bool :=
  (returns_packets (fd_ret f) && negb (String.eqb (fd_key f) "dns::host"))
  || (is_method_key (fd_key f) && vtype_eqb (fd_collect f) TStr && vtype_eqb (fd_ret f) TStr).
Definition pay_keys : list string := map fd_key (filter carries_payload catalogue).

Definition stores_payload (f : funcdef) : bool := vtype_eqb (fd_ret f) TObj && vtype_eqb (fd_collect f) TStr.
Definition store_keys : list string := map fd_key (filter stores_payload catalogue).

(* ------------------------------------------------------------------ what a call designates *)
Definition method_pay_plan (o : obj) (name : string) (slots extra : list val) : option (list want) :=
  match o with
  | OTcp f => tcp_pay_plan (tf_raw f) name slots extra
  | OUdp f => udp_pay_plan (uf_raw f) name extra
  | OIcmp f => icmp_pay_plan (if_raw f) slots
  | OFrag f => frag_pay_plan f name slots
  | OVxlan f => tunnel_pay_plan KVxlan (vx_raw f) slots
  | OGre f => tunnel_pay_plan KGre (gl_raw f) slots
  | OErspan1 f => tunnel_pay_plan KErspan1 (e1_raw f) slots
  | OErspan2 f => tunnel_pay_plan KErspan2 (e2_raw f) slots
  | OBufIo _ _ => None
  end.

Definition fn_raw_plan (n : nat) (slots extra : list val) : option (list want) :=
  match raw_arg n slots with Some raw => fn_pay_plan (PTransport raw) extra | None => None end.

Definition pay_plan (key : string) (this : option nat) (slots extra : list val) (h : heap) : option (list want) :=
  match this with
  | Some a =>
    match nth_error h a with
    | Some o => match strip_prefix (obj_class o ++ ".") key with
                | Some name => method_pay_plan o name slots extra
                | None => None
                end
    | None => None
    end
  | None =>
    if String.eqb key "ipv4::udp::unicast" then fn_raw_plan 2 slots extra
    else if String.eqb key "ipv4::udp::broadcast" then fn_raw_plan 3 slots extra
    else if String.eqb key "ipv4::datagram" then fn_pay_plan (PIp false) extra
    else if String.eqb key "eth::frame" then fn_pay_plan PEth extra
    else None
  end.

Definition pay_result (key : string) (this : option nat) (slots extra : list val) (h : heap) (v : val) : Prop :=
  exists ws, pay_plan key this slots extra h = Some ws /\ val_carries ws v.

(** receiver premise: a GRE session has the library's flags (gre::session makes no others) *)
Definition obj_pay_wf (o : obj) : Prop := match o with OGre f => gre_std f | _ => True end.
Definition recv_pay_wf (this : option nat) (h : heap) : Prop :=
  forall a o, this = Some a -> nth_error h a = Some o -> obj_pay_wf o.

Lemma pay_plan_method a o key name slots extra h :
  nth_error h a = Some o -> strip_prefix (obj_class o ++ ".") key = Some name ->
  pay_plan key (Some a) slots extra h = method_pay_plan o name slots extra.
Proof. intros H1 H2. unfold pay_plan. rewrite H1, H2. reflexivity. Qed.

(* ------------------------------------------------------------------ one lemma per class *)
Section Cases.
Variables (e : env) (name key : string) (this : option nat) (slots extra : list val) (h : heap) (v : val) (h' : heap).
Hypothesis Hr : recv_pay_wf this h.
Hypothesis H : exec e key this slots extra h = Some (Ok (v, h')).

Lemma tcp_pcase : class_method tcp_class name key ->
  strip_prefix "ipv4::tcp::TcpFlow." key = Some name -> pay_result key this slots extra h v.
Proof.
  intros Hcm Hsp. destruct (method_recv e (tcp_class) name key this slots extra h v h' ltac:(cbn; tauto) Hcm H) as (a & o & -> & Hn & Hc).
  destruct o; try discriminate Hc. destruct Hcm as (ms & Hms & Hin).
  destruct (tcp_pay_method e ms name key slots extra h a f v h' Hms Hin Hn H) as (ws & f' & P & C & _).
  exists ws. split; [rewrite (pay_plan_method a (OTcp f) key name slots extra h Hn Hsp); exact P|exact C].
Qed.

Lemma udp_pcase : class_method udp_class name key ->
  strip_prefix "ipv4::udp::UdpFlow." key = Some name -> pay_result key this slots extra h v.
Proof.
  intros Hcm Hsp. destruct (method_recv e (udp_class) name key this slots extra h v h' ltac:(cbn; tauto) Hcm H) as (a & o & -> & Hn & Hc).
  destruct o; try discriminate Hc. destruct Hcm as (ms & Hms & Hin).
  destruct (udp_pay_method e ms name key slots extra h a f v h' Hms Hin Hn H) as (_ & ws & P & C).
  exists ws. split; [rewrite (pay_plan_method a (OUdp f) key name slots extra h Hn Hsp); exact P|exact C].
Qed.

Lemma icmp_pcase : class_method icmp_class name key ->
  strip_prefix "ipv4::icmp::Icmp." key = Some name -> pay_result key this slots extra h v.
Proof.
  intros Hcm Hsp. destruct (method_recv e (icmp_class) name key this slots extra h v h' ltac:(cbn; tauto) Hcm H) as (a & o & -> & Hn & Hc).
  destruct o; try discriminate Hc. destruct Hcm as (ms & Hms & Hin).
  destruct (icmp_pay_method e ms name key slots extra h a f v h' Hms Hin Hn H) as (ws & f' & P & C & _).
  exists ws. split; [rewrite (pay_plan_method a (OIcmp f) key name slots extra h Hn Hsp); exact P|exact C].
Qed.

Lemma frag_pcase : class_method frag_class name key ->
  strip_prefix "ipv4::IpFrag." key = Some name -> pay_result key this slots extra h v.
Proof.
  intros Hcm Hsp. destruct (method_recv e (frag_class) name key this slots extra h v h' ltac:(cbn; tauto) Hcm H) as (a & o & -> & Hn & Hc).
  destruct o; try discriminate Hc. destruct Hcm as (ms & Hms & Hin).
  destruct (frag_pay_method e ms name key slots extra h a f v h' Hms Hin Hn H) as (_ & ws & P & C).
  exists ws. split; [rewrite (pay_plan_method a (OFrag f) key name slots extra h Hn Hsp); exact P|exact C].
Qed.

Lemma vxlan_pcase : class_method "vxlan::Vxlan"%string name key ->
  strip_prefix "vxlan::Vxlan." key = Some name -> pay_result key this slots extra h v.
Proof.
  intros Hcm Hsp. destruct (method_recv e ("vxlan::Vxlan"%string) name key this slots extra h v h' ltac:(cbn; tauto) Hcm H) as (a & o & -> & Hn & Hc).
  destruct o; try discriminate Hc. destruct Hcm as (ms & Hms & Hin).
  destruct (vxlan_pay_method e ms name key slots extra h a f v h' Hms Hin Hn H) as (_ & ws & P & C).
  exists ws. split; [rewrite (pay_plan_method a (OVxlan f) key name slots extra h Hn Hsp); exact P|exact C].
Qed.

Lemma gre_pcase : class_method "gre::Gre"%string name key ->
  strip_prefix "gre::Gre." key = Some name -> pay_result key this slots extra h v.
Proof.
  intros Hcm Hsp. destruct (method_recv e ("gre::Gre"%string) name key this slots extra h v h' ltac:(cbn; tauto) Hcm H) as (a & o & -> & Hn & Hc).
  destruct o; try discriminate Hc. pose proof (Hr a _ eq_refl Hn) as W. cbn [obj_pay_wf] in W. destruct Hcm as (ms & Hms & Hin).
  destruct (gre_pay_method e ms name key slots extra h a f v h' Hms Hin Hn W H) as (ws & f' & P & C & _).
  exists ws. split; [rewrite (pay_plan_method a (OGre f) key name slots extra h Hn Hsp); exact P|exact C].
Qed.

Lemma erspan1_pcase : class_method "erspan1::Erspan1"%string name key ->
  strip_prefix "erspan1::Erspan1." key = Some name -> pay_result key this slots extra h v.
Proof.
  intros Hcm Hsp. destruct (method_recv e ("erspan1::Erspan1"%string) name key this slots extra h v h' ltac:(cbn; tauto) Hcm H) as (a & o & -> & Hn & Hc).
  destruct o; try discriminate Hc. destruct Hcm as (ms & Hms & Hin).
  destruct (erspan1_pay_method e ms name key slots extra h a f v h' Hms Hin Hn H) as (_ & ws & P & C).
  exists ws. split; [rewrite (pay_plan_method a (OErspan1 f) key name slots extra h Hn Hsp); exact P|exact C].
Qed.

Lemma erspan2_pcase : class_method "erspan2::Erspan2"%string name key ->
  strip_prefix "erspan2::Erspan2." key = Some name -> pay_result key this slots extra h v.
Proof.
  intros Hcm Hsp. destruct (method_recv e ("erspan2::Erspan2"%string) name key this slots extra h v h' ltac:(cbn; tauto) Hcm H) as (a & o & -> & Hn & Hc).
  destruct o; try discriminate Hc. destruct Hcm as (ms & Hms & Hin).
  destruct (erspan2_pay_method e ms name key slots extra h a f v h' Hms Hin Hn H) as (ws & f' & P & C & _).
  exists ws. split; [rewrite (pay_plan_method a (OErspan2 f) key name slots extra h Hn Hsp); exact P|exact C].
Qed.
End Cases.

Ltac pcm := eexists; split; [vm_compute; reflexivity|cbn [In]; tauto].

Ltac no_this H :=
  match type of H with exec ?e ?key ?this ?slots ?extra ?h = Some (Ok (?v, ?h')) =>
    let Hn := fresh "Hn" in
    assert (Hn : this = None) by (eapply function_no_this; [|exact H]; lazy [assoc functions String.eqb Ascii.eqb Bool.eqb]; reflexivity);
    subst this
  end.

(** EVERY payload-carrying key of the catalogue *)
Theorem lib_pay_all e key this slots extra h v h' :
  In key pay_keys -> recv_pay_wf this h ->
  exec e key this slots extra h = Some (Ok (v, h')) ->
  pay_result key this slots extra h v.
Proof.
  intros Hin Hr H.
  let l := eval vm_compute in pay_keys in change pay_keys with l in Hin.
  cbn [In] in Hin.
  repeat (destruct Hin as [<-|Hin]); [..|contradiction Hin].
  - eapply (frag_pcase e "fragment"); try eassumption; [pcm|reflexivity].
  - eapply (frag_pcase e "tail"); try eassumption; [pcm|reflexivity].
  - eapply (frag_pcase e "datagram"); try eassumption; [pcm|reflexivity].
  - eapply (tcp_pcase e "open"); try eassumption; [pcm|reflexivity].
  - eapply (tcp_pcase e "client_message"); try eassumption; [pcm|reflexivity].
  - eapply (tcp_pcase e "server_message"); try eassumption; [pcm|reflexivity].
  - eapply (tcp_pcase e "client_segment"); try eassumption; [pcm|reflexivity].
  - eapply (tcp_pcase e "server_segment"); try eassumption; [pcm|reflexivity].
  - eapply (tcp_pcase e "client_raw_segment"); try eassumption; [pcm|reflexivity].
  - eapply (tcp_pcase e "server_raw_segment"); try eassumption; [pcm|reflexivity].
  - eapply (tcp_pcase e "client_ack"); try eassumption; [pcm|reflexivity].
  - eapply (tcp_pcase e "server_ack"); try eassumption; [pcm|reflexivity].
  - eapply (tcp_pcase e "client_close"); try eassumption; [pcm|reflexivity].
  - eapply (tcp_pcase e "server_close"); try eassumption; [pcm|reflexivity].
  - eapply (tcp_pcase e "client_reset"); try eassumption; [pcm|reflexivity].
  - eapply (tcp_pcase e "server_reset"); try eassumption; [pcm|reflexivity].
  - eapply (udp_pcase e "client_dgram"); try eassumption; [pcm|reflexivity].
  - eapply (udp_pcase e "server_dgram"); try eassumption; [pcm|reflexivity].
  - eapply (udp_pcase e "client_raw_dgram"); try eassumption; [pcm|reflexivity].
  - eapply (udp_pcase e "server_raw_dgram"); try eassumption; [pcm|reflexivity].
  - no_this H. destruct (broadcast_pay e slots extra h v h' H) as (_ & raw & b & Er & Eb & C).
    exists [(PTransport raw, b)]. split; [|exact C].
    unfold pay_plan. cbn [String.eqb Ascii.eqb Bool.eqb]. unfold fn_raw_plan, fn_pay_plan. rewrite Er, Eb. reflexivity.
  - no_this H. destruct (unicast_pay e slots extra h v h' H) as (_ & raw & b & Er & Eb & C).
    exists [(PTransport raw, b)]. split; [|exact C].
    unfold pay_plan. cbn [String.eqb Ascii.eqb Bool.eqb]. unfold fn_raw_plan, fn_pay_plan. rewrite Er, Eb. reflexivity.
  - eapply (icmp_pcase e "echo"); try eassumption; [pcm|reflexivity].
  - eapply (icmp_pcase e "echo_reply"); try eassumption; [pcm|reflexivity].
  - no_this H. destruct (datagram_pay e slots extra h v h' H) as (_ & b & Eb & C).
    exists [(PIp false, b)]. split; [|exact C].
    unfold pay_plan. cbn [String.eqb Ascii.eqb Bool.eqb]. unfold fn_pay_plan. rewrite Eb. reflexivity.
  - eapply (vxlan_pcase e "dgram"); try eassumption; [pcm|reflexivity].
  - eapply (vxlan_pcase e "encap"); try eassumption; [pcm|reflexivity].
  - eapply (gre_pcase e "encap"); try eassumption; [pcm|reflexivity].
  - no_this H. destruct (eth_frame_pay e slots extra h v h' H) as (_ & b & Eb & C).
    exists [(PEth, b)]. split; [|exact C].
    unfold pay_plan. cbn [String.eqb Ascii.eqb Bool.eqb]. unfold fn_pay_plan. rewrite Eb. reflexivity.
  - eapply (erspan1_pcase e "encap"); try eassumption; [pcm|reflexivity].
  - eapply (erspan2_pcase e "encap"); try eassumption; [pcm|reflexivity].
Qed.

(* ------------------------------------------------------------------ constructors that keep a payload *)
Definition obj_payload (o : obj) : option bytes :=
  match o with OFrag f => Some (fr_payload f) | OBufIo b taken => Some (dropN taken b) | _ => None end.

Theorem lib_pay_stored e key this slots extra h v h' :
  In key store_keys ->
  exec e key this slots extra h = Some (Ok (v, h')) ->
  exists b o, extra_payload extra = Some b /\ v = VObj (length h) /\ h' = h ++ [o] /\ obj_payload o = Some b.
Proof.
  intros Hin H.
  let l := eval vm_compute in store_keys in change store_keys with l in Hin.
  cbn [In] in Hin.
  repeat (destruct Hin as [<-|Hin]); [..|contradiction Hin].
  - no_this H. destruct (bufio_stores e slots extra h v h' H) as (b & Eb & -> & ->).
    exists b. eexists. split; [exact Eb|]. split; [reflexivity|]. split; reflexivity.
  - no_this H. destruct (frag_ctx_stores e slots extra h v h' H) as (b & f & Eb & -> & -> & Ef).
    exists b, (OFrag f). split; [exact Eb|]. split; [reflexivity|]. split; [reflexivity|]. cbn [obj_payload]. rewrite Ef. reflexivity.
Qed.

(** the objects the library's constructors create satisfy the receiver premise *)
Theorem created_pay_wf e key slots extra h v h' :
  In key ctor_keys ->
  exec e key None slots extra h = Some (Ok (v, h')) ->
  forall a o, nth_error h' a = Some o -> (length h <= a)%nat -> obj_pay_wf o.
Proof.
  intros Hk H a o Hn Hle. cbn [In ctor_keys] in Hk.
  assert (G : (key = "gre::session"%string -> exists f, h' = h ++ [OGre f] /\ gre_std f)
              /\ (key <> "gre::session"%string -> exists o', h' = h ++ [o'] /\ match o' with OGre _ => False | _ => True end)).
  { split.
    - intros ->. destruct (gre_session_std e slots extra h v h' H) as (f & _ & -> & S). exists f. split; [reflexivity|exact S].
    - intros Hne.
      destruct Hk as [<-|[<-|[<-|[<-|[<-|[<-|[<-|[<-|[]]]]]]]]]; try (exfalso; apply Hne; reflexivity);
        exec_unfold_in H; apply Some_inj in H; revert H;
        unfold tcp_flow_new, udp_flow_new, icmp_flow_fn, ipv4_frag_fn, vxlan_session_fn, erspan1_session_fn, erspan2_session_fn;
        intros H;
        repeat (destruct slots as [|? slots]; try (exfalso; exact (bad_args_not_ok' _ H)));
        binv H; unfold alloc in H; ok_inv H; eexists; (split; [reflexivity|exact I]). }
  destruct G as (G1 & G2).
  destruct (String.eqb_spec key "gre::session") as [Ek|Ek].
  - destruct (G1 Ek) as (f & -> & S).
    destruct (Nat.eq_dec a (length h)) as [->|Hne].
    + rewrite nth_error_app2, Nat.sub_diag in Hn by lia. cbn in Hn. injection Hn as <-. exact S.
    + assert (a < length (h ++ [OGre f]))%nat by (apply nth_error_Some; congruence).
      rewrite app_length in *. cbn [length] in *. lia.
  - destruct (G2 Ek) as (o' & -> & S).
    destruct (Nat.eq_dec a (length h)) as [->|Hne].
    + rewrite nth_error_app2, Nat.sub_diag in Hn by lia. cbn in Hn. injection Hn as <-. destruct o'; try exact I. contradiction S.
    + assert (a < length (h ++ [o']))%nat by (apply nth_error_Some; congruence).
      rewrite app_length in *. cbn [length] in *. lia.
Qed.
