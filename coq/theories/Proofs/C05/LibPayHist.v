(** C05 at the level the interpreter executes, part 6: histories, the pcap record, sizes.
    Over any sequence of calls ([run_hist]) in which the object at [a] is only touched by methods of its own class
    -- every other call being [foreign] to it -- the frames the k-th call returns carry what the k-th call's OWN
    arguments designate (and the object's framing, which never changes): no byte of an earlier call's payload
    appears in a later packet, nothing is buffered.  One statement for all eight classes, via [hist_generic]. *)
From RS Require Import Base.Bytes Base.Outcome Bind.Types Pkt.Csum Pkt.Hdrs Pkt.Packet Pkt.Pcap Ez.Tcp Ez.Udp Ez.Icmp Ez.Ip4 Ez.Gre
  Interp.Val Interp.Eval Lib.LibBase Lib.StdLib Lib.Ipv4Lib Lib.MiscLib Spec.Wire Spec.Tunnel Spec.TunnelPeel
  Proofs.BytesLemmas Proofs.Tactics Proofs.C08.LibPost Proofs.C03.LibCalls Proofs.C03.LibTcp Proofs.C03.LibUdp Proofs.C03.LibIcmp
  Proofs.C03.LibFrame Proofs.C07.Compose Proofs.C07.LibFrag Proofs.C02.LibIp Proofs.C02.LibIpFns Proofs.C02.LibIpAll Proofs.C02.LibIpHist
  Proofs.C04.Ops Proofs.C01.Program
  Proofs.C05.Coerce Proofs.C05.LibPay Proofs.C05.LibPayTcp Proofs.C05.LibPayFns Proofs.C05.LibPayTun Proofs.C05.LibPayAll.
From RSGen Require Import Catalogue.
From Coq Require Import Arith ZArith Lia ZifyBool ZifyNat ZifyN.
Ltac Zify.zify_post_hook ::= Z.div_mod_to_equations.
Open Scope N_scope.
Open Scope list_scope.

(* ------------------------------------------------------------------ what never changes in an object *)
(** same class, same framing (IpFrag contexts and UdpFlow/Vxlan/Erspan1 objects are never written at all) *)
Definition pay_same (o' o : obj) : Prop :=
  match o', o with
  | OTcp f', OTcp f => tf_raw f' = tf_raw f
  | OUdp f', OUdp f => f' = f
  | OIcmp f', OIcmp f => if_raw f' = if_raw f
  | OFrag f', OFrag f => f' = f
  | OVxlan f', OVxlan f => f' = f
  | OGre f', OGre f => gl_raw f' = gl_raw f /\ gl_flags f' = gl_flags f
  | OErspan1 f', OErspan1 f => f' = f
  | OErspan2 f', OErspan2 f => e2_raw f' = e2_raw f
  | _, _ => False
  end.

Lemma pay_same_refl o : In (obj_class o) ip_classes -> pay_same o o.
Proof. destruct o; cbn; try tauto. intros [E|[E|[E|[E|[E|[E|[E|[E|[]]]]]]]]]; discriminate E. Qed.
Lemma pay_same_trans o1 o2 o3 : pay_same o1 o2 -> pay_same o2 o3 -> pay_same o1 o3.
Proof.
  destruct o1, o2; cbn [pay_same]; try contradiction; destruct o3; cbn [pay_same]; try contradiction; try congruence.
  intros (A & B) (C & D). split; congruence.
Qed.
Lemma pay_same_class o' o : pay_same o' o -> obj_class o' = obj_class o.
Proof. destruct o', o; cbn [pay_same]; try contradiction; reflexivity. Qed.
Lemma pay_same_wf o' o : pay_same o' o -> obj_pay_wf o -> obj_pay_wf o'.
Proof.
  destruct o', o; cbn [pay_same obj_pay_wf]; try contradiction; try tauto.
  intros (_ & F) (s & Hs). exists s. congruence.
Qed.
Lemma pay_same_plan o' o name slots extra : pay_same o' o ->
  method_pay_plan o' name slots extra = method_pay_plan o name slots extra.
Proof.
  destruct o', o; cbn [pay_same method_pay_plan]; try contradiction; try (intros ->; reflexivity).
  intros (-> & _). reflexivity.
Qed.

(* ------------------------------------------------------------------ one call of any method of the eight classes *)
Theorem method_step e cls name key a slots extra h o v h1 :
  In cls ip_classes -> class_method cls name key ->
  nth_error h a = Some o -> obj_class o = cls -> obj_pay_wf o ->
  exec e key (Some a) slots extra h = Some (Ok (v, h1)) ->
  exists o1 ws, nth_error h1 a = Some o1 /\ pay_same o1 o
    /\ method_pay_plan o name slots extra = Some ws /\ val_carries ws v.
Proof.
  intros Hc (ms & Hms & Hin) Hn Ho W H. cbn [In ip_classes] in Hc.
  destruct Hc as [<-|[<-|[<-|[<-|[<-|[<-|[<-|[<-|[]]]]]]]]]; destruct o; try discriminate Ho; cbn [obj_pay_wf] in W.
  - destruct (tcp_pay_method e ms name key slots extra h a f v h1 Hms Hin Hn H) as (ws & f' & P & C & -> & R).
    exists (OTcp f'), ws. split; [eapply nth_error_set_same, Hn|]. split; [exact R|]. split; [exact P|exact C].
  - destruct (udp_pay_method e ms name key slots extra h a f v h1 Hms Hin Hn H) as (-> & ws & P & C).
    exists (OUdp f), ws. split; [exact Hn|]. split; [reflexivity|]. split; [exact P|exact C].
  - destruct (icmp_pay_method e ms name key slots extra h a f v h1 Hms Hin Hn H) as (ws & f' & P & C & -> & R).
    exists (OIcmp f'), ws. split; [eapply nth_error_set_same, Hn|]. split; [exact R|]. split; [exact P|exact C].
  - destruct (frag_pay_method e ms name key slots extra h a f v h1 Hms Hin Hn H) as (-> & ws & P & C).
    exists (OFrag f), ws. split; [exact Hn|]. split; [reflexivity|]. split; [exact P|exact C].
  - destruct (vxlan_pay_method e ms name key slots extra h a f v h1 Hms Hin Hn H) as (-> & ws & P & C).
    exists (OVxlan f), ws. split; [exact Hn|]. split; [reflexivity|]. split; [exact P|exact C].
  - destruct (gre_pay_method e ms name key slots extra h a f v h1 Hms Hin Hn W H) as (ws & f' & P & C & -> & R & F).
    exists (OGre f'), ws. split; [eapply nth_error_set_same, Hn|]. split; [split; assumption|]. split; [exact P|exact C].
  - destruct (erspan1_pay_method e ms name key slots extra h a f v h1 Hms Hin Hn H) as (-> & ws & P & C).
    exists (OErspan1 f), ws. split; [exact Hn|]. split; [reflexivity|]. split; [exact P|exact C].
  - destruct (erspan2_pay_method e ms name key slots extra h a f v h1 Hms Hin Hn H) as (ws & f' & P & C & -> & R).
    exists (OErspan2 f'), ws. split; [eapply nth_error_set_same, Hn|]. split; [exact R|]. split; [exact P|exact C].
Qed.

(* ------------------------------------------------------------------ histories *)
(** call [c] is a method of class [cls] on the object at [a] *)
Definition own_call (a : nat) (cls : string) (c : call) : Prop :=
  c_this c = Some a /\ exists name, class_method cls name (c_key c).

(** what an own call returned: the plan of ITS arguments for the object as it was at the start *)
Definition pay_call_ok (o : obj) (c : call) (v : val) : Prop :=
  forall name, class_method (obj_class o) name (c_key c) ->
  exists ws, method_pay_plan o name (c_slots c) (c_extra c) = Some ws /\ val_carries ws v.

Theorem pay_history e a cs h o vs h' :
  nth_error h a = Some o -> In (obj_class o) ip_classes -> obj_pay_wf o ->
  Forall (fun c => own_call a (obj_class o) c \/ foreign e a c) cs ->
  run_hist e cs h = Some (vs, h') ->
  (exists o', nth_error h' a = Some o' /\ pay_same o' o)
  /\ Forall2 (fun c v => own_call a (obj_class o) c -> pay_call_ok o c v) cs vs.
Proof.
  intros Hn Hc W Hall H.
  destruct (hist_generic e a (fun o1 => pay_same o1 o) (own_call a (obj_class o)) (pay_call_ok o)) with (2 := Hn) (4 := Hall) (5 := H)
    as (Fin & F2).
  - intros c h0 o1 v h1 (Ht & (n0 & Hcm0)) Hn0 S1 Ec. unfold do_call in Ec. rewrite Ht in Ec.
    pose proof (pay_same_class _ _ S1) as Cl. pose proof (pay_same_wf _ _ S1 W) as W1. split.
    + destruct (method_step e (obj_class o) n0 _ a _ _ h0 o1 v h1 Hc Hcm0 Hn0 Cl W1 Ec) as (o2 & ws & Hn2 & S2 & _).
      exists o2. split; [exact Hn2|exact (pay_same_trans _ _ _ S2 S1)].
    + intros name Hcm.
      destruct (method_step e (obj_class o) name _ a _ _ h0 o1 v h1 Hc Hcm Hn0 Cl W1 Ec) as (o2 & ws & _ & _ & P & C).
      exists ws. rewrite <- (pay_same_plan o1 o name _ _ S1). split; [exact P|exact C].
  - apply pay_same_refl, Hc.
  - split; [exact Fin|exact F2].
Qed.

(** the two flow classes, spelled out *)
Corollary tcp_pay_history e a cs h f vs h' :
  nth_error h a = Some (OTcp f) ->
  Forall (fun c => own_call a tcp_class c \/ foreign e a c) cs ->
  run_hist e cs h = Some (vs, h') ->
  (exists f', nth_error h' a = Some (OTcp f') /\ tf_raw f' = tf_raw f)
  /\ Forall2 (fun c v => own_call a tcp_class c ->
       forall name, class_method tcp_class name (c_key c) ->
       exists ws, tcp_pay_plan (tf_raw f) name (c_slots c) (c_extra c) = Some ws /\ val_carries ws v) cs vs.
Proof.
  intros Hn Hall H.
  destruct (pay_history e a cs h (OTcp f) vs h' Hn ltac:(cbn; tauto) I Hall H) as ((o' & Hn' & S) & F2).
  split; [|exact F2]. destruct o'; cbn [pay_same] in S; try contradiction. eexists. split; [exact Hn'|exact S].
Qed.

Corollary udp_pay_history e a cs h f vs h' :
  nth_error h a = Some (OUdp f) ->
  Forall (fun c => own_call a udp_class c \/ foreign e a c) cs ->
  run_hist e cs h = Some (vs, h') ->
  nth_error h' a = Some (OUdp f)
  /\ Forall2 (fun c v => own_call a udp_class c ->
       forall name, class_method udp_class name (c_key c) ->
       exists ws, udp_pay_plan (uf_raw f) name (c_extra c) = Some ws /\ val_carries ws v) cs vs.
Proof.
  intros Hn Hall H.
  destruct (pay_history e a cs h (OUdp f) vs h' Hn ltac:(cbn; tauto) I Hall H) as ((o' & Hn' & S) & F2).
  split; [|exact F2]. destruct o'; cbn [pay_same] in S; try contradiction. subst. exact Hn'.
Qed.

(* ------------------------------------------------------------------ the pcap record *)
(** a frame written by write_packet is in the record byte for byte, behind the 16-byte record header: the walker
    finds the same payload in the record *)
Theorem record_carries t p rec p' w :
  carries w (pk_body p) -> write_packet t p = Ok (rec, p') ->
  length (firstn 16 rec) = 16%nat /\ firstn 16 rec = pcap_rec_hdr t (len (pk_body p))
  /\ skipn 16 rec = pk_body p /\ carries w (skipn 16 rec).
Proof.
  intros C E. destruct (write_packet_exact _ _ _ _ E) as (-> & _ & L).
  assert (S : skipn 16 (pcap_rec_hdr t (len (pk_body p)) ++ pk_body p) = pk_body p) by (apply skipn_exact, L).
  assert (F : firstn 16 (pcap_rec_hdr t (len (pk_body p)) ++ pk_body p) = pcap_rec_hdr t (len (pk_body p))).
  { rewrite <- L at 1. rewrite firstn_app, Nat.sub_diag, firstn_all. cbn [firstn]. apply app_nil_r. }
  split; [rewrite F; exact L|]. split; [exact F|]. split; [exact S|]. rewrite S. exact C.
Qed.

(** ... for every packet of a value a payload-carrying call returned *)
Theorem records_carry ws v ps t :
  val_carries ws v -> conv_pktgen v = Ok ps ->
  Forall2 (fun w p => forall rec p', write_packet t p = Ok (rec, p') -> carries w (skipn 16 rec)) ws ps.
Proof.
  intros (frs & Ef & C) Ep.
  assert (E : frs = map pk_body ps).
  { destruct v; try discriminate Ep; cbn [conv_pktgen] in Ep; apply Ok_inj in Ep; subst ps; cbn [val_frames] in Ef;
      injection Ef as <-; reflexivity. }
  subst frs. clear Ef Ep. revert ws C. induction ps as [|p r IH]; intros ws C; inversion C as [|w fr wr fr' Cw Cr]; subst.
  - constructor.
  - constructor; [|apply IH, Cr]. intros rec p' E. exact (proj2 (proj2 (proj2 (record_carries t p rec p' w Cw E)))).
Qed.

(* ------------------------------------------------------------------ sizes *)
(** the length fields of a datagram made by ipv4::udp::unicast, for EVERY payload length: the IPv4 total length
    reads (28 + |b|) mod 2^16 and the UDP length (8 + |b|) mod 2^16 -- the 16-bit fields wrap (DESIGN 10.3 D22) while
    the frame still carries every payload byte *)
Lemma u16_be16 x r : u16_at (be16 x ++ r) 0 = x mod 65536.
Proof. unfold u16_at, be16. cbn [app nth]. lia. Qed.

Lemma u16_ip_tot iph x : u16_at (ip_ser iph ++ x) 2 = ip_tot_len iph mod 65536.
Proof. unfold u16_at, ip_ser, be16. cbn [app nth]. lia. Qed.
Lemma u16_udp_len uh x : u16_at (udp_ser uh ++ x) 4 = uh_len uh mod 65536.
Proof. unfold u16_at, udp_ser, be16. cbn [app nth]. lia. Qed.

Theorem unicast_lengths e slots extra h v h' :
  exec e "ipv4::udp::unicast" None slots extra h = Some (Ok (v, h')) ->
  exists raw b p, raw_arg 2 slots = Some raw /\ extra_payload extra = Some b /\ v = VPkt p
    /\ carries (PTransport raw, b) (pk_body p)
    /\ len (l3_at raw (pk_body p)) = 28 + len b
    /\ u16_at (l3_at raw (pk_body p)) 2 = (28 + len b) mod 65536
    /\ u16_at (ip_payload (l3_at raw (pk_body p))) 4 = (8 + len b) mod 65536.
Proof.
  intros H. destruct (unicast_pay e slots extra h v h' H) as (_ & raw & b & Er & Eb & C).
  exec_unfold_in H. apply Some_inj in H. unfold udp_unicast_fn in H.
  destruct slots as [|s1 [|s2 [|s3 [|? ?]]]]; try (exfalso; exact (bad_args_not_ok' _ H)).
  binv H. ok_inv H.
  assert (raw = a) by (unfold raw_arg in Er; cbn [nth] in Er; rewrite E in Er; injection Er as <-; reflexivity). subst raw.
  assert (b = a0) by (rewrite (join_extra_payload _ _ E0) in Eb; injection Eb as <-; reflexivity). subst b.
  exists a, a0, (udp_packet a1). split; [exact Er|]. split; [exact Eb|]. split; [reflexivity|].
  destruct C as (frs & Ef & C). cbn [val_frames] in Ef. injection Ef as <-. inversion C as [|? ? ? ? Cw _]; subst.
  split; [exact Cw|]. clear Cw C.
  unfold udp_push in E3. apply Ok_inj in E3. subst a1.
  unfold udp_packet, pkt_of_body, udp_bytes. cbn [pk_body ud_raw].
  set (d0 := udp_dst (udp_src (udp_new a) (n, n0)) (n1, n2)).
  assert (T0 : ip_tot_len (ud_ip d0) = 28) by reflexivity.
  assert (U0 : uh_len (ud_udp d0) = 8) by reflexivity.
  assert (R0 : ud_raw d0 = a) by reflexivity.
  assert (P0 : ud_payload d0 = []) by reflexivity.
  assert (L0 : length (eth_ser (ud_eth d0)) = 14%nat) by reflexivity.
  rewrite R0, P0. cbn [app].
  match goal with |- context [l3_at a (if a then ?x else ?y ++ ?x)] =>
    replace (l3_at a (if a then x else y ++ x)) with x
      by (symmetry; exact (l3_at_framed a y x L0)) end.
  unfold udp_l3_bytes, udp_l4_bytes. cbn [ud_ip ud_udp ud_payload].
  split; [|split].
  - unfold len. rewrite app_length, IpLemmas.length_ip_ser, app_length.
    match goal with |- context [length (udp_ser ?u)] => change (length (udp_ser u)) with 8%nat end. lia.
  - rewrite u16_ip_tot. unfold ip_calc_csum, ip_set_csum, ip_set_tot_len. cbn [Hdrs.ip_tot_len]. rewrite T0. unfold wrap16, len. lia.
  - rewrite ip_payload_ser, u16_udp_len. cbn [uh_len]. rewrite U0. unfold wrap16, len. lia.
Qed.

(* ------------------------------------------------------------------ a concrete history *)
Definition exc_big : bytes := repeat 65 (N.to_nat 65600).
Definition exc_calls : list call := [
  fcall "ipv4::tcp::flow" [VSock4 16909060 1025; VSock4 16909061 80; VU32 4294967290; VU32 2000; VBool false] [];
  mcall "ipv4::tcp::TcpFlow.open" 0 [] [];
  mcall "ipv4::tcp::TcpFlow.client_message" 0 [VBool true; VNil; VNil; VU16 0] [VStr [71; 69; 84]; VU16 258; VIp4 16909060];
  mcall "ipv4::tcp::TcpFlow.server_message" 0 [VBool false; VNil; VNil; VU16 0] [];
  mcall "ipv4::tcp::TcpFlow.client_raw_segment" 0 [VNil; VNil] [VStr [9]];
  fcall "ipv4::udp::flow" [VSock4 167837953 1234; VSock4 167837954 53; VBool true] [];
  mcall "ipv4::udp::UdpFlow.client_dgram" 1 [VU16 0; VBool true] [VStr [1; 2; 3]];
  mcall "ipv4::udp::UdpFlow.server_dgram" 1 [VU16 0; VBool false] [];
  mcall "ipv4::tcp::TcpFlow.server_message" 0 [VBool true; VNil; VNil; VU16 0] [VStr [0; 255]; VStr [13; 10]] ]%string.

(** ipv4::udp::unicast with 65600 bytes: payload carried whole, frame length, the two length fields *)
Definition exc_big_check : bool :=
  match exec ex_env "ipv4::udp::unicast" None [VSock4 167837953 1234; VSock4 167837954 53; VBool false] [VStr exc_big] [] with
  | Some (Ok (VPkt p, _)) =>
    val_carries_b [(PTransport false, exc_big)] (VPkt p) && (len (pk_body p) =? 65642)
    && (u16_at (l3_at false (pk_body p)) 2 =? 92) && (u16_at (ip_payload (l3_at false (pk_body p))) 4 =? 72)
  | _ => false
  end.

Lemma exc_premises : Forall (fun c => own_call 0 tcp_class c \/ foreign ex_env 0 c) (tl exc_calls).
Proof.
  assert (Own : forall name key slots extra, In (name, key) [("open", "ipv4::tcp::TcpFlow.open"); ("client_message", "ipv4::tcp::TcpFlow.client_message");
            ("server_message", "ipv4::tcp::TcpFlow.server_message"); ("client_raw_segment", "ipv4::tcp::TcpFlow.client_raw_segment")]%string ->
          own_call 0 tcp_class (mcall key 0 slots extra)).
  { intros name key slots extra Hin. split; [reflexivity|]. exists name. eexists. split; [vm_compute; reflexivity|].
    cbn [In] in Hin |- *. cbn [c_key mcall]. repeat (destruct Hin as [Hin|Hin]; [injection Hin as <- <-; tauto|]). contradiction Hin. }
  unfold exc_calls. cbn [tl]. repeat apply Forall_cons; try apply Forall_nil.
  - left. eapply Own. cbn; tauto.
  - left. eapply Own. cbn; tauto.
  - left. eapply Own. cbn; tauto.
  - left. eapply Own. cbn; tauto.
  - right. apply family_functions_foreign. cbn; tauto.
  - right. eapply family_methods_foreign with (cls := udp_class); [cbn; tauto| |lia].
    eexists. split; [vm_compute; reflexivity|cbn; tauto].
  - right. eapply family_methods_foreign with (cls := udp_class); [cbn; tauto| |lia].
    eexists. split; [vm_compute; reflexivity|cbn; tauto].
  - left. eapply Own. cbn; tauto.
Qed.

(* ------------------------------------------------------------------ plans, spelled out *)
Lemma udp_pay_plans raw extra bs : Forall2 (fun v b => conv_buf v = Ok b) extra bs ->
  udp_pay_plan raw "client_dgram" extra = Some [(PTransport raw, concat bs)]
  /\ udp_pay_plan raw "server_dgram" extra = Some [(PTransport raw, concat bs)]
  /\ udp_pay_plan raw "client_raw_dgram" extra = Some [(PSeg 17, concat bs)]
  /\ udp_pay_plan raw "server_raw_dgram" extra = Some [(PSeg 17, concat bs)].
Proof. intros F. unfold udp_pay_plan. rewrite (extra_payload_concat _ _ F). repeat split. Qed.

Lemma fn_pay_plans pl extra bs : Forall2 (fun v b => conv_buf v = Ok b) extra bs ->
  fn_pay_plan pl extra = Some [(pl, concat bs)].
Proof. intros F. unfold fn_pay_plan. rewrite (extra_payload_concat _ _ F). reflexivity. Qed.
