(** C05: the bytes handed to a payload-carrying builder are, verbatim and contiguously, the payload of the
    packet it emits.  The layout facts are those of C02/C03/C04/C07/C18; this file restates them in one
    place as "the bytes found at the protocol's payload offset are the bytes supplied". *)
From Coq Require Import ZArith Lia ZifyBool ZifyNat ZifyN.
Ltac Zify.zify_post_hook ::= Z.div_mod_to_equations.
From RS Require Import Base.Bytes Base.Outcome Pkt.Csum Pkt.Hdrs Pkt.Packet Ez.Tcp Ez.Udp Ez.Icmp Ez.Ip4
  Interp.Val Lib.LibBase Lib.Ipv4Lib Lib.MiscLib Lib.ProtoLib Spec.Wire Spec.Reasm4 Spec.TcpAccount
  Proofs.BytesLemmas Proofs.Tactics Proofs.C02.IpLemmas Proofs.C02.TcpIp Proofs.C02.OtherIp Proofs.C02.DgramIp
  Proofs.C03.Transport Proofs.C04.Seq Proofs.C07.Reasm Proofs.C07.FragExact Proofs.C18.Framing Proofs.C05.Coerce.
Open Scope N_scope.

(** where the payload sits, counted from the start of the IPv4 header (RFC 791/768/793/792 with the
    option-less headers resynth writes) *)
Definition ip_data_of (l3 : bytes) : bytes := skipn 20 l3.
Definition udp_data_of (l3 : bytes) : bytes := skipn 8 (ip_data_of l3).
Definition tcp_data_of (l3 : bytes) : bytes := tcp_payload_of (ip_data_of l3).
Definition icmp_data_of (l3 : bytes) : bytes := skipn 8 (ip_data_of l3).
Definition eth_data_of (frame : bytes) : bytes := skipn 14 frame.

Lemma skipn_exact {A} (a b : list A) n : length a = n -> skipn n (a ++ b) = b.
Proof. intros <-. induction a; [reflexivity|cbn; assumption]. Qed.

(* ------------------------------------------------------------------ UDP *)

Lemma udp_packet_layout d : eth_wf (ud_eth d) ->
  udp_data_of (l3_of (ud_raw d) (pk_body (udp_packet d))) = ud_payload d.
Proof.
  intros He. unfold udp_packet, pkt_of_body, udp_bytes. cbn [pk_body].
  rewrite l3_of_framed by (apply eth_wf_length, He).
  unfold udp_data_of, ip_data_of, udp_l3_bytes, udp_l4_bytes.
  rewrite (skipn_exact (ip_ser _)) by apply length_ip_ser.
  apply skipn_exact. reflexivity.
Qed.

(** ipv4::udp::unicast / broadcast and UdpFlow.client_dgram / server_dgram all push the bytes onto an
    addressed datagram *)
Theorem payload_roundtrip_udp raw s t b d :
  sock_wf s -> sock_wf t -> 28 + len b < 65536 ->
  udp_push (udp_dst (udp_src (udp_new raw) s) t) b = Ok d ->
  udp_data_of (l3_of raw (pk_body (udp_packet d))) = b.
Proof.
  intros Hs Ht Hb E. destruct (udp_addressed_push raw s t b d Hs Ht Hb E) as ((_ & _ & He & _) & R & P).
  rewrite <- R, <- P. apply udp_packet_layout, He.
Qed.

(** the optional steps of the dgram methods (fragment offset, checksum, source address override) leave
    the payload where it is *)
Theorem payload_roundtrip_udp_csum d d' : udp_inv d -> udp_csum d = Ok d' ->
  udp_data_of (l3_of (ud_raw d') (pk_body (udp_packet d'))) = ud_payload d.
Proof.
  intros I E. pose proof (udp_csum_inv _ _ I E) as (_ & _ & He & _).
  rewrite udp_packet_layout by exact He.
  unfold udp_csum in E. destruct (cadd _ _ _ _); cbn [obind] in E; try discriminate.
  destruct (cadd _ _ _ _); cbn [obind] in E; try discriminate. ok_inv E. reflexivity.
Qed.
Theorem payload_roundtrip_udp_frag_off d off : udp_inv d ->
  udp_data_of (l3_of (ud_raw d) (pk_body (udp_packet (udp_frag_off d off)))) = ud_payload d.
Proof. intros (_ & _ & He & _). apply (udp_packet_layout (udp_frag_off d off)), He. Qed.
Theorem payload_roundtrip_udp_srcip d a : udp_inv d ->
  udp_data_of (l3_of (ud_raw d) (pk_body (udp_packet (udp_srcip d a)))) = ud_payload d.
Proof. intros (_ & _ & He & _). apply (udp_packet_layout (udp_srcip d a)), He. Qed.

(** the library function, arguments as the binder hands them over *)
Theorem payload_roundtrip_udp_unicast sa sp da dp raw vs bs h r :
  sa < 4294967296 -> sp < 65536 -> da < 4294967296 -> dp < 65536 ->
  Forall2 (fun v b => conv_buf v = Ok b) vs bs -> 28 + len (concat bs) < 65536 ->
  udp_unicast_fn [VSock4 sa sp; VSock4 da dp; VBool raw] vs h = Ok r ->
  exists p, r = (VPkt p, h) /\ udp_data_of (l3_of raw (pk_body p)) = concat bs.
Proof.
  intros Hsa Hsp Hda Hdp F Hfit. unfold udp_unicast_fn, conv_bool, conv_sock. cbn [obind].
  rewrite (join_extra_concat _ _ F). cbn [obind].
  destruct (udp_push _ _) as [d| | |] eqn:E; cbn [obind]; try discriminate.
  intros E'. ok_inv E'. eexists. split; [reflexivity|].
  apply (payload_roundtrip_udp raw (sa, sp) (da, dp)); [split; assumption|split; assumption|exact Hfit|exact E].
Qed.

(* ------------------------------------------------------------------ TCP *)

Lemma seg_layout (client : bool) f b off s :
  (if client then flow_cl_seg f b off else flow_sv_seg f b off) = Ok s ->
  ts_raw s = tf_raw f /\ ts_payload s = b /\ length (eth_ser (ts_eth s)) = 14%nat.
Proof.
  unfold flow_cl_seg, flow_sv_seg, seg_push_bytes, seg_append_data, seg_update_tot_len.
  intros E. destruct client;
    (repeat (destruct (cadd _ _ _ _); cbn [obind] in E; try discriminate);
     ok_inv E; cbn; repeat split; reflexivity).
Qed.

Lemma seg_csum_layout s s' : seg_tcp_csum s = Ok s' -> length (eth_ser (ts_eth s)) = 14%nat ->
  tcp_data_of (l3_of (ts_raw s) (pk_body (seg_packet s'))) = ts_payload s.
Proof.
  unfold seg_tcp_csum. destruct (cadd _ _ _ _); cbn [obind]; try discriminate.
  destruct (cadd _ _ _ _); cbn [obind]; try discriminate.
  intros E He. ok_inv E. unfold seg_packet, pkt_of_body, seg_bytes. cbn [pk_body ts_raw ts_with_tcp ts_eth].
  rewrite l3_of_framed by exact He.
  unfold tcp_data_of, ip_data_of, tcp_payload_of, seg_l3_bytes. cbn [ts_ip ts_tcp ts_payload ts_with_tcp].
  rewrite (skipn_exact (ip_ser _)) by apply length_ip_ser.
  apply skipn_exact. reflexivity.
Qed.

Lemma tx_layout (client : bool) f s f' p :
  (if client then flow_cl_tx f s else flow_sv_tx f s) = Ok (f', p) -> length (eth_ser (ts_eth s)) = 14%nat ->
  tcp_data_of (l3_of (ts_raw s) (pk_body p)) = ts_payload s.
Proof.
  unfold flow_cl_tx, flow_sv_tx. intros E He.
  destruct client;
    (destruct (seg_seq_consumed s); cbn [obind] in E; try discriminate;
     destruct (seg_tcp_csum s) as [s'| | |] eqn:Ec; cbn [obind] in E; try discriminate;
     ok_inv E; apply seg_csum_layout; assumption).
Qed.

(** TcpFlow.client_message / server_message: the first packet is the data segment and carries exactly
    the bytes supplied, after a 20-byte IPv4 and a 20-byte TCP header *)
Theorem payload_roundtrip_tcp_message (client : bool) f b sa off f' ps :
  (if client then flow_client_message f b sa off else flow_server_message f b sa off) = Ok (f', ps) ->
  exists p rest, ps = p :: rest /\ tcp_data_of (l3_of (tf_raw f) (pk_body p)) = b
    /\ (if sa then exists q, rest = [q] else rest = []).
Proof.
  unfold flow_client_message, flow_server_message. destruct client.
  - destruct (flow_cl_seg f b off) as [s| | |] eqn:Es; cbn [obind]; try discriminate.
    destruct (seg_layout true f b off s Es) as (R & P & He).
    destruct (flow_cl_tx f s) as [[f1 p1]| | |] eqn:E1; cbn [obind]; try discriminate.
    pose proof (tx_layout true f s f1 p1 E1 He) as L. rewrite R, P in L.
    destruct sa.
    + destruct (flow_sv_tx _ _) as [[f2 p2]| | |]; cbn [obind]; try discriminate.
      intros E. ok_inv E. exists p1, [p2]. repeat split; [exact L|exists p2; reflexivity].
    + intros E. ok_inv E. exists p1, []. repeat split. exact L.
  - destruct (flow_sv_seg f b off) as [s| | |] eqn:Es; cbn [obind]; try discriminate.
    destruct (seg_layout false f b off s Es) as (R & P & He).
    destruct (flow_sv_tx f s) as [[f1 p1]| | |] eqn:E1; cbn [obind]; try discriminate.
    pose proof (tx_layout false f s f1 p1 E1 He) as L. rewrite R, P in L.
    destruct sa.
    + destruct (flow_cl_tx _ _) as [[f2 p2]| | |]; cbn [obind]; try discriminate.
      intros E. ok_inv E. exists p1, [p2]. repeat split; [exact L|exists p2; reflexivity].
    + intros E. ok_inv E. exists p1, []. repeat split. exact L.
Qed.

(** TcpFlow.client_segment / server_segment *)
Theorem payload_roundtrip_tcp_segment (client : bool) f b f' s :
  (if client then flow_client_data_segment f b else flow_server_data_segment f b) = Ok (f', s) ->
  tcp_data_of (l3_of (tf_raw f) (pk_body (seg_packet s))) = b /\ tcp_payload_of (seg_tcpseg s) = b.
Proof.
  unfold flow_client_data_segment, flow_server_data_segment. intros E.
  destruct client;
    [destruct (flow_cl_seg f b 0) as [s0| | |] eqn:Es; cbn [obind] in E; try discriminate;
     destruct (seg_layout true f b 0 s0 Es) as (R & P & He)
    |destruct (flow_sv_seg f b 0) as [s0| | |] eqn:Es; cbn [obind] in E; try discriminate;
     destruct (seg_layout false f b 0 s0 Es) as (R & P & He)];
    (destruct (seg_seq_consumed s0); cbn [obind] in E; try discriminate;
     destruct (seg_tcp_csum s0) as [s1| | |] eqn:Ec; cbn [obind] in E; try discriminate;
     subst b; ok_inv E; split;
     [rewrite <- R; apply seg_csum_layout; assumption|];
     unfold seg_tcp_csum in Ec; destruct (cadd _ _ _ _); cbn [obind] in Ec; try discriminate;
     destruct (cadd _ _ _ _); cbn [obind] in Ec; try discriminate; ok_inv Ec;
     unfold seg_tcpseg, tcp_payload_of; cbn [ts_tcp ts_payload ts_with_tcp];
     apply skipn_exact; reflexivity).
Qed.

(* ------------------------------------------------------------------ ICMP echo *)

Theorem payload_roundtrip_icmp src dst raw typ id seq b p :
  icmp_dgram src dst raw typ id seq b = Ok p -> icmp_data_of (l3_of raw (pk_body p)) = b.
Proof.
  intros E. destruct (icmp_dgram_layout _ _ _ _ _ _ _ _ E) as (iph & c & L & _). rewrite L.
  unfold icmp_data_of, ip_data_of. rewrite (skipn_exact (ip_ser _)) by apply length_ip_ser.
  apply skipn_exact. reflexivity.
Qed.

Theorem payload_roundtrip_icmp_echo f b f' p : icmp_echo f b = Ok (f', p) -> icmp_data_of (l3_of (if_raw f) (pk_body p)) = b.
Proof.
  unfold icmp_echo. destruct (icmp_dgram _ _ _ _ _ _ _) as [q| | |] eqn:E; cbn [obind]; try discriminate.
  repeat (destruct (cadd _ _ _ _); cbn [obind]; try discriminate). intros E'. ok_inv E'.
  eapply payload_roundtrip_icmp, E.
Qed.
Theorem payload_roundtrip_icmp_echo_reply f b f' p : icmp_echo_reply f b = Ok (f', p) -> icmp_data_of (l3_of (if_raw f) (pk_body p)) = b.
Proof.
  unfold icmp_echo_reply. destruct (icmp_dgram _ _ _ _ _ _ _) as [q| | |] eqn:E; cbn [obind]; try discriminate.
  repeat (destruct (cadd _ _ _ _); cbn [obind]; try discriminate). intros E'. ok_inv E'.
  eapply payload_roundtrip_icmp, E.
Qed.

(* ------------------------------------------------------------------ ipv4::datagram, fragments, eth::frame *)

Theorem payload_roundtrip_datagram s d i ev dfb mfb t fo pr vs bs h r :
  Forall2 (fun v b => conv_buf v = Ok b) vs bs ->
  ipv4_datagram_fn [VIp4 s; VIp4 d; VU16 i; VBool ev; VBool dfb; VBool mfb; VU8 t; VU16 fo; VU8 pr] vs h = Ok r ->
  exists p, r = (VPkt p, h) /\ ip_data_of (l3_of false (pk_body p)) = concat bs.
Proof.
  intros F. unfold ipv4_datagram_fn, conv_ip4, conv_u16, conv_u8, conv_bool, conv_int, omap. cbn [obind].
  rewrite (join_extra_concat _ _ F). cbn [obind].
  repeat (destruct (cadd _ _ _ _); cbn [obind]; try discriminate).
  intros E. ok_inv E. eexists. split; [reflexivity|].
  unfold pkt_of_body, l3_of, ip_data_of. cbn [pk_body].
  rewrite (skipn_exact (eth_ser _)) by reflexivity.
  apply skipn_exact, length_ip_ser.
Qed.

(** a fragment carries exactly its slice of the context's payload, the whole-datagram form all of it *)
Theorem payload_roundtrip_fragment f off l raw p :
  ctx_ok (fr_hdr f) -> off < 8192 -> off * 8 <= len (fr_payload f) -> 20 + len (fr_payload f) < 65536 ->
  frag_fragment f off l raw = Ok p ->
  ip_data_of (l3_of raw (pk_body p))
  = takeN (N.min (off * 8 + l * 8) (len (fr_payload f)) - off * 8) (dropN (off * 8) (fr_payload f)).
Proof.
  intros Hc Ho Hin Hfit E.
  destruct (fragment_exact f off l raw p Hc Ho Hin Hfit E) as (_ & _ & D & _). exact D.
Qed.
Theorem payload_roundtrip_frag_datagram f raw p :
  ctx_ok (fr_hdr f) -> 20 + len (fr_payload f) < 65536 -> frag_datagram f raw = Ok p ->
  ip_data_of (l3_of raw (pk_body p)) = fr_payload f.
Proof.
  intros Hc Hfit E. pose proof (datagram_whole f raw p Hc Hfit E) as D. cbn zeta in D.
  change (ip_data_of (l3_of raw (pk_body p))) with (fg_data (fragment_of (l3_of raw (pk_body p)))).
  rewrite D. reflexivity.
Qed.
(** the context is created from the concatenation of its arguments *)
Theorem payload_roundtrip_frag_ctx s d i ev dfb t pr vs bs h r :
  Forall2 (fun v b => conv_buf v = Ok b) vs bs ->
  ipv4_frag_fn [VIp4 s; VIp4 d; VU16 i; VBool ev; VBool dfb; VU8 t; VU8 pr] vs h = Ok r ->
  exists hdr, r = (VObj (length h), h ++ [OFrag {| fr_hdr := hdr; fr_payload := concat bs |}]).
Proof.
  intros F. unfold ipv4_frag_fn, conv_ip4, conv_u16, conv_u8, conv_bool, conv_int, omap. cbn [obind].
  rewrite (join_extra_concat _ _ F). cbn [obind]. intros E. ok_inv E. eexists. reflexivity.
Qed.

Theorem payload_roundtrip_eth_frame s d et vs bs h r :
  len s = 6 -> len d = 6 -> Forall2 (fun v b => conv_buf v = Ok b) vs bs ->
  eth_frame_fn [VStr s; VStr d; VU16 et] vs h = Ok r ->
  exists p, r = (VPkt p, h) /\ eth_data_of (pk_body p) = concat bs.
Proof.
  intros Hs Hd F. unfold eth_frame_fn, conv_buf, conv_u16, conv_int, omap. cbn [obind].
  rewrite (join_extra_concat _ _ F). cbn [obind]. rewrite Hs, Hd. change (6 =? 6) with true. cbn [negb].
  intros E. ok_inv E. eexists. split; [reflexivity|].
  unfold pkt_of_body, eth_data_of. cbn [pk_body]. apply skipn_exact.
  unfold eth_ser, eth_new. cbn [eth_dst eth_src eth_proto]. rewrite !app_length.
  unfold len in Hs, Hd. change (length (be16 (wrap16 et))) with 2%nat. lia.
Qed.

(** a TLS record (tls::message): the five-byte record header, then the bytes *)
Theorem payload_roundtrip_tls_record ver content vs bs h r :
  Forall2 (fun v b => conv_buf v = Ok b) vs bs ->
  tls_message_fn [VU16 ver; VU8 content] vs h = Ok r ->
  exists rec, r = (VStr rec, h) /\ skipn 5 rec = concat bs.
Proof.
  intros F. unfold tls_message_fn, conv_u16, conv_u8, conv_int, omap. cbn [obind].
  rewrite (join_extra_concat _ _ F). cbn [obind]. intros E. ok_inv E. eexists. split; reflexivity.
Qed.
