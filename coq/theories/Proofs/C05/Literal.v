(** C05 / C17: the string-literal decoder (impl FromStr for Buf, Lex/Literals.v [decode_strlit])
    against the structured description of a literal in Spec/Literal.v. *)
From Coq Require Import ZArith Lia ZifyBool ZifyNat ZifyN.
Ltac Zify.zify_post_hook ::= Z.div_mod_to_equations.
From RS Require Import Base.Bytes Base.Outcome Base.Utf8 Lex.Literals Spec.Literal Proofs.C10.Utf8Facts.
Open Scope N_scope.

(* ------------------------------------------------------------------ UTF-8: decode inverts encode *)

Lemma encode_length cp : (1 <= length (utf8_encode cp) <= 4)%nat.
Proof. unfold utf8_encode. destruct (cp <? 128), (cp <? 2048), (cp <? 65536); cbn [length]; lia. Qed.

Lemma encode_nonempty cp : utf8_encode cp <> [].
Proof. pose proof (encode_length cp). destruct (utf8_encode cp); [cbn in *; lia|discriminate]. Qed.

Lemma decode_encode cp rest : is_scalar cp = true ->
  utf8_decode (utf8_encode cp ++ rest) = Some (cp, length (utf8_encode cp)).
Proof.
  unfold is_scalar, utf8_encode. intros S.
  destruct (cp <? 128) eqn:E1.
  { cbn [app length]. unfold utf8_decode. rewrite E1. reflexivity. }
  destruct (cp <? 2048) eqn:E2.
  { cbn [app length]. unfold utf8_decode, is_cont.
    replace (192 + cp / 64 <? 128) with false by lia.
    replace (192 + cp / 64 <? 194) with false by lia.
    replace (192 + cp / 64 <? 224) with true by lia.
    replace ((128 <=? 128 + cp mod 64) && (128 + cp mod 64 <? 192)) with true by lia.
    f_equal. f_equal. lia. }
  destruct (cp <? 65536) eqn:E3.
  { cbn [app length]. unfold utf8_decode, is_cont.
    replace (224 + cp / 4096 <? 128) with false by lia.
    replace (224 + cp / 4096 <? 194) with false by lia.
    replace (224 + cp / 4096 <? 224) with false by lia.
    replace (224 + cp / 4096 <? 240) with true by lia.
    replace ((128 <=? 128 + cp / 64 mod 64) && (128 + cp / 64 mod 64 <? 192)) with true by lia.
    replace ((128 <=? 128 + cp mod 64) && (128 + cp mod 64 <? 192)) with true by lia.
    cbn [andb].
    replace (((224 + cp / 4096 - 224) * 64 + (128 + cp / 64 mod 64 - 128)) * 64 + (128 + cp mod 64 - 128)) with cp by lia.
    replace ((cp <? 2048) || (55296 <=? cp) && (cp <? 57344)) with false by lia.
    reflexivity. }
  cbn [app length]. unfold utf8_decode, is_cont.
  replace (240 + cp / 262144 <? 128) with false by lia.
  replace (240 + cp / 262144 <? 194) with false by lia.
  replace (240 + cp / 262144 <? 224) with false by lia.
  replace (240 + cp / 262144 <? 240) with false by lia.
  replace (240 + cp / 262144 <? 245) with true by lia.
  replace ((128 <=? 128 + cp / 4096 mod 64) && (128 + cp / 4096 mod 64 <? 192)) with true by lia.
  replace ((128 <=? 128 + cp / 64 mod 64) && (128 + cp / 64 mod 64 <? 192)) with true by lia.
  replace ((128 <=? 128 + cp mod 64) && (128 + cp mod 64 <? 192)) with true by lia.
  cbn [andb].
  replace ((((240 + cp / 262144 - 240) * 64 + (128 + cp / 4096 mod 64 - 128)) * 64 + (128 + cp / 64 mod 64 - 128)) * 64
           + (128 + cp mod 64 - 128)) with cp by lia.
  replace ((cp <? 65536) || (1114111 <? cp)) with false by lia.
  reflexivity.
Qed.

(* ------------------------------------------------------------------ the decoder without its fuel *)

Lemma decode_fuel_irrel f1 : forall f2 l hex hi acc,
  (length l <= f1)%nat -> (length l <= f2)%nat ->
  decode_strlit_fuel f1 l hex hi acc = decode_strlit_fuel f2 l hex hi acc.
Proof.
  induction f1 as [|f1 IH]; intros f2 l hex hi acc H1 H2.
  - destruct l; [destruct f2; reflexivity|cbn in H1; lia].
  - destruct f2 as [|f2]; [destruct l; [reflexivity|cbn in H2; lia]|].
    destruct l as [|b r]; [reflexivity|].
    cbn [decode_strlit_fuel].
    destruct (utf8_decode (b :: r)) as [[cp n]|] eqn:D; [|reflexivity].
    pose proof (decode_len _ _ _ D) as Hn.
    assert (Hs1 : (length (skipn n (b :: r)) <= f1)%nat) by (rewrite skipn_length; cbn [length] in *; lia).
    assert (Hs2 : (length (skipn n (b :: r)) <= f2)%nat) by (rewrite skipn_length; cbn [length] in *; lia).
    destruct (negb hex).
    + destruct (cp =? 124); apply IH; assumption.
    + destruct (is_whitespace cp); [apply IH; assumption|].
      destruct (is_hex_separator cp); [apply IH; assumption|].
      destruct (cp =? 124); [destruct hi; [reflexivity|apply IH; assumption]|].
      destruct (if cp <? 128 then hex_value cp else None); [|reflexivity].
      destruct hi; apply IH; assumption.
Qed.

Definition dec (l : bytes) (hex : bool) (hi : option N) (acc : bytes) : option bytes :=
  decode_strlit_fuel (length l) l hex hi acc.

Lemma decode_strlit_dec l : decode_strlit l = dec l false None [].
Proof. reflexivity. Qed.

Lemma dec_nil hex hi acc : dec [] hex hi acc = Some (rev acc).
Proof. reflexivity. Qed.

Lemma skipn_app_exact {A} (a b : list A) : skipn (length a) (a ++ b) = b.
Proof. induction a; [reflexivity|cbn; assumption]. Qed.
Lemma firstn_app_exact {A} (a b : list A) : firstn (length a) (a ++ b) = a.
Proof. induction a; [reflexivity|cbn; f_equal; assumption]. Qed.

(** one character *)
Lemma dec_unfold c rest cp hex hi acc :
  c <> [] -> utf8_decode (c ++ rest) = Some (cp, length c) ->
  dec (c ++ rest) hex hi acc =
    if negb hex then
      if cp =? 124 then dec rest true None acc else dec rest false None (rev c ++ acc)
    else if is_whitespace cp then dec rest true hi acc
    else if is_hex_separator cp then dec rest true hi acc
    else if cp =? 124 then match hi with Some _ => None | None => dec rest false None acc end
    else match (if cp <? 128 then hex_value cp else None) with
         | None => None
         | Some d => match hi with
                     | None => dec rest true (Some d) acc
                     | Some h => dec rest true None ((h * 16 + d) :: acc)
                     end
         end.
Proof.
  intros Hc D. unfold dec.
  destruct c as [|b c']; [congruence|].
  assert (L : length ((b :: c') ++ rest) = S (length (c' ++ rest))) by reflexivity.
  rewrite L.
  assert (Hle : (length rest <= length (c' ++ rest))%nat) by (rewrite app_length; lia).
  assert (SK : skipn (length (b :: c')) ((b :: c') ++ rest) = rest) by apply skipn_app_exact.
  assert (FI : firstn (length (b :: c')) ((b :: c') ++ rest) = b :: c') by apply firstn_app_exact.
  remember (length (b :: c')) as n eqn:Hn.
  remember (length (c' ++ rest)) as fuel eqn:Hf.
  change ((b :: c') ++ rest) with (b :: (c' ++ rest)) in *.
  cbn [decode_strlit_fuel]. rewrite D. rewrite SK, FI.
  assert (IR : forall h hi' acc', decode_strlit_fuel fuel rest h hi' acc' = decode_strlit_fuel (length rest) rest h hi' acc')
    by (intros; apply decode_fuel_irrel; lia).
  destruct (negb hex); [destruct (cp =? 124); apply IR|].
  destruct (is_whitespace cp); [apply IR|]. destruct (is_hex_separator cp); [apply IR|].
  destruct (cp =? 124); [destruct hi; [reflexivity|apply IR]|].
  destruct (if cp <? 128 then hex_value cp else None); [|reflexivity]. destruct hi; apply IR.
Qed.

(* ------------------------------------------------------------------ the model's character classes
   against the specification's lists *)

Lemma whitespace_is_list cp : is_whitespace cp = mem cp white_space.
Proof.
  unfold is_whitespace, mem, white_space. cbn [existsb].
  destruct (mem cp white_space) eqn:M; unfold mem, white_space in M; cbn [existsb] in M; lia.
Qed.

Lemma separator_is_list cp : is_hex_separator cp = mem cp separators.
Proof. unfold is_hex_separator, mem, separators. cbn [existsb]. lia. Qed.

Lemma filler_classes cp : is_filler cp = is_whitespace cp || is_hex_separator cp.
Proof. unfold is_filler. rewrite whitespace_is_list, separator_is_list. apply orb_comm. Qed.

Lemma filler_scalar cp : is_filler cp = true -> is_scalar cp = true /\ (cp =? 124) = false.
Proof.
  unfold is_filler, mem, separators, white_space, is_scalar. cbn [existsb]. lia.
Qed.

Lemma hex_digit_facts u v : v < 16 ->
  let c := hex_digit u v in
  c < 128 /\ hex_value c = Some v /\ is_whitespace c = false /\ is_hex_separator c = false /\ (c =? 124) = false.
Proof.
  intros Hv.
  assert (C : v = 0 \/ v = 1 \/ v = 2 \/ v = 3 \/ v = 4 \/ v = 5 \/ v = 6 \/ v = 7 \/ v = 8 \/ v = 9
              \/ v = 10 \/ v = 11 \/ v = 12 \/ v = 13 \/ v = 14 \/ v = 15) by lia.
  destruct u; repeat (destruct C as [->|C]; [vm_compute; repeat split; try reflexivity|]);
    subst v; vm_compute; repeat split; reflexivity.
Qed.

(* ------------------------------------------------------------------ steps over spelled pieces *)

Lemma dec_text_char cp rest acc : text_char_ok cp = true ->
  dec (utf8_encode cp ++ rest) false None acc = dec rest false None (rev (utf8_encode cp) ++ acc).
Proof.
  unfold text_char_ok. intros H. apply andb_prop in H as (S & B).
  rewrite (dec_unfold _ _ cp) by (try apply encode_nonempty; apply decode_encode, S).
  cbn [negb]. unfold BAR in B. destruct (cp =? 124); [discriminate|reflexivity].
Qed.

Lemma dec_text cps : forall rest acc, forallb text_char_ok cps = true ->
  dec (utf8_of cps ++ rest) false None acc = dec rest false None (rev (utf8_of cps) ++ acc).
Proof.
  unfold utf8_of. induction cps as [|cp r IH]; intros rest acc H; [reflexivity|].
  cbn [forallb] in H. apply andb_prop in H as (H1 & H2).
  cbn [map concat]. rewrite <- app_assoc, dec_text_char by assumption.
  rewrite IH by assumption. rewrite rev_app_distr, <- app_assoc. reflexivity.
Qed.

Lemma dec_bar_open rest hi acc : dec (124 :: rest) false hi acc = dec rest true None acc.
Proof.
  change (124 :: rest) with ([124] ++ rest).
  rewrite (dec_unfold _ _ 124) by (try discriminate; reflexivity). reflexivity.
Qed.

Lemma dec_bar_close rest acc : dec (124 :: rest) true None acc = dec rest false None acc.
Proof.
  change (124 :: rest) with ([124] ++ rest).
  rewrite (dec_unfold _ _ 124) by (try discriminate; reflexivity). reflexivity.
Qed.

Lemma dec_bar_odd rest h acc : dec (124 :: rest) true (Some h) acc = None.
Proof.
  change (124 :: rest) with ([124] ++ rest).
  rewrite (dec_unfold _ _ 124) by (try discriminate; reflexivity). reflexivity.
Qed.

Lemma dec_filler cp rest hi acc : is_filler cp = true ->
  dec (utf8_encode cp ++ rest) true hi acc = dec rest true hi acc.
Proof.
  intros F. destruct (filler_scalar _ F) as (S & _).
  rewrite (dec_unfold _ _ cp) by (try apply encode_nonempty; apply decode_encode, S).
  cbn [negb]. rewrite filler_classes in F.
  destruct (is_whitespace cp); [reflexivity|]. cbn [orb] in F. rewrite F. reflexivity.
Qed.

Lemma dec_fillers f : forall rest hi acc, forallb is_filler f = true ->
  dec (utf8_of f ++ rest) true hi acc = dec rest true hi acc.
Proof.
  unfold utf8_of. induction f as [|cp r IH]; intros rest hi acc H; [reflexivity|].
  cbn [forallb] in H. apply andb_prop in H as (H1 & H2).
  cbn [map concat]. rewrite <- app_assoc, dec_filler by assumption. apply IH, H2.
Qed.

Lemma dec_digit_hi u v rest acc : v < 16 ->
  dec (hex_digit u v :: rest) true None acc = dec rest true (Some v) acc.
Proof.
  intros Hv. destruct (hex_digit_facts u v Hv) as (A & H & W & S & B).
  change (hex_digit u v :: rest) with ([hex_digit u v] ++ rest).
  rewrite (dec_unfold _ _ (hex_digit u v)) by (try discriminate; apply decode_ascii, A).
  cbn [negb]. rewrite W, S, B. replace (hex_digit u v <? 128) with true by lia. rewrite H. reflexivity.
Qed.

Lemma dec_digit_lo u v h rest acc : v < 16 ->
  dec (hex_digit u v :: rest) true (Some h) acc = dec rest true None ((h * 16 + v) :: acc).
Proof.
  intros Hv. destruct (hex_digit_facts u v Hv) as (A & H & W & S & B).
  change (hex_digit u v :: rest) with ([hex_digit u v] ++ rest).
  rewrite (dec_unfold _ _ (hex_digit u v)) by (try discriminate; apply decode_ascii, A).
  cbn [negb]. rewrite W, S, B. replace (hex_digit u v <? 128) with true by lia. rewrite H. reflexivity.
Qed.

Lemma dec_hexbyte h rest acc : hexbyte_ok h = true ->
  dec (spell_hexbyte h ++ rest) true None acc = dec rest true None (hb_val h :: acc).
Proof.
  unfold hexbyte_ok, spell_hexbyte. intros H.
  apply andb_prop in H as (H & V). apply andb_prop in H as (P & M).
  rewrite <- !app_assoc. rewrite dec_fillers by assumption.
  cbn [app]. rewrite dec_digit_hi by lia.
  rewrite dec_fillers by assumption.
  cbn [app]. rewrite dec_digit_lo by lia.
  f_equal. f_equal. lia.
Qed.

Lemma dec_hexbytes items : forall rest acc, forallb hexbyte_ok items = true ->
  dec (concat (map spell_hexbyte items) ++ rest) true None acc = dec rest true None (rev (map hb_val items) ++ acc).
Proof.
  induction items as [|h r IH]; intros rest acc H; [reflexivity|].
  cbn [forallb] in H. apply andb_prop in H as (H1 & H2).
  cbn [map concat]. rewrite <- app_assoc, dec_hexbyte by assumption.
  rewrite IH by assumption. cbn [rev]. rewrite <- app_assoc. reflexivity.
Qed.

Lemma dec_seg s rest acc : seg_ok s = true ->
  dec (spell_seg s ++ rest) false None acc = dec rest false None (rev (denote_seg s) ++ acc).
Proof.
  destruct s as [cps|items trail]; cbn [seg_ok spell_seg denote_seg]; intros H.
  - apply dec_text, H.
  - apply andb_prop in H as (H1 & H2). unfold BAR.
    rewrite <- !app_assoc. cbn [app]. rewrite dec_bar_open.
    rewrite dec_hexbytes by assumption.
    rewrite dec_fillers by assumption.
    apply dec_bar_close.
Qed.

Lemma dec_segs segs : forall rest acc, forallb seg_ok segs = true ->
  dec (spell segs ++ rest) false None acc = dec rest false None (rev (denote segs) ++ acc).
Proof.
  unfold spell, denote. induction segs as [|s r IH]; intros rest acc H; [reflexivity|].
  cbn [forallb] in H. apply andb_prop in H as (H1 & H2).
  cbn [map concat]. rewrite <- app_assoc, dec_seg by assumption.
  rewrite IH by assumption. rewrite rev_app_distr, <- app_assoc. reflexivity.
Qed.

(* ------------------------------------------------------------------ the theorems *)

(** every spelling of a literal decodes to the bytes it denotes *)
Theorem literal_denotes segs : forallb seg_ok segs = true -> decode_strlit (spell segs) = Some (denote segs).
Proof.
  intros H. rewrite decode_strlit_dec.
  rewrite <- (app_nil_r (spell segs)), dec_segs by assumption.
  rewrite dec_nil, app_nil_r, rev_involutive. reflexivity.
Qed.

Lemma spell_app a b : spell (a ++ b) = spell a ++ spell b.
Proof. unfold spell. rewrite map_app, concat_app. reflexivity. Qed.
Lemma denote_app a b : denote (a ++ b) = denote a ++ denote b.
Proof. unfold denote. rewrite map_app, concat_app. reflexivity. Qed.

(** adjacent literals (the lexer hands the decoder the concatenation of their bodies, Proofs/C10/Merge.v)
    contribute their bytes in order, wherever the split falls between segments *)
Theorem literal_adjacent parts : forallb (forallb seg_ok) parts = true ->
  decode_strlit (concat (map spell parts)) = Some (concat (map denote parts)).
Proof.
  intros H.
  assert (E1 : concat (map spell parts) = spell (concat parts)).
  { induction parts as [|p r IH]; [reflexivity|]. cbn [map concat]. rewrite spell_app, IH; [reflexivity|].
    cbn [forallb] in H. apply andb_prop in H. tauto. }
  assert (E2 : concat (map denote parts) = denote (concat parts)).
  { clear E1. induction parts as [|p r IH]; [reflexivity|]. cbn [map concat]. rewrite denote_app, IH; [reflexivity|].
    cbn [forallb] in H. apply andb_prop in H. tauto. }
  rewrite E1, E2. apply literal_denotes.
  clear E1 E2. induction parts as [|p r IH]; [reflexivity|].
  cbn [forallb] in H. apply andb_prop in H as (H1 & H2). cbn [concat]. rewrite forallb_app, H1. apply IH, H2.
Qed.

(** every byte value can be written, in text for ASCII and in a hex section for all of them *)
Corollary literal_any_bytes (b : bytes) : Forall (fun x => x < 256) b ->
  exists segs, forallb seg_ok segs = true /\ decode_strlit (spell segs) = Some b.
Proof.
  intros W.
  exists [Hex (map (fun x => {| hb_pre := []; hb_hi_upper := false; hb_mid := []; hb_lo_upper := false; hb_val := x |}) b) []].
  assert (O : forallb seg_ok [Hex (map (fun x => {| hb_pre := []; hb_hi_upper := false; hb_mid := []; hb_lo_upper := false; hb_val := x |}) b) []] = true).
  { cbn [forallb seg_ok]. rewrite !andb_true_r. induction W as [|x r Hx W IH]; [reflexivity|].
    cbn [map forallb]. rewrite IH, andb_true_r. unfold hexbyte_ok. cbn. lia. }
  split; [exact O|]. rewrite literal_denotes by exact O.
  unfold denote. cbn [map concat denote_seg]. rewrite app_nil_r, map_map. cbn [hb_val]. rewrite map_id. reflexivity.
Qed.

(** a closed hex section with an odd number of digits, or with a character that is neither a hex
    digit, a separator, white space nor the closing bar, is rejected -- whatever precedes (well formed)
    and whatever follows *)
Theorem hex_section_rejects segs b rest :
  forallb seg_ok segs = true -> bad_section_ok b = true ->
  decode_strlit (spell segs ++ spell_bad b ++ rest) = None.
Proof.
  intros H B. rewrite decode_strlit_dec, dec_segs by assumption.
  destruct b as [items pre u d trail|items pre dang cp]; cbn [bad_section_ok spell_bad] in *.
  - apply andb_prop in B as (B & T). apply andb_prop in B as (B & D). apply andb_prop in B as (I & P).
    unfold BAR. rewrite <- !app_assoc. cbn [app]. rewrite dec_bar_open.
    rewrite dec_hexbytes by assumption. rewrite dec_fillers by assumption.
    cbn [app]. rewrite dec_digit_hi by lia. rewrite dec_fillers by assumption.
    apply dec_bar_odd.
  - apply andb_prop in B as (B & D). apply andb_prop in B as (B & C). apply andb_prop in B as (I & P).
    unfold BAR. rewrite <- !app_assoc. cbn [app]. rewrite dec_bar_open.
    rewrite dec_hexbytes by assumption. rewrite dec_fillers by assumption.
    unfold bad_char_ok in C. apply andb_prop in C as (C & NH). apply andb_prop in C as (C & NB). apply andb_prop in C as (S & NF).
    assert (Bad : forall hi acc, dec (utf8_encode cp ++ rest) true hi acc = None).
    { intros hi acc.
      rewrite (dec_unfold _ _ cp) by (try apply encode_nonempty; apply decode_encode, S).
      cbn [negb]. rewrite filler_classes in NF. unfold BAR in NB.
      destruct (is_whitespace cp); [discriminate|]. destruct (is_hex_separator cp); [discriminate|].
      destruct (cp =? 124); [discriminate|].
      destruct (cp <? 128) eqn:A; [|reflexivity].
      cbn [andb negb] in NH. unfold is_hex_digit_char in NH. unfold hex_value.
      destruct ((48 <=? cp) && (cp <=? 57)); [discriminate|].
      destruct ((97 <=? cp) && (cp <=? 102)); [discriminate|].
      destruct ((65 <=? cp) && (cp <=? 70)); [discriminate|]. reflexivity. }
    destruct dang as [[[u d] f]|].
    + apply andb_prop in D as (D & F). cbn [app]. rewrite <- ?app_assoc. rewrite dec_digit_hi by lia.
      rewrite dec_fillers by assumption. apply Bad.
    + cbn [app]. apply Bad.
Qed.
