(** C13, lexical part 2: how the cutting of a line into lexemes changes when blank space or a
    comment is inserted at a lexeme boundary: the lexemes that are not skipped stay the same. *)
From RS Require Import Base.Bytes Base.Outcome Base.Utf8 Lex.Tokens Lex.LexClass Lex.Scanner Lex.LexSpec.
From RS Require Import Proofs.BytesLemmas.
From RS.Proofs.C10 Require Import Utf8Facts RuleFacts Theorems Merge SpecEquiv Maximal Meets.
From RS.Proofs.C13 Require Import Stable.
From Coq Require Import ZArith Lia ZifyBool ZifyNat ZifyN.
Ltac Zify.zify_post_hook ::= Z.div_mod_to_equations.
Open Scope N_scope.

Notation fc := first_class.

(** the lexemes that become tokens *)
Definition sig (ls : list lexeme) : list lexeme := filter (fun l => negb (skipped (fst l))) ls.

Lemma sig_app a b : sig (a ++ b) = sig a ++ sig b.
Proof. apply filter_app. Qed.

Lemma essence_sig : forall ls pend, essence pend ls = essence pend (sig ls).
Proof.
  induction ls as [|[k x] r IH]; intros pend; [reflexivity|].
  cbn [sig filter fst]. destruct (skipped k) eqn:S; cbn [negb].
  - pose proof (essence_skip pend [] k x r S) as E. cbn [app] in E. transitivity (essence pend r); [exact E|apply IH].
  - change ((k, x) :: r) with ([(k, x)] ++ r). change ((k, x) :: filter _ r) with ([(k, x)] ++ sig r).
    transitivity (let (ta, pa) := essence pend [(k, x)] in let (tb, pb) := essence pa r in (ta ++ tb, pb));
      [apply essence_app|]. symmetry.
    transitivity (let (ta, pa) := essence pend [(k, x)] in let (tb, pb) := essence pa (sig r) in (ta ++ tb, pb));
      [apply essence_app|]. destruct (essence pend [(k, x)]) as [ta pa]. rewrite <- IH. reflexivity.
Qed.

(* ------------------------------------------------------------------ UTF-8 validity of pieces *)
Lemma valid_app x : Valid x -> forall y, Valid y -> Valid (x ++ y).
Proof.
  induction 1 as [|l cp n Hd Hv IH]; intros y Hy; [exact Hy|].
  pose proof (decode_len _ _ _ Hd) as Hn.
  apply (Valid_cons _ cp n); [apply decode_app; exact Hd|]. rewrite skipn_inside by lia. apply IH. exact Hy.
Qed.

Lemma decode_firstn l cp n : utf8_decode l = Some (cp, n) -> utf8_decode (firstn n l) = Some (cp, n).
Proof.
  unfold utf8_decode. destruct l as [|b0 l]; [discriminate|].
  destruct (b0 <? 128) eqn:E0. { intros H; injection H as <- <-. cbn [firstn]. rewrite E0. reflexivity. }
  destruct (b0 <? 194) eqn:E1; [discriminate|].
  destruct (b0 <? 224) eqn:E2.
  { destruct l as [|b1 l]; [discriminate|]. destruct (is_cont b1) eqn:C1; [|discriminate].
    intros H; injection H as <- <-. cbn [firstn]. rewrite E0, E1, E2, C1. reflexivity. }
  destruct (b0 <? 240) eqn:E3.
  { destruct l as [|b1 [|b2 l]]; try discriminate.
    destruct (is_cont b1 && is_cont b2) eqn:C; [|discriminate].
    match goal with |- context[if ?c then None else _] => destruct c eqn:EC end; [discriminate|].
    intros H; injection H as <- <-. cbn [firstn]. rewrite E0, E1, E2, E3, C, EC. reflexivity. }
  destruct (b0 <? 245) eqn:E4; [|discriminate].
  destruct l as [|b1 [|b2 [|b3 l]]]; try discriminate.
  destruct (is_cont b1 && is_cont b2 && is_cont b3) eqn:C; [|discriminate].
  match goal with |- context[if ?c then None else _] => destruct c eqn:EC end; [discriminate|].
  intros H; injection H as <- <-. cbn [firstn]. rewrite E0, E1, E2, E3, E4, C, EC. reflexivity.
Qed.

Lemma valid_prefix : forall m x y, length x = m -> Valid (x ++ y) -> Valid y -> Valid x.
Proof.
  induction m as [m IH] using lt_wf_ind. intros x y Hm Hxy Hy.
  destruct x as [|c x']; [constructor|].
  inversion Hxy as [|l cp n Hd Hv E]. subst l.
  pose proof (decode_len _ _ _ Hd) as Hn.
  assert (Hle : (n <= length (c :: x'))%nat).
  { destruct (Nat.le_gt_cases n (length (c :: x'))) as [Q|Q]; [exact Q|]. exfalso.
    assert (B : boundary (skipn (length (c :: x')) ((c :: x') ++ y)) = false).
    { apply (decode_no_boundary _ cp n); [exact Hd|cbn [length] in *; lia]. }
    rewrite skipn_app, skipn_all, Nat.sub_diag in B. cbn [app skipn] in B.
    rewrite (valid_boundary y Hy) in B. discriminate. }
  assert (Hx : utf8_decode (c :: x') = Some (cp, n)).
  { apply decode_firstn in Hd. rewrite firstn_inside in Hd by exact Hle.
    rewrite <- (firstn_skipn n (c :: x')). apply decode_app. exact Hd. }
  apply (Valid_cons _ cp n Hx). rewrite skipn_inside in Hv by exact Hle.
  apply (IH (length (skipn n (c :: x')))) with (y := y); [rewrite skipn_length; cbn [length] in *; lia|reflexivity|exact Hv|exact Hy].
Qed.

Lemma fc_good s k n : fc s = Some (k, n) -> good s n.
Proof. rewrite <- match_rules_w0. intros H. apply match_rules_good in H. tauto. Qed.

Lemma cuts_valid : forall ls s rest, cuts fc s ls rest -> Valid s -> Valid rest.
Proof.
  induction ls as [|[k x] ls IH]; intros s rest Hc Hv; cbn [cuts] in Hc; [subst; exact Hv|].
  destruct Hc as (Hx & M & s' & -> & Hc). apply (IH s' rest Hc).
  apply fc_good in M. destruct M as [_ G]. specialize (G Hv).
  rewrite skipn_app, skipn_all, Nat.sub_diag in G. exact G.
Qed.

(* ------------------------------------------------------------------ cuts *)
Lemma cuts_app m : forall l1 l2 s rest,
  cuts m s (l1 ++ l2) rest <-> exists mid, cuts m s l1 mid /\ cuts m mid l2 rest.
Proof.
  induction l1 as [|[k x] l1 IH]; intros l2 s rest; cbn [app cuts].
  - split; [intros H; exists s; split; [reflexivity|exact H]|intros (mid & -> & H); exact H].
  - split.
    + intros (Hx & M & s' & -> & Hc). apply IH in Hc. destruct Hc as (mid & C1 & C2).
      exists mid. split; [|exact C2]. repeat split; try assumption. exists s'. split; [reflexivity|exact C1].
    + intros (mid & (Hx & M & s' & -> & C1) & C2). repeat split; try assumption.
      exists s'. split; [reflexivity|]. apply IH. exists mid. split; assumption.
Qed.

(** cutting is deterministic: a complete cutting starts with every partial one *)
Lemma cuts_prefix m : forall la s b l1 rest,
  cuts m s la b -> cuts m s l1 rest -> (rest = [] \/ m rest = None) ->
  exists lb, l1 = la ++ lb /\ cuts m b lb rest.
Proof.
  induction la as [|[k x] la IH]; intros s b l1 rest Ha H1 Hr; cbn [cuts] in Ha.
  - subst b. exists l1. split; [reflexivity|exact H1].
  - destruct Ha as (Hx & M & s' & -> & Ha). destruct l1 as [|[k1 x1] l1]; cbn [cuts] in H1.
    + exfalso. subst rest. destruct Hr as [Hr|Hr]; [destruct x; [congruence|discriminate]|congruence].
    + destruct H1 as (Hx1 & M1 & s1' & E & H1). rewrite M in M1. injection M1 as <- L.
      assert (x1 = x /\ s1' = s') as [-> ->].
      { clear - E L. revert x1 E L. induction x as [|c x IHx]; intros x1 E L; destruct x1 as [|c1 x1]; cbn [length] in L; try lia.
        - cbn [app] in E. auto.
        - cbn [app] in E. injection E as -> E. destruct (IHx x1 E ltac:(lia)) as [-> ->]. auto. }
      destruct (IH s' b l1 rest Ha H1 Hr) as (lb & -> & Hb). exists lb. split; [reflexivity|exact Hb].
Qed.

(** the cutting [lexemes] computes *)
Definition fullcut (s : bytes) (ls : list lexeme) (rest : bytes) : Prop :=
  cuts fc s ls rest /\ (rest = [] \/ fc rest = None).

Lemma lexemes_fullcut s : fullcut s (fst (lexemes fc (length s) s)) (snd (lexemes fc (length s) s)).
Proof.
  destruct (lexemes fc (length s) s) as [ls rest] eqn:L.
  apply (lexemes_cuts fc first_class_bounds _ _ _ _ (Nat.le_refl _)) in L. exact L.
Qed.

Lemma fullcut_lexemes s ls rest : fullcut s ls rest -> lexemes fc (length s) s = (ls, rest).
Proof. intros [C R]. apply (cuts_lexemes fc first_class_bounds ls s rest _ (Nat.le_refl _) C R). Qed.

Lemma fullcut_unique s l1 r1 l2 r2 : fullcut s l1 r1 -> fullcut s l2 r2 -> l1 = l2 /\ r1 = r2.
Proof. intros H1 H2. apply fullcut_lexemes in H1, H2. rewrite H1 in H2. injection H2 as -> ->. auto. Qed.

(* ------------------------------------------------------------------ blank space *)
(** a run of blank characters: whole White_Space characters other than the newline *)
Definition blank_or_empty (w : bytes) : Prop := bl w = length w.
Definition blank_run (w : bytes) : Prop := w <> [] /\ bl w = length w.

Definition blank_byte (c : N) : Prop := c <> 10 /\ ((9 <= c <= 13) \/ c = 32 \/ 128 <= c).

Lemma blank_facts : forall m w, length w = m -> bl w = length w -> Valid w /\ Forall blank_byte w.
Proof.
  induction m as [m IH] using lt_wf_ind. intros w Hm Hb.
  destruct w as [|b0 r]; [split; constructor|].
  rewrite bl_step in Hb. unfold blank_width in Hb.
  destruct (utf8_decode (b0 :: r)) as [[cp n]|] eqn:Hd; [|cbn [length] in Hb; lia].
  destruct (is_whitespace cp && negb (cp =? newline)) eqn:W; [|cbn [length] in Hb; lia].
  pose proof (decode_len _ _ _ Hd) as Hn. destruct n as [|n]; [lia|].
  assert (Hb' : bl (skipn (S n) (b0 :: r)) = length (skipn (S n) (b0 :: r))) by (rewrite skipn_length; lia).
  destruct (IH (length (skipn (S n) (b0 :: r)))) with (w := skipn (S n) (b0 :: r)) as [V F];
    [rewrite skipn_length; cbn [length] in *; lia|reflexivity|exact Hb'|].
  split; [apply (Valid_cons _ cp (S n) Hd V)|].
  rewrite <- (firstn_skipn (S n) (b0 :: r)). apply Forall_app. split; [|exact F].
  apply andb_true_iff in W. destruct W as [W1 W2]. unfold newline in W2.
  pose proof Hd as Sh. apply decode_shape in Sh.
  destruct Sh as [(c0 & q & E & En & Hlt & Hcp)|[(c0 & c1 & q & E & En & H0 & _ & C1 & _)|
                 [(c0 & c1 & c2 & q & E & En & H0 & _ & C1 & C2 & _)|
                  (c0 & c1 & c2 & c3 & q & E & En & H0 & _ & C1 & C2 & C3 & _)]]];
    rewrite E, En; cbn [firstn]; repeat (apply Forall_cons || apply Forall_nil); unfold blank_byte, is_cont, is_whitespace in *; lia.
Qed.

Lemma blank_valid w : blank_or_empty w -> Valid w.
Proof. intros H. apply (blank_facts (length w) w eq_refl H). Qed.

Lemma blank_byte_sep c : blank_byte c -> sep c = true.
Proof. unfold blank_byte, sep, ident_char, letter, digit. lia. Qed.

Lemma blank_head w : blank_run w -> exists h t, w = h :: t /\ sep h = true /\ h <> 47.
Proof.
  intros [Hne Hb]. destruct w as [|h t]; [congruence|]. exists h, t.
  destruct (blank_facts _ _ eq_refl Hb) as [_ F]. inversion F as [|? ? Hh _]; subst.
  split; [reflexivity|]. split; [apply blank_byte_sep; exact Hh|]. unfold blank_byte in Hh. lia.
Qed.

Lemma blank_no_nl w : blank_or_empty w -> to_eol w = length w.
Proof.
  intros Hb. destruct (blank_facts _ _ eq_refl Hb) as [_ F]. unfold to_eol. clear Hb.
  induction F as [|c r Hc F IH]; [reflexivity|]. cbn [span length].
  destruct (c =? newline) eqn:E; [apply N.eqb_eq in E; unfold blank_byte, newline in *; lia|]. cbn [negb]. rewrite IH. reflexivity.
Qed.

Lemma bl_blank_app w r : blank_or_empty w -> bl (w ++ r) = (length w + bl r)%nat.
Proof. intros Hb. rewrite (bl_app_valid w (blank_valid w Hb)). rewrite Hb, Nat.eqb_refl. reflexivity. Qed.

Lemma blank_app w1 w2 : blank_or_empty w1 -> blank_or_empty w2 -> blank_or_empty (w1 ++ w2).
Proof. intros H1 H2. unfold blank_or_empty. rewrite bl_blank_app by exact H1. rewrite H2, app_length. reflexivity. Qed.

Lemma fc_ws s : bl s <> O -> fc s = Some (KWhitespace, bl s).
Proof.
  intros H. unfold first_class, classes. cbn [find extent]. fold (bl s).
  destruct (Nat.eqb_spec (bl s) 0); [congruence|]. reflexivity.
Qed.

Lemma fc_ws_inv s n : fc s = Some (KWhitespace, n) -> bl s = n /\ n <> O.
Proof. intros H. apply first_class_extent in H. cbn [extent] in H. fold (bl s) in H. destruct H; split; congruence. Qed.

(** a blank run in front of a text: one blank lexeme more, or a longer first blank lexeme *)
Lemma ws_front w b lb rest : blank_run w -> fullcut b lb rest ->
  exists l2, fullcut (w ++ b) l2 rest /\ sig l2 = sig lb.
Proof.
  intros [Hne Hb] [Hc Hr].
  assert (F : fc (w ++ b) = Some (KWhitespace, (length w + bl b)%nat)).
  { rewrite <- bl_blank_app by exact Hb. apply fc_ws. rewrite bl_blank_app by exact Hb. destruct w; [congruence|cbn [length]; lia]. }
  destruct (Nat.eq_dec (bl b) 0) as [Z|Z].
  - exists ((KWhitespace, w) :: lb). split; [split; [|exact Hr]|].
    + cbn [cuts]. split; [exact Hne|]. split; [rewrite F; f_equal; f_equal; lia|]. exists b. split; [reflexivity|exact Hc].
    + reflexivity.
  - pose proof (fc_ws b Z) as Fb. destruct lb as [|[k1 x1] lb']; cbn [cuts] in Hc.
    + exfalso. subst rest. destruct Hr as [Hr|Hr]; [subst b; cbn in Z; congruence|congruence].
    + destruct Hc as (Hx1 & M1 & s' & -> & Hc). rewrite Fb in M1. injection M1 as <- L.
      exists ((KWhitespace, w ++ x1) :: lb'). split; [split; [|exact Hr]|].
      * cbn [cuts]. split; [destruct w; [congruence|discriminate]|].
        split; [rewrite F, app_length; f_equal; f_equal; lia|]. exists s'. split; [apply app_assoc|exact Hc].
      * reflexivity.
Qed.

(* ------------------------------------------------------------------ comments *)
(** the text of a comment: # or // and anything up to the end of the line *)
Definition comment_text (c : bytes) : Prop :=
  ((exists t, c = 35 :: t) \/ (exists t, c = 47 :: 47 :: t)) /\ to_eol c = length c.

Lemma fc_comment c : comment_text c -> exists kc, skipped kc = true /\ fc c = Some (kc, length c).
Proof.
  intros [[[t ->]|[t ->]] E]; [exists KHashComment|exists KCppComment]; (split; [reflexivity|]); rewrite <- E; reflexivity.
Qed.

Lemma comment_head c : comment_text c -> exists h t, c = h :: t /\ sep h = true /\ bl c = O /\ c <> [].
Proof.
  intros [[[t ->]|[t ->]] _]; [exists 35, t|exists 47, (47 :: t)]; repeat split; discriminate.
Qed.

(** a comment lexeme swallows whatever is appended to it (as long as that holds no newline) *)
Lemma comment_extends kc y b x : (kc = KHashComment \/ kc = KCppComment) ->
  fc (y ++ b) = Some (kc, length y) -> to_eol x = length x ->
  fc (y ++ x ++ b) = Some (kc, (length y + length x)%nat) /\ to_eol b = O.
Proof.
  intros Hk F Hx. pose proof (first_class_extent _ _ _ F) as [E N0].
  assert (T : to_eol (y ++ b) = length y /\ ((kc = KHashComment /\ exists t, y = 35 :: t) \/ (kc = KCppComment /\ exists t, y = 47 :: 47 :: t))).
  { destruct Hk as [-> | ->]; cbn [extent] in E.
    - change (text "#") with [35] in E. destruct (starts_with [35] (y ++ b)) eqn:S; [|congruence].
      split; [congruence|]. left. split; [reflexivity|]. destruct y as [|c q]; [cbn in N0; congruence|].
      cbn [app starts_with] in S. rewrite andb_true_r in S. apply N.eqb_eq in S. subst c. exists q. reflexivity.
    - change (text "//") with [47; 47] in E. destruct (starts_with [47; 47] (y ++ b)) eqn:S; [|congruence].
      split; [congruence|]. right. split; [reflexivity|].
      assert (L : (2 <= length y)%nat).
      { pose proof (starts_with_firstn _ _ S) as Fn. cbn [length] in Fn.
        assert (Q : exists q, y ++ b = 47 :: 47 :: q) by (rewrite <- (firstn_skipn 2 (y ++ b)), Fn; eexists; reflexivity).
        destruct Q as [q Q]. rewrite Q in E. unfold to_eol in E. cbn [span] in E.
        change (47 =? newline) with false in E. cbn [negb] in E. lia. }
      rewrite starts_with_inside in S by exact L. destruct y as [|c0 [|c1 q]]; cbn [length] in L; try lia.
      cbn [starts_with] in S. apply andb_true_iff in S. destruct S as [S0 S]. apply andb_true_iff in S. destruct S as [S1 _].
      apply N.eqb_eq in S0, S1. subst c0 c1. exists q. reflexivity. }
  destruct T as [T Sh]. unfold to_eol in *.
  assert (Hy : span (fun c => negb (c =? newline)) y = length y) by (rewrite span_inside in T by lia; exact T).
  rewrite span_app_all in T by exact Hy.
  assert (Tn : span (fun c => negb (c =? newline)) (y ++ x ++ b) = (length y + length x)%nat).
  { rewrite span_app_all by exact Hy. rewrite span_app_all by exact Hx. lia. }
  split; [|lia].
  destruct Sh as [[-> [t ->]]|[-> [t ->]]].
  - change ((35 :: t) ++ x ++ b) with (35 :: (t ++ x ++ b)).
    transitivity (Some (KHashComment, to_eol (35 :: (t ++ x ++ b)))); [reflexivity|]. unfold to_eol.
    change (35 :: t ++ x ++ b) with ((35 :: t) ++ x ++ b). rewrite Tn. reflexivity.
  - change ((47 :: 47 :: t) ++ x ++ b) with (47 :: 47 :: (t ++ x ++ b)).
    transitivity (Some (KCppComment, to_eol (47 :: 47 :: (t ++ x ++ b)))); [reflexivity|]. unfold to_eol.
    change (47 :: 47 :: t ++ x ++ b) with ((47 :: 47 :: t) ++ x ++ b). rewrite Tn. reflexivity.
Qed.

(* ------------------------------------------------------------------ lexemes before the insertion point *)
Lemma cuts_insert_front h t b : sep h = true -> Valid b ->
  forall la0 a0 y, y <> [] -> Valid (a0 ++ y ++ b) ->
  cuts fc (a0 ++ y ++ b) la0 (y ++ b) -> cuts fc (a0 ++ y ++ h :: t ++ b) la0 (y ++ h :: t ++ b).
Proof.
  intros Hh Vb. induction la0 as [|[k x] la1 IH]; intros a0 y Hy Hv Hc; cbn [cuts] in *.
  - apply (app_inv_tail (y ++ b) a0 []) in Hc. subst a0. reflexivity.
  - destruct Hc as (Hx & M & s' & E & Hc).
    pose proof (cuts_concat fc _ _ _ Hc) as Es. set (a1 := concat (map snd la1)) in *.
    assert (Ea : a0 = x ++ a1).
    { rewrite Es in E. apply (app_inv_tail (y ++ b) a0 (x ++ a1)). rewrite <- app_assoc. exact E. }
    subst a0. subst s'.
    assert (V1 : Valid ((x ++ a1) ++ y)).
    { apply (valid_prefix _ _ b eq_refl); [rewrite <- app_assoc; exact Hv|exact Vb]. }
    assert (V2 : Valid (a1 ++ y ++ b)).
    { apply fc_good in M. destruct M as [_ G]. specialize (G Hv).
      rewrite <- app_assoc in G. rewrite skipn_app, skipn_all, Nat.sub_diag in G. exact G. }
    split; [exact Hx|]. split.
    + pose proof (fc_stable ((x ++ a1) ++ y) b t h) as S.
      rewrite <- !app_assoc in S. rewrite <- !app_assoc. apply S; clear S.
      * destruct x; [congruence|discriminate].
      * rewrite <- !app_assoc in V1. exact V1.
      * exact Hh.
      * intros _ Q. apply (f_equal (@length N)) in Q. rewrite !app_length in Q. cbn [length] in Q.
        destruct x; [congruence|]. destruct y; [congruence|]. cbn [length] in Q. lia.
      * rewrite <- !app_assoc in M. exact M.
      * left. rewrite !app_length. destruct y; [congruence|cbn [length]; lia].
    + exists (a1 ++ y ++ h :: t ++ b). split; [rewrite <- !app_assoc; reflexivity|].
      apply IH; assumption.
Qed.

(* ------------------------------------------------------------------ the lexeme before the insertion point *)
Lemma last_lexeme la a b : cuts fc (a ++ b) la b ->
  (la = [] /\ a = []) \/
  exists la0 k y a0, la = la0 ++ [(k, y)] /\ a = a0 ++ y /\ y <> [] /\
                     cuts fc (a0 ++ y ++ b) la0 (y ++ b) /\ fc (y ++ b) = Some (k, length y).
Proof.
  intros Hc. destruct la as [|l0 la'] eqn:El.
  - left. split; [reflexivity|]. cbn [cuts] in Hc. apply (app_inv_tail b a []) in Hc. exact Hc.
  - right. rewrite <- El in *. assert (Hne : la <> []) by (rewrite El; discriminate). clear El l0 la'.
    destruct (exists_last Hne) as (la0 & [k y] & ->).
    apply cuts_app in Hc. destruct Hc as (mid & C1 & C2). cbn [cuts] in C2.
    destruct C2 as (Hy & M & s' & -> & ->).
    pose proof (cuts_concat fc _ _ _ C1) as E. set (a0 := concat (map snd la0)) in *.
    assert (Ea : a = a0 ++ y) by (apply (app_inv_tail b); rewrite <- app_assoc; exact E).
    exists la0, k, y, a0. repeat split; try assumption. rewrite <- E. exact C1.
Qed.

Lemma sig_snoc_skipped la0 k y lb : skipped k = true -> sig ((la0 ++ [(k, y)]) ++ lb) = sig (la0 ++ lb).
Proof. intros S. rewrite !sig_app. cbn [sig filter fst]. rewrite S. cbn [negb]. rewrite app_nil_r. reflexivity. Qed.

(** Blank space inserted at a lexeme boundary: the cutting of the new line has the same lexemes
    apart from skipped ones, and stops at the same place (nowhere, or at the same unmatchable rest) *)
Lemma sig_cons_skip k x l : skipped k = true -> sig ((k, x) :: l) = sig l.
Proof. intros H. cbn [sig filter fst]. rewrite H. reflexivity. Qed.
Lemma sig_cons_tok k x l : skipped k = false -> sig ((k, x) :: l) = (k, x) :: sig l.
Proof. intros H. cbn [sig filter fst]. rewrite H. reflexivity. Qed.
Lemma sig_nil : sig [] = [].
Proof. reflexivity. Qed.

Ltac sigs :=
  cbn [app]; rewrite ?sig_app;
  repeat first [rewrite sig_cons_skip by (assumption || reflexivity) | rewrite sig_cons_tok by reflexivity];
  rewrite ?sig_nil; cbn [app];
  repeat match goal with H : sig _ = sig _ |- _ => rewrite H end;
  rewrite ?app_nil_r; reflexivity.

Theorem insert_blank a b la w l1 rest :
  cuts fc (a ++ b) la b -> Valid (a ++ b) -> blank_run w -> fullcut (a ++ b) l1 rest ->
  exists l2, fullcut (a ++ w ++ b) l2 rest /\ sig l2 = sig l1.
Proof.
  intros Hc Hv Hw [H1 Hr].
  assert (Vb : Valid b) by (apply (cuts_valid _ _ _ Hc Hv)).
  destruct (cuts_prefix fc _ _ _ _ _ Hc H1 Hr) as (lb & -> & Hb).
  assert (Fb : fullcut b lb rest) by (split; assumption).
  destruct (blank_head w Hw) as (h & t & Ew & Hh & H47).
  destruct (last_lexeme la a b Hc) as [[-> ->]|(la0 & k & y & a0 & -> & -> & Hy & C0 & M)].
  - cbn [app]. apply ws_front; assumption.
  - rewrite <- !app_assoc in *.
    assert (C0' : cuts fc (a0 ++ y ++ w ++ b) la0 (y ++ w ++ b)).
    { rewrite Ew. cbn [app]. apply cuts_insert_front; assumption. }
    assert (Vy : Valid y).
    { apply (valid_prefix _ _ b eq_refl); [|exact Vb]. apply (cuts_valid _ _ _ C0 Hv). }
    destruct k as [| | | |tk].
    + (* the boundary is the end of a blank lexeme: the two runs merge *)
      apply fc_ws_inv in M. destruct M as [M _].
      assert (By : blank_or_empty y).
      { unfold blank_or_empty. rewrite (bl_app_valid y Vy) in M. destruct (Nat.eqb_spec (bl y) (length y)); [assumption|lia]. }
      assert (Byw : blank_run (y ++ w)).
      { split; [destruct y; [congruence|discriminate]|]. apply blank_app; [exact By|apply Hw]. }
      destruct (ws_front (y ++ w) b lb rest Byw Fb) as (l2 & [C2 R2] & S2). rewrite <- app_assoc in C2.
      exists (la0 ++ l2). split; [split; [|exact R2]|].
      * apply cuts_app. exists (y ++ w ++ b). split; assumption.
      * sigs.
    + (* the boundary is the end of a comment: the blank space becomes part of it *)
      destruct (comment_extends KHashComment y b w (or_introl eq_refl) M (blank_no_nl w (proj2 Hw))) as [F _].
      exists (la0 ++ (KHashComment, y ++ w) :: lb). split; [split; [|exact Hr]|].
      * apply cuts_app. exists (y ++ w ++ b). split; [exact C0'|]. cbn [cuts].
        split; [destruct y; [congruence|discriminate]|]. split; [rewrite F, app_length; reflexivity|].
        exists b. split; [apply app_assoc|exact Hb].
      * sigs.
    + destruct (comment_extends KCppComment y b w (or_intror eq_refl) M (blank_no_nl w (proj2 Hw))) as [F _].
      exists (la0 ++ (KCppComment, y ++ w) :: lb). split; [split; [|exact Hr]|].
      * apply cuts_app. exists (y ++ w ++ b). split; [exact C0'|]. cbn [cuts].
        split; [destruct y; [congruence|discriminate]|]. split; [rewrite F, app_length; reflexivity|].
        exists b. split; [apply app_assoc|exact Hb].
      * sigs.
    + (* a newline lexeme (never inside a line of a file; covered for completeness) *)
      assert (Ey : y = [10]).
      { pose proof (first_class_extent _ _ _ M) as [E _]. cbn [extent] in E.
        destruct (starts_with [newline] (y ++ b)) eqn:S; [|destruct y; [congruence|cbn [length] in E; lia]].
        destruct y as [|c [|d q]]; [congruence| |cbn [length] in E; lia].
        cbn [app starts_with] in S. rewrite andb_true_r in S. apply N.eqb_eq in S. subst c. reflexivity. }
      subst y. destruct (ws_front w b lb rest Hw Fb) as (l2 & [C2 R2] & S2).
      exists (la0 ++ (KNewLine, [10]) :: l2). split; [split; [|exact R2]|].
      * apply cuts_app. exists ([10] ++ w ++ b). split; [exact C0'|]. cbn [cuts].
        split; [discriminate|]. split; [reflexivity|]. exists (w ++ b). split; [reflexivity|exact C2].
      * sigs.
    + (* the boundary is the end of a token *)
      assert (M' : fc (y ++ w ++ b) = Some (KTok tk, length y)).
      { rewrite Ew. cbn [app]. apply fc_stable; try assumption.
        - intros Q. congruence.
        - right. split; reflexivity. }
      destruct (ws_front w b lb rest Hw Fb) as (l2 & [C2 R2] & S2).
      exists (la0 ++ (KTok tk, y) :: l2). split; [split; [|exact R2]|].
      * apply cuts_app. exists (y ++ w ++ b). split; [exact C0'|]. cbn [cuts].
        split; [exact Hy|]. split; [exact M'|]. exists (w ++ b). split; [reflexivity|exact C2].
      * sigs.
Qed.

(** A comment appended to a line that lexes to its end *)
Theorem append_comment a la c :
  cuts fc a la [] -> Valid a -> comment_text c -> (hd 0 c = 47 -> last a 0 <> 47) ->
  exists l2, cuts fc (a ++ c) l2 [] /\ sig l2 = sig la.
Proof.
  intros Hc Hv Hcm Hsl.
  destruct (fc_comment c Hcm) as (kc & Skc & Fc).
  destruct (comment_head c Hcm) as (h & t & Ec & Hh & Blc & Cne).
  assert (Cc : cuts fc c [(kc, c)] []).
  { cbn [cuts]. split; [exact Cne|]. split; [exact Fc|]. exists []. split; [symmetry; apply app_nil_r|reflexivity]. }
  assert (Hc' : cuts fc (a ++ []) la []) by (rewrite app_nil_r; exact Hc).
  destruct (last_lexeme la a [] Hc') as [[-> ->]|(la0 & k & y & a0 & -> & -> & Hy & C0 & M)].
  - exists [(kc, c)]. split; [exact Cc|]. sigs.
  - rewrite <- ?app_assoc in *.
    assert (C0' : cuts fc (a0 ++ y ++ c) la0 (y ++ c)).
    { pose proof (cuts_insert_front h t [] Hh Valid_nil la0 a0 y Hy) as Q. rewrite !app_nil_r in Q.
      rewrite Ec. apply Q; [exact Hv|]. rewrite app_nil_r in C0. exact C0. }
    assert (Vy : Valid y).
    { pose proof (cuts_valid _ _ _ C0) as Q. rewrite !app_nil_r in Q. apply Q. exact Hv. }
    assert (Last : last (a0 ++ y) 0 = last y 0).
    { clear - Hy. induction a0 as [|x a0 IH]; [reflexivity|]. cbn [app]. rewrite <- IH.
      destruct (a0 ++ y) eqn:Q; [apply app_eq_nil in Q; destruct Q; congruence|reflexivity]. }
    destruct k as [| | | |tk].
    + apply fc_ws_inv in M. destruct M as [M _]. rewrite app_nil_r in M.
      assert (M' : fc (y ++ c) = Some (KWhitespace, length y)).
      { assert (By : blank_or_empty y) by exact M.
        assert (E : bl (y ++ c) = length y) by (rewrite bl_blank_app by exact By; rewrite Blc; lia).
        rewrite <- E. apply fc_ws. rewrite E. destruct y; [congruence|cbn [length]; lia]. }
      exists (la0 ++ [(KWhitespace, y); (kc, c)]). split.
      * apply cuts_app. exists (y ++ c). split; [exact C0'|]. cbn [cuts].
        split; [exact Hy|]. split; [exact M'|]. exists c. split; [reflexivity|exact Cc].
      * sigs.
    + destruct Hcm as [_ Te].
      destruct (comment_extends KHashComment y [] c (or_introl eq_refl) M Te) as [F _]. rewrite app_nil_r in F.
      exists (la0 ++ [(KHashComment, y ++ c)]). split.
      * apply cuts_app. exists (y ++ c). split; [exact C0'|]. cbn [cuts].
        split; [destruct y; [congruence|discriminate]|]. split; [rewrite F, app_length; reflexivity|].
        exists []. split; [symmetry; apply app_nil_r|reflexivity].
      * sigs.
    + destruct Hcm as [_ Te].
      destruct (comment_extends KCppComment y [] c (or_intror eq_refl) M Te) as [F _]. rewrite app_nil_r in F.
      exists (la0 ++ [(KCppComment, y ++ c)]). split.
      * apply cuts_app. exists (y ++ c). split; [exact C0'|]. cbn [cuts].
        split; [destruct y; [congruence|discriminate]|]. split; [rewrite F, app_length; reflexivity|].
        exists []. split; [symmetry; apply app_nil_r|reflexivity].
      * sigs.
    + assert (Ey : y = [10]).
      { pose proof (first_class_extent _ _ _ M) as [E _]. cbn [extent] in E.
        destruct (starts_with [newline] (y ++ [])) eqn:S; [|destruct y; [congruence|cbn [length] in E; lia]].
        destruct y as [|d [|d' q]]; [congruence| |cbn [length] in E; lia].
        cbn [app starts_with] in S. rewrite andb_true_r in S. apply N.eqb_eq in S. subst d. reflexivity. }
      subst y. exists (la0 ++ [(KNewLine, [10]); (kc, c)]). split.
      * apply cuts_app. exists ([10] ++ c). split; [exact C0'|]. cbn [cuts].
        split; [discriminate|]. split; [reflexivity|]. exists c. split; [reflexivity|exact Cc].
      * sigs.
    + assert (M' : fc (y ++ c) = Some (KTok tk, length y)).
      { pose proof (fc_stable y [] t h) as Q. rewrite !app_nil_r in Q. rewrite app_nil_r in M. rewrite Ec. apply Q; try assumption.
        - intros E47 Ey. apply Hsl; [rewrite Ec; exact E47|]. rewrite Last, Ey. reflexivity.
        - right. split; reflexivity. }
      exists (la0 ++ [(KTok tk, y); (kc, c)]). split.
      * apply cuts_app. exists (y ++ c). split; [exact C0'|]. cbn [cuts].
        split; [exact Hy|]. split; [exact M'|]. exists c. split; [reflexivity|exact Cc].
      * sigs.
Qed.
