(** C13, parser part: the automaton never looks at a location, it only copies them.  Feeding
    tokens that differ in their locations only gives parser states and statements that differ in
    their locations only. *)
From RS Require Import Base.Bytes Base.Outcome Lex.Tokens Lex.Literals Interp.Val Interp.Ast.
From RS Require Import Parse.Verdict Parse.Automaton Parse.Grammar.
From RS Require Import Proofs.Tactics.
Open Scope N_scope.

Definition erase_tok (t : token) : token :=
  {| tk_type := tk_type t; tk_loc := nil_loc; tk_val := tk_val t |}.

Definition erase_pb (b : path_builder) : path_builder :=
  {| pb_loc := nil_loc; pb_module := pb_module b; pb_object := pb_object b |}.
Definition erase_obj (o : object_ref) : object_ref :=
  {| or_loc := nil_loc; or_modules := or_modules o; or_components := or_components o |}.
Definition erase_args (l : list arg_expr) : list arg_expr := map erase_arg l.
Definition erase_call (c : call) : call :=
  {| c_obj := erase_obj (c_obj c); c_args := erase_args (c_args c) |}.
Definition erase_assign (a : assign) : assign :=
  {| as_loc := nil_loc; as_target := as_target a; as_rvalue := erase_expr (as_rvalue a) |}.

Definition erase_node (n : node) : node :=
  match n with
  | NArgList l => NArgList (erase_args l)
  | NPath p => NPath (erase_pb p)
  | NObject o => NObject (erase_obj o)
  | NExpr e => NExpr (erase_expr e)
  | NAssign a => NAssign (erase_assign a)
  | NCall c => NCall (erase_call c)
  | NStmt s => NStmt (erase_stmt s)
  | NLoc _ => NLoc nil_loc
  | other => other
  end.

Definition erase_parser (p : parser) : parser :=
  {| p_state := p_state p; p_stack := map erase_node (p_stack p); p_stmts := map erase_stmt (p_stmts p) |}.

Definition erase_action (a : action) : action :=
  match a with
  | AShift s n => AShift s (erase_node n)
  | other => other
  end.

Definition erase_res (r : res) : res := omap (fun pa => (erase_parser (fst pa), erase_action (snd pa))) r.

(** literal values and names come from the token's kind and text *)
Definition vot (ty : toktype) (v : option bytes) : outcome val :=
  val_of_token {| tk_type := ty; tk_loc := nil_loc; tk_val := v |}.
Lemma val_of_token_vot t : val_of_token t = vot (tk_type t) (tk_val t).
Proof. destruct t; reflexivity. Qed.
Definition tstr (v : option bytes) : outcome string :=
  token_string {| tk_type := TEof; tk_loc := nil_loc; tk_val := v |}.
Lemma token_string_tstr t : token_string t = tstr (tk_val t).
Proof. destruct t; reflexivity. Qed.

Lemma erase_expr_of_object o : erase_expr (expr_of_object o) = expr_of_object (erase_obj o).
Proof. reflexivity. Qed.
Lemma erase_expr_of_call c : erase_expr (expr_of_call c) = expr_of_call (erase_call c).
Proof. reflexivity. Qed.

Ltac crunch :=
  repeat (unfold erase_args, erase_res, omap, obind, pop, push, push_goto, set_state, path_builder_new,
            node_loc, node_state, node_u16, node_ipv4, node_string, node_opt_string, node_arglist, node_val,
            node_expr, node_path, node_object, node_call, node_assign, node_stmt;
          cbn [erase_parser erase_node erase_action erase_tok erase_pb erase_obj erase_call
               erase_assign erase_args erase_stmt erase_expr erase_arg expr_of_object expr_of_call stmt_of_assign
               p_state p_stack p_stmts map fst snd tk_type tk_loc tk_val
               pb_loc pb_module pb_object or_loc or_modules or_components c_obj c_args as_loc as_target as_rvalue
               app];
          rewrite ?map_app;
          match goal with
          | |- _ => reflexivity
          | |- context [match ?x with _ => _ end] => is_var x; destruct x
          | |- context [match map _ ?x with _ => _ end] => is_var x; destruct x
          | |- context [match vot ?a ?b with _ => _ end] => destruct (vot a b)
          | |- context [match tstr ?b with _ => _ end] => destruct (tstr b)
          | |- context [if ?c then _ else _] => destruct c
          end).

Lemma dispatch_erase p t : dispatch (erase_parser p) (erase_tok t) = erase_res (dispatch p t).
Proof.
  destruct p as [st stk ss]. destruct t as [ty l v].
  destruct st; cbn [dispatch erase_parser p_state];
    unfold state_initial, state_import, state_import_end, state_reduce_import, state_let, state_assign,
      state_ref_component, state_reduce_object, state_reduce_ref_call, state_reduce_ref_naked, state_reduce_module,
      state_ref_module, state_ref_object, state_ref_obj_end, state_arg_next, state_expr_arg, state_arg_name,
      state_arg_val, state_expr_stmt, state_expr, state_expr_rvalue, state_ipv4, state_ipv4_colon, state_reduce_arg,
      state_reduce_literal_expr, state_reduce_ref_expr, state_reduce_call_expr, state_slash, state_reduce_expr,
      state_reduce_sockaddr, state_reduce_call, state_expr_stmt_end, state_assign_stmt_end, state_reduce_bop,
      state_reduce_assign, state_reduce_expr_stmt, state_reduce_assign_stmt, state_reduce_stmt, push_literal,
      parse_error, reduce_module, reduce_object, reduce_ref, reduce_sockaddr, reduce_literal_expr, reduce_ref_expr,
      reduce_call_expr, reduce_bop_expr, reduce_arg, reduce_call, reduce_assign, reduce_expr_stmt,
      reduce_assign_stmt, reduce_import_stmt, reduce_stmt, reduce_object;
    rewrite ?val_of_token_vot, ?token_string_tstr.
  all: crunch.
  all: cbn; unfold erase_parser; cbn; unfold erase_args; rewrite ?map_app; reflexivity.
Qed.

Lemma feed_loop_erase : forall fuel p t,
  feed_loop fuel (erase_parser p) (erase_tok t) = omap erase_parser (feed_loop fuel p t).
Proof.
  induction fuel as [|f IH]; intros p t; [reflexivity|].
  cbn [feed_loop]. rewrite dispatch_erase. destruct (dispatch p t) as [[p' a]| | |]; try reflexivity.
  cbn [erase_res omap obind fst snd].
  destruct a; cbn [erase_action]; try reflexivity.
  change (set_state (erase_parser p') s) with (erase_parser (set_state p' s)). apply IH.
Qed.

Theorem feed_erase p t : feed (erase_parser p) (erase_tok t) = omap erase_parser (feed p t).
Proof.
  unfold feed. replace (feed_fuel (erase_parser p)) with (feed_fuel p); [apply feed_loop_erase|].
  unfold feed_fuel. cbn [erase_parser p_stack]. rewrite map_length. reflexivity.
Qed.

(** tokens equal up to their locations, parser states equal up to locations: so are the results *)
Corollary feed_sim p p' t t' : erase_parser p = erase_parser p' -> erase_tok t = erase_tok t' ->
  omap erase_parser (feed p t) = omap erase_parser (feed p' t').
Proof. intros Hp Ht. rewrite <- !feed_erase, Hp, Ht. reflexivity. Qed.

Lemma get_results_erase p :
  map erase_stmt (fst (get_results p)) = fst (get_results (erase_parser p))
  /\ erase_parser (snd (get_results p)) = snd (get_results (erase_parser p)).
Proof. split; reflexivity. Qed.

Lemma erase_tok_iff t t' : erase_tok t = erase_tok t' <-> (tk_type t = tk_type t' /\ tk_val t = tk_val t').
Proof.
  destruct t, t'; unfold erase_tok; cbn. split.
  - intros H; injection H; auto.
  - intros [-> ->]. reflexivity.
Qed.
