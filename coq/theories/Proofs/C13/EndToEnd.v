(** C13, end to end: the whole pipeline (Interp/Run.v [run_src], the concrete library and catalogue)
    on a source and on an edited source; and the line terminators. *)
From RS Require Import Proofs.BytesLemmas.
From RS Require Import Base.Bytes Base.Outcome Base.Utf8 Bind.Types Pkt.Packet Pkt.Pcap
  Lex.Tokens Lex.Scanner Parse.Automaton Interp.Val Interp.Ast Interp.Eval Interp.Cli Interp.Run
  Lib.LibBase Lib.StdLib.
From RSGen Require Import Catalogue.
From RS.Proofs.C13 Require Import LexCuts LexEdit ParseErase EvalErase CliErase.
Open Scope list_scope.
Open Scope N_scope.

(** two results of compiling that a user cannot tell apart except for the line:column of the
    diagnostics: the same pcap bytes, as many warnings, the same library calls; or the same error
    kind and the same packets written before it *)
Definition run_same (r r' : run_result) : Prop :=
  match r, r' with
  | RunOk pcap ws tr, RunOk pcap' ws' tr' => pcap = pcap' /\ length ws = length ws' /\ tr = tr'
  | RunErr e _ part, RunErr e' _ part' => e = e' /\ part = part'
  | RunPanic s, RunPanic s' => s = s'
  | _, _ => False
  end.

Lemma norm_fields p p' : norm p = norm p' ->
  p_out p = p_out p' /\ p_trace p = p_trace p' /\ length (p_warnings p) = length (p_warnings p')
  /\ p_now p = p_now p' /\ p_heap p = p_heap p' /\ p_regs p = p_regs p'.
Proof.
  intros H. repeat split.
  - exact (f_equal p_out H).
  - exact (f_equal p_trace H).
  - pose proof (f_equal (fun q => length (p_warnings q)) H) as L. cbn in L. rewrite !map_length in L. exact L.
  - exact (f_equal p_now H).
  - exact (f_equal p_heap H).
  - exact (f_equal p_regs H).
Qed.

Lemma cli_sim_run_same files src src' :
  cli_sim (process_file catalogue class_table module_table (exec {| env_files := files |}) src)
          (process_file catalogue class_table module_table (exec {| env_files := files |}) src') ->
  run_same (run_src files src) (run_src files src').
Proof.
  unfold run_src, cli_sim.
  destruct (process_file _ _ _ _ src) as [p|e l p|s]; destruct (process_file _ _ _ _ src') as [p'|e' l' p'|s'];
    cbn [cli_norm]; intros H; try discriminate; cbn [run_same].
  - assert (N : norm p = norm p') by congruence. destruct (norm_fields _ _ N) as (O & T & W & _).
    unfold pcap_of. rewrite !frev_rev, O, T, !rev_length. auto.
  - assert (N : norm p = norm p') by congruence. destruct (norm_fields _ _ N) as (O & _).
    unfold pcap_of. rewrite !frev_rev, O. split; congruence.
  - congruence.
Qed.

(** for every source and every sequence of the edits of LexEdit.v / CliErase.v on its lines *)
Theorem edited_run_same files src src' :
  edited (split_lines src) (split_lines src') -> run_same (run_src files src) (run_src files src').
Proof. intros H. apply cli_sim_run_same. apply edited_source_same. exact H. Qed.

(* ------------------------------------------------------------------ line terminators *)
Definition join_lf (ls : list bytes) : bytes := concat (map (fun l => l ++ [10]) ls).
Definition join_crlf (ls : list bytes) : bytes := concat (map (fun l => l ++ [13; 10]) ls).

Lemma split_step c r cur : c <> 10 -> split_lines_aux (c :: r) cur = split_lines_aux r (c :: cur).
Proof.
  intros H. destruct c as [|p]; [reflexivity|].
  do 5 (try (destruct p as [p|p|]; try reflexivity)). congruence.
Qed.

Definition strip_cr (x : bytes) : bytes := match x with 13 :: c' => rev c' | _ => rev x end.

Lemma split_line : forall l cur rest, ~ In 10 l ->
  split_lines_aux (l ++ 10 :: rest) cur = strip_cr (rev l ++ cur) :: split_lines_aux rest [].
Proof.
  induction l as [|c l IH]; intros cur rest H.
  - reflexivity.
  - cbn [app]. rewrite split_step by (intros E; apply H; left; exact E).
    rewrite IH by (intros E; apply H; right; exact E). cbn [rev]. rewrite <- app_assoc. reflexivity.
Qed.

Theorem split_join_crlf : forall ls, Forall (fun l => ~ In 10 l) ls -> split_lines (join_crlf ls) = ls.
Proof.
  unfold split_lines, join_crlf. induction 1 as [|l r Hl _ IH]; [reflexivity|].
  cbn [map concat]. rewrite <- !app_assoc. cbn [app].
  replace (l ++ 13 :: 10 :: concat (map (fun l0 => l0 ++ [13; 10]) r))
    with ((l ++ [13]) ++ 10 :: concat (map (fun l0 => l0 ++ [13; 10]) r)) by (rewrite <- app_assoc; reflexivity).
  rewrite split_line.
  - rewrite rev_app_distr. cbn [rev app]. unfold strip_cr. rewrite app_nil_r, rev_involutive. f_equal. exact IH.
  - intros E. apply in_app_or in E. destruct E as [E|[E|[]]]; [exact (Hl E)|discriminate].
Qed.

Lemma strip_cr_other c q : c <> 13 -> strip_cr (c :: q) = rev (c :: q).
Proof.
  intros H. unfold strip_cr. destruct c as [|p]; [reflexivity|].
  do 5 (try (destruct p as [p|p|]; try reflexivity)). congruence.
Qed.

Theorem split_join_lf : forall ls, Forall (fun l => ~ In 10 l /\ last l 0 <> 13) ls -> split_lines (join_lf ls) = ls.
Proof.
  unfold split_lines, join_lf. induction 1 as [|l r [Hl Hc] _ IH]; [reflexivity|].
  cbn [map concat]. rewrite <- !app_assoc. cbn [app]. rewrite split_line by exact Hl.
  rewrite app_nil_r. f_equal; [|exact IH].
  destruct (rev l) as [|c q] eqn:E; [apply (f_equal (@rev N)) in E; rewrite rev_involutive in E; subst; reflexivity|].
  assert (L : last l 0 = c).
  { apply (f_equal (@rev N)) in E. rewrite rev_involutive in E. subst l. cbn [rev]. apply last_last. }
  rewrite strip_cr_other by congruence. rewrite <- E. apply rev_involutive.
Qed.

(** a file with CRLF line ends compiles exactly (locations included) like the same file with LF *)
Corollary crlf_irrelevant files ls : Forall (fun l => ~ In 10 l /\ last l 0 <> 13) ls ->
  run_src files (join_crlf ls) = run_src files (join_lf ls).
Proof.
  intros H. unfold run_src, process_file. rewrite split_join_lf by exact H.
  rewrite split_join_crlf; [reflexivity|]. eapply Forall_impl; [|exact H]. intros l [Q _]. exact Q.
Qed.
