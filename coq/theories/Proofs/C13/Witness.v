(** C13: a concrete source, a sequence of edits of it that satisfy the hypotheses of the theorems,
    and two insertions of blank space that do not (inside :: and inside a string literal), which do
    change the result. *)
From RS Require Import Base.Bytes Base.Outcome Base.Utf8 Lex.Tokens Lex.LexSpec Interp.Run Interp.Cli.
From RS.Proofs.C13 Require Import LexCuts LexEdit CliErase EndToEnd.
From Coq Require Import Relations.
Open Scope list_scope.

Definition tx (s : string) : bytes := bytes_of_string s.

Definition L1 := tx "import ipv4;".
Definition L2 := tx "let f = ipv4::udp::flow(1.2.3.4:1, 5.6.7.8:2);".
Definition L3 := tx "f.client_dgram(""ab"" ""cd"");".
Definition lines1 := [L1; L2; L3].

(* a // comment appended; a line of blank space and a # comment inserted; a tab and a no-break
   space (U+00A0) inserted after an opening parenthesis; blank space inserted at the start of a
   line and between two adjacent string literals *)
Definition L1' := L1 ++ tx "// first".
Definition T := tx "  # x".
Definition L2' := tx "let f = ipv4::udp::flow(" ++ [9; 194; 160] ++ tx "1.2.3.4:1, 5.6.7.8:2);".
Definition L3' := tx "  " ++ L3.
Definition L3'' := tx "  f.client_dgram(""ab""" ++ tx " " ++ tx " ""cd"");".
Definition lines2 := [L1'; T; L2'; L3''].

(* not at a lexeme boundary *)
Definition L2bad := tx "let f = ipv4:" ++ tx " " ++ tx ":udp::flow(1.2.3.4:1, 5.6.7.8:2);".
Definition L3bad := tx "f.client_dgram(""a" ++ tx " " ++ tx "b"" ""cd"");".

Ltac blank_edit := apply LE_blank; [vm_compute; reflexivity|apply boundaryb_sound; vm_compute; reflexivity|
                                    apply blank_runb_sound; vm_compute; reflexivity].

Lemma step1 : lines_edit lines1 [L1'; L2; L3].
Proof.
  apply (ED_line [] L1 L1' [L2; L3]). apply LE_comment;
    [vm_compute; reflexivity|apply boundaryb_sound; vm_compute; reflexivity|
     apply comment_textb_sound; vm_compute; reflexivity|vm_compute; reflexivity|vm_compute; discriminate].
Qed.
Lemma step2 : lines_edit [L1'; L2; L3] [L1'; T; L2; L3].
Proof.
  apply (ED_insert [L1'] T [L2; L3]). exists (tx "  "), (tx "# x"). split; [reflexivity|].
  split; [vm_compute; reflexivity|]. right. split; [apply comment_textb_sound|]; vm_compute; reflexivity.
Qed.
Lemma step3 : lines_edit [L1'; T; L2; L3] [L1'; T; L2'; L3].
Proof.
  apply (ED_line [L1'; T] L2 L2' [L3]).
  change (line_edit (tx "let f = ipv4::udp::flow(" ++ tx "1.2.3.4:1, 5.6.7.8:2);")
                    (tx "let f = ipv4::udp::flow(" ++ [9; 194; 160] ++ tx "1.2.3.4:1, 5.6.7.8:2);")).
  blank_edit.
Qed.
Lemma step4 : lines_edit [L1'; T; L2'; L3] [L1'; T; L2'; L3'].
Proof. apply (ED_line [L1'; T; L2'] L3 L3' []). change (line_edit ([] ++ L3) ([] ++ tx "  " ++ L3)). blank_edit. Qed.
Lemma step5 : lines_edit [L1'; T; L2'; L3'] lines2.
Proof.
  apply (ED_line [L1'; T; L2'] L3' L3'' []).
  change (line_edit (tx "  f.client_dgram(""ab""" ++ tx " ""cd"");") (tx "  f.client_dgram(""ab""" ++ tx " " ++ tx " ""cd"");")).
  blank_edit.
Qed.

Definition ok_with (n : nat) (r : run_result) : Prop :=
  match r with RunOk pcap ws _ => length pcap = n /\ ws = [] | _ => False end.

Theorem witness :
  edited lines1 lines2
  /\ split_lines (join_lf lines1) = lines1 /\ split_lines (join_crlf lines2) = lines2
  /\ ok_with 86 (run_src [] (join_lf lines1))
  /\ run_src [] (join_crlf lines2) = run_src [] (join_lf lines1)
  (* blank space between the two colons of :: is not at a lexeme boundary, and is a parse error *)
  /\ boundaryb (tx "let f = ipv4:") (tx ":udp::flow(1.2.3.4:1, 5.6.7.8:2);") = false
  /\ (exists l part, run_src [] (join_lf [L1; L2bad; L3]) = RunErr EParse l part)
  (* blank space inside a string literal is not at a lexeme boundary, and is payload *)
  /\ boundaryb (tx "f.client_dgram(""a") (tx "b"" ""cd"");") = false
  /\ ok_with 87 (run_src [] (join_lf [L1; L2; L3bad])).
Proof.
  split.
  { eapply rst_trans; [apply rst_step, step1|]. eapply rst_trans; [apply rst_step, step2|].
    eapply rst_trans; [apply rst_step, step3|]. eapply rst_trans; [apply rst_step, step4|]. apply rst_step, step5. }
  split; [vm_compute; reflexivity|]. split; [vm_compute; reflexivity|].
  split; [vm_compute; split; reflexivity|]. split; [vm_compute; reflexivity|].
  split; [vm_compute; reflexivity|]. split; [eexists; eexists; vm_compute; reflexivity|].
  split; [vm_compute; reflexivity|]. vm_compute; split; reflexivity.
Qed.
